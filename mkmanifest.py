#!/usr/bin/env python3
"""Regenerates MANIFEST.json from checks.json (the single source of truth for per-property config)."""
import json, os, subprocess
V = os.path.dirname(os.path.abspath(__file__))
cfg = {n[:-5]: json.load(open(os.path.join(V, "checks.d", n))) for n in sorted(os.listdir(os.path.join(V, "checks.d"))) if n.endswith(".json")}
baseline = json.load(open("/root/.vp/BASELINE.json"))
props_ids = {json.loads(l)["id"] for l in open(os.path.join(V, "properties.jsonl")) if l.strip()}
cfg = {k: v for k, v in cfg.items() if k in props_ids}   # auxiliary checks (e.g. GRP) are not properties
hooks_commits = []
try:
    out = subprocess.run(["git", "-C", "/repo", "log", "--format=%H %s"], capture_output=True, text=True).stdout
    hooks_commits = [l.split()[0] for l in out.splitlines() if l.split(" ", 1)[1].startswith("verif hooks")]
except Exception:
    pass
man = {
    "version": 1,
    "setup_cmd": "./check --setup",
    "hooks": {
        "guard": "verif",
        "enable": "go build -tags verif (the harness module replaces github.com/shogo82148/goat by /repo)",
        "baseline_off_cmd": baseline["cmd"],
        "source_commits": hooks_commits,
        "add_only": True,
    },
    "engines": [
        {"name": "lean-proof", "path": "lean/", "serves_properties": sorted(k for k, v in cfg.items() if v.get("claimed")),
         "kind_free_text": "Lean 4 models + property theorems (lake build, #print axioms audit)"},
        {"name": "translator", "path": "translator/", "serves_properties": sorted(k for k, v in cfg.items() if v.get("claimed")),
         "kind_free_text": "Go->Lean regeneration of constants/tables/limb programs on every run"},
        {"name": "correspondence-harness", "path": "harness/", "serves_properties": sorted(k for k, v in cfg.items() if v.get("claimed")),
         "kind_free_text": "runs the model's executable definitions (Lean driver) and the real Go code on the same inputs; searches for replays"},
    ],
    "checks": [],
    "not_applicable": [],
    "notes": "See DESIGN.md. Every check: regenerate -> lake build theorems -> axiom audit -> correspondence -> evidence.",
}
for pid in sorted(cfg):
    c = cfg[pid]
    if not c.get("claimed"):
        man["not_applicable"].append({"property_id": pid, "reason": c.get("na_reason", "check under construction in this round; not yet claimed")})
        continue
    man["checks"].append({
        "property_id": pid,
        "quick_cmd": "./check %s quick" % pid,
        "thorough_cmd": "./check %s thorough" % pid,
        "evidence_file": "/verif/evidence/%s.json" % pid,
        "replay_cmd_template": "./check %s --replay {path}" % pid,
        "engine": "lean-proof",
        "level_claimed": {"category": c.get("level", "proof"), "text": c["level_text"], "design_ref": c.get("design_ref", "DESIGN.md §7 " + pid)},
        "level_note": c["level_note"],
        "technique": c.get("technique", "Lean 4 theorem about a model tied to the code by differential correspondence"),
    })
json.dump(man, open(os.path.join(V, "MANIFEST.json"), "w"), indent=1)
print("MANIFEST.json: %d checks, %d not_applicable" % (len(man["checks"]), len(man["not_applicable"])))
