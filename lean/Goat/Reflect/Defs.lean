/-
Reflective arithmetic checker — definitions (core Lean only; soundness is proved in
GoatProofs/Reflect/*).  DESIGN.md §4.

A straight-line limb program is *data* (`Prog`), regenerated from the Go source on every run.
Two concrete semantics (`exec true`: machine — 64-bit wrap; `exec false`: ideal — in ℤ) and one
abstract interpreter (`arun`) that computes for every SSA variable an interval, a known power of
two dividing it, a polynomial over earlier variables ("atoms"), and a provenance used to link
`shr/low`, `mulHi/mulLo`, `carry/add64`, `borrow/sub64` pairs.  `check` is a `Bool`; its
soundness theorem turns `check P cfg = true` (by `decide +kernel`) into statements about *all*
inputs within the input bounds.
-/
namespace Reflect

/-- one SSA operation; operands are absolute variable indices (inputs first, then one variable per
    op); `q` fields are translator hints naming an earlier variable, always *verified* by the checker -/
inductive Op where
  | const (c : Int)
  | add (a b : Nat)
  | addA (a b : Nat)                      -- a + b whose no-overflow is a named side obligation
  | sub (a b : Nat)
  | mul (a b : Nat)
  | shl (a k : Nat) (q : Option Nat)      -- a << k   (q: variable holding a >> (64-k), unsigned wrap case)
  | shr (a k : Nat)                       -- a >> k   (logical for unsigned, arithmetic for signed)
  | low (a k : Nat) (q : Option Nat)      -- a & (2^k-1)   (q: variable holding a >> k)
  | orr (a b : Nat)                       -- a | b   (accepted only when provably disjoint)
  | mulHi (a b : Nat)                     -- high word of bits.Mul64
  | mulLo (a b : Nat) (q : Option Nat)    -- low word of bits.Mul64 (q: the mulHi of the same operands)
  | carry (a b c : Nat)                   -- carry-out of bits.Add64
  | add64 (a b c : Nat) (q : Option Nat)  -- sum of bits.Add64 (q: its carry)
  | borrow (a b c : Nat)                  -- borrow-out of bits.Sub64
  | sub64 (a b c : Nat) (q : Option Nat)  -- difference of bits.Sub64 (q: its borrow)
deriving Repr, BEq, Inhabited

structure Prog where
  signed : Bool          -- int64 program (two's complement, arithmetic shift) or uint64 program
  nIn : Nat
  body : List Op
  outs : List Nat
deriving Inhabited

def W64 : Int := 18446744073709551616     -- 2^64
def W63 : Int := 9223372036854775808      -- 2^63

/-- wrap to the machine representative -/
def wrap (signed : Bool) (x : Int) : Int :=
  if signed then (x + W63) % W64 - W63 else x % W64

def minV (signed : Bool) : Int := if signed then -W63 else 0
def maxV (signed : Bool) : Int := if signed then W63 - 1 else W64 - 1

/-- lookup in a reversed trace of length `n` by absolute index -/
def cget (tr : List Int) (n i : Nat) : Int := tr.getD (n - 1 - i) 0

/-- value of one op. `mach = true`: machine semantics (results of + - * << wrap);
    `mach = false`: ideal semantics in ℤ.  All other ops have a single meaning. -/
def evalOp (mach signed : Bool) (g : Nat → Int) : Op → Int
  | .const c => if mach then wrap signed c else c
  | .add a b => if mach then wrap signed (g a + g b) else g a + g b
  | .addA a b => if mach then wrap signed (g a + g b) else g a + g b
  | .sub a b => if mach then wrap signed (g a - g b) else g a - g b
  | .mul a b => if mach then wrap signed (g a * g b) else g a * g b
  | .shl a k _ =>
    if signed then (if mach then wrap signed (g a * 2 ^ k) else g a * 2 ^ k)
    else (g a * 2 ^ k) % W64
  | .shr a k => g a / 2 ^ k
  | .low a k _ => g a % 2 ^ k
  | .orr a b => Int.ofNat ((g a).toNat ||| (g b).toNat)
  | .mulHi a b => (g a * g b) / W64
  | .mulLo a b _ => (g a * g b) % W64
  | .carry a b c => (g a + g b + g c) / W64
  | .add64 a b c _ => (g a + g b + g c) % W64
  | .borrow a b c => -((g a - g b - g c) / W64)
  | .sub64 a b c _ => (g a - g b - g c) % W64

/-- run a body on a reversed trace of length `n`; returns the final reversed trace -/
def exec (mach signed : Bool) : List Op → List Int → Nat → List Int
  | [], tr, _ => tr
  | op :: rest, tr, n => exec mach signed rest (evalOp mach signed (cget tr n) op :: tr) (n + 1)

def Prog.run (mach : Bool) (P : Prog) (ins : List Int) : List Int :=
  exec mach P.signed P.body ins.reverse P.nIn

/-- output values of a program run -/
def Prog.outputs (mach : Bool) (P : Prog) (ins : List Int) : List Int :=
  let tr := P.run mach ins
  P.outs.map (fun o => cget tr (P.nIn + P.body.length) o)

/-! ## polynomials over atoms (variable indices) -/

abbrev Mono := List Nat
abbrev Poly := List (Mono × Int)

def evalMono (ρ : Nat → Int) : Mono → Int
  | [] => 1
  | x :: xs => ρ x * evalMono ρ xs

def evalPoly (ρ : Nat → Int) : Poly → Int
  | [] => 0
  | (m, c) :: rest => c * evalMono ρ m + evalPoly ρ rest

/-- lexicographic order on monomials: -1 / 0 / 1 -/
def monoCmp : Mono → Mono → Ordering
  | [], [] => .eq
  | [], _ :: _ => .lt
  | _ :: _, [] => .gt
  | x :: xs, y :: ys => if x < y then .lt else if y < x then .gt else monoCmp xs ys

/-- merge of two term lists (sorted lists stay sorted; equal monomials are combined; zero
    coefficients dropped).  Correct for *any* lists: only completeness needs sortedness. -/
def pmerge : Nat → Poly → Poly → Poly
  | 0, p, q => p ++ q
  | _ + 1, [], q => q
  | _ + 1, p, [] => p
  | fuel + 1, (m, c) :: p, (m', c') :: q =>
    match monoCmp m m' with
    | .lt => (m, c) :: pmerge fuel p ((m', c') :: q)
    | .gt => (m', c') :: pmerge fuel ((m, c) :: p) q
    | .eq =>
      if m = m' then
        (if c + c' = 0 then pmerge fuel p q else (m, c + c') :: pmerge fuel p q)
      else (m, c) :: (m', c') :: pmerge fuel p q

def padd (p q : Poly) : Poly := pmerge (p.length + q.length + 1) p q

def pscale (c : Int) (p : Poly) : Poly :=
  if c = 0 then [] else p.map (fun t => (t.1, c * t.2))

def pneg (p : Poly) : Poly := p.map (fun t => (t.1, - t.2))

def psub (p q : Poly) : Poly := padd p (pneg q)

/-- insert a variable into a sorted monomial -/
def monoIns (x : Nat) : Mono → Mono
  | [] => [x]
  | y :: ys => if x ≤ y then x :: y :: ys else y :: monoIns x ys

def monoMul (a b : Mono) : Mono := a.foldr monoIns b

def pmulTerm (m : Mono) (c : Int) : Poly → Poly
  | [] => []
  | (m', c') :: q => padd [(monoMul m m', c * c')] (pmulTerm m c q)

def pmul : Poly → Poly → Poly
  | [], _ => []
  | (m, c) :: p, q => padd (pmulTerm m c q) (pmul p q)

def pconst (c : Int) : Poly := if c = 0 then [] else [([], c)]
def patom (x : Nat) : Poly := [([x], 1)]

/-- every coefficient divisible by `m` (`m = 0`: every coefficient zero) -/
def allDiv (m : Int) : Poly → Bool
  | [] => true
  | (_, c) :: rest => (c % m == 0) && allDiv m rest

/-! ## abstract values -/

inductive Prov where
  | none
  | shr (a k : Nat)
  | shl (a k : Nat)
  | mulHi (a b : Nat)
  | carry (a b c : Nat)
  | borrow (a b c : Nat)
deriving DecidableEq, Repr, Inhabited

structure AV where
  lo : Int
  hi : Int
  tz : Nat            -- 2^tz divides the value
  poly : Poly
  prov : Prov
deriving Inhabited

def aget (env : List AV) (n i : Nat) : AV := env.getD (n - 1 - i) default

def inRange (signed : Bool) (lo hi : Int) : Bool := decide (minV signed ≤ lo) && decide (hi ≤ maxV signed)

def min4 (a b c d : Int) : Int := min (min a b) (min c d)
def max4 (a b c d : Int) : Int := max (max a b) (max c d)

/-- polynomial of a quotient-like variable: zero when the interval proves it, else its own atom -/
def qpoly (n : Nat) (lo hi : Int) : Poly := if lo = 0 ∧ hi = 0 then [] else patom n

/-- abstract transfer function of one op at position `n` (the op defines variable `n`);
    `none` = the check fails. -/
def astep (signed : Bool) (env : List AV) (n : Nat) : Op → Option AV
  | .const c =>
    if inRange signed c c then some ⟨c, c, 0, pconst c, .none⟩ else none
  | .add a b =>
    if a < n ∧ b < n then
      let x := aget env n a; let y := aget env n b
      let lo := x.lo + y.lo; let hi := x.hi + y.hi
      if inRange signed lo hi then some ⟨lo, hi, min x.tz y.tz, padd x.poly y.poly, .none⟩ else none
    else none
  | .addA a b =>
    -- like `add`, but when the interval cannot exclude overflow the result is clamped and the
    -- no-overflow fact becomes a side obligation of the soundness theorem (`SideOK`)
    if a < n ∧ b < n then
      let x := aget env n a; let y := aget env n b
      let lo := x.lo + y.lo; let hi := x.hi + y.hi
      if inRange signed lo hi then some ⟨lo, hi, min x.tz y.tz, padd x.poly y.poly, .none⟩
      else if inRange signed lo lo then some ⟨lo, maxV signed, min x.tz y.tz, padd x.poly y.poly, .none⟩
      else none
    else none
  | .sub a b =>
    if a < n ∧ b < n then
      let x := aget env n a; let y := aget env n b
      -- idiom  a - ((a >> k) << k)  =  a mod 2^k
      let tight : Option Nat :=
        match y.prov with
        | .shl q k => if q < n then (match (aget env n q).prov with
            | .shr a' k' => if a' = a ∧ k' = k then some k else none
            | _ => none) else none
        | _ => none
      match tight with
      | some k =>
        if inRange signed 0 (2 ^ k - 1) then some ⟨0, 2 ^ k - 1, 0, psub x.poly y.poly, .none⟩ else none
      | none =>
        let lo := x.lo - y.hi; let hi := x.hi - y.lo
        if inRange signed lo hi then some ⟨lo, hi, min x.tz y.tz, psub x.poly y.poly, .none⟩ else none
    else none
  | .mul a b =>
    if a < n ∧ b < n then
      let x := aget env n a; let y := aget env n b
      let lo := min4 (x.lo * y.lo) (x.lo * y.hi) (x.hi * y.lo) (x.hi * y.hi)
      let hi := max4 (x.lo * y.lo) (x.lo * y.hi) (x.hi * y.lo) (x.hi * y.hi)
      if inRange signed lo hi then some ⟨lo, hi, 0, pmul x.poly y.poly, .none⟩ else none
    else none
  | .shl a k q =>
    if a < n then
      let x := aget env n a
      let lo := x.lo * 2 ^ k; let hi := x.hi * 2 ^ k
      if inRange signed lo hi then
        some ⟨lo, hi, x.tz + k, pscale (2 ^ k) x.poly, .shl a k⟩
      else if signed then none
      else
        match q with
        | some q' =>
          if q' < n ∧ k ≤ 64 ∧ 0 ≤ x.lo ∧ (aget env n q').prov = .shr a (64 - k) then
            some ⟨0, W64 - 2 ^ k, k, psub (pscale (2 ^ k) x.poly) (pscale W64 (patom q')), .none⟩
          else none
        | Option.none => none
    else none
  | .shr a k =>
    if a < n then
      let x := aget env n a
      let lo := x.lo / 2 ^ k; let hi := x.hi / 2 ^ k
      some ⟨lo, hi, 0, qpoly n lo hi, .shr a k⟩
    else none
  | .low a k q =>
    if a < n then
      let x := aget env n a
      if 0 ≤ x.lo ∧ x.hi < 2 ^ k then some ⟨x.lo, x.hi, x.tz, x.poly, .none⟩
      else
        let p : Poly := match q with
          | some q' =>
            if q' < n ∧ (aget env n q').prov = .shr a k
            then psub x.poly (pscale (2 ^ k) (patom q'))
            else
              -- nested shifts are normalised by the translator: a = a₀ >> k₀ and q' = a₀ >> (k₀+k)
              (match x.prov with
               | .shr a0 k0 =>
                 if q' < n ∧ (aget env n q').prov = .shr a0 (k0 + k)
                 then psub x.poly (pscale (2 ^ k) (patom q')) else patom n
               | _ => patom n)
          | Option.none => patom n
        some ⟨0, 2 ^ k - 1, 0, p, .none⟩
    else none
  | .orr a b =>
    if a < n ∧ b < n then
      let x := aget env n a; let y := aget env n b
      if 0 ≤ x.lo ∧ 0 ≤ y.lo ∧ y.hi < 2 ^ x.tz then
        let lo := x.lo + y.lo; let hi := x.hi + y.hi
        if inRange signed lo hi then some ⟨lo, hi, 0, padd x.poly y.poly, .none⟩ else none
      else if 0 ≤ x.lo ∧ 0 ≤ y.lo ∧ x.hi < 2 ^ y.tz then
        let lo := x.lo + y.lo; let hi := x.hi + y.hi
        if inRange signed lo hi then some ⟨lo, hi, 0, padd x.poly y.poly, .none⟩ else none
      else none
    else none
  | .mulHi a b =>
    if a < n ∧ b < n ∧ !signed then
      let x := aget env n a; let y := aget env n b
      if 0 ≤ x.lo ∧ 0 ≤ y.lo then
        let lo := (x.lo * y.lo) / W64; let hi := (x.hi * y.hi) / W64
        some ⟨lo, hi, 0, qpoly n lo hi, .mulHi a b⟩
      else none
    else none
  | .mulLo a b q =>
    if a < n ∧ b < n ∧ !signed then
      let x := aget env n a; let y := aget env n b
      if 0 ≤ x.lo ∧ 0 ≤ y.lo then
        if x.hi * y.hi < W64 then
          some ⟨x.lo * y.lo, x.hi * y.hi, 0, pmul x.poly y.poly, .none⟩
        else
          let p : Poly := match q with
            | some q' => if q' < n ∧ (aget env n q').prov = .mulHi a b
                then psub (pmul x.poly y.poly) (pscale W64 (patom q')) else patom n
            | Option.none => patom n
          some ⟨0, W64 - 1, 0, p, .none⟩
      else none
    else none
  | .carry a b c =>
    if a < n ∧ b < n ∧ c < n ∧ !signed then
      let x := aget env n a; let y := aget env n b; let z := aget env n c
      if 0 ≤ x.lo ∧ 0 ≤ y.lo ∧ 0 ≤ z.lo then
        let lo := (x.lo + y.lo + z.lo) / W64; let hi := (x.hi + y.hi + z.hi) / W64
        some ⟨lo, hi, 0, qpoly n lo hi, .carry a b c⟩
      else none
    else none
  | .add64 a b c q =>
    if a < n ∧ b < n ∧ c < n ∧ !signed then
      let x := aget env n a; let y := aget env n b; let z := aget env n c
      if 0 ≤ x.lo ∧ 0 ≤ y.lo ∧ 0 ≤ z.lo then
        let s := padd (padd x.poly y.poly) z.poly
        if x.hi + y.hi + z.hi < W64 then
          some ⟨x.lo + y.lo + z.lo, x.hi + y.hi + z.hi, 0, s, .none⟩
        else
          let p : Poly := match q with
            | some q' => if q' < n ∧ (aget env n q').prov = .carry a b c
                then psub s (pscale W64 (patom q')) else patom n
            | Option.none => patom n
          some ⟨0, W64 - 1, 0, p, .none⟩
      else none
    else none
  | .borrow a b c =>
    if a < n ∧ b < n ∧ c < n ∧ !signed then
      let x := aget env n a; let y := aget env n b; let z := aget env n c
      let dlo := x.lo - y.hi - z.hi; let dhi := x.hi - y.lo - z.lo
      let lo := -(dhi / W64); let hi := -(dlo / W64)
      some ⟨lo, hi, 0, qpoly n lo hi, .borrow a b c⟩
    else none
  | .sub64 a b c q =>
    if a < n ∧ b < n ∧ c < n ∧ !signed then
      let x := aget env n a; let y := aget env n b; let z := aget env n c
      let dlo := x.lo - y.hi - z.hi; let dhi := x.hi - y.lo - z.lo
      let d := psub (psub x.poly y.poly) z.poly
      if 0 ≤ dlo ∧ dhi < W64 then some ⟨dlo, dhi, 0, d, .none⟩
      else
        let p : Poly := match q with
          | some q' => if q' < n ∧ (aget env n q').prov = .borrow a b c
              then padd d (pscale W64 (patom q')) else patom n
          | Option.none => patom n
        some ⟨0, W64 - 1, 0, p, .none⟩
    else none

/-- abstract run; the position counter is compared with the declared start so that it is forced -/
def arun (signed : Bool) : List Op → List AV → Nat → Option (List AV)
  | [], env, _ => some env
  | op :: rest, env, n =>
    match astep signed env n op with
    | some v => arun signed rest (v :: env) (n + 1)
    | none => none

/-- input description: bounds of each input variable -/
structure Cfg where
  inLo : List Int
  inHi : List Int
  obs : List Nat            -- observed variables (usually the program outputs; any variables may be observed)
  outLo : List Int          -- claimed bounds of the observed variables (same length as obs)
  outHi : List Int
  weights : List Int        -- Σ weights_k · out_k
  spec : Poly               -- over input atoms
  modulus : Int             -- ≡ spec (mod modulus); 0 = equality

def initList : Nat → List Int → List Int → List AV
  | i, lo :: los, hi :: his => ⟨lo, hi, 0, patom i, .none⟩ :: initList (i + 1) los his
  | _, _, _ => []

def initEnv (los his : List Int) : List AV := (initList 0 los his).reverse

def inputsOk (signed : Bool) : List Int → List Int → Bool
  | [], [] => true
  | lo :: los, hi :: his => decide (lo ≤ hi) && inRange signed lo hi && inputsOk signed los his
  | _, _ => false

def outsOk (env : List AV) (n : Nat) : List Nat → List Int → List Int → Bool
  | [], [], [] => true
  | o :: os, lo :: los, hi :: his =>
    decide (o < n) && decide (lo ≤ (aget env n o).lo) && decide ((aget env n o).hi ≤ hi) && outsOk env n os los his
  | _, _, _ => false

def weighted (env : List AV) (n : Nat) : List Nat → List Int → Poly
  | o :: os, w :: ws => padd (pscale w (aget env n o).poly) (weighted env n os ws)
  | _, _ => []

def specAtomsOk (nIn : Nat) : Poly → Bool
  | [] => true
  | (m, _) :: rest => m.all (· < nIn) && specAtomsOk nIn rest

def check (P : Prog) (cfg : Cfg) : Bool :=
  cfg.inLo.length == P.nIn && cfg.inHi.length == P.nIn &&
  inputsOk P.signed cfg.inLo cfg.inHi &&
  match arun P.signed P.body (initEnv cfg.inLo cfg.inHi) P.nIn with
  | none => false
  | some env =>
    let n := P.nIn + P.body.length
    outsOk env n cfg.obs cfg.outLo cfg.outHi &&
    cfg.weights.length == cfg.obs.length &&
    specAtomsOk P.nIn cfg.spec &&
    allDiv cfg.modulus (psub (weighted env n cfg.obs cfg.weights) cfg.spec)

/-- one linear claim about observed variables -/
structure Claim where
  obs : List Nat
  outLo : List Int
  outHi : List Int
  weights : List Int
  spec : Poly
  modulus : Int

def claimOk (env : List AV) (n nIn : Nat) (c : Claim) : Bool :=
  outsOk env n c.obs c.outLo c.outHi &&
  c.weights.length == c.obs.length &&
  specAtomsOk nIn c.spec &&
  allDiv c.modulus (psub (weighted env n c.obs c.weights) c.spec)

/-- several claims (and an arbitrary recogniser over the abstract environment) checked with ONE
    abstract run — the run dominates the kernel cost of large programs -/
def checkMulti (P : Prog) (inLo inHi : List Int) (claims : List Claim) (extra : List AV → Nat → Bool) : Bool :=
  inLo.length == P.nIn && inHi.length == P.nIn &&
  inputsOk P.signed inLo inHi &&
  match arun P.signed P.body (initEnv inLo inHi) P.nIn with
  | none => false
  | some env =>
    let n := P.nIn + P.body.length
    claims.all (claimOk env n P.nIn) && extra env n

/-- the abstract environment computed by a successful check (exported by the soundness theorem) -/
def absEnv (P : Prog) (cfg : Cfg) : Option (List AV) :=
  arun P.signed P.body (initEnv cfg.inLo cfg.inHi) P.nIn

/-- operands of the `addA` ops: the side obligations of a program -/
def sideOps : List Op → List (Nat × Nat)
  | [] => []
  | .addA a b :: rest => (a, b) :: sideOps rest
  | _ :: rest => sideOps rest

/-- the same program cut after its first `k` ops (for establishing facts that discharge side obligations) -/
def Prog.take (P : Prog) (k : Nat) : Prog := { P with body := P.body.take k }

/-- diagnostic: index of the first op on which the abstract run fails (for the search step) -/
def firstFail (signed : Bool) : List Op → List AV → Nat → Option Nat
  | [], _, _ => none
  | op :: rest, env, n =>
    match astep signed env n op with
    | some v => firstFail signed rest (v :: env) (n + 1)
    | none => some n

end Reflect
