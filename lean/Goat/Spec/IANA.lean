import Goat.Base.Wire
/-
Spec.IANA — the registered JWK identifiers and value encodings, written from the RFC text
(not from goat's source).  Nothing in this file refers to `Gen.Consts` or to a model.

  RFC 7517 §4      common members  kty use key_ops alg kid x5u x5c x5t x5t#S256
  RFC 7518 §6.1    kty values      "EC" "RSA" "oct"
  RFC 7518 §6.2    EC members      crv x y (d);  crv ∈ "P-256" "P-384" "P-521"
                   §6.2.1.2/3, §6.2.2.1: x, y, d are base64url of the big-endian octet string of
                   the FULL coordinate size  ceil(bits/8)  (32 / 48 / 66 octets)
  RFC 7518 §6.3    RSA members     n e (d p q dp dq qi oth): Base64urlUInt = base64url of the
                   unsigned big-endian representation using the MINIMUM number of octets
  RFC 7518 §6.4    oct member      k  (base64url of the octet sequence)
  RFC 8037 §2      kty "OKP", members crv x (d); crv ∈ "Ed25519" "Ed448" "X25519" "X448";
                   RFC 8032 §5.1.5/§5.2.5, RFC 7748 §5/§6: 32 / 57 / 32 / 56 octets
  RFC 8812 §3.1    crv "secp256k1" (256-bit field, 32 octets)
  RFC 7638 §3.2    thumbprint members per kty, lexicographic order
  RFC 7515 §2      base64url = RFC 4648 §5 without padding (a parameter here: `enc`)
-/
namespace Spec.IANA

/-! ## identifiers -/

def ktyEC : String := "EC"
def ktyRSA : String := "RSA"
def ktyOct : String := "oct"
def ktyOKP : String := "OKP"

inductive ECCurve where
  | p256 | p384 | p521 | secp256k1
deriving DecidableEq, Repr, Inhabited

inductive OKPCurve where
  | ed25519 | ed448 | x25519 | x448
deriving DecidableEq, Repr, Inhabited

/-- "JSON Web Key Elliptic Curve" registry names (RFC 7518 §7.6.2, RFC 8812 §4.4) -/
def ECCurve.name : ECCurve → String
  | .p256 => "P-256" | .p384 => "P-384" | .p521 => "P-521" | .secp256k1 => "secp256k1"

/-- field size in bits -/
def ECCurve.bits : ECCurve → Nat
  | .p256 => 256 | .p384 => 384 | .p521 => 521 | .secp256k1 => 256

/-- full coordinate size in octets: ceil(bits / 8) -/
def ECCurve.coordLen (c : ECCurve) : Nat := (c.bits + 7) / 8

/-- RFC 8037 §3.1 / §3.2 -/
def OKPCurve.name : OKPCurve → String
  | .ed25519 => "Ed25519" | .ed448 => "Ed448" | .x25519 => "X25519" | .x448 => "X448"

/-- length of the public value `x` and of the private value `d` (RFC 8032, RFC 7748) -/
def OKPCurve.len : OKPCurve → Nat
  | .ed25519 => 32 | .ed448 => 57 | .x25519 => 32 | .x448 => 56

/-- RFC 7517 §4 member names -/
def mKty : String := "kty"
def mUse : String := "use"
def mKeyOps : String := "key_ops"
def mAlg : String := "alg"
def mKid : String := "kid"
def mX5u : String := "x5u"
def mX5c : String := "x5c"
def mX5t : String := "x5t"
def mX5tS256 : String := "x5t#S256"
/-- RFC 7518 §6.2, §6.3, §6.4; RFC 8037 §2 -/
def mCrv : String := "crv"
def mX : String := "x"
def mY : String := "y"
def mD : String := "d"
def mN : String := "n"
def mE : String := "e"
def mP : String := "p"
def mQ : String := "q"
def mDP : String := "dp"
def mDQ : String := "dq"
def mQI : String := "qi"
def mOth : String := "oth"
def mK : String := "k"

/-- every member name a JWK parser gives a meaning to -/
def registeredMembers : List String :=
  [mKty, mUse, mKeyOps, mAlg, mKid, mX5u, mX5c, mX5t, mX5tS256,
   mCrv, mX, mY, mD, mN, mE, mP, mQ, mDP, mDQ, mQI, mOth, mK]

/-! ## octet string encodings of integers -/

/-- I2OSP (RFC 8017 §4.1; SEC1 §2.3.7): the `len` octets of `v`, most significant first -/
def i2osp : Nat → Nat → Bytes
  | 0, _ => []
  | len + 1, v => UInt8.ofNat (v / 256 ^ len % 256) :: i2osp len v

/-- OS2IP: big-endian value of an octet string -/
def os2ip : Bytes → Nat
  | [] => 0
  | b :: rest => b.toNat * 256 ^ rest.length + os2ip rest

/-- number of octets of the minimal unsigned big-endian representation; 0 for 0.
    (search bounded by `fuel`; `octLen v = octLenAux v v 0`.) -/
def octLenAux : Nat → Nat → Nat → Nat
  | 0, _, acc => acc
  | fuel + 1, v, acc => if v = 0 then acc else octLenAux fuel (v / 256) (acc + 1)

def octLen (v : Nat) : Nat := octLenAux v v 0

/-- Base64urlUInt octets (RFC 7518 §2): minimum number of octets; zero is the empty string here
    (RFC 7518 says zero is "AA", i.e. one zero octet — RSA parameters are never zero) -/
def minOctets (v : Nat) : Bytes := i2osp (octLen v) v

/-- declarative reading of "fixed width" -/
def IsFixedOctets (len : Nat) (b : Bytes) (v : Nat) : Prop := b.length = len ∧ os2ip b = v
/-- declarative reading of "minimal length" -/
def IsMinimalOctets (b : Bytes) (v : Nat) : Prop := os2ip b = v ∧ b.head? ≠ some 0

/-! ## the keys a JWK can represent, and their registered representation -/

structure RSAPrivate where
  d : Nat
  p : Nat
  q : Nat
  /-- the optional CRT members dp dq qi (RFC 7518 §6.3.2.4–6) -/
  crt : Option (Nat × Nat × Nat)
  /-- RFC 7518 §6.3.2.7 "oth": one (r, d, t) per prime after the second — the prime factor r_i,
      d_i = d mod (r_i − 1), t_i = (r_1 ⋯ r_(i−1))⁻¹ mod r_i; MUST be present with more than two primes -/
  oth : List (Nat × Nat × Nat) := []
deriving DecidableEq, Repr

inductive KeyMaterial where
  | ec (crv : ECCurve) (x y : Nat) (d : Option Nat)
  | rsa (n e : Nat) (priv : Option RSAPrivate)
  | okp (crv : OKPCurve) (x : Bytes) (d : Option Bytes)
  | oct (k : Bytes)
deriving DecidableEq, Repr

/-- optional members (RFC 7517 §4.2–4.9); `x5c` are the DER certificates -/
structure Params where
  kid : Option String := none
  use : Option String := none
  keyOps : Option (List String) := none
  alg : Option String := none
  x5u : Option String := none
  x5c : Option (List Bytes) := none
  x5t : Option Bytes := none
  x5tS256 : Option Bytes := none

def KeyMaterial.kty : KeyMaterial → String
  | .ec .. => ktyEC | .rsa .. => ktyRSA | .okp .. => ktyOKP | .oct .. => ktyOct

def optMember {α} (name : String) (f : α → Wire) : Option α → List (String × Wire)
  | some a => [(name, f a)]
  | none => []

/-- one element of "oth" (RFC 7518 §6.3.2.7.1–3): members r, d, t as Base64urlUInt -/
def othElement (enc : Bytes → String) : Nat × Nat × Nat → Wire
  | (r, d, t) => .obj [("d", .str (enc (minOctets d))), ("r", .str (enc (minOctets r))), ("t", .str (enc (minOctets t)))]

def othMember (enc : Bytes → String) (oth : List (Nat × Nat × Nat)) : List (String × Wire) :=
  if oth = [] then [] else [(mOth, .arr (oth.map (othElement enc)))]

/-- key-type specific members; `enc` is base64url (RFC 4648 §5, no padding) -/
def materialMembers (enc : Bytes → String) : KeyMaterial → List (String × Wire)
  | .ec crv x y d =>
      [(mCrv, .str crv.name), (mX, .str (enc (i2osp crv.coordLen x))), (mY, .str (enc (i2osp crv.coordLen y)))]
      ++ optMember mD (fun d => .str (enc (i2osp crv.coordLen d))) d
  | .rsa n e priv =>
      [(mN, .str (enc (minOctets n))), (mE, .str (enc (minOctets e)))]
      ++ (match priv with
          | none => []
          | some r =>
            [(mD, .str (enc (minOctets r.d))), (mP, .str (enc (minOctets r.p))), (mQ, .str (enc (minOctets r.q)))]
            ++ (match r.crt with
                | none => []
                | some (dp, dq, qi) =>
                  [(mDP, .str (enc (minOctets dp))), (mDQ, .str (enc (minOctets dq))), (mQI, .str (enc (minOctets qi)))])
            ++ othMember enc r.oth)
  | .okp crv x d =>
      [(mCrv, .str crv.name), (mX, .str (enc x))] ++ optMember mD (fun d => .str (enc d)) d
  | .oct k => [(mK, .str (enc k))]

/-- common members; `encStd` is standard base64 WITH padding (RFC 7517 §4.7: x5c is not base64url) -/
def paramMembers (enc encStd : Bytes → String) (p : Params) : List (String × Wire) :=
  optMember mKid .str p.kid ++ optMember mUse .str p.use
  ++ optMember mKeyOps (fun l => .arr (l.map .str)) p.keyOps
  ++ optMember mAlg .str p.alg ++ optMember mX5u .str p.x5u
  ++ optMember mX5c (fun l => .arr (l.map (fun c => .str (encStd c)))) p.x5c
  ++ optMember mX5t (fun b => .str (enc b)) p.x5t
  ++ optMember mX5tS256 (fun b => .str (enc b)) p.x5tS256

/-- the registered JWK: `kty`, the type specific members, the optional members, then any
    unregistered members (`extras`; a registered name never comes from `extras`) -/
def specEncode (enc encStd : Bytes → String) (k : KeyMaterial) (p : Params)
    (extras : List (String × Wire)) : List (String × Wire) :=
  (mKty, .str k.kty) :: (materialMembers enc k ++ paramMembers enc encStd p ++ extras)

/-- well-formedness of the values the RFCs put into a JWK -/
def KeyMaterial.WF : KeyMaterial → Prop
  | .ec crv x y d => x < 256 ^ crv.coordLen ∧ y < 256 ^ crv.coordLen ∧
      (∀ v, d = some v → v < 256 ^ crv.coordLen)
  | .rsa .. => True
  | .okp crv x d => x.length = crv.len ∧ (∀ v, d = some v → v.length = crv.len)
  | .oct _ => True

/-! ## RFC 7638 §3.2 -/

/-- members used in the thumbprint computation, in lexicographic order of their names;
    RFC 8037 §2 for OKP -/
def requiredNames : String → List String
  | "EC" => ["crv", "kty", "x", "y"]
  | "RSA" => ["e", "kty", "n"]
  | "oct" => ["k", "kty"]
  | "OKP" => ["crv", "kty", "x"]
  | _ => []

/-- the required members with their values (all are JSON strings) -/
def requiredMembers (enc : Bytes → String) : KeyMaterial → List (String × Wire)
  | .ec crv x y _ =>
      [("crv", .str crv.name), ("kty", .str ktyEC), ("x", .str (enc (i2osp crv.coordLen x))),
       ("y", .str (enc (i2osp crv.coordLen y)))]
  | .rsa n e _ => [("e", .str (enc (minOctets e))), ("kty", .str ktyRSA), ("n", .str (enc (minOctets n)))]
  | .okp crv x _ => [("crv", .str crv.name), ("kty", .str ktyOKP), ("x", .str (enc x))]
  | .oct k => [("k", .str (enc k)), ("kty", .str ktyOct)]

/-- RFC 7638 §3.3: the hash input is the JSON object with exactly these members, in this order,
    no whitespace; all values are strings that need no escaping -/
def memberText : String × Wire → String
  | (k, .str v) => "\"" ++ k ++ "\":\"" ++ v ++ "\""
  | (k, _) => "\"" ++ k ++ "\":null"

def hashInput (members : List (String × Wire)) : String :=
  "{" ++ ",".intercalate (members.map memberText) ++ "}"

end Spec.IANA
