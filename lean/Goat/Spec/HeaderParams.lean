/-
Spec.HeaderParams — the registered JOSE header parameters, written from the RFC texts
(not from goat's source):

  RFC 7515 §4.1.1–4.1.11  alg jku jwk kid x5u x5c x5t x5t#S256 typ cty crit          (JWS)
  RFC 7516 §4.1.1–4.1.13  alg enc zip jku jwk kid x5u x5c x5t x5t#S256 typ cty crit   (JWE)
  RFC 7518 §4.6.1         epk apu apv      (ECDH-ES)                                   (JWE)
  RFC 7518 §4.7.1         iv tag           (AES-GCM key wrapping)                      (JWE)
  RFC 7518 §4.8.1         p2s p2c          (PBES2)                                     (JWE)
  RFC 7797 §3             b64              (unencoded payload option)                  (JWS)

Each entry gives the member name, the JSON type of the member and how the value is encoded.
-/
namespace Spec.HeaderParams

/-- JSON type of the member value -/
inductive JType where
  | string | boolean | number | array | object
deriving DecidableEq, Repr

/-- value encoding of the member -/
inductive Enc where
  | text                      -- a case-sensitive string used as is (alg, enc, zip, kid, typ, cty)
  | uri                       -- a string containing a URI (jku, x5u)
  | jwkObject                 -- a JWK as a JSON object (jwk; epk: a public key)
  | b64stdArray               -- array of strings, each the STANDARD base64 (RFC 4648 §4, *not* base64url)
                              -- encoding of a DER PKIX certificate (x5c, RFC 7515 §4.1.6)
  | thumbprint (hash : String)-- base64url of the `hash` digest of the DER encoding of the certificate (x5t: SHA-1,
                              -- x5t#S256: SHA-256)
  | b64url                    -- base64url (no padding) of an octet string (apu, apv, iv, tag, p2s)
  | names                     -- array of strings: header parameter names (crit)
  | bool                      -- JSON true/false (b64; default true when absent)
  | posInt                    -- a positive JSON integer (p2c)
deriving DecidableEq, Repr

structure Param where
  name : String
  jtype : JType
  enc : Enc
  jws : Bool       -- registered for use with JWS
  jwe : Bool       -- registered for use with JWE
  ref : String
deriving DecidableEq, Repr

def registered : List Param := [
  ⟨"alg",      .string,  .text,               true,  true,  "RFC 7515 §4.1.1 / RFC 7516 §4.1.1"⟩,
  ⟨"enc",      .string,  .text,               false, true,  "RFC 7516 §4.1.2"⟩,
  ⟨"zip",      .string,  .text,               false, true,  "RFC 7516 §4.1.3"⟩,
  ⟨"jku",      .string,  .uri,                true,  true,  "RFC 7515 §4.1.2 / RFC 7516 §4.1.4"⟩,
  ⟨"jwk",      .object,  .jwkObject,          true,  true,  "RFC 7515 §4.1.3 / RFC 7516 §4.1.5"⟩,
  ⟨"kid",      .string,  .text,               true,  true,  "RFC 7515 §4.1.4 / RFC 7516 §4.1.6"⟩,
  ⟨"x5u",      .string,  .uri,                true,  true,  "RFC 7515 §4.1.5 / RFC 7516 §4.1.7"⟩,
  ⟨"x5c",      .array,   .b64stdArray,        true,  true,  "RFC 7515 §4.1.6 / RFC 7516 §4.1.8"⟩,
  ⟨"x5t",      .string,  .thumbprint "sha1",  true,  true,  "RFC 7515 §4.1.7 / RFC 7516 §4.1.9"⟩,
  ⟨"x5t#S256", .string,  .thumbprint "sha256",true,  true,  "RFC 7515 §4.1.8 / RFC 7516 §4.1.10"⟩,
  ⟨"typ",      .string,  .text,               true,  true,  "RFC 7515 §4.1.9 / RFC 7516 §4.1.11"⟩,
  ⟨"cty",      .string,  .text,               true,  true,  "RFC 7515 §4.1.10 / RFC 7516 §4.1.12"⟩,
  ⟨"crit",     .array,   .names,              true,  true,  "RFC 7515 §4.1.11 / RFC 7516 §4.1.13"⟩,
  ⟨"b64",      .boolean, .bool,               true,  false, "RFC 7797 §3"⟩,
  ⟨"epk",      .object,  .jwkObject,          false, true,  "RFC 7518 §4.6.1.1"⟩,
  ⟨"apu",      .string,  .b64url,             false, true,  "RFC 7518 §4.6.1.2"⟩,
  ⟨"apv",      .string,  .b64url,             false, true,  "RFC 7518 §4.6.1.3"⟩,
  ⟨"iv",       .string,  .b64url,             false, true,  "RFC 7518 §4.7.1.1"⟩,
  ⟨"tag",      .string,  .b64url,             false, true,  "RFC 7518 §4.7.1.2"⟩,
  ⟨"p2s",      .string,  .b64url,             false, true,  "RFC 7518 §4.8.1.1"⟩,
  ⟨"p2c",      .number,  .posInt,             false, true,  "RFC 7518 §4.8.1.2"⟩
]

def jwsParams : List Param := registered.filter (·.jws)
def jweParams : List Param := registered.filter (·.jwe)

/-- the 21 parameters of the property statement -/
def names : List String := registered.map (·.name)

end Spec.HeaderParams
