import Goat.Spec.Blocks
/-
Concat KDF — NIST SP 800-56A (rev. 2) §5.8.1 "The Single-step Key-Derivation Function", in the
profile of RFC 7518 §4.6.2, written from those texts:

  SP 800-56A §5.8.1.1   reps = ⌈keydatalen / hashlen⌉
                        for counter = 1 to reps:  K(counter) = H(counter ‖ Z ‖ OtherInfo)
                            (counter: 32-bit big-endian)
                        DerivedKeyingMaterial = leftmost keydatalen bits of K(1) ‖ K(2) ‖ … ‖ K(reps)
  §5.8.1.2              OtherInfo = AlgorithmID ‖ PartyUInfo ‖ PartyVInfo {‖ SuppPubInfo}{‖ SuppPrivInfo}
  RFC 7518 §4.6.2       AlgorithmID = Datalen ‖ Data, Datalen a 32-bit big-endian count of octets;
                        PartyUInfo / PartyVInfo = Datalen ‖ Data with Data = the apu / apv value
                        (Datalen = 0 and Data empty when the parameter is absent);
                        SuppPubInfo = keydatalen in *bits* as a 32-bit big-endian integer;
                        SuppPrivInfo = empty;  H = SHA-256.
-/
namespace Spec.ConcatKDF

/-- `Datalen ‖ Data` -/
def lenPrefixed (d : Bytes) : Bytes := be32 d.length ++ d

/-- OtherInfo for a key of `keyLen` octets -/
def otherInfo (algID apu apv : Bytes) (keyLen : Nat) : Bytes :=
  lenPrefixed algID ++ lenPrefixed apu ++ lenPrefixed apv ++ be32 (keyLen * 8) ++ []

/-- K(counter) -/
def round (H : Bytes → Bytes) (z info : Bytes) (counter : Nat) : Bytes :=
  H (be32 counter ++ z ++ info)

/-- K(1) ‖ … ‖ K(reps) -/
def stream (H : Bytes → Bytes) (z info : Bytes) (reps : Nat) : Bytes :=
  iterUp (fun i acc => acc ++ round H z info (i + 1)) reps []

def reps (keyLen hashLen : Nat) : Nat := (keyLen + hashLen - 1) / hashLen

/-- the single-step KDF with a hash of `hashLen` octets -/
def kdf (H : Bytes → Bytes) (hashLen : Nat) (z info : Bytes) (keyLen : Nat) : Bytes :=
  (stream H z info (reps keyLen hashLen)).take keyLen

/-- RFC 7518 §4.6.2 key derivation (SHA-256) -/
def deriveKey (H : Bytes → Bytes) (z algID apu apv : Bytes) (keyLen : Nat) : Bytes :=
  kdf H 32 z (otherInfo algID apu apv keyLen) keyLen

end Spec.ConcatKDF
