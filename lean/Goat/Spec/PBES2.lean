import Goat.Spec.RFC3394
/-
PBES2 key encryption — RFC 7518 §4.8, written from the RFC text.

  §4.8.1.1  the salt value used is  (UTF8(Alg) ‖ 0x00 ‖ Salt Input)  where Alg is the "alg" Header
            Parameter value and Salt Input the decoded "p2s" value
  §4.8      key derivation PBKDF2 (RFC 8018) with HMAC SHA-2 as the PRF, iteration count "p2c";
            the derived key (16/24/32 octets) encrypts the CEK with AES Key Wrap (RFC 3394).
  §4.8 table   PBES2-HS256+A128KW (HMAC SHA-256, 16) / PBES2-HS384+A192KW (HMAC SHA-384, 24) /
               PBES2-HS512+A256KW (HMAC SHA-512, 32)
-/
namespace Spec.PBES2

structure Params where
  name : String
  hash : String
  keyLen : Nat

def hs256a128kw : Params := ⟨"PBES2-HS256+A128KW", "sha256", 16⟩
def hs384a192kw : Params := ⟨"PBES2-HS384+A192KW", "sha384", 24⟩
def hs512a256kw : Params := ⟨"PBES2-HS512+A256KW", "sha512", 32⟩

/-- UTF8(Alg) ‖ 0x00 ‖ Salt Input -/
def salt (ps : Params) (p2s : Bytes) : Bytes := Bytes.ofString ps.name ++ [0x00] ++ p2s

/-- `kdf hash password salt count keyLen` is PBKDF2; `E k` the AES block function under `k` -/
def encryptKey (ps : Params) (kdf : String → Bytes → Bytes → Int → Nat → Bytes)
    (E : Bytes → Bytes → Bytes) (password p2s : Bytes) (p2c : Int) (cek : Bytes) : Bytes :=
  Spec.RFC3394.wrap (E (kdf ps.hash password (salt ps p2s) p2c ps.keyLen)) cek

def decryptKey (ps : Params) (kdf : String → Bytes → Bytes → Int → Nat → Bytes)
    (D : Bytes → Bytes → Bytes) (password p2s : Bytes) (p2c : Int) (data : Bytes) : Option Bytes :=
  Spec.RFC3394.unwrap (D (kdf ps.hash password (salt ps p2s) p2c ps.keyLen)) data

end Spec.PBES2
