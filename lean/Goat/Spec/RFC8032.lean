import Goat.Base.Prog
import Goat.Spec.Edwards448
/-
Ed448 (pure EdDSA, not Ed448ph) as defined by RFC 8032 §5.2, written from the RFC text over the
textbook affine arithmetic of `Spec/Edwards448.lean`.

  §5.2.2  encoding            `encodePoint`, `encodeScalar`
  §5.2.3  decoding            `decodePoint`  (every rejection rule: wrong length is the caller's
                              "57-octet string" precondition turned into a rejection, y ≥ p after
                              clearing bit 455 — this includes stray bits 448..454 of the last octet —,
                              no square root, x = 0 with x₀ = 1)
  §5.2.5  key generation      `secretScalar`, `publicKey`
  §5.2.6  sign                `sign`
  §5.2.7  verify              `verify`       (see the note on the group equation below)
  §2      dom4                `dom4`

SHAKE256(x, n) is the oracle query `shake256 [x, n]`; the answer is normalised to exactly `n`
octets (`fixLen`), which is what "a buffer of n octets filled by the XOF" means for an arbitrary
oracle.  Everything is executable.

THE GROUP EQUATION.  RFC 8032 §5.2.7 step 3: "Check the group equation [4][S]B = [4]R + [4][k]A'.
It's sufficient, but not required, to instead check [S]B = R + [k]A'."  goat (ed448.go, `Verify`)
reduces k modulo L (`SetUniformBytes`), computes R' = [S]B + [k mod L](−A') and compares the
ENCODING of R' with the first signature half as octets.  That is the cofactorless equation with the
reduced k:  [S]B = R + [k mod L]A'  (`GroupEq.reducedK`, the default of `verify`).  It coincides with
the RFC's cofactorless equation whenever [L]A' = 0 (every honestly generated key) and it always
implies the RFC's mandatory cofactored equation (because [4L]A' = 0 for every curve point): goat
accepts a subset of what the normative check accepts.  All three equations are defined here
(`GroupEq`), the C13 theorems say which one is meant.
-/
namespace Spec.RFC8032
open Spec.Edwards448

/-- exactly `n` octets: truncate / pad with zeros -/
def fixLen (n : Nat) (b : Bytes) : Bytes := (b ++ List.replicate n 0).take n

/-- SHAKE256(x, n) -/
def shake256 (x : Bytes) (n : Nat) : PO Bytes := do
  let w ← PO.query "shake256" [.bytes x, .int n]
  pure (fixLen n w.asBytes)

/-- RFC 8032 §2: dom4(x, y) = "SigEd448" || octet(x) || octet(OLEN(y)) || y -/
def dom4 (f : Nat) (c : Bytes) : Bytes :=
  Bytes.ofString "SigEd448" ++ [UInt8.ofNat f] ++ [UInt8.ofNat c.length] ++ c

/-- §5.2.2: y as 57 little-endian octets (final octet zero), least significant bit of x copied to
    the most significant bit of the final octet -/
def encodePoint (a : Point) : Bytes :=
  Bytes.encodeLE 57 (a.y.toNat + 2 ^ 455 * (a.x % 2).toNat)

/-- §5.2.2: an integer as 57 little-endian octets -/
def encodeScalar (s : Nat) : Bytes := Bytes.encodeLE 57 s

/-- §5.2.3 -/
def decodePoint (b : Bytes) : Option Point :=
  if b.length ≠ 57 then none
  else
    let n := Bytes.decodeLE b
    let x0 : Int := (n / 2 ^ 455 % 2 : Nat)       -- bit 455
    let y : Int := (n % 2 ^ 455 : Nat)            -- "recovered simply by clearing this bit"
    if y ≥ p then none                            -- "if the resulting value is >= p, decoding fails"
    else
      let u := (y * y - 1) % p
      let v := (d * (y * y) - 1) % p
      let x := sqrtRatioCandidate u v             -- x = u³v (u⁵v³)^((p−3)/4)
      if v * (x * x) % p ≠ u then none            -- "no square root exists, and the decoding fails"
      else if x = 0 ∧ x0 = 1 then none            -- "if x = 0, and x_0 = 1, decoding fails"
      else if x0 ≠ x % 2 then some ⟨p - x, y⟩     -- "if x_0 != x mod 2, set x <-- p - x"
      else some ⟨x, y⟩

/-- §5.2.5 step 2, on the lower 57 octets of the digest: "The two least significant bits of the
    first octet are cleared, all eight bits the last octet are cleared, and the highest bit of the
    second to last octet is set." -/
def prune (h : Bytes) : Bytes :=
  let b := h.take 57
  let b := b.set 0 (b.getD 0 0 &&& 0xFC)
  let b := b.set 56 0
  b.set 55 (b.getD 55 0 ||| 0x80)

/-- §5.2.5 step 3: the secret scalar of a digest -/
def secretScalar (h : Bytes) : Nat := Bytes.decodeLE (prune h)

/-- §5.2.5: public key of a 57-octet private key -/
def publicKey (seed : Bytes) : PO Bytes := do
  let h ← shake256 seed 114
  pure (encodePoint (smul (secretScalar h) B))

/-- §5.2.6 (PH = identity, F = 0), context `c` of at most 255 octets -/
def sign (seed msg c : Bytes) : PO Bytes := do
  let h ← shake256 seed 114
  let s := secretScalar h
  let a := encodePoint (smul s B)
  let prefix_ := h.drop 57
  let rd ← shake256 (dom4 0 c ++ prefix_ ++ msg) 114
  let r := Bytes.decodeLE rd
  let rEnc := encodePoint (smul (r % L) B)         -- "first reducing r modulo L"
  let kd ← shake256 (dom4 0 c ++ rEnc ++ a ++ msg) 114
  let k := Bytes.decodeLE kd
  let sS := (r + k * s) % L
  pure (rEnc ++ encodeScalar sS)

/-- the three admissible readings of §5.2.7 step 3 -/
inductive GroupEq where
  | cofactored      -- [4][S]B = [4]R + [4][k]A'   (normative)
  | cofactorless    -- [S]B = R + [k]A'            ("sufficient, but not required")
  | reducedK        -- [S]B = R + [k mod L]A'      (what goat checks)
deriving DecidableEq, Repr

def groupEqHolds (e : GroupEq) (sS k : Nat) (r a : Point) : Bool :=
  match e with
  | .cofactored => decide (smul 4 (smul sS B) = add (smul 4 r) (smul 4 (smul k a)))
  | .cofactorless => decide (smul sS B = add r (smul k a))
  | .reducedK => decide (smul sS B = add r (smul (k % L) a))

/-- §5.2.7 -/
def verifyWith (e : GroupEq) (pk msg sig c : Bytes) : PO Bool := do
  if sig.length ≠ 114 then return false            -- "split the signature into two 57-octet halves"
  let rEnc := sig.take 57
  let sS := Bytes.decodeLE (sig.drop 57)
  let kd ← shake256 (dom4 0 c ++ rEnc ++ pk ++ msg) 114
  let k := Bytes.decodeLE kd
  match decodePoint rEnc, decodePoint pk with
  | some r, some a =>
    if sS ≥ L then return false                    -- "an integer S, in the range 0 <= s < L"
    return groupEqHolds e sS k r a
  | _, _ => return false                           -- "If any of the decodings fail … the signature is invalid."

/-- the reading goat implements -/
def verify (pk msg sig c : Bytes) : PO Bool := verifyWith .reducedK pk msg sig c

end Spec.RFC8032
