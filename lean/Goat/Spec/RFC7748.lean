import Goat.Base.Prog
/-
RFC 7748 §5 — the X448 function, written from the RFC's own pseudo-code (Python in the RFC),
over integer residues modulo p = 2^448 − 2^224 − 1.  Nothing here refers to goat's code.

  def decodeLittleEndian(b, bits):
      return sum([b[i] << 8*i for i in range((bits+7)/8)])
  def decodeUCoordinate(u, bits):
      u_list = [ord(b) for b in u]
      # Ignore any unused bits.
      if bits % 8: u_list[-1] &= (1<<(bits%8))-1          (bits = 448: nothing to mask)
      return decodeLittleEndian(u_list, bits)
  def encodeUCoordinate(u, bits):
      u = u % p
      return ''.join([chr((u >> 8*i) & 0xff) for i in range((bits+7)/8)])
  def decodeScalar448(k):
      k_list = [ord(b) for b in k]
      k_list[0] &= 252
      k_list[55] |= 128
      return decodeLittleEndian(k_list, 448)

  "Implementations MUST accept non-canonical values and process them as if they had been reduced
   modulo the field prime."

  x_1 = u; x_2 = 1; z_2 = 0; x_3 = u; z_3 = 1; swap = 0
  For t = bits-1 down to 0:
      k_t = (k >> t) & 1
      swap ^= k_t
      (x_2, x_3) = cswap(swap, x_2, x_3)
      (z_2, z_3) = cswap(swap, z_2, z_3)
      swap = k_t
      A = x_2 + z_2;  AA = A^2;  B = x_2 - z_2;  BB = B^2;  E = AA - BB
      C = x_3 + z_3;  D = x_3 - z_3;  DA = D * A;  CB = C * B
      x_3 = (DA + CB)^2
      z_3 = x_1 * (DA - CB)^2
      x_2 = AA * BB
      z_2 = E * (AA + a24 * E)
  (x_2, x_3) = cswap(swap, x_2, x_3)
  (z_2, z_3) = cswap(swap, z_2, z_3)
  Return x_2 * (z_2^(p - 2))

  a24 = 39081 for curve448; all calculations in GF(p).
-/
namespace Spec.RFC7748

def p : Int := 2 ^ 448 - 2 ^ 224 - 1
def a24 : Int := 39081
def bits : Nat := 448

/-- Σ b[i] · 2^(8i) -/
def decodeLittleEndian : List Nat → Nat
  | [] => 0
  | x :: xs => x + 256 * decodeLittleEndian xs

/-- bits = 448 is a multiple of 8: no unused bits to ignore -/
def decodeUCoordinate (u : Bytes) : Int := Int.ofNat (decodeLittleEndian (u.map UInt8.toNat))

def encodeUCoordinate (u : Int) : Bytes :=
  let u := (u % p).toNat
  (List.range ((bits + 7) / 8)).map fun i => UInt8.ofNat ((u >>> (8 * i)) &&& 0xff)

/-- `k_list[0] &= 252; k_list[55] |= 128` -/
def clampList (k_list : List Nat) : List Nat :=
  let k_list := k_list.set 0 (k_list.getD 0 0 &&& 252)
  k_list.set 55 (k_list.getD 55 0 ||| 128)

def decodeScalar448 (k : Bytes) : Nat := decodeLittleEndian (clampList (k.map UInt8.toNat))

/-- GF(p) operations on canonical residues -/
def fadd (a b : Int) : Int := (a + b) % p
def fsub (a b : Int) : Int := (a - b) % p
def fmul (a b : Int) : Int := (a * b) % p
def fsq (a : Int) : Int := (a * a) % p

/-- b^e in GF(p) by binary exponentiation (`fuel` bounds the number of halvings; any fuel ≥ e is enough) -/
def fpowAux : Nat → Int → Nat → Int
  | 0, _, _ => 1
  | fuel + 1, b, e =>
    if e = 0 then 1
    else
      let h := fpowAux fuel (fsq b) (e / 2)
      if e % 2 = 1 then fmul b h else h
def fpow (b : Int) (e : Nat) : Int := fpowAux e b e

/-- `cswap(swap, a, b)`: exchanges a and b iff swap = 1 (the RFC's masked-XOR formulation has exactly
    this input/output behaviour) -/
def cswap (swap : Nat) (a b : Int) : Int × Int := if swap = 1 then (b, a) else (a, b)

structure State where
  x1 : Int
  x2 : Int
  z2 : Int
  x3 : Int
  z3 : Int
  swap : Nat

/-- one iteration of the ladder for bit index t -/
def step (k : Nat) (s : State) (t : Nat) : State :=
  let k_t := (k >>> t) &&& 1
  let swap := s.swap ^^^ k_t
  let x_2 := (cswap swap s.x2 s.x3).1
  let x_3 := (cswap swap s.x2 s.x3).2
  let z_2 := (cswap swap s.z2 s.z3).1
  let z_3 := (cswap swap s.z2 s.z3).2
  let swap := k_t
  let A := fadd x_2 z_2
  let AA := fsq A
  let B := fsub x_2 z_2
  let BB := fsq B
  let E := fsub AA BB
  let C := fadd x_3 z_3
  let D := fsub x_3 z_3
  let DA := fmul D A
  let CB := fmul C B
  let x_3 := fsq (fadd DA CB)
  let z_3 := fmul s.x1 (fsq (fsub DA CB))
  let x_2 := fmul AA BB
  let z_2 := fmul E (fadd AA (fmul a24 E))
  { x1 := s.x1, x2 := x_2, z2 := z_2, x3 := x_3, z3 := z_3, swap := swap }

/-- t = bits−1 down to 0 -/
def indices : List Nat := (List.range bits).reverse

/-- the integer the X448 function returns before encoding (in [0, p)) -/
def ladder (k : Nat) (u : Int) : Int :=
  let u := u % p          -- non-canonical values are processed as if reduced
  let s := indices.foldl (step k) { x1 := u, x2 := 1, z2 := 0, x3 := u, z3 := 1, swap := 0 }
  let x_2 := (cswap s.swap s.x2 s.x3).1
  let z_2 := (cswap s.swap s.z2 s.z3).1
  fmul x_2 (fpow z_2 (p - 2).toNat)

def x448val (k u : Bytes) : Int := ladder (decodeScalar448 k) (decodeUCoordinate u)

/-- X448(k, u) for 56-octet strings k and u -/
def X448 (k u : Bytes) : Bytes := encodeUCoordinate (x448val k u)

/-- the base point u = 5 -/
def basepoint : Bytes := encodeUCoordinate 5

end Spec.RFC7748
