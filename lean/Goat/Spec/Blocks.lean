import Goat.Base.Bytes
/-
Spec.Blocks: the small vocabulary shared by the C12 specifications (RFC 3394, SP 800-56A Concat KDF,
RFC 7518 §5.2 AES_CBC_HMAC_SHA2, PBES2): counted loops, XOR of octet strings, big-endian length
fields and the coercion of a primitive's answer to its documented size.  Core Lean only.
-/
namespace Spec

/-- `for k = 0 to n-1 do s := f k s` (ascending counted loop). -/
def iterUp {σ : Type} (f : Nat → σ → σ) : Nat → σ → σ
  | 0, s => s
  | n+1, s => f n (iterUp f n s)

/-- `for k = n-1 downto 0 do s := f k s` (descending counted loop). -/
def iterDown {σ : Type} (f : Nat → σ → σ) : Nat → σ → σ
  | 0, s => s
  | n+1, s => iterDown f n (f n s)

/-- bitwise XOR of two octet strings (of equal length in every use) -/
def xorBytes (a b : Bytes) : Bytes := List.zipWith (· ^^^ ·) a b

/-- 32-bit big-endian unsigned integer -/
def be32 (v : Nat) : Bytes := Bytes.encodeBE 4 v
/-- 64-bit big-endian unsigned integer -/
def be64 (v : Nat) : Bytes := Bytes.encodeBE 8 v

/-- A primitive with a fixed output size (block cipher: 16, SHA-256: 32, …) always delivers exactly
    that many octets; an arbitrary oracle answer is coerced to the documented size (truncate / zero
    pad) so that statements hold for *every* oracle.  On the real standard library this is the
    identity (checked by the harness as an oracle law on every case). -/
def fit (n : Nat) (b : Bytes) : Bytes := (b ++ List.replicate n 0).take n

theorem fit_length (n : Nat) (b : Bytes) : (fit n b).length = n := by
  simp [fit, List.length_take]

theorem fit_of_length {n : Nat} {b : Bytes} (h : b.length = n) : fit n b = b := by
  subst h; simp [fit]

/-- the first `n` consecutive `k`-octet blocks of an octet string (`P[1..n]` of RFC 3394) -/
def blocks (k : Nat) : Nat → Bytes → List Bytes
  | 0, _ => []
  | n+1, b => b.take k :: blocks k n (b.drop k)

end Spec
