/-
Textbook affine arithmetic on the short Weierstrass curve  y² = x³ + 7  (secp256k1), written from
the standard chord-and-tangent description (SEC 1 §2.2.1), generic over the coefficient structure `F`
so that the same definitions are read over `ZMod p` in the proofs.  Core Lean only.

  * points: `inf` (the point at infinity) or `aff x y`;
  * `−(x, y) = (x, −y)`;
  * `P + ∞ = P`, `∞ + Q = Q`;
  * `(x₁,y₁) + (x₂,y₂)`:  if x₁ = x₂ and y₁ + y₂ = 0 the result is ∞; otherwise
      λ = 3x₁²/(2y₁)          if x₁ = x₂   (tangent; here y₁ = y₂ ≠ 0 on the curve),
      λ = (y₂ − y₁)/(x₂ − x₁) if x₁ ≠ x₂   (chord),
      x₃ = λ² − x₁ − x₂,  y₃ = λ(x₁ − x₃) − y₁.
-/
namespace Spec.Secp256k1

inductive AffPt (F : Type) where
  | inf
  | aff (x y : F)
deriving DecidableEq, Repr

variable {F : Type} [Add F] [Sub F] [Mul F] [Div F] [Neg F] [OfNat F 0] [OfNat F 2] [OfNat F 3] [OfNat F 7]
  [DecidableEq F]

/-- the curve equation -/
def onCurve : AffPt F → Prop
  | .inf => True
  | .aff x y => y * y = x * x * x + 7

def neg : AffPt F → AffPt F
  | .inf => .inf
  | .aff x y => .aff x (-y)

/-- tangent slope at (x, y) -/
def tangent (x y : F) : F := 3 * (x * x) / (2 * y)
/-- chord slope -/
def chord (x1 y1 x2 y2 : F) : F := (y2 - y1) / (x2 - x1)

def addWith (l x1 y1 x2 : F) : AffPt F :=
  let x3 := l * l - x1 - x2
  .aff x3 (l * (x1 - x3) - y1)

def add : AffPt F → AffPt F → AffPt F
  | .inf, q => q
  | p, .inf => p
  | .aff x1 y1, .aff x2 y2 =>
    if x1 = x2 then
      if y1 + y2 = 0 then .inf else addWith (tangent x1 y1) x1 y1 x2
    else addWith (chord x1 y1 x2 y2) x1 y1 x2

def double (p : AffPt F) : AffPt F := add p p

end Spec.Secp256k1
