import Goat.Spec.Blocks
/-
RFC 3394 (AES Key Wrap), written from the RFC text, section 2.2 — the *index based* formulation:

  2.2.1 wrap     Inputs: plaintext, n 64-bit values {P1..Pn}, key K.  Outputs: {C0..Cn}.
     1) A = IV; for i = 1..n: R[i] = P[i]
     2) for j = 0 to 5: for i = 1 to n:
            B = AES(K, A | R[i]);  A = MSB(64, B) ^ t  where t = (n*j)+i;  R[i] = LSB(64, B)
     3) C[0] = A; for i = 1..n: C[i] = R[i]
  2.2.2 unwrap   Inputs: {C0..Cn}, key K.  Outputs: {P1..Pn} or an error.
     1) A = C[0]; for i = 1..n: R[i] = C[i]
     2) for j = 5 to 0: for i = n to 1:
            B = AES-1(K, (A ^ t) | R[i])  where t = n*j+i;  A = MSB(64, B);  R[i] = LSB(64, B)
     3) if A is the IV then P[i] = R[i] else return an error
  2.2.3.1 default initial value  IV = A6A6A6A6A6A6A6A6.

The 128-bit block cipher under the key is abstract: `E D : Bytes → Bytes` (one call = one 16-octet
block).  The state is the register `A` and the array `R[1..n]` as a list of 64-bit blocks.
-/
namespace Spec.RFC3394

/-- 2.2.3.1: A6A6A6A6A6A6A6A6 -/
def iv : Bytes := [0xA6, 0xA6, 0xA6, 0xA6, 0xA6, 0xA6, 0xA6, 0xA6]

def msb64 (b : Bytes) : Bytes := b.take 8
def lsb64 (b : Bytes) : Bytes := b.drop 8

abbrev State := Bytes × List Bytes      -- (A, R[1..n])

/-- R[i] for 1-based i -/
def getR (R : List Bytes) (i : Nat) : Bytes := R.getD (i - 1) []
def setR (R : List Bytes) (i : Nat) (v : Bytes) : List Bytes := R.set (i - 1) v

/-- wrap, body of step 2 for given j and (1-based) i -/
def wrapStep (E : Bytes → Bytes) (n j i : Nat) (s : State) : State :=
  let B := E (s.1 ++ getR s.2 i)
  (xorBytes (msb64 B) (be64 (n * j + i)), setR s.2 i (lsb64 B))

/-- wrap, step 2: `for j = 0 to 5, for i = 1 to n` -/
def wrapLoop (E : Bytes → Bytes) (n : Nat) (s : State) : State :=
  iterUp (fun j s => iterUp (fun i0 s => wrapStep E n j (i0 + 1) s) n s) 6 s

/-- wrap on blocks: input P[1..n], output (C[0], C[1..n]) -/
def wrapBlocks (E : Bytes → Bytes) (P : List Bytes) : State :=
  wrapLoop E P.length (iv, P)

/-- unwrap, body of step 2 for given j and (1-based) i -/
def unwrapStep (D : Bytes → Bytes) (n j i : Nat) (s : State) : State :=
  let B := D (xorBytes s.1 (be64 (n * j + i)) ++ getR s.2 i)
  (msb64 B, setR s.2 i (lsb64 B))

/-- unwrap, step 2: `for j = 5 to 0, for i = n to 1` -/
def unwrapLoop (D : Bytes → Bytes) (n : Nat) (s : State) : State :=
  iterDown (fun j s => iterDown (fun i0 s => unwrapStep D n j (i0 + 1) s) n s) 6 s

/-- unwrap on blocks: input (C[0], C[1..n]); `none` is the RFC's error return -/
def unwrapBlocks (D : Bytes → Bytes) (C0 : Bytes) (C : List Bytes) : Option (List Bytes) :=
  let s := unwrapLoop D C.length (C0, C)
  if s.1 = iv then some s.2 else none

/-- octet-string interface: key data of `8*n` octets, n ≥ 1 (n ≥ 2 in the RFC; JWE CEKs have n ≥ 2) -/
def wrap (E : Bytes → Bytes) (keyData : Bytes) : Bytes :=
  let s := wrapBlocks E (blocks 8 (keyData.length / 8) keyData)
  s.1 ++ s.2.flatten

def unwrap (D : Bytes → Bytes) (c : Bytes) : Option Bytes :=
  (unwrapBlocks D (c.take 8) (blocks 8 (c.length / 8 - 1) (c.drop 8))).map List.flatten

end Spec.RFC3394
