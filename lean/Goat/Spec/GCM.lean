import Goat.Spec.Blocks
/-
AES-GCM content encryption (RFC 7518 §5.3) and AES-GCM key wrapping (RFC 7518 §4.7), written
from the RFC text.  GCM itself (NIST SP 800-38D) is the library AEAD:
   `seal k iv aad p`  = ciphertext ‖ 128-bit tag         `open k iv aad (c ‖ t)` = plaintext | FAIL

  §5.3   key of exactly 128/192/256 bits for A128GCM/A192GCM/A256GCM; IV of 96 bits REQUIRED;
         A = additional authenticated data; requested tag size 128 bits; the JWE Ciphertext is the
         ciphertext output, the JWE Authentication Tag the tag output.
  §4.7   A128GCMKW/…: the CEK is the plaintext; AAD is the empty octet string; 96-bit "iv" header
         parameter REQUIRED; 128-bit "tag" header parameter REQUIRED (§4.7.1.2);
         the JWE Encrypted Key is the ciphertext output.
-/
namespace Spec.GCM

abbrev Seal := Bytes → Bytes → Bytes → Bytes → Bytes
abbrev Open := Bytes → Bytes → Bytes → Bytes → Option Bytes

/-- §5.3 encryption: (ciphertext, tag); `none` = parameters not allowed -/
def encrypt (keyLen : Nat) (sealF : Seal) (k iv aad p : Bytes) : Option (Bytes × Bytes) :=
  if k.length ≠ keyLen ∨ iv.length ≠ 12 then none else
  let s := sealF k iv aad p
  some (s.take p.length, s.drop p.length)

/-- §5.3 decryption; `none` = FAIL -/
def decrypt (keyLen : Nat) (op : Open) (k iv aad c t : Bytes) : Option Bytes :=
  if k.length ≠ keyLen ∨ iv.length ≠ 12 ∨ t.length ≠ 16 then none else op k iv aad (c ++ t)

/-- §4.7 key wrapping: (encrypted key, tag) -/
def wrapKey (keyLen : Nat) (sealF : Seal) (k iv cek : Bytes) : Option (Bytes × Bytes) :=
  encrypt keyLen sealF k iv [] cek

def unwrapKey (keyLen : Nat) (op : Open) (k iv data t : Bytes) : Option Bytes :=
  decrypt keyLen op k iv [] data t

end Spec.GCM
