import Goat.Spec.Blocks
/-
AES_CBC_HMAC_SHA2 — RFC 7518 §5.2.2, written from the RFC text.

  §5.2.2.1 encryption (inputs K, P, A; IV given)
    1. MAC_KEY = initial MAC_KEY_LEN octets of K;  ENC_KEY = final ENC_KEY_LEN octets of K
    2. IV: 128 bits
    3. E = CBC-encrypt(ENC_KEY, IV, P with PKCS #7 padding)
    4. AL = number of *bits* in A as a 64-bit unsigned big-endian integer
    5. M = MAC(MAC_KEY, A ‖ IV ‖ E ‖ AL)
    6. T = first T_LEN octets of M
    7. output E and T
  §5.2.2.2 decryption
    1. split K as above
    2. check the integrity and authenticity of A and E: recompute T; if it differs → FAIL
    3. decrypt E with CBC, remove the PKCS #7 padding; → P
  §5.2.3–5.2.5 parameter sets:  (ENC_KEY_LEN, MAC_KEY_LEN, hash, T_LEN) =
       (16,16,SHA-256,16) (24,24,SHA-384,24) (32,32,SHA-512,32)

CBC is NIST SP 800-38A §6.2 over an abstract 128-bit block function:
       C_1 = E(P_1 ⊕ IV), C_j = E(P_j ⊕ C_{j-1});   P_1 = D(C_1) ⊕ IV, P_j = D(C_j) ⊕ C_{j-1}.
PKCS #7 (RFC 5652 §6.3) for block size k = 16: append k − (l mod k) octets, each of that value;
on removal the last octet p must satisfy 1 ≤ p ≤ k and the last p octets must all equal p.
-/
namespace Spec.CBCHS

structure Params where
  encKeyLen : Nat
  macKeyLen : Nat
  hash : String
  tLen : Nat

def a128cbcHS256 : Params := ⟨16, 16, "sha256", 16⟩
def a192cbcHS384 : Params := ⟨24, 24, "sha384", 24⟩
def a256cbcHS512 : Params := ⟨32, 32, "sha512", 32⟩

/-- PKCS #7 padding for block size 16 -/
def pad (p : Bytes) : Bytes :=
  let k := 16 - p.length % 16
  p ++ List.replicate k (UInt8.ofNat k)

/-- PKCS #7 removal; `none` = invalid padding -/
def unpad (b : Bytes) : Option Bytes :=
  match b.getLast? with
  | none => none
  | some last =>
    let p := last.toNat
    if 1 ≤ p ∧ p ≤ 16 ∧ p ≤ b.length ∧ b.drop (b.length - p) = List.replicate p last
    then some (b.take (b.length - p)) else none

/-- CBC encryption of whole blocks: `prev` is IV / the previous ciphertext block -/
def cbcEnc (E : Bytes → Bytes) : Bytes → List Bytes → List Bytes
  | _, [] => []
  | prev, p :: ps => let c := E (xorBytes p prev); c :: cbcEnc E c ps

def cbcDec (D : Bytes → Bytes) : Bytes → List Bytes → List Bytes
  | _, [] => []
  | prev, c :: cs => xorBytes (D c) prev :: cbcDec D c cs

/-- AL -/
def al (aad : Bytes) : Bytes := be64 (aad.length * 8)

/-- T -/
def tag (ps : Params) (mac : Bytes → Bytes → Bytes) (macKey aad iv e : Bytes) : Bytes :=
  (mac macKey (aad ++ iv ++ e ++ al aad)).take ps.tLen

/-- §5.2.2.1.  `E k` is the block cipher under key `k`, `mac k m` the HMAC.  `none` = invalid
    key or IV size. -/
def encrypt (ps : Params) (E : Bytes → Bytes → Bytes) (mac : Bytes → Bytes → Bytes)
    (k iv aad p : Bytes) : Option (Bytes × Bytes) :=
  if k.length ≠ ps.macKeyLen + ps.encKeyLen ∨ iv.length ≠ 16 then none else
  let macKey := k.take ps.macKeyLen
  let encKey := k.drop (k.length - ps.encKeyLen)
  let padded := pad p
  let e := (cbcEnc (E encKey) iv (blocks 16 (padded.length / 16) padded)).flatten
  some (e, tag ps mac macKey aad iv e)

/-- §5.2.2.2.  `none` = FAIL. -/
def decrypt (ps : Params) (D : Bytes → Bytes → Bytes) (mac : Bytes → Bytes → Bytes)
    (k iv aad e t : Bytes) : Option Bytes :=
  if k.length ≠ ps.macKeyLen + ps.encKeyLen ∨ iv.length ≠ 16 ∨ e.length % 16 ≠ 0 then none else
  let macKey := k.take ps.macKeyLen
  let encKey := k.drop (k.length - ps.encKeyLen)
  if t ≠ tag ps mac macKey aad iv e then none else
  unpad (cbcDec (D encKey) iv (blocks 16 (e.length / 16) e)).flatten

end Spec.CBCHS
