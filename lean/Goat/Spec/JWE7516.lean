import Goat.Model.JWE
/-
RFC 7516 §5.1 "Message Encryption", transcribed for one recipient and the JWE Compact Serialization
(§7.1).  Written from the RFC text; it shares only the value types (Header record as a list of named
parameters, KVs) with the model of goat.  The cryptographic steps are oracle queries:

  spec.keyManagement [alg, recipientKey, enc, apu, apv] → [cek, encryptedKey, params]
      steps 1-7: determine the Key Management Mode from alg; Key Wrapping / Key Encryption / Key Agreement
      with Key Wrapping: random CEK, encrypted to the recipient; Direct Key Agreement (ECDH-ES, RFC 7518
      §4.6: Z from an *ephemeral* key pair and the recipient's public key, Concat KDF with AlgorithmID =
      enc, apu, apv): CEK = agreed key, encrypted key empty; Direct Encryption: CEK = shared key.
      params: the header parameters the algorithm publishes (epk, iv, tag, p2s, p2c).
  spec.iv [enc]  (step 9)      deflate (step 11)      enc.encrypt (step 15)
  json.marshal / b64url.enc    (steps 12-14, 19)
-/
namespace Spec.JWE7516
open Model.JWE Gen.Consts

def optB : Option Wire → Option Bytes
  | some (.bytes b) => some b
  | _ => none

/-- the JOSE header parameters of the message as a record (step 12: "Create the JSON object(s)
    containing the desired set of Header Parameters") -/
def headerParams (alg enc : String) (zip : Bool) (apu apv : Option Bytes) (params : Wire) : Header :=
  { alg := alg, enc := enc, zip := if zip then jwa.DEF else "",
    epk := match params.get? "epk" with | some .none => none | some k => some k | none => none,
    apu := apu, apv := apv,
    iv := optB (params.get? "iv"), tag := optB (params.get? "tag"), p2s := optB (params.get? "p2s"),
    p2c := match params.get? "p2c" with | some (.int n) => n | _ => 0 }

def putStr (k v : String) (m : KVs) : KVs := if v != "" then setKey k (.str v) m else m
def putB64 (o : Oracle) (k : String) (v : Option Bytes) (m : KVs) : KVs :=
  match v with
  | none => m
  | some b => setKey k (o ⟨"b64url.encStr", [.bytes b]⟩) m

/-- the JWE Protected Header as a JSON object: RFC 7516 §4.1 (alg, enc, zip), RFC 7518 §4.6.1 (epk, apu,
    apv), §4.7.1 (iv, tag), §4.8.1 (p2s, p2c); octet strings base64url-encoded -/
def headerObject (o : Oracle) (h : Header) : KVs :=
  let m : KVs := []
  let m := putStr jwa.AlgorithmKey h.alg m
  let m := putStr jwa.EncryptionAlgorithmKey h.enc m
  let m := putStr jwa.CompressionAlgorithmKey h.zip m
  let m := match h.epk with | none => m | some k => setKey jwa.EphemeralPublicKeyKey (o ⟨"jwk.marshal", [k]⟩) m
  let m := putB64 o jwa.AgreementPartyUInfoKey h.apu m
  let m := putB64 o jwa.AgreementPartyVInfoKey h.apv m
  let m := putB64 o jwa.InitializationVectorKey h.iv m
  let m := putB64 o jwa.AuthenticationTagKey h.tag m
  let m := putB64 o jwa.PBES2SaltInputKey h.p2s m
  if h.p2c != 0 then setKey jwa.PBES2CountKey (.num (o ⟨"strconv.itoa", [.int h.p2c]⟩).asStr) m else m

/-- the outcome of steps 1-18 -/
structure Encrypted where
  header : Header
  protectedText : Bytes      -- BASE64URL(UTF8(JWE Protected Header))
  encryptedKey : Bytes
  iv : Bytes
  ciphertext : Bytes
  tag : Bytes

/-- steps 1-7 -/
def keyManagement (alg enc : String) (rcptKey : Wire) (apu apv : Option Bytes) : PO (Bytes × Bytes × Wire) := do
  match ← PO.query "spec.keyManagement" [.str alg, rcptKey, .str enc, optBytesW apu, optBytesW apv] with
  | .arr [.bytes cek, .bytes encryptedKey, params] => pure (cek, encryptedKey, params)
  | _ => PO.fail "key-management"

/-- step 9 -/
def freshIV (enc : String) : PO Bytes := do
  match ← PO.query "spec.iv" [.str enc] with
  | .bytes iv => pure iv
  | _ => PO.fail "iv"

/-- step 11 -/
def compress (zip : Bool) (plaintext : Bytes) : PO Bytes :=
  if zip then do
    match ← PO.query "deflate" [.bytes plaintext] with
    | .bytes z => pure z
    | _ => PO.fail "deflate"
  else pure plaintext

/-- step 13: UTF8(JWE Protected Header) -/
def utf8Header (obj : KVs) : PO Bytes := do
  match ← PO.query "json.marshal" [.obj obj] with
  | .bytes b => pure b
  | _ => PO.fail "json"

/-- step 15 -/
def contentEncrypt (enc : String) (cek iv aad m : Bytes) : PO (Bytes × Bytes) := do
  match ← PO.query "enc.encrypt" [.str enc, .bytes cek, .bytes iv, .bytes aad, .bytes m] with
  | .arr [.bytes ct, .bytes tag] => pure (ct, tag)
  | _ => PO.fail "encrypt"

/-- RFC 7516 §5.1 steps 1-18 for one recipient; `o` is used only inside `headerObject` to name the
    base64url / number texts, all other oracle use goes through queries. -/
def specEncrypt (o : Oracle) (alg enc : String) (zip : Bool) (rcptKey : Wire) (apu apv : Option Bytes)
    (plaintext : Bytes) : PO Encrypted := do
  let (cek, encryptedKey, params) ← keyManagement alg enc rcptKey apu apv            -- steps 1-7
  let iv ← freshIV enc                                                                -- step 9
  let m ← compress zip plaintext                                                      -- step 11
  let hdr := headerParams alg enc zip apu apv params                                  -- step 12
  let utf8 ← utf8Header (headerObject o hdr)                                          -- step 13
  let protectedText := (← PO.query "b64url.enc" [.bytes utf8]).asBytes
  -- step 14: AAD = ASCII(BASE64URL(UTF8(JWE Protected Header)));  step 15
  let (ct, tag) ← contentEncrypt enc cek iv protectedText m
  pure { header := hdr, protectedText := protectedText, encryptedKey := encryptedKey, iv := iv,
         ciphertext := ct, tag := tag }

/-- step 19, §7.1: BASE64URL(header) '.' BASE64URL(encrypted key) '.' BASE64URL(iv) '.' BASE64URL(ct) '.'
    BASE64URL(tag) -/
def compactSerialize (e : Encrypted) : PO Bytes := do
  let ek := (← PO.query "b64url.enc" [.bytes e.encryptedKey]).asBytes
  let iv := (← PO.query "b64url.enc" [.bytes e.iv]).asBytes
  let ct := (← PO.query "b64url.enc" [.bytes e.ciphertext]).asBytes
  let tag := (← PO.query "b64url.enc" [.bytes e.tag]).asBytes
  pure (e.protectedText ++ 46 :: ek ++ 46 :: iv ++ 46 :: ct ++ 46 :: tag)

end Spec.JWE7516
