import Goat.Base.Drive
import Goat.Model.KW.AKW
import Goat.Model.KW.ECDHES
import Goat.Model.KW.PBES2
import Goat.Model.KW.AGCMKW
import Goat.Model.Enc.ACBC
import Goat.Model.Enc.AGCM
import Goat.Spec.RFC3394
import Goat.Spec.ConcatKDF
import Goat.Spec.CBCHS
import Goat.Spec.PBES2
import Goat.Spec.GCM
/-
Driver ops of C12.
 * `c12.<pkg>.<fn>`      : the *model* of the goat function; asks the oracles interactively.
 * `c12.spec.<…>`        : the *specification* (pure function of the primitives).  The primitives are
   given as a finite table `tbl = [[name, [args…], answer], …]` — the harness passes the
   query/answer pairs it served while running the model (or its own reference) — and the spec is
   evaluated under the oracle `tableOracle tbl`, i.e. exactly the right-hand sides of the theorems
   of GoatProofs/C12.lean instantiated at that oracle.  A primitive call missing from the table
   answers `none` (→ zero block), which shows up as a mismatch.
-/
namespace Drive.C12
open Model.GoBuf

def tableOracle (tbl : Wire) : Oracle := fun q =>
  match tbl.asArr.find? (fun e => (arg e.asArr 0).asStr == q.name && Wire.beqList (arg e.asArr 1).asArr q.args) with
  | some e => arg e.asArr 2
  | none => .none

def pairW (p : Bytes × Bytes) : Wire := .arr [.bytes p.1, .bytes p.2]
def optW : Option Bytes → Wire | some b => .arr [.str "ok", .bytes b] | none => .arr [.str "err", .str "spec"]
def optPairW : Option (Bytes × Bytes) → Wire | some p => .arr [.str "ok", pairW p] | none => .arr [.str "err", .str "spec"]

def cbcParams (i : Nat) : Spec.CBCHS.Params :=
  if i == 0 then Spec.CBCHS.a128cbcHS256 else if i == 1 then Spec.CBCHS.a192cbcHS384 else Spec.CBCHS.a256cbcHS512
def pbes2Params (i : Nat) : Spec.PBES2.Params :=
  if i == 0 then Spec.PBES2.hs256a128kw else if i == 1 then Spec.PBES2.hs384a192kw else Spec.PBES2.hs512a256kw

def mapPO {α : Type} (f : α → Wire) (p : PO α) : PO Wire := do let x ← p; pure (f x)

def B (a : List Wire) (i : Nat) : Bytes := (arg a i).asBytes
def N (a : List Wire) (i : Nat) : Nat := (arg a i).asNat

def ops : OpTable := [
  -- AES Key Wrap
  ("c12.akw.wrap", fun a => (mapPO Wire.bytes (Model.KW.AKW.wrapKey (N a 0) (arg a 1).asBool (B a 2) (B a 3))).toOp),
  ("c12.akw.unwrap", fun a => (mapPO Wire.bytes (Model.KW.AKW.unwrapKey (N a 0) (arg a 1).asBool (B a 2) (B a 3))).toOp),
  ("c12.spec.akw.wrap", pureOp fun a =>
      let o := tableOracle (arg a 0)
      .arr [.str "ok", .bytes (Spec.RFC3394.wrap (encFn o (B a 1)) (B a 2))]),
  ("c12.spec.akw.unwrap", pureOp fun a =>
      let o := tableOracle (arg a 0)
      optW (Spec.RFC3394.unwrap (decFn o (B a 1)) (B a 2))),
  -- Concat KDF / ECDH-ES
  ("c12.kdf.derive", fun a => (mapPO Wire.bytes (Model.KW.ECDHES.deriveKey (B a 0) (B a 1) (B a 2) (B a 3) (N a 4))).toOp),
  ("c12.spec.kdf", pureOp fun a =>
      let o := tableOracle (arg a 0)
      .arr [.str "ok", .bytes (Spec.ConcatKDF.deriveKey (hashFn o "sha256") (B a 1) (B a 2) (B a 3) (B a 4) (N a 5))]),
  ("c12.ecdhes.unwrap", fun a => (mapPO Wire.bytes (Model.KW.ECDHES.unwrapKey (arg a 0).asStr (N a 1) (arg a 2).asBool (arg a 3).asStr
      (arg a 4).asStr (B a 5) (B a 6) (B a 7) (B a 8) (B a 9))).toOp),
  ("c12.ecdhes.produce", fun a => (mapPO pairW (Model.KW.ECDHES.produceKey (arg a 0).asStr (N a 1) (arg a 2).asBool (arg a 3).asStr
      (arg a 4).asStr (B a 5) (B a 6) (B a 7) (B a 8) (B a 9))).toOp),
  -- PBES2
  ("c12.pbes2.wrap", fun a => (mapPO Wire.bytes (Model.KW.PBES2.wrapKey (pbes2Params (N a 0)) (arg a 1).asBool (B a 2) (B a 3) (arg a 4).asInt (B a 5))).toOp),
  ("c12.pbes2.unwrap", fun a => (mapPO Wire.bytes (Model.KW.PBES2.unwrapKey (pbes2Params (N a 0)) (arg a 1).asBool (B a 2) (B a 3) (arg a 4).asInt (B a 5))).toOp),
  ("c12.spec.pbes2.wrap", pureOp fun a =>
      let o := tableOracle (arg a 0)
      .arr [.str "ok", .bytes (Spec.PBES2.encryptKey (pbes2Params (N a 1)) (pbkdf2Fn o) (encFn o) (B a 2) (B a 3) (arg a 4).asInt (B a 5))]),
  ("c12.spec.pbes2.unwrap", pureOp fun a =>
      let o := tableOracle (arg a 0)
      optW (Spec.PBES2.decryptKey (pbes2Params (N a 1)) (pbkdf2Fn o) (decFn o) (B a 2) (B a 3) (arg a 4).asInt (B a 5))),
  ("c12.spec.pbes2.salt", pureOp fun a => .bytes (Spec.PBES2.salt (pbes2Params (N a 0)) (B a 1))),
  -- AES_CBC_HMAC_SHA2
  ("c12.acbc.enc", fun a => (mapPO pairW (Model.Enc.ACBC.encrypt (cbcParams (N a 0)) (B a 1) (B a 2) (B a 3) (B a 4))).toOp),
  ("c12.acbc.dec", fun a => (mapPO Wire.bytes (Model.Enc.ACBC.decrypt (cbcParams (N a 0)) (B a 1) (B a 2) (B a 3) (B a 4) (B a 5))).toOp),
  ("c12.spec.acbc.enc", pureOp fun a =>
      let o := tableOracle (arg a 0)
      let ps := cbcParams (N a 1)
      optPairW (Spec.CBCHS.encrypt ps (encFn o) (hmacFn o ps.hash) (B a 2) (B a 3) (B a 4) (B a 5))),
  ("c12.spec.acbc.dec", pureOp fun a =>
      let o := tableOracle (arg a 0)
      let ps := cbcParams (N a 1)
      optW (Spec.CBCHS.decrypt ps (decFn o) (hmacFn o ps.hash) (B a 2) (B a 3) (B a 4) (B a 5) (B a 6))),
  -- AES GCM
  ("c12.agcm.enc", fun a => (mapPO pairW (Model.Enc.AGCM.encrypt (N a 0) (B a 1) (B a 2) (B a 3) (B a 4))).toOp),
  ("c12.agcm.dec", fun a => (mapPO Wire.bytes (Model.Enc.AGCM.decrypt (N a 0) (B a 1) (B a 2) (B a 3) (B a 4) (B a 5))).toOp),
  ("c12.spec.agcm.enc", pureOp fun a =>
      let o := tableOracle (arg a 0)
      optPairW (Spec.GCM.encrypt (N a 1) (gcmSealFn o) (B a 2) (B a 3) (B a 4) (B a 5))),
  ("c12.spec.agcm.dec", pureOp fun a =>
      let o := tableOracle (arg a 0)
      optW (Spec.GCM.decrypt (N a 1) (gcmOpenFn o) (B a 2) (B a 3) (B a 4) (B a 5) (B a 6))),
  -- AES GCM key wrap, dir
  ("c12.agcmkw.wrap", fun a => (mapPO pairW (Model.KW.AGCMKW.wrapKey (N a 0) (arg a 1).asBool (B a 2) (B a 3) (B a 4))).toOp),
  ("c12.agcmkw.unwrap", fun a => (mapPO Wire.bytes (Model.KW.AGCMKW.unwrapKey (N a 0) (arg a 1).asBool (B a 2) (B a 3) (B a 4) (B a 5))).toOp),
  ("c12.spec.agcmkw.wrap", pureOp fun a =>
      let o := tableOracle (arg a 0)
      optPairW (Spec.GCM.wrapKey (N a 1) (gcmSealFn o) (B a 2) (B a 3) (B a 4))),
  ("c12.spec.agcmkw.unwrap", pureOp fun a =>
      let o := tableOracle (arg a 0)
      optW (Spec.GCM.unwrapKey (N a 1) (gcmOpenFn o) (B a 2) (B a 3) (B a 5) (B a 4))),
  ("c12.dir.unwrap", fun a => (mapPO Wire.bytes (Model.KW.Dir.unwrapKey (arg a 0).asBool (B a 1) (B a 2))).toOp),
  ("c12.dir.wrap", fun a => (mapPO Wire.bytes (Model.KW.Dir.wrapKey (arg a 0).asBool (B a 1) (B a 2))).toOp)
]
end Drive.C12
