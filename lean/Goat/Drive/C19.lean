import Goat.Base.Drive
import Goat.Model.Rand
/-
Driver ops of C19.

  c19.hist  <ops: [op …]>
        → [ [step …], [draw …] ]   step = [outcome, posAfter, nDrawsAfter]; draw = [kind, pos, bytes]
  c19.gcmIVAt <mask> <counter> <pos>     one GenerateIV on an instance with the given state
        → [outcome([iv, counter', mask']), posAfter]
  c19.sizes <enc>  → [cekSize, ivSize, gcmKeyLen|-1, encKeyLen, macKeyLen]
  c19.lostUpdate <mask> <counter>  → [ivA, ivB, counterAfter]   (two unsynchronised GenerateIV)

op encodings:  ["newGcm" enc] ["gcmCEK" i] ["gcmIV" i] ["cbcCEK" enc] ["cbcIV" enc]
  ["wrapKey" kw cekLen hdr] ["deriveKey" kw enc] ["newMessage" enc] ["newMessageKW" enc kw hdr]
  ["encrypt" m kw hdr];  kw = ["akw"] | ["gcmkw"] | ["pbes2"] | ["dir" key] | ["ecdhDirect"] |
  ["ecdhKW"] | ["invalid"];  hdr = [iv|_ p2s|_ p2c]
-/
namespace Drive.C19
open Model.Rand

def decHdr (w : Wire) : Hdr :=
  let a := w.asArr
  ⟨(arg a 0).asBytes?, (arg a 1).asBytes?, (arg a 2).asNat⟩

def decKW (w : Wire) : Option KW :=
  let a := w.asArr
  let t := (arg a 0).asStr
  if t == "akw" then some .akw
  else if t == "gcmkw" then some .gcmkw
  else if t == "pbes2" then some .pbes2
  else if t == "dir" then some (.dir (arg a 1).asBytes)
  else if t == "ecdhDirect" then some .ecdhDirect
  else if t == "ecdhKW" then some .ecdhKW
  else if t == "invalid" then some .invalid
  else none

def decOp (w : Wire) : Op :=
  let a := w.asArr
  let t := (arg a 0).asStr
  let enc (i : Nat) := Enc.ofName? (arg a i).asStr
  let r : Option Op :=
    if t == "newGcm" then (enc 1).map .newGcm
    else if t == "gcmCEK" then some (.gcmCEK (arg a 1).asNat)
    else if t == "gcmIV" then some (.gcmIV (arg a 1).asNat)
    else if t == "cbcCEK" then (enc 1).map .cbcCEK
    else if t == "cbcIV" then (enc 1).map .cbcIV
    else if t == "wrapKey" then (decKW (arg a 1)).map fun kw => .wrapKey kw (arg a 2).asNat (decHdr (arg a 3))
    else if t == "deriveKey" then (decKW (arg a 1)).bind fun kw => (enc 2).map fun e => .deriveKey kw e
    else if t == "newMessage" then (enc 1).map .newMessage
    else if t == "newMessageKW" then
      (enc 1).bind fun e => (decKW (arg a 2)).map fun kw => .newMessageKW e kw (decHdr (arg a 3))
    else if t == "encrypt" then (decKW (arg a 2)).map fun kw => .encrypt (arg a 1).asNat kw (decHdr (arg a 3))
    else none
  r.getD .bad

def encItem : Item → Wire
  | .inst i => .arr [.str "inst", .int i]
  | .msg m => .arr [.str "msg", .int m]
  | .cek b => .arr [.str "cek", .bytes b]
  | .cekShared b => .arr [.str "cekShared", .bytes b]
  | .cekAgreed n => .arr [.str "cekAgreed", .int n]
  | .iv b => .arr [.str "iv", .bytes b]
  | .kwIV b s => .arr [.str "kwIV", .bytes b, .bool s]
  | .salt b s => .arr [.str "salt", .bytes b, .bool s]
  | .p2c n d => .arr [.str "p2c", .int n, .bool d]

def encOut : Outcome (List Item) → Wire
  | .ok l => .arr [.str "ok", .arr (l.map encItem)]
  | .err c => .arr [.str "err", .str c]
  | .panic p => .arr [.str "panic", .str p]

def encDraw (d : Draw) : Wire := .arr [.str d.kind.name, .int d.pos, .bytes d.bytes]

def hist (a : List Wire) : Prog Wire :=
  let ops := (arg a 0).asArr.map decOp
  Prog.bind (histProg St.init ops) fun rs =>
    let steps := rs.map fun (_, out, s) => Wire.arr [encOut out, .int s.pos, .int s.log.length]
    let log := match rs.getLast? with
      | some (_, _, s) => s.log
      | none => []
    Prog.ret (.arr [.arr steps, .arr (log.map encDraw)])

def gcmIVAt (a : List Wire) : Prog Wire :=
  let g : Gcm := ⟨.a128gcm, 16, (arg a 0).asBytes, (arg a 1).asNat⟩
  let s : St := { St.init with pos := (arg a 2).asNat }
  Prog.bind (gcmGenerateIV g s) fun r =>
    let out : Wire := match r.1 with
      | .ok (g', iv) => .arr [.str "ok", .arr [.bytes iv, .int g'.counter, .bytes g'.mask]]
      | .err c => .arr [.str "err", .str c]
      | .panic p => .arr [.str "panic", .str p]
    Prog.ret (.arr [out, .int r.2.pos])

def sizes (a : List Wire) : Wire :=
  match Enc.ofName? (arg a 0).asStr with
  | some e => .arr [.int e.cekSize, .int e.ivSize,
      (match e.gcmKeyLen? with | some k => .int k | none => .int (-1)),
      .int e.cbcLens.1, .int e.cbcLens.2]
  | none => .none

/-- two threads run GenerateIV on one instance without synchronisation: both read the counter,
    then both finish (agcm.go:66 read; 72-87 increment, write, build) -/
def lostUpdate (a : List Wire) : Wire :=
  let g : Gcm := ⟨.a128gcm, 16, (arg a 0).asBytes, (arg a 1).asNat⟩
  let cA := g.counter
  let cB := g.counter
  match gcmFinishIV g cA with
  | .ok (g1, ivA) =>
    match gcmFinishIV g1 cB with
    | .ok (g2, ivB) => .arr [.bytes ivA, .bytes ivB, .int g2.counter]
    | _ => .none
  | _ => .none

def ops : OpTable := [
  ("c19.hist", hist),
  ("c19.gcmIVAt", gcmIVAt),
  ("c19.sizes", pureOp sizes),
  ("c19.lostUpdate", pureOp lostUpdate)
]
end Drive.C19
