import Goat.Base.Drive
import Goat.Model.Binding
/-
Driver ops of C03.  Encodings:
  mat   : [tag] | [tag, int] | [tag, str]          e.g. ["bytes", 32], ["ecdsaPub", "P-256"], ["nil"]
  key   : _ (nil interface) | [priv, pub, use, ops, alg]   ops: _ (nil slice) | [str…]
  kwctor: alg name (registry) | ["rsa15", weak] | ["oaep", hash, weak]
  sctor : ["name", alg] (registry) | ["hs"|"rs"|"ps", hash, weak] | ["es", crv, hash] | ["eddsa"] | ["none"]
  av    : "any" | [str…]
-/
namespace Drive.C03
open Model.Binding

def crvOf (s : String) : Crv :=
  if s = "P-256" then .p256 else if s = "P-384" then .p384 else if s = "P-521" then .p521
  else if s = "secp256k1" then .secp256k1 else .other

def dhCrvOf (s : String) : DhCrv :=
  if s = "P-256" then .p256 else if s = "P-384" then .p384 else if s = "P-521" then .p521 else .x25519

def matOf (w : Wire) : Mat :=
  let tag := (arg w.asArr 0).asStr
  let p := arg w.asArr 1
  if tag = "nil" then .nil
  else if tag = "bytes" then .bytes p.asNat
  else if tag = "rsaPriv" then .rsaPriv p.asNat
  else if tag = "rsaPub" then .rsaPub p.asNat
  else if tag = "ecdsaPriv" then .ecdsaPriv (crvOf p.asStr)
  else if tag = "ecdsaPub" then .ecdsaPub (crvOf p.asStr)
  else if tag = "ed25519Priv" then .ed25519Priv
  else if tag = "ed25519Pub" then .ed25519Pub
  else if tag = "ed448Priv" then .ed448Priv
  else if tag = "ed448Pub" then .ed448Pub
  else if tag = "x25519Priv" then .x25519Priv
  else if tag = "x25519Pub" then .x25519Pub
  else if tag = "x448Priv" then .x448Priv
  else if tag = "x448Pub" then .x448Pub
  else if tag = "ecdhPriv" then .ecdhPriv (dhCrvOf p.asStr)
  else if tag = "ecdhPub" then .ecdhPub (dhCrvOf p.asStr)
  else .other

def keyOf (w : Wire) : Option Key :=
  match w with
  | .arr a =>
    some { priv := matOf (arg a 0), pub := matOf (arg a 1), use := (arg a 2).asStr,
           keyOps := (match arg a 3 with
                      | .arr l => some (l.map Wire.asStr)
                      | _ => none),
           alg := (arg a 4).asStr }
  | _ => none

def hashOf (s : String) : Hash :=
  if s = "sha1" then .sha1 else if s = "sha256" then .sha256 else if s = "sha384" then .sha384 else .sha512

/-- constructor spec → constructor (registry lookups may panic like SignatureAlgorithm.New) -/
def sctorOf (w : Wire) : Outcome SigCtor :=
  let a := w.asArr
  let tag := (arg a 0).asStr
  if tag = "name" then sigNew (arg a 1).asStr
  else if tag = "hs" then .ok (.hs (hashOf (arg a 1).asStr) (arg a 2).asBool)
  else if tag = "rs" then .ok (.rs (hashOf (arg a 1).asStr) (arg a 2).asBool)
  else if tag = "ps" then .ok (.ps (hashOf (arg a 1).asStr) (arg a 2).asBool)
  else if tag = "es" then .ok (.es (crvOf (arg a 1).asStr) (hashOf (arg a 2).asStr))
  else if tag = "eddsa" then .ok .eddsa
  else .ok .none

/-- key-management constructor spec: alg name (registry) | ["rsa15", weak] | ["oaep", hash, weak] -/
def kwctorOf (w : Wire) : Outcome KwCtor :=
  match w with
  | .str n => kwNew n
  | _ =>
    let a := w.asArr
    let tag := (arg a 0).asStr
    if tag = "rsa15" then .ok (.rsa15 (arg a 1).asBool)
    else .ok (.oaep (hashOf (arg a 1).asStr) (arg a 2).asBool)

def avOf (w : Wire) : AlgVerifier :=
  match w with
  | .arr l => .allowed (l.map Wire.asStr)
  | _ => .any

def outUnit (r : Outcome Unit) : Wire := (r.bind fun _ => .ok (.bool true)).toWire

/-- run a PO Unit and return its outcome as a value (never short-circuits) -/
def tryOp (p : PO Unit) : PO Wire := do
  let r ← PO.attempt p
  pure (outUnit r)

def optStr (w : Wire) : Option String :=
  match w with
  | .str s => some s
  | _ => none

def entryOf (w : Wire) : SigEntry :=
  let a := w.asArr
  { protectedAlg := optStr (arg a 0), headerAlg := optStr (arg a 1), sigLen := (arg a 2).asNat }

/-- finder spec for jws: ["jwk", key] | ["fixed", sctor, key] | ["fail"] | ["panic"] -/
def jwsFinderOf (w : Wire) : SigEntry → PO SigningKey :=
  let a := w.asArr
  let tag := (arg a 0).asStr
  if tag = "jwk" then jwsJWKKeyFinder (keyOf (arg a 1))
  else if tag = "fixed" then fun _ => do
    let c ← PO.ofOutcome (sctorOf (arg a 1))
    PO.ofOutcome (newSigningKey c (keyOf (arg a 2)))
  else if tag = "panic" then fun _ => PO.panic "finder"
  else fun _ => PO.fail "key-not-found"

def jwtFinderOf (w : Wire) : String → PO SigningKey :=
  let a := w.asArr
  let tag := (arg a 0).asStr
  if tag = "jwk" then
    match keyOf (arg a 1) with
    | some k => jwtJWKKeyFinder k
    | none => fun _ => PO.panic "nil-jwk"
  else if tag = "fixed" then fun _ => do
    let c ← PO.ofOutcome (sctorOf (arg a 1))
    PO.ofOutcome (newSigningKey c (keyOf (arg a 2)))
  else if tag = "panic" then fun _ => PO.panic "finder"
  else fun _ => PO.fail "key-not-found"

/-- finder spec on the decoded header view: as `jwtFinderOf`, plus ["jwks", [[kid, key]…]] -/
def jwtViewFinderOf (w : Wire) : HdrView → PO SigningKey :=
  let a := w.asArr
  if (arg a 0).asStr = "jwks" then
    jwtJWKSKeyFinder ((arg a 1).asArr.filterMap fun e =>
      match keyOf (arg e.asArr 1) with
      | some k => some ((arg e.asArr 0).asStr, k)
      | none => none)
  else fun h => jwtFinderOf w h.alg

def rawSigOf (w : Wire) : RawSig :=
  let a := w.asArr
  { protectedRaw := (arg a 0).asBytes?, headerRaw := (arg a 1).asBytes?, sigLen := (arg a 2).asNat }

def kwArgsOf (w : Wire) : KwArgs :=
  let a := w.asArr
  { cekLen := (arg a 0).asNat, dataLen := (arg a 1).asNat, epk := matOf (arg a 2),
    encCekSize := (arg a 3).asNat }

def sigNameOf (c : SigCtor) : String :=
  match sigRegistry.find? (fun p => p.2 == c) with
  | some p => p.1
  | none => "?"

def ops : OpTable := [
  -- [sctor, key, sigLen] → [sign outcome, verify outcome, family] | outcome of the constructor
  ("c03.sig", fun a => PO.toOp (do
      let c ← PO.ofOutcome (sctorOf (arg a 0))
      let sk ← PO.ofOutcome (newSigningKey c (keyOf (arg a 1)))
      let s ← tryOp (sign sk)
      let v ← tryOp (verify sk (arg a 2).asNat)
      pure (.arr [s, v, .str sk.family]))),
  -- [kw alg name, key, kwargs] → [wrap, unwrap, derive]
  ("c03.kw", fun a => PO.toOp (do
      let c ← PO.ofOutcome (kwctorOf (arg a 0))
      let kw ← PO.ofOutcome (newKeyWrapper c (keyOf (arg a 1)))
      let args := kwArgsOf (arg a 2)
      let w ← tryOp (wrapKey kw args)
      let u ← tryOp (unwrapKey kw args)
      let d ← tryOp (deriveKey kw args)
      pure (.arr [w, u, d]))),
  ("c03.canuse", pureOp fun a =>
      match keyOf (arg a 0) with
      | some k => .bool (canUseFor k (arg a 1).asStr)
      | none => .none),
  -- [av, finder, [entries…]] → outcome (index)
  ("c03.jws", fun a => PO.toOp (do
      let i ← jwsVerify (avOf (arg a 0)) (jwsFinderOf (arg a 1)) ((arg a 2).asArr.map entryOf)
      pure (.int i))),
  -- [av, finder, hdrAlg, sigLen] → outcome
  ("c03.jwt", fun a => PO.toOp (do
      jwtParse (avOf (arg a 0)) (jwtFinderOf (arg a 1)) (arg a 2).asStr (arg a 3).asNat (pure ())
      pure (.bool true))),
  -- [av, finder, [[protected bytes|_, header bytes|_, sigLen]…]] → outcome (index)
  ("c03.jwsraw", fun a => PO.toOp (do
      let i ← jwsVerifyRaw (avOf (arg a 0)) (jwsFinderOf (arg a 1)) ((arg a 2).asArr.map rawSigOf)
      pure (.int i))),
  -- [av, finder, header bytes, sigLen] → outcome
  ("c03.jwtraw", fun a => PO.toOp (do
      jwtParseRaw (avOf (arg a 0)) (jwtViewFinderOf (arg a 1)) (arg a 2).asBytes (arg a 3).asNat (pure ())
      pure (.bool true))),
  ("c03.guess", pureOp fun a =>
      ((guessAlg (arg a 0).asStr (arg a 1).asStr).bind fun c => .ok (.str (sigNameOf c))).toWire),
  ("c03.names", pureOp fun _ =>
      .arr [.arr (sigRegistry.map fun p => .str p.1), .arr (kwRegistry.map fun p => .str p.1)]),
  ("c03.avail", pureOp fun a =>
      .arr [.bool (sigAvailable (arg a 0).asStr), .bool (kwAvailable (arg a 0).asStr)])
]
end Drive.C03
