import Goat.Base.Drive
namespace Drive.Selftest
/-- echo: returns its arguments; askecho: asks the oracle to echo and returns the answer -/
def ops : OpTable := [
  ("selftest.echo", fun a => Prog.ret (.arr a)),
  ("selftest.ask", fun a => Prog.query "echo" a),
  ("selftest.hmac", fun a => do
      let m ← Prog.query "hmac" [.str "sha256", arg a 0, arg a 1]
      return .arr [m, .int (m.asBytes.length)])
]
end Drive.Selftest
