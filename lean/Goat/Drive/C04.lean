import Goat.Base.Drive
import Goat.Model.JWTClaims
/-
Ops of C04 (and the NumericDate ops shared with C10).
  c04.parse      [arr [b,b,b,b] (KeyFinder, AlgorithmVerifier, IssuerSubjectVerifier, AudienceVerifier set?), bytes token]
  c04.claims     [bytes payload]                       parseClaims alone
  nd.decode      [str text]   → ok (int ns) | err
  nd.encode      [int ns]     → ok (str text) | err
-/
namespace Drive.C04
open Model Model.JWTClaims

def cfgOf (w : Wire) : Config :=
  let a := w.asArr
  ⟨(a.getD 0 .none).asBool, (a.getD 1 .none).asBool, (a.getD 2 .none).asBool, (a.getD 3 .none).asBool⟩

def outcomeOp (r : Outcome Wire) : Prog Wire := Prog.ret r.toWire

def ops : OpTable := [
  ("c04.parse", fun a => (do let c ← parse (cfgOf (arg a 0)) (arg a 1).asBytes; pure c.toWire : PO Wire).toOp),
  ("c04.claims", fun a => (do let c ← parseClaims (arg a 0).asBytes; pure c.toWire : PO Wire).toOp),
  ("nd.decode", fun a => outcomeOp ((NumericDate.decode (arg a 0).asStr).bind (fun t => .ok (.int t)))),
  ("nd.encode", fun a => outcomeOp ((NumericDate.encode (arg a 0).asInt).bind (fun s => .ok (.str s))))
]
end Drive.C04
