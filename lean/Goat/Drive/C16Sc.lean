import Goat.Base.Drive
import Goat.Model.Sc448
/- Driver ops for the Ed448 scalar programs (translator check). -/
namespace Drive.C16Sc
open Model.Sc448

def intsOf (w : Wire) : List Int := w.asArr.map Wire.asInt
def ofInts (l : List Int) : Wire := .arr (l.map Wire.int)
def bytesOf (w : Wire) : List Int := w.asBytes.map (fun b => (b.toNat : Int))
def toBytes (l : List Int) : Wire := .bytes (l.map (fun x => UInt8.ofNat x.toNat))

def ops : OpTable := [
  ("sc448.mulAdd", pureOp fun a => toBytes (mulAdd (bytesOf (arg a 0)) (bytesOf (arg a 1)) (bytesOf (arg a 2)))),
  ("sc448.mulAddFull", pureOp fun a => toBytes (mulAddFull (bytesOf (arg a 0)) (bytesOf (arg a 1)) (bytesOf (arg a 2)))),
  ("sc448.reduce", pureOp fun a => toBytes (reduce (bytesOf (arg a 0)))),
  ("sc448.reduceFull", pureOp fun a => toBytes (reduceFull (bytesOf (arg a 0)))),
  ("sc448.add", pureOp fun a => toBytes (add (bytesOf (arg a 0)) (bytesOf (arg a 1)))),
  ("sc448.sub", pureOp fun a => toBytes (sub (bytesOf (arg a 0)) (bytesOf (arg a 1)))),
  ("sc448.negate", pureOp fun a => toBytes (negate (bytesOf (arg a 0)))),
  ("sc448.mul", pureOp fun a => toBytes (mul (bytesOf (arg a 0)) (bytesOf (arg a 1)))),
  ("sc448.isReduced", pureOp fun a => .bool (isReduced (bytesOf (arg a 0)))),
  ("sc448.setCanonical", pureOp fun a => match setCanonicalBytes (bytesOf (arg a 0)) with
      | some r => toBytes r | none => .none),
  ("sc448.clamp", pureOp fun a => match setBytesWithClamping (bytesOf (arg a 0)) with
      | some r => toBytes r | none => .none),
  ("sc448.uniform", pureOp fun a => match setUniformBytes (bytesOf (arg a 0)) with
      | some r => toBytes r | none => .none)
]
end Drive.C16Sc
