import Goat.Base.Drive
import Goat.Model.Recode
import Goat.Model.WindowMul
/-
Driver ops of GRP (group-level layer: recodings, windowed multiplications, normalizeScalar loop).
-/
namespace Drive.GRP
open Model.Recode Model.WindowMul

def intsOut (r : Outcome (List Int)) : Prog Wire :=
  Prog.ret (Outcome.toWire (match r with
    | .ok ds => .ok (.arr (ds.map Wire.int))
    | .err e => .err e
    | .panic p => .panic p))

def intOut (r : Outcome Int) : Wire :=
  Outcome.toWire (match r with
    | .ok v => .ok (.int v)
    | .err e => .err e
    | .panic p => .panic p)

/-- "scalar tracking": the three edwards448 multiplications run on G = ℤ with P = B = 1 and
    A = 2^500; the results must be s, s and a·2^500 + b -/
def trackEd448 (s a b : Bytes) : Wire :=
  let r1 : Outcome Int := (signedRadix16 s).bind fun ds => .ok (ed448ScalarMult intOps ds 1)
  let r2 : Outcome Int := (signedRadix16 s).bind fun ds => .ok (ed448ScalarBaseMultB intOps ds 1)
  let r3 : Outcome Int := (nonAdjacentForm 5 a).bind fun na => (nonAdjacentForm 8 b).bind fun nb =>
    ed448DoubleScalarMult intOps na nb (2 ^ 500) (nafTable8 intOps 1)
  .arr [intOut r1, intOut r2, intOut r3]

def trackK1 (s : Bytes) : Wire :=
  .arr [intOut (k1ScalarMult intOps s 1), intOut (k1ScalarBaseMult intOps (k1BaseTable intOps 64 1) s)]

def ops : OpTable := [
  ("grp.radix16", fun a => intsOut (signedRadix16 (arg a 0).asBytes)),
  ("grp.naf", fun a => intsOut (nonAdjacentForm (arg a 0).asNat (arg a 1).asBytes)),
  ("grp.normalize", fun a => normalizeScalarProg (arg a 0).asBytes),
  ("grp.track.ed448", pureOp fun a => trackEd448 (arg a 0).asBytes (arg a 1).asBytes (arg a 2).asBytes),
  ("grp.track.k1", pureOp fun a => trackK1 (arg a 0).asBytes),
  ("grp.select8", pureOp fun a => .int (lookupSelect8 intOps (lookupInit8 intOps 1) (arg a 0).asInt)),
  ("grp.k1select", pureOp fun a => intOut (k1Select intOps (k1LookupInit intOps 1) (arg a 0).asNat))
]
end Drive.GRP
