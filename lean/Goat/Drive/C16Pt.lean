import Goat.Base.Drive
import Goat.Model.Ed448Pt
import Goat.Spec.RFC8032
/-
Driver ops of C16P (Ed448 points): the point model on concrete limb vectors, short programs of
point operations over a register file, the three scalar multiplications, and the affine spec
(`Spec.Edwards448`, `Spec.RFC8032.encodePoint/decodePoint`) for the reference comparison.

A point travels as a list of 24 integers (X limbs, Y limbs, Z limbs).
-/
set_option compiler.extract_closed false
namespace Drive.C16Pt
open Model.Ed448Pt

def intsOf (w : Wire) : List Int := w.asArr.map Wire.asInt
def ofInts (l : List Int) : Wire := .arr (l.map Wire.int)

def ptOf (w : Wire) : Point :=
  let l := intsOf w
  ⟨l.take 8, (l.drop 8).take 8, (l.drop 16).take 8⟩
def ofPt (p : Point) : Wire := ofInts (p.x ++ p.y ++ p.z)

def outPt (r : Outcome Point) : Wire :=
  Outcome.toWire (match r with
    | .ok p => .ok (ofPt p)
    | .err e => .err e
    | .panic s => .panic s)

def outInts (r : Outcome (List Int)) : Wire :=
  Outcome.toWire (match r with
    | .ok p => .ok (ofInts p)
    | .err e => .err e
    | .panic s => .panic s)

def outInt (r : Outcome Int) : Wire :=
  Outcome.toWire (match r with
    | .ok p => .ok (.int p)
    | .err e => .err e
    | .panic s => .panic s)

/-- one instruction of a point program: `[op, dst, a, b, imm]` over a register file.
    ops: add double sub negate select(imm=cond) condneg(imm=cond) zero set identity generator -/
def step (regs : List Point) (ins : Wire) : Outcome (List Point) :=
  let a := ins.asArr
  let op := (a.getD 0 .none).asStr
  let dst := (a.getD 1 .none).asNat
  let ra := regs.getD (a.getD 2 .none).asNat zeroPt
  let rb := regs.getD (a.getD 3 .none).asNat zeroPt
  let imm := (a.getD 4 .none).asInt
  let r : Outcome Point :=
    match op with
    | "add" => addG ra rb
    | "double" => .ok (double ra)
    | "sub" => subG ra rb
    | "negate" => negateG ra
    | "select" => .ok (select ra rb imm)
    | "condneg" => condNegG ra imm
    | "zero" => .ok zeroPt
    | "set" => .ok (set ra)
    | "identity" => .ok (newIdentity ())
    | "generator" => .ok (newGenerator ())
    | _ => .err "op"
  r.bind fun p => .ok (regs.set dst p)

def runProg (regs : List Point) : List Wire → Outcome (List Point)
  | [] => .ok regs
  | i :: is => (step regs i).bind fun regs => runProg regs is

def specPt (w : Wire) : Spec.Edwards448.Point := ⟨(w.asArr.getD 0 .none).asInt, (w.asArr.getD 1 .none).asInt⟩
def ofSpecPt (p : Spec.Edwards448.Point) : Wire := .arr [.int p.x, .int p.y]

def ops : OpTable := [
  -- ed448pt.prog [regs…] [instrs…] → outcome [regs…]
  ("ed448pt.prog", pureOp fun a =>
    Outcome.toWire (match runProg ((arg a 0).asArr.map ptOf) (arg a 1).asArr with
      | .ok regs => .ok (.arr (regs.map ofPt))
      | .err e => .err e
      | .panic s => .panic s)),
  ("ed448pt.equal", pureOp fun a => outInt (equalG (ptOf (arg a 0)) (ptOf (arg a 1)))),
  ("ed448pt.bytes", pureOp fun a => outInts (bytesG (ptOf (arg a 0)))),
  ("ed448pt.setBytes", pureOp fun a => outPt (setBytes (intsOf (arg a 0)))),
  ("ed448pt.lookup", pureOp fun a => ofPt (lookupSelectInto (lookupInit (ptOf (arg a 0))) (arg a 1).asInt)),
  ("ed448pt.lookupIf", pureOp fun a =>
    ofPt (Model.WindowMul.lookupSelect8 Model.Ed448Pt.ops (lookupInit (ptOf (arg a 0))) (arg a 1).asInt)),
  ("ed448pt.consts", pureOp fun _ => .arr [ofInts feD, ofPt (newIdentity ()), ofPt (newGenerator ()), ofPt zeroPt]),
  ("ed448pt.scalarMult", pureOp fun a => outPt (scalarMult (arg a 0).asBytes (ptOf (arg a 1)))),
  ("ed448pt.scalarBaseMult", pureOp fun a => outPt (scalarBaseMult (arg a 0).asBytes)),
  ("ed448pt.doubleScalarBaseMult", pureOp fun a =>
    outPt (doubleScalarBaseMult (arg a 0).asBytes (ptOf (arg a 1)) (arg a 2).asBytes)),
  -- the affine spec
  ("ed448spec.add", pureOp fun a => ofSpecPt (Spec.Edwards448.add (specPt (arg a 0)) (specPt (arg a 1)))),
  ("ed448spec.neg", pureOp fun a => ofSpecPt (Spec.Edwards448.neg (specPt (arg a 0)))),
  ("ed448spec.smul", pureOp fun a => ofSpecPt (Spec.Edwards448.smul (arg a 0).asNat (specPt (arg a 1)))),
  ("ed448spec.onCurve", pureOp fun a => .bool (decide (Spec.Edwards448.OnCurve (specPt (arg a 0))))),
  ("ed448spec.encode", pureOp fun a => .bytes (Spec.RFC8032.encodePoint (specPt (arg a 0)))),
  ("ed448spec.decode", pureOp fun a =>
    match Spec.RFC8032.decodePoint (arg a 0).asBytes with
    | some p => ofSpecPt p
    | none => .none)
]
end Drive.C16Pt
