import Goat.Base.Drive
import Goat.Model.JsonDecoder
import Goat.Model.Registry
/-
Driver ops of C07: the jsonutils Decoder model run on a decoded JSON object, returning the class
and the RENDERED TEXT of the first recorded error (rendering is part of the property).
  c07.getter  [str pkg, obj raw, str getter, str name]  → ["ok", [str class, str text]]
  c07.setFixed [int n (or none = nil *big.Int), int size] → ["ok", str class] | ["panic", site]
  c07.link [arr sigLinked, arr kmLinked, arr encLinked, str kind, …] → ["ok", alg] | ["err", cls] | ["panic", site]
      kind "jws": [str|none protectedAlg, str|none unprotectedAlg]   jws.JWKKeyFinder.FindKey
      kind "jwt": [str keyAlg, str headerAlg]                         jwt guessAlg
      kind "jwe": [str alg, str enc, bool unwrapOk]                   head of jwe.Message.Decrypt
-/
namespace Drive.C07
open Model.JsonDecoder

def getterOfName (s : String) : Getter :=
  if s == "has" then .has else if s == "getString" then .getString
  else if s == "mustString" then .mustString else if s == "getBoolean" then .getBoolean
  else if s == "getArray" then .getArray else if s == "mustArray" then .mustArray
  else if s == "getObject" then .getObject else if s == "getStringArray" then .getStringArray
  else if s == "getBytes" then .getBytes else if s == "mustBytes" then .mustBytes
  else if s == "getBigInt" then .getBigInt else if s == "mustBigInt" then .mustBigInt
  else if s == "getURL" then .getURL else if s == "getTime" then .getTime
  else if s == "getInt64" then .getInt64 else .mustInt64

def errWire (d : Dec) : PO Wire :=
  match d.err with
  | none => pure (.arr [.str "", .str ""])
  | some e => do
    let t ← render e
    pure (.arr [.str e.cls, .str t])

def runGetter (pkg : String) (raw : Wire) (g name : String) : PO Wire := do
  let d ← (getterOfName g).run (Dec.new pkg raw.asObj) name
  errWire d

def setFixed (n : Wire) (size : Nat) : PO Wire := do
  let i : Option Nat := match n with | .int v => some v.toNat | _ => none
  let e ← ({ raw := [] } : Enc).setFixedBigInt "x" i size
  pure (.str (e.err.getD ""))

def strs (w : Wire) : List String := w.asArr.map Wire.asStr
def optStr : Wire → Option String | .str s => some s | _ => none

def link (a : List Wire) : Wire :=
  let l : Model.Registry.Link := ⟨strs (arg a 0), strs (arg a 1), strs (arg a 2)⟩
  let kind := (arg a 3).asStr
  let r : Outcome String :=
    if kind == "jws" then Model.Registry.jwsFindKey l (optStr (arg a 4)) (optStr (arg a 5))
    else if kind == "jwt" then Model.Registry.jwtGuessAlg l (arg a 4).asStr (arg a 5).asStr
    else Model.Registry.jweDecryptHead l (arg a 4).asStr (arg a 5).asStr (arg a 6).asBool
  match r with
  | .ok s => Outcome.toWire (.ok (.str s))
  | .err c => Outcome.toWire (.err c)
  | .panic p => Outcome.toWire (.panic p)

def ops : OpTable := [
  ("c07.link", pureOp link),
  ("c07.getter", fun a => (runGetter (arg a 0).asStr (arg a 1) (arg a 2).asStr (arg a 3).asStr).toOp),
  ("c07.setFixed", fun a => (setFixed (arg a 0) (arg a 1).asNat).toOp)
]
end Drive.C07
