import Goat.Base.Drive
import Goat.Model.Conc
/-
Driver ops of C20.

  c20.flight <events: [ev …]> <nCallers>
      ev = ["call", c] | ["cancel", c] | ["answer", ok, v]
      → [ [outcome of caller 0 … nCallers-1], requests, cancelledFlights, flightOpen ]
      outcome = "none" (never called) | "pending" (still waiting) | ["value", v] | "provErr" | "ctxErr"
-/
namespace Drive.C20
open Conc.Flight

def decEv (w : Wire) : Option Ev :=
  let a := w.asArr
  let t := (arg a 0).asStr
  if t == "call" then some (.call (arg a 1).asNat)
  else if t == "cancel" then some (.cancel (arg a 1).asNat)
  else if t == "answer" then some (.answer (arg a 1).asBool (arg a 2).asNat)
  else none

def encOut (s : St) (c : Caller) : Wire :=
  match s.out c with
  | some (.value v) => .arr [.str "value", .int v]
  | some .provErr => .str "provErr"
  | some .ctxErr => .str "ctxErr"
  | none => if isWaiting s c then .str "pending" else .str "none"

def flight (a : List Wire) : Wire :=
  let evs := (arg a 0).asArr.filterMap decEv
  let n := (arg a 1).asNat
  let s := run init evs
  .arr [.arr ((List.range n).map (encOut s)), .int s.requests, .int s.cancelled, .bool s.flight.isSome]

def ops : OpTable := [
  ("c20.flight", pureOp flight)
]
end Drive.C20
