import Goat.Base.Drive
import Goat.Model.COSEKey
/-
Driver ops of C09 (COSE part; the JWK/PEM/Go-object ops are in Drive.C08).

  c09.cose <[[label, value]…]>  → outcome([kty, kid|_, priv, pub])        cose.ParseMap
-/
namespace Drive.C09
open Model.COSEKey

def cmapOfWire (w : Wire) : CMap :=
  w.asArr.map fun p => let a := p.asArr; (arg a 0, arg a 1)

def ops : OpTable := [
  ("c09.cose", fun a =>
    ((fun (k : Key) => Wire.arr [.int k.kty, Wire.ofOptBytes k.kid, k.priv.toWire, k.pub.toWire])
      <$> parseMap (cmapOfWire (arg a 0))).toOp)
]
end Drive.C09
