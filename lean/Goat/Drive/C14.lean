import Goat.Base.Drive
import Goat.Model.X448
import Goat.Model.X25519
import Goat.Spec.RFC7748
/-
Driver ops for C14: the Go-mirroring model of x448.X448 / NewKeyFromSeed / GenerateKey, the RFC 7748
specification, and the x25519 wrapper model (oracle = crypto/ecdh in the harness).
-/
namespace Drive.C14

def ops : OpTable := [
  -- c14.x448 scalar point → ["ok", bytes] | ["err", cls]
  ("c14.x448", fun a => (Wire.bytes <$> Model.X448.x448 (arg a 0).asBytes (arg a 1).asBytes).toOp),
  -- c14.spec scalar point → [bytes, isZero]   (RFC 7748 pseudo-code; 56-byte inputs)
  ("c14.spec", pureOp fun a =>
    let v := Spec.RFC7748.x448val (arg a 0).asBytes (arg a 1).asBytes
    .arr [.bytes (Spec.RFC7748.encodeUCoordinate v), .bool (v == 0)]),
  ("c14.newKeyFromSeed", fun a => (Wire.bytes <$> Model.X448.newKeyFromSeed (arg a 0).asBytes).toOp),
  ("c14.generateKey", fun a =>
    ((fun (r : Bytes × Bytes) => Wire.arr [.bytes r.1, .bytes r.2]) <$> Model.X448.generateKey (arg a 0).asNat).toOp),
  ("c14.x25519", fun a => (Wire.bytes <$> Model.X25519.x25519 (arg a 0).asBytes (arg a 1).asBytes).toOp),
  ("c14.x25519.newKeyFromSeed", fun a => (Wire.bytes <$> Model.X25519.newKeyFromSeed (arg a 0).asBytes).toOp)
]
end Drive.C14
