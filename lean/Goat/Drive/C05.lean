import Goat.Base.Drive
import Goat.Model.JWE
/-
Driver ops of C05 / C06 (the JWE layer).  Wire formats:
  header  : none (nil *Header) | obj {alg, enc, zip, kid, typ, cty : str; crit : arr str; epk : any | none;
            apu, apv, iv, tag, p2s : bytes | none; p2c : int; raw : obj}   (absent members = zero value)
  kw      : obj {alg : str, key : str, …}   (opaque to the model except `alg`)
-/
namespace Drive.C05
open Model.JWE

def optBytesOfW : Option Wire → Option Bytes
  | some (.bytes b) => some b
  | _ => none

def strOfW : Option Wire → String
  | some (.str s) => s
  | _ => ""

def hdrOfW : Wire → Option Header
  | .obj kvs =>
    let g := fun k => Wire.lookup k kvs
    some { alg := strOfW (g "alg"), enc := strOfW (g "enc"), zip := strOfW (g "zip"),
           kid := strOfW (g "kid"), typ := strOfW (g "typ"), cty := strOfW (g "cty"),
           crit := ((g "crit").getD .none).asArr.map Wire.asStr,
           epk := match g "epk" with | some .none => none | some w => some w | none => none,
           apu := optBytesOfW (g "apu"), apv := optBytesOfW (g "apv"), iv := optBytesOfW (g "iv"),
           tag := optBytesOfW (g "tag"), p2s := optBytesOfW (g "p2s"),
           p2c := ((g "p2c").getD (.int 0)).asInt, raw := ((g "raw").getD .none).asObj }
  | _ => none

def serialize (ser : String) (msg : Message) : PO Bytes :=
  if ser == "compact" then compact msg else marshalJSON msg

def parseAny (ser : String) (data : Bytes) : PO Message :=
  if ser == "compact" then parse data else parseJSON data

/-- c05.encrypt [enc, kw0 | none, protected, plaintext, [[kw, header]…], serialization] → bytes -/
def opEncrypt (a : List Wire) : PO Wire := do
  let enc := (arg a 0).asStr
  let kw0 := arg a 1
  let prot := hdrOfW (arg a 2)
  let pt := (arg a 3).asBytes
  let msg ← if kw0.isNone then newMessage enc prot pt else newMessageWithKW enc kw0 prot pt
  let msg ← (arg a 4).asArr.foldlM (fun m e => encrypt m (arg e.asArr 0) (hdrOfW (arg e.asArr 1))) msg
  let out ← serialize (arg a 5).asStr msg
  pure (.bytes out)

/-- c05.decrypt [data, serialization] → plaintext -/
def opDecrypt (a : List Wire) : PO Wire := do
  let msg ← parseAny (arg a 1).asStr (arg a 0).asBytes
  let pt ← decrypt msg
  pure (.bytes pt)

/-- c05.parse [data, serialization] → [b64protected, iv, ciphertext, tag, aad, #recipients] -/
def opParse (a : List Wire) : PO Wire := do
  let msg ← parseAny (arg a 1).asStr (arg a 0).asBytes
  pure (.arr [.bytes msg.b64protected, .bytes msg.iv, .bytes msg.ciphertext, .bytes msg.tag,
              .bytes msg.aad, .int msg.recipients.length])

/-- c05.reserialize [data, serIn, serOut] → bytes -/
def opReserialize (a : List Wire) : PO Wire := do
  let msg ← parseAny (arg a 1).asStr (arg a 0).asBytes
  let out ← serialize (arg a 2).asStr msg
  pure (.bytes out)

def ops : OpTable := [
  ("c05.encrypt", fun a => (opEncrypt a).toOp),
  ("c05.decrypt", fun a => (opDecrypt a).toOp),
  ("c05.parse", fun a => (opParse a).toOp),
  ("c05.reserialize", fun a => (opReserialize a).toOp),
  ("c05.isDeriver", pureOp fun a => .bool (isDeriver (.obj [("alg", arg a 0)]))),
  ("c05.encAvailable", pureOp fun a => .bool (encAvailable (arg a 0).asStr)),
  ("c05.knownParam", pureOp fun a => .bool (knownParams.contains (arg a 0).asStr)),
  ("c05.algs", pureOp fun _ => .arr (allAlgs.map .str)),
  ("c05.encs", pureOp fun _ => .arr (encNames.map .str))
]
end Drive.C05
