import Goat.Base.Drive
import Goat.Model.JWTClaims
import Goat.Model.Custom
/-
Ops of C10.
  c10.encode     [bool addr, ty, val]        → ok json | err | panic     EncodeCustom's `encode`
  c10.decode     [ty, json]                  → ok val  | err | panic     DecodeCustom's `decode` into a zero value
  c10.encodeCustom [raw (obj | null = nil map), bool addr, ty, val] → ok obj (the new Claims.Raw)   (*Claims).EncodeCustom
  c10.decodeInto [ty, val cur, json]         → ok val                    DecodeCustom into the current destination value
  c10.claims.enc [claims]                    → ok bytes | err            encodeClaims
  c10.claims.rt  [claims]                    → ok claims | err           encodeClaims, then parseClaims
  c10.f64int     [int bits, bool unsigned, arr [kind, neg, m, e]] → ok int | err   a Go float64 into an integer kind
  c10.int        [int bits, bool unsigned, str text] → ok int | err      json.Number into an integer kind
(`nd.decode` / `nd.encode` are in Drive.C04.)
-/
namespace Drive.C10
open Model Model.Custom Model.JWTClaims

def ops : OpTable := [
  ("c10.encode", fun a =>
    (encode 200 (arg a 0).asBool (Ty.ofWire (arg a 1)) (Val.ofWire (arg a 2))).toOp),
  ("c10.decode", fun a =>
    (do let v ← decode 200 (Ty.ofWire (arg a 0)) (arg a 1); pure v.toWire : PO Wire).toOp),
  ("c10.encodeCustom", fun a =>
    let raw := match arg a 0 with | .obj kvs => some kvs | _ => none
    (do let r ← encodeCustom 200 raw (arg a 1).asBool (Ty.ofWire (arg a 2)) (Val.ofWire (arg a 3))
        pure (.obj r) : PO Wire).toOp),
  ("c10.decodeInto", fun a =>
    (do let v ← decodeInto 200 (Ty.ofWire (arg a 0)) (Val.ofWire (arg a 1)) (arg a 2); pure v.toWire : PO Wire).toOp),
  ("c10.claims.enc", fun a =>
    (do let b ← encodeClaims (Claims.ofWire (arg a 0)); pure (.bytes b) : PO Wire).toOp),
  ("c10.claims.rt", fun a =>
    (do let b ← encodeClaims (Claims.ofWire (arg a 0))
        let c ← parseClaims b
        pure c.toWire : PO Wire).toOp),
  ("c10.f64int", fun a =>
    let bits := (arg a 0).asNat
    let x := F64.ofWire (arg a 2)
    Prog.ret (if (arg a 1).asBool
      then ((decodeF64Uint bits x).bind (fun n => .ok (Wire.int n))).toWire
      else ((decodeF64Int bits x).bind (fun i => .ok (Wire.int i))).toWire)),
  ("c10.int", fun a =>
    let bits := (arg a 0).asNat
    let text := (arg a 2).asStr
    Prog.ret (if (arg a 1).asBool
      then ((decodeUint bits text).bind (fun n => .ok (Wire.int n))).toWire
      else ((decodeInt bits text).bind (fun i => .ok (Wire.int i))).toWire))
]
end Drive.C10
