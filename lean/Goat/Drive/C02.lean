import Goat.Base.Drive
import Goat.Model.JWS
import Goat.Model.JWT
import Goat.Model.NumericDate
import Goat.Model.JWTFull
/-
Driver ops of C02.

  c02.jws.make <payload> <raw: bool> <signers: [[protected hdr|null, unprotected hdr|null, key handle] …]> <form: "compact"|"json">
        NewMessage/NewRawMessage, Sign per signer, Compact/MarshalJSON → ok bytes
  c02.jws.remarshal <data>  Parse then MarshalJSON → ok bytes
  c02.nd.encode <int ns> → ok str ;  c02.nd.decode <str> → ok int ns     (NumericDate text of a time claim)
  c02.jwt.full <hdr> <claims (C10 Claims wire)> <key handle> <cfg> → ok [token, header', claims']   Sign then Parse, real claims codec
  c02.jwt.sign <hdr> <claims> <key handle> → ok bytes
  c02.sig.sign <key handle> <input> → ok bytes
  hdr = {"raw":obj,"alg":str,"jku":str?,"jwk":obj?,"kid":str,"x5u":str?,"x5c":[bytes…]?,"x5t":bytes?,
         "x5tS256":bytes?,"typ":str,"cty":str,"crit":[str…],"nb64":bool}
-/
namespace Drive.C02
open Model.JWS

def fld (w : Wire) (k : String) : Wire := (w.get? k).getD .none

def decHeader (w : Wire) : Header :=
  { raw := match fld w "raw" with | .obj o => .obj o | _ => .obj []
    alg := (fld w "alg").asStr
    jku := (fld w "jku").asStr?
    jwk := match fld w "jwk" with | .obj o => some (.obj o) | _ => none
    kid := (fld w "kid").asStr
    x5u := (fld w "x5u").asStr?
    x5c := match fld w "x5c" with | .arr l => some (l.map Wire.asBytes) | _ => none
    x5t := (fld w "x5t").asBytes?
    x5tS256 := (fld w "x5tS256").asBytes?
    typ := (fld w "typ").asStr
    cty := (fld w "cty").asStr
    crit := (fld w "crit").asArr.map Wire.asStr
    nb64 := (fld w "nb64").asBool }

def decOptHeader (w : Wire) : Option Header :=
  match w with
  | .obj _ => some (decHeader w)
  | _ => none

def keyOf (w : Wire) : PO Model.Sig.SigningKey :=
  match Model.Sig.signingKeyOfHandle w with
  | none => PO.fail "key"
  | some r => PO.ofOutcome r

def signAll (msg : Message) : List Wire → PO Message
  | [] => pure msg
  | s :: rest => do
    let a := s.asArr
    let k ← keyOf (arg a 2)
    let msg' ← sign msg (decOptHeader (arg a 0)) (decOptHeader (arg a 1)) k
    signAll msg' rest

def ops : OpTable := [
  ("c02.jws.make", fun a =>
    (do
      let msg0 ← (if (arg a 1).asBool then pure (newRawMessage (arg a 0).asBytes)
                  else newMessage (arg a 0).asBytes : PO Message)
      let msg ← signAll msg0 (arg a 2).asArr
      let out ← (if (arg a 3).asStr == "compact" then compact msg else marshalJSON msg)
      pure (.bytes out) : PO Wire).toOp),
  ("c02.jws.remarshal", fun a =>
    (do
      let msg ← parseJSON (arg a 0).asBytes
      let out ← marshalJSON msg
      pure (.bytes out) : PO Wire).toOp),
  -- NumericDate codec of a time claim (model of property C10): instant in ns ↔ JSON number text
  ("c02.nd.encode", fun a =>
    (PO.ofOutcome ((Model.NumericDate.encode (arg a 0).asInt).bind (fun s => .ok (.str s))) : PO Wire).toOp),
  ("c02.nd.decode", fun a =>
    (PO.ofOutcome ((Model.NumericDate.decode (arg a 0).asStr).bind (fun t => .ok (.int t))) : PO Wire).toOp),
  -- the assembled JWT round trip: Sign with the real claims encoder, then Parse with the real claims step
  ("c02.jwt.full", fun a =>
    (do
      let k ← keyOf (arg a 2)
      let d ← Model.JWT.signFull (decHeader (arg a 0)) (Model.JWTClaims.Claims.ofWire (arg a 1)) k
      let cfgW := arg a 3
      let cfg : Model.JWT.Cfg := { configured := (fld cfgW "configured").asBool, allowAny := (fld cfgW "allowAny").asBool,
                                    allowed := (fld cfgW "allowed").asArr.map Wire.asStr }
      let r ← Model.JWT.parseFull cfg d
      pure (.arr [.bytes d, r.1.toWire, r.2.toWire]) : PO Wire).toOp),
  ("c02.jwt.sign", fun a =>
    (do
      let k ← keyOf (arg a 2)
      let out ← Model.JWT.sign (decHeader (arg a 0)) (arg a 1) k
      pure (.bytes out) : PO Wire).toOp),
  ("c02.sig.sign", fun a =>
    (do
      let k ← keyOf (arg a 0)
      let out ← Model.Sig.signKey k (arg a 1).asBytes
      pure (.bytes out) : PO Wire).toOp)
]
end Drive.C02
