import Goat.Base.Drive
import Goat.Model.HeaderMsg
import Goat.Model.HeaderHist
/-
Driver ops of property C11 (header codec and header placement).
Wire form of a Header: an object with one member per struct field (`_` = Go nil) and `raw`.
-/
namespace Drive.C11
open Model.Header

def optStr : Option String → Wire | some s => .str s | none => .none
def optBytes : Option Bytes → Wire | some b => .bytes b | none => .none
def optWire : Option Wire → Wire | some w => w | none => .none

def hdrToWire (h : Header) : Wire := .obj [
  ("alg", .str h.alg), ("enc", .str h.enc), ("zip", .str h.zip), ("jku", optStr h.jku),
  ("jwk", optWire h.jwk), ("kid", .str h.kid), ("x5u", optStr h.x5u),
  ("x5c", match h.x5c with | some l => .arr (l.map Wire.bytes) | none => .none),
  ("x5t", optBytes h.x5t), ("x5tS256", optBytes h.x5tS256), ("typ", .str h.typ), ("cty", .str h.cty),
  ("crit", .arr (h.crit.map Wire.str)), ("nb64", .bool h.nb64), ("epk", optWire h.epk),
  ("apu", optBytes h.apu), ("apv", optBytes h.apv), ("iv", optBytes h.iv), ("tag", optBytes h.tag),
  ("p2s", optBytes h.p2s), ("p2c", .int h.p2c), ("raw", .obj h.raw)]

def getStr? (w : Wire) (k : String) : Option String := (w.get? k).bind Wire.asStr?
def getBytes? (w : Wire) (k : String) : Option Bytes := (w.get? k).bind Wire.asBytes?
def getWire? (w : Wire) (k : String) : Option Wire :=
  match w.get? k with
  | some .none => none
  | x => x

def hdrOfWire (w : Wire) : Header := {
  alg := (getStr? w "alg").getD "", enc := (getStr? w "enc").getD "", zip := (getStr? w "zip").getD "",
  jku := getStr? w "jku", jwk := getWire? w "jwk", kid := (getStr? w "kid").getD "",
  x5u := getStr? w "x5u",
  x5c := match w.get? "x5c" with | some (.arr l) => some (l.map Wire.asBytes) | _ => none,
  x5t := getBytes? w "x5t", x5tS256 := getBytes? w "x5tS256",
  typ := (getStr? w "typ").getD "", cty := (getStr? w "cty").getD "",
  crit := ((w.get? "crit").getD .none).asArr.map Wire.asStr,
  nb64 := ((w.get? "nb64").getD .none).asBool, epk := getWire? w "epk",
  apu := getBytes? w "apu", apv := getBytes? w "apv", iv := getBytes? w "iv", tag := getBytes? w "tag",
  p2s := getBytes? w "p2s", p2c := ((w.get? "p2c").getD .none).asInt,
  raw := ((w.get? "raw").getD .none).asObj }

def optHdrToWire : Option Header → Wire | some h => hdrToWire h | none => .none
def optHdrOfWire : Wire → Option Header | .obj kvs => some (hdrOfWire (.obj kvs)) | _ => none

def sigToWire (s : Sig) : Wire := .obj [
  ("protected", optHdrToWire s.prot), ("raw", .str s.rawProtected),
  ("header", optHdrToWire s.header), ("sig", .str s.b64sig)]
def sigOfWire (w : Wire) : Sig := {
  prot := optHdrOfWire ((w.get? "protected").getD .none), rawProtected := (getStr? w "raw").getD "",
  header := optHdrOfWire ((w.get? "header").getD .none), b64sig := (getStr? w "sig").getD "" }
def msgToWire (m : Msg) : Wire := .obj [
  ("payload", .str m.payload), ("nb64", .bool m.nb64), ("sigs", .arr (m.sigs.map sigToWire))]
def msgOfWire (w : Wire) : Msg := {
  payload := (getStr? w "payload").getD "", nb64 := ((w.get? "nb64").getD .none).asBool,
  sigs := ((w.get? "sigs").getD .none).asArr.map sigOfWire }

def rcpToWire (r : Recipient) : Wire := .obj [("header", optHdrToWire r.header), ("key", .str r.encKey)]
def rcpOfWire (w : Wire) : Recipient := {
  header := optHdrOfWire ((w.get? "header").getD .none), encKey := (getStr? w "key").getD "" }
def jweToWire (m : JweMsg) : Wire := .obj [
  ("unprotected", optHdrToWire m.unprotected), ("protected", optHdrToWire m.prot),
  ("b64protected", .str m.b64protected), ("iv", .str m.iv), ("ciphertext", .str m.ciphertext),
  ("tag", .str m.tag), ("recipients", .arr (m.recipients.map rcpToWire)), ("aad", .str m.aad)]
def jweOfWire (w : Wire) : JweMsg := {
  unprotected := optHdrOfWire ((w.get? "unprotected").getD .none),
  prot := optHdrOfWire ((w.get? "protected").getD .none),
  b64protected := (getStr? w "b64protected").getD "", iv := (getStr? w "iv").getD "",
  ciphertext := (getStr? w "ciphertext").getD "", tag := (getStr? w "tag").getD "",
  recipients := ((w.get? "recipients").getD .none).asArr.map rcpOfWire,
  aad := (getStr? w "aad").getD "" }

/-- a history operation from its wire form `[name, index, args…]`; a plain setter carries the
    field name and the value in the same wire form as the header member -/
def hopOfWire (w : Wire) : Option HOp :=
  let a := w.asArr
  let i := (a.getD 1 .none).asNat
  match (a.getD 0 .none).asStr with
  | "set" =>
    match Fld.ofString (a.getD 2 .none).asStr with
    | some f => some (.set i f ((hdrOfWire (.obj [((a.getD 2 .none).asStr, a.getD 3 .none)])).get f))
    | none => none
  | "setcrit" => some (.setCritical i ((a.getD 2 .none).asArr.map Wire.asStr))
  | "setb64" => some (.setBase64 i (a.getD 2 .none).asBool)
  | "unmarshal" => some (.unmarshal i (a.getD 2 .none).asBytes)
  | "clone" => some (.clone i)
  | "rawset" => some (.rawSet i (a.getD 2 .none).asStr (a.getD 3 .none))
  | "rawdel" => some (.rawDel i (a.getD 2 .none).asStr)
  | "marshal" => some (.marshal i)
  | _ => none

def histOp (a : List Wire) : Prog Wire :=
  let isJWE := (arg a 0).asBool
  let hdrs := (arg a 1).asArr.map hdrOfWire
  match (arg a 2).asArr.mapM hopOfWire with
  | none => Prog.ret (.arr [.str "err", .str "bad-op"])
  | some ops =>
    (do let st ← hrun isJWE ops { hdrs := hdrs, outs := [] }
        pure (Wire.obj [("hdrs", .arr (st.hdrs.map hdrToWire)), ("outs", .arr (st.outs.map Outcome.toWire))]) : PO Wire).toOp

def mapW {α} (f : α → Wire) (p : PO α) : Prog Wire := (do let a ← p; pure (f a) : PO Wire).toOp
def strs (l : List String) : Wire := .arr (l.map Wire.str)

def ops : OpTable := [
  ("c11.jws.encode", fun a => (jwsEncodeHeader (hdrOfWire (arg a 0))).toOp),
  ("c11.jwe.encode", fun a => (jweEncodeHeader (hdrOfWire (arg a 0))).toOp),
  ("c11.jws.decode", fun a => mapW hdrToWire (jwsDecodeHeader (arg a 0).asObj)),
  ("c11.jwe.decode", fun a => mapW hdrToWire (jweDecodeHeader (arg a 0).asObj)),
  ("c11.jws.unmarshal", fun a => mapW hdrToWire (jwsUnmarshalHeader (arg a 0).asBytes)),
  ("c11.jwe.unmarshal", fun a => mapW hdrToWire (jweUnmarshalHeader (arg a 0).asBytes)),
  ("c11.hist", histOp),
  ("c11.jws.setcrit", pureOp fun a => hdrToWire (jwsSetCritical (hdrOfWire (arg a 0)) ((arg a 1).asArr.map Wire.asStr))),
  ("c11.jws.setb64", pureOp fun a => hdrToWire (jwsSetBase64 (hdrOfWire (arg a 0)) (arg a 1).asBool)),
  ("c11.jws.sign", fun a => mapW msgToWire (jwsSign (msgOfWire (arg a 0)) (optHdrOfWire (arg a 1)) (optHdrOfWire (arg a 2)))),
  ("c11.jws.marshal", fun a => (jwsMarshalJSON (msgOfWire (arg a 0))).toOp),
  ("c11.jws.parse", fun a => mapW msgToWire (jwsParseJSON (arg a 0).asBytes)),
  ("c11.jws.compact", fun a => mapW strs (jwsCompact (msgOfWire (arg a 0)))),
  ("c11.jws.parsecompact", fun a => mapW msgToWire (jwsParseCompact ((arg a 0).asArr.map Wire.asStr))),
  ("c11.jwe.new", fun a => mapW jweToWire (jweNewMessage (arg a 0).asStr (optHdrOfWire (arg a 1)) (arg a 2).asStr?)),
  ("c11.jwe.encrypt", pureOp fun a => jweToWire (jweEncrypt (jweOfWire (arg a 0)) (optHdrOfWire (arg a 1)) (arg a 2).asStr)),
  ("c11.jwe.marshal", fun a => (jweMarshalJSON (jweOfWire (arg a 0))).toOp),
  ("c11.jwe.parse", fun a => mapW jweToWire (jweParseJSON (arg a 0).asBytes)),
  ("c11.jwe.compact", fun a => mapW strs (jweCompact (jweOfWire (arg a 0)))),
  ("c11.jwe.parsecompact", fun a => mapW jweToWire (jweParseCompact ((arg a 0).asArr.map Wire.asStr)))
]
end Drive.C11
