import Goat.Base.Drive
import Goat.Model.JWK
import Goat.Spec.IANA
/-
Driver ops of C08 (and the JWK ops of C09).

key wire form (argument and result):
  { raw: {…}, kty, use, key_ops: [..]|_, alg, kid, x5u: s|_, x5c: [[der, pub]…]|_, x5t: b|_,
    "x5t#S256": b|_, priv: <GoPriv wire>, pub: <GoPub wire> }         (see Model.JWK.GoPriv.toWire)

  c08.marshal <key>              → outcome(JSON object)     Key.MarshalJSON before json.Marshal
  c08.thumbprint <key> <hash>    → outcome(bytes)           Key.Thumbprint
  c08.parse <JSON object>        → outcome(key)             jwk.ParseMap
  c08.parseSet <[JSON object…]>  → outcome([key…])          the loop of jwk.ParseSet
  c08.newPrivate <GoPriv wire>   → outcome(key)             jwk.NewPrivateKey
  c08.newPublic <GoPub wire>     → outcome(key)             jwk.NewPublicKey
  c08.setPrivate <key> <GoPriv wire> → key (with raw)       (*Key).SetPrivateKey
  c08.setPublic <key> <GoPub wire>   → key (with raw)       (*Key).SetPublicKey
  c08.pem <bytes>                → outcome([key, rest])     jwk.DecodePEM
  c08.spec <material> <params> <extras> → JSON object whose encoded values are "hex:<octets>"
        (Spec.IANA.specEncode with enc = hex; material = ["ec",crv,x,y,d|_] | ["rsa",n,e,_|[d,p,q,_|[dp,dq,qi],[[r,d,t]…]]]
         | ["okp",crv,x,d|_] | ["oct",k]; params = {kid,use,key_ops,alg,x5u,x5c,x5t,"x5t#S256"})
  c08.required <material>        → [[name, "hex:<octets>"|identifier]…]   Spec.IANA.requiredMembers
-/
namespace Drive.C08
open Model.JWK

def optStr (w : Option Wire) : String := match w with | some (.str s) => s | _ => ""
def optBytes? (w : Option Wire) : Option Bytes := match w with | some (.bytes b) => some b | _ => none

def certOfWire (w : Wire) : Cert :=
  let a := w.asArr
  ⟨(arg a 0).asBytes, GoPub.ofWire (arg a 1)⟩

def keyOfWire (w : Wire) : Key :=
  let m := w.asObj
  let g := fun k => Wire.lookup k m
  { raw := (g "raw").map Wire.asObj |>.getD [],
    kty := optStr (g "kty"), use := optStr (g "use"),
    keyOps := match g "key_ops" with | some (.arr l) => some (l.map Wire.asStr) | _ => none,
    alg := optStr (g "alg"), kid := optStr (g "kid"),
    x5u := match g "x5u" with | some (.str s) => some s | _ => none,
    x5c := match g "x5c" with | some (.arr l) => some (l.map certOfWire) | _ => none,
    x5t := optBytes? (g "x5t"), x5tS256 := optBytes? (g "x5t#S256"),
    priv := GoPriv.ofWire ((g "priv").getD .none), pub := GoPub.ofWire ((g "pub").getD .none) }

def keyToWire (k : Key) : Wire :=
  .obj [("kty", .str k.kty), ("use", .str k.use),
        ("key_ops", match k.keyOps with | some l => .arr (l.map .str) | none => .none),
        ("alg", .str k.alg), ("kid", .str k.kid),
        ("x5u", match k.x5u with | some s => .str s | none => .none),
        ("x5c", match k.x5c with
                | some l => .arr (l.map fun c => .arr [.bytes c.raw, c.pub.toWire]) | none => .none),
        ("x5t", Wire.ofOptBytes k.x5t), ("x5t#S256", Wire.ofOptBytes k.x5tS256),
        ("priv", k.priv.toWire), ("pub", k.pub.toWire)]

/-- key wire form including `Raw` (argument form of the re-keying ops) -/
def keyToWireRaw (k : Key) : Wire :=
  match keyToWire k with
  | .obj kvs => .obj (("raw", .obj k.raw) :: kvs)
  | w => w

open Spec.IANA in
def ecCurveOf (s : String) : ECCurve :=
  if s == "P-384" then .p384 else if s == "P-521" then .p521
  else if s == "secp256k1" then .secp256k1 else .p256

open Spec.IANA in
def okpCurveOf (s : String) : OKPCurve :=
  if s == "Ed448" then .ed448 else if s == "X25519" then .x25519
  else if s == "X448" then .x448 else .ed25519

open Spec.IANA in
def materialOfWire (w : Wire) : KeyMaterial :=
  let a := w.asArr
  let t := (arg a 0).asStr
  if t == "ec" then
    .ec (ecCurveOf (arg a 1).asStr) (arg a 2).asNat (arg a 3).asNat
      (match arg a 4 with | .int d => some d.toNat | _ => none)
  else if t == "rsa" then
    .rsa (arg a 1).asNat (arg a 2).asNat
      (match arg a 3 with
       | .arr [.int d, .int p, .int q, crt, oth] =>
         some ⟨d.toNat, p.toNat, q.toNat,
           (match crt with | .arr [.int dp, .int dq, .int qi] => some (dp.toNat, dq.toNat, qi.toNat) | _ => none),
           oth.asArr.map fun w => ((arg w.asArr 0).asNat, (arg w.asArr 1).asNat, (arg w.asArr 2).asNat)⟩
       | _ => none)
  else if t == "okp" then
    .okp (okpCurveOf (arg a 1).asStr) (arg a 2).asBytes (arg a 3).asBytes?
  else .oct (arg a 1).asBytes

open Spec.IANA in
def paramsOfWire (w : Wire) : Params :=
  let g := fun k => Wire.lookup k w.asObj
  { kid := (g "kid").bind Wire.asStr?, use := (g "use").bind Wire.asStr?,
    keyOps := match g "key_ops" with | some (.arr l) => some (l.map Wire.asStr) | _ => none,
    alg := (g "alg").bind Wire.asStr?, x5u := (g "x5u").bind Wire.asStr?,
    x5c := match g "x5c" with | some (.arr l) => some (l.map Wire.asBytes) | _ => none,
    x5t := optBytes? (g "x5t"), x5tS256 := optBytes? (g "x5t#S256") }

def hexEnc (b : Bytes) : String := "hex:" ++ Bytes.toHex b

def ops : OpTable := [
  ("c08.marshal", fun a => ((fun m => Wire.obj m) <$> marshal (keyOfWire (arg a 0))).toOp),
  ("c08.thumbprint", fun a => ((fun b => Wire.bytes b) <$> thumbprint (keyOfWire (arg a 0)) (arg a 1).asStr).toOp),
  ("c08.parse", fun a => (keyToWire <$> parseMap (arg a 0).asObj).toOp),
  ("c08.parseSet", fun a => ((fun l => Wire.arr (l.map keyToWire)) <$> parseSetKeys (arg a 0).asArr).toOp),
  ("c08.newPrivate", fun a => (keyToWire <$> newPrivateKey (GoPriv.ofWire (arg a 0))).toOp),
  ("c08.newPublic", fun a => (keyToWire <$> newPublicKey (GoPub.ofWire (arg a 0))).toOp),
  ("c08.setPrivate", pureOp fun a => keyToWireRaw (setPrivateKey (keyOfWire (arg a 0)) (GoPriv.ofWire (arg a 1)))),
  ("c08.setPublic", pureOp fun a => keyToWireRaw (setPublicKey (keyOfWire (arg a 0)) (GoPub.ofWire (arg a 1)))),
  ("c08.pem", fun a => ((fun (k, rest) => Wire.arr [keyToWire k, .bytes rest]) <$> decodePEM (arg a 0).asBytes).toOp),
  ("c08.spec", pureOp fun a =>
      .obj (Spec.IANA.specEncode hexEnc hexEnc (materialOfWire (arg a 0)) (paramsOfWire (arg a 1)) (arg a 2).asObj)),
  ("c08.required", pureOp fun a =>
      .obj (Spec.IANA.requiredMembers hexEnc (materialOfWire (arg a 0))))
]
end Drive.C08
