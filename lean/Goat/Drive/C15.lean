import Goat.Base.Drive
import Goat.Model.K1Pt
/-
Driver ops of C15: the point-level model functions of `Model.K1Pt` on concrete inputs
(coordinates are 4-limb lists; `*big.Int` are ints; scalars are byte strings).
-/
namespace Drive.C15
open Model.K1Pt

def intsOf (w : Wire) : List Int := w.asArr.map Wire.asInt
def ofInts (l : List Int) : Wire := .arr (l.map Wire.int)

/-- 12 ints ↔ Jacobian point -/
def jacOf (w : Wire) : Jac :=
  let l := intsOf w
  ⟨l.take 4, (l.drop 4).take 4, (l.drop 8).take 4⟩
def ofJac (p : Jac) : Wire := ofInts (p.x ++ p.y ++ p.z)
def ptOf (w : Wire) : Point :=
  let l := intsOf w
  ⟨l.take 4, (l.drop 4).take 4⟩
def ofPt (p : Point) : Wire := ofInts (p.x ++ p.y)

def outXY : Outcome (Int × Int) → Wire
  | .ok (x, y) => .arr [.str "ok", .arr [.int x, .int y]]
  | .err c => .arr [.str "err", .str c]
  | .panic s => .arr [.str "panic", .str s]
def outJac : Outcome Jac → Wire
  | .ok p => .arr [.str "ok", ofJac p]
  | .err c => .arr [.str "err", .str c]
  | .panic s => .arr [.str "panic", .str s]

def ops : OpTable := [
  ("k1.jadd", pureOp fun a => ofJac (jadd (jacOf (arg a 0)) (jacOf (arg a 1)))),
  ("k1.jdouble", pureOp fun a => ofJac (jdouble (jacOf (arg a 0)))),
  ("k1.jequal", pureOp fun a => .int (jequal (jacOf (arg a 0)) (jacOf (arg a 1)))),
  ("k1.fromAffine", pureOp fun a => ofJac (fromAffine (ptOf (arg a 0)))),
  ("k1.fromJacobian", pureOp fun a => ofPt (fromJacobian (jacOf (arg a 0)))),
  ("k1.isOnCurvePt", pureOp fun a => .bool (isOnCurve (ptOf (arg a 0)))),
  -- lookupTable.Init(p) + SelectInto(x), the constant-time select chain of the Go code
  ("k1.lookupSelect", pureOp fun a =>
    outJac (selectInto (Model.WindowMul.k1LookupInit Model.K1Pt.ops (jacOf (arg a 0))) (arg a 1).asNat)),
  ("k1.scalarMultJ", pureOp fun a => outJac (scalarMult (jacOf (arg a 0)) (arg a 1).asBytes)),
  -- the elliptic.Curve methods
  -- NewPoint(x, y *big.Int): the coordinate range check and the big.Int → field conversion
  ("k1.newPoint", pureOp fun a =>
    match newPoint (arg a 0).asInt (arg a 1).asInt with
    | .ok p => .arr [.str "ok", ofPt p]
    | .err c => .arr [.str "err", .str c]
    | .panic s => .arr [.str "panic", .str s]),
  ("k1.isOnCurve", pureOp fun a => .bool (curveIsOnCurve (arg a 0).asInt (arg a 1).asInt)),
  ("k1.add", pureOp fun a => outXY (curveAdd (arg a 0).asInt (arg a 1).asInt (arg a 2).asInt (arg a 3).asInt)),
  ("k1.double", pureOp fun a => outXY (curveDouble (arg a 0).asInt (arg a 1).asInt)),
  ("k1.scalarMult", pureOp fun a => outXY (curveScalarMult (arg a 0).asInt (arg a 1).asInt (arg a 2).asBytes)),
  ("k1.scalarBaseMult", pureOp fun a => outXY (curveScalarBaseMult (arg a 0).asBytes)),
  ("k1.combinedMult", pureOp fun a =>
    outXY (curveCombinedMult (arg a 0).asInt (arg a 1).asInt (arg a 2).asBytes (arg a 3).asBytes))
]
end Drive.C15
