import Goat.Base.Drive
import Goat.Model.Fe448Ext
/-
Driver ops for the composite operations of the 448-bit field (model `Model.Fe448Ext`):
limb vectors are arrays of 8 integers, conditions / flags are integers.
-/
namespace Drive.C17Ext
open Model.Fe448 Model.Fe448Ext

def intsOf (w : Wire) : List Int := w.asArr.map Wire.asInt
def ofInts (l : List Int) : Wire := .arr (l.map Wire.int)

def ops : OpTable := [
  -- fe448x.select [a] [b] cond → [limbs]
  ("fe448x.select", pureOp fun a => ofInts (select (intsOf (arg a 0)) (intsOf (arg a 1)) (arg a 2).asInt)),
  -- fe448x.swap [v] [u] cond → [[v'], [u']]
  ("fe448x.swap", pureOp fun a =>
    let r := swap (intsOf (arg a 0)) (intsOf (arg a 1)) (arg a 2).asInt
    .arr [ofInts r.1, ofInts r.2]),
  -- fe448x.equal [v] [u] → 0/1
  ("fe448x.equal", pureOp fun a => .int (equal (intsOf (arg a 0)) (intsOf (arg a 1)))),
  ("fe448x.isNegative", pureOp fun a => .int (isNegative (intsOf (arg a 0)))),
  ("fe448x.abs", pureOp fun a => ofInts (abs (intsOf (arg a 0)))),
  ("fe448x.inv", pureOp fun a => ofInts (inv (intsOf (arg a 0)))),
  ("fe448x.power446", pureOp fun a => ofInts (power446 (intsOf (arg a 0)))),
  -- fe448x.sqrtRatio [u] [v] → [[r], wasSquare]
  ("fe448x.sqrtRatio", pureOp fun a =>
    let r := sqrtRatio (intsOf (arg a 0)) (intsOf (arg a 1))
    .arr [ofInts r.1, .int r.2]),
  ("fe448x.one", pureOp fun _ => ofInts one),
  ("fe448x.zero", pureOp fun _ => ofInts zero)
]
end Drive.C17Ext
