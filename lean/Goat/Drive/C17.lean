import Goat.Base.Drive
import Goat.Model.Fe448
/-
Driver ops for the translator check of the 448-bit field: execute a regenerated limb program with
machine semantics on a concrete input vector.
-/
namespace Drive.C17
open Reflect

def programs : List (String × Prog) := [
  ("add", Gen.Fe448.add), ("sub", Gen.Fe448.sub), ("negate", Gen.Fe448.negate),
  ("carryPropagate", Gen.Fe448.carryPropagate), ("reduce", Gen.Fe448.reduce),
  ("mul", Gen.Fe448.mul), ("square", Gen.Fe448.square), ("mul32", Gen.Fe448.mul32),
  ("setBytes", Gen.Fe448.setBytes), ("bytes", Gen.Fe448.bytes), ("bytesTail", Gen.Fe448.bytesTail)]

def intsOf (w : Wire) : List Int := w.asArr.map Wire.asInt
def ofInts (l : List Int) : Wire := .arr (l.map Wire.int)

def ops : OpTable := [
  -- fe448.run <name> [ints…]  →  [outputs…]  (machine semantics)
  ("fe448.run", pureOp fun a =>
    match programs.lookup (arg a 0).asStr with
    | some p =>
      let ins := intsOf (arg a 1)
      if ins.length = p.nIn then ofInts (p.outputs true ins) else .none
    | none => .none),
  -- fe448.ideal <name> [ints…]  →  [outputs…]  (ideal semantics; must agree inside the invariant)
  ("fe448.ideal", pureOp fun a =>
    match programs.lookup (arg a 0).asStr with
    | some p =>
      let ins := intsOf (arg a 1)
      if ins.length = p.nIn then ofInts (p.outputs false ins) else .none
    | none => .none),
  -- fe448.bytes [8 limbs] → 56 bytes: the composed model (reduce, then byte extraction)
  ("fe448.bytes", pureOp fun a => ofInts (Model.Fe448.bytes (intsOf (arg a 0)))),
  ("fe448.nin", pureOp fun a =>
    match programs.lookup (arg a 0).asStr with
    | some p => .int p.nIn
    | none => .none)
]
end Drive.C17
