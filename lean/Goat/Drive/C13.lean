import Goat.Base.Drive
import Goat.Model.Ed448
import Goat.Spec.RFC8032
/-
Driver ops of C13 (Ed448 signatures): the model of ed448/ed448.go on the Lean point/scalar models
(`c13.*`), the same model with goat's own edwards448 operations as oracle (`c13o.*`), and the
executable RFC 8032 spec (`c13.spec.*`).
-/
set_option compiler.extract_closed false
namespace Drive.C13
open Model.Ed448

def bytesOp (p : PO Bytes) : Prog Wire := (do let b ← p; pure (Wire.bytes b) : PO Wire).toOp
def boolOp (p : PO Bool) : Prog Wire := (do let b ← p; pure (Wire.bool b) : PO Wire).toOp

def groupEqOf (s : String) : Spec.RFC8032.GroupEq :=
  match s with
  | "cofactored" => .cofactored
  | "cofactorless" => .cofactorless
  | _ => .reducedK

def ops : OpTable := [
  ("c13.keygen", fun a => bytesOp (newKeyFromSeed leanOps (arg a 0).asBytes)),
  ("c13.sign", fun a => bytesOp (sign leanOps (arg a 0).asBytes (arg a 1).asBytes)),
  ("c13.verify", fun a => boolOp (verify leanOps (arg a 0).asBytes (arg a 1).asBytes (arg a 2).asBytes)),
  ("c13o.keygen", fun a => bytesOp (newKeyFromSeed oracleOps (arg a 0).asBytes)),
  ("c13o.sign", fun a => bytesOp (sign oracleOps (arg a 0).asBytes (arg a 1).asBytes)),
  ("c13o.verify", fun a => boolOp (verify oracleOps (arg a 0).asBytes (arg a 1).asBytes (arg a 2).asBytes)),
  ("c13.spec.publicKey", fun a => bytesOp (Spec.RFC8032.publicKey (arg a 0).asBytes)),
  ("c13.spec.sign", fun a => bytesOp (Spec.RFC8032.sign (arg a 0).asBytes (arg a 1).asBytes (arg a 2).asBytes)),
  -- c13.spec.verify pk msg sig ctx variant
  ("c13.spec.verify", fun a => boolOp (Spec.RFC8032.verifyWith (groupEqOf (arg a 4).asStr)
      (arg a 0).asBytes (arg a 1).asBytes (arg a 2).asBytes (arg a 3).asBytes))
]
end Drive.C13
