import Goat.Base.Drive
import Goat.Model.JWS
import Goat.Model.JWT
/-
Driver ops of C01.

  c01.jws.verify <ser: "compact"|"json"> <data> <cfg> [<content>]
        parse, then Verify (or VerifyContent when a 4th argument is given)
        → ok [protected|null, unprotected|null, payload]
  c01.jws.parse <ser> <data>  → ok [nb64, payload, [[protected|null, unprotected|null, rawProtected, signature] …]]
  c01.jwt.parse <data> <cfg>  → ok [header, claims]
  c01.sig.verify <key handle> <input> <signature> → ok null
  cfg = {"configured": bool, "allowAny": bool, "allowed": [str …]}
-/
namespace Drive.C01
open Model.JWS

def fld (w : Wire) (k : String) : Wire := (w.get? k).getD .none

def decCfg (w : Wire) : Cfg :=
  { configured := (fld w "configured").asBool, allowAny := (fld w "allowAny").asBool,
    allowed := (fld w "allowed").asArr.map Wire.asStr }

def decJwtCfg (w : Wire) : Model.JWT.Cfg :=
  { configured := (fld w "configured").asBool, allowAny := (fld w "allowAny").asBool,
    allowed := (fld w "allowed").asArr.map Wire.asStr }

def parseSer (ser : String) (data : Bytes) : PO Message :=
  if ser == "compact" then parseCompact data else parseJSON data

def resultWire (r : Option Header × Option Header × Bytes) : Wire :=
  .arr [optHeaderWire r.1, optHeaderWire r.2.1, .bytes r.2.2]

def sigWire (s : Signature) : Wire :=
  .arr [optHeaderWire s.prot, optHeaderWire s.header, .bytes s.rawProtected, .bytes s.signature]

def ops : OpTable := [
  ("c01.jws.verify", fun a =>
    (do
      let msg ← parseSer (arg a 0).asStr (arg a 1).asBytes
      let r ← (match (arg a 3).asBytes? with
        | some content => verifyContent (decCfg (arg a 2)) msg content
        | none => verify (decCfg (arg a 2)) msg)
      pure (resultWire r) : PO Wire).toOp),
  ("c01.jws.parse", fun a =>
    (do
      let msg ← parseSer (arg a 0).asStr (arg a 1).asBytes
      pure (.arr [.bool msg.nb64, .bytes msg.payload, .arr (msg.signatures.map sigWire)]) : PO Wire).toOp),
  ("c01.jwt.parse", fun a =>
    (do
      let r ← Model.JWT.parse (decJwtCfg (arg a 1)) (arg a 0).asBytes
      pure (.arr [r.1.toWire, r.2]) : PO Wire).toOp),
  ("c01.sig.verify", fun a =>
    (match Model.Sig.signingKeyOfHandle (arg a 0) with
      | none => PO.fail "key"
      | some (.panic s) => PO.panic s
      | some (.err c) => PO.fail c
      | some (.ok sk) => do
        Model.Sig.verifyKey sk (arg a 1).asBytes (arg a 2).asBytes
        pure .null : PO Wire).toOp)
]
end Drive.C01
