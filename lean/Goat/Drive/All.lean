import Goat.Drive.Selftest
/- The op table of the driver: concatenation of the per-property tables.
   Each property owns one `Goat/Drive/<X>.lean`; add its table here. -/
def allOps : OpTable :=
  Drive.Selftest.ops
