import Goat.Base.Drive
import Goat.Model.Fe256
import Goat.Model.Sc256
/-
Driver ops of C18: execute the regenerated limb programs of the secp256k1 field (machine
semantics) and the composed / shallow model functions on concrete inputs.
-/
namespace Drive.C18
open Reflect Model.Fe256

def programs : List (String × Prog) := [
  ("addCore", Gen.Fe256.addCore), ("negCore", Gen.Fe256.negCore), ("mulCore", Gen.Fe256.mulCore),
  ("squareCore", Gen.Fe256.squareCore), ("reduce", Gen.Fe256.reduce), ("setBytes", Gen.Fe256.setBytes),
  ("bytes", Gen.Fe256.bytes)]

def intsOf (w : Wire) : List Int := w.asArr.map Wire.asInt
def ofInts (l : List Int) : Wire := .arr (l.map Wire.int)

def outcomeLimbs : Outcome Limbs → Wire
  | .ok v => .arr [.str "ok", ofInts v]
  | .err c => .arr [.str "err", .str c]
  | .panic s => .arr [.str "panic", .str s]

def ops : OpTable := [
  -- fe256.run <name> [ints…] → [outputs…]   (one regenerated program, machine semantics)
  ("fe256.run", pureOp fun a =>
    match programs.lookup (arg a 0).asStr with
    | some p =>
      let ins := intsOf (arg a 1)
      if ins.length = p.nIn then ofInts (p.outputs true ins) else .none
    | none => .none),
  -- fe256.op <name> [a] [b] → limbs   (the model function about which the theorems are stated)
  ("fe256.op", pureOp fun a =>
    let x := intsOf (arg a 1); let y := intsOf (arg a 2)
    match (arg a 0).asStr with
    | "add" => ofInts (add x y)
    | "sub" => ofInts (sub x y)
    | "neg" => ofInts (neg x)
    | "mul" => ofInts (mul x y)
    | "square" => ofInts (square x)
    | "inv" => ofInts (inv x)
    | "reduce" => ofInts (reduce x)
    | _ => .none),
  -- fe256.ctor <one|zero|set> [old receiver limbs] [x] → limbs   (constructor programs run on the OLD receiver content)
  ("fe256.ctor", pureOp fun a =>
    let old := intsOf (arg a 1); let x := intsOf (arg a 2)
    match (arg a 0).asStr with
    | "one" => ofInts (oneP old)
    | "zero" => ofInts (zeroP old)
    | "set" => ofInts (setP old x)
    | _ => .none),
  ("fe256.setBytes", pureOp fun a => outcomeLimbs (setBytes (arg a 0).asBytes)),
  ("fe256.bytes", pureOp fun a => .bytes (bytes (intsOf (arg a 0)))),
  ("fe256.equal", pureOp fun a => .int (equal (intsOf (arg a 0)) (intsOf (arg a 1)))),
  ("fe256.isZero", pureOp fun a => .int (isZero (intsOf (arg a 0)))),
  ("fe256.select", pureOp fun a => ofInts (select (intsOf (arg a 0)) (intsOf (arg a 1)) (arg a 2).asInt)),
  ("fe256.swap", pureOp fun a =>
    let r := swap (intsOf (arg a 0)) (intsOf (arg a 1)) (arg a 2).asInt
    .arr [ofInts r.1, ofInts r.2]),
  -- scalars: the regenerated programs composed as in scalar.go
  ("sc256.lsh8", pureOp fun a => ofInts (Model.Sc256.lsh8 (intsOf (arg a 0)))),
  ("sc256.add8", pureOp fun a => ofInts (Model.Sc256.add8 (intsOf (arg a 0)) (arg a 1).asInt)),
  ("sc256.reduce", pureOp fun a => ofInts (Model.Sc256.reduce (intsOf (arg a 0)))),
  ("sc256.bytes", pureOp fun a => .bytes (Model.Sc256.bytes (intsOf (arg a 0)))),
  ("sc256.normalize", pureOp fun a => .bytes (Model.Sc256.normalizeScalar (arg a 0).asBytes))
]
end Drive.C18
