import Goat.Base.Prog
/-
Driver plumbing shared by all per-property op tables.
An op takes the argument values of one request line and returns a `Prog Wire`.
-/
abbrev OpTable := List (String × (List Wire → Prog Wire))

namespace Outcome
def toWire : Outcome Wire → Wire
  | .ok w => .arr [.str "ok", w]
  | .err c => .arr [.str "err", .str c]
  | .panic s => .arr [.str "panic", .str s]
end Outcome

namespace PO
/-- run a PO op as a wire-level op -/
def toOp (p : PO Wire) : Prog Wire := Prog.bind p.prog (fun r => Prog.ret r.toWire)
end PO

/-- pure function as an op -/
def pureOp (f : List Wire → Wire) : List Wire → Prog Wire := fun a => Prog.ret (f a)

def arg (args : List Wire) (i : Nat) : Wire := args.getD i .none
