/-
Outcome: what a modelled entry point returns.  `panic` is first-class so that "never panics"
is a theorem and so that the correspondence check compares "Go panicked" with "model says panic".
-/
inductive Outcome (α : Type) where
  | ok (a : α)
  | err (cls : String)
  | panic (site : String)
deriving Repr, BEq, Inhabited

namespace Outcome

def bind {α β} : Outcome α → (α → Outcome β) → Outcome β
  | ok a, f => f a
  | err c, _ => err c
  | panic s, _ => panic s

instance : Monad Outcome where
  pure := ok
  bind := bind

def isOk {α} : Outcome α → Bool | ok _ => true | _ => false
def isPanic {α} : Outcome α → Bool | panic _ => true | _ => false
def toOption {α} : Outcome α → Option α | ok a => some a | _ => none

@[simp] theorem bind_ok {α β} (a : α) (f : α → Outcome β) : (ok a >>= f) = f a := rfl
@[simp] theorem bind_err {α β} (c : String) (f : α → Outcome β) : (err c >>= f) = err c := rfl
@[simp] theorem bind_panic {α β} (s : String) (f : α → Outcome β) : (panic s >>= f) = panic s := rfl
@[simp] theorem pure_eq {α} (a : α) : (pure a : Outcome α) = ok a := rfl

def ofOption {α} (cls : String) : Option α → Outcome α
  | some a => ok a
  | none => err cls

end Outcome
