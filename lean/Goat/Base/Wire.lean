import Goat.Base.Bytes
/-
Wire: the universal value type of the line protocol; also serves as the JSON value type `JVal`
(null / bool / num-as-decimal-text / str / arr / obj-as-association-list).
-/
inductive Wire where
  | none                                   -- absent / failure answer
  | null
  | bool (b : Bool)
  | int (i : Int)
  | bytes (b : Bytes)
  | str (s : String)
  | num (s : String)                       -- JSON number, decimal text as produced by json.Number
  | arr (l : List Wire)
  | obj (kvs : List (String × Wire))
deriving Inhabited

abbrev JVal := Wire

namespace Wire

mutual
def beq : Wire → Wire → Bool
  | .none, .none => true
  | .null, .null => true
  | .bool a, .bool b => a == b
  | .int a, .int b => a == b
  | .bytes a, .bytes b => a == b
  | .str a, .str b => a == b
  | .num a, .num b => a == b
  | .arr a, .arr b => beqList a b
  | .obj a, .obj b => beqKVs a b
  | _, _ => false
def beqList : List Wire → List Wire → Bool
  | [], [] => true
  | x :: xs, y :: ys => beq x y && beqList xs ys
  | _, _ => false
def beqKVs : List (String × Wire) → List (String × Wire) → Bool
  | [], [] => true
  | (k, x) :: xs, (l, y) :: ys => k == l && beq x y && beqKVs xs ys
  | _, _ => false
end

instance : BEq Wire := ⟨beq⟩

def strHex (s : String) : String := Bytes.toHex (Bytes.ofString s)

-- token list rendering (tokens are joined by single spaces)
mutual
def toTokens : Wire → List String
  | .none => ["_"]
  | .null => ["n"]
  | .bool true => ["t"]
  | .bool false => ["f"]
  | .int i => ["i" ++ toString i]
  | .bytes b => ["x" ++ Bytes.toHex b]
  | .str s => ["s" ++ strHex s]
  | .num s => ["#" ++ strHex s]
  | .arr l => "[" :: (listTokens l ++ ["]"])
  | .obj kvs => "{" :: (kvTokens kvs ++ ["}"])
def listTokens : List Wire → List String
  | [] => []
  | x :: xs => toTokens x ++ listTokens xs
def kvTokens : List (String × Wire) → List String
  | [] => []
  | (k, v) :: xs => ("s" ++ strHex k) :: (toTokens v ++ kvTokens xs)
end

def render (w : Wire) : String := " ".intercalate (toTokens w)

def hexToString (h : String) : Option String :=
  match Bytes.ofHex h with
  | some b => String.fromUTF8? (ByteArray.mk b.toArray)
  | Option.none => Option.none

/-- parse one value from a token list; returns the value and the remaining tokens.
    Only used by the I/O shim (driver), never inside a theorem. -/
partial def parseTokens : List String → Option (Wire × List String)
  | [] => Option.none
  | tok :: rest =>
    if tok == "_" then some (.none, rest)
    else if tok == "n" then some (.null, rest)
    else if tok == "t" then some (.bool true, rest)
    else if tok == "f" then some (.bool false, rest)
    else if tok == "[" then parseArr rest []
    else if tok == "{" then parseObj rest []
    else
      let body := (tok.drop 1).toString
      match tok.front with
      | 'i' => (body.toInt?).map (fun i => (.int i, rest))
      | 'x' => (Bytes.ofHex body).map (fun b => (.bytes b, rest))
      | 's' => (hexToString body).map (fun s => (.str s, rest))
      | '#' => (hexToString body).map (fun s => (.num s, rest))
      | _ => Option.none
where
  parseArr : List String → List Wire → Option (Wire × List String)
    | [], _ => Option.none
    | "]" :: rest, acc => some (.arr acc.reverse, rest)
    | toks, acc =>
      match parseTokens toks with
      | some (v, rest) => parseArr rest (v :: acc)
      | Option.none => Option.none
  parseObj : List String → List (String × Wire) → Option (Wire × List String)
    | [], _ => Option.none
    | "}" :: rest, acc => some (.obj acc.reverse, rest)
    | toks, acc =>
      match parseTokens toks with
      | some (.str k, rest) =>
        match parseTokens rest with
        | some (v, rest') => parseObj rest' ((k, v) :: acc)
        | Option.none => Option.none
      | _ => Option.none

/-- parse all values on a line -/
partial def parseAll (toks : List String) : Option (List Wire) :=
  match toks with
  | [] => some []
  | _ =>
    match parseTokens toks with
    | some (v, rest) => (parseAll rest).map (v :: ·)
    | Option.none => Option.none

/-! accessors (total; wrong shape gives the default) -/
def asBytes : Wire → Bytes | .bytes b => b | _ => []
def asBytes? : Wire → Option Bytes | .bytes b => some b | _ => Option.none
def asBool : Wire → Bool | .bool b => b | _ => false
def asInt : Wire → Int | .int i => i | _ => 0
def asNat (w : Wire) : Nat := w.asInt.toNat
def asStr : Wire → String | .str s => s | _ => ""
def asStr? : Wire → Option String | .str s => some s | _ => Option.none
def asArr : Wire → List Wire | .arr l => l | _ => []
def asObj : Wire → List (String × Wire) | .obj l => l | _ => []
def isNone : Wire → Bool | .none => true | _ => false

/-- first binding of a key in an association list (Go maps have unique keys; the JSON oracle
    delivers objects with unique keys, last duplicate winning, as encoding/json does) -/
def lookup (k : String) : List (String × Wire) → Option Wire
  | [] => Option.none
  | (k', v) :: rest => if k == k' then some v else lookup k rest

def get? (w : Wire) (k : String) : Option Wire := lookup k w.asObj

def ofOptBytes : Option Bytes → Wire | some b => .bytes b | Option.none => .none
def ofNat (n : Nat) : Wire := .int n

end Wire
