import Goat.Base.Wire
import Goat.Base.Outcome
/-
Prog: free monad over oracle queries.  The Go standard library (and caller-supplied callbacks)
are *parameters* of every model: a model asks, an oracle answers.  Theorems quantify over every
oracle `o : Query → Wire`; the driver interprets `ask` by printing the query and reading the
answer computed by the harness with the Go standard library.
-/
structure Query where
  name : String
  args : List Wire
deriving Inhabited

abbrev Oracle := Query → Wire

inductive Prog (α : Type) where
  | ret (a : α)
  | ask (q : Query) (k : Wire → Prog α)

namespace Prog

def bind {α β} : Prog α → (α → Prog β) → Prog β
  | ret a, f => f a
  | ask q k, f => ask q (fun w => bind (k w) f)

instance : Monad Prog where
  pure := ret
  bind := bind

/-- pure interpretation under an oracle -/
def run {α} (o : Oracle) : Prog α → α
  | ret a => a
  | ask q k => run o (k (o q))

/-- interpretation that also records the (query, answer) trace, in order -/
def runTrace {α} (o : Oracle) : Prog α → α × List (Query × Wire)
  | ret a => (a, [])
  | ask q k => let r := runTrace o (k (o q)); (r.1, (q, o q) :: r.2)

def query (name : String) (args : List Wire) : Prog Wire := ask ⟨name, args⟩ ret

@[simp] theorem run_ret {α} (o : Oracle) (a : α) : run o (ret a) = a := rfl
@[simp] theorem run_pure {α} (o : Oracle) (a : α) : run o (pure a : Prog α) = a := rfl
@[simp] theorem run_ask {α} (o : Oracle) (q : Query) (k : Wire → Prog α) :
    run o (ask q k) = run o (k (o q)) := rfl
@[simp] theorem run_query (o : Oracle) (n : String) (a : List Wire) :
    run o (query n a) = o ⟨n, a⟩ := rfl

theorem run_bind' {α β} (o : Oracle) (p : Prog α) (f : α → Prog β) :
    run o (bind p f) = run o (f (run o p)) := by
  induction p with
  | ret a => rfl
  | ask q k ih => simp only [bind, run]; exact ih (o q)

@[simp] theorem run_bind {α β} (o : Oracle) (p : Prog α) (f : α → Prog β) :
    run o (p >>= f) = run o (f (run o p)) := run_bind' o p f

@[simp] theorem run_map {α β} (o : Oracle) (p : Prog α) (f : α → β) :
    run o (f <$> p) = f (run o p) := by
  show run o (bind p (fun a => ret (f a))) = _
  rw [run_bind']; rfl

@[simp] theorem runTrace_fst {α} (o : Oracle) (p : Prog α) : (runTrace o p).1 = run o p := by
  induction p with
  | ret a => rfl
  | ask q k ih => simp only [runTrace, run]; exact ih (o q)

end Prog

/-- Prog with Outcome: the monad of all JOSE-layer models -/
structure PO (α : Type) where
  prog : Prog (Outcome α)

namespace PO

def pure {α} (a : α) : PO α := ⟨Prog.ret (Outcome.ok a)⟩

def bindK {α β} (f : α → PO β) : Outcome α → Prog (Outcome β)
  | .ok a => (f a).prog
  | .err c => Prog.ret (.err c)
  | .panic s => Prog.ret (.panic s)

def bind {α β} (p : PO α) (f : α → PO β) : PO β := ⟨Prog.bind p.prog (bindK f)⟩

instance : Monad PO where
  pure := PO.pure
  bind := PO.bind

def fail {α} (cls : String) : PO α := ⟨Prog.ret (.err cls)⟩
def panic {α} (site : String) : PO α := ⟨Prog.ret (.panic site)⟩
def lift {α} (p : Prog α) : PO α := ⟨Prog.bind p (fun a => Prog.ret (.ok a))⟩
def ofOutcome {α} (r : Outcome α) : PO α := ⟨Prog.ret r⟩
def ofOption {α} (cls : String) : Option α → PO α
  | some a => PO.pure a
  | none => fail cls
def run {α} (o : Oracle) (p : PO α) : Outcome α := Prog.run o p.prog
def runTrace {α} (o : Oracle) (p : PO α) : Outcome α × List (Query × Wire) := Prog.runTrace o p.prog

/-- oracle query lifted into PO -/
def query (name : String) (args : List Wire) : PO Wire := lift (Prog.query name args)

/-- catch an error/panic outcome as a value (models Go code that inspects `err`) -/
def attempt {α} (p : PO α) : PO (Outcome α) := ⟨Prog.bind p.prog (fun r => Prog.ret (.ok r))⟩

@[simp] theorem run_pure {α} (o : Oracle) (a : α) : run o (Pure.pure a : PO α) = .ok a := rfl
@[simp] theorem run_pure' {α} (o : Oracle) (a : α) : run o (PO.pure a : PO α) = .ok a := rfl
@[simp] theorem run_fail {α} (o : Oracle) (c : String) : run o (fail c : PO α) = .err c := rfl
@[simp] theorem run_panic {α} (o : Oracle) (c : String) : run o (panic c : PO α) = .panic c := rfl
@[simp] theorem run_ofOutcome {α} (o : Oracle) (r : Outcome α) : run o (ofOutcome r) = r := rfl
@[simp] theorem run_lift {α} (o : Oracle) (p : Prog α) : run o (lift p) = .ok (Prog.run o p) := by
  unfold run lift; simp only; rw [Prog.run_bind']; rfl
@[simp] theorem run_query (o : Oracle) (n : String) (a : List Wire) :
    run o (query n a) = .ok (o ⟨n, a⟩) := by
  unfold query; rw [run_lift]; rfl
@[simp] theorem run_attempt {α} (o : Oracle) (p : PO α) : run o (attempt p) = .ok (run o p) := by
  unfold run attempt; simp only; rw [Prog.run_bind']; rfl
@[simp] theorem run_ofOption_some {α} (o : Oracle) (c : String) (a : α) :
    run o (ofOption c (some a)) = .ok a := rfl
@[simp] theorem run_ofOption_none {α} (o : Oracle) (c : String) :
    run o (ofOption c (none : Option α)) = .err c := rfl

@[simp] theorem run_bind {α β} (o : Oracle) (p : PO α) (f : α → PO β) :
    run o (p >>= f) = (match run o p with
      | .ok a => run o (f a)
      | .err c => .err c
      | .panic s => .panic s) := by
  show Prog.run o (Prog.bind p.prog (bindK f)) = _
  rw [Prog.run_bind']
  unfold run
  cases Prog.run o p.prog <;> rfl

theorem run_bind_ok {α β} (o : Oracle) (p : PO α) (f : α → PO β) (a : α) (h : run o p = .ok a) :
    run o (p >>= f) = run o (f a) := by
  rw [run_bind, h]

/-- if a bind succeeds, its first part succeeded -/
theorem run_bind_eq_ok {α β} (o : Oracle) (p : PO α) (f : α → PO β) (b : β)
    (h : run o (p >>= f) = .ok b) : ∃ a, run o p = .ok a ∧ run o (f a) = .ok b := by
  rw [run_bind] at h
  cases hp : run o p with
  | ok a => rw [hp] at h; exact ⟨a, rfl, h⟩
  | err c => rw [hp] at h; cases h
  | panic s => rw [hp] at h; cases h

end PO
