/-
Bytes: the byte-string type used by every model.  `List UInt8` so that theorems are about plain
lists; hex conversion for the line protocol.
-/
abbrev Bytes := List UInt8

namespace Bytes

def hexDigit (n : Nat) : Char :=
  if n < 10 then Char.ofNat (48 + n) else Char.ofNat (87 + n)

def toHex (b : Bytes) : String :=
  String.ofList (b.foldr (fun x acc => hexDigit (x.toNat / 16) :: hexDigit (x.toNat % 16) :: acc) [])

def hexVal (c : Char) : Option Nat :=
  if '0' ≤ c ∧ c ≤ '9' then some (c.toNat - 48)
  else if 'a' ≤ c ∧ c ≤ 'f' then some (c.toNat - 87)
  else if 'A' ≤ c ∧ c ≤ 'F' then some (c.toNat - 55)
  else none

def ofHexChars : List Char → Option Bytes
  | [] => some []
  | [_] => none
  | a :: b :: rest =>
    match hexVal a, hexVal b, ofHexChars rest with
    | some x, some y, some r => some (UInt8.ofNat (x * 16 + y) :: r)
    | _, _, _ => none

def ofHex (s : String) : Option Bytes := ofHexChars s.toList

def ofString (s : String) : Bytes := s.toUTF8.toList

def toStringLossy (b : Bytes) : String :=
  match String.fromUTF8? (ByteArray.mk b.toArray) with
  | some s => s
  | none => String.ofList (b.map (fun x => Char.ofNat x.toNat))

/-- little-endian value -/
def decodeLE : Bytes → Nat
  | [] => 0
  | x :: xs => x.toNat + 256 * decodeLE xs

/-- big-endian value -/
def decodeBE (b : Bytes) : Nat := b.foldl (fun acc x => acc * 256 + x.toNat) 0

/-- little-endian encoding on exactly `n` bytes (value reduced mod 256^n) -/
def encodeLE : Nat → Nat → Bytes
  | 0, _ => []
  | n+1, v => UInt8.ofNat (v % 256) :: encodeLE n (v / 256)

def encodeBE (n v : Nat) : Bytes := (encodeLE n v).reverse

end Bytes
