import Goat.Base.Prog
import Goat.Gen.ErrorTypes
/-
Model of the ERROR VALUES goat produces and of their rendering (second half of property C07: "the
errors it returns can always be rendered as text").

Everywhere else in the models an error is a class (`Outcome.err cls`): error texts are never
compared.  The VALUES are modelled here, as one universe `GoErr`:

  plain text               errors.New(text) / fmt.Errorf(text, non-error operands…)
  wrap text inner          fmt.Errorf("… %w", err): `inner = none` is a NIL operand (it happens:
                           jwt/parser.go wraps the stale nil `err` when Header.UnmarshalJSON fails)
  foreign text inner       an error value of the standard library / x/crypto / go-cbor (oracle side):
                           its text is whatever the library says, it may wrap further errors
  typeError, missing, base64, unknownKeyType, invalidKey
                           the five types of the attacker-reachable packages that implement `error`
                           (Gen.ErrorTypes.errorTypes, regenerated: a sixth type breaks
                           `C07.error_types_modelled`)

`render` follows each `Error()` body.  fmt verbs are total (nil operands print "<nil>", panics of
operand methods are caught by fmt): the only goat-side panic is a dereference through a nil field
of the receiver.  Those dereferences and whether each sits under its own nil test are regenerated
facts (Gen.ErrorTypes.methods); `render` consults them (`guardedIn`), so removing a nil test from an
`Error()` body turns the corresponding branch into `PO.panic`.
-/
namespace Model.ErrorValues
open Gen.ErrorTypes

inductive GoErr where
  | plain (text : String)
  | wrap (text : String) (inner : Option GoErr)
  | foreign (text : String) (inner : Option GoErr)
  | typeError (pkg name want : String) (got : Option String)
  | missing (pkg name : String)
  | base64 (pkg name : String) (inner : Option GoErr)
  | unknownKeyType (priv pub : Option String)
  | invalidKey (alg : String) (priv pub : Option String)
deriving Inhabited

/-- is the dereference `expr` of `goType.Error` under its nil test in today's source?  A dereference
    the extractor does not list is not in the source: the model then has nothing to guard. -/
def guardedIn (goType expr : String) : Bool :=
  match methods.find? (fun m => m.goType == goType && m.method == "Error") with
  | none => false
  | some m =>
    match m.derefs.find? (fun d => d.expr == expr) with
    | some d => d.guarded
    | none => false

/-- `<field>.String()` on a `reflect.Type` field that may be nil -/
def typeName (goType expr dflt : String) (t : Option String) : PO String :=
  match t with
  | some n => pure n
  | none => if guardedIn goType expr then pure dflt else PO.panic (goType ++ ".Error.nil-" ++ expr)

/-- fmt's `%v` of an error operand: "<nil>" for nil, else its Error() (a panic inside would be caught
    by fmt and printed; the model keeps it a panic so that the theorem is about goat's own code) -/
def fmtV (r : GoErr → PO String) : Option GoErr → PO String
  | none => pure "<nil>"
  | some e => r e

/-- `err.Error()` -/
def render : GoErr → PO String
  | .plain t => pure t
  | .wrap t none => pure (t ++ "%!w(<nil>)")
  | .wrap t (some e) => do let s ← render e; pure (t ++ s)
  | .foreign t _ => pure t
  | .typeError pkg name want got => do
    let g ← typeName "jsonutils.typeError" "err.got.String" "null" got
    pure (pkg ++ ": want " ++ want ++ " for the parameter " ++ name ++ " but got " ++ g)
  | .missing pkg name => pure (pkg ++ ": required parameter " ++ name ++ " is missing")
  | .base64 pkg name none => pure (pkg ++ ": failed to parse the parameter " ++ name ++ " as base64url: <nil>")
  | .base64 pkg name (some e) => do
    let s ← render e
    pure (pkg ++ ": failed to parse the parameter " ++ name ++ " as base64url: " ++ s)
  | .unknownKeyType priv pub =>
    -- fmt.Sprintf("… %v, %v", err.priv, err.pub): nil reflect.Type prints <nil>
    pure ("jwk: unknown private and public key type: " ++ priv.getD "<nil>" ++ ", " ++ pub.getD "<nil>")
  | .invalidKey alg priv pub => do
    let p ← typeName "sig.invalidKey" "key.privateKeyType.String" "nil" priv
    let q ← typeName "sig.invalidKey" "key.publicKeyType.String" "nil" pub
    pure ("sig: invalid key type for algorithm " ++ alg ++ ": " ++ p ++ ", " ++ q)

/-- `errors.Unwrap(err)` -/
def unwrap : GoErr → Option GoErr
  | .wrap _ inner => inner
  | .foreign _ inner => inner
  | .base64 _ _ inner => inner
  | _ => none

/-- what the harness (and any careful caller) does: render the error and every error of its Unwrap
    chain.  Structural: the chain of a value is finite. -/
def renderChain : GoErr → PO (List String)
  | .wrap t (some e) => do
    let s ← render (.wrap t (some e)); let r ← renderChain e; pure (s :: r)
  | .foreign t (some e) => do
    let s ← render (.foreign t (some e)); let r ← renderChain e; pure (s :: r)
  | .base64 p n (some e) => do
    let s ← render (.base64 p n (some e)); let r ← renderChain e; pure (s :: r)
  | e => do let s ← render e; pure [s]

end Model.ErrorValues
