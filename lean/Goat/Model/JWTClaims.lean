import Goat.Model.NumericDate
/-
Model of jwt/parser.go (Parser.Parse, parseClaims), jwt/jwt.go (encodeClaims) and of the
`jsonutils.Decoder` getters they use (internal/jsonutils/decode.go), on `Wire` JSON values.

Oracle queries (Go standard library and caller callbacks):
  jwt.sigcheck [header_b64, signing_input, sig_b64] → str cls   lines 147-173 of parser.go as one
        step (header base64+JSON, AlgorithmVerifier, KeyFinder, signature base64, key.Verify);
        cls = "ok" | "b64-header" | "header" | "alg-not-allowed" | "key" | "b64-sig" | "sig"
  b64url.dec [bytes] → bytes | none
  now [] → int            nanoseconds since the epoch (nowFunc())
  json.decodeMap [bytes] → obj | null | none
  verifyIssuer [str iss, str sub] → bool true = accepted (nil error)
  verifyAudience [arr (str …)] → bool true = accepted
  json.marshal [obj] → bytes | none           (encodeClaims)
-/
namespace Model.JWTClaims
open Model

/-- jwt.Claims.  Times are instants in ns; `NumericDate.zeroTime` is the zero time.Time (what the
    Go struct holds when the claim is absent).  `aud = []` is the nil slice. -/
structure Claims where
  iss : String
  sub : String
  aud : List String
  exp : Int
  nbf : Int
  iat : Int
  jti : String
  raw : Wire
deriving Inhabited

/-- jsonutils.Decoder: the raw map and the first recorded error -/
structure Dec where
  raw : List (String × Wire)
  err : Option String

/-- `if d.err == nil { d.err = … }` -/
def Dec.save (d : Dec) (cls : String) : Dec :=
  match d.err with
  | none => { d with err := some cls }
  | some _ => d

/-- Decoder.GetString (decode.go:101-119): absent → ("", false); non-string → type error recorded,
    ("", false) -/
def getString (d : Dec) (name : String) : String × Bool × Dec :=
  match Wire.lookup name d.raw with
  | none => ("", false, d)
  | some (.str s) => (s, true, d)
  | some _ => ("", false, d.save ("type:" ++ name))

/-- Decoder.GetTime (decode.go:353-382).  With `UseNumber` every JSON number is a json.Number, so
    the float64 arm is unreachable from `Parse`; every other JSON kind (string, bool, null, array,
    object) is a recorded type error.  A NumericDate failure (syntax/range) is a recorded error. -/
def getTime (d : Dec) (name : String) : Outcome (Int × Bool × Dec) :=
  match Wire.lookup name d.raw with
  | none => .ok (NumericDate.zeroTime, false, d)
  | some (.num s) =>
    match NumericDate.decode s with
    | .ok t => .ok (t, true, d)
    | .err _ => .ok (NumericDate.zeroTime, false, d.save ("time:" ++ name))
    | .panic p => .panic p
  | some _ => .ok (NumericDate.zeroTime, false, d.save ("type:" ++ name))

/-- the `aud` switch of parseClaims (parser.go:215-228): elements of an array that are not strings
    contribute "" and record an error; a string is a one-element list; any other type (number, bool,
    null, object) is ignored -/
def audElems : List Wire → List String
  | [] => []
  | .str s :: r => s :: audElems r
  | _ :: r => "" :: audElems r

def audBad : List Wire → Bool
  | [] => false
  | .str _ :: r => audBad r
  | _ :: _ => true

def audience (d : Dec) : List String × Dec :=
  match Wire.lookup "aud" d.raw with
  | some (.arr l) => (audElems l, if audBad l then d.save "aud-type" else d)
  | some (.str s) => ([s], d)
  | _ => ([], d)

/-- the part of parseClaims after the audience verifier (parser.go:233-253): pure -/
def finish (now : Int) (rawW : Wire) (iss sub : String) (aud : List String) (d3 : Dec) : Outcome Claims :=
  match getTime d3 "exp" with
  | .panic p => .panic p
  | .err c => .err c
  | .ok (exp, okE, d4) =>
    -- if !now.Before(t) { SaveError(expired) }
    let d5 := if okE && !(decide (now < exp)) then d4.save "expired" else d4
    match getTime d5 "nbf" with
    | .panic p => .panic p
    | .err c => .err c
    | .ok (nbf, okN, d6) =>
      -- if now.Before(t) { SaveError(not valid yet) }
      let d7 := if okN && decide (now < nbf) then d6.save "not-yet-valid" else d6
      match getTime d7 "iat" with
      | .panic p => .panic p
      | .err c => .err c
      | .ok (iat, _, d8) =>
        let j := getString d8 "jti"
        match j.2.2.err with
        | some cls => .err cls
        | none => .ok ⟨iss, sub, aud, exp, nbf, iat, j.1, rawW⟩

/-- what `dec.Decode(&raw)` leaves in `raw`: an object, or a nil map for JSON null -/
def rawMap : Wire → Option (List (String × Wire))
  | .obj kvs => some kvs
  | .null => some []
  | _ => none

/-- Parser.parseClaims (parser.go:194-254) -/
def parseClaims (payload : Bytes) : PO Claims := do
  let nowW ← PO.query "now" []
  let rawW ← PO.query "json.decodeMap" [.bytes payload]
  match rawMap rawW with
  | none => PO.fail "json"
  | some raw =>
    let d0 : Dec := ⟨raw, none⟩
    let i := getString d0 "iss"
    let s := getString i.2.2 "sub"
    let r ← PO.query "verifyIssuer" [.str i.1, .str s.1]
    match r with
    | .bool true =>
      let a := audience s.2.2
      let r2 ← PO.query "verifyAudience" [.arr (a.1.map Wire.str)]
      match r2 with
      | .bool true => PO.ofOutcome (finish nowW.asInt rawW i.1 s.1 a.1 a.2)
      | _ => PO.fail "audience"
    | _ => PO.fail "issuer"

/-- which of the four Parser fields are non-nil -/
structure Config where
  keyFinder : Bool
  algVerifier : Bool
  issVerifier : Bool
  audVerifier : Bool
deriving Repr, DecidableEq

def Config.complete (c : Config) : Bool := c.keyFinder && c.algVerifier && c.issVerifier && c.audVerifier

/-- bytes.IndexByte -/
def indexOf (b : UInt8) : Bytes → Option Nat
  | [] => none
  | x :: xs => if x = b then some 0 else (indexOf b xs).map (· + 1)

def dot : UInt8 := 46

/-- the segment split of Parse (parser.go:124-135): header, payload, signature, signing input -/
def splitToken (data : Bytes) : Option (Bytes × Bytes × Bytes × Bytes) :=
  match indexOf dot data with
  | none => none
  | some i1 =>
    match indexOf dot (data.drop (i1 + 1)) with
    | none => none
    | some j =>
      let i2 := j + i1 + 1
      some (data.take i1, (data.drop (i1 + 1)).take j, data.drop (i2 + 1), data.take i2)

/-- Parser.Parse (parser.go:116-192) -/
def parse (cfg : Config) (data : Bytes) : PO Claims :=
  if !cfg.complete then PO.fail "config"
  else match splitToken data with
    | none => PO.fail "format"
    | some (h, p, s, signingInput) => do
      let sc ← PO.query "jwt.sigcheck" [.bytes h, .bytes signingInput, .bytes s]
      match sc with
      | .str cls =>
        if cls = "ok" then do
          let pl ← PO.query "b64url.dec" [.bytes p]
          match pl with
          | .bytes payload => parseClaims payload
          | _ => PO.fail "b64-payload"
        else PO.fail cls
      | _ => PO.fail "sigcheck"

/-! ### encodeClaims (jwt.go:90-127) -/

/-- `raw[name] = v` on an association list -/
def setKey (k : String) (v : Wire) : List (String × Wire) → List (String × Wire)
  | [] => [(k, v)]
  | (k', v') :: r => if k = k' then (k, v) :: r else (k', v') :: setKey k v r

/-- Encoder.SetTime: a NumericDate error is recorded (first error wins), nothing is set -/
def setTime (name : String) (t : Int) (st : List (String × Wire) × Option String) :
    List (String × Wire) × Option String :=
  if t = NumericDate.zeroTime then st
  else match NumericDate.encode t with
    | .ok s => (setKey name (.num s) st.1, st.2)
    | _ => (st.1, match st.2 with | none => some "range" | some e => some e)

/-- `if aud != nil { if len(aud) == 1 { Set("aud", aud[0]) } else { Set("aud", aud) } }` -/
def setAud (aud : List String) (m : List (String × Wire)) : List (String × Wire) :=
  match aud with
  | [] => m
  | [a] => setKey "aud" (.str a) m
  | l => setKey "aud" (.arr (l.map Wire.str)) m

/-- the members of `Claims.Raw` (a nil map has none) -/
def rawKVs : Wire → List (String × Wire)
  | .obj kvs => kvs
  | _ => []

/-- the map handed to json.Marshal, or the first recorded error -/
def claimsMap (c : Claims) : Outcome (List (String × Wire)) :=
  let m0 : List (String × Wire) := rawKVs c.raw
  let m1 := if c.iss ≠ "" then setKey "iss" (.str c.iss) m0 else m0
  let m2 := if c.sub ≠ "" then setKey "sub" (.str c.sub) m1 else m1
  let m3 := setAud c.aud m2
  let st := setTime "iat" c.iat (setTime "nbf" c.nbf (setTime "exp" c.exp (m3, none)))
  let m7 := if c.jti ≠ "" then setKey "jti" (.str c.jti) st.1 else st.1
  match st.2 with
  | some e => .err e
  | none => .ok m7

def encodeClaims (c : Claims) : PO Bytes :=
  match claimsMap c with
  | .ok m => do
    let b ← PO.query "json.marshal" [.obj m]
    match b with
    | .bytes out => pure out
    | _ => PO.fail "marshal"
  | .err e => PO.fail e
  | .panic p => PO.panic p

def Claims.toWire (c : Claims) : Wire :=
  .obj [("iss", .str c.iss), ("sub", .str c.sub), ("aud", .arr (c.aud.map Wire.str)),
        ("exp", .int c.exp), ("nbf", .int c.nbf), ("iat", .int c.iat), ("jti", .str c.jti),
        ("raw", c.raw)]

def Claims.ofWire (w : Wire) : Claims :=
  let g := fun k => (w.get? k).getD .none
  ⟨(g "iss").asStr, (g "sub").asStr, (g "aud").asArr.map Wire.asStr,
   (g "exp").asInt, (g "nbf").asInt, (g "iat").asInt, (g "jti").asStr, g "raw"⟩

end Model.JWTClaims
