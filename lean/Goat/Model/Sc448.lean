import Goat.Gen.Sc448
/-
Ed448 scalar arithmetic (internal/edwards448/scalar.go).  `scMulAdd` and `scReduce` are the
regenerated limb programs, cut into two phases each by the translator: byte unpacking into 24-bit
limbs, and the limb computation down to the output bytes.  All other scalar operations are thin
wrappers (mirrored here).
-/
namespace Model.Sc448
open Reflect

abbrev Bytes' := List Int   -- byte values as integers

def run (p : Prog) (ins : List Int) : List Int := p.outputs true ins
def zeros (n : Nat) : List Int := List.replicate n 0

/-- little-endian value of a byte list -/
def evalLE : List Int → Int
  | [] => 0
  | x :: xs => x + 256 * evalLE xs

/-- s = a*b + c mod l on 56-byte little-endian strings -/
def mulAdd (a b c : Bytes') : Bytes' :=
  let limbs := run Gen.Sc448.mulAddUnpack (zeros 56 ++ a ++ b ++ c)
  run Gen.Sc448.mulAdd (zeros 224 ++ limbs)

/-- the whole function as one program (used by the translator check) -/
def mulAddFull (a b c : Bytes') : Bytes' := run Gen.Sc448.mulAddFull (zeros 56 ++ a ++ b ++ c)

/-- out = s mod l for a 114-byte little-endian string -/
def reduce (s : Bytes') : Bytes' :=
  let limbs := run Gen.Sc448.reduceUnpack (zeros 56 ++ s)
  run Gen.Sc448.reduce (zeros 170 ++ limbs)

def reduceFull (s : Bytes') : Bytes' := run Gen.Sc448.reduceFull (zeros 56 ++ s)

def scZero : Bytes' := zeros 56
def scOne : Bytes' := 1 :: zeros 55
/-- l − 1, little-endian (`scMinusOne`) -/
def scMinusOne : Bytes' := [
  0xf2, 0x44, 0x58, 0xab, 0x92, 0xc2, 0x78, 0x23, 0x55, 0x8f, 0xc5, 0x8d, 0x72, 0xc2, 0x6c, 0x21,
  0x90, 0x36, 0xd6, 0xae, 0x49, 0xdb, 0x4e, 0xc4, 0xe9, 0x23, 0xca, 0x7c, 0xff, 0xff, 0xff, 0xff,
  0xff, 0xff, 0xff, 0xff, 0xff, 0xff, 0xff, 0xff, 0xff, 0xff, 0xff, 0xff, 0xff, 0xff, 0xff, 0xff,
  0xff, 0xff, 0xff, 0xff, 0xff, 0xff, 0xff, 0x3f]

def add (x y : Bytes') : Bytes' := mulAdd scOne x y
def sub (x y : Bytes') : Bytes' := mulAdd scMinusOne y x
def negate (x : Bytes') : Bytes' := mulAdd scMinusOne x scZero
def mul (x y : Bytes') : Bytes' := mulAdd x y scZero

/-- `isReduced`: byte-wise comparison with l − 1 from the most significant byte down -/
def isReducedRev : List Int → List Int → Bool
  | [], _ => true
  | _, [] => true
  | x :: xs, m :: ms => if x > m then false else if x < m then true else isReducedRev xs ms

def isReduced (s : Bytes') : Bool := isReducedRev s.reverse scMinusOne.reverse

/-- SetUniformBytes: 114 bytes → reduce -/
def setUniformBytes (x : Bytes') : Option Bytes' := if x.length = 114 then some (reduce x) else none

/-- SetCanonicalBytes: 57 bytes, last zero, value < l -/
def setCanonicalBytes (x : Bytes') : Option Bytes' :=
  if x.length = 57 then
    (if x.getD 56 0 ≠ 0 ∨ !isReduced (x.take 56) then none else some (x.take 56))
  else none

/-- SetBytesWithClamping: RFC 8032 pruning, then reduce (as 114 bytes) -/
def setBytesWithClamping (x : Bytes') : Option Bytes' :=
  if x.length = 57 then
    let b0 := x.getD 0 0
    let b55 := x.getD 55 0
    let b0' := b0 - b0 % 4                       -- wide[0] &^= 0x03
    let b55' := if b55 % 256 ≥ 128 then b55 else b55 + 128   -- wide[55] |= 0x80
    let wide := (b0' :: (x.take 55).drop 1) ++ [b55', 0] ++ zeros 57
    some (reduce wide)
  else none

end Model.Sc448
