/-
Row types of the header encode/decode tables that the translator (translator/headers.go)
regenerates from jws/jws.go and jwe/jwe.go into Goat/Gen/HeaderTables.lean.

A `Row` says: the JSON member named `key` carries struct field `field` in value encoding `kind`
(`aux` = the field a derived value falls back to / is checked against, "" if none).
-/
namespace Model.HeaderTable

/-- how goat converts between the Go field and the JSON member value -/
inductive Kind where
  | str                    -- Go string (or named string type); omitted when ""
  | url                    -- *url.URL; emitted as u.String(), read with url.Parse; omitted when nil
  | jwk                    -- *jwk.Key; emitted as the key's MarshalJSON object, read with jwk.ParseMap
  | certs                  -- []*x509.Certificate; [][]byte of cert.Raw = array of STANDARD base64 strings
  | bytes                  -- []byte; base64url without padding; omitted when nil
  | thumb (hash : String)  -- []byte like `bytes`; when nil the encoder derives hash(aux[0].Raw); the decoder checks it
  | strs                   -- []string; omitted when len = 0
  | nb64                   -- bool stored negated; member `false` emitted only when the field is true
  | int                    -- Go int; JSON number; omitted when 0
deriving DecidableEq, Repr, Inhabited

structure Row where
  key : String
  field : String
  kind : Kind
  aux : String
deriving DecidableEq, Repr, Inhabited

/-- one step of decodeHeader, in source order -/
inductive DecStep where
  | row (r : Row)
  | critCheck (field : String) (known : List String)   -- every element of `field` must be in `known`
deriving DecidableEq, Repr, Inhabited

end Model.HeaderTable
