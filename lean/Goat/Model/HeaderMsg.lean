import Goat.Model.Header
/-
Model.HeaderMsg — where the JWS and JWE message serialisers put the protected, unprotected and
per-signature / per-recipient headers, and how the parsers read them back
(jws: Sign, MarshalJSON, UnmarshalJSON, Compact, ParseCompact;
 jwe: NewMessage/NewMessageWithKW, Encrypt, MarshalJSON, ParseJSON, Compact, Parse).

Only header placement is modelled.  Payload, signature, IV, ciphertext, tag and encrypted key are
opaque strings (already base64url text, as the Go structs keep them in `b64…` fields) produced by
abstract oracle queries:
  c11.jws.sign  [str rawProtected, str payload] : str         (b64url of key.Sign(raw.payload))
  c11.jwe.seal  [str b64protected]              : [iv, ciphertext, tag] strs
  c11.jwe.decodeJSON [bytes] : obj|none   json.Decoder(UseNumber).Decode(&jsonJWE) re-rendered as
        {aad, ciphertext, iv, protected, tag, encrypted_key : str; unprotected, header : obj|null;
         recipients : null | [{header (obj|null), encrypted_key}]}
Compact serialisations are lists of segments (the split at the first 2 resp. 4 dots is done by
the caller).
-/
namespace Model.Header

/-! ## JWS -/

structure Sig where
  prot : Option Header
  rawProtected : String
  header : Option Header
  b64sig : String
deriving Inhabited

structure Msg where
  payload : String
  nb64 : Bool
  sigs : List Sig
deriving Inhabited

def b64urlDecStr (s : String) : PO Bytes := readBytes s

/-- b64Encode(json.Marshal(encodeHeader(h))) -/
def protectedText (enc : Header → PO Wire) (h : Header) : PO String := do
  let obj ← enc h
  let raw ← marshalObj obj
  let s ← b64urlEnc raw
  pure s.asStr

/-- (*Message).Sign(protected, header, key) -/
def jwsSign (m : Msg) (prot header : Option Header) : PO Msg :=
  match prot with
  | none => PO.panic "jws.Sign.nil-protected"      -- protected.nb64 on a nil pointer
  | some p =>
    if m.nb64 != p.nb64 then PO.fail "b64-mismatch" else do
      let raw ← protectedText jwsEncodeHeader p
      let s ← PO.query "c11.jws.sign" [.str raw, .str m.payload]
      pure { m with sigs := m.sigs ++ [{ prot := some p, rawProtected := raw, header := header, b64sig := s.asStr }] }

/-- json.Marshal of a `*Header` map value: absent when nil, else encodeHeader -/
def encOptHeader (enc : Header → PO Wire) : Option Header → PO (Option Wire)
  | none => pure none
  | some h => do
    let w ← enc h
    pure (some w)

def optMember (k : String) : Option Wire → List (String × Wire)
  | none => []
  | some v => [(k, v)]

/-- the members one signature contributes (flattened: at top level; general: one array element) -/
def sigMembers (s : Sig) : PO (List (String × Wire)) := do
  let hdr ← encOptHeader jwsEncodeHeader s.header
  pure ((if s.prot.isSome then [("protected", Wire.str s.rawProtected)] else [])
        ++ optMember "header" hdr ++ [("signature", .str s.b64sig)])

/-- (*Message).MarshalJSON as a JSON value: flattened syntax iff exactly one signature -/
def jwsMarshalJSON (m : Msg) : PO Wire :=
  match m.sigs with
  | [s] => do
    let ms ← sigMembers s
    pure (.obj (("payload", .str m.payload) :: ms))
  | sigs => do
    let arr ← mapPO (fun s => do let ms ← sigMembers s; pure (Wire.obj ms)) sigs
    pure (.obj [("payload", .str m.payload), ("signatures", .arr arr)])

/-- one element of `signatures` in UnmarshalJSON; returns the signature and the protected nb64 if
    a protected header is present -/
def parseSig (w : Wire) : PO (Sig × Option Bool) :=
  match w with
  | .obj o => do
    let prot ← (match Wire.lookup "protected" o with
      | none => pure (none, "")
      | some (.str ps) => do
          let raw ← b64urlDecStr ps
          let h ← jwsUnmarshalHeader raw
          pure (some h, ps)
      | some _ => PO.fail "type" : PO (Option Header × String))
    let hdr ← (match Wire.lookup "header" o with
      | none => pure none
      | some (.obj ho) => do
          let h ← jwsDecodeHeader ho
          pure (some h)
      | some _ => PO.fail "type" : PO (Option Header))
    match Wire.lookup "signature" o with
    | none => PO.fail "format"
    | some (.str ss) => do
        let _ ← b64urlDecStr ss
        pure ({ prot := prot.1, rawProtected := prot.2, header := hdr, b64sig := ss },
              prot.1.map (·.nb64))
    | some _ => PO.fail "type"
  | _ => PO.fail "type"

/-- the loop over `signatures`: `if i == 0 { m.nb64 = protected.nb64 } else if m.nb64 != … ` -/
def parseSigs : List Wire → Nat → Bool → PO (List Sig × Bool)
  | [], _, nb64 => pure ([], nb64)
  | w :: rest, i, nb64 => do
    let r ← parseSig w
    let nb64' ← (match r.2 with
      | none => pure nb64
      | some b => if i = 0 then pure b else if nb64 != b then PO.fail "b64-mismatch" else pure nb64 : PO Bool)
    let rs ← parseSigs rest (i + 1) nb64'
    pure (r.1 :: rs.1, rs.2)

/-- jws.Parse / (*Message).UnmarshalJSON on the decoded top-level object -/
def jwsParseObj (raw : List (String × Wire)) : PO Msg := do
  let payload ← (match Wire.lookup "payload" raw with
    | none => pure ""
    | some (.str s) => pure s
    | some _ => PO.fail "type" : PO String)
  let sigsArr ← (match Wire.lookup "signatures" raw, Wire.lookup "signature" raw with
    | some _, some _ => PO.fail "format"
    | none, none => PO.fail "format"
    | some (.arr l), none => pure l
    | some _, none => PO.fail "type"
    | none, some sg =>
        pure [Wire.obj ([("signature", sg)] ++ optMember "protected" (Wire.lookup "protected" raw)
                         ++ optMember "header" (Wire.lookup "header" raw))] : PO (List Wire))
  let r ← parseSigs sigsArr 0 false
  pure { payload := payload, nb64 := r.2, sigs := r.1 }

def jwsParseJSON (data : Bytes) : PO Msg := do
  let raw ← PO.query "json.decodeMap" [.bytes data]
  match raw with
  | .obj kvs => jwsParseObj kvs
  | .null => jwsParseObj []
  | _ => PO.fail "parse"

/-- (*Message).Compact: the unprotected header of the signature is not looked at -/
def jwsCompact (m : Msg) : PO (List String) :=
  match m.sigs with
  | [s] =>
    if m.nb64 && m.payload.contains '.' then pure [s.rawProtected, "", s.b64sig]
    else pure [s.rawProtected, m.payload, s.b64sig]
  | _ => PO.fail "format"

/-- jws.ParseCompact on the three segments -/
def jwsParseCompact : List String → PO Msg
  | [hs, ps, ss] => do
    let raw ← b64urlDecStr hs
    let h ← jwsUnmarshalHeader raw
    let _ ← b64urlDecStr ss
    pure { payload := ps, nb64 := h.nb64,
           sigs := [{ prot := some h, rawProtected := hs, header := none, b64sig := ss }] }
  | _ => PO.fail "format"

/-! ## JWE -/

structure Recipient where
  header : Option Header
  encKey : String
deriving Inhabited

structure JweMsg where
  unprotected : Option Header
  prot : Option Header
  b64protected : String
  iv : String
  ciphertext : String
  tag : String
  recipients : List Recipient
  aad : String := ""          -- b64aad: only a parsed JSON message can carry one
deriving Inhabited

/-- (*Header).Clone: nil gives a fresh empty header -/
def cloneHeader : Option Header → Header
  | none => Header.zero
  | some h => h

/-- jwe.NewMessage (no recipient) / NewMessageWithKW (one recipient without header, `encKey`):
    the protected header is the clone with `enc` overwritten -/
def jweNewMessage (enc : String) (prot : Option Header) (encKey : Option String) : PO JweMsg := do
  let h := { cloneHeader prot with enc := enc }
  let b64p ← protectedText jweEncodeHeader h
  let sealed ← PO.query "c11.jwe.seal" [.str b64p]
  let parts := sealed.asArr
  pure { unprotected := none, prot := some h, b64protected := b64p,
         iv := (parts.getD 0 .none).asStr, ciphertext := (parts.getD 1 .none).asStr,
         tag := (parts.getD 2 .none).asStr,
         recipients := match encKey with
           | none => []
           | some k => [{ header := none, encKey := k }] }

/-- (*Message).Encrypt(kw, header): the recipient header is header.Clone() — never nil -/
def jweEncrypt (m : JweMsg) (header : Option Header) (encKey : String) : JweMsg :=
  { m with recipients := m.recipients ++ [{ header := some (cloneHeader header), encKey := encKey }] }

/-- `omitempty` on a map / string member -/
def omitEmptyObj (k : String) : Option Wire → List (String × Wire)
  | some (.obj []) => []
  | some v => [(k, v)]
  | none => []

def omitEmptyStr (k : String) (s : String) : List (String × Wire) :=
  if s = "" then [] else [(k, .str s)]

def recipientObj (r : Recipient) : PO Wire := do
  let hdr ← encOptHeader jweEncodeHeader r.header
  pure (.obj ([("encrypted_key", Wire.str r.encKey)] ++ omitEmptyObj "header" hdr))

/-- jwe (*Message).MarshalJSON (always the general syntax; `aad`, `iv`, `protected`, `tag`,
    `unprotected` are `omitempty`) -/
def jweMarshalJSON (m : JweMsg) : PO Wire := do
  let unprot ← encOptHeader jweEncodeHeader m.unprotected
  let rs ← mapPO recipientObj m.recipients
  pure (.obj (omitEmptyStr "aad" m.aad ++ [("ciphertext", Wire.str m.ciphertext)] ++ omitEmptyStr "iv" m.iv
              ++ omitEmptyStr "protected" m.b64protected ++ [("recipients", .arr rs)]
              ++ omitEmptyStr "tag" m.tag ++ omitEmptyObj "unprotected" unprot))

/-- a Go `map[string]any` that may be nil, as its list of members -/
def mapMembers : Option Wire → List (String × Wire)
  | some (.obj kvs) => kvs
  | _ => []

/-- `for name := range a { if _, ok := b[name]; ok { … } }` finds a common member name -/
def sharesName (a b : List (String × Wire)) : Bool :=
  a.any (fun kv => (Wire.lookup kv.1 b).isSome)

/-- the loop over the recipients of ParseJSON: decodeHeader, crit only in the protected header,
    names disjoint from the protected and the shared unprotected header (RFC 7516 §7.2.1) -/
def parseRecipients (prot unprot : List (String × Wire)) : List Wire → PO (List Recipient)
  | [] => pure []
  | w :: rest => do
    let hm := mapMembers (w.get? "header")
    let h ← jweDecodeHeader hm
    if h.crit.length > 0 then PO.fail "crit-unprotected"
    else if sharesName hm prot || sharesName hm unprot then PO.fail "duplicate" else do
      let k := ((w.get? "encrypted_key").getD .none).asStr
      let _ ← b64urlDecStr k
      let rs ← parseRecipients prot unprot rest
      pure ({ header := some h, encKey := k } :: rs)

/-- jwe.ParseJSON (general and flattened syntax; `protected` may be absent) -/
def jweParseJSON (data : Bytes) : PO JweMsg := do
  let raw ← PO.query "c11.jwe.decodeJSON" [.bytes data]
  match raw with
  | .obj o => do
    let str := fun (k : String) => ((Wire.lookup k o).getD .none).asStr
    let b64p := str "protected"
    -- b64Decode + unmarshalJSON of the protected header, skipped when the member is empty / absent
    let rawHeader ← (if b64p = "" then pure [] else do
      let pbytes ← b64urlDecStr b64p
      let j ← PO.query "json.decodeMap" [.bytes pbytes]
      match j with
      | .obj kvs => pure kvs
      | .null => pure []
      | _ => PO.fail "parse" : PO (List (String × Wire)))
    let h ← jweDecodeHeader rawHeader
    let um := mapMembers (Wire.lookup "unprotected" o)
    let u ← jweDecodeHeader um
    if u.crit.length > 0 then PO.fail "crit-unprotected"
    else if sharesName um rawHeader then PO.fail "duplicate" else do
      let _ ← b64urlDecStr (str "ciphertext")
      let _ ← b64urlDecStr (str "iv")
      let _ ← b64urlDecStr (str "tag")
      let _ ← b64urlDecStr (str "aad")
      let topHeader := Wire.lookup "header" o
      let topKey := str "encrypted_key"
      let rws ← (match Wire.lookup "recipients" o with
        | some (.arr l) =>
            -- general syntax: the flattened members must not be there as well
            if (match topHeader with | some (.obj _) => true | _ => false) || topKey ≠ "" then PO.fail "format"
            else pure l
        | _ =>
            -- flattened syntax: exactly one recipient, its members at top level
            pure [Wire.obj ([("encrypted_key", Wire.str topKey)] ++ optMember "header" topHeader)]
        : PO (List Wire))
      let rs ← parseRecipients rawHeader um rws
      pure { unprotected := some u, prot := some h, b64protected := b64p, iv := str "iv",
             ciphertext := str "ciphertext", tag := str "tag", recipients := rs, aad := str "aad" }
  | _ => PO.fail "parse"

/-- jwe (*Message).Compact -/
def jweCompact (m : JweMsg) : PO (List String) :=
  match m.recipients with
  | [r] =>
    if m.unprotected.isSome then PO.fail "compact-unprotected"
    else if m.aad ≠ "" then PO.fail "compact-aad"
    else if r.header.isSome then PO.fail "compact-recipient-header"
    else pure [m.b64protected, r.encKey, m.iv, m.ciphertext, m.tag]
  | _ => PO.fail "format"

/-- jwe.Parse on the five segments -/
def jweParseCompact : List String → PO JweMsg
  | [hs, ks, ivs, cs, ts] => do
    let raw ← b64urlDecStr hs
    let h ← jweUnmarshalHeader raw
    let _ ← b64urlDecStr ivs
    let _ ← b64urlDecStr ks
    let _ ← b64urlDecStr cs
    let _ ← b64urlDecStr ts
    pure { unprotected := none, prot := some h, b64protected := hs, iv := ivs, ciphertext := cs,
           tag := ts, recipients := [{ header := none, encKey := ks }] }
  | _ => PO.fail "format"

end Model.Header
