import Goat.Model.KW.GoBuf
/-
Model of jwa/akw/akw.go (AES Key Wrap).  The Go code keeps ONE buffer
    buf = a(8) ‖ b(8) ‖ r(8n)         (ab = buf[:16] is the AES block)
and runs a single loop `for t := 0; t < 6*n; t++` with the index `t%n` (wrap) resp. `(u-1)%n`,
`u = 6n-t` (unwrap) and the counter XORed byte-wise into `a`.  The model keeps that buffer, that
loop, those indices and those copies; `block.Encrypt/Decrypt` are the oracle.
UnwrapKey validates len % 8 = 0 and len ≥ 16 (integrity register + at least one block) first.
-/
namespace Model.KW.AKW
open Spec Model.GoBuf

def chunkLen : Nat := 8

/-- `var defaultIV = []byte{0xa6, …}` -/
def defaultIV : Bytes := [0xa6, 0xa6, 0xa6, 0xa6, 0xa6, 0xa6, 0xa6, 0xa6]

/-- `byte(u >> 56), byte(u >> 48), …, byte(u)` -/
def counterBytes (u : Nat) : Bytes :=
  [UInt8.ofNat (u >>> 56), UInt8.ofNat (u >>> 48), UInt8.ofNat (u >>> 40), UInt8.ofNat (u >>> 32),
   UInt8.ofNat (u >>> 24), UInt8.ofNat (u >>> 16), UInt8.ofNat (u >>> 8), UInt8.ofNat u]

/-- `a[0] ^= byte(u >> 56); …; a[7] ^= byte(u)` where `a = buf[:8]` -/
def xorCounter (buf : Bytes) (u : Nat) : Bytes :=
  goCopy buf 0 chunkLen (xorBytes (slice buf 0 chunkLen) (counterBytes u))

/-- body of the WrapKey loop for one `t` -/
def wrapIter (key : Bytes) (n t : Nat) (buf : Bytes) : PO Bytes := do
  let off := chunkLen * 2 + (t % n) * chunkLen
  -- copy(b, r[(t%n)*chunkLen:])
  let buf := goCopy buf chunkLen (chunkLen * 2) (slice buf off buf.length)
  -- block.Encrypt(ab, ab)
  let e ← aesEnc key (slice buf 0 (chunkLen * 2))
  let buf := goCopy buf 0 (chunkLen * 2) e
  -- a ^= t+1
  let buf := xorCounter buf (t + 1)
  -- copy(r[(t%n)*chunkLen:], b)
  pure (goCopy buf off buf.length (slice buf chunkLen (chunkLen * 2)))

/-- key acceptance of the two constructors: `NewKeyWrapper([]byte)` (keySize = 0: any AES size) and
    `algorithm.NewKeyWrapper` (exactly `keySize`); a rejected key yields the invalid key wrapper whose
    every call returns the error. -/
def keyAccepted (keySize : Nat) (key : Bytes) : Bool :=
  if keySize == 0 then aesKeyOk key else key.length == keySize

/-- `(*keyWrapper).WrapKey` -/
def wrapKey (keySize : Nat) (canWrap : Bool) (key cek : Bytes) : PO Bytes := do
  if !keyAccepted keySize key then PO.fail "key" else
  if cek.length % chunkLen != 0 then PO.fail "cek-length" else
  if !canWrap then PO.fail "not-allowed" else
  if !aesKeyOk key then PO.fail "key" else
  let n := cek.length / chunkLen
  let buf : Bytes := List.replicate (cek.length + chunkLen * 2) 0
  -- r := buf[chunkLen*2:]; copy(r, cek)
  let buf := goCopy buf (chunkLen * 2) buf.length cek
  -- copy(a, defaultIV)
  let buf := goCopy buf 0 chunkLen defaultIV
  let buf ← forUp (wrapIter key n) (6 * n) buf
  -- copy(b, a); return buf[chunkLen:]
  let buf := goCopy buf chunkLen (chunkLen * 2) (slice buf 0 chunkLen)
  pure (slice buf chunkLen buf.length)

/-- body of the UnwrapKey loop for one `t` -/
def unwrapIter (key : Bytes) (n t : Nat) (buf : Bytes) : PO Bytes := do
  let u := 6 * n - t
  -- a ^= u
  let buf := xorCounter buf u
  let off := chunkLen * 2 + ((u - 1) % n) * chunkLen
  -- copy(b, r[((u-1)%n)*chunkLen:])
  let buf := goCopy buf chunkLen (chunkLen * 2) (slice buf off buf.length)
  -- block.Decrypt(ab, ab)
  let d ← aesDec key (slice buf 0 (chunkLen * 2))
  let buf := goCopy buf 0 (chunkLen * 2) d
  -- copy(r[((u-1)%n)*chunkLen:], b)
  pure (goCopy buf off buf.length (slice buf chunkLen (chunkLen * 2)))

/-- `(*keyWrapper).UnwrapKey` -/
def unwrapKey (keySize : Nat) (canUnwrap : Bool) (key data : Bytes) : PO Bytes := do
  if !keyAccepted keySize key then PO.fail "key" else
  if data.length % chunkLen != 0 || data.length < chunkLen * 2 then PO.fail "cek-length" else
  if !canUnwrap then PO.fail "not-allowed" else
  if !aesKeyOk key then PO.fail "key" else
  let n := data.length / chunkLen - 1
  let buf : Bytes := List.replicate (data.length + chunkLen) 0
  -- r := buf[chunkLen*2:]; copy(r, data[chunkLen:])
  let buf := goCopy buf (chunkLen * 2) buf.length (slice data chunkLen data.length)
  -- copy(a, data)
  let buf := goCopy buf 0 chunkLen data
  let buf ← forUp (unwrapIter key n) (6 * n) buf
  -- subtle.ConstantTimeCompare(a, defaultIV) == 0
  if slice buf 0 chunkLen != defaultIV then PO.fail "unwrap" else
  pure (slice buf (chunkLen * 2) buf.length)

end Model.KW.AKW
