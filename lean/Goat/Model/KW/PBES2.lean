import Goat.Model.KW.AKW
import Goat.Spec.PBES2
/-
Model of jwa/pbes2/pbes2.go: `wrapKey` / `unwrapKey` (salt assembly by three appends,
`pbkdf2.Key`, then `akw.NewKeyWrapper(dk)`), and the option handling of `WrapKey`/`UnwrapKey`
as far as it decides p2s/p2c (absent p2c = 0 → 10000; fresh p2s is C19's business).
-/
namespace Model.KW.PBES2
open Spec Model.GoBuf

/-- `salt = append(append(append(salt[:0], name...), 0), p2s...)` -/
def salt (name : String) (p2s : Bytes) : Bytes :=
  ((([] : Bytes) ++ Bytes.ofString name) ++ [0x00]) ++ p2s

/-- `(*keyWrapper).wrapKey` behind `WrapKey` (p2s given; p2c = 0 means "not set": 10000) -/
def wrapKey (ps : Spec.PBES2.Params) (canDerive : Bool) (password p2s : Bytes) (p2c : Int)
    (cek : Bytes) : PO Bytes := do
  if !canDerive then PO.fail "not-allowed" else
  let p2c := if p2c == 0 then 10000 else p2c
  let dk ← pbkdf2Q ps.hash password (salt ps.name p2s) p2c ps.keyLen
  -- akw.NewKeyWrapper(dk).WrapKey(cek, opts)
  Model.KW.AKW.wrapKey 0 true dk cek

/-- `(*keyWrapper).UnwrapKey` → `unwrapKey` -/
def unwrapKey (ps : Spec.PBES2.Params) (canDerive : Bool) (password p2s : Bytes) (p2c : Int)
    (data : Bytes) : PO Bytes := do
  if !canDerive then PO.fail "not-allowed" else
  let dk ← pbkdf2Q ps.hash password (salt ps.name p2s) p2c ps.keyLen
  Model.KW.AKW.unwrapKey 0 true dk data

end Model.KW.PBES2
