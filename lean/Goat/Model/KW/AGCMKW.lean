import Goat.Model.KW.GoBuf
/-
Model of jwa/agcmkw/agcmkw.go (key wrapping with AES GCM) and jwa/dir/dir.go.
iv must be 12 octets (NonceSize), tag 16 (Overhead) — checked by goat, error (not a crypto/cipher panic).
-/
namespace Model.KW.AGCMKW
open Spec Model.GoBuf

/-- `algorithm.NewKeyWrapper`: []byte key of exactly keySize (aes.NewCipher / cipher.NewGCM then
    cannot fail) -/
def keyAccepted (keySize : Nat) (key : Bytes) : Bool := key.length == keySize && aesKeyOk key

/-- `WrapKey` with a caller-supplied iv (`InitializationVector()` non-empty); returns
    (encrypted key, tag passed to SetAuthenticationTag).  An empty iv means "generate" (C19). -/
def wrapKey (keySize : Nat) (canWrap : Bool) (key iv cek : Bytes) : PO (Bytes × Bytes) := do
  if !keyAccepted keySize key then PO.fail "key" else
  if !canWrap then PO.fail "not-allowed" else
  if iv.length == 0 then PO.fail "iv-generate" else
  if iv.length != 12 then PO.fail "iv-length" else
  -- buf := make([]byte, len(cek)+Overhead); data := Seal(buf[:0], iv, cek, []byte{})
  let data ← gcmSealQ key iv [] cek
  -- SetAuthenticationTag(data[len(cek):]); return data[:len(cek)]
  pure (slice data 0 cek.length, slice data cek.length data.length)

/-- `UnwrapKey` -/
def unwrapKey (keySize : Nat) (canUnwrap : Bool) (key iv tag data : Bytes) : PO Bytes := do
  if !keyAccepted keySize key then PO.fail "key" else
  if !canUnwrap then PO.fail "not-allowed" else
  if iv.length != 12 then PO.fail "iv-length" else
  if tag.length != 16 then PO.fail "tag-length" else
  -- buf := make(len(data)+len(tag)); copy(buf, data); copy(buf[len(data):], tag)
  let buf : Bytes := List.replicate (data.length + tag.length) 0
  let buf := goCopy buf 0 buf.length data
  let buf := goCopy buf data.length buf.length tag
  let r ← gcmOpenQ key iv [] buf
  PO.ofOption "auth" r

end Model.KW.AGCMKW

namespace Model.KW.Dir
/-- dir.KeyWrapper: WrapKey returns the empty encrypted key, UnwrapKey the shared key itself;
    both honour the key's use / key_ops (canEncrypt / canDecrypt). -/
def wrapKey (canEncrypt : Bool) (_key _cek : Bytes) : PO Bytes :=
  if !canEncrypt then PO.fail "not-allowed" else pure []
def unwrapKey (canDecrypt : Bool) (key _data : Bytes) : PO Bytes :=
  if !canDecrypt then PO.fail "not-allowed" else pure key
end Model.KW.Dir
