import Goat.Base.Prog
import Goat.Spec.Blocks
/-
Model.GoBuf: the Go byte-buffer operations used by the C12 models — `copy` into a window of a
fixed-length buffer, sub-slicing, counted `for` loops whose body asks oracles — and the oracle
wrappers for the standard-library primitives (AES block, HMAC, hash, GCM, PBKDF2).
-/
namespace Model.GoBuf
open Spec

/-- Go `buf[lo:hi]` (caller guarantees lo ≤ hi ≤ len buf; out-of-range is modelled at the call site) -/
def slice (buf : Bytes) (lo hi : Nat) : Bytes := (buf.take hi).drop lo

/-- Go `copy(buf[lo:hi], src)`: overwrites `min (hi-lo) (len src)` octets starting at `lo`;
    the buffer keeps its length. -/
def goCopy (buf : Bytes) (lo hi : Nat) (src : Bytes) : Bytes :=
  let k := min (hi - lo) src.length
  buf.take lo ++ src.take k ++ buf.drop (lo + k)

/-- Go `for t := 0; t < n; t++ { s = f(t, s) }` with an oracle-asking body. -/
def forUp {σ : Type} (f : Nat → σ → PO σ) : Nat → σ → PO σ
  | 0, s => pure s
  | n+1, s => do let s' ← forUp f n s; f n s'

theorem run_forUp {σ : Type} (o : Oracle) (f : Nat → σ → PO σ) (g : Nat → σ → σ)
    (h : ∀ t s, PO.run o (f t s) = .ok (g t s)) (n : Nat) (s : σ) :
    PO.run o (forUp f n s) = .ok (iterUp g n s) := by
  induction n with
  | zero => rfl
  | succ n ih => simp only [forUp, PO.run_bind, ih, iterUp, h]

/-! ### oracle wrappers (the Go standard library) -/

/-- `cipher.Block.Encrypt(dst, src)` on one 16-octet block under an `aes.NewCipher(key)` block -/
def aesEnc (key blk : Bytes) : PO Bytes := do
  let w ← PO.query "aes.enc" [.bytes key, .bytes blk]
  pure (fit 16 w.asBytes)

/-- `cipher.Block.Decrypt(dst, src)` -/
def aesDec (key blk : Bytes) : PO Bytes := do
  let w ← PO.query "aes.dec" [.bytes key, .bytes blk]
  pure (fit 16 w.asBytes)

/-- the block functions an oracle induces under a key -/
def encFn (o : Oracle) (key : Bytes) : Bytes → Bytes :=
  fun x => fit 16 (o ⟨"aes.enc", [.bytes key, .bytes x]⟩).asBytes
def decFn (o : Oracle) (key : Bytes) : Bytes → Bytes :=
  fun x => fit 16 (o ⟨"aes.dec", [.bytes key, .bytes x]⟩).asBytes

@[simp] theorem run_aesEnc (o : Oracle) (key blk : Bytes) :
    PO.run o (aesEnc key blk) = .ok (encFn o key blk) := by
  simp [aesEnc, encFn]
@[simp] theorem run_aesDec (o : Oracle) (key blk : Bytes) :
    PO.run o (aesDec key blk) = .ok (decFn o key blk) := by
  simp [aesDec, decFn]

theorem encFn_length (o : Oracle) (key x : Bytes) : (encFn o key x).length = 16 := fit_length _ _
theorem decFn_length (o : Oracle) (key x : Bytes) : (decFn o key x).length = 16 := fit_length _ _

/-- `aes.NewCipher(key)` succeeds exactly for 16/24/32-octet keys -/
def aesKeyOk (key : Bytes) : Bool := key.length == 16 || key.length == 24 || key.length == 32

def hashLen (h : String) : Nat :=
  if h == "sha256" then 32 else if h == "sha384" then 48 else if h == "sha512" then 64 else 0

/-- `hash.Hash` Write…/Sum: digest of the concatenation of everything written -/
def hashQ (h : String) (msg : Bytes) : PO Bytes := do
  let w ← PO.query "hash" [.str h, .bytes msg]
  pure (fit (hashLen h) w.asBytes)
def hashFn (o : Oracle) (h : String) : Bytes → Bytes :=
  fun m => fit (hashLen h) (o ⟨"hash", [.str h, .bytes m]⟩).asBytes
@[simp] theorem run_hashQ (o : Oracle) (h : String) (m : Bytes) :
    PO.run o (hashQ h m) = .ok (hashFn o h m) := by simp [hashQ, hashFn]

/-- `hmac.New(h, key)` Write…/Sum(nil) -/
def hmacQ (h : String) (key msg : Bytes) : PO Bytes := do
  let w ← PO.query "hmac" [.str h, .bytes key, .bytes msg]
  pure (fit (hashLen h) w.asBytes)
def hmacFn (o : Oracle) (h : String) : Bytes → Bytes → Bytes :=
  fun k m => fit (hashLen h) (o ⟨"hmac", [.str h, .bytes k, .bytes m]⟩).asBytes
@[simp] theorem run_hmacQ (o : Oracle) (h : String) (k m : Bytes) :
    PO.run o (hmacQ h k m) = .ok (hmacFn o h k m) := by simp [hmacQ, hmacFn]

/-- `pbkdf2.Key(password, salt, iter, keyLen, h)` -/
def pbkdf2Q (h : String) (password salt : Bytes) (iter : Int) (keyLen : Nat) : PO Bytes := do
  let w ← PO.query "pbkdf2" [.str h, .bytes password, .bytes salt, .int iter, .int keyLen]
  pure (fit keyLen w.asBytes)
def pbkdf2Fn (o : Oracle) (h : String) (password salt : Bytes) (iter : Int) (keyLen : Nat) : Bytes :=
  fit keyLen (o ⟨"pbkdf2", [.str h, .bytes password, .bytes salt, .int iter, .int keyLen]⟩).asBytes
@[simp] theorem run_pbkdf2Q (o : Oracle) (h : String) (p s : Bytes) (c : Int) (l : Nat) :
    PO.run o (pbkdf2Q h p s c l) = .ok (pbkdf2Fn o h p s c l) := by simp [pbkdf2Q, pbkdf2Fn]

/-- `cipher.AEAD.Seal(nil, iv, plaintext, aad)` of `cipher.NewGCM(aes.NewCipher(key))`:
    ciphertext ‖ 16-octet tag.  Precondition of the library (panics otherwise): |iv| = 12. -/
def gcmSealQ (key iv aad pt : Bytes) : PO Bytes := do
  let w ← PO.query "gcm.seal" [.bytes key, .bytes iv, .bytes aad, .bytes pt]
  pure (fit (pt.length + 16) w.asBytes)
def gcmSealFn (o : Oracle) (key iv aad pt : Bytes) : Bytes :=
  fit (pt.length + 16) (o ⟨"gcm.seal", [.bytes key, .bytes iv, .bytes aad, .bytes pt]⟩).asBytes
@[simp] theorem run_gcmSealQ (o : Oracle) (k i a p : Bytes) :
    PO.run o (gcmSealQ k i a p) = .ok (gcmSealFn o k i a p) := by simp [gcmSealQ, gcmSealFn]

/-- `cipher.AEAD.Open(dst, iv, ct‖tag, aad)`: plaintext or authentication failure (`none`) -/
def gcmOpenQ (key iv aad sealed : Bytes) : PO (Option Bytes) := do
  let w ← PO.query "gcm.open" [.bytes key, .bytes iv, .bytes aad, .bytes sealed]
  pure w.asBytes?
def gcmOpenFn (o : Oracle) (key iv aad sealed : Bytes) : Option Bytes :=
  (o ⟨"gcm.open", [.bytes key, .bytes iv, .bytes aad, .bytes sealed]⟩).asBytes?
@[simp] theorem run_gcmOpenQ (o : Oracle) (k i a s : Bytes) :
    PO.run o (gcmOpenQ k i a s) = .ok (gcmOpenFn o k i a s) := by simp [gcmOpenQ, gcmOpenFn]

end Model.GoBuf
