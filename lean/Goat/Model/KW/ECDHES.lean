import Goat.Model.KW.AKW
import Goat.Model.KW.AGCMKW
/-
Model of jwa/ecdhes/ecdhes.go: the Concat KDF *reader* (`type kdf`, `newKDF`, `Read`, `putUint32`),
`deriveECDHES` (pubinfo = key size in bits, `io.ReadFull`), and the composition in
`KeyWrapper.UnwrapKey` (AlgorithmID choice, size choice, delegation to dir / akw).
`deriveZ` (crypto/ecdh, x448) is the oracle `ecdh`.
-/
namespace Model.KW.ECDHES
open Spec Model.GoBuf

/-- the mutable part of `type kdf` -/
structure KDF where
  round : Nat      -- uint32
  n : Nat          -- unread octets of buf
  buf : Bytes

/-- the fixed fields of `type kdf` -/
structure KDFIn where
  z : Bytes
  alg : Bytes
  apu : Bytes
  apv : Bytes
  pub : Bytes
  priv : Bytes

/-- `putUint32(v)` writes byte(v>>24), byte(v>>16), byte(v>>8), byte(v) -/
def putUint32 (v : Nat) : Bytes :=
  [UInt8.ofNat (v >>> 24), UInt8.ofNat (v >>> 16), UInt8.ofNat (v >>> 8), UInt8.ofNat v]

/-- everything written to the hash in one round, in order -/
def roundInput (c : KDFIn) (round : Nat) : Bytes :=
  putUint32 round ++ c.z ++ putUint32 (c.alg.length % 2^32) ++ c.alg ++
  putUint32 (c.apu.length % 2^32) ++ c.apu ++ putUint32 (c.apv.length % 2^32) ++ c.apv ++ c.pub ++ c.priv

/-- `(*kdf).Read(data)` with `len(data) = want`: returns the octets copied and the new state -/
def read (c : KDFIn) (st : KDF) (want : Nat) : PO (Bytes × KDF) := do
  let st ← (if st.n == 0 then do
      let round := (st.round + 1) % 2^32            -- r.round++ (uint32)
      let h ← hashQ "sha256" (roundInput c round)   -- Reset, writes, Sum(r.buf[:0])
      pure { round := round, n := h.length, buf := h }
    else pure st : PO KDF)
  -- n = copy(data, r.buf[len(r.buf)-r.n:]); r.n -= n
  let avail := st.buf.drop (st.buf.length - st.n)
  let k := min want avail.length
  pure (avail.take k, { st with n := st.n - k })

/-- `io.ReadFull(r, key)`: `for n < len(key) { nn = r.Read(key[n:]); n += nn }`.  Every Read
    delivers at least one octet (SHA-256 has 32), so `len(key)+1` iterations suffice; running out
    of fuel is unreachable and modelled as a panic site to keep it visible. -/
def readFull (c : KDFIn) : Nat → KDF → Nat → Bytes → PO Bytes
  | 0, _, _, _ => PO.panic "ecdhes.readfull.fuel"
  | fuel+1, st, want, acc =>
    if acc.length ≥ want then pure acc else do
      let r ← read c st (want - acc.length)
      readFull c fuel r.2 want (acc ++ r.1)

/-- `deriveECDHES` after `deriveZ` -/
def deriveKey (z alg apu apv : Bytes) (keySize : Nat) : PO Bytes :=
  let bits := keySize * 8
  let pubinfo : Bytes := [UInt8.ofNat (bits >>> 24), UInt8.ofNat (bits >>> 16), UInt8.ofNat (bits >>> 8), UInt8.ofNat bits]
  let c : KDFIn := { z := z, alg := alg, apu := apu, apv := apv, pub := pubinfo, priv := [] }
  -- newKDF: buf = make([]byte, 32), round = 0, n = 0
  readFull c (keySize + 1) { round := 0, n := 0, buf := List.replicate 32 0 } keySize []

/-- `jwa.EncryptionAlgorithm.CEKSize` -/
def cekSize (enc : String) : Nat :=
  if enc == "A128CBC-HS256" then 32 else if enc == "A192CBC-HS384" then 48
  else if enc == "A256CBC-HS512" then 64 else if enc == "A128GCM" then 16
  else if enc == "A192GCM" then 24 else if enc == "A256GCM" then 32 else 0

/-- `deriveZ`: the standard library's ECDH on the receiver's private key and the sender's
    ephemeral public key; `none` = error (type mismatch, invalid point, …) -/
def deriveZ (crv : String) (priv pub : Bytes) : PO Bytes := do
  let w ← PO.query "ecdh" [.str crv, .bytes priv, .bytes pub]
  PO.ofOption "ecdh" w.asBytes?

/-- `(*KeyWrapper).UnwrapKey` for ECDH-ES (`name = ""`, size 0, dir) and ECDH-ES+AxxxKW
    (`name = alg`, size 16/24/32, akw); AlgorithmID = `algorithmID(enc)`: the alg name in key
    wrapping mode, the enc value in direct mode. -/
def unwrapKey (name : String) (size : Nat) (canDerive : Bool) (enc crv : String)
    (priv pub apu apv data : Bytes) : PO Bytes := do
  if !canDerive then PO.fail "not-allowed" else
  let size' := if size == 0 then cekSize enc else size
  let algID := if name != "" then Bytes.ofString name else Bytes.ofString enc
  let z ← deriveZ crv priv pub
  let key ← deriveKey z algID apu apv size'
  if size == 0 then Model.KW.Dir.unwrapKey true key data   -- dir: returns the key itself
  else Model.KW.AKW.unwrapKey size true key data

/-- `(*KeyWrapper).DeriveKey` — the PRODUCER path.  Same derivation as UnwrapKey: the Concat KDF is fed
    AlgorithmID, then PartyUInfo = apu, then PartyVInfo = apv (RFC 7518 §4.6.2 fixes this order
    regardless of which party computes).  Direct mode returns (derived key, empty encrypted key);
    key wrapping mode draws a CEK of cekSize(enc) octets from crypto/rand — here the argument `cek`
    (its freshness is C19's subject) — and returns (cek, AKW.wrap(derived key, cek)). -/
def produceKey (name : String) (size : Nat) (canDerive : Bool) (enc crv : String)
    (priv pub apu apv cek : Bytes) : PO (Bytes × Bytes) := do
  if !canDerive then PO.fail "not-allowed" else
  let size' := if size == 0 then cekSize enc else size
  let algID := if name != "" then Bytes.ofString name else Bytes.ofString enc
  let z ← deriveZ crv priv pub
  let key ← deriveKey z algID apu apv size'
  if name == "" then pure (key, [])
  else do
    let encrypted ← Model.KW.AKW.wrapKey size true key cek
    pure (cek, encrypted)

end Model.KW.ECDHES
