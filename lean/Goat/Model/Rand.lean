import Goat.Base.Prog
/-
C19 — model of every place where goat draws randomness for encryption.

Randomness is the oracle query `rand [int pos, int n]` = bytes `[pos, pos+n)` of the process's
random stream (`crypto/rand.Reader`, read through `rand.Read` = `io.ReadFull(rand.Reader, b)`).
The state threads `pos` explicitly, keeps the list of all draws made so far (`log`), the
`agcm` algorithm instances created so far (each with its `(mask, counter)`), and the JWE
messages created so far (for `Message.Encrypt`).

Sources mirrored (line numbers of the pinned tree):
  jwa/agcm/agcm.go:55-88      GenerateCEK / GenerateIV           → `gcmGenerateCEK`, `gcmGenerateIV`
  jwa/acbc/acbc.go:69-85      GenerateCEK / GenerateIV           → `cbcGenerateCEK`, `cbcGenerateIV`
  jwa/agcmkw/agcmkw.go:107-135 WrapKey                           → `kwWrap .gcmkw`
  jwa/pbes2/pbes2.go:108-152  WrapKey / wrapKey                  → `kwWrap .pbes2`
  jwa/akw/akw.go:100-107      WrapKey (length check only)        → `kwWrap .akw`
  jwa/dir/dir.go:43-53        WrapKey / DeriveKey                → `kwWrap .dir`, `kwDerive .dir`
  jwa/ecdhes/ecdhes.go:150-190 DeriveKey                         → `kwDerive .ecdhDirect/.ecdhKW`
  jwe/jwe.go:622-680          NewMessage                         → `step (.newMessage e)`
  jwe/jwe.go:682-795          NewMessageWithKW                   → `step (.newMessageKW e kw h)`
  jwe/jwe.go:849-862          Message.Encrypt                    → `step (.encrypt m kw h)`

The model is of the tree after the repairs of DESIGN §9 (dir.DeriveKey returns `(key, empty)`,
ECDH-ES direct key agreement uses the agreed key as CEK, agcmkw.WrapKey checks the length of a
supplied iv, agcm guards `(mask, counter)` with a mutex, i.e. `GenerateIV` is atomic).
-/
namespace Model.Rand

/-! ## content encryption algorithms and their size tables -/

inductive Enc where
  | a128cbc | a192cbc | a256cbc | a128gcm | a192gcm | a256gcm
deriving DecidableEq, Repr, Inhabited

/-- `jwa.EncryptionAlgorithm.CEKSize` (jwa/jwa.go) -/
def Enc.cekSize : Enc → Nat
  | .a128cbc => 32 | .a192cbc => 48 | .a256cbc => 64
  | .a128gcm => 16 | .a192gcm => 24 | .a256gcm => 32

/-- `jwa.EncryptionAlgorithm.IVSize` (jwa/jwa.go) -/
def Enc.ivSize : Enc → Nat
  | .a128cbc => 16 | .a192cbc => 16 | .a256cbc => 16
  | .a128gcm => 12 | .a192gcm => 12 | .a256gcm => 12

/-- `keyLen` of `agcm.New128/New192/New256` (jwa/agcm/agcm.go:18-37); `none` for CBC -/
def Enc.gcmKeyLen? : Enc → Option Nat
  | .a128gcm => some 16 | .a192gcm => some 24 | .a256gcm => some 32
  | _ => none

/-- `(encKeyLen, macKeyLen)` of the acbc singletons (jwa/acbc/acbc.go:18-48); `(0,0)` for GCM -/
def Enc.cbcLens : Enc → Nat × Nat
  | .a128cbc => (16, 16) | .a192cbc => (24, 24) | .a256cbc => (32, 32)
  | _ => (0, 0)

def Enc.name : Enc → String
  | .a128cbc => "A128CBC-HS256" | .a192cbc => "A192CBC-HS384" | .a256cbc => "A256CBC-HS512"
  | .a128gcm => "A128GCM" | .a192gcm => "A192GCM" | .a256gcm => "A256GCM"

def Enc.ofName? (s : String) : Option Enc :=
  if s == "A128CBC-HS256" then some .a128cbc
  else if s == "A192CBC-HS384" then some .a192cbc
  else if s == "A256CBC-HS512" then some .a256cbc
  else if s == "A128GCM" then some .a128gcm
  else if s == "A192GCM" then some .a192gcm
  else if s == "A256GCM" then some .a256gcm
  else none

/-! ## state -/

inductive Kind where
  | cek | cbcIV | gcmMask | kwIV | salt
deriving DecidableEq, Repr, Inhabited

def Kind.name : Kind → String
  | .cek => "cek" | .cbcIV => "cbcIV" | .gcmMask => "gcmMask" | .kwIV => "kwIV" | .salt => "salt"

/-- one `rand.Read`: `bytes` = stream segment `[pos, pos + bytes.length)` -/
structure Draw where
  kind : Kind
  pos : Nat
  bytes : Bytes
deriving Repr, Inhabited

/-- `agcm.algorithm` (jwa/agcm/agcm.go:47-52): `mask [12]byte`, `counter uint64` -/
structure Gcm where
  /-- ghost: which of `New128/New192/New256` created the instance (not a field of the Go struct) -/
  enc : Enc
  keyLen : Nat
  mask : Bytes
  counter : Nat
deriving Repr, Inhabited

/-- what `Message.Encrypt` needs of a `jwe.Message`: `msg.cek` (only its length matters here) -/
structure Msg where
  enc : Enc
  cekLen : Nat
  iv : Bytes
deriving Repr, Inhabited

structure St where
  pos : Nat
  log : List Draw
  insts : List Gcm
  msgs : List Msg
deriving Repr, Inhabited

def St.init : St := ⟨0, [], [], []⟩

/-! ## the state-and-outcome monad over oracle programs

`Outcome` × `St`: an error does not lose the state (a failing Go call may already have consumed
random bytes, and the history continues afterwards). -/

def M (α : Type) : Type := St → Prog (Outcome α × St)

namespace M

def pure {α} (a : α) : M α := fun s => Prog.ret (.ok a, s)

def bindK {α β} (f : α → M β) : Outcome α × St → Prog (Outcome β × St)
  | (.ok a, s) => f a s
  | (.err c, s) => Prog.ret (.err c, s)
  | (.panic p, s) => Prog.ret (.panic p, s)

def bind {α β} (m : M α) (f : α → M β) : M β := fun s => Prog.bind (m s) (bindK f)

instance : Monad M where
  pure := M.pure
  bind := M.bind

def throw {α} (cls : String) : M α := fun s => Prog.ret (.err cls, s)
def panic {α} (site : String) : M α := fun s => Prog.ret (.panic site, s)
def get : M St := fun s => Prog.ret (.ok s, s)
def modify (f : St → St) : M Unit := fun s => Prog.ret (.ok (), f s)

/-- interpretation under an oracle -/
def run {α} (o : Oracle) (m : M α) (s : St) : Outcome α × St := Prog.run o (m s)

end M

/-! ## drawing -/

/-- a well-formed answer of the `rand` oracle: exactly `n` bytes (anything else = `rand.Read`
    returned an error) -/
def randAt (w : Wire) (n : Nat) : Option Bytes :=
  match w with
  | .bytes b => if b.length = n then some b else none
  | _ => none

def St.push (s : St) (k : Kind) (b : Bytes) : St :=
  { s with pos := s.pos + b.length, log := s.log ++ [⟨k, s.pos, b⟩] }

/-- `b := make([]byte, n); rand.Read(b)` -/
def draw (k : Kind) (n : Nat) : M Bytes := fun s =>
  Prog.ask ⟨"rand", [.int s.pos, .int n]⟩ fun w =>
    match randAt w n with
    | some b => Prog.ret (.ok b, s.push k b)
    | none => Prog.ret (.err "rand", s)

/-! ## agcm (jwa/agcm/agcm.go) -/

def nonceSize : Nat := 12

/-- `&algorithm{keyLen: k}`: zero mask, zero counter -/
def Gcm.new (e : Enc) (keyLen : Nat) : Gcm := ⟨e, keyLen, List.replicate nonceSize 0, 0⟩

/-- agcm.go:55-63 -/
def gcmGenerateCEK (g : Gcm) : M (Gcm × Bytes) := do
  let cek ← draw .cek g.keyLen
  pure ({ g with counter := 0 }, cek)

def be64 (c : Nat) : Bytes := Bytes.encodeBE 8 c

/-- agcm.go:78-87: `iv = mask; iv[11] ^= byte(c); …; iv[4] ^= byte(c >> 56)` -/
def xorCtr (mask : Bytes) (c : Nat) : Bytes :=
  mask.take 4 ++ List.zipWith (· ^^^ ·) (mask.drop 4) (be64 c)

/-- the part of `GenerateIV` after the counter has been read into the local `c`
    (agcm.go:72-87): increment with uint64 wrap, overflow check, write back, build the IV -/
def gcmFinishIV (g : Gcm) (c : Nat) : Outcome (Gcm × Bytes) :=
  let c := (c + 1) % 2 ^ 64
  if c = 0 then .err "gcm-counter-overflow"
  else .ok ({ g with counter := c }, xorCtr g.mask c)

/-- agcm.go:65-88 -/
def gcmGenerateIV (g : Gcm) : M (Gcm × Bytes) := do
  let c := g.counter
  let g ← (if c = 0 then do
      let m ← draw .gcmMask nonceSize
      pure { g with mask := m }
    else pure g)
  match gcmFinishIV g c with
  | .ok r => pure r
  | .err e => M.throw e
  | .panic p => M.panic p

/-! ## acbc (jwa/acbc/acbc.go) -/

/-- acbc.go:69-76 -/
def cbcGenerateCEK (e : Enc) : M Bytes := draw .cek (e.cbcLens.1 + e.cbcLens.2)

/-- acbc.go:78-85 (`aes.BlockSize`) -/
def cbcGenerateIV : M Bytes := draw .cbcIV 16

/-- what `enc.New()` returns: a fresh agcm struct, or the stateless acbc singleton -/
inductive EncInst where
  | gcm (g : Gcm)
  | cbc (e : Enc)

def Enc.new (e : Enc) : EncInst :=
  match e.gcmKeyLen? with
  | some k => .gcm (Gcm.new e k)
  | none => .cbc e

def EncInst.generateCEK : EncInst → M (EncInst × Bytes)
  | .gcm g => do let (g, cek) ← gcmGenerateCEK g; pure (.gcm g, cek)
  | .cbc e => do let cek ← cbcGenerateCEK e; pure (.cbc e, cek)

def EncInst.generateIV : EncInst → M (EncInst × Bytes)
  | .gcm g => do let (g, iv) ← gcmGenerateIV g; pure (.gcm g, iv)
  | .cbc e => do let iv ← cbcGenerateIV; pure (.cbc e, iv)

/-- the parameter checks of `Encrypt` (agcm.go:112-118, acbc.go:124-136) -/
def EncInst.encryptCheck (i : EncInst) (cekLen ivLen : Nat) : M Unit :=
  match i with
  | .gcm g =>
    if cekLen ≠ g.keyLen then M.throw "encrypt-cek-size"
    else if ivLen ≠ nonceSize then M.throw "encrypt-iv-size"
    else pure ()
  | .cbc e =>
    if cekLen ≠ e.cbcLens.2 + e.cbcLens.1 then M.throw "encrypt-cek-size"
    else if ivLen ≠ 16 then M.throw "encrypt-iv-size"
    else pure ()

/-! ## key wrapping -/

/-- the header members that matter: `iv`, `p2s` (nil vs. set), `p2c` -/
structure Hdr where
  iv : Option Bytes
  p2s : Option Bytes
  p2c : Nat
deriving Repr, Inhabited

inductive KW where
  | akw                  -- A128KW/A192KW/A256KW: no randomness
  | gcmkw                -- A128GCMKW/…: iv
  | pbes2                -- PBES2-HS*: p2s, p2c
  | dir (key : Bytes)    -- dir: the shared key is the CEK
  | ecdhDirect           -- ECDH-ES
  | ecdhKW               -- ECDH-ES+A*KW
  | invalid              -- keymanage.NewInvalidKeyWrapper
deriving Repr, Inhabited

/-- `kw.(keymanage.KeyDeriver)` succeeds -/
def KW.isDeriver : KW → Bool
  | .dir _ => true | .ecdhDirect => true | .ecdhKW => true | _ => false

/-- values handed out by an operation -/
inductive Item where
  | inst (i : Nat)                          -- id of the agcm instance created
  | msg (m : Nat)                           -- id of the message created
  | cek (b : Bytes)                         -- a newly generated content-encryption key
  | cekShared (b : Bytes)                   -- the CEK is the shared key (dir)
  | cekAgreed (n : Nat)                     -- the CEK is the agreed key (ECDH-ES direct), n bytes
  | iv (b : Bytes)                          -- content-encryption IV
  | kwIV (b : Bytes) (supplied : Bool)      -- "iv" header member used by AES-GCM key wrapping
  | salt (b : Bytes) (supplied : Bool)      -- "p2s"
  | p2c (n : Nat) (defaulted : Bool)        -- "p2c"
deriving Repr, Inhabited

def defaultP2C : Nat := 10000

/-- `KeyWrapper.WrapKey(cek, header)` for a CEK of `cekLen` bytes; returns the updated header -/
def kwWrap (kw : KW) (cekLen : Nat) (h : Hdr) : M (Hdr × List Item) :=
  match kw with
  | .akw =>
    -- akw.go:101-103
    if cekLen % 8 ≠ 0 then M.throw "akw-cek-len" else pure (h, [])
  | .gcmkw => do
    -- agcmkw.go:112-126: `len(iv) == 0` (nil or empty) ⇒ draw NonceSize() bytes, store in header
    let iv := h.iv.getD []
    if iv.length = 0 then do
      let iv ← draw .kwIV 12
      pure ({ h with iv := some iv }, [.kwIV iv false])
    else if iv.length ≠ 12 then
      -- the length of a supplied iv is checked before `aead.Seal` (which would panic)
      M.throw "gcmkw-iv-len"
    else pure (h, [.kwIV iv true])
  | .pbes2 => do
    -- pbes2.go:113-139: `p2s == nil` ⇒ draw 32 bytes; `p2c == 0` ⇒ 10000
    let (h, sItem) ← (match h.p2s with
      | some s => (pure (h, Item.salt s true) : M (Hdr × Item))
      | none => do
        let s ← draw .salt 32
        pure ({ h with p2s := some s }, Item.salt s false))
    let (h, cItem) := (if h.p2c = 0 then ({ h with p2c := defaultP2C }, Item.p2c defaultP2C true)
                       else (h, Item.p2c h.p2c false))
    -- pbes2.go:148 → akw.go:101-103
    if cekLen % 8 ≠ 0 then M.throw "akw-cek-len" else pure (h, [sItem, cItem])
  | .dir _ => pure (h, [])          -- dir.go:43-45
  | .ecdhDirect => pure (h, [])     -- ecdhes.go:119-121
  | .ecdhKW => pure (h, [])
  | .invalid => M.throw "kw-invalid"

/-- the CEK a `DeriveKey` returns -/
inductive CekVal where
  | drawn (b : Bytes)
  | shared (b : Bytes)
  | agreed (n : Nat)

def CekVal.len : CekVal → Nat
  | .drawn b => b.length | .shared b => b.length | .agreed n => n

def CekVal.item : CekVal → Item
  | .drawn b => .cek b | .shared b => .cekShared b | .agreed n => .cekAgreed n

/-- `KeyDeriver.DeriveKey(opts)` -/
def kwDerive (kw : KW) (e : Enc) : M CekVal :=
  match kw with
  | .dir key => pure (.shared key)                 -- dir.go DeriveKey: `return w.cek, []byte{}, nil`
  | .ecdhDirect => pure (.agreed e.cekSize)        -- ecdhes.go DeriveKey, `w.alg.name == ""`: the agreed key
  | .ecdhKW => do
    -- ecdhes.go DeriveKey: `cek = make([]byte, cekSize); rand.Read(cek)`, then akw WrapKey
    let cek ← draw .cek e.cekSize
    if cek.length % 8 ≠ 0 then M.throw "akw-cek-len" else pure (.drawn cek)
  | _ => M.throw "not-deriver"

/-! ## operations -/

inductive Op where
  | newGcm (e : Enc)                         -- agcm.New128/192/256()
  | gcmCEK (i : Nat)                         -- inst[i].GenerateCEK()
  | gcmIV (i : Nat)                          -- inst[i].GenerateIV()
  | cbcCEK (e : Enc)                         -- acbc.NewXXX().GenerateCEK()
  | cbcIV (e : Enc)                          -- acbc.NewXXX().GenerateIV()
  | wrapKey (kw : KW) (cekLen : Nat) (h : Hdr)   -- kw.WrapKey(cek, header)
  | deriveKey (kw : KW) (e : Enc)            -- kw.(KeyDeriver).DeriveKey(opts)
  | newMessage (e : Enc)                     -- jwe.NewMessage(enc, header, plaintext)
  | newMessageKW (e : Enc) (kw : KW) (h : Hdr)   -- jwe.NewMessageWithKW(enc, kw, header, plaintext)
  | encrypt (m : Nat) (kw : KW) (h : Hdr)    -- msgs[m].Encrypt(kw, header)
  | bad                                      -- undecodable request (driver only)
deriving Repr, Inhabited

def getInst (i : Nat) : M Gcm := fun s =>
  match s.insts[i]? with
  | some g => Prog.ret (.ok g, s)
  | none => Prog.ret (.err "no-instance", s)

def setInst (i : Nat) (g : Gcm) : M Unit :=
  M.modify fun s => { s with insts := s.insts.set i g }

def getMsg (m : Nat) : M Msg := fun s =>
  match s.msgs[m]? with
  | some x => Prog.ret (.ok x, s)
  | none => Prog.ret (.err "no-message", s)

/-- append a message, return its id -/
def pushMsg (x : Msg) : M Nat := fun s =>
  Prog.ret (.ok s.msgs.length, { s with msgs := s.msgs ++ [x] })

/-- append an instance, return its id -/
def pushInst (g : Gcm) : M Nat := fun s =>
  Prog.ret (.ok s.insts.length, { s with insts := s.insts ++ [g] })

def step : Op → M (List Item)
  | .newGcm e =>
    match e.gcmKeyLen? with
    | some k => do let i ← pushInst (Gcm.new e k); pure [.inst i]
    | none => M.throw "not-gcm"
  | .gcmCEK i => do
    let g ← getInst i
    let (g, cek) ← gcmGenerateCEK g
    setInst i g
    pure [.cek cek]
  | .gcmIV i => do
    let g ← getInst i
    let (g, iv) ← gcmGenerateIV g
    setInst i g
    pure [.iv iv]
  | .cbcCEK e =>
    match e.gcmKeyLen? with
    | some _ => M.throw "not-cbc"
    | none => do let cek ← cbcGenerateCEK e; pure [.cek cek]
  | .cbcIV e =>
    match e.gcmKeyLen? with
    | some _ => M.throw "not-cbc"
    | none => do let iv ← cbcGenerateIV; pure [.iv iv]
  | .wrapKey kw n h => do
    let (_, items) ← kwWrap kw n h
    pure items
  | .deriveKey kw e => do
    let c ← kwDerive kw e
    pure [c.item]
  | .newMessage e => do
    -- jwe.go:641-651 `enc1 := enc.New(); enc1.GenerateCEK(); enc1.GenerateIV()`; 663 Encrypt
    let enc1 := e.new
    let (enc1, cek) ← enc1.generateCEK
    let (enc1, iv) ← enc1.generateIV
    enc1.encryptCheck cek.length iv.length
    let m ← pushMsg ⟨e, cek.length, iv⟩
    pure [.msg m, .cek cek, .iv iv]
  | .newMessageKW e kw h =>
    if kw.isDeriver then do
      -- jwe.go:702-724: DeriveKey(header); `enc1 := enc.New(); enc1.GenerateIV()`;
      -- `enc.New().Encrypt(cek, iv, …)` (a second fresh instance)
      let c ← kwDerive kw e
      let enc1 := e.new
      let (_, iv) ← enc1.generateIV
      (e.new).encryptCheck c.len iv.length
      let m ← pushMsg ⟨e, c.len, iv⟩
      pure [.msg m, c.item, .iv iv]
    else do
      -- jwe.go:747-775: GenerateCEK, GenerateIV, `kw.WrapKey(cek, header)`, Encrypt
      let enc1 := e.new
      let (enc1, cek) ← enc1.generateCEK
      let (enc1, iv) ← enc1.generateIV
      let (_, items) ← kwWrap kw cek.length h
      enc1.encryptCheck cek.length iv.length
      let m ← pushMsg ⟨e, cek.length, iv⟩
      pure ([.msg m, .cek cek, .iv iv] ++ items)
  | .encrypt m kw h => do
    -- jwe.go:849-862: `kw.WrapKey(msg.cek, header.Clone())`
    let x ← getMsg m
    let (_, items) ← kwWrap kw x.cekLen h
    pure items
  | .bad => M.throw "bad-op"

/-! ## histories -/

/-- one executed step of a history -/
structure Rec where
  op : Op
  pre : St
  out : Outcome (List Item)
  post : St

/-- the draws made during the step -/
def Rec.newDraws (r : Rec) : List Draw := r.post.log.drop r.pre.log.length

def stepRun (o : Oracle) (s : St) (op : Op) : Outcome (List Item) × St :=
  (step op).run o s

/-- run a history (list of operations) from a state; every step is recorded -/
def trace (o : Oracle) : St → List Op → List Rec
  | _, [] => []
  | s, op :: ops =>
    let r := stepRun o s op
    ⟨op, s, r.1, r.2⟩ :: trace o r.2 ops

def final (o : Oracle) : St → List Op → St
  | s, [] => s
  | s, op :: ops => final o (stepRun o s op).2 ops

/-- the same history as one oracle program (what the driver executes) -/
def histProg : St → List Op → Prog (List (Op × Outcome (List Item) × St))
  | _, [] => Prog.ret []
  | s, op :: ops => Prog.bind (step op s) fun r =>
      Prog.bind (histProg r.2 ops) fun rest => Prog.ret ((op, r.1, r.2) :: rest)

/-- effect of one executed step on the list of IVs issued by agcm instance `i` in its current
    epoch: a successful `GenerateCEK` on `i` starts a new epoch, a successful `GenerateIV` on `i`
    adds its IV, nothing else touches the epoch -/
def epochStep (i : Nat) (op : Op) (out : Outcome (List Item)) (acc : List Bytes) : List Bytes :=
  match op, out with
  | .gcmCEK j, .ok _ => if j = i then [] else acc
  | .gcmIV j, .ok [.iv b] => if j = i then acc ++ [b] else acc
  | _, _ => acc

/-- IVs issued by agcm instance `i` in its current epoch at the end of a recorded history: the
    epoch of an instance starts at its creation and at every successful `GenerateCEK` on it;
    `acc` = IVs of the epoch before the history -/
def epochIVs (i : Nat) : List Rec → List Bytes → List Bytes
  | [], acc => acc
  | r :: rs, acc => epochIVs i rs (epochStep i r.op r.out acc)

end Model.Rand
