import Goat.Base.Prog
import Goat.Model.HeaderTable
import Goat.Gen.HeaderTables
/-
Model.Header — goat's JOSE header codec (jws/jws.go and jwe/jwe.go: Header, encodeHeader,
decodeHeader, SetCritical, SetBase64; internal/jsonutils Encoder/Decoder getters).

The encoder and the decoder are *interpreters of the regenerated tables*
`Gen.HeaderTables.{jws,jwe}.{encRows,decSteps,knownParams}`: which JSON member carries which
struct field in which encoding is not written here, it is read from the table extracted from the
Go source on every run.

Standard library behind oracle queries (all answered by the Go standard library in the harness,
except the two jwk queries, which are goat's jwk package — JWK internals are property C08):
  c11.b64url.enc [bytes] : str          base64.RawURLEncoding.EncodeToString
  c11.b64url.dec [str]   : bytes|none   base64.RawURLEncoding.DecodeString
  c11.b64std.enc [bytes] : str          what encoding/json emits for a []byte (StdEncoding)
  c11.b64std.dec [str]   : bytes|none   base64.StdEncoding.DecodeString
  c11.url.parse  [str]   : str|none     url.Parse(s) then u.String()  (a URL value *is* its String() form)
  c11.x509.parse [bytes] : bool         x509.ParseCertificate succeeds (then cert.Raw = the input)
  c11.num.int64  [num]   : int|none     json.Number.Int64
  hash [str name, bytes] : bytes        sha1.Sum / sha256.Sum256
  c11.jwk.marshal [key]  : obj|none     (*jwk.Key).MarshalJSON as a JSON object
  c11.jwk.parse   [obj]  : key|none     jwk.ParseMap
  json.decodeMap [bytes] : obj|null|none  json.Decoder(UseNumber).Decode(&map[string]any)
  json.marshal   [value] : bytes

JSON values are in "JSON normal form": what encoding/json.Marshal of the Go value re-reads as
(a Go int is a `num`, a [][]byte is an array of standard-base64 strings, a json.RawMessage /
json.Marshaler is the value it renders).

First-error semantics: jsonutils.Decoder/Encoder record the first error and carry on; nothing
after the first error can change the result (err, nil), so the model stops at the first error.
Error classes: type, url, jwk, x5c-b64, cert, b64, thumbprint, int, p2c-range, crit, parse.
-/
namespace Model.Header
open Model.HeaderTable

/-- struct fields of jws.Header / jwe.Header (union; `nb64` exists only in jws, `enc zip epk apu
    apv iv tag p2s p2c` only in jwe) -/
inductive Fld where
  | alg | enc | zip | jku | jwk | kid | x5u | x5c | x5t | x5tS256 | typ | cty | crit | nb64
  | epk | apu | apv | iv | tag | p2s | p2c
deriving DecidableEq, Repr, Inhabited

def Fld.ofString : String → Option Fld
  | "alg" => some .alg | "enc" => some .enc | "zip" => some .zip | "jku" => some .jku
  | "jwk" => some .jwk | "kid" => some .kid | "x5u" => some .x5u | "x5c" => some .x5c
  | "x5t" => some .x5t | "x5tS256" => some .x5tS256 | "typ" => some .typ | "cty" => some .cty
  | "crit" => some .crit | "nb64" => some .nb64 | "epk" => some .epk | "apu" => some .apu
  | "apv" => some .apv | "iv" => some .iv | "tag" => some .tag | "p2s" => some .p2s
  | "p2c" => some .p2c | _ => none

/-- A decoded JOSE header.  `none` = Go nil; a URL is its `String()` text; a key is an opaque
    value understood by the jwk oracles; a certificate is its DER (`cert.Raw`); `crit` identifies
    nil with the empty slice (only `len` is ever inspected); `raw` is the `Raw` map. -/
structure Header where
  alg : String := ""
  enc : String := ""
  zip : String := ""
  jku : Option String := none
  jwk : Option Wire := none
  kid : String := ""
  x5u : Option String := none
  x5c : Option (List Bytes) := none
  x5t : Option Bytes := none
  x5tS256 : Option Bytes := none
  typ : String := ""
  cty : String := ""
  crit : List String := []
  nb64 : Bool := false
  epk : Option Wire := none
  apu : Option Bytes := none
  apv : Option Bytes := none
  iv : Option Bytes := none
  tag : Option Bytes := none
  p2s : Option Bytes := none
  p2c : Int := 0
  raw : List (String × Wire) := []
deriving Inhabited

def Header.zero : Header := {}

/-- value of one struct field -/
inductive FVal where
  | s (v : String)
  | url (v : Option String)
  | key (v : Option Wire)
  | certs (v : Option (List Bytes))
  | bytes (v : Option Bytes)
  | strs (v : List String)
  | flag (v : Bool)
  | int (v : Int)
deriving Inhabited

def Header.get (h : Header) : Fld → FVal
  | .alg => .s h.alg | .enc => .s h.enc | .zip => .s h.zip | .kid => .s h.kid
  | .typ => .s h.typ | .cty => .s h.cty
  | .jku => .url h.jku | .x5u => .url h.x5u
  | .jwk => .key h.jwk | .epk => .key h.epk
  | .x5c => .certs h.x5c
  | .x5t => .bytes h.x5t | .x5tS256 => .bytes h.x5tS256 | .apu => .bytes h.apu
  | .apv => .bytes h.apv | .iv => .bytes h.iv | .tag => .bytes h.tag | .p2s => .bytes h.p2s
  | .crit => .strs h.crit
  | .nb64 => .flag h.nb64
  | .p2c => .int h.p2c

/-- assignment to a struct field; `none` when the value has the wrong type for the field -/
def Header.set (h : Header) : Fld → FVal → Option Header
  | .alg, .s v => some { h with alg := v }
  | .enc, .s v => some { h with enc := v }
  | .zip, .s v => some { h with zip := v }
  | .kid, .s v => some { h with kid := v }
  | .typ, .s v => some { h with typ := v }
  | .cty, .s v => some { h with cty := v }
  | .jku, .url v => some { h with jku := v }
  | .x5u, .url v => some { h with x5u := v }
  | .jwk, .key v => some { h with jwk := v }
  | .epk, .key v => some { h with epk := v }
  | .x5c, .certs v => some { h with x5c := v }
  | .x5t, .bytes v => some { h with x5t := v }
  | .x5tS256, .bytes v => some { h with x5tS256 := v }
  | .apu, .bytes v => some { h with apu := v }
  | .apv, .bytes v => some { h with apv := v }
  | .iv, .bytes v => some { h with iv := v }
  | .tag, .bytes v => some { h with tag := v }
  | .p2s, .bytes v => some { h with p2s := v }
  | .crit, .strs v => some { h with crit := v }
  | .nb64, .flag v => some { h with nb64 := v }
  | .p2c, .int v => some { h with p2c := v }
  | _, _ => none

/-! ### Go map as association list -/

/-- `m[k] = v` -/
def objSet (k : String) (v : Wire) : List (String × Wire) → List (String × Wire)
  | [] => [(k, v)]
  | (k', v') :: rest => if k == k' then (k, v) :: rest else (k', v') :: objSet k v rest

/-! ### helpers: structural recursion in PO -/

def mapPO {α β} (f : α → PO β) : List α → PO (List β)
  | [] => pure []
  | a :: as => do
    let b ← f a
    let bs ← mapPO f as
    pure (b :: bs)

/-! ### encodeHeader -/

def b64urlEnc (b : Bytes) : PO Wire := PO.query "c11.b64url.enc" [.bytes b]
def b64stdEnc (b : Bytes) : PO Wire := PO.query "c11.b64std.enc" [.bytes b]

/-- `len(h.aux) > 0` then `h.aux[0].Raw` -/
def firstCert : Option FVal → Option Bytes
  | some (.certs (some (c :: _))) => some c
  | _ => none

/-- the value one encoder row writes (`none`: the row writes nothing for this header) -/
def emit (h : Header) (r : Row) : PO (Option Wire) :=
  match Fld.ofString r.field with
  | none => PO.panic "c11.table.field"
  | some f =>
    match r.kind, h.get f with
    | .str, .s v => pure (if v = "" then none else some (.str v))
    | .url, .url v => pure (v.map Wire.str)
    | .jwk, .key none => pure none
    | .jwk, .key (some k) => do
        let w ← PO.query "c11.jwk.marshal" [k]
        if w.isNone then PO.fail "jwk" else pure (some w)
    | .certs, .certs none => pure none
    | .certs, .certs (some l) => do
        let ss ← mapPO b64stdEnc l
        pure (some (.arr ss))
    | .bytes, .bytes none => pure none
    | .bytes, .bytes (some b) => do
        let s ← b64urlEnc b
        pure (some s)
    | .thumb _, .bytes (some b) => do
        let s ← b64urlEnc b
        pure (some s)
    | .thumb hash, .bytes none =>
        match firstCert ((Fld.ofString r.aux).map h.get) with
        | some c => do
            let d ← PO.query "hash" [.str hash, .bytes c]
            let s ← b64urlEnc d.asBytes
            pure (some s)
        | none => pure none
    | .strs, .strs l => pure (if l.isEmpty then none else some (.arr (l.map Wire.str)))
    | .nb64, .flag v => pure (if v then some (.bool false) else none)
    | .int, .int n => pure (if n = 0 then none else some (.num (toString n)))
    | _, _ => PO.panic "c11.table.kind"

/-- the `if … { e.Set(name, …) }` sequence of encodeHeader, in table order -/
def encodeRows (h : Header) : List Row → List (String × Wire) → PO (List (String × Wire))
  | [], obj => pure obj
  | r :: rs, obj => do
    let v ← emit h r
    match v with
    | some v => encodeRows h rs (objSet r.key v obj)
    | none => encodeRows h rs obj

def encodeWith (rows : List Row) (h : Header) : PO (List (String × Wire)) :=
  encodeRows h rows h.raw

/-- jws.encodeHeader (non-nil header) -/
def jwsEncodeHeader (h : Header) : PO Wire := do
  let obj ← encodeWith Gen.HeaderTables.jws.encRows h
  pure (.obj obj)

/-- jwe.encodeHeader -/
def jweEncodeHeader (h : Header) : PO Wire := do
  let obj ← encodeWith Gen.HeaderTables.jwe.encRows h
  pure (.obj obj)

/-! ### decodeHeader -/

def strList : List Wire → Option (List String)
  | [] => some []
  | .str s :: rest => (strList rest).map (s :: ·)
  | _ :: _ => none

/-- the x5c loop: StdEncoding.DecodeString, x509.ParseCertificate, `if cert0 == nil { cert0 = der }` -/
def readCerts : List String → Option Bytes → PO (List Bytes × Option Bytes)
  | [], c0 => pure ([], c0)
  | s :: rest, c0 => do
    let d ← PO.query "c11.b64std.dec" [.str s]
    match d with
    | .bytes der => do
      let ok ← PO.query "c11.x509.parse" [.bytes der]
      if ok.asBool then do
        let c0' := match c0 with
          | none => some der
          | some c => some c
        let r ← readCerts rest c0'
        pure (der :: r.1, r.2)
      else PO.fail "cert"
    | _ => PO.fail "x5c-b64"

/-- Decoder.GetBytes after GetString -/
def readBytes (s : String) : PO Bytes := do
  let d ← PO.query "c11.b64url.dec" [.str s]
  match d with
  | .bytes b => pure b
  | _ => PO.fail "b64"

def maxInt : Int := 9223372036854775807

/-- one getter + the assignment value: `(none, c0)` = member absent, field untouched -/
def readVal (kind : Kind) (v : Option Wire) (cert0 : Option Bytes) : PO (Option FVal × Option Bytes) :=
  match v with
  | none => pure (none, cert0)
  | some w =>
    match kind, w with
    | .str, .str s => pure (some (.s s), cert0)
    | .url, .str s => do
        let u ← PO.query "c11.url.parse" [.str s]
        match u with
        | .str c => pure (some (.url (some c)), cert0)
        | _ => PO.fail "url"
    | .jwk, .obj kvs => do
        let k ← PO.query "c11.jwk.parse" [.obj kvs]
        if k.isNone then PO.fail "jwk" else pure (some (.key (some k)), cert0)
    | .certs, .arr l =>
        match strList l with
        | none => PO.fail "type"
        | some ss => do
            let r ← readCerts ss cert0
            pure (some (.certs (if r.1.isEmpty then none else some r.1)), r.2)
    | .bytes, .str s => do
        let b ← readBytes s
        pure (some (.bytes (some b)), cert0)
    | .thumb hash, .str s => do
        let b ← readBytes s
        match cert0 with
        | none => pure (some (.bytes (some b)), cert0)
        | some c => do
            let d ← PO.query "hash" [.str hash, .bytes c]
            if d.asBytes = b then pure (some (.bytes (some b)), cert0) else PO.fail "thumbprint"
    | .strs, .arr l =>
        match strList l with
        | none => PO.fail "type"
        | some ss => pure (some (.strs ss), cert0)
    | .nb64, .bool b => pure (some (.flag (!b)), cert0)
    | .int, .num n => do
        let i ← PO.query "c11.num.int64" [.num n]
        match i with
        | .int i => if i < 0 ∨ i > maxInt then PO.fail "p2c-range" else pure (some (.int i), cert0)
        | _ => PO.fail "int"
    | _, _ => PO.fail "type"

abbrev DecState := Header × Option Bytes

def critOK (known : List String) (crit : List String) : Bool :=
  crit.all (fun p => known.contains p)

def decStep (look : String → Option Wire) (st : DecState) : DecStep → PO DecState
  | .row r =>
    match Fld.ofString r.field with
    | none => PO.panic "c11.table.field"
    | some f => do
      let rv ← readVal r.kind (look r.key) st.2
      match rv.1 with
      | none => pure (st.1, rv.2)
      | some v =>
        match st.1.set f v with
        | some h' => pure (h', rv.2)
        | none => PO.panic "c11.table.kind"
  | .critCheck fld known =>
    match (Fld.ofString fld).map st.1.get with
    | some (.strs l) => if critOK known l then pure st else PO.fail "crit"
    | _ => PO.panic "c11.table.crit"

def decSteps (look : String → Option Wire) : List DecStep → DecState → PO DecState
  | [], st => pure st
  | s :: rest, st => do
    let st' ← decStep look st s
    decSteps look rest st'

/-- decodeHeader(raw): the fields depend on `raw` only through lookups; `Raw` is `raw` itself -/
def decodeWith (steps : List DecStep) (obj : List (String × Wire)) : PO Header := do
  let st ← decSteps (fun k => Wire.lookup k obj) steps (Header.zero, none)
  pure { st.1 with raw := obj }

def jwsDecodeHeader (obj : List (String × Wire)) : PO Header :=
  decodeWith Gen.HeaderTables.jws.decSteps obj

def jweDecodeHeader (obj : List (String × Wire)) : PO Header :=
  decodeWith Gen.HeaderTables.jwe.decSteps obj

/-- json.Decoder(UseNumber).Decode(&raw) with `raw map[string]any`, then decodeHeader(raw)
    (Header.UnmarshalJSON; JSON `null` leaves/sets a nil map, which decodes to the zero header) -/
def unmarshalWith (steps : List DecStep) (data : Bytes) : PO Header := do
  let raw ← PO.query "json.decodeMap" [.bytes data]
  match raw with
  | .obj kvs => decodeWith steps kvs
  | .null => decodeWith steps []
  | _ => PO.fail "parse"

def jwsUnmarshalHeader := unmarshalWith Gen.HeaderTables.jws.decSteps
def jweUnmarshalHeader := unmarshalWith Gen.HeaderTables.jwe.decSteps

/-- Header.MarshalJSON: encodeHeader then json.Marshal -/
def marshalObj (obj : Wire) : PO Bytes := do
  let b ← PO.query "json.marshal" [obj]
  match b with
  | .bytes d => pure d
  | _ => PO.fail "json"

/-! ### jws setters with logic -/

def dedup : List String → List String → List String
  | [], acc => acc.reverse
  | x :: xs, acc => if acc.contains x then dedup xs acc else dedup xs (x :: acc)

def insertSorted (x : String) : List String → List String
  | [] => [x]
  | y :: ys => if x < y then x :: y :: ys else y :: insertSorted x ys

def sortStrings (l : List String) : List String := l.foldr insertSorted []

def Fld.name : Fld → String
  | .alg => "alg" | .enc => "enc" | .zip => "zip" | .jku => "jku" | .jwk => "jwk" | .kid => "kid"
  | .x5u => "x5u" | .x5c => "x5c" | .x5t => "x5t" | .x5tS256 => "x5tS256" | .typ => "typ" | .cty => "cty"
  | .crit => "crit" | .nb64 => "nb64" | .epk => "epk" | .apu => "apu" | .apv => "apv" | .iv => "iv"
  | .tag => "tag" | .p2s => "p2s" | .p2c => "p2c"

/-- `delete(h.Raw, name)` for each name -/
def dropKeys (keys : List String) (raw : List (String × Wire)) : List (String × Wire) :=
  raw.filter (fun kv => !keys.contains kv.1)

/-- the member names a setter deletes from `Raw` (regenerated table `setterDeletes`) -/
def deletesOf (tbl : List (String × List String)) (setter : String) : List String :=
  match tbl.find? (fun e => e.1 == setter) with
  | some e => e.2
  | none => []

/-- the plain setter of a field: the one that assigns exactly that field (regenerated table `setters`) -/
def plainSetter (setters : List (String × List String)) (f : Fld) : String :=
  match setters.find? (fun e => e.2 == [f.name]) with
  | some e => e.1
  | none => ""

/-- jws (*Header).SetCritical: drops the decoded member from Raw, drops repeated names, sort.Strings -/
def jwsSetCritical (h : Header) (crit : List String) : Header :=
  { h with crit := sortStrings (dedup crit []),
           raw := dropKeys (deletesOf Gen.HeaderTables.jws.setterDeletes "SetCritical") h.raw }

/-- jws (*Header).SetBase64: stores !b64 and appends "b64" to crit when b64 = false -/
def jwsSetBase64 (h : Header) (b64 : Bool) : Header :=
  let h1 := { h with nb64 := !b64, raw := dropKeys (deletesOf Gen.HeaderTables.jws.setterDeletes "SetBase64") h.raw }
  if !b64 then
    if h1.crit.contains "b64" then h1 else { h1 with crit := h1.crit ++ ["b64"] }
  else h1

end Model.Header
