/-
Operation sequences of the POINT level (docs/PTOPS.md).

`translator/opseq.go` walks the bodies of the straight-line point functions of
internal/edwards448/edwards448.go, internal/curve256k1/curve256k1.go and the ladder of
x448/x448.go with go/ast and emits, per function, a `PtOps.Fn`: the list of field-method calls in
the order of the Go text (`Instr` = operation, destination variables, operand variables), the
variable table, the inputs/outputs, the whitelisted guard calls, and the alias-hazard list.

This file holds the instruction type and a tiny interpreter `runOps`, parameterised over the field
operations (`FieldOps`), so that the hand-written point models (`Model.Ed448Pt`, `Model.K1Pt`,
`Model.X448`) can be PROVED equal to the regenerated sequences (`GoatProofs.C16PtOps`,
`GoatProofs.C15PtOps`, `GoatProofs.C14StepOps`).

Variables are numbered (`Fn.vars` gives the Go names, position = number): inputs first, then the
temporaries in order of declaration.  One number space for field elements and Go `int`s; the
operation decides which of the two environments an operand is read from.

Core Lean only; imports nothing.
-/
namespace PtOps

/-- the operations: methods of `field.Element` and the Go `int` operators met in the covered bodies -/
inductive Op where
  -- field-valued: `dst.Op(&a, &b)`, `dst.Op(&a)`, `dst.Op()`
  | add | sub | mul            -- dst := a ∘ b
  | square | neg | inv | set   -- dst := f a            (`Negate` / `Neg` are both `neg`)
  | one | zero                 -- dst := 1 / 0
  | mul32                      -- dst := a * (uint32) c            args [a, c]   (c an int variable)
  | select                     -- dst := cond ? a : b              args [a, b, cond]
  | swap                       -- `v.Swap(&u, cond)`: dst [v, u]   args [v, u, cond]
  -- int-valued methods
  | isZero | isNegative        -- dst := a.IsZero()                args [a]
  | equal                      -- dst := a.Equal(&b)               args [a, b]
  -- Go `int` expressions (flattened into three-address form by the translator)
  | iconst (v : Int)           -- dst := literal
  | icopy                      -- dst := a
  | iand | ior | ixor          -- dst := a & b,  a | b,  a ^ b
  | inot                       -- dst := ^a
  | ieq                        -- dst := (a == b) as 0/1
deriving DecidableEq, Repr

structure Instr where
  op : Op
  dst : List Nat
  args : List Nat
deriving DecidableEq, Repr

/-- one covered Go function (or statement range), as regenerated from the source -/
structure Fn where
  /-- Go name, e.g. "Point.Add" -/
  name : String
  /-- variable table: Go names (struct fields flattened: "p.x"; inlined callee locals "Callee#n.x";
      expression temporaries "%n"); position = variable number -/
  vars : List String
  /-- numbers of the variables that are Go `int`s (the others are field elements) -/
  intVars : List Nat
  /-- the first `inputs.length` variables: leaves of receiver and parameters in declaration order,
      then the package-level constants read (feD, feOne, …), then opaque int inputs -/
  inputs : List String
  /-- names and numbers of the result variables -/
  outputs : List String
  outIds : List Nat
  body : List Instr
  /-- whitelisted guard calls, in order: (callee, argument names) -/
  guards : List (String × List String)
  /-- further recorded facts: (key, text), e.g. ("loop", "for t := 447; t >= 0; t--") -/
  facts : List (String × String)
  /-- alias hazards: a read of X (or a second write) after a write to Y where X and Y are the same
      field of two different pointer parameters of the same type; [] ⇒ the functional reading of
      the sequence is valid for every aliasing of receiver and arguments -/
  hazards : List String
deriving Repr

/-- the field (and Go-`int`) operations an instantiation supplies -/
structure FieldOps (F : Type) where
  add : F → F → F
  sub : F → F → F
  mul : F → F → F
  square : F → F
  neg : F → F
  inv : F → F
  set : F → F
  one : F
  zero : F
  mul32 : F → Int → F
  select : F → F → Int → F
  swap : F → F → Int → F × F
  isZero : F → Int
  isNegative : F → Int
  equal : F → F → Int
  iand : Int → Int → Int
  ior : Int → Int → Int
  ixor : Int → Int → Int
  inot : Int → Int

structure Env (F : Type) where
  fe : Nat → F
  int : Nat → Int

namespace Env
variable {F : Type}

def empty (dflt : F) : Env F := ⟨fun _ => dflt, fun _ => 0⟩

def setFe (e : Env F) (i : Nat) (v : F) : Env F :=
  ⟨fun j => cond (Nat.beq j i) v (e.fe j), e.int⟩

def setInt (e : Env F) (i : Nat) (v : Int) : Env F :=
  ⟨e.fe, fun j => cond (Nat.beq j i) v (e.int j)⟩

/-- bind the variables `start, start+1, …` to the given field elements -/
def load (e : Env F) : Nat → List F → Env F
  | _, [] => e
  | start, x :: xs => load (e.setFe start x) (start + 1) xs

end Env

/-- Go `==` on ints as 0/1 -/
def ieq (a b : Int) : Int := if a = b then 1 else 0

/-- one instruction; an ill-shaped instruction (wrong number of destinations / operands) leaves the
    environment unchanged — `Fn.wf` rules that out for the generated data -/
def step {F : Type} (O : FieldOps F) (e : Env F) (i : Instr) : Env F :=
  match i.op, i.dst, i.args with
  | .add, [d], [a, b] => e.setFe d (O.add (e.fe a) (e.fe b))
  | .sub, [d], [a, b] => e.setFe d (O.sub (e.fe a) (e.fe b))
  | .mul, [d], [a, b] => e.setFe d (O.mul (e.fe a) (e.fe b))
  | .square, [d], [a] => e.setFe d (O.square (e.fe a))
  | .neg, [d], [a] => e.setFe d (O.neg (e.fe a))
  | .inv, [d], [a] => e.setFe d (O.inv (e.fe a))
  | .set, [d], [a] => e.setFe d (O.set (e.fe a))
  | .one, [d], [] => e.setFe d O.one
  | .zero, [d], [] => e.setFe d O.zero
  | .mul32, [d], [a, c] => e.setFe d (O.mul32 (e.fe a) (e.int c))
  | .select, [d], [a, b, c] => e.setFe d (O.select (e.fe a) (e.fe b) (e.int c))
  | .swap, [d1, d2], [a, b, c] =>
      (e.setFe d1 (O.swap (e.fe a) (e.fe b) (e.int c)).1).setFe d2 (O.swap (e.fe a) (e.fe b) (e.int c)).2
  | .isZero, [d], [a] => e.setInt d (O.isZero (e.fe a))
  | .isNegative, [d], [a] => e.setInt d (O.isNegative (e.fe a))
  | .equal, [d], [a, b] => e.setInt d (O.equal (e.fe a) (e.fe b))
  | .iconst v, [d], [] => e.setInt d v
  | .icopy, [d], [a] => e.setInt d (e.int a)
  | .iand, [d], [a, b] => e.setInt d (O.iand (e.int a) (e.int b))
  | .ior, [d], [a, b] => e.setInt d (O.ior (e.int a) (e.int b))
  | .ixor, [d], [a, b] => e.setInt d (O.ixor (e.int a) (e.int b))
  | .inot, [d], [a] => e.setInt d (O.inot (e.int a))
  | .ieq, [d], [a, b] => e.setInt d (ieq (e.int a) (e.int b))
  | _, _, _ => e

/-- run an operation sequence -/
def runOps {F : Type} (O : FieldOps F) (e : Env F) : List Instr → Env F
  | [] => e
  | i :: is => runOps O (step O e i) is

/-! ### well-formedness of generated data (decided by evaluation in the proof modules) -/

/-- (number of destinations, kinds of destinations, kinds of operands); `true` = int variable -/
def Op.shape : Op → List Bool × List Bool
  | .add | .sub | .mul => ([false], [false, false])
  | .square | .neg | .inv | .set => ([false], [false])
  | .one | .zero => ([false], [])
  | .mul32 => ([false], [false, true])
  | .select => ([false], [false, false, true])
  | .swap => ([false, false], [false, false, true])
  | .isZero | .isNegative => ([true], [false])
  | .equal => ([true], [false, false])
  | .iconst _ => ([true], [])
  | .icopy | .inot => ([true], [true])
  | .iand | .ior | .ixor | .ieq => ([true], [true, true])

def natElem (i : Nat) : List Nat → Bool
  | [] => false
  | j :: js => Nat.beq i j || natElem i js

/-- every instruction has the shape of its operation, refers to declared variables only, and uses
    each variable with its declared kind -/
def Instr.wf (nVars : Nat) (ints : List Nat) (i : Instr) : Bool :=
  let kindsOk := fun (ids : List Nat) (ks : List Bool) =>
    Nat.beq ids.length ks.length &&
    (ids.zip ks).all fun (v, k) => Nat.blt v nVars && (natElem v ints == k)
  kindsOk i.dst i.op.shape.1 && kindsOk i.args i.op.shape.2

def Fn.wf (f : Fn) : Bool :=
  f.body.all (Instr.wf f.vars.length f.intVars) &&
  Nat.ble f.inputs.length f.vars.length &&
  Nat.beq f.outputs.length f.outIds.length &&
  f.outIds.all (fun v => Nat.blt v f.vars.length) &&
  f.intVars.all (fun v => Nat.blt v f.vars.length)

/-- the operations a sequence uses (to state that an instantiation's dummy fields are never reached) -/
def Fn.usesOp (f : Fn) (p : Op → Bool) : Bool := f.body.any fun i => p i.op


/-! ## Structured form: POINT-level statements with constant-bound loops

The table constructors / lookups and the scalar multiplications are loops whose bodies are calls of
POINT methods (`points[i].Set(v.Add(&points[i-1], p))`).  `translator/opstmt.go` regenerates them as a
`Stmt` tree: calls on PLACES (a point variable or an element `arr[i]` of an array of points with an
`IExpr` index), int assignments, and `for v := lo; v < hi; v += step` with CONSTANT bounds.
`runStmt` interprets a tree over abstract point operations (`PointOps C`); arrays are functions
`Nat → C` (the Go arrays have fixed length and the translator checks every constant-bound index
against it). -/

/-- Go `int` expressions of the structured form -/
inductive IExpr where
  | lit (v : Int)
  | var (id : Nat)
  | add (a b : IExpr)
  | sub (a b : IExpr)
  | mul (a b : IExpr)
  | div (a b : IExpr)          -- Go `/`: truncated division
  | shr (a : IExpr) (k : Nat)  -- `a >> k` on a non-negative value: a / 2^k
  | band (a : IExpr) (m : Nat) -- `a & m` on a non-negative value, m = 2^j - 1 (checked by the translator): a % (m+1)
  | ctEq (a b : IExpr)         -- subtle.ConstantTimeByteEq(a, b)
  | aget (arr : Nat) (i : IExpr) -- element of an (opaque) array of ints: `digits[i]`, `s[i]`
  | negI8 (a : IExpr)          -- `-a` on an int8 value: two's-complement wrap ((-a + 128) mod 256 - 128)
  | lt (a b : IExpr)           -- condition `a < b` (`x > 0` = lt 0 x): 1 / 0
deriving Repr

/-- a point-valued location -/
inductive Place where
  | pt (id : Nat)
  | elem (arr : Nat) (i : IExpr)
deriving Repr

/-- methods of the point types (and the two constructors) -/
inductive POp where
  | set | zero | add | double | neg | sub | select | condNeg | fromAffine
  | newGenerator | newIdentity
deriving DecidableEq, Repr

/-- table types whose methods are kept ATOMIC in the scalar multiplications -/
inductive TOp where
  | lookup | naf5 | naf8
deriving DecidableEq, Repr

inductive Stmt where
  | skip
  | seq (a b : Stmt)
  /-- `dst.Op(args…, iargs…)` -/
  | call (op : POp) (dst : Place) (args : List Place) (iargs : List IExpr)
  /-- int variable := expression -/
  | assign (dst : Nat) (e : IExpr)
  /-- `for v := lo; v < hi; v += step { body }`, constant bounds, step > 0 -/
  | forLt (v : Nat) (lo hi : Int) (step : Nat) (body : Stmt)
  /-- `for v := hi; v >= lo; v-- { body }`, constant bounds -/
  | forDown (v : Nat) (hi lo : Int) (body : Stmt)
  /-- `table.Init(src)` kept atomic: the `n` entries of the table at `arr[off …]` := `tblInit op src k` -/
  | tinit (op : TOp) (arr : Nat) (off : IExpr) (n : Nat) (src : Place)
  /-- `table.SelectInto(dst, x)` kept atomic: dst := `tblSelect op arr off x` (the table at arr[off …]) -/
  | tselect (op : TOp) (dst : Place) (arr : Nat) (off : IExpr) (x : IExpr)
  /-- `if c { a } else { b }` (c a condition, `IExpr.lt`: 1 / 0; the then-branch iff c > 0) -/
  | ite (c : IExpr) (a b : Stmt)
deriving Repr

/-- `.block [s₁, …, sₙ]` = s₁; …; sₙ -/
def Stmt.block : List Stmt → Stmt
  | [] => .skip
  | s :: ss => .seq s (Stmt.block ss)

structure PointOps (C : Type) where
  set : C → C
  zero : C
  add : C → C → C
  double : C → C
  neg : C → C
  sub : C → C → C
  select : C → C → Int → C
  condNeg : C → Int → C
  fromAffine : C → C
  newGenerator : C
  newIdentity : C
  ctEq : Int → Int → Int
  /-- entry `k` of the table `T.Init(p)` builds -/
  tblInit : TOp → C → Nat → C
  /-- `T.SelectInto(·, x)` on the table that starts at offset `off` of the given array -/
  tblSelect : TOp → (Nat → C) → Nat → Int → C

structure PEnv (C : Type) where
  pts : Nat → C
  arrs : Nat → Nat → C
  ints : Nat → Int
  iarrs : Nat → Nat → Int

namespace PEnv
variable {C : Type}
def setPt (e : PEnv C) (i : Nat) (v : C) : PEnv C :=
  ⟨fun j => cond (Nat.beq j i) v (e.pts j), e.arrs, e.ints, e.iarrs⟩
def setElem (e : PEnv C) (a k : Nat) (v : C) : PEnv C :=
  ⟨e.pts, fun b => cond (Nat.beq b a) (fun j => cond (Nat.beq j k) v (e.arrs a j)) (e.arrs b), e.ints, e.iarrs⟩
def setInt (e : PEnv C) (i : Nat) (v : Int) : PEnv C :=
  ⟨e.pts, e.arrs, fun j => cond (Nat.beq j i) v (e.ints j), e.iarrs⟩
/-- the table at `a[off …]` := `f 0, f 1, …` (n entries) -/
def setTable (e : PEnv C) (a off n : Nat) (f : Nat → C) : PEnv C :=
  ⟨e.pts, fun b => cond (Nat.beq b a)
      (fun j => cond (Nat.ble off j && Nat.blt j (off + n)) (f (j - off)) (e.arrs a j)) (e.arrs b), e.ints, e.iarrs⟩
end PEnv

/-- `0 < x`, by the constructors of `Int` (so that it evaluates on `Int.ofNat (n+1)` / `Int.negSucc n`
    with a symbolic `n`; `C16MulOps.intPos_iff`) -/
def intPos : Int → Bool
  | .ofNat (_ + 1) => true
  | _ => false

def IExpr.eval {C : Type} (O : PointOps C) (e : PEnv C) : IExpr → Int
  | .lit v => v
  | .var i => e.ints i
  | .add a b => a.eval O e + b.eval O e
  | .sub a b => a.eval O e - b.eval O e
  | .mul a b => a.eval O e * b.eval O e
  | .div a b => Int.tdiv (a.eval O e) (b.eval O e)
  | .shr a k => Int.ofNat ((a.eval O e).toNat / 2 ^ k)
  | .band a m => Int.ofNat ((a.eval O e).toNat % (m + 1))
  | .ctEq a b => O.ctEq (a.eval O e) (b.eval O e)
  | .aget arr i => e.iarrs arr (i.eval O e).toNat
  | .negI8 a => (-(a.eval O e) + 128) % 256 - 128
  | .lt a b => cond (intPos (b.eval O e - a.eval O e)) 1 0

def Place.read {C : Type} (O : PointOps C) (e : PEnv C) : Place → C
  | .pt i => e.pts i
  | .elem a i => e.arrs a (i.eval O e).toNat

def Place.write {C : Type} (O : PointOps C) (e : PEnv C) (v : C) : Place → PEnv C
  | .pt i => e.setPt i v
  | .elem a i => e.setElem a (i.eval O e).toNat v

/-- the value a call stores into its destination; an ill-shaped call stores the old value -/
def callValue {C : Type} (O : PointOps C) (e : PEnv C) (op : POp) (dst : Place) (args : List Place)
    (iargs : List IExpr) : C :=
  match op, args, iargs with
  | .set, [a], [] => O.set (a.read O e)
  | .zero, [], [] => O.zero
  | .add, [a, b], [] => O.add (a.read O e) (b.read O e)
  | .double, [a], [] => O.double (a.read O e)
  | .neg, [a], [] => O.neg (a.read O e)
  | .sub, [a, b], [] => O.sub (a.read O e) (b.read O e)
  | .select, [a, b], [c] => O.select (a.read O e) (b.read O e) (c.eval O e)
  | .condNeg, [], [c] => O.condNeg (dst.read O e) (c.eval O e)
  | .fromAffine, [a], [] => O.fromAffine (a.read O e)
  | .newGenerator, [], [] => O.newGenerator
  | .newIdentity, [], [] => O.newIdentity
  | _, _, _ => dst.read O e

/-- `n` iterations of `f k` for k = 0 … n-1 -/
def iterate {α : Type} (f : Nat → α → α) : Nat → Nat → α → α
  | 0, _, x => x
  | n + 1, k, x => iterate f n (k + 1) (f k x)

/-- number of iterations of `for v := lo; v < hi; v += step` -/
def tripCount (lo hi : Int) (step : Nat) : Nat :=
  if step = 0 then 0 else ((hi - lo + (step : Int) - 1) / (step : Int)).toNat

def runStmt {C : Type} (O : PointOps C) : Stmt → PEnv C → PEnv C
  | .skip, e => e
  | .seq a b, e => runStmt O b (runStmt O a e)
  | .call op dst args iargs, e => dst.write O e (callValue O e op dst args iargs)
  | .assign d x, e => e.setInt d (x.eval O e)
  | .forLt v lo hi step body, e =>
      iterate (fun k e' => runStmt O body (e'.setInt v (lo + (k : Int) * (step : Int)))) (tripCount lo hi step) 0 e
  | .forDown v hi lo body, e =>
      iterate (fun k e' => runStmt O body (e'.setInt v (hi - (k : Int)))) (hi - lo + 1).toNat 0 e
  | .tinit op arr off n src, e => e.setTable arr (off.eval O e).toNat n (O.tblInit op (src.read O e))
  | .tselect op dst arr off x, e =>
      dst.write O e (O.tblSelect op (e.arrs arr) (off.eval O e).toNat (x.eval O e))
  | .ite c a b, e => cond (intPos (c.eval O e)) (runStmt O a e) (runStmt O b e)

/-- one regenerated function in structured form -/
structure SFn where
  name : String
  /-- variable table (position = number); kinds: "pt", "arr <len>", "int" -/
  vars : List (String × String)
  /-- inputs: receiver, parameters, package-level tables, opaque ints — by name -/
  inputs : List String
  outputs : List String
  body : Stmt
  /-- `if cond { panic }` guards and whitelisted guard calls, in order -/
  guards : List (String × List String)
  facts : List (String × String)
  /-- calls whose destination is (an element of) a parameter other than the receiver -/
  paramWrites : List String
  /-- reads of a parameter after a write to another parameter it may alias (same point type) -/
  hazards : List String
deriving Repr

end PtOps
