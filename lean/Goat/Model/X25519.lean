import Goat.Base.Prog
/-
x25519/x25519.go is a thin wrapper around crypto/ecdh (see `Gen.X25519`, the call lists extracted from
the source on every run): every function hands its arguments to the standard library and returns the
answer.  The standard library is an oracle:

  x25519 [scalar, point]     = ecdh.X25519().NewPrivateKey(scalar) → NewPublicKey(point) → priv.ECDH(pub)
                               (bytes on success, none on any error)
  x25519.pub [seed]          = NewPrivateKey(seed).PublicKey().Bytes()  (none on error)
-/
namespace Model.X25519

/-- `X25519(scalar, point)` -/
def x25519 (scalar point : Bytes) : PO Bytes := do
  let r ← PO.query "x25519" [.bytes scalar, .bytes point]
  match r with
  | .bytes out => pure out
  | _ => PO.fail "ecdh"

/-- `NewKeyFromSeed(seed)`: `panic(err)` when crypto/ecdh rejects the seed; private = seed ‖ public -/
def newKeyFromSeed (seed : Bytes) : PO Bytes := do
  let r ← PO.query "x25519.pub" [.bytes seed]
  match r with
  | .bytes pub => pure (seed ++ pub)
  | _ => PO.panic "x25519: NewKeyFromSeed: crypto/ecdh rejected the seed"

/-- `priv.Public()` -/
def publicOf (priv : Bytes) : Bytes := priv.drop 32

end Model.X25519
