import Goat.Model.JWT
import Goat.Model.JWTClaims
/-
C02 — the assembled JWT round trip: `Model.JWT.signWith` / `parseWith` (header, base64url, signature:
this property) instantiated with the real claims codec and validation step
`Model.JWTClaims.encodeClaims` / `parseClaims` (properties C10 and C04, files owned by them and only
imported here).
-/
namespace Model.JWT
open Model.JWS Model.JWTClaims

/-- `jwt.Sign(header, claims, key)` with the real claims encoder -/
def signFull (header : Header) (c : Claims) (key : Sig.SigningKey) : PO Bytes :=
  signWith (encodeClaims c) header key

/-- `Parser.Parse` with the real claims step (JSON decoding, issuer/audience verifiers, exp/nbf
    against the clock, NumericDate codec) -/
def parseFull (cfg : Cfg) (data : Bytes) : PO (Header × Claims) := parseWith parseClaims cfg data

end Model.JWT
