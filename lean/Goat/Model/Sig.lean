import Goat.Base.Prog
import Goat.Gen.Consts
/-
C01/C02 — the goat-side logic of the signature algorithms (`NewSigningKey`, `Verify`, `Sign`) around
the cryptographic primitive, the primitive itself being an oracle query.

Sources mirrored (pinned tree):
  sig/sig.go                 invalidKey / errKey                       → `SigningKey.invalid`, `.errKey`
  jwa/hs/hs.go:122-175       NewSigningKey / Sign / Verify             → `newHS`, `signKey`/`verifyKey` case `.hs`
  jwa/rs/rs.go:123-184       NewSigningKey / Sign / Verify             → `newRSA false`, case `.rsa false`
  jwa/ps/ps.go:118-179       NewSigningKey / Sign / Verify             → `newRSA true`,  case `.rsa true`
  jwa/es/es.go:88-178        NewSigningKey / Sign / Verify             → `newES`, case `.es`
  jwa/eddsa/eddsa.go:24-123  NewSigningKey / Sign / Verify (both curves) → `newEdDSA`, cases `.ed25519`, `.ed448`
  jwa/none/none.go:31-49     NewSigningKey / Sign / Verify             → `newNone`, case `.none`
  jwa/jwa.go:86-126          SignatureAlgorithm.New / Available        → `Alg.ofName?`

Oracles (the standard library; names in docs/C01.md):
  hmac [str hash, bytes key, bytes msg] → bytes            crypto/hmac
  hash [str hash, bytes msg] → bytes                       crypto/sha256, crypto/sha512
  c01.rsa.verifyPKCS1v15 [bytes n, bytes e, str hash, bytes digest, bytes sig] → bool
  c01.rsa.verifyPSS      [bytes n, bytes e, str hash, bytes digest, bytes sig] → bool
  c01.ecdsa.verify [str crv, bytes x, bytes y, bytes digest, bytes r, bytes s] → bool
        (r, s = the two fixed-width halves; `new(big.Int).SetBytes` is the standard library's)
  c01.ed25519.verify [bytes pub, bytes msg, bytes sig] → bool       crypto/ed25519
  c01.ed448.verify   [bytes pub, bytes msg, bytes sig] → bool       goat/ed448 = property C13; here a primitive
  c02.rsa.signPKCS1v15 / c02.rsa.signPSS [priv id, str hash, bytes digest] → bytes | none
  c02.ecdsa.sign [priv id, str crv, bytes digest] → [int r, int s] | none
  c02.ed25519.sign [bytes priv, bytes msg] → bytes ;  c02.ed448.sign [bytes priv, bytes msg] → bytes

A `sig.Key` (what `NewSigningKey` is given; in practice a `*jwk.Key`) is described by `Key`:
its private and public key *as Go dynamic types with their public data*, and the two booleans
`jwktypes.CanUseFor(key, sign|verify)` (key use / key_ops policy: property C03, an input here).
-/
namespace Model.Sig
open Gen.Consts

/-- `crypto.PrivateKey` by dynamic type.  `id` is an opaque handle for the private-key oracle. -/
inductive Priv where
  | nil
  | oct (secret : Bytes)
  | rsa (n e : Bytes) (id : Wire)
  | ecdsa (crv : String) (x y : Bytes) (id : Wire)
  | ed25519 (k : Bytes)
  | ed448 (k : Bytes)
  | other
deriving Inhabited

/-- `crypto.PublicKey` by dynamic type. -/
inductive Pub where
  | nil
  | rsa (n e : Bytes)
  | ecdsa (crv : String) (x y : Bytes)
  | ed25519 (k : Bytes)
  | ed448 (k : Bytes)
  | other
deriving Inhabited

/-- a `sig.Key` value as seen by `NewSigningKey`.  `isNil`: the interface value itself is nil. -/
structure Key where
  isNil : Bool := false
  priv : Priv := .nil
  pub : Pub := .nil
  canSign : Bool := true
  canVerify : Bool := true
deriving Inhabited

/-- hash functions used by the JOSE signature algorithms (`crypto.Hash`) -/
inductive Hash where
  | sha256 | sha384 | sha512
deriving DecidableEq, Repr, Inhabited

def Hash.name : Hash → String
  | .sha256 => "sha256" | .sha384 => "sha384" | .sha512 => "sha512"

/-- `crypto.Hash.Size()` -/
def Hash.size : Hash → Nat
  | .sha256 => 32 | .sha384 => 48 | .sha512 => 64

/-- the curves of `jwa/es` (`elliptic.P256()`, …, `secp256k1.Curve()`) by name, with
    `(Params().BitSize + 7) / 8` -/
inductive Curve where
  | p256 | p384 | p521 | secp256k1
deriving DecidableEq, Repr, Inhabited

def Curve.name : Curve → String
  | .p256 => jwa.P256 | .p384 => jwa.P384 | .p521 => jwa.P521 | .secp256k1 => jwa.Secp256k1

def Curve.bitSize : Curve → Nat
  | .p256 => 256 | .p384 => 384 | .p521 => 521 | .secp256k1 => 256

/-- es.go:143-144, 161-162: `size := (bits + 7) / 8` -/
def Curve.size (c : Curve) : Nat := (c.bitSize + 7) / 8

/-- the registered signature algorithms (`jwa.signatureAlgorithms` after the `init` functions of
    hs, rs, ps, es, eddsa, none); `weak` variants are the deprecated `New…Weak` constructors -/
inductive Alg where
  | hs (h : Hash) (weak : Bool)
  | rs (h : Hash) (weak : Bool)
  | ps (h : Hash) (weak : Bool)
  | es (h : Hash) (c : Curve)
  | eddsa
  | none
deriving Inhabited

/-- `jwa.SignatureAlgorithm(name).New()` for the 15 registered names; `none` = not `Available()` -/
def Alg.ofName? (s : String) : Option Alg :=
  if s == jwa.HS256 then some (.hs .sha256 false)
  else if s == jwa.HS384 then some (.hs .sha384 false)
  else if s == jwa.HS512 then some (.hs .sha512 false)
  else if s == jwa.RS256 then some (.rs .sha256 false)
  else if s == jwa.RS384 then some (.rs .sha384 false)
  else if s == jwa.RS512 then some (.rs .sha512 false)
  else if s == jwa.PS256 then some (.ps .sha256 false)
  else if s == jwa.PS384 then some (.ps .sha384 false)
  else if s == jwa.PS512 then some (.ps .sha512 false)
  else if s == jwa.ES256 then some (.es .sha256 .p256)
  else if s == jwa.ES384 then some (.es .sha384 .p384)
  else if s == jwa.ES512 then some (.es .sha512 .p521)
  else if s == jwa.ES256K then some (.es .sha256 .secp256k1)
  else if s == jwa.EdDSA then some .eddsa
  else if s == jwa.None then some .none
  else Option.none

/-- what `NewSigningKey` returns: a `sig.SigningKey` -/
inductive SigningKey where
  /-- `sig.NewInvalidKey`: every operation fails -/
  | invalid
  /-- `sig.NewErrorKey`: every operation fails (weak key) -/
  | errKey
  | hs (h : Hash) (secret : Bytes) (canSign canVerify : Bool)
  /-- rs (`pss = false`) and ps (`pss = true`); `priv` = handle of the private key if there is one -/
  | rsa (pss : Bool) (h : Hash) (priv : Option Wire) (n e : Bytes) (canSign canVerify : Bool)
  | es (h : Hash) (c : Curve) (priv : Option Wire) (pub : Option (Bytes × Bytes)) (canSign canVerify : Bool)
  | ed25519 (priv : Option Bytes) (pub : Bytes) (canSign canVerify : Bool)
  | ed448 (priv : Option Bytes) (pub : Bytes) (canSign canVerify : Bool)
  | none
deriving Inhabited

/-! ## NewSigningKey -/

/-- number of significant bits of a big-endian byte string (`big.Int.BitLen` of `SetBytes`) -/
def bitLenByte (b : UInt8) : Nat :=
  if b.toNat ≥ 128 then 8 else if b.toNat ≥ 64 then 7 else if b.toNat ≥ 32 then 6
  else if b.toNat ≥ 16 then 5 else if b.toNat ≥ 8 then 4 else if b.toNat ≥ 4 then 3
  else if b.toNat ≥ 2 then 2 else if b.toNat ≥ 1 then 1 else 0

def bitLenBE : Bytes → Nat
  | [] => 0
  | b :: rest => if b = 0 then bitLenBE rest else bitLenByte b + 8 * rest.length

/-- hs.go:122-144 -/
def newHS (h : Hash) (weak : Bool) (k : Key) : SigningKey :=
  match k.priv with
  | .oct secret =>
    if k.isNil then .invalid                      -- `!ok || key == nil`
    else match k.pub with
      | .nil =>
        if !weak && secret.length < h.size then .errKey
        else .hs h secret k.canSign k.canVerify
      | _ => .invalid                              -- `pub != nil`
  | _ => .invalid

/-- rs.go:123-154, ps.go:118-149 (identical control flow) -/
def newRSA (pss : Bool) (h : Hash) (weak : Bool) (k : Key) : SigningKey :=
  -- private part: `*rsa.PrivateKey` or nil, anything else is invalid
  let privR : Option (Option (Bytes × Bytes × Wire)) :=
    match k.priv with
    | .rsa n e id => some (some (n, e, id))
    | .nil => some Option.none
    | _ => Option.none
  match privR with
  | Option.none => .invalid
  | some priv =>
    -- public part: `*rsa.PublicKey` or nil, anything else is invalid
    let pubR : Option (Option (Bytes × Bytes)) :=
      match k.pub with
      | .rsa n e => some (some (n, e))
      | .nil => some Option.none
      | _ => Option.none
    match pubR with
    | Option.none => .invalid
    | some pub =>
      -- `if k.privateKey != nil && k.publicKey == nil { k.publicKey = &k.privateKey.PublicKey }`
      let pub' : Option (Bytes × Bytes) :=
        match pub, priv with
        | some p, _ => some p
        | Option.none, some (n, e, _) => some (n, e)
        | Option.none, Option.none => Option.none
      match pub' with
      | Option.none => .invalid
      | some (n, e) =>
        if !weak && bitLenBE n < 2048 then .errKey
        else .rsa pss h (priv.map (fun p => p.2.2)) n e k.canSign k.canVerify

def curveOfName? (s : String) : Option Curve :=
  if s == jwa.P256 then some .p256
  else if s == jwa.P384 then some .p384
  else if s == jwa.P521 then some .p521
  else if s == jwa.Secp256k1 then some .secp256k1
  else Option.none

/-- `k.priv.Curve != alg.crv` (interface comparison of curve singletons) -/
def sameCurve (name : String) (c : Curve) : Bool := name == c.name

/-- es.go:88-122.  Note line 104: a non-ECDSA *public* key is refused only when `priv != nil`
    (the code tests `priv`, not `pub`); with `priv == nil` it is silently dropped. -/
def newES (h : Hash) (c : Curve) (k : Key) : SigningKey :=
  let privNonNil : Bool := match k.priv with | .nil => false | _ => true
  let privR : Option (Option (String × Bytes × Bytes × Wire)) :=
    match k.priv with
    | .ecdsa crv x y id => some (some (crv, x, y, id))
    | .nil => some Option.none
    | _ => Option.none
  match privR with
  | Option.none => .invalid
  | some priv =>
    let pubR : Option (Option (String × Bytes × Bytes)) :=
      match k.pub with
      | .ecdsa crv x y => some (some (crv, x, y))
      | _ => if privNonNil then Option.none else some Option.none
    match pubR with
    | Option.none => .invalid
    | some pub =>
      let privBad := match priv with | some (crv, _, _, _) => !sameCurve crv c | Option.none => false
      let pubBad := match pub with | some (crv, _, _) => !sameCurve crv c | Option.none => false
      if privBad then .invalid
      else if pubBad then .invalid
      else
        let pub' : Option (Bytes × Bytes) :=
          match pub, priv with
          | some (_, x, y), _ => some (x, y)
          | Option.none, some (_, x, y, _) => some (x, y)
          | Option.none, Option.none => Option.none
        .es h c (priv.map (fun p => p.2.2.2)) pub' k.canSign k.canVerify

/-- eddsa.go:24-73 -/
def newEdDSA (k : Key) : SigningKey :=
  match k.priv with
  | .ed25519 priv =>
    match k.pub with
    | .ed25519 pub => .ed25519 (some priv) pub k.canSign k.canVerify
    | _ => .invalid
  | .ed448 priv =>
    match k.pub with
    | .ed448 pub => .ed448 (some priv) pub k.canSign k.canVerify
    | _ => .invalid
  | .nil =>
    match k.pub with
    | .ed25519 pub => .ed25519 Option.none pub k.canSign k.canVerify
    | .ed448 pub => .ed448 Option.none pub k.canSign k.canVerify
    | _ => .invalid
  | _ => .invalid

/-- none.go:31-36: only the literal nil key gives a usable key -/
def newNone (k : Key) : SigningKey := if k.isNil then .none else .invalid

/-- `alg.NewSigningKey(key)`.  hs/rs/ps/es/eddsa call `key.PrivateKey()` first: a nil interface
    value panics there. -/
def newSigningKey (a : Alg) (k : Key) : Outcome SigningKey :=
  match a with
  | .none => .ok (newNone k)
  | .hs h w => if k.isNil then .panic "sig.NewSigningKey.nilkey" else .ok (newHS h w k)
  | .rs h w => if k.isNil then .panic "sig.NewSigningKey.nilkey" else .ok (newRSA false h w k)
  | .ps h w => if k.isNil then .panic "sig.NewSigningKey.nilkey" else .ok (newRSA true h w k)
  | .es h c => if k.isNil then .panic "sig.NewSigningKey.nilkey" else .ok (newES h c k)
  | .eddsa => if k.isNil then .panic "sig.NewSigningKey.nilkey" else .ok (newEdDSA k)

/-! ## oracle answers -/

def askBytes (name : String) (args : List Wire) : PO Bytes := do
  match (← PO.query name args) with
  | .bytes b => pure b
  | _ => PO.fail "oracle"

def askBool (name : String) (args : List Wire) : PO Bool := do
  match (← PO.query name args) with
  | .bool b => pure b
  | _ => PO.fail "oracle"

/-! ## Verify -/

/-- `key.Verify(payload, signature)`: `ok ()` iff Go returns a nil error. -/
def verifyKey (k : SigningKey) (payload signature : Bytes) : PO Unit :=
  match k with
  | .invalid => PO.fail "sig-key"
  | .errKey => PO.fail "sig-key"
  | .hs h secret _ canVerify => do
    -- hs.go:162-175: the MAC is computed first, then the usage check, then the comparison
    let sum ← askBytes "hmac" [.str h.name, .bytes secret, .bytes payload]
    if !canVerify then PO.fail "sig-unavailable"
    -- hmac.Equal = subtle.ConstantTimeCompare == 1: equal length and equal content
    else if signature == sum then pure () else PO.fail "sig"
  | .rsa pss h _ n e _ canVerify => do
    if !canVerify then PO.fail "sig-unavailable"
    else
      let digest ← askBytes "hash" [.str h.name, .bytes payload]
      let ok ← askBool (if pss then "c01.rsa.verifyPSS" else "c01.rsa.verifyPKCS1v15")
        [.bytes n, .bytes e, .str h.name, .bytes digest, .bytes signature]
      if ok then pure () else PO.fail "sig"
  | .es h c _ pub _ canVerify =>
    match pub with
    | Option.none => PO.fail "sig-unavailable"
    | some (x, y) => do
      if !canVerify then PO.fail "sig-unavailable"
      -- es.go:163-165: fixed width R‖S
      else if signature.length != 2 * c.size then PO.fail "sig"
      else
        let digest ← askBytes "hash" [.str h.name, .bytes payload]
        let ok ← askBool "c01.ecdsa.verify"
          [.str c.name, .bytes x, .bytes y, .bytes digest,
           .bytes (signature.take c.size), .bytes (signature.drop c.size)]
        if ok then pure () else PO.fail "sig"
  | .ed25519 _ pub _ canVerify => do
    if !canVerify then PO.fail "sig-unavailable"
    -- crypto/ed25519.Verify panics on a public key of the wrong length
    else if pub.length != 32 then PO.panic "ed25519.Verify.publen"
    else
      let ok ← askBool "c01.ed25519.verify" [.bytes pub, .bytes payload, .bytes signature]
      if ok then pure () else PO.fail "sig"
  | .ed448 _ pub _ canVerify => do
    if !canVerify then PO.fail "sig-unavailable"
    -- ed448.go:192-194 panics on a public key of the wrong length
    else if pub.length != 57 then PO.panic "ed448.Verify.publen"
    else
      let ok ← askBool "c01.ed448.verify" [.bytes pub, .bytes payload, .bytes signature]
      if ok then pure () else PO.fail "sig"
  | .none =>
    -- none.go:44-49
    if signature.length != 0 then PO.fail "sig" else pure ()

/-! ## Sign -/

/-- `key.Sign(payload)` -/
def signKey (k : SigningKey) (payload : Bytes) : PO Bytes :=
  match k with
  | .invalid => PO.fail "sig-key"
  | .errKey => PO.fail "sig-key"
  | .hs h secret canSign _ =>
    if !canSign then PO.fail "sig-unavailable"
    else askBytes "hmac" [.str h.name, .bytes secret, .bytes payload]
  | .rsa pss h priv _ _ canSign _ =>
    match priv with
    | Option.none => PO.fail "sig-unavailable"
    | some id => do
      if !canSign then PO.fail "sig-unavailable"
      else
        let digest ← askBytes "hash" [.str h.name, .bytes payload]
        match (← PO.query (if pss then "c02.rsa.signPSS" else "c02.rsa.signPKCS1v15")
                  [id, .str h.name, .bytes digest]) with
        | .bytes s => pure s
        | _ => PO.fail "sign"
  | .es h c priv _ canSign _ =>
    match priv with
    | Option.none => PO.fail "sig-unavailable"
    | some id => do
      if !canSign then PO.fail "sig-unavailable"
      else
        let digest ← askBytes "hash" [.str h.name, .bytes payload]
        match (← PO.query "c02.ecdsa.sign" [id, .str c.name, .bytes digest]) with
        | .arr [.int r, .int s] =>
          -- es.go:146-149: `r.FillBytes(ret[:size])` panics when r does not fit
          if r < 0 ∨ s < 0 then PO.fail "sign"
          else if r.toNat ≥ 256 ^ c.size ∨ s.toNat ≥ 256 ^ c.size then PO.panic "es.Sign.FillBytes"
          else pure (Bytes.encodeBE c.size r.toNat ++ Bytes.encodeBE c.size s.toNat)
        | _ => PO.fail "sign"
  | .ed25519 priv _ canSign _ =>
    -- eddsa.go: `if key.priv == nil || !key.canSign { return nil, sig.ErrSignUnavailable }`
    match priv with
    | Option.none => PO.fail "sig-unavailable"
    | some p =>
      if !canSign then PO.fail "sig-unavailable"
      -- ed25519.Sign panics on a private key of the wrong length
      else if p.length != 64 then PO.panic "ed25519.Sign.privlen"
      else askBytes "c02.ed25519.sign" [.bytes p, .bytes payload]
  | .ed448 priv _ canSign _ =>
    match priv with
    | Option.none => PO.fail "sig-unavailable"
    | some p =>
      if !canSign then PO.fail "sig-unavailable"
      -- ed448.go:151 `privateKey[:SeedSize]` (the length is not otherwise checked)
      else if p.length < 57 then PO.panic "ed448.Sign.privlen"
      else askBytes "c02.ed448.sign" [.bytes p, .bytes payload]
  | .none => pure []

/-! ## wire decoding of key descriptions (driver side and `findKey` answers) -/

def Priv.ofWire (w : Wire) : Priv :=
  let t := ((w.get? "t").getD .none).asStr
  let b (k : String) : Bytes := ((w.get? k).getD .none).asBytes
  let s (k : String) : String := ((w.get? k).getD .none).asStr
  let id : Wire := (w.get? "id").getD .none
  if t == "oct" then .oct (b "k")
  else if t == "rsa" then .rsa (b "n") (b "e") id
  else if t == "ecdsa" then .ecdsa (s "crv") (b "x") (b "y") id
  else if t == "ed25519" then .ed25519 (b "k")
  else if t == "ed448" then .ed448 (b "k")
  else if t == "other" then .other
  else .nil

def Pub.ofWire (w : Wire) : Pub :=
  let t := ((w.get? "t").getD .none).asStr
  let b (k : String) : Bytes := ((w.get? k).getD .none).asBytes
  let s (k : String) : String := ((w.get? k).getD .none).asStr
  if t == "rsa" then .rsa (b "n") (b "e")
  else if t == "ecdsa" then .ecdsa (s "crv") (b "x") (b "y")
  else if t == "ed25519" then .ed25519 (b "k")
  else if t == "ed448" then .ed448 (b "k")
  else if t == "other" then .other
  else .nil

/-- `{"nil":bool,"priv":{…},"pub":{…},"canSign":bool,"canVerify":bool}` -/
def Key.ofWire (w : Wire) : Key :=
  { isNil := ((w.get? "nil").getD .none).asBool
    priv := Priv.ofWire ((w.get? "priv").getD .none)
    pub := Pub.ofWire ((w.get? "pub").getD .none)
    canSign := ((w.get? "canSign").getD .none).asBool
    canVerify := ((w.get? "canVerify").getD .none).asBool }

/-- A key-finder answer: `{"alg": name, "weak": bool, "key": Key}` = `alg.New[Weak]().NewSigningKey(key)`.
    `none` (or an unregistered name) = the finder returned an error. -/
def algOfHandle? (w : Wire) : Option Alg :=
  match Alg.ofName? ((w.get? "alg").getD .none).asStr with
  | Option.none => Option.none
  | some a =>
    let weak := ((w.get? "weak").getD .none).asBool
    some (match a with
      | .hs h _ => .hs h weak
      | .rs h _ => .rs h weak
      | .ps h _ => .ps h weak
      | a => a)

/-- the `sig.SigningKey` a finder answer denotes -/
def signingKeyOfHandle (w : Wire) : Option (Outcome SigningKey) :=
  match algOfHandle? w with
  | Option.none => Option.none
  | some a => some (newSigningKey a (Key.ofWire ((w.get? "key").getD .none)))

end Model.Sig
