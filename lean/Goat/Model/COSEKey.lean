import Goat.Model.JWK
/-
Model.COSEKey — cose.ParseMap (cose/key.go:186-262) with parseEcdsaKey (cose/key.go:265-328) and
the validation functions cose/key.go:331-360 (copies of the jwk ones; modelled by the same
`Model.JWK.validateEcPub` / `validateEcPriv`, which the correspondence run checks for both).

The CBOR map (already decoded by go-cbor with UseAnyKey/UseInteger — an oracle) is a list of
(label, value) pairs with unique labels: integers are `Wire.int` (cbor.Integer, −2^64 … 2^64−1),
text strings `Wire.str`, byte strings `Wire.bytes`; anything else is some other `Wire`.
Labels and curve numbers/names are the regenerated constants `Gen.Consts.cose.*`.
-/
namespace Model.COSEKey
open Gen.Consts
open Model.JWK

abbrev CMap := List (Wire × Wire)

/-- `d.raw[IntegerFromInt64(label)]` -/
def clookup (label : Int) : CMap → Option Wire
  | [] => none
  | (.int i, v) :: t => if i = label then some v else clookup label t
  | _ :: t => clookup label t

/-- `cbor.Integer.Int64()`: error outside the int64 range -/
def int64? (i : Int) : Option Int :=
  if i < -(2 ^ 63) ∨ i ≥ 2 ^ 63 then none else some i

structure Key where
  raw : CMap := []
  kty : Int := 0
  kid : Option Bytes := none
  priv : GoPriv := .none
  pub : GoPub := .none
deriving Inhabited

/-- `parseKeyType` -/
def parseKeyType (s : String) : Option Int :=
  if s == cose.keyTypeOKP then some cose.KeyTypeOKP
  else if s == cose.keyTypeEC2 then some cose.KeyTypeEC2
  else if s == cose.keyTypeRSA then some cose.KeyTypeRSA
  else if s == cose.keyTypeSymmetric then some cose.KeyTypeSymmetric
  else if s == cose.keyTypeHSS_LMS then some cose.KeyTypeHSS_LMS
  else if s == cose.keyTypeWalnutDSA then some cose.KeyTypeWalnutDSA
  else none

/-- `decodeCommonKeyParameters` -/
def decodeCommon (m : CMap) : PO Key := do
  let kty : Int ← match clookup cose.keyLabelKeyType m with
    | some (.int i) =>
      (match int64? i with
       | some v => pure v
       | none => PO.fail "int-overflow")
    | some (.str s) =>
      (match parseKeyType s with
       | some v => pure v
       | none => PO.fail "kty")
    | _ => PO.fail "missing"
  let kid := match clookup cose.keyLabelKeyID m with
    | some (.bytes b) => some b
    | _ => none
  pure { raw := m, kty := kty, kid := kid }

/-- the curve switch of parseEcdsaKey: numbers and names -/
def curveOfInt (i : Int) : Option GoCurve :=
  if i = cose.curveP256 then some .p256
  else if i = cose.curveP384 then some .p384
  else if i = cose.curveP521 then some .p521
  else if i = cose.curveSecp256k1 then some .secp256k1
  else none

def curveOfStr (s : String) : Option GoCurve :=
  if s == cose.curveNameP256 then some .p256
  else if s == cose.curveNameP384 then some .p384
  else if s == cose.curveNameP521 then some .p521
  else if s == cose.curveNameSecp256k1 then some .secp256k1
  else none

def mustBytes (m : CMap) (label : Int) : PO Bytes :=
  match clookup label m with
  | none => PO.fail "missing"
  | some (.bytes b) => pure b
  | some _ => PO.fail "type"

/-- the curve switch: label -1 as integer, else as text, else "missing curve" -/
def parseCurve (m : CMap) : PO GoCurve :=
  match clookup (-1) m with
  | some (.int i) =>
    (match int64? i with
     | some v => pure ((curveOfInt v).getD .other)
     | none => PO.fail "int-overflow")
  | some (.str s) => pure ((curveOfStr s).getD .other)
  | _ => PO.fail "missing"

/-- label -4: validated when it is a byte string, silently ignored otherwise -/
def parsePriv (m : CMap) (pub : EcPub) : PO GoPriv :=
  match clookup (-4) m with
  | some (.bytes dd) => do
    validateEcPriv pub (some (Bytes.decodeBE dd : Int))
    pure (GoPriv.ecdsa pub (some (Bytes.decodeBE dd : Int)))
  | _ => pure GoPriv.none

/-- `parseEcdsaKey` (cose): an unknown curve number/name leaves `curve` nil, which
    validateEcdsaPublicKey then rejects ("curve") — after x and y were fetched -/
def parseEc (m : CMap) (key : Key) : PO Key := do
  let curve ← parseCurve m
  let x ← mustBytes m (-2)
  let y ← mustBytes m (-3)
  let pub : EcPub := ⟨curve, Bytes.decodeBE x, Bytes.decodeBE y⟩
  validateEcPub pub
  let priv ← parsePriv m pub
  pure { key with pub := .ecdsa pub, priv := priv }

/-- `cose.ParseMap` -/
def parseMap (m : CMap) : PO Key := do
  let key ← decodeCommon m
  if key.kty = cose.KeyTypeOKP then PO.fail "not-implemented"
  else if key.kty = cose.KeyTypeEC2 then parseEc m key
  else if key.kty = cose.KeyTypeRSA then PO.fail "not-implemented"
  else if key.kty = cose.KeyTypeSymmetric then PO.fail "not-implemented"
  else if key.kty = cose.KeyTypeHSS_LMS then PO.fail "not-implemented"
  else if key.kty = cose.KeyTypeWalnutDSA then PO.fail "not-implemented"
  else PO.fail "kty"

end Model.COSEKey
