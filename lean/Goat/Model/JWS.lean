import Goat.Base.Prog
import Goat.Gen.Consts
import Goat.Model.Sig
/-
C01/C02 — model of package jws: message representation with the RAW segments kept, the two
parsers, the verifier, and the signing / serialising half.

Sources mirrored (pinned tree):
  jws/jws.go:206-219   Header.UnmarshalJSON            → `unmarshalHeader`
  jws/jws.go:230-243   NewMessage / NewRawMessage      → `newMessage`, `newRawMessage`
  jws/jws.go:263-309   ParseCompact                    → `parseCompact`
  jws/jws.go:311-436   Parse / Message.UnmarshalJSON   → `parseJSON`
  jws/jws.go:438-470   Message.MarshalJSON             → `marshalJSON`
  jws/jws.go:472-561   decodeHeader                    → `decodeHeader`
  jws/jws.go:563-639   encodeHeader                    → `encodeHeader`
  jws/jws.go:642-676   Message.Sign                    → `sign`
  jws/jws.go:679-700   Message.Compact                 → `compact`
  jws/verifier.go:17-35  AllowedAlgorithms / UnsecureAnyAlgorithm → `Cfg.allows`
  jws/verifier.go:46-76  Verify / VerifyContent        → `verify`, `verifyContent`
  jws/verifier.go:78-117 verify (the loop)             → `verifyLoop`, `trySig`
  internal/jsonutils/decode.go  typed getters          → `getString` … `getBytes`

Oracles: b64url.dec/enc, b64std.dec/enc, json.decodeMap, json.marshal, hash (shared);
  c01.url.parse [str] → bool              net/url.Parse succeeds
  c01.x509.parse [bytes der] → bool       crypto/x509.ParseCertificate succeeds
  c01.jwk.parseMap [obj] → bool           jwk.ParseMap succeeds (goat code of properties C08/C09;
                                          an abstract step here: only success/failure is used)
  c01.json.marshalB [value] → bytes       encoding/json.Marshal where `bytes` leaves stand for
                                          Go `string(bytes)` (invalid UTF-8 is coerced by Marshal)
  findKey [protected|null, unprotected|null] → key handle | none     the caller's jws.KeyFinder

`jsonutils.Decoder` records the *first* error and decoding continues; no later step of
`decodeHeader` can panic or has another effect, so the model fails at the first error — the
outcome is the same.  Error classes: "parse" (everything the parsers refuse), "verify"
(`errVerifyFailed`), "config".
-/
namespace Model.JWS
open Gen.Consts

def dot : UInt8 := 0x2e

/-- UTF-8 encoding of one code point -/
def utf8Char (c : Char) : Bytes :=
  let n := c.toNat
  if n < 0x80 then [UInt8.ofNat n]
  else if n < 0x800 then [UInt8.ofNat (0xC0 + n / 64), UInt8.ofNat (0x80 + n % 64)]
  else if n < 0x10000 then
    [UInt8.ofNat (0xE0 + n / 4096), UInt8.ofNat (0x80 + n / 64 % 64), UInt8.ofNat (0x80 + n % 64)]
  else
    [UInt8.ofNat (0xF0 + n / 262144), UInt8.ofNat (0x80 + n / 4096 % 64),
     UInt8.ofNat (0x80 + n / 64 % 64), UInt8.ofNat (0x80 + n % 64)]

/-- Go's `[]byte(s)` for a string decoded by encoding/json (always valid UTF-8): its UTF-8 bytes.
    (Structural, so that concrete examples evaluate in the kernel; `String.toUTF8` does not.) -/
def strBytes (s : String) : Bytes := s.toList.flatMap utf8Char

/-! ## header -/

/-- `jws.Header`: the decoded JSON object (`Raw`) and the typed fields goat extracts from it.
    `jku`/`x5u` keep the URL text, `jwk` the JWK object, `x5c` the DER certificates. -/
structure Header where
  raw : Wire := .obj []
  alg : String := ""
  jku : Option String := none
  jwk : Option Wire := none
  kid : String := ""
  x5u : Option String := none
  x5c : Option (List Bytes) := none
  x5t : Option Bytes := none
  x5tS256 : Option Bytes := none
  typ : String := ""
  cty : String := ""
  crit : List String := []
  nb64 : Bool := false
deriving Inhabited

/-- jws.go:26-38 `knownParams` (the generated constants give the names; the list itself is
    transcribed) -/
def knownParams : List String :=
  [jwa.AlgorithmKey, jwa.JWKSetURLKey, jwa.JSONWebKey, jwa.KeyIDKey, jwa.X509URLKey,
   jwa.X509CertificateChainKey, jwa.X509CertificateSHA1Thumbprint,
   jwa.X509CertificateSHA256Thumbprint, jwa.TypeKey, jwa.CriticalKey,
   jwa.Base64URLEncodePayloadKey]

/-- what the harness sees of a header -/
def Header.toWire (h : Header) : Wire :=
  .obj [("raw", h.raw), ("alg", .str h.alg), ("nb64", .bool h.nb64), ("kid", .str h.kid),
        ("typ", .str h.typ), ("cty", .str h.cty), ("crit", .arr (h.crit.map .str))]

def optHeaderWire : Option Header → Wire
  | some h => h.toWire
  | none => .null

/-! ## oracle helpers -/

/-- `b64.Decode` (RawURLEncoding, Go's lenient decoder): `none` = error -/
def b64Dec? (src : Bytes) : PO (Option Bytes) := do
  match (← PO.query "b64url.dec" [.bytes src]) with
  | .bytes b => pure (some b)
  | _ => pure none

def b64Decode (src : Bytes) : PO Bytes := do
  match (← b64Dec? src) with
  | some b => pure b
  | none => PO.fail "parse"

def b64Encode (src : Bytes) : PO Bytes := do
  match (← PO.query "b64url.enc" [.bytes src]) with
  | .bytes b => pure b
  | _ => PO.fail "oracle"

/-- `json.NewDecoder(..).UseNumber().Decode(&map[string]any)`: an object, or `null` (nil map) -/
def jsonDecodeMap (data : Bytes) : PO Wire := do
  match (← PO.query "json.decodeMap" [.bytes data]) with
  | .obj kvs => pure (.obj kvs)
  | .null => pure .null
  | _ => PO.fail "parse"

def askOK (name : String) (args : List Wire) : PO Unit := do
  match (← PO.query name args) with
  | .bool true => pure ()
  | _ => PO.fail "parse"

/-! ## jsonutils.Decoder getters (absent → none; present with the wrong type → error) -/

abbrev KVs := List (String × Wire)

def getString (kvs : KVs) (name : String) : PO (Option String) :=
  match Wire.lookup name kvs with
  | none => pure none
  | some (.str s) => pure (some s)
  | some _ => PO.fail "parse"

def getBoolean (kvs : KVs) (name : String) : PO (Option Bool) :=
  match Wire.lookup name kvs with
  | none => pure none
  | some (.bool b) => pure (some b)
  | some _ => PO.fail "parse"

def getObject (kvs : KVs) (name : String) : PO (Option Wire) :=
  match Wire.lookup name kvs with
  | none => pure none
  | some (.obj o) => pure (some (.obj o))
  | some _ => PO.fail "parse"

def allStrings : List Wire → Option (List String)
  | [] => some []
  | .str s :: rest => (allStrings rest).map (s :: ·)
  | _ :: _ => none

def getStringArray (kvs : KVs) (name : String) : PO (Option (List String)) :=
  match Wire.lookup name kvs with
  | none => pure none
  | some (.arr l) =>
    match allStrings l with
    | some ss => pure (some ss)
    | none => PO.fail "parse"
  | some _ => PO.fail "parse"

def getURL (kvs : KVs) (name : String) : PO (Option String) := do
  match (← getString kvs name) with
  | none => pure none
  | some s => do
    askOK "c01.url.parse" [.str s]
    pure (some s)

def getBytes (kvs : KVs) (name : String) : PO (Option Bytes) := do
  match (← getString kvs name) with
  | none => pure none
  | some s => do
    let b ← b64Decode (strBytes s)
    pure (some b)

/-- jws.go:499-516: every element must be standard base64 of a parsable certificate -/
def decodeCerts : List String → PO (List Bytes)
  | [] => pure []
  | s :: rest => do
    match (← PO.query "b64std.dec" [.bytes (strBytes s)]) with
    | .bytes der => do
      askOK "c01.x509.parse" [.bytes der]
      let r ← decodeCerts rest
      pure (der :: r)
    | _ => PO.fail "parse"

/-- jws.go:518-536: thumbprint must match the first certificate when there is one -/
def checkThumb (hashName : String) (cert0 : Option Bytes) (thumb : Option Bytes) : PO Unit :=
  match thumb, cert0 with
  | some t, some c => do
    match (← PO.query "hash" [.str hashName, .bytes c]) with
    | .bytes sum => if sum == t then pure () else PO.fail "parse"
    | _ => PO.fail "oracle"
  | _, _ => pure ()

/-- jws.go:546-555 -/
def critKnown (crit : List String) : Bool := crit.all (fun p => knownParams.contains p)

/-- jws.go:478-559: the typed fields, read from the members of the object by their EXACT names
    (`Wire.lookup`); `raw` is filled in by `decodeHeader` -/
def decodeFields (kvs : KVs) : PO Header := do
  let alg ← getString kvs jwa.AlgorithmKey
  let jku ← getURL kvs jwa.JWKSetURLKey
  let jwk ← getObject kvs jwa.JSONWebKey
  match jwk with
  | some k => askOK "c01.jwk.parseMap" [k]
  | none => pure ()
  let x5u ← getURL kvs jwa.X509URLKey
  let x5cS ← getStringArray kvs jwa.X509CertificateChainKey
  let x5c ← match x5cS with
    | some ss => do let ders ← decodeCerts ss; pure (some ders)
    | none => pure none
  let cert0 : Option Bytes := match x5c with | some (c :: _) => some c | _ => none
  let x5t ← getBytes kvs jwa.X509CertificateSHA1Thumbprint
  checkThumb "sha1" cert0 x5t
  let x5tS256 ← getBytes kvs jwa.X509CertificateSHA256Thumbprint
  checkThumb "sha256" cert0 x5tS256
  let kid ← getString kvs jwa.KeyIDKey
  let typ ← getString kvs jwa.TypeKey
  let cty ← getString kvs jwa.ContentTypeKey
  let crit ← getStringArray kvs jwa.CriticalKey
  let b64 ← getBoolean kvs jwa.Base64URLEncodePayloadKey
  let critL := crit.getD []
  if !critKnown critL then PO.fail "parse"
  else pure (
    { raw := .null, alg := alg.getD "", jku := jku, jwk := jwk, kid := kid.getD "", x5u := x5u,
      x5c := x5c, x5t := x5t, x5tS256 := x5tS256, typ := typ.getD "", cty := cty.getD "",
      crit := critL,
      nb64 := match b64 with | some b => !b | none => false } : Header)

/-- jws.go:472-561 `decodeHeader(raw)`.  `raw` is an object or `null` (a nil map: every lookup
    misses); `Header.Raw` is the map that was passed in. -/
def decodeHeader (raw : Wire) : PO Header := do
  let h ← decodeFields raw.asObj
  pure { h with raw := raw }

/-- jws.go:206-219 `Header.UnmarshalJSON(data)` -/
def unmarshalHeader (data : Bytes) : PO Header := do
  let raw ← jsonDecodeMap data
  decodeHeader raw

/-! ## message -/

/-- `jws.Signature` -/
structure Signature where
  header : Option Header := none          -- unprotected header (nil pointer = none)
  prot : Option Header := none            -- protected header (`protected` is a Lean keyword)
  rawProtected : Bytes := []              -- the base64url text of the protected header, as received
  b64signature : Bytes := []
  signature : Bytes := []
deriving Inhabited

/-- `jws.Message` -/
structure Message where
  signatures : List Signature := []
  payload : Bytes := []                   -- as received: base64url text, or raw bytes when nb64
  nb64 : Bool := false
deriving Inhabited

/-- `bytes.IndexByte(data, '.')` as a split: (data[:i], data[i+1:]) -/
def splitDot : Bytes → Option (Bytes × Bytes)
  | [] => none
  | c :: rest =>
    if c = dot then some ([], rest)
    else match splitDot rest with
      | some (a, b) => some (c :: a, b)
      | none => none

/-- jws.go:263-309 -/
def parseCompact (data : Bytes) : PO Message :=
  match splitDot data with
  | none => PO.fail "parse"
  | some (b64header, rest) =>
    match splitDot rest with
    | none => PO.fail "parse"
    | some (payload, b64signature) => do
      let header ← b64Decode b64header
      let h ← unmarshalHeader header
      let signature ← b64Decode b64signature
      pure { payload := payload, nb64 := h.nb64,
             signatures := [{ prot := some h, rawProtected := b64header,
                              b64signature := b64signature, signature := signature }] }

/-- the `b64` setting of a signature entry by its OWN header: that of its protected header, the
    default (`b64` = true, i.e. `nb64 = false`) when it has none (RFC 7797 §3) -/
def Signature.nb64 (s : Signature) : Bool :=
  match s.prot with
  | some p => p.nb64
  | none => false

/-- one element of `signatures` (jws.go `UnmarshalJSON`, the loop body).  `i` is its index, `nb64`
    the message flag so far; returns the signature and the flag afterwards.  EVERY entry takes part in
    the b64 consistency check — an entry without a protected header with the default value. -/
def parseSig (i : Nat) (nb64 : Bool) (sigAny : Wire) : PO (Signature × Bool) :=
  match sigAny with
  | .obj kvs => do
    -- protected header; `nbE` = this entry's own b64 setting
    let (prot, rawProt, nbE) ← (match Wire.lookup "protected" kvs with
      | none => pure (none, [], false)
      | some (.str ps) => do
        let raw ← b64Decode (strBytes ps)
        let h ← unmarshalHeader raw
        pure (some h, strBytes ps, h.nb64)
      | some _ => PO.fail "parse" : PO (Option Header × Bytes × Bool))
    -- RFC 7797 §3: the "b64" value must be the same for all signatures
    let nb64' ← (if i == 0 then pure nbE
      else if nb64 != nbE then PO.fail "parse"
      else pure nb64 : PO Bool)
    -- unprotected header
    let hdr ← (match Wire.lookup "header" kvs with
      | none => pure none
      | some (.obj o) => do let h ← decodeHeader (.obj o); pure (some h)
      | some _ => PO.fail "parse" : PO (Option Header))
    -- signature
    match Wire.lookup "signature" kvs with
    | some (.str ss) => do
      let sg ← b64Decode (strBytes ss)
      pure ({ header := hdr, prot := prot, rawProtected := rawProt,
              b64signature := strBytes ss, signature := sg }, nb64')
    | _ => PO.fail "parse"
  | _ => PO.fail "parse"

def parseSigs : Nat → Bool → List Wire → PO (List Signature × Bool)
  | _, nb64, [] => pure ([], nb64)
  | i, nb64, w :: rest => do
    let (s, nb64') ← parseSig i nb64 w
    let (ss, nb64'') ← parseSigs (i + 1) nb64' rest
    pure (s :: ss, nb64'')

/-- jws.go:321-436 `Message.UnmarshalJSON` (flattened and general serialisation) -/
def parseJSON (data : Bytes) : PO Message := do
  let raw ← jsonDecodeMap data
  let kvs := raw.asObj
  let payload ← (match Wire.lookup "payload" kvs with
    | none => pure []
    | some (.str p) => pure (strBytes p)
    | some _ => PO.fail "parse" : PO Bytes)
  let sigsAny := Wire.lookup "signatures" kvs
  let sigAny := Wire.lookup "signature" kvs
  let sigsArr ← (match sigsAny, sigAny with
    | some _, some _ => PO.fail "parse"
    | none, none => PO.fail "parse"
    | none, some sg =>
      -- flattened: one synthetic element made of signature / protected / header
      let o1 : KVs := [("signature", sg)]
      let o2 : KVs := match Wire.lookup "protected" kvs with | some p => o1 ++ [("protected", p)] | none => o1
      let o3 : KVs := match Wire.lookup "header" kvs with | some h => o2 ++ [("header", h)] | none => o2
      pure [.obj o3]
    | some (.arr l), none => pure l
    | some _, none => PO.fail "parse" : PO (List Wire))
  let (sigs, nb64) ← parseSigs 0 false sigsArr
  pure { signatures := sigs, payload := payload, nb64 := nb64 }

/-! ## verifier -/

/-- `jws.Verifier`: `configured` = both interface fields non-nil; the `AlgorithmVerifier` is
    `UnsecureAnyAlgorithm` (`allowAny`) or `AllowedAlgorithms allowed`. -/
structure Cfg where
  configured : Bool := true
  allowAny : Bool := false
  allowed : List String := []
deriving Inhabited

/-- verifier.go:19-35 -/
def Cfg.allows (c : Cfg) (alg : String) : Bool := c.allowAny || c.allowed.contains alg

/-- the unprotected header's algorithm ("" when there is no such header) -/
def Signature.unprotAlg (s : Signature) : String :=
  match s.header with
  | some h => h.alg
  | none => ""

/-- verifier.go `verify`: the protected header's algorithm; when there is no protected header or it
    names none, the unprotected header's (RFC 7515 §4.1.1 allows `alg` in either) -/
def Signature.alg (s : Signature) : String :=
  match s.prot with
  | some p => if p.alg == jwa.SignatureAlgorithmUnknown then s.unprotAlg else p.alg
  | none => s.unprotAlg

/-- the bytes handed to `key.Verify` (verifier.go:107-110) -/
def signingInput (s : Signature) (sigContent : Bytes) : Bytes :=
  s.rawProtected ++ dot :: sigContent

/-- the caller's key finder (verifier.go:103) -/
def findKeyQuery (s : Signature) : Query :=
  ⟨"findKey", [optHeaderWire s.prot, optHeaderWire s.header]⟩

/-- one iteration of the loop of verifier.go:90-115: `true` = this signature verified -/
def trySig (cfg : Cfg) (sigContent : Bytes) (s : Signature) : PO Bool :=
  if s.alg == jwa.SignatureAlgorithmUnknown then pure false
  else if !cfg.allows s.alg then pure false
  else do
    let k ← PO.query (findKeyQuery s).name (findKeyQuery s).args
    match Sig.signingKeyOfHandle k with
    | none => pure false                                  -- FindKey returned an error
    | some (.panic site) => PO.panic site
    | some (.err _) => pure false
    | some (.ok sk) => do
      match (← PO.attempt (Sig.verifyKey sk (signingInput s sigContent) s.signature)) with
      | .ok () => pure true
      | .err _ => pure false
      | .panic site => PO.panic site

/-- verifier.go:90-116: first success wins; its headers and `rawContent` are returned -/
def verifyLoop (cfg : Cfg) (rawContent sigContent : Bytes) :
    List Signature → PO (Option Header × Option Header × Bytes)
  | [] => PO.fail "verify"
  | s :: rest => do
    if (← trySig cfg sigContent s) then pure (s.prot, s.header, rawContent)
    else verifyLoop cfg rawContent sigContent rest

/-- verifier.go:46-64 -/
def verify (cfg : Cfg) (msg : Message) : PO (Option Header × Option Header × Bytes) :=
  if !cfg.configured then PO.fail "config"
  else if !msg.nb64 then do
    match (← b64Dec? msg.payload) with
    | none => PO.fail "verify"
    | some content => verifyLoop cfg content msg.payload msg.signatures
  else verifyLoop cfg msg.payload msg.payload msg.signatures

/-- verifier.go:66-76 -/
def verifyContent (cfg : Cfg) (msg : Message) (content : Bytes) :
    PO (Option Header × Option Header × Bytes) :=
  if !cfg.configured then PO.fail "config"
  else if !msg.nb64 then do
    let sigContent ← b64Encode content
    verifyLoop cfg content sigContent msg.signatures
  else verifyLoop cfg content content msg.signatures

/-! ## signing and serialising (C02) -/

/-- `raw[k] = v` on a Go map, kept as an association list sorted by key (the order
    `encoding/json` marshals maps in) -/
def setKey (k : String) (v : Wire) : KVs → KVs
  | [] => [(k, v)]
  | (k', v') :: rest =>
    if k == k' then (k, v) :: rest
    else if k < k' then (k, v) :: (k', v') :: rest
    else (k', v') :: setKey k v rest

/-- copy of a map into a fresh one (sorted, last binding of a duplicate key wins) -/
def normKVs (kvs : KVs) : KVs := kvs.foldl (fun acc kv => setKey kv.1 kv.2 acc) []

def b64StdEncode (src : Bytes) : PO Wire := do
  match (← PO.query "b64std.enc" [.bytes src]) with
  | .bytes b => pure (.bytes b)
  | _ => PO.fail "oracle"

/-- `e.Set(x5c, [][]byte)`: json.Marshal renders `[]byte` as standard base64 -/
def encodeChain : List Bytes → PO (List Wire)
  | [] => pure []
  | c :: rest => do
    let s ← b64StdEncode c
    let r ← encodeChain rest
    pure (s :: r)

/-- `e.SetBytes(name, data)` -/
def setBytes (name : String) (data : Bytes) (kvs : KVs) : PO KVs := do
  let s ← b64Encode data
  pure (setKey name (.bytes s) kvs)

def hashOf (name : String) (data : Bytes) : PO Bytes := do
  match (← PO.query "hash" [.str name, .bytes data]) with
  | .bytes b => pure b
  | _ => PO.fail "oracle"

/-- jws.go:563-639 `encodeHeader(h)`: a JSON object in which `bytes` leaves stand for Go strings
    holding those bytes (base64 texts).  `jwk` is the already marshalled JWK object
    (`key.MarshalJSON()`: property C08). -/
def encodeHeader (h : Header) : PO Wire := do
  let r0 : KVs := normKVs h.raw.asObj
  let r1 := if h.alg != "" then setKey jwa.AlgorithmKey (.str h.alg) r0 else r0
  let r2 := match h.jku with | some u => setKey jwa.JWKSetURLKey (.str u) r1 | none => r1
  let r3 := match h.jwk with | some k => setKey jwa.JSONWebKey k r2 | none => r2
  let r4 := if h.kid != "" then setKey jwa.KeyIDKey (.str h.kid) r3 else r3
  let r5 := match h.x5u with | some u => setKey jwa.X509URLKey (.str u) r4 | none => r4
  let r6 ← (match h.x5c with
    | some chain => do let l ← encodeChain chain; pure (setKey jwa.X509CertificateChainKey (.arr l) r5)
    | none => pure r5 : PO KVs)
  let cert0 : Option Bytes := match h.x5c with | some (c :: _) => some c | _ => none
  let r7 ← (match h.x5t, cert0 with
    | some t, _ => setBytes jwa.X509CertificateSHA1Thumbprint t r6
    | none, some c => do let s ← hashOf "sha1" c; setBytes jwa.X509CertificateSHA1Thumbprint s r6
    | none, none => pure r6 : PO KVs)
  let r8 ← (match h.x5tS256, cert0 with
    | some t, _ => setBytes jwa.X509CertificateSHA256Thumbprint t r7
    | none, some c => do let s ← hashOf "sha256" c; setBytes jwa.X509CertificateSHA256Thumbprint s r7
    | none, none => pure r7 : PO KVs)
  let r9 := if h.typ != "" then setKey jwa.TypeKey (.str h.typ) r8 else r8
  let r10 := if h.cty != "" then setKey jwa.ContentTypeKey (.str h.cty) r9 else r9
  let r11 := if h.nb64 then setKey jwa.Base64URLEncodePayloadKey (.bool false) r10 else r10
  let r12 := if h.crit.length > 0 then setKey jwa.CriticalKey (.arr (h.crit.map .str)) r11 else r11
  pure (.obj r12)

/-- `json.Marshal` of a value whose `bytes` leaves are Go strings -/
def jsonMarshalB (w : Wire) : PO Bytes := do
  match (← PO.query "c01.json.marshalB" [w]) with
  | .bytes b => pure b
  | _ => PO.fail "marshal"

/-- jws.go:230-235 -/
def newMessage (payload : Bytes) : PO Message := do
  let p ← b64Encode payload
  pure { payload := p, nb64 := false }

/-- jws.go:238-243 -/
def newRawMessage (payload : Bytes) : Message := { payload := payload, nb64 := true }

/-- jws.go:642-676 `msg.Sign(protected, header, key)`; a nil `protected` is dereferenced. -/
def sign (msg : Message) (prot : Option Header) (header : Option Header)
    (key : Sig.SigningKey) : PO Message :=
  match prot with
  | none => PO.panic "jws.Sign.nilprotected"
  | some p =>
    if msg.nb64 != p.nb64 then PO.fail "sign-b64-mismatch"
    else do
      let h1 ← encodeHeader p
      let raw ← jsonMarshalB h1
      let rawB ← b64Encode raw
      let signature ← Sig.signKey key (rawB ++ dot :: msg.payload)
      let b64sig ← b64Encode signature
      pure { msg with signatures := msg.signatures ++
        [{ prot := some p, header := header, rawProtected := rawB,
           b64signature := b64sig, signature := signature }] }

/-- jws.go:679-700 -/
def compact (msg : Message) : PO Bytes :=
  match msg.signatures with
  | [s] =>
    if msg.nb64 && msg.payload.contains dot then
      pure (s.rawProtected ++ dot :: dot :: s.b64signature)
    else
      pure (s.rawProtected ++ dot :: (msg.payload ++ dot :: s.b64signature))
  | _ => PO.fail "compact-nsigs"

/-- the per-signature object of jws.go:444-466 (member order is irrelevant: Marshal sorts) -/
def sigObject (s : Signature) : PO KVs := do
  let o1 : KVs := [("signature", .bytes s.b64signature)]
  let o2 : KVs := match s.prot with
    | some _ => setKey "protected" (.bytes s.rawProtected) o1
    | none => o1
  match s.header with
  | some h => do
    let hw ← encodeHeader h
    pure (setKey "header" hw o2)
  | none => pure o2

def sigObjects : List Signature → PO (List Wire)
  | [] => pure []
  | s :: rest => do
    let o ← sigObject s
    let r ← sigObjects rest
    pure (.obj o :: r)

/-- `unicode/utf8.Valid` (RFC 3629: no overlong forms, no surrogates, at most U+10FFFF) -/
def validUTF8 : Bytes → Bool
  | [] => true
  | b0 :: rest =>
    let cont (b : UInt8) : Bool := 0x80 ≤ b.toNat && b.toNat ≤ 0xBF
    let n := b0.toNat
    if n < 0x80 then validUTF8 rest
    else if 0xC2 ≤ n && n ≤ 0xDF then
      match rest with
      | b1 :: r => cont b1 && validUTF8 r
      | _ => false
    else if 0xE0 ≤ n && n ≤ 0xEF then
      match rest with
      | b1 :: b2 :: r =>
        (if n == 0xE0 then 0xA0 ≤ b1.toNat && b1.toNat ≤ 0xBF
         else if n == 0xED then 0x80 ≤ b1.toNat && b1.toNat ≤ 0x9F
         else cont b1) && cont b2 && validUTF8 r
      | _ => false
    else if 0xF0 ≤ n && n ≤ 0xF4 then
      match rest with
      | b1 :: b2 :: b3 :: r =>
        (if n == 0xF0 then 0x90 ≤ b1.toNat && b1.toNat ≤ 0xBF
         else if n == 0xF4 then 0x80 ≤ b1.toNat && b1.toNat ≤ 0x8F
         else cont b1) && cont b2 && cont b3 && validUTF8 r
      | _ => false
    else false

/-- the JSON object `Message.MarshalJSON` hands to `json.Marshal` (jws.go:438-470): one signature ⇒
    flattened members, otherwise `signatures`; `bytes` leaves stand for Go strings -/
def msgObject (msg : Message) : PO Wire :=
  match msg.signatures with
  | [s] => do
    let o ← sigObject s
    pure (.obj (setKey "payload" (.bytes msg.payload) o))
  | sigs => do
    let l ← sigObjects sigs
    pure (.obj [("payload", .bytes msg.payload), ("signatures", .arr l)])

/-- jws.go `Message.MarshalJSON`: an unencoded payload (b64=false) must be representable as a JSON
    string, i.e. valid UTF-8 (RFC 7797 §5.2); otherwise the serialisation is refused -/
def marshalJSON (msg : Message) : PO Bytes :=
  if msg.nb64 && !validUTF8 msg.payload then PO.fail "marshal-payload-utf8" else do
    let w ← msgObject msg
    jsonMarshalB w

end Model.JWS
