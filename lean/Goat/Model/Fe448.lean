import Goat.Gen.Fe448
/-
Field GF(2^448 - 2^224 - 1): the primitive operations are the *regenerated* limb programs
(`Gen.Fe448.*`, machine semantics); composite operations are shallow definitions over them that
mirror the Go call sequences of internal/edwards448/field/fe.go.
An element is a list of 8 limbs (radix 2^56).
-/
namespace Model.Fe448
open Reflect

def P : Int := 2 ^ 448 - 2 ^ 224 - 1
/-- the closed representation bound of C17: every limb ≤ 2^56 + 2^34 -/
def B : Int := 2 ^ 56 + 2 ^ 34

abbrev Limbs := List Int

/-- value of a little-endian radix-2^56 limb list -/
def eval : Limbs → Int
  | [] => 0
  | x :: xs => x + 2 ^ 56 * eval xs

/-- value of a little-endian byte list -/
def evalBytes : List Int → Int
  | [] => 0
  | x :: xs => x + 256 * evalBytes xs

def zero8 : Limbs := List.replicate 8 0

/-- run a generated program with machine semantics -/
def run (p : Prog) (ins : List Int) : List Int := p.outputs true ins

-- input layout of each program: receiver fields first (unused when the function overwrites them)
def add (a b : Limbs) : Limbs := run Gen.Fe448.add (zero8 ++ a ++ b)
def sub (a b : Limbs) : Limbs := run Gen.Fe448.sub (zero8 ++ a ++ b)
def negate (a : Limbs) : Limbs := run Gen.Fe448.negate (zero8 ++ a)
def carryPropagate (v : Limbs) : Limbs := run Gen.Fe448.carryPropagate v
def reduce (v : Limbs) : Limbs := run Gen.Fe448.reduce v
def mul (a b : Limbs) : Limbs := run Gen.Fe448.mul (zero8 ++ a ++ b)
def square (a : Limbs) : Limbs := run Gen.Fe448.square (zero8 ++ a)
def mul32 (x : Limbs) (y : Int) : Limbs := run Gen.Fe448.mul32 (zero8 ++ x ++ [y])
def setBytes (x : List Int) : Limbs := run Gen.Fe448.setBytes (zero8 ++ x)
/-- `Bytes`: the whole Go function as one program (used by the translator check) -/
def bytesFull (v : Limbs) : List Int := run Gen.Fe448.bytes (v ++ List.replicate 56 0)
/-- `Bytes` as the composition the Go code performs: `reduce`, then byte extraction
    (the translator cuts the function after the call of `reduce`) -/
def bytes (v : Limbs) : List Int := run Gen.Fe448.bytesTail (List.replicate 64 0 ++ reduce v)

end Model.Fe448
