import Goat.Gen.Fe256
import Goat.Base.Bytes
import Goat.Base.Outcome
/-
secp256k1 base field GF(p), p = 2^256 − 2^32 − 977 (internal/curve256k1/field/fe.go).

An element is a list of 4 limbs (radix 2^64, saturated).  The straight-line functions are the
*regenerated* limb programs `Gen.Fe256.*` run with MACHINE semantics; `Add`, `Neg`, `Mul`, `Square` are the
compositions `reduce ∘ …Core` the Go code performs (tail call `return v.reduce()`); `Sub`, `Inv`,
`Select`, `Swap`, `Equal`, `IsZero`, `One`, `Zero`, `Set`, the `SetBytes` wrapper and the overflow test of
`setBytes` are shallow definitions that mirror the Go text statement by statement.

Core Lean only.
-/
namespace Model.Fe256
open Reflect

def P : Int := 2 ^ 256 - 2 ^ 32 - 977
/-- 2^256 − p = 0x1000003d1 -/
def K : Int := 4294968273
def W : Int := 2 ^ 64

abbrev Limbs := List Int

/-- value of a little-endian radix-2^64 limb list -/
def val : Limbs → Int
  | [] => 0
  | x :: xs => x + 2 ^ 64 * val xs

def zero4 : Limbs := List.replicate 4 0

/-- run a generated program with machine semantics -/
def run (p : Prog) (ins : List Int) : List Int := p.outputs true ins

/-! ### straight-line functions (generated programs; input layout: receiver fields first) -/

def reduce (v : Limbs) : Limbs := run Gen.Fe256.reduce v
/-- `Add` up to (excluding) the tail call `return v.reduce()` -/
def addCore (x y : Limbs) : Limbs := run Gen.Fe256.addCore (zero4 ++ x ++ y)
def add (x y : Limbs) : Limbs := reduce (addCore x y)
/-- `Neg` up to the tail call: `p − x` by a borrow chain -/
def negCore (x : Limbs) : Limbs := run Gen.Fe256.negCore (zero4 ++ x)
def neg (x : Limbs) : Limbs := reduce (negCore x)
/-- `Sub`: `minusB.Neg(y); return v.Add(x, &minusB)` -/
def sub (x y : Limbs) : Limbs := add x (neg y)
def mulCore (a b : Limbs) : Limbs := run Gen.Fe256.mulCore (zero4 ++ a ++ b)
def mul (a b : Limbs) : Limbs := reduce (mulCore a b)
def squareCore (x : Limbs) : Limbs := run Gen.Fe256.squareCore (zero4 ++ x)
def square (x : Limbs) : Limbs := reduce (squareCore x)

/-- `One()`, `Zero()`, `Set(x)` as the regenerated programs: the receiver's OLD fields are inputs, so a field
    that the Go code forgets to write would survive into the result (`C18.oneP_spec` … prove it does not) -/
def oneP (old : Limbs) : Limbs := run Gen.Fe256.one old
def zeroP (old : Limbs) : Limbs := run Gen.Fe256.zero old
def setP (old x : Limbs) : Limbs := run Gen.Fe256.set (old ++ x)

def one : Limbs := [1, 0, 0, 0]
def zero : Limbs := [0, 0, 0, 0]
/-- `Set`: `*v = *x` -/
def set (x : Limbs) : Limbs := x

/-! ### byte decoding / encoding -/

/-- `setBytes(v, buf)`: the limbs written into `v` (always, also in the error case) and the final
    carry `c` of the range check `v + 0x1000003d1 ≥ 2^256` -/
def setBytesRaw (buf : List Int) : Limbs × Int :=
  let o := run Gen.Fe256.setBytes (zero4 ++ buf)
  (o.take 4, o.getD 4 0)

/-- `setBytes`: `if c != 0 { return errors.New("overflow") }; return nil` -/
def setBytes32 (buf : List Int) : Outcome Limbs :=
  let r := setBytesRaw buf
  if r.2 ≠ 0 then .err "overflow" else .ok r.1

def bytesToInts (b : Bytes) : List Int := b.map (fun x => (x.toNat : Int))
def intsToBytes (l : List Int) : Bytes := l.map (fun x => UInt8.ofNat x.toNat)

/-- `(*Element).SetBytes(x)`: panics for more than 32 bytes; `copy(buf[32-len(x):], x)` right-aligns -/
def setBytes (x : Bytes) : Outcome Limbs :=
  if x.length > 32 then .panic "fe256.SetBytes.toolong"
  else setBytes32 (List.replicate (32 - x.length) 0 ++ bytesToInts x)

/-- `(*Element).Bytes()`: 32 octets, big-endian -/
def bytesInts (v : Limbs) : List Int := run Gen.Fe256.bytes v
def bytes (v : Limbs) : Bytes := intsToBytes (bytesInts v)

/-! ### bit-level helpers on 64-bit words (Go `uint64` operators that are outside the arithmetic subset) -/

def w64 : Nat := 2 ^ 64
def limbN (v : Limbs) (i : Nat) : Nat := (v.getD i 0).toNat
/-- `c = (c & 0xFFFFFFFF) | (c >> 32); c--; return int(c >> 63)` -/
def isZeroWord (c : Nat) : Int :=
  let c := (c &&& 0xFFFFFFFF) ||| (c >>> 32)
  let c := (c + w64 - 1) % w64
  ((c >>> 63 : Nat) : Int)

/-- `Equal`: `c |= v.lᵢ ^ x.lᵢ` for i = 0..3, then the zero test of `c` -/
def equal (v x : Limbs) : Int :=
  let c := 0
  let c := c ||| (limbN v 0 ^^^ limbN x 0)
  let c := c ||| (limbN v 1 ^^^ limbN x 1)
  let c := c ||| (limbN v 2 ^^^ limbN x 2)
  let c := c ||| (limbN v 3 ^^^ limbN x 3)
  isZeroWord c

/-- `IsZero`: `c |= v.lᵢ`, then the zero test -/
def isZero (v : Limbs) : Int :=
  let c := 0
  let c := c ||| limbN v 0
  let c := c ||| limbN v 1
  let c := c ||| limbN v 2
  let c := c ||| limbN v 3
  isZeroWord c

/-- `m := -uint64(cond)` -/
def maskOf (cond : Int) : Nat := ((- cond) % (2 ^ 64)).toNat
/-- `^m` -/
def notW (m : Nat) : Nat := m ^^^ (w64 - 1)

/-- `Select(a, b, cond)`: `v.lᵢ = (m & a.lᵢ) | (^m & b.lᵢ)` -/
def select (a b : Limbs) (cond : Int) : Limbs :=
  let m := maskOf cond
  (List.range 4).map fun i => (((m &&& limbN a i) ||| (notW m &&& limbN b i) : Nat) : Int)

/-- `v.Swap(u, cond)`: `t = m & (v.lᵢ ^ u.lᵢ); v.lᵢ ^= t; u.lᵢ ^= t`; returns (v, u) -/
def swap (v u : Limbs) (cond : Int) : Limbs × Limbs :=
  let m := maskOf cond
  let t := fun i => m &&& (limbN v i ^^^ limbN u i)
  ((List.range 4).map fun i => ((limbN v i ^^^ t i : Nat) : Int),
   (List.range 4).map fun i => ((limbN u i ^^^ t i : Nat) : Int))

/-! ### inversion: the addition chain of `Inv`, call by call -/

/-- `n` times `x.Square(&x)` -/
def sqn : Nat → Limbs → Limbs
  | 0, x => x
  | n + 1, x => sqn n (square x)

def inv (z : Limbs) : Limbs :=
  let z1 := square z
  let z2 := square z1
  let z3 := square z2
  let z4 := mul z z1
  let z4 := mul z4 z2
  let z4 := mul z4 z3                 -- z^(2^4 − 1)
  let z8 := mul (sqn 4 z4) z4         -- 2^8 − 1
  let z16 := mul (sqn 8 z8) z8        -- 2^16 − 1   (`Square`, then the loop `for i := 1; i < 8`)
  let z32 := mul (sqn 16 z16) z16
  let z64 := mul (sqn 32 z32) z32
  let z128 := mul (sqn 64 z64) z64
  let x := mul (sqn 64 z128) z64      -- 2^192 − 1
  let x := mul (sqn 16 x) z16         -- 2^208 − 1
  let x := mul (sqn 8 x) z8           -- 2^216 − 1
  let x := mul (sqn 4 x) z4           -- 2^220 − 1
  let x := mul (sqn 1 x) z            -- 2^221 − 1
  let x := mul (sqn 1 x) z            -- 2^222 − 1
  let x := mul (sqn 1 x) z            -- 2^223 − 1
  let x := mul (sqn 17 x) z16         -- 2^240 − 2^16 − 1
  let x := mul (sqn 4 x) z4           -- 2^244 − 2^20 − 1
  let x := mul (sqn 1 x) z
  let x := mul (sqn 1 x) z
  let x := mul (sqn 5 x) z
  let x := mul (sqn 2 x) z
  let x := mul (sqn 1 x) z
  let x := mul (sqn 2 x) z            -- p − 2
  set x

end Model.Fe256
