import Goat.Model.Header
/-
Model.HeaderHist — histories of operations on header OBJECTS (jws.Header / jwe.Header values
behind pointers): a store of headers and a sequence of API calls; the result is a function of the
sequence.  Every setter first deletes its own member name from `Raw` (so a value decoded earlier cannot
shadow it); otherwise setters are plain field assignments except jws SetCritical / SetBase64 and jwe
SetPBES2Count (panics on a negative count); UnmarshalJSON replaces the whole object (`*h = *header`,
so `Raw` becomes the decoded map, registered members included); Clone (jwe) copies the struct and
the top level of `Raw`; `h.Raw[k] = v` / `delete(h.Raw, k)` are the caller's access to unregistered
members; MarshalJSON does not change the object.

Slices and maps are VALUES here: a setter is modelled as storing a copy.  Where goat stores the
caller's slice instead (jwe SetCritical, every []byte / certificate-chain setter) a later write
through the caller's reference is outside this model; the harness probes for it separately.
-/
namespace Model.Header

inductive HOp where
  | set (i : Nat) (f : Fld) (v : FVal)          -- plain setter
  | setCritical (i : Nat) (crit : List String)   -- jws: dedup + sort; jwe: plain
  | setBase64 (i : Nat) (b64 : Bool)             -- jws only
  | unmarshal (i : Nat) (data : Bytes)
  | clone (i : Nat)                              -- jwe: appends the copy to the store
  | rawSet (i : Nat) (k : String) (v : Wire)
  | rawDel (i : Nat) (k : String)
  | marshal (i : Nat)                            -- appends the outcome to the outputs

structure HState where
  hdrs : List Header
  outs : List (Outcome Wire)

/-- the `delete(h.Raw, <own name>)` every plain setter starts with (f969ad0): which names are
    deleted is read from the regenerated tables -/
def afterSetter (isJWE : Bool) (f : Fld) (h : Header) : Header :=
  let keys := if isJWE then deletesOf Gen.HeaderTables.jwe.setterDeletes (plainSetter Gen.HeaderTables.jwe.setters f)
              else deletesOf Gen.HeaderTables.jws.setterDeletes (plainSetter Gen.HeaderTables.jws.setters f)
  { h with raw := dropKeys keys h.raw }

def updAt (l : List Header) (i : Nat) (h : Header) : List Header :=
  l.set i h

/-- one API call; `none` header index = nil pointer dereference in the caller (not goat's) -/
def hstep (isJWE : Bool) (st : HState) : HOp → PO HState
  | .set i f v =>
    match st.hdrs[i]? with
    | none => PO.fail "no-such-header"
    | some h =>
      if isJWE && f == .p2c && (match v with | .int n => n < 0 | _ => false) then PO.panic "jwe.SetPBES2Count.negative"
      else match h.set f v with
        | some h' => pure { st with hdrs := updAt st.hdrs i (afterSetter isJWE f h') }
        | none => PO.fail "bad-op"
  | .setCritical i crit =>
    match st.hdrs[i]? with
    | none => PO.fail "no-such-header"
    | some h =>
      let h' : Header :=
        if isJWE then { h with crit := crit,
                               raw := dropKeys (deletesOf Gen.HeaderTables.jwe.setterDeletes "SetCritical") h.raw }
        else jwsSetCritical h crit
      pure { st with hdrs := updAt st.hdrs i h' }
  | .setBase64 i b64 =>
    match st.hdrs[i]? with
    | none => PO.fail "no-such-header"
    | some h => pure { st with hdrs := updAt st.hdrs i (jwsSetBase64 h b64) }
  | .unmarshal i data =>
    match st.hdrs[i]? with
    | none => PO.fail "no-such-header"
    | some _ => ⟨do
        -- an error leaves the object untouched (UnmarshalJSON assigns only on success)
        let r ← (PO.attempt (if isJWE then jweUnmarshalHeader data else jwsUnmarshalHeader data)).prog
        match r with
        | .ok (.ok h') => pure (.ok { st with hdrs := updAt st.hdrs i h' })
        | .ok (.err c) => pure (.ok { st with outs := st.outs ++ [.err c] })
        | .ok (.panic s) => pure (.panic s)
        | .err c => pure (.err c)
        | .panic s => pure (.panic s)⟩
  | .clone i =>
    match st.hdrs[i]? with
    | none => PO.fail "no-such-header"
    | some h => pure { st with hdrs := st.hdrs ++ [h] }
  | .rawSet i k v =>
    match st.hdrs[i]? with
    | none => PO.fail "no-such-header"
    | some h => pure { st with hdrs := updAt st.hdrs i { h with raw := objSet k v h.raw } }
  | .rawDel i k =>
    match st.hdrs[i]? with
    | none => PO.fail "no-such-header"
    | some h => pure { st with hdrs := updAt st.hdrs i { h with raw := h.raw.filter (fun kv => kv.1 != k) } }
  | .marshal i =>
    match st.hdrs[i]? with
    | none => PO.fail "no-such-header"
    | some h => ⟨do
        let r ← (PO.attempt (if isJWE then jweEncodeHeader h else jwsEncodeHeader h)).prog
        match r with
        | .ok o => pure (.ok { st with outs := st.outs ++ [o] })
        | .err c => pure (.err c)
        | .panic s => pure (.panic s)⟩

def hrun (isJWE : Bool) : List HOp → HState → PO HState
  | [], st => pure st
  | op :: rest, st => do
    let st' ← hstep isJWE st op
    hrun isJWE rest st'

end Model.Header
