import Goat.Model.NumericDate
/-
Model of the reflect-based custom-claim codec: jwt/custom_encode.go (`encode`, lines 55-131) and
jwt/cuctom_decode.go (`indirect`, `decode`, `typeFields`, lines 31-358).

Go types are described by `Ty` (produced by reflection in the harness), Go values by `Val`.
`reflect` itself is standard library: what a Kind is, how `Field(i)`, `Index(i)`, `Set` behave is
fixed by the shape of `Ty`/`Val`; what goat does with them (which kinds it handles, the order of
tests, the overflow checks, the tag handling, the field walk) is modelled.

Oracle queries:
  b64url.enc [bytes] → bytes(text)      b64url.dec [bytes(text)] → bytes | none
  c10.formatFloat [int f64bits, int bitsize] → str      strconv.FormatFloat(f, 'f', -1, bitsize)
  c10.parseFloat  [str text, int bitsize] → int f64bits | none
        strconv.ParseFloat(text, bitsize), error or reflect OverflowFloat ⇒ none, else the bits of
        the value that `SetFloat` stores, read back with `Value.Float()`
  url.parse [str] → str (the parsed URL rendered by URL.String) | none
-/
namespace Model.Custom
open Model

mutual
inductive Ty where
  | string
  | bool
  | int (bits : Nat)                 -- int8/16/32/64, int (= 64)
  | uint (bits : Nat)                -- uint8/16/32/64, uint, uintptr (= 64)
  | float (bits : Nat)               -- 32 | 64
  | bigint                           -- big.Int (struct)
  | time                             -- time.Time (struct)
  | url                              -- url.URL (struct)
  | slice (elem : Ty) (plain : Bool) -- plain: the type is identical to `[]E` with E unnamed
                                     -- (for element kind uint8: the type is exactly []byte)
  | ptr (elem : Ty)
  | iface (methods : Bool)           -- interface type; methods: NumMethod() != 0
  | map (strKey : Bool) (elem : Ty)  -- strKey: the key kind is String
  | struct (id : String) (fields : List Field)
  | other (name : String)            -- array, chan, func, complex, …
inductive Field where
  | mk (name tag : String) (anon exported : Bool) (ty : Ty)
end

def Field.name : Field → String | .mk n _ _ _ _ => n
def Field.tag : Field → String | .mk _ t _ _ _ => t
def Field.anon : Field → Bool | .mk _ _ a _ _ => a
def Field.exported : Field → Bool | .mk _ _ _ e _ => e
def Field.ty : Field → Ty | .mk _ _ _ _ t => t

inductive Val where
  | str (s : String)
  | bool (b : Bool)
  | int (i : Int)
  | uint (n : Nat)
  | float (bits : Nat)                 -- binary64 bit pattern of Value.Float()
  | bytes (b : Bytes)                  -- slice of element kind uint8 (nil ≡ empty)
  | big (i : Int)
  | time (ns : Int)
  | url (s : String)                   -- the URL as rendered by URL.String()
  | list (vs : List Val)               -- other slices (nil ≡ empty)
  | ptr (v : Option Val)
  | iface (w : Option Wire)            -- dynamic JSON-like value of an `any`; none = nil
  | map (kvs : List (String × Val))    -- nil ≡ empty
  | strct (fields : List Val)          -- struct: one value per declared field
  | opaque
deriving Inhabited

instance : Inhabited Ty := ⟨.string⟩

def isByteKind : Ty → Bool | .uint 8 => true | _ => false
def isStringKind : Ty → Bool | .string => true | _ => false
/-- reflect.Kind == Struct -/
def isStructKind : Ty → Bool
  | .struct _ _ => true | .bigint => true | .time => true | .url => true | _ => false

/-- list of `zero` values, one per field (auxiliary of `zero`) -/
def zeroFuel : Nat → Ty → Val
  | 0, _ => .opaque
  | f + 1, t =>
    match t with
    | .string => .str ""
    | .bool => .bool false
    | .int _ => .int 0
    | .uint _ => .uint 0
    | .float _ => .float 0
    | .bigint => .big 0
    | .time => .time NumericDate.zeroTime
    | .url => .url ""
    | .slice e _ => if isByteKind e then .bytes [] else .list []
    | .ptr _ => .ptr none
    | .iface _ => .iface none
    | .map _ _ => .map []
    | .struct _ fs => .strct (fs.map (fun fd => zeroFuel f fd.ty))
    | .other _ => .opaque

def defaultFuel : Nat := 64

/-- reflect.Zero -/
def zero (t : Ty) : Val := zeroFuel defaultFuel t

/-! ### typeFields (cuctom_decode.go:273-358) -/

structure FlatField where
  name : String
  index : List Nat
  ty : Ty

/-- an anonymous struct queued for exploration -/
structure QItem where
  index : List Nat
  id : String
  fields : List Field

structure ScanState where
  out : List FlatField
  next : List QItem
  nextCount : List (String × Nat)

def countOf (id : String) : List (String × Nat) → Nat
  | [] => 0
  | (k, n) :: r => if k = id then n else countOf id r

def bump (id : String) : List (String × Nat) → List (String × Nat)
  | [] => [(id, 1)]
  | (k, n) :: r => if k = id then (k, n + 1) :: r else (k, n) :: bump id r

/-- type identity used by the `visited` / `count` maps -/
def tyId : Ty → String
  | .struct id _ => id
  | .bigint => "math/big.Int"
  | .time => "time.Time"
  | .url => "net/url.URL"
  | _ => ""

def structFields : Ty → List Field
  | .struct _ fs => fs
  | _ => []      -- time.Time, url.URL, big.Int: no field carries a `jwt` tag

/-- strip one unnamed pointer: `if ft.Name() == "" && ft.Kind() == Ptr { ft = ft.Elem() }` -/
def derefOnce : Ty → Ty
  | .ptr e => e
  | t => t

/-- the body of `for i := 0; i < f.typ.NumField(); i++` for field number `i` -/
def scanField (dup : Bool) (prefix_ : List Nat) (i : Nat) (fd : Field) (st : ScanState) : ScanState :=
  let ft := derefOnce fd.ty
  if fd.anon ∧ !fd.exported ∧ !isStructKind ft then st           -- embedded unexported non-struct
  else if !fd.anon ∧ !fd.exported then st                          -- unexported non-embedded
  else
    let index := prefix_ ++ [i]
    if !fd.anon ∨ !isStructKind ft then
      if fd.tag = "" then st
      else
        let f : FlatField := ⟨fd.tag, index, fd.ty⟩
        { st with out := st.out ++ (if dup then [f, f] else [f]) }
    else
      let id := tyId ft
      let nc := bump id st.nextCount
      if countOf id nc = 1 then
        { st with nextCount := nc, next := st.next ++ [⟨index, id, structFields ft⟩] }
      else { st with nextCount := nc }

def scanFields (dup : Bool) (prefix_ : List Nat) : Nat → List Field → ScanState → ScanState
  | _, [], st => st
  | i, fd :: r, st => scanFields dup prefix_ (i + 1) r (scanField dup prefix_ i fd st)

/-- one BFS level: `for _, f := range current` -/
def scanLevel (count : List (String × Nat)) : List QItem → List String → ScanState → List String × ScanState
  | [], visited, st => (visited, st)
  | it :: r, visited, st =>
    if visited.contains it.id then scanLevel count r visited st
    else scanLevel count r (it.id :: visited) (scanFields (countOf it.id count > 1) it.index 0 it.fields st)

def typeFieldsLoop : Nat → List QItem → List (String × Nat) → List String → List FlatField → List FlatField
  | 0, _, _, _, out => out
  | fuel + 1, current, count, visited, out =>
    match current with
    | [] => out
    | _ =>
      let r := scanLevel count current visited ⟨out, [], []⟩
      typeFieldsLoop fuel r.2.next r.2.nextCount r.1 r.2.out

/-- typeFields(t) for a struct type -/
def typeFields (t : Ty) : List FlatField :=
  typeFieldsLoop defaultFuel [⟨[], tyId t, structFields t⟩] [] [] []

/-! ### field walk along an index path (encode:94-106, decode:193-205) -/

def recGet (v : Val) (i : Nat) : Val :=
  match v with
  | .strct fs => fs.getD i .opaque
  | _ => .opaque

/-- `l.set i x`, extended with `opaque` slots when `i` is beyond the end -/
def setPad : List Val → Nat → Val → List Val
  | [], 0, x => [x]
  | [], i + 1, x => Val.opaque :: setPad [] i x
  | _ :: r, 0, x => x :: r
  | a :: r, i + 1, x => a :: setPad r i x

/-- `Field(i).Set(x)`.  For a struct value with a slot `i` (every value of a struct type has one per
    declared field) this is `fs.set i x`; for values that do not have the shape of their type — which
    Go cannot produce — the slot is created, so that the read/write laws of the walk hold for every
    `Val` and no theorem depends on a shape premise. -/
def recSet (v : Val) (i : Nat) (x : Val) : Val :=
  match v with
  | .strct fs => .strct (setPad fs i x)
  | _ => .strct (setPad [] i x)

def fieldAt (t : Ty) (i : Nat) : Option Field := (structFields t)[i]?

/-- read the value at `path` below the struct value `v : t`; nil embedded pointers are replaced by
    fresh zero structs (`subv.Set(reflect.New(…))`), which needs `CanSet` (addressable and the
    embedded field exported), else the error "cannot set pointer to unexported struct" -/
def walkGet (addr : Bool) : List Nat → Ty → Bool → Val → Outcome (Ty × Val)
  | [], t, _, v => Outcome.ok (t, v)
  | i :: rest, t, canSet, v =>
    let step := fun (st : Ty) (sv : Val) =>
      match fieldAt st i with
      | none => Outcome.panic "reflect.Field"
      | some fd => walkGet addr rest fd.ty (addr && fd.exported) (recGet sv i)
    match t with
    | Ty.ptr e =>
      match v with
      | Val.ptr (some x) => step e x
      | _ => if canSet then step e (zero e) else Outcome.err "ptr-unexported"   -- nil: allocate
    | _ => step t v

/-- write `x` at `path` (after the same walk has succeeded) -/
def walkSet : List Nat → Ty → Val → Val → Val
  | [], _, _, x => x
  | i :: rest, t, v, x =>
    let step := fun (st : Ty) (sv : Val) =>
      match fieldAt st i with
      | none => sv
      | some fd => recSet sv i (walkSet rest fd.ty (recGet sv i) x)
    match t with
    | Ty.ptr e =>
      match v with
      | Val.ptr (some y) => Val.ptr (some (step e y))
      | _ => Val.ptr (some (step e (zero e)))
    | _ => step t v

/-! ### numbers -/

/-- strconv.ParseInt(s, 10, 64): optional sign, at least one digit, digits only, int64 range -/
def parseInt64 (cs : List Char) : Option Int :=
  let s := NumericDate.splitSign cs
  let d := NumericDate.spanDigits s.2
  if d.1 = [] ∨ d.2 ≠ [] then none
  else
    let v : Int := NumericDate.natOfDigits d.1
    let x := if s.1 then -v else v
    if x < NumericDate.minInt64 ∨ x > NumericDate.maxInt64 then none else some x

/-- strconv.ParseUint(s, 10, 64): no sign, at least one digit, digits only, uint64 range -/
def parseUint64 (cs : List Char) : Option Nat :=
  let d := NumericDate.spanDigits cs
  if d.1 = [] ∨ d.2 ≠ [] then none
  else
    let v := NumericDate.natOfDigits d.1
    if v ≥ 2 ^ 64 then none else some v

/-- reflect.Value.OverflowInt for a `bits`-wide signed kind -/
def overflowInt (bits : Nat) (i : Int) : Bool := i < -(2 ^ (bits - 1) : Int) ∨ i > (2 ^ (bits - 1) : Int) - 1
/-- reflect.Value.OverflowUint -/
def overflowUint (bits : Nat) (n : Nat) : Bool := n ≥ 2 ^ bits

/-- `json.Number` into a signed integer kind (decode:135-140) -/
def decodeInt (bits : Nat) (text : String) : Outcome Int :=
  match parseInt64 text.toList with
  | none => .err "overflow"
  | some i => if overflowInt bits i then .err "overflow" else .ok i

/-- `json.Number` into an unsigned integer kind (decode:141-146) -/
def decodeUint (bits : Nat) (text : String) : Outcome Nat :=
  match parseUint64 text.toList with
  | none => .err "overflow"
  | some n => if overflowUint bits n then .err "overflow" else .ok n

/-- strconv.FormatInt / FormatUint -/
def formatInt (i : Int) : String :=
  String.ofList (if i < 0 then '-' :: NumericDate.natDigits i.natAbs else NumericDate.natDigits i.natAbs)

/-- big.Int.Bytes(): minimal big-endian bytes of |x| -/
def natBytesAux : Nat → Nat → Bytes → Bytes
  | 0, _, acc => acc
  | fuel + 1, n, acc => if n = 0 then acc else natBytesAux fuel (n / 256) (UInt8.ofNat (n % 256) :: acc)

def natBytes (n : Nat) : Bytes := natBytesAux (n + 1) n []

/-! ### the float64 arm of `decode` (cuctom_decode.go:95-120): caller-built `Raw` only -/

/-- a Go float64, exactly: NaN, ±Inf, or `(−1)^neg · m · 2^e` (m < 2^53; ±0 is m = 0) -/
inductive F64 where
  | nan
  | inf (neg : Bool)
  | fin (neg : Bool) (m : Nat) (e : Int)

/-- |integer part| of `math.Modf` (truncation toward zero) -/
def f64TruncAbs (m : Nat) (e : Int) : Nat := if e ≥ 0 then m * 2 ^ e.toNat else m / 2 ^ (-e).toNat
/-- `f != 0` for the fractional part of `math.Modf` -/
def f64FracNonzero (m : Nat) (e : Int) : Bool := if e ≥ 0 then false else m % 2 ^ (-e).toNat != 0

/-- `int64(i)` for a float64 `i` (amd64: out of range gives MinInt64) -/
def cvtI64 (i : Int) : Int :=
  if i < NumericDate.minInt64 ∨ i > NumericDate.maxInt64 then NumericDate.minInt64 else i
/-- `uint64(i)` for a float64 `i` (out of range is implementation-defined; amd64 gives 2^63 for 2^64) -/
def cvtU64 (i : Int) : Nat := if i < 0 ∨ i ≥ 2 ^ 64 then 2 ^ 63 else i.toNat

/-- float64 into a signed integer kind: `i, f := math.Modf(in); if f != 0 || i >= 1<<63 ||
    i < math.MinInt64 || out.OverflowInt(int64(i)) { error }; out.SetInt(int64(i))`.
    For NaN and ±Inf the fractional part is NaN, so `f != 0` holds. -/
def decodeF64Int (bits : Nat) : F64 → Outcome Int
  | .nan => .err "overflow"
  | .inf _ => .err "overflow"
  | .fin neg m e =>
    let i : Int := if neg then -(f64TruncAbs m e : Int) else f64TruncAbs m e
    if f64FracNonzero m e ∨ i ≥ 2 ^ 63 ∨ i < NumericDate.minInt64 ∨ overflowInt bits (cvtI64 i) then .err "overflow"
    else .ok (cvtI64 i)

/-- float64 into an unsigned integer kind: `… i >= 1<<64 || i < 0 || out.OverflowUint(uint64(i))` -/
def decodeF64Uint (bits : Nat) : F64 → Outcome Nat
  | .nan => .err "overflow"
  | .inf _ => .err "overflow"
  | .fin neg m e =>
    let i : Int := if neg then -(f64TruncAbs m e : Int) else f64TruncAbs m e
    if f64FracNonzero m e ∨ i ≥ 2 ^ 64 ∨ i < 0 ∨ overflowUint bits (cvtU64 i) then .err "overflow"
    else .ok (cvtU64 i)

def F64.ofWire (w : Wire) : F64 :=
  let a := w.asArr
  match (a.getD 0 .none).asStr with
  | "nan" => .nan
  | "inf" => .inf (a.getD 1 .none).asBool
  | _ => .fin (a.getD 1 .none).asBool (a.getD 2 .none).asNat (a.getD 3 .none).asInt

/-! ### encode -/

def mapM {α β} (f : α → PO β) : List α → PO (List β)
  | [] => pure []
  | a :: r => do
    let b ← f a
    let bs ← mapM f r
    pure (b :: bs)

def setKey (k : String) (v : Wire) : List (String × Wire) → List (String × Wire)
  | [] => [(k, v)]
  | (k', v') :: r => if k = k' then (k, v) :: r else (k', v') :: setKey k v r

def b64enc (b : Bytes) : PO Wire := do
  let r ← PO.query "b64url.enc" [.bytes b]
  pure (.str (Bytes.toStringLossy r.asBytes))

/-- `encode` (custom_encode.go:55-131).  `addr`: the reflect.Value is addressable (the caller passed
    a pointer); `fuel` bounds the nesting depth. -/
def encode : Nat → Bool → Ty → Val → PO Wire
  | 0, _, _, _ => PO.fail "depth"
  | fuel + 1, addr, t, v =>
    match t, v with
    -- indirect(): follow pointers, allocating nil ones (panics when not settable)
    | .ptr e, .ptr none => if addr then encode fuel true e (zero e) else PO.panic "reflect.Set"
    | .ptr e, .ptr (some x) => encode fuel true e x
    | .string, .str s => pure (.str s)
    | .bool, .bool b => pure (.bool b)
    | .float bits, .float fb => do
      let r ← PO.query "c10.formatFloat" [.int fb, .int bits]
      pure (.num r.asStr)
    | .int _, .int i => pure (.num (formatInt i))
    | .uint _, .uint n => pure (.num (formatInt n))
    | .time, .time ns =>
      match NumericDate.encode ns with
      | .ok s => pure (.num s)
      | .err c => PO.fail c
      | .panic p => PO.panic p
    | .url, .url s => pure (.str s)
    | .bigint, .big i => b64enc (natBytes i.natAbs)
    | .struct _ _, sv =>
      (typeFields t).foldlM (fun (ret : List (String × Wire)) (f : FlatField) => do
          let tv ← PO.ofOutcome (walkGet addr f.index t addr sv)
          let w ← encode fuel addr tv.1 tv.2
          pure (setKey f.name w ret)) [] >>= fun ret => pure (.obj ret)
    | .slice e _, .bytes b =>
      -- `in.Bytes()`: every slice of element kind uint8, whatever its name (`plain` is not consulted)
      if isByteKind e then b64enc b else PO.fail "unknown-type"
    | .slice e _, .list vs => do
      let ws ← mapM (encode fuel true e) vs
      pure (.arr ws)
    | _, _ => PO.fail "unknown-type"

/-- `for k, v := range raw { c.Raw[k] = v }` (custom_encode.go:47-49) -/
def mergeRaw (old new : List (String × Wire)) : List (String × Wire) :=
  new.foldl (fun m kv => setKey kv.1 kv.2 m) old

/-- `(*Claims).EncodeCustom` (custom_encode.go:29-53) as a function of the state `c.Raw`
    (`none` = nil map): the value is encoded, must come out as a JSON object, and every member of it
    is written over `c.Raw`; members of `c.Raw` under other names are untouched.  Returns the new
    `c.Raw`; on an error `c.Raw` is unchanged (the caller keeps the old state). -/
def encodeCustom (fuel : Nat) (raw : Option (List (String × Wire))) (addr : Bool) (t : Ty) (v : Val) :
    PO (List (String × Wire)) := do
  let w ← encode fuel addr t v
  match w with
  | .obj ret =>
    match raw with
    | none => pure ret
    | some old => pure (mergeRaw old ret)
  | _ => PO.fail "invalid-type"

/-! ### decode -/

def b64dec (s : String) : PO Bytes := do
  let r ← PO.query "b64url.dec" [.bytes (Bytes.ofString s)]
  match r with
  | .bytes b => pure b
  | _ => PO.fail "b64"

/-- reuse the first `n` current elements if the slice is long enough, else a fresh zeroed slice
    (`MakeSlice` when `len(in) > cap`; the model takes cap = len) -/
def sliceBase (e : Ty) (cur : List Val) (n : Nat) : List Val :=
  if n ≤ cur.length then cur.take n else List.replicate n (zero e)

def zipDecode {α} (f : Val → α → PO Val) : List Val → List α → PO (List Val)
  | c :: cs, w :: ws => do
    let v ← f c w
    let r ← zipDecode f cs ws
    pure (v :: r)
  | _, _ => pure []

def setMap (k : String) (v : Val) : List (String × Val) → List (String × Val)
  | [] => [(k, v)]
  | (k', v') :: r => if k = k' then (k, v) :: r else (k', v') :: setMap k v r

def firstField (name : String) : List FlatField → Option FlatField
  | [] => none
  | f :: r => if f.name = name then some f else firstField name r

def byteVals (b : Bytes) : List Val := b.map (fun x => Val.uint x.toNat)
def valBytes (vs : List Val) : Bytes := vs.map (fun v => match v with | .uint n => UInt8.ofNat n | _ => 0)

/-- a value of a struct type has exactly one slot per declared field (reflect: `NumField`).  A `Val`
    with another arity is not a Go value; it is brought to the arity of its type (identity on every
    value the harness or the decoder itself can produce) so that no theorem needs a shape premise. -/
def fitStruct (n : Nat) : Val → Val
  | .strct xs => .strct ((xs ++ List.replicate n Val.opaque).take n)
  | _ => .strct (List.replicate n Val.opaque)

/-- what `indirect` finds behind a pointer: the pointee, or a freshly allocated zero value -/
def ptrInner (e : Ty) : Val → Val
  | .ptr (some x) => x
  | _ => zero e

/-- `decode(in, out)` (cuctom_decode.go:44-264) writing into the current value `cur : t`;
    returns the new value. -/
def decodeInto : Nat → Ty → Val → Wire → PO Val
  | 0, _, _, _ => PO.fail "depth"
  | fuel + 1, t, cur, w =>
    match t with
    -- out = indirect(out)
    | .ptr e => do
      let r ← decodeInto fuel e (ptrInner e cur) w
      pure (.ptr (some r))
    | _ =>
    match w with
    | .str s =>
      match t with
      | .string => pure (.str s)
      | .slice e _ =>
        if isByteKind e then do let b ← b64dec s; pure (.bytes b)
        else if isStringKind e then pure (.list [.str s])
        else PO.fail "convert"
      | .iface m => if m then PO.fail "convert" else pure (.iface (some w))
      | .url => do
        let r ← PO.query "url.parse" [.str s]
        match r with
        | .str u => pure (.url u)
        | _ => PO.fail "url"
      | .bigint => do let b ← b64dec s; pure (.big (Bytes.decodeBE b))
      | _ => PO.fail "convert"
    | .num text =>
      match t with
      | .iface m => if m then PO.fail "convert" else pure (.iface (some w))
      | .float bits => do
        let r ← PO.query "c10.parseFloat" [.str text, .int bits]
        match r with
        | .int fb => pure (.float fb.toNat)
        | _ => PO.fail "overflow"
      | .int bits => PO.ofOutcome ((decodeInt bits text).bind (fun i => .ok (.int i)))
      | .uint bits => PO.ofOutcome ((decodeUint bits text).bind (fun n => .ok (.uint n)))
      | .time =>
        match NumericDate.decode text with
        | .ok ns => pure (.time ns)
        | .err _ => PO.fail "date"
        | .panic p => PO.panic p
      | _ => PO.fail "convert"
    | .null =>
      match t with
      | .iface _ => pure (.iface none)
      | .map _ _ => pure (.map [])
      | .slice e _ => pure (if isByteKind e then .bytes [] else .list [])
      | _ => pure cur                              -- "ignore null for primitives"
    | .bool b =>
      match t with
      | .bool => pure (.bool b)
      | .iface m => if m then PO.fail "convert" else pure (.iface (some w))
      | _ => PO.fail "convert"
    | .obj kvs =>
      match t with
      | .bigint => pure cur        -- Kind Struct without any `jwt`-tagged field: every member is ignored
      | .time => pure cur
      | .url => pure cur
      | .struct _ fs =>
        kvs.foldlM (fun (sv : Val) (kv : String × Wire) =>
          match firstField kv.1 (typeFields t) with
          | none => pure sv
          | some f => do
            let tv ← PO.ofOutcome (walkGet true f.index t true sv)
            let x ← decodeInto fuel tv.1 tv.2 kv.2
            pure (walkSet f.index t sv x)) (fitStruct fs.length cur)
      | .map strKey e =>
        -- a key kind other than String cannot be produced from a JSON member name: error
        if !strKey then PO.fail "convert"
        else
        kvs.foldlM (fun (mv : Val) (kv : String × Wire) => do
          let x ← decodeInto fuel e (zero e) kv.2
          pure (match mv with | .map m => .map (setMap kv.1 x m) | _ => .map [(kv.1, x)])) cur
      | .iface m => if m then PO.fail "convert" else pure (.iface (some w))
      | _ => PO.fail "convert"
    | .arr ws =>
      match t with
      | .slice e _ =>
        if isByteKind e then do
          let base := sliceBase e (match cur with | .bytes b => byteVals b | _ => []) ws.length
          let vs ← zipDecode (decodeInto fuel e) base ws
          pure (.bytes (valBytes vs))
        else do
          let base := sliceBase e (match cur with | .list l => l | _ => []) ws.length
          let vs ← zipDecode (decodeInto fuel e) base ws
          pure (.list vs)
      | .iface m => if m then PO.fail "convert" else pure (.iface (some w))
      | _ => PO.fail "convert"
    | _ => PO.fail "invalid-type"

/-- DecodeCustom into a fresh zero value -/
def decode (fuel : Nat) (t : Ty) (w : Wire) : PO Val := decodeInto fuel t (zero t) w

/-! ### wire forms (harness ↔ driver) -/

partial def Ty.ofWire (w : Wire) : Ty :=
  let a := w.asArr
  let k := (a.getD 0 .none).asStr
  let x := a.getD 1 .none
  let y := a.getD 2 .none
  match k with
  | "string" => .string
  | "bool" => .bool
  | "int" => .int x.asNat
  | "uint" => .uint x.asNat
  | "float" => .float x.asNat
  | "bigint" => .bigint
  | "time" => .time
  | "url" => .url
  | "slice" => .slice (Ty.ofWire x) y.asBool
  | "ptr" => .ptr (Ty.ofWire x)
  | "iface" => .iface x.asBool
  | "map" => .map x.asBool (Ty.ofWire y)
  | "struct" => .struct x.asStr (y.asArr.map (fun f =>
      let fa := f.asArr
      Field.mk (fa.getD 0 .none).asStr (fa.getD 1 .none).asStr (fa.getD 2 .none).asBool (fa.getD 3 .none).asBool
        (Ty.ofWire (fa.getD 4 .none))))
  | _ => .other k

partial def Val.ofWire (w : Wire) : Val :=
  let a := w.asArr
  let k := (a.getD 0 .none).asStr
  let x := a.getD 1 .none
  match k with
  | "str" => .str x.asStr
  | "bool" => .bool x.asBool
  | "int" => .int x.asInt
  | "uint" => .uint x.asNat
  | "float" => .float x.asNat
  | "bytes" => .bytes x.asBytes
  | "big" => .big x.asInt
  | "time" => .time x.asInt
  | "url" => .url x.asStr
  | "list" => .list (x.asArr.map Val.ofWire)
  | "ptr" => match x with | .none => .ptr none | _ => .ptr (some (Val.ofWire x))
  | "iface" => match x with | .none => .iface none | _ => .iface (some x)
  | "map" => .map (x.asObj.map (fun kv => (kv.1, Val.ofWire kv.2)))
  | "rec" => .strct (x.asArr.map Val.ofWire)
  | _ => .opaque

partial def Val.toWire : Val → Wire
  | .str s => .arr [.str "str", .str s]
  | .bool b => .arr [.str "bool", .bool b]
  | .int i => .arr [.str "int", .int i]
  | .uint n => .arr [.str "uint", .int n]
  | .float b => .arr [.str "float", .int b]
  | .bytes b => .arr [.str "bytes", .bytes b]
  | .big i => .arr [.str "big", .int i]
  | .time t => .arr [.str "time", .int t]
  | .url s => .arr [.str "url", .str s]
  | .list vs => .arr [.str "list", .arr (vs.map Val.toWire)]
  | .ptr none => .arr [.str "ptr", .none]
  | .ptr (some v) => .arr [.str "ptr", v.toWire]
  | .iface none => .arr [.str "iface", .none]
  | .iface (some w) => .arr [.str "iface", w]
  | .map kvs => .arr [.str "map", .obj (kvs.map (fun kv => (kv.1, kv.2.toWire)))]
  | .strct fs => .arr [.str "rec", .arr (fs.map Val.toWire)]
  | .opaque => .arr [.str "opaque"]

end Model.Custom
