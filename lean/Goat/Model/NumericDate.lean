import Goat.Base.Prog
/-
Model of internal/jsonutils/numeric_date.go (NumericDate.MarshalJSON / UnmarshalJSON).

Instants are `Int` nanoseconds since the Unix epoch (time.Time restricted to what the code can
produce: |seconds| ≤ maxEpoch, so no int64 overflow inside package time).

UnmarshalJSON drives math/big.Float.  big.Float is standard library, but C04/C10 are *about* the
edge behaviour of this pipeline, so it is modelled here semantically and exactly: a finite
big.Float is the dyadic rational `m·2^e` (m > 0); every operation computes the exact result and
rounds once to the receiver's precision with round-to-nearest-even (what math/big documents and
what `Float.round` implements, sticky bit included), with overflow to ±Inf / underflow to ±0 at
the int32 exponent bounds exactly where `setExpAndRound` / `round` test them.

  text ──Parse(base 0)──▶ z (prec 128)             scan: mantissa digits exact, then ·2^exp2, then
                                                    ·5^exp5 or /5^exp5 (pow5 at prec 192/256), one
                                                    rounding to 128 bits
  sec, acc := z.Int64()                             trunc toward zero, saturating; Exact iff integer
  acc == Exact → range check → time.Unix(sec,0)
  z = z.Sub(z, SetInt64(sec))  (round 128)
  z = z.Mul(z, 1e9)            (round 128)
  nsec, _ := z.Float64()       (round to 53 bits, denormals/overflow)
  ns := int64(math.Trunc(nsec))                     amd64 CVTTSD2SQ: out of range/Inf → MinInt64
  carry adjustments (wrapping int64), range check, time.Unix(sec, ns)
-/
namespace Model.NumericDate

def maxEpoch : Int := 253402300799
def minExp : Int := -2147483648
def maxExp : Int := 2147483647
def minInt64 : Int := -9223372036854775808
def maxInt64 : Int := 9223372036854775807
def e9 : Int := 1000000000

/-- two's complement wrap to int64 (Go `sec++`, `ns -= …` on int64) -/
def wrapI64 (i : Int) : Int := (i + 9223372036854775808) % 18446744073709551616 - 9223372036854775808

/-- number of significant bits -/
def bitlen (n : Nat) : Nat := if n = 0 then 0 else n.log2 + 1

/-! ### decimal text -/

def isDigit (c : Char) : Bool := '0' ≤ c && c ≤ '9'
def digitVal (c : Char) : Nat := c.toNat - 48

def spanDigits : List Char → List Char × List Char
  | [] => ([], [])
  | c :: cs => if isDigit c then ((c :: (spanDigits cs).1), (spanDigits cs).2) else ([], c :: cs)

def natOfDigits (ds : List Char) : Nat := ds.foldl (fun a c => a * 10 + digitVal c) 0

/-- a decimal literal: value = ±mant · 10^(exp − fd) -/
structure Lit where
  neg : Bool
  mant : Nat
  fd : Nat
  exp : Int
deriving Repr, DecidableEq

def splitSign : List Char → Bool × List Char
  | '-' :: r => (true, r)
  | '+' :: r => (false, r)
  | cs => (false, cs)

def fracPart : List Char → List Char × List Char
  | '.' :: r => spanDigits r
  | cs => ([], cs)

/-- exponent part after the mantissa: `none` = syntax error / int64 overflow of the exponent
    (scanExponent: strconv.ParseInt(digits, 10, 64)) -/
def expPart : List Char → Option Int
  | [] => some 0
  | c :: r =>
    if c = 'e' ∨ c = 'E' then
      let sr := splitSign r
      let ed := spanDigits sr.2
      if ed.1 = [] ∨ ed.2 ≠ [] then none
      else
        let ev : Int := natOfDigits ed.1
        let x := if sr.1 then -ev else ev
        if x < minInt64 ∨ x > maxInt64 then none else some x
    else none

/-- big.Float.Parse(s, 0) restricted to decimal syntax (sign, digits with optional '.', optional
    e/E exponent): a superset of the JSON number grammar, which is all `json.Number` values
    delivered by encoding/json can be.  Hex/octal/binary prefixes, '_' separators, 'p' exponents and
    "Inf" are not JSON and are answered `none` here. -/
def lex (cs : List Char) : Option Lit :=
  let s := splitSign cs
  let ip := spanDigits s.2
  let fp := fracPart ip.2
  if ip.1.length + fp.1.length = 0 then none
  else match expPart fp.2 with
    | none => none
    | some x => some ⟨s.1, natOfDigits (ip.1 ++ fp.1), fp.1.length, x⟩

/-! ### big.Float -/

inductive BF where
  | zero (neg : Bool)
  | inf (neg : Bool)
  | fin (neg : Bool) (m : Nat) (e : Int)      -- value (−1)^neg · m · 2^e, m > 0
  | nan                                        -- the operation panics with big.ErrNaN
deriving Repr, DecidableEq

/-- math/big's exponent of `m·2^e` written as 0.1xxx·2^exp -/
def goExp (m : Nat) (e : Int) : Int := e + bitlen m

/-- round-to-nearest-even of `m·2^e (+ a positive amount below one unit of m if sticky)` to `p`
    mantissa bits.  (`Float.round`: increment iff rbit ∧ (sbit ∨ lsb).) -/
def rne (p : Nat) (m : Nat) (e : Int) (sticky : Bool) : Nat × Int :=
  let b := bitlen m
  if b ≤ p then (m, e)
  else
    let r := b - p
    let hi := m / 2 ^ r
    let lo := m % 2 ^ r
    let half := 2 ^ (r - 1)
    if lo > half ∨ (lo = half ∧ (sticky = true ∨ hi % 2 = 1)) then (hi + 1, e + r) else (hi, e + r)

/-- `setExpAndRound`: under/overflow tests on the exponent, then `round` (whose mantissa carry may
    overflow the exponent once more) -/
def norm (p : Nat) (neg : Bool) (m : Nat) (e : Int) (sticky : Bool) : BF :=
  if m = 0 then .zero neg
  else if goExp m e < minExp then .zero neg
  else if goExp m e > maxExp then .inf neg
  else
    let r := rne p m e sticky
    if goExp r.1 r.2 > maxExp then .inf neg else .fin neg r.1 r.2

def ofInt (i : Int) : BF := if i = 0 then .zero false else .fin (i < 0) i.natAbs 0

def BF.negate : BF → BF
  | .zero n => .zero (!n)
  | .inf n => .inf (!n)
  | .fin n m e => .fin (!n) m e
  | .nan => .nan

/-- z.Mul(x, y) at precision p -/
def mul (p : Nat) : BF → BF → BF
  | .fin nx mx ex, .fin ny my ey => norm p (nx != ny) (mx * my) (ex + ey) false
  | .nan, _ => .nan
  | _, .nan => .nan
  | .zero _, .inf _ => .nan
  | .inf _, .zero _ => .nan
  | .inf nx, .inf ny => .inf (nx != ny)
  | .inf nx, .fin ny _ _ => .inf (nx != ny)
  | .fin nx _ _, .inf ny => .inf (nx != ny)
  | .zero nx, .zero ny => .zero (nx != ny)
  | .zero nx, .fin ny _ _ => .zero (nx != ny)
  | .fin nx _ _, .zero ny => .zero (nx != ny)

/-- z.Quo(x, y) at precision p: the quotient is computed with at least p+2 bits plus a sticky
    remainder bit, i.e. it is the correctly rounded quotient (uquo) -/
def quo (p : Nat) : BF → BF → BF
  | .fin nx mx ex, .fin ny my ey =>
    let s := p + 2 + bitlen my - bitlen mx
    let a := mx * 2 ^ s
    norm p (nx != ny) (a / my) (ex - ey - s) (a % my != 0)
  | .nan, _ => .nan
  | _, .nan => .nan
  | .zero _, .zero _ => .nan
  | .inf _, .inf _ => .nan
  | .zero nx, .fin ny _ _ => .zero (nx != ny)
  | .zero nx, .inf ny => .zero (nx != ny)
  | .fin nx _ _, .inf ny => .zero (nx != ny)
  | .fin nx _ _, .zero ny => .inf (nx != ny)
  | .inf nx, .fin ny _ _ => .inf (nx != ny)
  | .inf nx, .zero ny => .inf (nx != ny)

/-- signed integer numerator of a finite value on the exponent grid `e0 ≤ e` -/
def scaled (neg : Bool) (m : Nat) (e e0 : Int) : Int :=
  let v : Int := m * 2 ^ (e - e0).toNat
  if neg then -v else v

/-- z.Sub(x, y) at precision p (rounding mode ToNearestEven: an exact zero is +0) -/
def sub (p : Nat) : BF → BF → BF
  | .fin nx mx ex, .fin ny my ey =>
    let e0 := if ex ≤ ey then ex else ey
    let d := scaled nx mx ex e0 - scaled ny my ey e0
    if d = 0 then .zero false else norm p (d < 0) d.natAbs e0 false
  | .nan, _ => .nan
  | _, .nan => .nan
  | .inf nx, .inf ny => if nx = ny then .nan else .inf nx
  | .zero nx, .zero ny => .zero (nx && !ny)
  | .inf nx, _ => .inf nx
  | x, .zero _ => x
  | .zero _, y => y.negate
  | .fin _ _ _, .inf ny => .inf (!ny)

/-- 5^0 … 5^27: `pow5tab` -/
def pow5tabMax : Nat := 27

/-- the square-and-multiply loop of `Float.pow5` (z at precision pz, f at precision pz+64) -/
def pow5Loop (pz : Nat) : Nat → Nat → BF → BF → BF
  | 0, _, z, _ => z
  | fuel + 1, n, z, f =>
    if n = 0 then z
    else
      let z' := if n % 2 = 1 then mul pz z f else z
      pow5Loop pz fuel (n / 2) z' (mul (pz + 64) f f)

/-- `new(Float).SetPrec(pz).pow5(n)` -/
def pow5 (pz : Nat) (n : Nat) : BF :=
  if n ≤ pow5tabMax then .fin false (5 ^ n) 0
  else pow5Loop pz 64 (n - pow5tabMax) (.fin false (5 ^ pow5tabMax) 0) (.fin false 5 0)

/-- `Float.scan` for a decimal literal at precision p; `none` = "exponent overflow" error -/
def scan (p : Nat) (l : Lit) : Option BF :=
  if l.mant = 0 then some (.zero l.neg)
  else
    let exp5 : Int := l.exp - l.fd
    let exp2 : Int := bitlen l.mant + exp5
    if exp2 < minExp ∨ exp2 > maxExp then none
    else if exp5 = 0 then some (norm p l.neg l.mant 0 false)
    else
      let z0 := BF.fin l.neg l.mant exp5
      let p5 := pow5 (p + 64) exp5.natAbs
      if exp5 < 0 then some (quo p z0 p5) else some (mul p z0 p5)

/-- `Float.Int64`: (value, acc == Exact) -/
def toInt64 : BF → Int × Bool
  | .zero _ => (0, true)
  | .inf n => (if n then minInt64 else maxInt64, false)
  | .nan => (0, false)
  | .fin neg m e =>
    let ge := goExp m e
    if ge ≤ 0 then (0, false)
    else if ge ≤ 63 then
      let t : Nat := if e ≥ 0 then m * 2 ^ e.toNat else m / 2 ^ (-e).toNat
      let exact : Bool := if e ≥ 0 then true else m % 2 ^ (-e).toNat = 0
      (if neg then -(t : Int) else t, exact)
    else if neg then
      -- x == MinInt64 is the one exact case: exp 64 and a single mantissa bit
      (minInt64, ge = 64 ∧ m = 2 ^ (bitlen m - 1))
    else (maxInt64, false)

/-- `int64(math.Trunc(x.Float64()))` with the amd64 conversion (out of range, ±Inf ⇒ MinInt64).
    A result with exponent below the normal range is at most 2^-1022 in magnitude whatever the
    denormal rounding does, so its truncation is 0. -/
def f64TruncI64 : BF → Int
  | .zero _ => 0
  | .inf _ => minInt64
  | .nan => minInt64
  | .fin neg m e =>
    if goExp m e - 1 < -1022 then 0
    else
      let r := rne 53 m e false
      if goExp r.1 r.2 - 1 > 1023 then minInt64
      else
        let t : Nat := if r.2 ≥ 0 then r.1 * 2 ^ r.2.toNat else r.1 / 2 ^ (-r.2).toNat
        let v : Int := if neg then -(t : Int) else t
        if v < minInt64 ∨ v > maxInt64 then minInt64 else v

/-- `if sec > maxEpoch || sec < -maxEpoch { return error }` then `time.Unix(sec, ns)` -/
def gate (sec ns : Int) : Outcome (Int × Int) :=
  if sec > maxEpoch ∨ sec < -maxEpoch then .err "range" else .ok (sec, ns)

/-- the two carry adjustments on (wrapping) int64 values, then the range check -/
def carry (sec ns0 : Int) : Outcome (Int × Int) :=
  let c1 : Bool := ns0 ≥ e9
  let ns1 := if c1 then wrapI64 (ns0 - e9) else ns0
  let sec1 := if c1 then wrapI64 (sec + 1) else sec
  let c2 : Bool := ns1 ≤ -e9
  let ns2 := if c2 then wrapI64 (ns1 + e9) else ns1
  let sec2 := if c2 then wrapI64 (sec1 - 1) else sec1
  gate sec2 ns2

/-- the nanosecond computation: `z.Sub(z, sec)`, `z.Mul(z, 1e9)`, `Float64`, `Trunc`, `int64` -/
def fracNs (z : BF) (sec : Int) : BF := mul 128 (sub 128 z (ofInt sec)) (ofInt e9)

/-- outcome of UnmarshalJSON on a literal: the `(sec, nsec)` handed to `time.Unix` -/
def decodeLit (l : Lit) : Outcome (Int × Int) :=
  match scan 128 l with
  | none => .err "parse"
  | some z =>
    if (toInt64 z).2 then gate (toInt64 z).1 0
    else
      match fracNs z (toInt64 z).1 with
      | .nan => .panic "big.ErrNaN"
      | z2 => carry (toInt64 z).1 (f64TruncI64 z2)

/-- instant (ns) of `time.Unix(sec, nsec)` -/
def unix (sn : Int × Int) : Int := sn.1 * e9 + sn.2

def decodeChars (cs : List Char) : Outcome Int :=
  match lex cs with
  | none => .err "parse"
  | some l => (decodeLit l).bind (fun sn => .ok (unix sn))

/-- NumericDate.UnmarshalJSON on the text of a json.Number -/
def decode (s : String) : Outcome Int := decodeChars s.toList

/-! ### MarshalJSON -/

def digitChar (d : Nat) : Char := Char.ofNat (48 + d)

def natDigitsAux : Nat → Nat → List Char → List Char
  | 0, _, acc => acc
  | fuel + 1, n, acc =>
    if n / 10 = 0 then digitChar (n % 10) :: acc
    else natDigitsAux fuel (n / 10) (digitChar (n % 10) :: acc)

/-- strconv.AppendInt for a non-negative value -/
def natDigits (n : Nat) : List Char := natDigitsAux (n + 1) n []

/-- the fractional digit loop: `for nsec != 0 { d := nsec / digits; …; nsec %= digits; digits /= 10 }` -/
def fracDigits : Nat → Nat → Nat → List Char
  | 0, _, _ => []
  | fuel + 1, nsec, dg =>
    if nsec = 0 then [] else digitChar (nsec / dg) :: fracDigits fuel (nsec % dg) (dg / 10)

/-- MarshalJSON of the instant `t` (ns): `date.Unix()` is the floor of t/1e9, `date.Nanosecond()`
    the non-negative remainder -/
def encodeChars (t : Int) : Outcome (List Char) :=
  let sec0 : Int := t / e9
  let nsec0 : Int := t % e9
  let flip : Bool := sec0 < 0 ∧ nsec0 ≠ 0
  let sec1 : Int := if flip then sec0 + 1 else sec0
  let nsec : Int := if flip then e9 - nsec0 else nsec0
  let sec : Int := if flip ∧ sec1 < 0 then -sec1 else sec1
  if sec > maxEpoch ∨ sec < -maxEpoch then .err "range"
  else
    let sign : List Char := if flip then ['-'] else []
    let ip : List Char := if sec < 0 then '-' :: natDigits sec.natAbs else natDigits sec.natAbs
    let fp : List Char := if nsec = 0 then [] else '.' :: fracDigits 9 nsec.toNat 100000000
    .ok (sign ++ ip ++ fp)

def encode (t : Int) : Outcome String := (encodeChars t).bind (fun cs => .ok (String.ofList cs))

/-- the zero `time.Time` (January 1, year 1 UTC) as an instant; `IsZero` -/
def zeroTime : Int := -62135596800 * e9

end Model.NumericDate
