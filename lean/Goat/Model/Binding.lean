import Goat.Base.Prog
import Goat.Gen.Consts
/-
C03 — algorithm allow-list, key/algorithm binding and key-use limits.

Model of goat's *decision logic* (which key is accepted by which algorithm, which operation a key
may perform, which algorithm a verifier accepts).  Key material is abstracted to its dynamic Go type
and size (`Mat`), because every decision in the Go code is a type switch / length / bit-length /
curve-identity comparison; the outcome of a cryptographic primitive itself (does the MAC match,
does RSA decryption succeed, do the two ECDH keys agree) is an oracle query `c03.prim.*`.

Mirrors (file:function):
  jwk/jwktypes/jwktypes.go  CanUseFor / checkKeyOps / checkKeyUse
  jwa/jwa.go                signatureAlgorithms / keyManagementAlgorithms, New, Available
  jwa/{hs,rs,ps,es,eddsa,none}  NewSigningKey, Sign, Verify
  jwa/{akw,agcmkw,dir,ecdhes,pbes2,rsaoaep,rsapkcs1v15}  NewKeyWrapper, WrapKey, UnwrapKey, DeriveKey
  sig/sig.go                NewInvalidKey / NewErrorKey
  keymanage/keymanage.go    NewInvalidKeyWrapper
  jws/verifier.go           AllowedAlgorithms, UnsecureAnyAlgorithm, Verifier.verify (loop)
  jws/key_finder.go         JWKKeyFinder.FindKey
  jwt/parser.go             Parser.Parse (allow-list → key finder → verify → claims)
  jwt/key_finder.go         guessAlg, JWKKeyFiner
-/
namespace Model.Binding
open Gen.Consts

/-! ## key material -/

/-- identity of the `elliptic.Curve` stored in an `*ecdsa.{Private,Public}Key`.
    `other` = any curve value that is none of the four singletons goat compares with
    (P-224, a copied `CurveParams`, …). -/
inductive Crv where
  | p256 | p384 | p521 | secp256k1 | other
deriving DecidableEq, Repr, Inhabited

/-- curve of a `crypto/ecdh` key -/
inductive DhCrv where
  | p256 | p384 | p521 | x25519
deriving DecidableEq, Repr, Inhabited

/-- dynamic type (and size) of what `PrivateKey()` / `PublicKey()` returns -/
inductive Mat where
  | nil                       -- untyped nil
  | bytes (len : Nat)         -- []byte
  | rsaPriv (bits : Nat)      -- *rsa.PrivateKey, bits = PublicKey.N.BitLen()
  | rsaPub (bits : Nat)       -- *rsa.PublicKey
  | ecdsaPriv (c : Crv)       -- *ecdsa.PrivateKey
  | ecdsaPub (c : Crv)        -- *ecdsa.PublicKey
  | ed25519Priv | ed25519Pub  -- crypto/ed25519
  | ed448Priv | ed448Pub      -- goat/ed448
  | x25519Priv | x25519Pub    -- goat/x25519
  | x448Priv | x448Pub        -- goat/x448
  | ecdhPriv (c : DhCrv)      -- *ecdh.PrivateKey
  | ecdhPub (c : DhCrv)       -- *ecdh.PublicKey
  | other                     -- any other dynamic type
deriving DecidableEq, Repr, Inhabited

/-- a `sig.Key` / `keymanage.Key` as goat sees it: the two accessors plus the JWK metadata
    (`use`: "" = absent; `keyOps`: `none` = nil slice; `alg`: "" = absent).  A key type that
    does not implement `PublicKeyUse`/`KeyOperations` behaves like absent metadata. -/
structure Key where
  priv : Mat
  pub : Mat
  use : String := ""
  keyOps : Option (List String) := none
  alg : String := ""
deriving DecidableEq, Repr, Inhabited

/-- the key kinds of the property statement, i.e. what `jwk.NewPrivateKey` / `jwk.NewPublicKey` /
    `jwk.ParseKey` can build -/
inductive KeyKind where
  | oct (len : Nat)
  | rsaPriv (bits : Nat) | rsaPub (bits : Nat)
  | ecPriv (c : Crv) | ecPub (c : Crv)
  | ed25519Priv | ed25519Pub | ed448Priv | ed448Pub
  | x25519Priv | x25519Pub | x448Priv | x448Pub
  | ecdhPriv (c : DhCrv) | ecdhPub (c : DhCrv)
  | empty                     -- &jwk.Key{} : neither private nor public part
deriving DecidableEq, Repr, Inhabited

/-- `(PrivateKey(), PublicKey())` of a jwk.Key of the given kind
    (jwk.go NewPrivateKey: `pub: key.Public()`; []byte has no Public method) -/
def KeyKind.mats : KeyKind → Mat × Mat
  | .oct n => (.bytes n, .nil)
  | .rsaPriv b => (.rsaPriv b, .rsaPub b)
  | .rsaPub b => (.nil, .rsaPub b)
  | .ecPriv c => (.ecdsaPriv c, .ecdsaPub c)
  | .ecPub c => (.nil, .ecdsaPub c)
  | .ed25519Priv => (.ed25519Priv, .ed25519Pub)
  | .ed25519Pub => (.nil, .ed25519Pub)
  | .ed448Priv => (.ed448Priv, .ed448Pub)
  | .ed448Pub => (.nil, .ed448Pub)
  | .x25519Priv => (.x25519Priv, .x25519Pub)
  | .x25519Pub => (.nil, .x25519Pub)
  | .x448Priv => (.x448Priv, .x448Pub)
  | .x448Pub => (.nil, .x448Pub)
  | .ecdhPriv c => (.ecdhPriv c, .ecdhPub c)
  | .ecdhPub c => (.nil, .ecdhPub c)
  | .empty => (.nil, .nil)

def KeyKind.toKey (kk : KeyKind) (use : String := "") (keyOps : Option (List String) := none)
    (alg : String := "") : Key :=
  { priv := kk.mats.1, pub := kk.mats.2, use := use, keyOps := keyOps, alg := alg }

/-! ## jwktypes.CanUseFor -/

/-- checkKeyOps: nil slice permits everything; otherwise the op must be listed -/
def checkKeyOps (k : Key) (op : String) : Bool :=
  match k.keyOps with
  | none => true
  | some ops => ops.contains op

/-- checkKeyUse: the `switch use` of jwktypes.go ("sig" covers both directions of a signature,
    "enc" both directions of encryption / key wrapping / key agreement) -/
def checkKeyUse (k : Key) (op : String) : Bool :=
  if k.use = jwk_jwktypes.KeyUseUnknown then true
  else if k.use = jwk_jwktypes.KeyUseSig then
    op == jwk_jwktypes.KeyOpSign || op == jwk_jwktypes.KeyOpVerify
  else if k.use = jwk_jwktypes.KeyUseEnc then
    op == jwk_jwktypes.KeyOpEncrypt || op == jwk_jwktypes.KeyOpDecrypt
      || op == jwk_jwktypes.KeyOpWrapKey || op == jwk_jwktypes.KeyOpUnwrapKey
      || op == jwk_jwktypes.KeyOpDeriveKey
  else false

def canUseFor (k : Key) (op : String) : Bool := checkKeyOps k op && checkKeyUse k op

abbrev opSign := jwk_jwktypes.KeyOpSign
abbrev opVerify := jwk_jwktypes.KeyOpVerify
abbrev opWrapKey := jwk_jwktypes.KeyOpWrapKey
abbrev opUnwrapKey := jwk_jwktypes.KeyOpUnwrapKey
abbrev opDeriveKey := jwk_jwktypes.KeyOpDeriveKey
abbrev opEncrypt := jwk_jwktypes.KeyOpEncrypt
abbrev opDecrypt := jwk_jwktypes.KeyOpDecrypt

/-! ## signature algorithms -/

inductive Hash where
  | sha1 | sha256 | sha384 | sha512
deriving DecidableEq, Repr, Inhabited

/-- crypto.Hash.Size() -/
def Hash.size : Hash → Nat
  | .sha1 => 20 | .sha256 => 32 | .sha384 => 48 | .sha512 => 64

/-- the constructors of the signature packages (`weak` = the …Weak variants) -/
inductive SigCtor where
  | hs (h : Hash) (weak : Bool)
  | rs (h : Hash) (weak : Bool)
  | ps (h : Hash) (weak : Bool)
  | es (c : Crv) (h : Hash)
  | eddsa
  | none
deriving DecidableEq, Repr, Inhabited

/-- the `init()` registrations: algorithm name ↦ default constructor -/
def sigRegistry : List (String × SigCtor) := [
  (jwa.HS256, .hs .sha256 false), (jwa.HS384, .hs .sha384 false), (jwa.HS512, .hs .sha512 false),
  (jwa.RS256, .rs .sha256 false), (jwa.RS384, .rs .sha384 false), (jwa.RS512, .rs .sha512 false),
  (jwa.ES256, .es .p256 .sha256), (jwa.ES384, .es .p384 .sha384), (jwa.ES512, .es .p521 .sha512),
  (jwa.PS256, .ps .sha256 false), (jwa.PS384, .ps .sha384 false), (jwa.PS512, .ps .sha512 false),
  (jwa.None, .none), (jwa.EdDSA, .eddsa), (jwa.ES256K, .es .secp256k1 .sha256)]

/-- first binding of a name -/
def lookupName {α} (n : String) : List (String × α) → Option α
  | [] => Option.none
  | (m, a) :: rest => if n = m then some a else lookupName n rest

def sigLookup (alg : String) : Option SigCtor := lookupName alg sigRegistry

/-- jwa.SignatureAlgorithm.Available -/
def sigAvailable (alg : String) : Bool := (sigLookup alg).isSome

/-- jwa.SignatureAlgorithm.New: panics when the name is not registered -/
def sigNew (alg : String) : Outcome SigCtor :=
  match sigLookup alg with
  | some c => .ok c
  | Option.none => .panic "jwa.SignatureAlgorithm.New"

/-- (bits+7)/8 of the curve of an ES algorithm -/
def Crv.byteSize : Crv → Nat
  | .p256 => 32 | .p384 => 48 | .p521 => 66 | .secp256k1 => 32
  | .other => 0   -- never reached: a constructed ecdsa key carries the algorithm's curve

/-- what NewSigningKey returns -/
inductive SigningKey where
  | invalid                                    -- sig.NewInvalidKey: Sign and Verify always fail
  | errKey                                     -- sig.NewErrorKey (weak key)
  | hmac (h : Hash) (len : Nat) (canSign canVerify : Bool)
  | rsa (pss : Bool) (h : Hash) (hasPriv : Bool) (pubBits : Nat) (canSign canVerify : Bool)
  | ecdsa (h : Hash) (priv pub : Option Crv) (canSign canVerify : Bool)
  | ed25519 (hasPriv : Bool) (canSign canVerify : Bool)
  | ed448 (hasPriv : Bool) (canSign canVerify : Bool)
  | none
deriving DecidableEq, Repr, Inhabited

/-- rs.NewSigningKey and ps.NewSigningKey (same text) -/
def newRSAKey (pss : Bool) (h : Hash) (weak : Bool) (k : Key) : SigningKey :=
  let cs := canUseFor k opSign
  let cv := canUseFor k opVerify
  -- priv.(*rsa.PrivateKey) / else if priv != nil
  match (match k.priv with
         | .rsaPriv b => some (some b)
         | .nil => some Option.none
         | _ => Option.none) with
  | Option.none => .invalid
  | some priv =>
    -- pub.(*rsa.PublicKey) / else if pub != nil
    match (match k.pub with
           | .rsaPub b => some (some b)
           | .nil => some Option.none
           | _ => Option.none) with
    | Option.none => .invalid
    | some pub =>
      -- if k.privateKey != nil && k.publicKey == nil { k.publicKey = &k.privateKey.PublicKey }
      let pub := match priv, pub with
        | some b, Option.none => some b
        | _, p => p
      match pub with
      | Option.none => .invalid
      | some bits =>
        if !weak && bits < 2048 then .errKey
        else .rsa pss h priv.isSome bits cs cv

/-- `k.priv != nil && k.priv.Curve != alg.crv` -/
def crvMismatch (crv : Crv) : Option Crv → Bool
  | some c => decide (c ≠ crv)
  | Option.none => false

/-- es.NewSigningKey -/
def newECDSAKey (crv : Crv) (h : Hash) (k : Key) : SigningKey :=
  let cs := canUseFor k opSign
  let cv := canUseFor k opVerify
  match (match k.priv with
         | .ecdsaPriv c => some (some c)
         | .nil => some Option.none
         | _ => Option.none) with
  | Option.none => .invalid
  | some priv =>
    -- `if key, ok := pub.(*ecdsa.PublicKey); ok {…} else if priv != nil { invalid }`  (sic: priv)
    match (match k.pub with
           | .ecdsaPub c => some (some c)
           | _ => if k.priv = Mat.nil then some Option.none else Option.none) with
    | Option.none => .invalid
    | some pub =>
      if crvMismatch crv priv then .invalid
      else if crvMismatch crv pub then .invalid
      else
        let pub := match priv, pub with
          | some c, Option.none => some c
          | _, p => p
        .ecdsa h priv pub cs cv

/-- eddsa.NewSigningKey -/
def newEdDSAKey (k : Key) : SigningKey :=
  let cs := canUseFor k opSign
  let cv := canUseFor k opVerify
  match k.priv with
  | .ed25519Priv => if k.pub = .ed25519Pub then .ed25519 true cs cv else .invalid
  | .ed448Priv => if k.pub = .ed448Pub then .ed448 true cs cv else .invalid
  | .nil =>
    match k.pub with
    | .ed25519Pub => .ed25519 false cs cv
    | .ed448Pub => .ed448 false cs cv
    | _ => .invalid
  | _ => .invalid

/-- hs.NewSigningKey -/
def newHMACKey (h : Hash) (weak : Bool) (k : Key) : SigningKey :=
  match k.priv with
  | .bytes n =>
    if k.pub ≠ Mat.nil then .invalid
    else if !weak && n < h.size then .errKey
    else .hmac h n (canUseFor k opSign) (canUseFor k opVerify)
  | _ => .invalid

/-- `alg.NewSigningKey(key)`.  `key = none` is the nil interface: every package except `none`
    calls a method on it first (nil-interface method call panics). -/
def newSigningKey (c : SigCtor) (key : Option Key) : Outcome SigningKey :=
  match c, key with
  | .none, Option.none => .ok .none
  | .none, some _ => .ok .invalid
  | _, Option.none => .panic "NewSigningKey.nilkey"
  | .hs h weak, some k => .ok (newHMACKey h weak k)
  | .rs h weak, some k => .ok (newRSAKey false h weak k)
  | .ps h weak, some k => .ok (newRSAKey true h weak k)
  | .es crv h, some k => .ok (newECDSAKey crv h k)
  | .eddsa, some k => .ok (newEdDSAKey k)

/-- a primitive whose success the standard library decides -/
def prim (name : String) (args : List Wire) : PO Unit := do
  let r ← PO.query name args
  if r.asBool then pure () else PO.fail "prim"

def SigningKey.family : SigningKey → String
  | .invalid => "invalid" | .errKey => "err" | .hmac .. => "hmac"
  | .rsa false .. => "rsa-pkcs1" | .rsa true .. => "rsa-pss" | .ecdsa .. => "ecdsa"
  | .ed25519 .. => "ed25519" | .ed448 .. => "ed448" | .none => "none"

/-- SigningKey.Sign -/
def sign (sk : SigningKey) : PO Unit :=
  match sk with
  | .invalid => PO.fail "invalid-key"
  | .errKey => PO.fail "weak-key"
  | .hmac _ _ cs _ => if !cs then PO.fail "op-not-allowed" else pure ()
  | .rsa _ _ hasPriv _ cs _ =>
    if !hasPriv || !cs then PO.fail "op-not-allowed" else prim "c03.prim.sign" [.str sk.family]
  | .ecdsa _ priv _ cs _ =>
    if priv.isNone || !cs then PO.fail "op-not-allowed" else prim "c03.prim.sign" [.str sk.family]
  -- eddsa.go: `if key.priv == nil || !key.canSign { return nil, sig.ErrSignUnavailable }`
  | .ed25519 hasPriv cs _ =>
    if !hasPriv || !cs then PO.fail "op-not-allowed" else pure ()
  | .ed448 hasPriv cs _ =>
    if !hasPriv || !cs then PO.fail "op-not-allowed" else pure ()
  | .none => pure ()

/-- SigningKey.Verify on a signature of `sigLen` bytes; `ctx` only names the (payload, signature)
    pair in the oracle query -/
def verify (sk : SigningKey) (sigLen : Nat) (ctx : Wire := .none) : PO Unit :=
  match sk with
  | .invalid => PO.fail "invalid-key"
  | .errKey => PO.fail "weak-key"
  | .hmac _ _ _ cv =>
    if !cv then PO.fail "op-not-allowed" else prim "c03.prim.verify" [.str sk.family, ctx]
  | .rsa _ _ _ _ _ cv =>
    if !cv then PO.fail "op-not-allowed" else prim "c03.prim.verify" [.str sk.family, ctx]
  | .ecdsa _ _ pub _ cv =>
    match pub with
    | Option.none => PO.fail "op-not-allowed"
    | some c =>
      if !cv then PO.fail "op-not-allowed"
      else if sigLen ≠ 2 * c.byteSize then PO.fail "sig-mismatch"
      else prim "c03.prim.verify" [.str sk.family, ctx]
  | .ed25519 _ _ cv =>
    if !cv then PO.fail "op-not-allowed" else prim "c03.prim.verify" [.str sk.family, ctx]
  | .ed448 _ _ cv =>
    if !cv then PO.fail "op-not-allowed" else prim "c03.prim.verify" [.str sk.family, ctx]
  | .none => if sigLen ≠ 0 then PO.fail "sig-mismatch" else pure ()

/-! ## key-management algorithms -/

inductive KwCtor where
  | rsa15 (weak : Bool)
  | oaep (h : Hash) (weak : Bool)
  | akw (size : Nat)
  | dir
  | ecdhes (size : Nat)          -- 0 = direct key agreement (inner algorithm `dir`)
  | gcmkw (size : Nat)
  | pbes2 (h : Hash) (size : Nat)
deriving DecidableEq, Repr, Inhabited

def kwRegistry : List (String × KwCtor) := [
  (jwa.RSA1_5, .rsa15 false), (jwa.RSA_OAEP, .oaep .sha1 false), (jwa.RSA_OAEP_256, .oaep .sha256 false),
  (jwa.A128KW, .akw 16), (jwa.A192KW, .akw 24), (jwa.A256KW, .akw 32),
  (jwa.Direct, .dir),
  (jwa.ECDH_ES, .ecdhes 0), (jwa.ECDH_ES_A128KW, .ecdhes 16), (jwa.ECDH_ES_A192KW, .ecdhes 24),
  (jwa.ECDH_ES_A256KW, .ecdhes 32),
  (jwa.A128GCMKW, .gcmkw 16), (jwa.A192GCMKW, .gcmkw 24), (jwa.A256GCMKW, .gcmkw 32),
  (jwa.PBES2_HS256_A128KW, .pbes2 .sha256 16), (jwa.PBES2_HS384_A192KW, .pbes2 .sha384 24),
  (jwa.PBES2_HS512_A256KW, .pbes2 .sha512 32)]

def kwLookup (alg : String) : Option KwCtor := lookupName alg kwRegistry
def kwAvailable (alg : String) : Bool := (kwLookup alg).isSome
def kwNew (alg : String) : Outcome KwCtor :=
  match kwLookup alg with
  | some c => .ok c
  | Option.none => .panic "jwa.KeyManagementAlgorithm.New"

inductive KeyWrapper where
  | invalid                                      -- keymanage.NewInvalidKeyWrapper
  | akw (size : Nat) (canWrap canUnwrap : Bool)
  | gcmkw (size : Nat) (canWrap canUnwrap : Bool)
  | dir (len : Nat) (canEncrypt canDecrypt : Bool)
  | rsa (oaep : Bool) (priv pub : Option Nat) (canWrap canUnwrap : Bool)
  | ecdhes (priv : Mat) (size : Nat) (canDerive : Bool)
  | pbes2 (len size : Nat) (canDerive : Bool)
deriving DecidableEq, Repr, Inhabited

/-- rsaoaep.NewKeyWrapper (`oaep = true`: a nil public key is refused) and
    rsapkcs1v15.NewKeyWrapper (`oaep = false`: `!ok && publicKey != nil`); the default constructors
    refuse moduli below 2048 bits (RFC 7518 §4.2, §4.3), `weak` = NewWeak / New256Weak -/
def newRSAWrapper (oaep weak : Bool) (k : Key) : KeyWrapper :=
  match (match k.priv with
         | .rsaPriv b => some (some b)
         | .nil => some Option.none
         | _ => Option.none) with
  | Option.none => .invalid
  | some priv =>
    match (match k.pub with
           | .rsaPub b => some (some b)
           | .nil => if oaep then Option.none else some Option.none
           | _ => Option.none) with
    | Option.none => .invalid
    | some pub =>
      -- size of priv.N if there is a private key, else of pub.N (0 when neither, rsapkcs1v15 only)
      let size := match priv, pub with
        | some b, _ => b
        | Option.none, some b => b
        | Option.none, Option.none => 0
      if !weak && size < 2048 then .invalid
      else match priv with
        | some b => .rsa oaep (some b) (some b) (canUseFor k opWrapKey) (canUseFor k opUnwrapKey)
        | Option.none => .rsa oaep Option.none pub (canUseFor k opWrapKey) false

/-- `alg.NewKeyWrapper(key)` -/
def newKeyWrapper (c : KwCtor) (key : Option Key) : Outcome KeyWrapper :=
  match key with
  | Option.none => .panic "NewKeyWrapper.nilkey"
  | some k =>
    match c with
    | .rsa15 weak => .ok (newRSAWrapper false weak k)
    | .oaep _ weak => .ok (newRSAWrapper true weak k)
    | .akw size =>
      match k.priv with
      | .bytes n => if n ≠ size then .ok .invalid
                    else .ok (.akw size (canUseFor k opWrapKey) (canUseFor k opUnwrapKey))
      | _ => .ok .invalid
    | .gcmkw size =>
      match k.priv with
      | .bytes n => if n ≠ size then .ok .invalid
                    else .ok (.gcmkw size (canUseFor k opWrapKey) (canUseFor k opUnwrapKey))
      | _ => .ok .invalid
    | .dir =>
      match k.priv with
      | .bytes n => .ok (.dir n (canUseFor k opEncrypt) (canUseFor k opDecrypt))
      | _ => .ok .invalid
    | .ecdhes size => .ok (.ecdhes k.priv size (canUseFor k opDeriveKey))   -- no type check here
    | .pbes2 _ size =>
      match k.priv with
      | .bytes n => .ok (.pbes2 n size (canUseFor k opDeriveKey))
      | _ => .ok .invalid

/-- the part of `opts` and of the byte arguments the decisions depend on; `opts` itself is assumed
    complete (implements every getter/setter the algorithm asks for) -/
structure KwArgs where
  cekLen : Nat := 16         -- len(cek) given to WrapKey
  dataLen : Nat := 24        -- len(data) given to UnwrapKey
  epk : Mat := .nil          -- opts.EphemeralPublicKey().PublicKey()
  encCekSize : Nat := 16     -- opts.Encryption().CEKSize()
deriving Repr, Inhabited

def DhCrv.name : DhCrv → String
  | .p256 => "P-256" | .p384 => "P-384" | .p521 => "P-521" | .x25519 => "X25519"
def Crv.name : Crv → String
  | .p256 => "P-256" | .p384 => "P-384" | .p521 => "P-521" | .secp256k1 => "secp256k1" | .other => "other"

/-- ecdhes.deriveZ (go1.20 file): type switch on the private key, type assertion on the peer key,
    then crypto/ecdh (oracle: curve support and curve agreement are the standard library's checks;
    x448 is goat's own X448 whose only failure is the all-zero output) -/
def deriveZ (priv epk : Mat) : PO Unit :=
  match priv with
  | .x25519Priv =>
    if epk = .x25519Pub then prim "c03.prim.ecdh" [.str "x25519", .str "X25519", .str "X25519"]
    else PO.fail "ecdh-type"
  | .x448Priv =>
    if epk = .x448Pub then prim "c03.prim.ecdh" [.str "x448", .str "X448", .str "X448"]
    else PO.fail "ecdh-type"
  | .ecdsaPriv c =>
    match epk with
    | .ecdsaPub c' => prim "c03.prim.ecdh" [.str "ecdsa", .str c.name, .str c'.name]
    | _ => PO.fail "ecdh-type"
  | .ecdhPriv c =>
    match epk with
    | .ecdhPub c' => prim "c03.prim.ecdh" [.str "ecdh", .str c.name, .str c'.name]
    | _ => PO.fail "ecdh-type"
  | _ => PO.fail "ecdh-type"

/-- akw keyWrapper.WrapKey on a key of a valid AES size with both permissions
    (`akw.NewKeyWrapper(dk)`, `alg.NewKeyWrapper(bytesKey(key))`) -/
def akwWrapCore (cekLen : Nat) : PO Unit :=
  if cekLen % 8 ≠ 0 then PO.fail "cek-len" else pure ()

def akwUnwrapCore (dataLen : Nat) : PO Unit :=
  if dataLen % 8 ≠ 0 ∨ dataLen < 16 then PO.fail "cek-len"
  else prim "c03.prim.unwrap" [.str "akw"]

/-- KeyWrapper.WrapKey -/
def wrapKey (kw : KeyWrapper) (a : KwArgs) : PO Unit :=
  match kw with
  | .invalid => PO.fail "invalid-key"
  | .akw _ cw _ =>
    if a.cekLen % 8 ≠ 0 then PO.fail "cek-len"
    else if !cw then PO.fail "op-not-allowed"
    else pure ()
  | .gcmkw _ cw _ => if !cw then PO.fail "op-not-allowed" else pure ()
  | .dir _ ce _ => if !ce then PO.fail "op-not-allowed" else pure ()
  | .rsa oaep _ pub cw _ =>
    if !cw then PO.fail "op-not-allowed"
    else match pub with
      | Option.none => PO.panic "rsa.Encrypt.nilpub"      -- rsa.EncryptPKCS1v15(rand, nil, cek)
      | some _ => prim "c03.prim.wrap" [.str (if oaep then "rsa-oaep" else "rsa-pkcs1")]
  | .ecdhes _ _ _ => pure ()                              -- returns []byte{} unconditionally
  | .pbes2 _ _ cd =>
    if !cd then PO.fail "op-not-allowed" else akwWrapCore a.cekLen

/-- KeyWrapper.UnwrapKey -/
def unwrapKey (kw : KeyWrapper) (a : KwArgs) : PO Unit :=
  match kw with
  | .invalid => PO.fail "invalid-key"
  | .akw _ _ cu =>
    if a.dataLen % 8 ≠ 0 ∨ a.dataLen < 16 then PO.fail "cek-len"
    else if !cu then PO.fail "op-not-allowed"
    else prim "c03.prim.unwrap" [.str "akw"]
  | .gcmkw _ _ cu =>
    if !cu then PO.fail "op-not-allowed" else prim "c03.prim.unwrap" [.str "gcmkw"]
  | .dir _ _ cd => if !cd then PO.fail "op-not-allowed" else pure ()
  | .rsa oaep _ _ _ cu =>
    if !cu then PO.fail "op-not-allowed"
    else prim "c03.prim.unwrap" [.str (if oaep then "rsa-oaep" else "rsa-pkcs1")]
  | .ecdhes priv size cd =>
    if !cd then PO.fail "op-not-allowed"
    else do
      deriveZ priv a.epk
      if size = 0 then pure ()                -- dir.UnwrapKey
      else akwUnwrapCore a.dataLen             -- akw.NewNNN().NewKeyWrapper(bytesKey(key)).UnwrapKey
  | .pbes2 _ _ cd =>
    if !cd then PO.fail "op-not-allowed" else akwUnwrapCore a.dataLen

/-- `kw.(keymanage.KeyDeriver).DeriveKey(opts)`; "not-a-deriver" when the type assertion fails -/
def deriveKey (kw : KeyWrapper) (a : KwArgs) : PO Unit :=
  match kw with
  | .dir _ ce _ => if !ce then PO.fail "op-not-allowed" else pure ()
  | .ecdhes priv size cd =>
    if !cd then PO.fail "op-not-allowed"
    else do
      deriveZ priv a.epk
      if size = 0 then pure ()                 -- direct key agreement: the agreed key is the CEK
      else akwWrapCore a.encCekSize             -- cek := make([]byte, cekSize); akw WrapKey(cek)
  | _ => PO.fail "not-a-deriver"

/-! ## allow-lists -/

/-- jws.AlgorithmVerifier / jwt.AlgorithmVerifier as shipped -/
inductive AlgVerifier where
  | allowed (l : List String)      -- AllowedAlgorithms
  | any                            -- UnsecureAnyAlgorithm
deriving Repr, Inhabited

def AlgVerifier.ok : AlgVerifier → String → Bool
  | .allowed l, a => l.contains a
  | .any, _ => true

/-- what Verifier.verify reads of one `*Signature`: `none` = header pointer is nil,
    `some a` = header present with `alg` member `a` ("" when missing) -/
structure SigEntry where
  protectedAlg : Option String
  headerAlg : Option String
  sigLen : Nat
deriving DecidableEq, Repr, Inhabited

/-- the algorithm of one signature (Verifier.verify and JWKKeyFinder.FindKey, same text):
    `if sig.protected != nil { alg = sig.protected.alg }`
    `if alg == "" && sig.header != nil { alg = sig.header.alg }`
    — the protected header's alg when it is non-empty, else the unprotected header's. -/
def SigEntry.alg (s : SigEntry) : String :=
  let a := match s.protectedAlg with
    | some a => a
    | Option.none => ""
  if a = jwa.SignatureAlgorithmUnknown then
    match s.headerAlg with
    | some b => b
    | Option.none => a
  else a

/-- the loop of Verifier.verify; returns the index of the accepted signature.
    `find` is the caller's KeyFinder (any program; may fail or panic). -/
def jwsVerifyFrom (av : AlgVerifier) (find : SigEntry → PO SigningKey) : Nat → List SigEntry → PO Nat
  | _, [] => PO.fail "verify-failed"
  | i, s :: rest =>
    if s.alg = jwa.SignatureAlgorithmUnknown then jwsVerifyFrom av find (i+1) rest
    else if !av.ok s.alg then jwsVerifyFrom av find (i+1) rest
    else do
      let r ← PO.attempt (find s)
      match r with
      | .panic site => PO.panic site
      | .err _ => jwsVerifyFrom av find (i+1) rest
      | .ok key =>
        let v ← PO.attempt (verify key s.sigLen (.int i))
        match v with
        | .panic site => PO.panic site
        | .err _ => jwsVerifyFrom av find (i+1) rest
        | .ok _ => pure i

def jwsVerify (av : AlgVerifier) (find : SigEntry → PO SigningKey) (sigs : List SigEntry) : PO Nat :=
  jwsVerifyFrom av find 0 sigs

/-- jws.JWKKeyFinder.FindKey (same algorithm selection as the verifier: `SigEntry.alg`) -/
def jwsJWKKeyFinder (key : Option Key) (s : SigEntry) : PO SigningKey :=
  match sigLookup s.alg with
  | Option.none => PO.fail "alg-unavailable"
  | some c => PO.ofOutcome (newSigningKey c key)

/-- jwt guessAlg (an unregistered name is an error: `Available()` is consulted before `New()`) -/
def guessAlg (keyAlg hdrAlg : String) : Outcome SigCtor :=
  if keyAlg = "" ∧ hdrAlg = "" then .err "guess"
  else if keyAlg ≠ "" then
    if hdrAlg ≠ "" ∧ hdrAlg ≠ keyAlg then .err "alg-mismatch"
    else match sigLookup keyAlg with
      | some c => .ok c
      | Option.none => .err "alg-unavailable"
  else match sigLookup hdrAlg with
    | some c => .ok c
    | Option.none => .err "alg-unavailable"

/-- jwt.JWKKeyFiner.FindKey -/
def jwtJWKKeyFinder (k : Key) (hdrAlg : String) : PO SigningKey := do
  let c ← PO.ofOutcome (guessAlg k.alg hdrAlg)
  PO.ofOutcome (newSigningKey c (some k))

/-- jwt.Parser.Parse from the decoded header on: allow-list, key finder, signature, claims.
    `claims` stands for everything after the signature check (C04). -/
def jwtParse (av : AlgVerifier) (find : String → PO SigningKey) (hdrAlg : String) (sigLen : Nat)
    (claims : PO Unit) : PO Unit :=
  if !av.ok hdrAlg then PO.fail "alg-not-allowed"
  else do
    let key ← find hdrAlg
    verify key sigLen
    claims

/-! ## header decoding: one decode feeds the allow-list and the key lookup

`jws.Header.UnmarshalJSON` decodes the header bytes **once** into a Go map (`encoding/json`: member
names exact, of duplicate members the last one stays) and every later reader — the allow-list in
`Verifier.verify` / `Parser.Parse`, `JWKKeyFinder`, `guessAlg`, `JWKSKeyFinder` (kid) — reads that one
map through `jsonutils.Decoder.GetString`.  The model has the same shape: one `json.decodeMap`
query, one `HdrView`.  An implementation that decoded the bytes a second time with different
matching rules (struct tags are matched case-insensitively) cannot be written as an instance of this
model; that the code *is* an instance is what the correspondence run establishes. -/

/-- `jsonutils.Decoder.GetString(name)`: absent ⇒ "", a JSON string ⇒ it, any other type ⇒ the
    decoder's saved type error.  The name is compared exactly (Go map index). -/
def headerString (name : String) (obj : Wire) : Outcome String :=
  match obj.get? name with
  | Option.none => .ok ""
  | some (.str s) => .ok s
  | some _ => .err "header-type"

/-- what C03's decisions read of a decoded header -/
structure HdrView where
  alg : String
  kid : String
deriving DecidableEq, Repr, Inhabited

/-- `Header.UnmarshalJSON` as far as C03 reads it (`json.decodeMap` = `json.Decoder.Decode` into
    `map[string]any`: `none` on a syntax/type error, `null` for the JSON value null = nil map) -/
def decodeHeaderView (raw : Bytes) : PO HdrView := do
  let w ← PO.query "json.decodeMap" [.bytes raw]
  match w with
  | .none => PO.fail "header-parse"
  | _ => do
    let alg ← PO.ofOutcome (headerString jwa.AlgorithmKey w)
    let kid ← PO.ofOutcome (headerString jwa.KeyIDKey w)
    pure ⟨alg, kid⟩

/-- jwt.JWKSKeyFinder.FindKey: the header's kid selects the key (first key of the set with that kid),
    then `guessAlg` as for a single JWK -/
def jwtJWKSKeyFinder (set : List (String × Key)) (h : HdrView) : PO SigningKey :=
  if h.kid = "" then PO.fail "kid-not-set"
  else match lookupName h.kid set with
    | Option.none => PO.fail "key-not-found"
    | some k => jwtJWKKeyFinder k h.alg

/-- jwt.Parser.Parse from the header *bytes* on: decode once, then `jwtParse` on the decoded view -/
def jwtParseRaw (av : AlgVerifier) (find : HdrView → PO SigningKey) (rawHeader : Bytes) (sigLen : Nat)
    (claims : PO Unit) : PO Unit := do
  let h ← decodeHeaderView rawHeader
  jwtParse av (fun _ => find h) h.alg sigLen claims

/-- one signature of a parsed JWS before header decoding: the base64url-decoded protected header
    bytes and the unprotected header's JSON text -/
structure RawSig where
  protectedRaw : Option Bytes
  headerRaw : Option Bytes
  sigLen : Nat
deriving Repr, Inhabited

def decodeOptHeader : Option Bytes → PO (Option String)
  | Option.none => pure Option.none
  | some b => do
    let h ← decodeHeaderView b
    pure (some h.alg)

/-- jws.ParseCompact / Message.UnmarshalJSON as far as C03 reads them: each header decoded once, at
    parse time; a header that does not decode fails the whole parse -/
def decodeSigEntry (r : RawSig) : PO SigEntry := do
  let p ← decodeOptHeader r.protectedRaw
  let h ← decodeOptHeader r.headerRaw
  pure ⟨p, h, r.sigLen⟩

def decodeEntries : List RawSig → PO (List SigEntry)
  | [] => pure []
  | r :: rest => do
    let e ← decodeSigEntry r
    let es ← decodeEntries rest
    pure (e :: es)

/-- parse then `Verifier.Verify` -/
def jwsVerifyRaw (av : AlgVerifier) (find : SigEntry → PO SigningKey) (raws : List RawSig) : PO Nat := do
  let ents ← decodeEntries raws
  jwsVerify av find ents

end Model.Binding
