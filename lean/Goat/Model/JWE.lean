import Goat.Base.Prog
import Goat.Gen.Consts
/-
Model of goat's jwe/jwe.go (C05, C06).

What is goat's own logic is modelled here; everything the Go standard library, the key-management
algorithms (goat/jwa/{akw,agcmkw,pbes2,ecdhes,dir,rsaoaep,rsapkcs1v15}: property C12, one level down),
the content-encryption algorithms (goat/jwa/{acbc,agcm}: C12) and the caller's callbacks compute is an
oracle query:

  b64url.enc [bytes] → bytes            b64url.dec [bytes] → bytes | none      (segments)
  b64url.encStr [bytes] → str           b64url.decStr [str] → bytes | none     (header parameters)
  json.marshal [obj] → bytes            json.decodeMap [bytes] → obj | null | none
  jwe.marshalJSON [obj] → bytes         jwe.decodeJSON [bytes] → obj | none    (encoding/json on struct jsonJWE)
  strconv.itoa [int] → str              strconv.parseInt64 [str] → int | none  (json number <-> int64)
  jwk.parsePublicMap [obj] → obj | none jwk.marshal [obj] → obj                (epk; jwk package is C08/C09)
  deflate [bytes] → bytes               inflate [bytes] → bytes | none
  enc.generateCEK [enc] → bytes         enc.generateIV [enc] → bytes
  enc.encrypt [enc, cek, iv, aad, pt] → [ct, tag] | none
  enc.decrypt [enc, cek, iv, aad, ct, tag] → pt | none
  kw.wrap   [kw, cek, opts] → [data, updates] | none      updates: obj ⊆ {iv, tag, p2s, p2c} (the setters)
  kw.unwrap [kw, data, opts] → cek | none
  kw.derive [kw, opts] → [cek, encryptedCEK] | none
  findKeyWrapper [protected, unprotected, recipient] → kw | none               (caller's KeyWrapperFinder)

`opts` is the *view* a key wrapper can obtain through its option interfaces from the value goat passes
(`*Header` on the sending side, `mergedHeader{unprotected, protected, recipient}` on the receiving side):
enc, epk, apu, apv, iv, tag, p2s, p2c with the precedence and nil/zero rules of the accessors.

Not modelled (owned by C11 / C08): jku, jwk, x5u, x5c, x5t, x5t#S256 members (decoded as if absent).
-/
namespace Model.JWE
open Gen.Consts

/-! ## association lists standing for Go maps (kept sorted by key, like encoding/json output) -/

abbrev KVs := List (String × Wire)

/-- `m[k] = v` on a sorted association list -/
def setKey (k : String) (v : Wire) : KVs → KVs
  | [] => [(k, v)]
  | (k', v') :: rest =>
    if k == k' then (k, v) :: rest
    else if k < k' then (k, v) :: (k', v') :: rest
    else (k', v') :: setKey k v rest

/-! ## names -/

def encNames : List String :=
  [jwa.A128CBC_HS256, jwa.A192CBC_HS384, jwa.A256CBC_HS512, jwa.A128GCM, jwa.A192GCM, jwa.A256GCM]

/-- `enc.Available()` with acbc and agcm linked in -/
def encAvailable (enc : String) : Bool := encNames.contains enc

/-- key-management algorithms whose KeyWrapper also implements keymanage.KeyDeriver -/
def deriverAlgs : List String :=
  [jwa.Direct, jwa.ECDH_ES, jwa.ECDH_ES_A128KW, jwa.ECDH_ES_A192KW, jwa.ECDH_ES_A256KW]

def ecdhesAlgs : List String :=
  [jwa.ECDH_ES, jwa.ECDH_ES_A128KW, jwa.ECDH_ES_A192KW, jwa.ECDH_ES_A256KW]

def allAlgs : List String :=
  [jwa.RSA1_5, jwa.RSA_OAEP, jwa.RSA_OAEP_256, jwa.A128KW, jwa.A192KW, jwa.A256KW, jwa.Direct,
   jwa.ECDH_ES, jwa.ECDH_ES_A128KW, jwa.ECDH_ES_A192KW, jwa.ECDH_ES_A256KW,
   jwa.A128GCMKW, jwa.A192GCMKW, jwa.A256GCMKW,
   jwa.PBES2_HS256_A128KW, jwa.PBES2_HS384_A192KW, jwa.PBES2_HS512_A256KW]

/-- jwe.go `knownParams` -/
def knownParams : List String :=
  [jwa.AlgorithmKey, jwa.EncryptionAlgorithmKey, jwa.CompressionAlgorithmKey, jwa.JWKSetURLKey,
   jwa.JSONWebKey, jwa.KeyIDKey, jwa.X509URLKey, jwa.X509CertificateChainKey,
   jwa.X509CertificateSHA1Thumbprint, jwa.X509CertificateSHA256Thumbprint, jwa.TypeKey,
   jwa.ContentTypeKey, jwa.CriticalKey, jwa.EphemeralPublicKeyKey, jwa.AgreementPartyUInfoKey,
   jwa.AgreementPartyVInfoKey, jwa.InitializationVectorKey, jwa.AuthenticationTagKey,
   jwa.PBES2SaltInputKey, jwa.PBES2CountKey]

/-! ## Header -/

/-- jwe.Header: the typed fields that matter for C05/C06 and the Raw map.
    `none` = Go nil slice / nil pointer, `some []` = empty non-nil slice. -/
structure Header where
  alg : String := ""
  enc : String := ""
  zip : String := ""
  kid : String := ""
  typ : String := ""
  cty : String := ""
  crit : List String := []
  epk : Option Wire := none
  apu : Option Bytes := none
  apv : Option Bytes := none
  iv : Option Bytes := none
  tag : Option Bytes := none
  p2s : Option Bytes := none
  p2c : Int := 0
  raw : KVs := []
deriving Inhabited

/-- `(*Header).Clone()`: nil gives an empty header (the Raw map is copied; immutable here) -/
def clone : Option Header → Header
  | none => {}
  | some h => h

/-- accessors are nil-safe methods on `*Header` -/
def hEnc : Option Header → String | none => "" | some h => h.enc
def hZip : Option Header → String | none => "" | some h => h.zip

/-! ### the view of the header(s) a key wrapper gets through its option interfaces -/

/-- first non-nil value, in list order (the `for _, item := range h` loops of mergedHeader) -/
def firstSome {α} (f : Header → Option α) : List (Option Header) → Option α
  | [] => none
  | none :: rest => firstSome f rest
  | some h :: rest => match f h with
    | some a => some a
    | none => firstSome f rest

/-- first non-empty string -/
def firstStr (f : Header → String) : List (Option Header) → String
  | [] => ""
  | none :: rest => firstStr f rest
  | some h :: rest => if f h != "" then f h else firstStr f rest

/-- first non-zero int -/
def firstInt (f : Header → Int) : List (Option Header) → Int
  | [] => 0
  | none :: rest => firstInt f rest
  | some h :: rest => if f h != 0 then f h else firstInt f rest

def optBytesW : Option Bytes → Wire
  | some b => .bytes b
  | none => .none

def optW : Option Wire → Wire
  | some w => w
  | none => .none

/-- what `opts` offers: EncryptionAlgorithm, EphemeralPublicKey, AgreementPartyUInfo,
    AgreementPartyVInfo, InitializationVector, AuthenticationTag, PBES2SaltInput, PBES2Count -/
def optsView (hs : List (Option Header)) : Wire :=
  .obj [("enc", .str (firstStr (·.enc) hs)),
        ("epk", optW (firstSome (·.epk) hs)),
        ("apu", optBytesW (firstSome (·.apu) hs)),
        ("apv", optBytesW (firstSome (·.apv) hs)),
        ("iv", optBytesW (firstSome (·.iv) hs)),
        ("tag", optBytesW (firstSome (·.tag) hs)),
        ("p2s", optBytesW (firstSome (·.p2s) hs)),
        ("p2c", .int (firstInt (·.p2c) hs))]

/-- the merged view of Decrypt: unprotected first, then protected, then per-recipient -/
def mergedOpts (unprot : Option Header) (prot : Header) (rcpt : Option Header) : Wire :=
  optsView [unprot, some prot, rcpt]

/-- the setters a WrapKey may call on a `*Header` (agcmkw: iv, tag; pbes2: p2s, p2c) -/
def applyUpdates (h : Header) (upd : Wire) : Header :=
  let h := match upd.get? "iv" with | some (.bytes b) => { h with iv := some b } | _ => h
  let h := match upd.get? "tag" with | some (.bytes b) => { h with tag := some b } | _ => h
  let h := match upd.get? "p2s" with | some (.bytes b) => { h with p2s := some b } | _ => h
  match upd.get? "p2c" with | some (.int n) => { h with p2c := n } | _ => h

/-! ## base64 / JSON helpers (standard library = oracle) -/

def b64Encode (src : Bytes) : PO Bytes := do
  let w ← PO.query "b64url.enc" [.bytes src]
  pure w.asBytes

def b64Decode (src : Bytes) : PO Bytes := do
  match ← PO.query "b64url.dec" [.bytes src] with
  | .bytes b => pure b
  | _ => PO.fail "b64"

def b64EncodeStr (src : Bytes) : PO Wire := PO.query "b64url.encStr" [.bytes src]

/-! ## header codec (jwe.go decodeHeader / encodeHeader, for the parameters listed above) -/

/-- jsonutils.Decoder.GetString; a non-string member is a (saved, finally returned) error -/
def getString (raw : KVs) (name : String) : PO (Option String) :=
  match Wire.lookup name raw with
  | none => pure none
  | some (.str s) => pure (some s)
  | some _ => PO.fail "header-type"

/-- jsonutils.Decoder.GetBytes -/
def getBytes (raw : KVs) (name : String) : PO (Option Bytes) := do
  match ← getString raw name with
  | none => pure none
  | some s =>
    match ← PO.query "b64url.decStr" [.str s] with
    | .bytes b => pure (some b)
    | _ => PO.fail "header-b64"

def allStrings : List Wire → Option (List String)
  | [] => some []
  | .str s :: rest => (allStrings rest).map (s :: ·)
  | _ :: _ => none

/-- jsonutils.Decoder.GetStringArray (absent → nil) -/
def getStringArray (raw : KVs) (name : String) : PO (List String) :=
  match Wire.lookup name raw with
  | none => pure []
  | some (.arr l) =>
    match allStrings l with
    | some ss => pure ss
    | none => PO.fail "header-type"
  | some _ => PO.fail "header-type"

/-- jsonutils.Decoder.GetInt64 on a json.Number, then the range check of decodeHeader -/
def getP2c (raw : KVs) : PO Int :=
  match Wire.lookup jwa.PBES2CountKey raw with
  | none => pure 0
  | some (.num s) => do
    match ← PO.query "strconv.parseInt64" [.str s] with
    | .int i => if i < 0 then PO.fail "p2c-range" else pure i
    | _ => PO.fail "header-int"
  | some _ => PO.fail "header-type"

def getEpk (raw : KVs) : PO (Option Wire) :=
  match Wire.lookup jwa.EphemeralPublicKeyKey raw with
  | none => pure none
  | some (.obj kvs) => do
    match ← PO.query "jwk.parsePublicMap" [.obj kvs] with
    | .none => PO.fail "epk"
    | k => pure (some k)
  | some _ => PO.fail "header-type"

/-- decodeHeader.  The Go code records the first error and keeps going; since any recorded error
    makes the function return that error, failing at the first one is the same function. -/
def decodeHeader (raw : KVs) : PO Header := do
  let alg ← getString raw jwa.AlgorithmKey
  let enc ← getString raw jwa.EncryptionAlgorithmKey
  let zip ← getString raw jwa.CompressionAlgorithmKey
  let kid ← getString raw jwa.KeyIDKey
  let typ ← getString raw jwa.TypeKey
  let cty ← getString raw jwa.ContentTypeKey
  let crit ← getStringArray raw jwa.CriticalKey
  if !(crit.all knownParams.contains) then PO.fail "crit" else
  let epk ← getEpk raw
  let apu ← getBytes raw jwa.AgreementPartyUInfoKey
  let apv ← getBytes raw jwa.AgreementPartyVInfoKey
  let iv ← getBytes raw jwa.InitializationVectorKey
  let tag ← getBytes raw jwa.AuthenticationTagKey
  let p2s ← getBytes raw jwa.PBES2SaltInputKey
  let p2c ← getP2c raw
  pure { alg := alg.getD "", enc := enc.getD "", zip := zip.getD "", kid := kid.getD "",
         typ := typ.getD "", cty := cty.getD "", crit := crit, epk := epk, apu := apu, apv := apv,
         iv := iv, tag := tag, p2s := p2s, p2c := p2c, raw := raw }

/-- `decodeHeader(raw)` for a `map[string]any` that may be nil (JSON member absent or null) -/
def decodeHeaderW : Wire → PO Header
  | .obj kvs => decodeHeader kvs
  | _ => decodeHeader []

def setStrIf (k v : String) (m : KVs) : KVs := if v != "" then setKey k (.str v) m else m

def setBytesIf (k : String) (v : Option Bytes) (m : KVs) : PO KVs :=
  match v with
  | none => pure m
  | some b => do let s ← b64EncodeStr b; pure (setKey k s m)

/-- encodeHeader: Raw copied, then every non-zero typed field written over it -/
def encodeHeader (h : Header) : PO KVs := do
  let m := h.raw
  let m := setStrIf jwa.AlgorithmKey h.alg m
  let m := setStrIf jwa.EncryptionAlgorithmKey h.enc m
  let m := setStrIf jwa.CompressionAlgorithmKey h.zip m
  let m := setStrIf jwa.KeyIDKey h.kid m
  let m := setStrIf jwa.TypeKey h.typ m
  let m := setStrIf jwa.ContentTypeKey h.cty m
  let m := if h.crit.length > 0 then setKey jwa.CriticalKey (.arr (h.crit.map .str)) m else m
  let m ← match h.epk with
    | none => pure m
    | some k => do let j ← PO.query "jwk.marshal" [k]; pure (setKey jwa.EphemeralPublicKeyKey j m)
  let m ← setBytesIf jwa.AgreementPartyUInfoKey h.apu m
  let m ← setBytesIf jwa.AgreementPartyVInfoKey h.apv m
  let m ← setBytesIf jwa.InitializationVectorKey h.iv m
  let m ← setBytesIf jwa.AuthenticationTagKey h.tag m
  let m ← setBytesIf jwa.PBES2SaltInputKey h.p2s m
  if h.p2c != 0 then do
    let s ← PO.query "strconv.itoa" [.int h.p2c]
    pure (setKey jwa.PBES2CountKey (.num s.asStr) m)
  else pure m

/-- (*Header).MarshalJSON -/
def marshalHeader (h : Header) : PO Bytes := do
  let m ← encodeHeader h
  match ← PO.query "json.marshal" [.obj m] with
  | .bytes b => pure b
  | _ => PO.fail "json-marshal"

/-! ## Message -/

structure Recipient where
  header : Option Header := none
  encryptedKey : Bytes := []
  b64encryptedKey : Bytes := []
deriving Inhabited

structure Message where
  unprotected : Option Header := none
  recipients : List Recipient := []
  header : Header := {}
  cek : Bytes := []
  iv : Bytes := []
  b64iv : Bytes := []
  ciphertext : Bytes := []
  b64ciphertext : Bytes := []
  protectedRaw : Bytes := []
  b64protected : Bytes := []
  tag : Bytes := []
  b64tag : Bytes := []
  aad : Bytes := []                 -- JWE AAD: exists only in the JSON serialization
  b64aad : Bytes := []
deriving Inhabited

/-- the optional DEFLATE step of NewMessage / NewMessageWithKW: zip is read from the header given -/
def compressIf (prot : Option Header) (plaintext : Bytes) : PO Bytes :=
  if hZip prot == jwa.DEF then do
    match ← PO.query "deflate" [.bytes plaintext] with
    | .bytes b => pure b
    | _ => PO.fail "compress"
  else pure plaintext

def generateCEK (enc : String) : PO Bytes := do
  match ← PO.query "enc.generateCEK" [.str enc] with
  | .bytes b => pure b
  | _ => PO.fail "rand"

def generateIV (enc : String) : PO Bytes := do
  match ← PO.query "enc.generateIV" [.str enc] with
  | .bytes b => pure b
  | _ => PO.fail "rand"

def aeadEncrypt (enc : String) (cek iv aad pt : Bytes) : PO (Bytes × Bytes) := do
  match ← PO.query "enc.encrypt" [.str enc, .bytes cek, .bytes iv, .bytes aad, .bytes pt] with
  | .arr [.bytes ct, .bytes tag] => pure (ct, tag)
  | _ => PO.fail "encrypt"

/-- common tail of the three constructors: the header is final here; it is marshalled, base64url
    encoded and *that text* is the AAD -/
def sealWith (enc : String) (header : Header) (cek iv : Bytes) (rawHeader b64header plaintext : Bytes)
    (rcpts : List Recipient) : PO Message := do
  let (ct, tag) ← aeadEncrypt enc cek iv b64header plaintext
  let b64iv ← b64Encode iv
  let b64ct ← b64Encode ct
  let b64tag ← b64Encode tag
  pure { header := header, cek := cek, iv := iv, b64iv := b64iv, ciphertext := ct,
         b64ciphertext := b64ct, protectedRaw := rawHeader, b64protected := b64header,
         tag := tag, b64tag := b64tag, recipients := rcpts }

/-- jwe.NewMessage -/
def newMessage (enc : String) (prot : Option Header) (plaintext : Bytes) : PO Message := do
  if !encAvailable enc then PO.fail "enc-unavailable" else
  let plaintext ← compressIf prot plaintext
  let cek ← generateCEK enc
  let iv ← generateIV enc
  let header := { clone prot with enc := enc }
  let rawHeader ← marshalHeader header
  let b64header ← b64Encode rawHeader
  sealWith enc header cek iv rawHeader b64header plaintext []

def kwAlg (kw : Wire) : String := ((kw.get? "alg").getD .none).asStr

/-- `kw.(keymanage.KeyDeriver)` succeeds for dir and the ECDH-ES family -/
def isDeriver (kw : Wire) : Bool := deriverAlgs.contains (kwAlg kw)

def kwWrap (kw : Wire) (cek : Bytes) (h : Header) : PO (Bytes × Header) := do
  match ← PO.query "kw.wrap" [kw, .bytes cek, optsView [some h]] with
  | .arr [.bytes data, upd] => pure (data, applyUpdates h upd)
  | _ => PO.fail "wrap"

/-- jwe.NewMessageWithKW -/
def newMessageWithKW (enc : String) (kw : Wire) (prot : Option Header) (plaintext : Bytes) :
    PO Message := do
  if !encAvailable enc then PO.fail "enc-unavailable" else
  let plaintext ← compressIf prot plaintext
  if isDeriver kw then do
    let header := { clone prot with enc := enc }
    match ← PO.query "kw.derive" [kw, optsView [some header]] with
    | .arr [.bytes cek, .bytes encryptedCEK] =>
      let rawHeader ← marshalHeader header
      let b64header ← b64Encode rawHeader
      let iv ← generateIV enc
      let b64ek ← b64Encode encryptedCEK
      sealWith enc header cek iv rawHeader b64header plaintext
        [{ encryptedKey := encryptedCEK, b64encryptedKey := b64ek }]
    | _ => PO.fail "derive"
  else do
    let cek ← generateCEK enc
    let iv ← generateIV enc
    -- WrapKey sees the header *before* enc is set; whatever it sets (iv, tag, p2s, p2c) is in the
    -- header before it is marshalled and used as AAD
    let (encryptedKey, header) ← kwWrap kw cek (clone prot)
    let header := { header with enc := enc }
    let rawHeader ← marshalHeader header
    let b64header ← b64Encode rawHeader
    let b64ek ← b64Encode encryptedKey
    sealWith enc header cek iv rawHeader b64header plaintext
      [{ encryptedKey := encryptedKey, b64encryptedKey := b64ek }]

/-- (*Message).Encrypt: one more recipient; the wrapper's parameters go to the per-recipient header -/
def encrypt (msg : Message) (kw : Wire) (header : Option Header) : PO Message := do
  let (data, h) ← kwWrap kw msg.cek (clone header)
  let b64 ← b64Encode data
  pure { msg with recipients := msg.recipients ++ [{ header := some h, encryptedKey := data, b64encryptedKey := b64 }] }

/-! ## Decrypt -/

def hdrW (h : Header) : Wire := .obj h.raw
def optHdrW : Option Header → Wire
  | none => .none
  | some h => hdrW h

def decompressIf (prot : Header) (pt : Bytes) : PO Bytes :=
  -- zip MUST be integrity protected: read from the protected header only
  if prot.zip == jwa.DEF then do
    match ← PO.query "inflate" [.bytes pt] with
    | .bytes b => pure b
    | _ => PO.fail "decompress"
  else pure pt

/-- (*Message).authData: RFC 7516 §5.1 step 14.  The *received* base64url text of the protected
    header (not a re-encoding), followed by '.' and the received base64url text of the JWE AAD if
    there is one. -/
def authData (msg : Message) : Bytes :=
  if msg.b64aad.length == 0 then msg.b64protected else msg.b64protected ++ 46 :: msg.b64aad

/-- the content encryption algorithm Decrypt uses: the protected header's `enc`; only if that is
    empty the merged view (unprotected, protected, per-recipient) -/
def contentEnc (msg : Message) (r : Recipient) : String :=
  if msg.header.enc != "" then msg.header.enc
  else firstStr (·.enc) [msg.unprotected, some msg.header, r.header]

/-- what happens for the first recipient the finder returns a wrapper for -/
def decryptWith (msg : Message) (r : Recipient) (kw : Wire) : PO Bytes := do
  match ← PO.query "kw.unwrap" [kw, .bytes r.encryptedKey, mergedOpts msg.unprotected msg.header r.header] with
  | .bytes cek =>
    let enc0 := contentEnc msg r
    if !encAvailable enc0 then PO.fail "enc-unavailable" else
    match ← PO.query "enc.decrypt" [.str enc0, .bytes cek, .bytes msg.iv, .bytes (authData msg),
                                    .bytes msg.ciphertext, .bytes msg.tag] with
    | .bytes pt => decompressIf msg.header pt
    | _ => PO.fail "decrypt"
  | _ => PO.fail "unwrap"

/-- the recipient loop: a finder error skips the recipient, every later error is final -/
def decryptLoop (msg : Message) : List Recipient → PO Bytes
  | [] => PO.fail "no-key-wrapper"
  | r :: rest => do
    let kw ← PO.query "findKeyWrapper" [hdrW msg.header, optHdrW msg.unprotected, optHdrW r.header]
    if kw.isNone then decryptLoop msg rest else decryptWith msg r kw

/-- (*Message).Decrypt -/
def decrypt (msg : Message) : PO Bytes := decryptLoop msg msg.recipients

/-! ## Compact serialization -/

def dot : UInt8 := 46

/-- split at the first '.' (bytes.IndexByte) -/
def splitDot : Bytes → Option (Bytes × Bytes)
  | [] => none
  | c :: rest =>
    if c == dot then some ([], rest)
    else match splitDot rest with
      | some (a, b) => some (c :: a, b)
      | none => none

def decodeJSONMap (data : Bytes) : PO KVs := do
  match ← PO.query "json.decodeMap" [.bytes data] with
  | .obj kvs => pure kvs
  | .null => pure []            -- JSON null decodes into a nil map without error
  | _ => PO.fail "json"

/-- jwe.Parse -/
def parse (data : Bytes) : PO Message := do
  match splitDot data with
  | none => PO.fail "format"
  | some (b64header, d1) =>
  match splitDot d1 with
  | none => PO.fail "format"
  | some (b64ek, d2) =>
  match splitDot d2 with
  | none => PO.fail "format"
  | some (b64iv, d3) =>
  match splitDot d3 with
  | none => PO.fail "format"
  | some (b64ct, b64tag) => do
    let rawHeader ← b64Decode b64header
    let raw ← decodeJSONMap rawHeader
    let h ← decodeHeader raw
    let iv ← b64Decode b64iv
    let ek ← b64Decode b64ek
    let ct ← b64Decode b64ct
    let tag ← b64Decode b64tag
    pure { header := h, iv := iv, b64iv := b64iv, ciphertext := ct, b64ciphertext := b64ct,
           b64protected := b64header, tag := tag, b64tag := b64tag,
           recipients := [{ encryptedKey := ek, b64encryptedKey := b64ek }] }

/-- (*Message).Compact -/
def compact (msg : Message) : PO Bytes :=
  match msg.recipients with
  | [r] =>
    if msg.unprotected.isSome then PO.fail "compact-unprotected"
    else if msg.b64aad.length != 0 then PO.fail "compact-aad"
    else if r.header.isSome then PO.fail "compact-recipient-header"
    else pure (msg.b64protected ++ dot :: r.b64encryptedKey ++ dot :: msg.b64iv ++ dot ::
               msg.b64ciphertext ++ dot :: msg.b64tag)
  | _ => PO.fail "compact-recipients"

/-! ## JSON serialization -/

/-- a `map[string]any` member with `omitempty`: nil and empty maps are both omitted (`null` here) -/
def mapOrNull (m : KVs) : Wire := if m.isEmpty then .null else .obj m

def encodeRecipients : List Recipient → PO (List Wire)
  | [] => pure []
  | r :: rest => do
    let hdr ← match r.header with
      | none => pure Wire.null
      | some h => do let m ← encodeHeader h; pure (mapOrNull m)
    let tl ← encodeRecipients rest
    pure (.obj [("encrypted_key", .bytes r.b64encryptedKey), ("header", hdr)] :: tl)

/-- (*Message).MarshalJSON.  The struct `jsonJWE` (field names, omitempty) is handed to
    encoding/json = the `jwe.marshalJSON` oracle, in normalised form (every member present,
    `string(b)` members as bytes). -/
def marshalJSON (msg : Message) : PO Bytes := do
  let unprot ← match msg.unprotected with
    | none => pure Wire.null
    | some h => do let m ← encodeHeader h; pure (mapOrNull m)
  let rcpts ← encodeRecipients msg.recipients
  match ← PO.query "jwe.marshalJSON" [.obj [("aad", .bytes msg.b64aad), ("ciphertext", .bytes msg.b64ciphertext),
      ("encrypted_key", .bytes []), ("header", .null),
      ("iv", .bytes msg.b64iv), ("protected", .bytes msg.b64protected), ("recipients", .arr rcpts),
      ("tag", .bytes msg.b64tag), ("unprotected", unprot)]] with
  | .bytes b => pure b
  | _ => PO.fail "json-marshal"

def fieldBytes (top : Wire) (k : String) : Bytes := ((top.get? k).getD .none).asBytes

/-- no key of `a` occurs in `b` (RFC 7516 §7.2.1: the parameter names of the three headers are disjoint) -/
def disjointKeys (a b : KVs) : Bool := a.all (fun kv => (Wire.lookup kv.1 b).isNone)

def parseRecipients (protRaw unprotRaw : KVs) : List Wire → PO (List Recipient)
  | [] => pure []
  | r :: rest => do
    let hw := (r.get? "header").getD .null
    let header ← decodeHeaderW hw
    if header.crit.length > 0 then PO.fail "crit-unprotected" else
    if !(disjointKeys hw.asObj protRaw && disjointKeys hw.asObj unprotRaw) then PO.fail "dup-param" else
    let b64ek := fieldBytes r "encrypted_key"
    let ek ← b64Decode b64ek
    let tl ← parseRecipients protRaw unprotRaw rest
    pure ({ header := some header, encryptedKey := ek, b64encryptedKey := b64ek } :: tl)

/-- the recipient list ParseJSON works on: `recipients` if the member is present (non-null);
    otherwise the flattened syntax: one recipient made of the top-level `header` and
    `encrypted_key` (both possibly absent).  Both forms at once is an error. -/
def jsonRecipients (top : Wire) : PO (List Wire) :=
  let hdr := (top.get? "header").getD .null
  let ek := fieldBytes top "encrypted_key"
  match (top.get? "recipients").getD .null with
  | .arr l =>
    if (match hdr with | .obj _ => true | _ => false) || ek.length != 0 then PO.fail "json-both-forms"
    else pure l
  | _ => pure [.obj [("encrypted_key", .bytes ek), ("header", hdr)]]

/-- jwe.ParseJSON -/
def parseJSON (data : Bytes) : PO Message := do
  match ← PO.query "jwe.decodeJSON" [.bytes data] with
  | .obj top =>
    let top := Wire.obj top
    let b64protected := fieldBytes top "protected"
    -- the "protected" member is absent if the JWE Protected Header is empty
    let (protectedRaw, rawHeader) ← (if b64protected.length != 0 then do
        let p ← b64Decode b64protected
        let m ← decodeJSONMap p
        pure (p, m)
      else pure ([], []) : PO (Bytes × KVs))
    let h ← decodeHeader rawHeader
    let unprotW := (top.get? "unprotected").getD .null
    let unprot ← decodeHeaderW unprotW
    if unprot.crit.length > 0 then PO.fail "crit-unprotected" else
    if !(disjointKeys unprotW.asObj rawHeader) then PO.fail "dup-param" else
    let b64ct := fieldBytes top "ciphertext"
    let ct ← b64Decode b64ct
    let b64iv := fieldBytes top "iv"
    let iv ← b64Decode b64iv
    let b64tag := fieldBytes top "tag"
    let tag ← b64Decode b64tag
    let b64aad := fieldBytes top "aad"
    let aad ← b64Decode b64aad
    let rs ← jsonRecipients top
    let rcpts ← parseRecipients rawHeader unprotW.asObj rs
    pure { unprotected := some unprot, header := h, iv := iv, b64iv := b64iv, ciphertext := ct,
           b64ciphertext := b64ct, protectedRaw := protectedRaw, b64protected := b64protected,
           tag := tag, b64tag := b64tag, aad := aad, b64aad := b64aad, recipients := rcpts }
  | _ => PO.fail "json"

end Model.JWE
