import Goat.Base.Prog
/-
Scalar recodings of internal/edwards448/scalar.go (`signedRadix16`, `nonAdjacentForm`).

Both functions are modelled loop by loop: same iteration order, same index arithmetic, `int8`
arithmetic modelled in `Int` with the explicit two's-complement wrap `wrapI8` at every place where
Go computes in `int8`.  The theorems (GoatProofs/Group.lean) then show that the wraps of
`signedRadix16` never fire, that those of `nonAdjacentForm` (they DO fire for w = 7, 8:
`int8(width)` is −128 resp. 0) cancel, that the digit buffer is never indexed out of range and that
the fuel of the NAF loop is never exhausted.

Core Lean only (this file is linked into the driver).
-/
namespace Model.Recode

/-- two's-complement wrap of an integer to the `int8` range (Go conversion / arithmetic in int8) -/
def wrapI8 (x : Int) : Int := (x + 128) % 256 - 128

/-- value of a little-endian digit list in radix `b`: Σ dᵢ·bⁱ -/
def digitsValue (b : Int) : List Int → Int
  | [] => 0
  | d :: ds => d + b * digitsValue b ds

/-! ## signedRadix16 -/

/-- first loop: `digits[2*i] = int8(s[i] & 0xF); digits[2*i+1] = int8((s[i] >> 4) & 0xF)` -/
def nibblesWith (wrap : Int → Int) : Bytes → List Int
  | [] => []
  | b :: bs => wrap ((b.toNat % 16 : Nat) : Int) :: wrap (((b.toNat / 16) % 16 : Nat) : Int)
      :: nibblesWith wrap bs

/-- second loop, iteration `i` holds `cur = digits[i]` (already including the carry of iteration
    `i-1`) and the not yet visited `digits[i+1..]`:
    `carry := (digits[i] + 8) >> 4; digits[i] -= carry << 4; digits[i+1] += carry`.
    `>> 4` on int8 is the arithmetic shift = floor division by 16 (`Int./` with positive divisor).
    The loop runs for `i < 112-1`; the last digit only receives a carry. -/
def recenterWith (wrap : Int → Int) (cur : Int) : List Int → List Int
  | [] => [cur]
  | nxt :: rest =>
    let carry := wrap (cur + 8) / 16
    let d := wrap (cur - wrap (carry * 16))
    d :: recenterWith wrap (wrap (nxt + carry)) rest

/-- both loops, for an arbitrary treatment `wrap` of int8 overflow -/
def radix16With (wrap : Int → Int) (s : Bytes) : List Int :=
  match nibblesWith wrap s with
  | [] => []
  | d :: ds => recenterWith wrap d ds

/-- `(*Scalar).signedRadix16`.  `.err "len"` is the type precondition `[56]byte`. -/
def signedRadix16 (s : Bytes) : Outcome (List Int) :=
  if s.length ≠ 56 then .err "len"
  else if (s.getD 55 0).toNat ≥ 0x80 then .panic "radix16.highbit"
  else .ok (radix16With wrapI8 s)

/-! ## nonAdjacentForm -/

/-- `binary.LittleEndian.Uint64(s.s[i*8:])` -/
def word64 (s : Bytes) (i : Nat) : Nat := Bytes.decodeLE ((s.drop (8 * i)).take 8)

/-- `var digits [8]uint64; for i := 0; i < 7; i++ { digits[i] = … }` — entry 7 stays 0 -/
def nafWords (s : Bytes) : List Nat := (List.range 7).map (word64 s) ++ [0]

/-- result of one iteration of the `for pos < 448` loop: new `pos`, new `carry` and the digit
    written to `naf[pos]` (if any) -/
structure NafStep where
  pos : Nat
  carry : Nat
  digit : Option Int

/-- one iteration of the loop body (all `uint64` arithmetic; the only wrapping operation is the
    left shift, reduced `% 2^64`) -/
def nafStep (w : Nat) (words : List Nat) (pos carry : Nat) : Outcome NafStep :=
  let width := 2 ^ w                       -- uint64(1 << w)
  let windowMask := width - 1
  let indexU64 := pos / 64
  let indexBit := pos % 64
  match words[indexU64]? with
  | none => .panic "naf.index"
  | some lo =>
    let bitBuf : Outcome Nat :=
      if indexBit < 64 - w then .ok (lo >>> indexBit)
      else match words[1 + indexU64]? with
        | none => .panic "naf.index"
        | some hi => .ok ((lo >>> indexBit) ||| ((hi <<< (64 - indexBit)) % 2 ^ 64))
    match bitBuf with
    | .panic p => .panic p
    | .err e => .err e
    | .ok bitBuf =>
      let window := carry + (bitBuf &&& windowMask)
      if window &&& 1 = 0 then .ok ⟨pos + 1, carry, none⟩
      else if window < width / 2 then .ok ⟨pos + w, 0, some (wrapI8 window)⟩
      else .ok ⟨pos + w, 1, some (wrapI8 (wrapI8 window - wrapI8 width))⟩

/-- the loop, on a fuel.  `.err "fuel"` = the fuel did not suffice (never, see `naf_terminates`). -/
def nafLoop (w : Nat) (words : List Nat) : Nat → Nat → Nat → List Int → Outcome (List Int)
  | 0, pos, _, naf => if pos < 448 then .err "fuel" else .ok naf
  | fuel + 1, pos, carry, naf =>
    if pos < 448 then
      match nafStep w words pos carry with
      | .panic p => .panic p
      | .err e => .err e
      | .ok st =>
        match st.digit with
        | none => nafLoop w words fuel st.pos st.carry naf
        | some d => nafLoop w words fuel st.pos st.carry (naf.set pos d)
    else .ok naf

/-- `(*Scalar).nonAdjacentForm(w)`; the result has 448 digits -/
def nonAdjacentForm (w : Nat) (s : Bytes) : Outcome (List Int) :=
  if w < 2 then .panic "naf.w<2"
  else if w > 8 then .panic "naf.w>8"
  else if s.length ≠ 56 then .err "len"
  else nafLoop w (nafWords s) 448 0 0 (List.replicate 448 0)

end Model.Recode
