import Goat.Base.Prog
import Goat.Gen.Consts
import Goat.Gen.JwkMembers
/-
Model.JWK — goat's JWK codec and key validation (properties C08 and C09).

Sources mirrored (pinned tree):
  jwk/jwk.go:133-196   decodeCommonParameters   → `decodeCommon`
  jwk/jwk.go:198-240   encodeCommonParameters   → `encodeCommon`
  jwk/jwk.go:268-352   Key.MarshalJSON          → `marshal` (the map), `marshalJSON` (the bytes)
  jwk/jwk.go:354-374   Key.Thumbprint           → `thumbprint`
  jwk/jwk.go:407-436   ParseMap                 → `parseMap`
  jwk/jwk.go:438-466   ParseSet                 → `parseSet`
  jwk/jwk.go:510-680   NewPrivateKey/NewPublicKey → `newPrivateKey`, `newPublicKey`
  jwk/jwk.go:681-711   encodeECDHKey            → `encodeECDH`
  jwk/ecdsa.go         parseEcdsaKey, encodeEcdsaKey, validateEcdsa{Private,Public}Key
  jwk/rsa.go           parseRSAKey, encodeRSAKey, validateRSA{Private,Public}Key
  jwk/okp.go, ed25519.go, ed448.go, x25519.go, x448.go, symmetric.go
  jwk/pem.go           DecodePEM                → `decodePEM`
  internal/jsonutils/{decode,encode}.go         → `getString` … `setFixedBigInt`

What is an oracle (Go standard library / x/crypto, or — for the three curves goat implements
itself — an independent reference implementation in the harness):
  b64url.enc/dec, b64std.enc/dec        encoding/base64
  jwk.url.norm [s]            → str | none   url.Parse(s).String()
  jwk.x509.parse [der]        → public key of the certificate (GoPub wire form) | none
  hash [name, bytes]                     crypto/sha1, sha256, …
  json.marshal [json]                    encoding/json.Marshal (sorted keys)
  jwk.curve.isOnCurve [crv, x, y] → bool     elliptic.Curve.IsOnCurve
  jwk.curve.order [crv]          → int       Params().N
  jwk.curve.scalarBaseMult [crv, d] → [x, y] ScalarBaseMult(d.Bytes())
  jwk.rsa.validate [n, e, d, [primes]] → bool  (*rsa.PrivateKey).Validate() == nil
  jwk.rsa.precompute [n, e, d, [primes]] → [dp, dq, qi, [[exp, coeff, r]…]]  (*rsa.PrivateKey).Precompute()
  jwk.ed25519.pub, jwk.ed448.pub, jwk.x25519.pub, jwk.x448.pub [seed] → public value (bytes)
  jwk.pem.decode [bytes] → [type, der, rest] | none;  jwk.x509.pkcs1priv, jwk.x509.pkcs1pub,
  jwk.x509.pkcs8priv, jwk.x509.pkixpub [der] → Go key object (wire form) | none

First-error discipline: `jsonutils.Decoder`/`Encoder` record the first error and the callers go on
until the next `d.Err()` test.  The model leaves at the first error instead.  This is the same
outcome because every statement the Go code executes between a saved error and the next `Err()`
test is total (getters on a map, big.Int.SetBytes, comparisons, further SaveError calls which are
ignored) — audited for jwk.go, ecdsa.go, rsa.go, okp.go, ed*.go, x*.go.

math/big is modelled natively: `SetBytes` = big-endian value, `FillBytes`/`Bytes` = big-endian
octets; `BitLen() > 8*size` ⇔ `|v| ≥ 256^size`.
-/
namespace Model.JWK
open Gen.Consts

abbrev Obj := List (String × Wire)

/-! ## Go maps as association lists (unique keys) -/

/-- `m[k] = v` -/
def oset (m : Obj) (k : String) (v : Wire) : Obj :=
  match m with
  | [] => [(k, v)]
  | (k', v') :: t => if k' == k then (k, v) :: t else (k', v') :: oset t k v

/-- `if v != zero { m[k] = v }` -/
def osetOpt (m : Obj) (k : String) (v : Option Wire) : Obj :=
  match v with
  | some v => oset m k v
  | Option.none => m

/-- a string member that is written only when it is not empty -/
def nonEmpty (s : String) : Option Wire := if s = "" then Option.none else some (.str s)

/-! ## math/big octet strings -/

def stripZeros : Bytes → Bytes
  | 0 :: t => stripZeros t
  | l => l

/-- `(i.BitLen()+7)/8`: number of base-256 digits (0 for 0); `fuel` bounds the recursion -/
def byteLenAux : Nat → Nat → Nat → Nat
  | 0, _, acc => acc
  | fuel + 1, v, acc => if v = 0 then acc else byteLenAux fuel (v / 256) (acc + 1)

def byteLen (v : Nat) : Nat := byteLenAux v v 0

/-- `i.Bytes()` / `SetBigInt`: minimal big-endian octets -/
def minBE (v : Nat) : Bytes := Bytes.encodeBE (byteLen v) v

/-! ## Go key objects (what `Key.priv` / `Key.pub` hold) -/

inductive GoCurve where
  | p256 | p384 | p521 | secp256k1
  | other                      -- any other elliptic.Curve VALUE: P-224, a custom type, but also elliptic.P256().Params(),
                               -- a *CurveParams copy or a renamed curve — goat compares curve objects by identity,
                               -- never by the name the value reports
deriving DecidableEq, Repr, Inhabited

/-- the name goat gives the curve (jwa constants); `other` has none -/
def GoCurve.name : GoCurve → String
  | .p256 => jwa.P256 | .p384 => jwa.P384 | .p521 => jwa.P521 | .secp256k1 => jwa.Secp256k1
  | .other => ""

/-- `(Params().BitSize + 7) / 8`; BitSize is 256 / 384 / 521 / 256 -/
def GoCurve.size : GoCurve → Nat
  | .p256 => 32 | .p384 => 48 | .p521 => 66 | .secp256k1 => 32 | .other => 0

/-- `*ecdsa.PublicKey` (X, Y non-nil) -/
structure EcPub where
  curve : GoCurve
  x : Int
  y : Int
deriving DecidableEq, Repr, Inhabited

/-- `*rsa.PublicKey` (N non-nil) -/
structure RsaPub where
  n : Int
  e : Int
deriving DecidableEq, Repr, Inhabited

/-- `rsa.PrecomputedValues` with `Dp != nil`; crt = (Exp, Coeff, R) of the further primes -/
structure RsaPre where
  dp : Nat
  dq : Nat
  qi : Nat
  crt : List (Nat × Nat × Nat)
deriving DecidableEq, Repr, Inhabited

inductive EcdhCurve where
  | p256 | p384 | p521 | x25519
deriving DecidableEq, Repr, Inhabited

def EcdhCurve.tag : EcdhCurve → String
  | .p256 => "P-256" | .p384 => "P-384" | .p521 => "P-521" | .x25519 => "X25519"

inductive GoPub where
  | none
  | ecdsa (k : EcPub)
  | rsa (k : RsaPub)
  | ed25519 (b : Bytes)
  | ecdh (c : EcdhCurve) (b : Bytes)        -- b = PublicKey.Bytes()
  | x25519 (b : Bytes)                      -- goat's x25519.PublicKey
  | ed448 (b : Bytes)
  | x448 (b : Bytes)
  | other
deriving DecidableEq, Repr, Inhabited

inductive GoPriv where
  | none
  | ecdsa (pub : EcPub) (d : Option Int)
  | rsa (pub : RsaPub) (d : Nat) (primes : List Nat) (pre : Option RsaPre)
  | ed25519 (b : Bytes)                     -- seed ‖ public
  | ecdh (c : EcdhCurve) (priv pub : Bytes) -- PrivateKey.Bytes(), PublicKey().Bytes()
  | x25519 (b : Bytes)
  | ed448 (b : Bytes)
  | x448 (b : Bytes)
  | oct (b : Bytes)
  | other
deriving DecidableEq, Repr, Inhabited

/-- `priv.Public()` as `SetPrivateKey`/`NewPrivateKey` use it -/
def GoPriv.public : GoPriv → GoPub
  | .ecdsa p _ => .ecdsa p
  | .rsa p _ _ _ => .rsa p
  | .ed25519 b => .ed25519 (b.drop 32)
  | .ecdh c _ pub => .ecdh c pub
  | .x25519 b => .x25519 (b.drop 32)
  | .ed448 b => .ed448 (b.drop 57)
  | .x448 b => .x448 (b.drop 56)
  | _ => .none

/-- `*x509.Certificate`: `Raw` and `PublicKey` -/
structure Cert where
  raw : Bytes
  pub : GoPub
deriving DecidableEq, Repr, Inhabited

structure Key where
  raw : Obj := []
  kty : String := ""
  use : String := ""
  keyOps : Option (List String) := none
  alg : String := ""
  kid : String := ""
  x5u : Option String := none
  x5c : Option (List Cert) := none
  x5t : Option Bytes := none
  x5tS256 : Option Bytes := none
  priv : GoPriv := .none
  pub : GoPub := .none
deriving Inhabited

/-! ## wire forms of Go key objects (oracle answers and driver arguments) -/

def curveOfName (s : String) : GoCurve :=
  if s == "P-256" then .p256 else if s == "P-384" then .p384 else if s == "P-521" then .p521
  else if s == "secp256k1" then .secp256k1 else .other

def curveTag : GoCurve → String
  | .p256 => "P-256" | .p384 => "P-384" | .p521 => "P-521" | .secp256k1 => "secp256k1" | .other => "other"

def ecdhOfName (s : String) : Option EcdhCurve :=
  if s == "P-256" then some .p256 else if s == "P-384" then some .p384
  else if s == "P-521" then some .p521 else if s == "X25519" then some .x25519 else none

def GoPub.ofWire (w : Wire) : GoPub :=
  match w with
  | .arr [.str "ecdsa", .str c, .int x, .int y] => .ecdsa ⟨curveOfName c, x, y⟩
  | .arr [.str "rsa", .int n, .int e] => .rsa ⟨n, e⟩
  | .arr [.str "ed25519", .bytes b] => .ed25519 b
  | .arr [.str "ecdh", .str c, .bytes b] =>
      (match ecdhOfName c with | some c => .ecdh c b | Option.none => .other)
  | .arr [.str "x25519", .bytes b] => .x25519 b
  | .arr [.str "ed448", .bytes b] => .ed448 b
  | .arr [.str "x448", .bytes b] => .x448 b
  | .arr [.str "none"] => .none
  | _ => .other

def GoPub.toWire : GoPub → Wire
  | .none => .arr [.str "none"]
  | .ecdsa k => .arr [.str "ecdsa", .str (curveTag k.curve), .int k.x, .int k.y]
  | .rsa k => .arr [.str "rsa", .int k.n, .int k.e]
  | .ed25519 b => .arr [.str "ed25519", .bytes b]
  | .ecdh c b => .arr [.str "ecdh", .str c.tag, .bytes b]
  | .x25519 b => .arr [.str "x25519", .bytes b]
  | .ed448 b => .arr [.str "ed448", .bytes b]
  | .x448 b => .arr [.str "x448", .bytes b]
  | .other => .arr [.str "other"]

def natsOfWire (l : List Wire) : List Nat := l.map Wire.asNat

def crtOfWire (l : List Wire) : List (Nat × Nat × Nat) :=
  l.map fun w => let a := w.asArr; ((a.getD 0 .none).asNat, (a.getD 1 .none).asNat, (a.getD 2 .none).asNat)

def preOfWire (w : Wire) : Option RsaPre :=
  match w with
  | .arr [.int dp, .int dq, .int qi, .arr crt] => some ⟨dp.toNat, dq.toNat, qi.toNat, crtOfWire crt⟩
  | _ => Option.none

def GoPriv.ofWire (w : Wire) : GoPriv :=
  match w with
  | .arr [.str "ecdsa", .str c, .int x, .int y, .int d] => .ecdsa ⟨curveOfName c, x, y⟩ (some d)
  | .arr [.str "ecdsa", .str c, .int x, .int y, .none] => .ecdsa ⟨curveOfName c, x, y⟩ Option.none
  | .arr [.str "rsa", .int n, .int e, .int d, .arr primes, pre] =>
      .rsa ⟨n, e⟩ d.toNat (natsOfWire primes) (preOfWire pre)
  | .arr [.str "ed25519", .bytes b] => .ed25519 b
  | .arr [.str "ecdh", .str c, .bytes p, .bytes q] =>
      (match ecdhOfName c with | some c => .ecdh c p q | Option.none => .other)
  | .arr [.str "x25519", .bytes b] => .x25519 b
  | .arr [.str "ed448", .bytes b] => .ed448 b
  | .arr [.str "x448", .bytes b] => .x448 b
  | .arr [.str "oct", .bytes b] => .oct b
  | .arr [.str "none"] => .none
  | _ => .other

def preToWire : Option RsaPre → Wire
  | Option.none => .none
  | some p => .arr [.int p.dp, .int p.dq, .int p.qi,
      .arr (p.crt.map fun (a, b, c) => .arr [.int a, .int b, .int c])]

def GoPriv.toWire : GoPriv → Wire
  | .none => .arr [.str "none"]
  | .ecdsa p (some d) => .arr [.str "ecdsa", .str (curveTag p.curve), .int p.x, .int p.y, .int d]
  | .ecdsa p Option.none => .arr [.str "ecdsa", .str (curveTag p.curve), .int p.x, .int p.y, .none]
  | .rsa p d primes pre =>
      .arr [.str "rsa", .int p.n, .int p.e, .int d, .arr (primes.map fun (x : Nat) => Wire.int (x : Int)), preToWire pre]
  | .ed25519 b => .arr [.str "ed25519", .bytes b]
  | .ecdh c p q => .arr [.str "ecdh", .str c.tag, .bytes p, .bytes q]
  | .x25519 b => .arr [.str "x25519", .bytes b]
  | .ed448 b => .arr [.str "ed448", .bytes b]
  | .x448 b => .arr [.str "x448", .bytes b]
  | .oct b => .arr [.str "oct", .bytes b]
  | .other => .arr [.str "other"]

/-! ## oracle wrappers -/

/-- `base64.RawURLEncoding.EncodeToString` -/
def b64enc (b : Bytes) : PO String := do
  let w ← PO.query "b64url.enc" [.bytes b]
  pure (Bytes.toStringLossy w.asBytes)

/-- `base64.RawURLEncoding.Decode`; error class "b64" -/
def b64dec (s : String) : PO Bytes := do
  let w ← PO.query "b64url.dec" [.bytes (Bytes.ofString s)]
  match w with
  | .bytes b => pure b
  | _ => PO.fail "b64"

/-- what encoding/json makes of a `[]byte`: standard base64 with padding -/
def b64stdEnc (b : Bytes) : PO String := do
  let w ← PO.query "b64std.enc" [.bytes b]
  pure (Bytes.toStringLossy w.asBytes)

def b64stdDec (s : String) : PO Bytes := do
  let w ← PO.query "b64std.dec" [.bytes (Bytes.ofString s)]
  match w with
  | .bytes b => pure b
  | _ => PO.fail "b64"

def hashOf (name : String) (data : Bytes) : PO Bytes := do
  let w ← PO.query "hash" [.str name, .bytes data]
  pure w.asBytes

def isOnCurve (c : GoCurve) (x y : Int) : PO Bool := do
  let w ← PO.query "jwk.curve.isOnCurve" [.str c.name, .int x, .int y]
  pure w.asBool

def curveOrder (c : GoCurve) : PO Int := do
  let w ← PO.query "jwk.curve.order" [.str c.name]
  pure w.asInt

def scalarBaseMult (c : GoCurve) (d : Int) : PO (Int × Int) := do
  let w ← PO.query "jwk.curve.scalarBaseMult" [.str c.name, .int d]
  match w with
  | .arr [.int x, .int y] => pure (x, y)
  | _ => pure (0, 0)

def rsaValidateQ (p : RsaPub) (d : Nat) (primes : List Nat) : PO Bool := do
  let w ← PO.query "jwk.rsa.validate" [.int p.n, .int p.e, .int d, .arr (primes.map fun (x : Nat) => Wire.int (x : Int))]
  pure w.asBool

def rsaPrecomputeQ (p : RsaPub) (d : Nat) (primes : List Nat) : PO RsaPre := do
  let w ← PO.query "jwk.rsa.precompute" [.int p.n, .int p.e, .int d, .arr (primes.map fun (x : Nat) => Wire.int (x : Int))]
  pure ((preOfWire w).getD ⟨0, 0, 0, []⟩)

def derivePub (which : String) (seed : Bytes) : PO Bytes := do
  let w ← PO.query which [.bytes seed]
  pure w.asBytes

/-! ## jsonutils.Decoder getters (error classes "missing", "type", "b64", "url") -/

def getString (m : Obj) (name : String) : PO (Option String) :=
  match Wire.lookup name m with
  | Option.none => pure Option.none
  | some (.str s) => pure (some s)
  | some _ => PO.fail "type"

def mustString (m : Obj) (name : String) : PO String :=
  match Wire.lookup name m with
  | Option.none => PO.fail "missing"
  | some (.str s) => pure s
  | some _ => PO.fail "type"

def strings : List Wire → Option (List String)
  | [] => some []
  | .str s :: t => (strings t).map (s :: ·)
  | _ :: _ => Option.none

def getStringArray (m : Obj) (name : String) : PO (Option (List String)) :=
  match Wire.lookup name m with
  | Option.none => pure Option.none
  | some (.arr l) =>
    (match strings l with
     | some ss => pure (some ss)
     | Option.none => PO.fail "type")
  | some _ => PO.fail "type"

/-- `GetBytes`: absent → none; wrong type → "type"; undecodable → "b64" -/
def getBytes (m : Obj) (name : String) : PO (Option Bytes) := do
  match ← getString m name with
  | Option.none => pure Option.none
  | some s => let b ← b64dec s; pure (some b)

/-- `MustBytes` -/
def mustBytes (m : Obj) (name : String) : PO Bytes := do
  let s ← mustString m name
  b64dec s

/-- `GetBigInt`: `new(big.Int).SetBytes(decoded)` -/
def getBigInt (m : Obj) (name : String) : PO (Option Nat) := do
  match ← getBytes m name with
  | Option.none => pure Option.none
  | some b => pure (some (Bytes.decodeBE b))

def mustBigInt (m : Obj) (name : String) : PO Nat := do
  let b ← mustBytes m name
  pure (Bytes.decodeBE b)

def getURL (m : Obj) (name : String) : PO (Option String) := do
  match ← getString m name with
  | Option.none => pure Option.none
  | some s =>
    match ← PO.query "jwk.url.norm" [.str s] with
    | .str u => pure (some u)
    | _ => PO.fail "url"

/-! ## jsonutils.Encoder setters -/

def setBytes (m : Obj) (name : String) (b : Bytes) : PO Obj := do
  let s ← b64enc b
  pure (oset m name (.str s))

/-- `SetFixedBigInt`: error (since c15ccbe; a panic in FillBytes before) when it does not fit -/
def setFixedBigInt (m : Obj) (name : String) (i : Int) (size : Nat) : PO Obj :=
  if i.natAbs ≥ 256 ^ size then PO.fail "fixed-too-large"
  else setBytes m name (Bytes.encodeBE size i.natAbs)

/-- `SetBigInt` -/
def setBigInt (m : Obj) (name : String) (v : Nat) : PO Obj := setBytes m name (minBE v)

/-! ## validation (jwk/ecdsa.go:107-136, jwk/rsa.go:159-172, jwk/ed25519.go … x448.go) -/

/-- `validateEcdsaPublicKey` -/
def validateEcPub (k : EcPub) : PO Unit :=
  match k.curve with
  | .other => PO.fail "curve"
  | c => do
    if k.x = 0 ∨ k.y = 0 then PO.fail "ecpub"
    else
      let on ← isOnCurve c k.x k.y
      if on then pure () else PO.fail "ecpub"

/-- `validateEcdsaPrivateKey` -/
def validateEcPriv (k : EcPub) (d : Option Int) : PO Unit := do
  validateEcPub k
  match d with
  | Option.none => PO.fail "eckey"
  | some d =>
    if d ≤ 0 then PO.fail "eckey"
    else
      let n ← curveOrder k.curve
      if d ≥ n then PO.fail "eckey"
      else
        let (xx, yy) ← scalarBaseMult k.curve d
        if xx ≠ k.x ∨ yy ≠ k.y then PO.fail "eckey" else pure ()

/-- `validateRSAPublicKey` (N == nil is not modelled) -/
def validateRsaPub (k : RsaPub) : PO Unit :=
  if k.n ≤ 0 then PO.fail "rsa-pub"
  else if k.e < 2 ∨ k.e > 2147483647 then PO.fail "rsa-pub"
  else pure ()

/-- the double loop of validateRSAPrivateKey: every two primes are coprime (math/big GCD) -/
def pairwiseCoprime : List Nat → Bool
  | [] => true
  | p :: rest => rest.all (fun q => Nat.gcd p q == 1) && pairwiseCoprime rest

/-- `validateRSAPrivateKey`: at least two primes, `key.Validate()`, pairwise coprime primes
    (D == nil / nil primes of a Go object are not modelled) -/
def validateRsaPriv (p : RsaPub) (d : Nat) (primes : List Nat) : PO Unit :=
  if primes.length < 2 then PO.fail "rsa-priv"
  else do
    let ok ← rsaValidateQ p d primes
    if ok then
      if pairwiseCoprime primes then pure () else PO.fail "rsa-priv"
    else PO.fail "rsa-priv"

/-- `validateEd25519PrivateKey` / `validateEd448PrivateKey` / `validateX25519PrivateKey` /
    `validateX448PrivateKey`: length = seed+public, and `NewKeyFromSeed(key[:seed]) == key` -/
def validateOkpPriv (which : String) (seedLen pubLen : Nat) (key : Bytes) : PO Unit := do
  if key.length ≠ seedLen + pubLen then PO.fail "size"
  else
    let pub ← derivePub which (key.take seedLen)
    if key.take seedLen ++ pub = key then pure () else PO.fail "keypair"

def validateOkpPub (pubLen : Nat) (key : Bytes) : PO Unit :=
  if key.length ≠ pubLen then PO.fail "size" else pure ()

/-! ## common parameters -/

/-- the x5c loop of decodeCommonParameters -/
def decodeCerts : List String → PO (List Cert)
  | [] => pure []
  | s :: rest => do
    let der ← b64stdDec s
    let w ← PO.query "jwk.x509.parse" [.bytes der]
    match w with
    | .arr [pk] =>
      let more ← decodeCerts rest
      pure (⟨der, GoPub.ofWire pk⟩ :: more)
    | _ => PO.fail "x5c"

def checkThumb (hash : String) (certs : List Cert) (t : Bytes) : PO Unit :=
  match certs with
  | [] => pure ()
  | c :: _ => do
    let sum ← hashOf hash c.raw
    if sum = t then pure () else PO.fail "x5t"

def checkThumbOpt (hash : String) (certs : List Cert) : Option Bytes → PO Unit
  | some t => checkThumb hash certs t
  | Option.none => pure ()

/-- `decodeCommonParameters` -/
def decodeCommon (m : Obj) : PO Key := do
  let kty ← mustString m "kty"
  let kid ← getString m "kid"
  let use ← getString m "use"
  let ops ← getStringArray m "key_ops"
  let alg ← getString m "alg"
  let x5u ← getURL m "x5u"
  let x5cS ← getStringArray m "x5c"
  let certs ← decodeCerts (x5cS.getD [])
  let x5t ← getBytes m "x5t"
  checkThumbOpt "sha1" certs x5t
  let x5t256 ← getBytes m "x5t#S256"
  checkThumbOpt "sha256" certs x5t256
  pure { raw := m, kty := kty, kid := kid.getD "", use := use.getD "", keyOps := ops,
         alg := alg.getD "", x5u := x5u,
         x5c := if certs.isEmpty then Option.none else some certs,
         x5t := x5t, x5tS256 := x5t256 }

def encCerts : List Cert → PO (List Wire)
  | [] => pure []
  | c :: rest => do
    let s ← b64stdEnc c.raw
    let more ← encCerts rest
    pure (.str s :: more)

/-- `KeyType.String()` -/
def ktyString (k : String) : String := if k == jwa.KeyTypeUnknown then "(unknown)" else k

/-- the x5t / x5t#S256 rule: the stored value, else the hash of the first certificate -/
def encodeThumb (m : Obj) (name hash : String) (t : Option Bytes) (x5c : Option (List Cert)) : PO Obj :=
  match t with
  | some t => setBytes m name t
  | Option.none =>
    match x5c with
    | some (c :: _) => do
      let sum ← hashOf hash c.raw
      setBytes m name sum
    | _ => pure m

/-- `encodeCommonParameters` -/
def encodeCommon (m : Obj) (k : Key) : PO Obj := do
  let m := oset m "kty" (.str (ktyString k.kty))
  let m := osetOpt m "kid" (nonEmpty k.kid)
  let m := osetOpt m "use" (nonEmpty k.use)
  let m := osetOpt m "key_ops" (k.keyOps.map fun ops => .arr (ops.map .str))
  let m := osetOpt m "alg" (nonEmpty k.alg)
  let m := osetOpt m "x5u" (k.x5u.map .str)
  let m ← match k.x5c with
    | some cs => do
      let l ← encCerts cs
      pure (oset m "x5c" (.arr l))
    | Option.none => pure m
  let m ← encodeThumb m "x5t" "sha1" k.x5t k.x5c
  encodeThumb m "x5t#S256" "sha256" k.x5tS256 k.x5c

/-! ## EC (jwk/ecdsa.go) -/

def curveOfCrv (crv : String) : Option GoCurve :=
  if crv == jwa.P256 then some .p256
  else if crv == jwa.P384 then some .p384
  else if crv == jwa.P521 then some .p521
  else if crv == jwa.Secp256k1 then some .secp256k1
  else Option.none

/-- `pub.Equal(cert.PublicKey)` for the first certificate, per key type -/
def certMatches (pub : GoPub) (x5c : Option (List Cert)) : PO Unit :=
  match x5c with
  | some (c :: _) => if c.pub = pub then pure () else PO.fail "cert-key"
  | _ => pure ()

/-- `parseEcdsaKey` -/
def parseEc (m : Obj) (key : Key) : PO Key := do
  let crv ← mustString m "crv"
  match curveOfCrv crv with
  | Option.none => PO.fail "crv"
  | some curve =>
    let x ← mustBigInt m "x"
    let y ← mustBigInt m "y"
    let pub : EcPub := ⟨curve, x, y⟩
    validateEcPub pub
    let dd ← getBigInt m "d"
    let priv : GoPriv ← match dd with
      | some d => do
        validateEcPriv pub (some (d : Int))
        pure (GoPriv.ecdsa pub (some (d : Int)))
      | Option.none => pure GoPriv.none
    certMatches (.ecdsa pub) key.x5c
    pure { key with pub := .ecdsa pub, priv := priv }

/-- `encodeEcdsaKey` -/
def encodeEc (m : Obj) (priv : Option (EcPub × Option Int)) (pub : EcPub) : PO Obj := do
  validateEcPub pub
  let m := oset m "kty" (.str jwa.EC)
  let m := oset m "crv" (.str pub.curve.name)
  let size := pub.curve.size
  let m ← setFixedBigInt m "x" pub.x size
  let m ← setFixedBigInt m "y" pub.y size
  match priv with
  | Option.none => pure m
  | some (ppub, d) =>
    if ppub ≠ pub then PO.fail "eckey"
    else do
      validateEcPriv ppub d
      setFixedBigInt m "d" (d.getD 0) size

/-! ## RSA (jwk/rsa.go) -/

/-- `parseRSAOthParam`: absent or not a string → nil; undecodable → "b64" -/
def parseOthParam (u : Obj) (name : String) : PO (Option Nat) :=
  match Wire.lookup name u with
  | some (.str w) => do let b ← b64dec w; pure (some (Bytes.decodeBE b))
  | _ => pure Option.none

/-- the `oth` array: every element must be an object; per element (r, d, t) -/
def parseOth : List Wire → PO (List (Option Nat × Option Nat × Option Nat))
  | [] => pure []
  | .obj u :: rest => do
    let r ← parseOthParam u "r"
    let d ← parseOthParam u "d"
    let t ← parseOthParam u "t"
    let more ← parseOth rest
    pure ((r, d, t) :: more)
  | _ :: _ => PO.fail "type"

/-- `if oth, ok := d.GetArray("oth"); ok { … }` -/
def parseOthMember (m : Obj) : PO (List (Option Nat × Option Nat × Option Nat)) :=
  match Wire.lookup "oth" m with
  | Option.none => pure []
  | some (.arr oth) => parseOth oth
  | some _ => PO.fail "type"

/-- `mismatch(a, b)` of verifyRSAPrecomputedValues: a supplied value that differs -/
def crtMismatch (computed : Nat) : Option Nat → Bool
  | some s => s != computed
  | Option.none => false

def crtListMismatch : List (Nat × Nat × Nat) → List (Option Nat × Option Nat × Option Nat) → Bool
  | [], [] => false
  | (exp, coeff, _) :: cs, (_, d, t) :: ss => crtMismatch exp d || crtMismatch coeff t || crtListMismatch cs ss
  | _, _ => true

/-- `verifyRSAPrecomputedValues` -/
def verifyPrecomputed (pre : RsaPre) (dp dq qi : Option Nat)
    (oth : List (Option Nat × Option Nat × Option Nat)) : PO Unit :=
  if crtMismatch pre.dp dp || crtMismatch pre.dq dq || crtMismatch pre.qi qi then PO.fail "rsa-crt"
  else if crtListMismatch pre.crt oth then PO.fail "rsa-crt"
  else pure ()

def allSome : List (Option Nat) → Option (List Nat)
  | [] => some []
  | some x :: t => (allSome t).map (x :: ·)
  | Option.none :: _ => Option.none

/-- the private half of `parseRSAKey` (the `if d.Has("d")` block) -/
def parseRsaPriv (m : Obj) (pub : RsaPub) : PO GoPriv := do
  let d ← mustBigInt m "d"
  let p ← mustBigInt m "p"
  let q ← mustBigInt m "q"
  let oth ← parseOthMember m
  let dp ← getBigInt m "dp"
  let dq ← getBigInt m "dq"
  let qi ← getBigInt m "qi"
  -- a nil prime (oth element without a string "r") is rejected by validateRSAPrivateKey
  match allSome (oth.map (·.1)) with
  | Option.none => PO.fail "rsa-priv"
  | some rs =>
    let primes := p :: q :: rs
    validateRsaPriv pub d primes
    let pre ← rsaPrecomputeQ pub d primes
    verifyPrecomputed pre dp dq qi oth
    pure (GoPriv.rsa pub d primes (some pre))

def parseRsaPrivOpt (m : Obj) (pub : RsaPub) : PO GoPriv :=
  if (Wire.lookup "d" m).isSome then parseRsaPriv m pub else pure GoPriv.none

/-- `parseRSAKey` -/
def parseRsa (m : Obj) (key : Key) : PO Key := do
  let e ← mustBigInt m "e"
  -- !e.IsInt64() || e.Int64() <= 0, then validateRSAPublicKey's range for E
  if e ≥ 2 ^ 63 ∨ e = 0 then PO.fail "rsa-e"
  else
    let n ← mustBigInt m "n"
    let pub : RsaPub := ⟨n, e⟩
    validateRsaPub pub
    let priv ← parseRsaPrivOpt m pub
    certMatches (.rsa pub) key.x5c
    pure { key with pub := .rsa pub, priv := priv }

/-- the `oth` members: d, t from the CRT values, r = the prime factor itself -/
def encodeOth : List (Nat × Nat × Nat) → List Nat → PO (List Wire)
  | (exp, coeff, _) :: rest, r :: primes => do
    let d ← b64enc (minBE exp)
    let t ← b64enc (minBE coeff)
    let rr ← b64enc (minBE r)
    let more ← encodeOth rest primes
    pure (.obj [("d", .str d), ("r", .str rr), ("t", .str t)] :: more)
  | _, _ => pure []

/-- the CRT members of `encodeRSAKey` -/
def encodeRsaCrt (m : Obj) (ppub : RsaPub) (d : Nat) (primes : List Nat) (pre : Option RsaPre) : PO Obj := do
  -- without precomputed values, a key with more than two primes gets them computed (on a copy)
  let pre ← match pre with
    | some p => pure (some p)
    | Option.none => if primes.length > 2 then (do let p ← rsaPrecomputeQ ppub d primes; pure (some p)) else pure Option.none
  match pre with
  | Option.none => pure m
  | some pre =>
    if pre.crt.length ≠ primes.length - 2 then PO.fail "rsa-pre"
    else do
      let m ← setBigInt m "dp" pre.dp
      let m ← setBigInt m "dq" pre.dq
      let m ← setBigInt m "qi" pre.qi
      let oth ← encodeOth pre.crt (primes.drop 2)
      if oth.isEmpty then pure m else pure (oset m "oth" (.arr oth))

/-- `encodeRSAKey` -/
def encodeRsa (m : Obj) (priv : Option (RsaPub × Nat × List Nat × Option RsaPre)) (pub : RsaPub) : PO Obj := do
  let m := oset m "kty" (.str jwa.RSA)
  validateRsaPub pub
  let m ← setBytes m "e" (minBE pub.e.toNat)
  let m ← setBigInt m "n" pub.n.toNat
  match priv with
  | Option.none => pure m
  | some (ppub, d, primes, pre) => do
    validateRsaPriv ppub d primes
    let m ← setBigInt m "d" d
    let m ← setBigInt m "p" (primes.getD 0 0)
    let m ← setBigInt m "q" (primes.getD 1 0)
    encodeRsaCrt m ppub d primes pre

/-! ## OKP (jwk/okp.go, ed25519.go, ed448.go, x25519.go, x448.go) -/

inductive Okp where
  | ed25519 | ed448 | x25519 | x448
deriving DecidableEq, Repr, Inhabited

def Okp.crv : Okp → String
  | .ed25519 => jwa.Ed25519 | .ed448 => jwa.Ed448 | .x25519 => jwa.X25519 | .x448 => jwa.X448

/-- PublicKeySize = SeedSize -/
def Okp.len : Okp → Nat
  | .ed25519 => 32 | .ed448 => 57 | .x25519 => 32 | .x448 => 56

def Okp.derive : Okp → String
  | .ed25519 => "jwk.ed25519.pub" | .ed448 => "jwk.ed448.pub"
  | .x25519 => "jwk.x25519.pub" | .x448 => "jwk.x448.pub"

def Okp.mkPub : Okp → Bytes → GoPub
  | .ed25519, b => .ed25519 b | .ed448, b => .ed448 b | .x25519, b => .x25519 b | .x448, b => .x448 b

def Okp.mkPriv : Okp → Bytes → GoPriv
  | .ed25519, b => .ed25519 b | .ed448, b => .ed448 b | .x25519, b => .x25519 b | .x448, b => .x448 b

def okpOfCrv (crv : String) : Option Okp :=
  if crv == jwa.Ed25519 then some .ed25519
  else if crv == jwa.X25519 then some .x25519
  else if crv == jwa.Ed448 then some .ed448
  else if crv == jwa.X448 then some .x448
  else Option.none

/-- `parseEd25519Key` / `parseEd448Key` (explicit length tests, then NewKeyFromSeed) and
    `parseX25519Key` / `parseX448Key` (validate…PublicKey, then validate…PrivateKey on d ‖ x).
    Both shapes make the same tests in the same order: len x, len d, derived public = x. -/
def parseOkpCurve (c : Okp) (m : Obj) (key : Key) : PO Key := do
  let x ← mustBytes m "x"
  if x.length ≠ c.len then PO.fail "size"
  else
    let dd ← getBytes m "d"
    let priv : GoPriv ← match dd with
      | some d =>
        if d.length ≠ c.len then PO.fail "size"
        else do
          let pub ← derivePub c.derive d
          if pub = x then pure (c.mkPriv (d ++ x)) else PO.fail "keypair"
      | Option.none => pure GoPriv.none
    certMatches (c.mkPub x) key.x5c
    pure { key with pub := c.mkPub x, priv := priv }

/-- `parseOKPKey` -/
def parseOkp (m : Obj) (key : Key) : PO Key := do
  let crv ← mustString m "crv"
  match okpOfCrv crv with
  | some c => parseOkpCurve c m key
  | Option.none => PO.fail "crv"

/-- `encodeX25519Key` / `encodeX448Key`: validated -/
def encodeX (c : Okp) (m : Obj) (priv : Option Bytes) (pub : Bytes) : PO Obj := do
  validateOkpPub c.len pub
  let m := oset m "kty" (.str jwa.OKP)
  let m := oset m "crv" (.str c.crv)
  let m ← setBytes m "x" pub
  match priv with
  | Option.none => pure m
  | some p => do
    validateOkpPriv c.derive c.len c.len p
    setBytes m "d" (p.take c.len)

/-- `encodeEd25519Key` / `encodeEd448Key`: since d679531 exactly the shape of the X25519/X448 encoders — the public key
    length and (for a private key) length and seed → public derivation are validated before anything is emitted; the
    former panic site `priv[:SeedSize]` of a short key is now the "size" error -/
def encodeEd (c : Okp) (m : Obj) (priv : Option Bytes) (pub : Bytes) : PO Obj := encodeX c m priv pub

/-! ## crypto/ecdh keys (jwk/jwk.go:681-711) -/

def EcdhCurve.size : EcdhCurve → Nat
  | .p256 => 32 | .p384 => 48 | .p521 => 66 | .x25519 => 32

def EcdhCurve.crv : EcdhCurve → String
  | .p256 => jwa.P256 | .p384 => jwa.P384 | .p521 => jwa.P521 | .x25519 => jwa.X25519

/-- `encodeECDHKey` -/
def encodeECDH (m : Obj) (priv : Option Bytes) (c : EcdhCurve) (pub : Bytes) : PO Obj := do
  let m ← match c with
    | .x25519 => do
      let m := oset m "kty" (.str jwa.OKP)
      let m := oset m "crv" (.str c.crv)
      setBytes m "x" pub
    | _ =>
      -- data[1:size+1], data[size+1:]
      if pub.length < c.size + 1 then PO.panic "jwk.encodeECDHKey.slice"
      else do
        let m := oset m "kty" (.str jwa.EC)
        let m := oset m "crv" (.str c.crv)
        let m ← setBytes m "x" ((pub.drop 1).take c.size)
        setBytes m "y" (pub.drop (c.size + 1))
  match priv with
  | Option.none => pure m
  | some p => setBytes m "d" p

/-! ## symmetric -/

/-- `parseSymmetricKey`: a certificate chain cannot certify a symmetric key (6034da1) -/
def parseOct (m : Obj) (key : Key) : PO Key := do
  let k ← mustBytes m "k"
  match key.x5c with
  | some (_ :: _) => PO.fail "cert-key"
  | _ => pure { key with priv := .oct k }

def encodeOct (m : Obj) (k : Bytes) : PO Obj := do
  let m := oset m "kty" (.str jwa.Oct)
  setBytes m "k" k

/-! ## MarshalJSON, Thumbprint, ParseMap -/

/-- the type switch of `MarshalJSON` -/
def encodeMaterial (m : Obj) (priv : GoPriv) (pub : GoPub) : PO Obj :=
  match priv, pub with
  | .ecdsa pp d, .ecdsa p => encodeEc m (some (pp, d)) p
  | .rsa pp d primes pre, .rsa p => encodeRsa m (some (pp, d, primes, pre)) p
  | .ed25519 b, .ed25519 p => encodeEd .ed25519 m (some b) p
  | .ecdh _ b _, .ecdh c p => encodeECDH m (some b) c p
  | .x25519 b, .x25519 p => encodeX .x25519 m (some b) p
  | .ed448 b, .ed448 p => encodeEd .ed448 m (some b) p
  | .x448 b, .x448 p => encodeX .x448 m (some b) p
  | .oct b, .none => encodeOct m b
  | .none, .ecdsa p => encodeEc m Option.none p
  | .none, .rsa p => encodeRsa m Option.none p
  | .none, .ed25519 p => encodeEd .ed25519 m Option.none p
  | .none, .ecdh c p => encodeECDH m Option.none c p
  | .none, .x25519 p => encodeX .x25519 m Option.none p
  | .none, .ed448 p => encodeEd .ed448 m Option.none p
  | .none, .x448 p => encodeX .x448 m Option.none p
  | _, _ => PO.fail "keytype"

/-- `for _, name := range registeredMembers { delete(raw, name) }` (7805e88): the copy of `Raw` that
    MarshalJSON starts from keeps the unregistered members only; the list is the regenerated
    `Gen.JwkMembers.registeredMembers` -/
def dropRegistered (raw : Obj) : Obj :=
  raw.filter fun p => !(Gen.JwkMembers.registeredMembers.contains p.1)

/-- MarshalJSON after the copy of `Raw` was made: common parameters, then the type switch -/
def marshalFrom (k : Key) : PO Obj := do
  let m ← encodeCommon k.raw k
  encodeMaterial m k.priv k.pub

/-- `MarshalJSON` up to (not including) the final `json.Marshal`: the map that is serialised -/
def marshal (k : Key) : PO Obj := marshalFrom { k with raw := dropRegistered k.raw }

def jsonMarshal (m : Obj) : PO Bytes := do
  match ← PO.query "json.marshal" [.obj m] with
  | .bytes b => pure b
  | _ => PO.fail "json"

def marshalJSON (k : Key) : PO Bytes := do
  let m ← marshal k
  jsonMarshal m

/-- the reduced key of `Thumbprint` -/
def thumbKey (k : Key) : Key :=
  { kty := k.kty, pub := k.pub, priv := match k.priv with | .oct b => .oct b | _ => .none }

/-- `Thumbprint(h)`; `h` is named (the caller's hash.Hash is an oracle) -/
def thumbprint (k : Key) (h : String) : PO Bytes := do
  let data ← marshalJSON (thumbKey k)
  hashOf h data

/-- `ParseMap` -/
def parseMap (m : Obj) : PO Key := do
  let key ← decodeCommon m
  if key.kty == jwa.EC then parseEc m key
  else if key.kty == jwa.RSA then parseRsa m key
  else if key.kty == jwa.OKP then parseOkp m key
  else if key.kty == jwa.Oct then parseOct m key
  else PO.fail "kty"

/-- `ParseKey`: json decode (oracle) then ParseMap -/
def parseKey (data : Bytes) : PO Key := do
  match ← PO.query "json.decodeMap" [.bytes data] with
  | .obj m => parseMap m
  | .null => parseMap []          -- JSON null decodes into a nil map
  | _ => PO.fail "json"

/-- `ParseSet`: members that do not parse are skipped -/
def parseSetKeys : List Wire → PO (List Key)
  | [] => pure []
  | w :: rest => do
    let r ← PO.attempt (parseMap w.asObj)
    let more ← parseSetKeys rest
    match r with
    | .ok k => pure (k :: more)
    | .err _ => pure more
    | .panic s => PO.panic s

/-! ## NewPrivateKey / NewPublicKey / DecodePEM -/

def ecdhKty : EcdhCurve → String
  | .x25519 => jwa.OKP
  | _ => jwa.EC

/-- `NewPrivateKey` -/
def newPrivateKey (k : GoPriv) : PO Key :=
  match k with
  | .ecdsa p d => do
    validateEcPriv p d
    pure { kty := jwa.EC, priv := k, pub := k.public }
  | .rsa p d primes _ => do
    validateRsaPriv p d primes
    pure { kty := jwa.RSA, priv := k, pub := k.public }
  | .ed25519 b => do
    validateOkpPriv "jwk.ed25519.pub" 32 32 b
    pure { kty := jwa.OKP, priv := k, pub := k.public }
  | .ecdh c _ _ =>
    pure { kty := ecdhKty c, keyOps := some [jwk_jwktypes.KeyOpDeriveKey, jwk_jwktypes.KeyOpDeriveBits],
           priv := k, pub := k.public }
  | .x25519 b => do
    validateOkpPriv "jwk.x25519.pub" 32 32 b
    pure { kty := jwa.OKP, priv := k, pub := k.public }
  | .ed448 b => do
    validateOkpPriv "jwk.ed448.pub" 57 57 b
    pure { kty := jwa.OKP, priv := k, pub := k.public }
  | .x448 b => do
    validateOkpPriv "jwk.x448.pub" 56 56 b
    pure { kty := jwa.OKP, priv := k, pub := k.public }
  | .oct b => pure { kty := jwa.Oct, priv := .oct b }
  | _ => PO.fail "keytype"

/-- `NewPublicKey` -/
def newPublicKey (k : GoPub) : PO Key :=
  match k with
  | .ecdsa p => do
    validateEcPub p
    pure { kty := jwa.EC, pub := k }
  | .rsa p => do
    validateRsaPub p
    pure { kty := jwa.RSA, pub := k }
  | .ed25519 b => do
    validateOkpPub 32 b
    pure { kty := jwa.OKP, pub := k }
  | .ecdh c _ => pure { kty := ecdhKty c, keyOps := some [jwk_jwktypes.KeyOpDeriveBits], pub := k }
  | .x25519 b => do
    validateOkpPub 32 b
    pure { kty := jwa.OKP, pub := k }
  | .ed448 b => do
    validateOkpPub 57 b
    pure { kty := jwa.OKP, pub := k }
  | .x448 b => do
    validateOkpPub 56 b
    pure { kty := jwa.OKP, pub := k }
  | _ => PO.fail "keytype"

/-! ## re-keying a Key object (jwk/jwk.go SetPrivateKey / SetPublicKey) -/

/-- `SetPrivateKey`: the private key and, when it has a `Public()` method (every supported type but
    `[]byte`), its public key; `kty`, `Raw` and the optional parameters stay as they are -/
def setPrivateKey (k : Key) (g : GoPriv) : Key := { k with priv := g, pub := g.public }

/-- `SetPublicKey`: sets the public key and removes the private key -/
def setPublicKey (k : Key) (g : GoPub) : Key := { k with priv := .none, pub := g }

/-- `DecodePEM`: returns the key and the rest -/
def decodePEM (data : Bytes) : PO (Key × Bytes) := do
  match ← PO.query "jwk.pem.decode" [.bytes data] with
  | .arr [.str typ, .bytes der, .bytes rest] =>
    if typ == "RSA PRIVATE KEY" then do
      match ← PO.query "jwk.x509.pkcs1priv" [.bytes der] with
      | .none => PO.fail "x509"
      | w => let k ← newPrivateKey (GoPriv.ofWire w); pure (k, rest)
    else if typ == "RSA PUBLIC KEY" then do
      match ← PO.query "jwk.x509.pkcs1pub" [.bytes der] with
      | .none => PO.fail "x509"
      | w => let k ← newPublicKey (GoPub.ofWire w); pure (k, rest)
    else if typ == "PRIVATE KEY" then do
      match ← PO.query "jwk.x509.pkcs8priv" [.bytes der] with
      | .none => PO.fail "x509"
      | w => let k ← newPrivateKey (GoPriv.ofWire w); pure (k, rest)
    else if typ == "PUBLIC KEY" then do
      match ← PO.query "jwk.x509.pkixpub" [.bytes der] with
      | .none => PO.fail "x509"
      | w => let k ← newPublicKey (GoPub.ofWire w); pure (k, rest)
    else if typ == "CERTIFICATE" then do
      match ← PO.query "jwk.x509.parse" [.bytes der] with
      | .arr [pk] =>
        let k ← newPublicKey (GoPub.ofWire pk)
        pure ({ k with x5c := some [⟨der, GoPub.ofWire pk⟩] }, rest)
      | _ => PO.fail "x509"
    else PO.fail "pem-type"
  | _ => PO.fail "pem"

end Model.JWK
