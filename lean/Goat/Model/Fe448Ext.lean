import Goat.Model.Fe448
/-
Composite operations of internal/edwards448/field/fe.go, as shallow definitions over the regenerated
primitive limb programs (`Model.Fe448.*`).  Each definition follows the Go statement sequence of the
function of the same name (fe.go); the bitwise operations of Select/Swap/Equal/IsNegative act on
64-bit machine words, modelled on `Nat` with `&&&`, `|||`, `^^^`, `>>>` and an explicit 64-bit
complement / wrap-around.

Aliasing: the definitions are *functional* (every Go temporary is a `let`).  This is faithful for every
aliasing of receiver and arguments because (1) every primitive has an empty alias-hazard list
(`C17.no_alias_hazards`, regenerated), i.e. reads all the operand fields it needs before the
first write to the receiver, and (2) the composites below only write to explicit local temporaries
(`var x Element` …) before their final primitive call — see `docs/C17X.md`.
-/
namespace Model.Fe448Ext
open Model.Fe448

/-- a limb as the 64-bit machine word the Go field holds -/
def word (x : Int) : Nat := (x % 2 ^ 64).toNat
/-- field `l_i` of an element -/
def limb (a : Limbs) (i : Nat) : Nat := word (a.getD i 0)
/-- Go `^m` on uint64 -/
def not64 (m : Nat) : Nat := m ^^^ (2 ^ 64 - 1)
/-- `mask64Bits(cond) = uint64(0) - uint64(cond)` (conversion int→uint64 and subtraction wrap) -/
def mask64Bits (cond : Int) : Nat := ((0 - cond % 2 ^ 64) % 2 ^ 64).toNat

/-- `Zero` -/
def zero : Limbs := [0, 0, 0, 0, 0, 0, 0, 0]
/-- `One` -/
def one : Limbs := [1, 0, 0, 0, 0, 0, 0, 0]
/-- `Set` (`*v = *a`) -/
def set (a : Limbs) : Limbs := a

/-- `v.Select(a, b, cond)`: `v.l_i = (m & a.l_i) | (^m & b.l_i)` -/
def select (a b : Limbs) (cond : Int) : Limbs :=
  let m := mask64Bits cond
  (List.range 8).map fun i => Int.ofNat ((m &&& limb a i) ||| (not64 m &&& limb b i))

/-- `v.Swap(u, cond)`: `t = m & (v.l_i ^ u.l_i); v.l_i ^= t; u.l_i ^= t`; returns the new (v, u) -/
def swap (v u : Limbs) (cond : Int) : Limbs × Limbs :=
  let m := mask64Bits cond
  let t := fun i => m &&& (limb v i ^^^ limb u i)
  ((List.range 8).map fun i => Int.ofNat (limb v i ^^^ t i),
   (List.range 8).map fun i => Int.ofNat (limb u i ^^^ t i))

/-- the tail of `Equal` on the 64-bit accumulator: `c = (c & 0xFFFFFFFF) | (c >> 32); c--; c >> 63` -/
def isZero64 (c : Nat) : Nat :=
  let c := (c &&& 0xFFFFFFFF) ||| (c >>> 32)
  let c := (c + (2 ^ 64 - 1)) % 2 ^ 64   -- c-- with 64-bit wrap
  c >>> 63

/-- `v.Equal(u)`: both operands reduced, XOR/OR fold, constant-time zero test -/
def equal (v u : Limbs) : Int :=
  let u0 := reduce u
  let v0 := reduce v
  let x := fun i => limb v0 i ^^^ limb u0 i
  let c := x 0
  let c := c ||| x 1
  let c := c ||| x 2
  let c := c ||| x 3
  let c := c ||| x 4
  let c := c ||| x 5
  let c := c ||| x 6
  let c := c ||| x 7
  Int.ofNat (isZero64 c)

/-- `v.IsNegative()`: low bit of the canonical form -/
def isNegative (v : Limbs) : Int :=
  let v0 := reduce v
  Int.ofNat (limb v0 0 &&& 1)

/-- `v.Abs(u)`: `x.Negate(u); v.Select(&x, u, u.IsNegative())` -/
def abs (u : Limbs) : Limbs :=
  let x := negate u
  select x u (isNegative u)

/-- n successive `x.Square(&x)` -/
def sqn : Nat → Limbs → Limbs
  | 0, x => x
  | n + 1, x => sqn n (square x)

/-- `v.Power446(z)`: the addition chain of fe.go, statement for statement
    (`sqn k (square y)` is `t.Square(&y); for i := 1; i < k+1; i++ { t.Square(&t) }`) -/
def power446 (z : Limbs) : Limbs :=
  let z1 := square z            -- 2^1
  let z2 := square z1           -- 2^2
  let z3 := mul z z1
  let z3 := mul z3 z2           -- 2^3 - 1
  let z6 := square z3
  let z6 := square z6
  let z6 := square z6
  let z6 := mul z6 z3           -- 2^6 - 1
  let z9 := square z6
  let z9 := square z9
  let z9 := square z9
  let z9 := mul z9 z3           -- 2^9 - 1
  let z18 := square z9
  let z18 := sqn 8 z18
  let z18 := mul z18 z9         -- 2^18 - 1
  let z37 := square z18
  let z37 := sqn 17 z37
  let z37 := mul z37 z18
  let z37 := square z37
  let z37 := mul z37 z          -- 2^37 - 1
  let z111 := square z37
  let z111 := sqn 36 z111
  let z111 := mul z111 z37
  let z111 := sqn 37 z111
  let z111 := mul z111 z37      -- 2^111 - 1
  let z222 := square z111
  let z222 := sqn 110 z222
  let z222 := mul z222 z111     -- 2^222 - 1
  let z223 := square z222
  let z223 := mul z223 z        -- 2^223 - 1
  let x := square z223
  let x := sqn 222 x
  mul x z222                    -- 2^446 - 2^222 - 1

/-- `v.Inv(z)`: `x.Power446(z); x.Square(&x); x.Square(&x); v.Mul(&x, z)` -/
def inv (z : Limbs) : Limbs :=
  let x := power446 z
  let x := square x
  let x := square x
  mul x z

/-- `r.SqrtRatio(u, v)` with the temporaries of the current code (uv, x, check); returns (r, wasSquare) -/
def sqrtRatio (u v : Limbs) : Limbs × Int :=
  let uv := mul u v
  let uv := power446 uv
  let x := mul u uv
  let check := square x
  let check := mul v check
  let wasSquare := equal check u
  (set x, wasSquare)

end Model.Fe448Ext
