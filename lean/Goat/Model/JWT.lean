import Goat.Model.JWS
/-
C01/C02 — model of the signature half of package jwt.

Sources mirrored (pinned tree):
  jwt/parser.go:116-192  Parser.Parse (everything up to `p.parseClaims`)   → `parse`
  jwt/jwt.go:52-88       Sign                                              → `sign`

The claims codec (`parseClaims`, `encodeClaims`: properties C04/C10) is ONE abstract step, kept
in its place in the order of operations:
  c01.jwt.parseClaims [bytes payload] → claims value | none
  c02.jwt.encodeClaims [claims]       → bytes | none
The caller's `jwt.KeyFinder` is the oracle  jwt.findKey [header] → key handle | none.

Error classes (one per stage, in the order of the code): "config", "format", "header", "alg",
"key", "sigb64", "sig", "payloadb64", "claims".
-/
namespace Model.JWT
open Model.JWS

/-- `jwt.Parser`: all four interface fields non-nil = `configured` -/
structure Cfg where
  configured : Bool := true
  allowAny : Bool := false
  allowed : List String := []
deriving Inhabited

/-- parser.go:36-55 -/
def Cfg.allows (c : Cfg) (alg : String) : Bool := c.allowAny || c.allowed.contains alg

def findKeyQuery (h : Header) : Query := ⟨"jwt.findKey", [h.toWire]⟩

/-- a step whose failure is reported with class `cls` -/
def stage {α} (cls : String) (p : PO α) : PO α := do
  match (← PO.attempt p) with
  | .ok a => pure a
  | .err _ => PO.fail cls
  | .panic s => PO.panic s

/-- parser.go:116-192 with the claims step `pc` (what `p.parseClaims(ctx, payload)` does) as a
    parameter.  Result: the header and the result of the claims step. -/
def parseWith {γ : Type} (pc : Bytes → PO γ) (cfg : Cfg) (data : Bytes) : PO (Header × γ) :=
  if !cfg.configured then PO.fail "config"
  else match splitDot data with
  | none => PO.fail "format"
  | some (b64header, rest) =>
    match splitDot rest with
    | none => PO.fail "format"
    | some (b64payload, b64signature) => do
      -- parse header
      let hb ← stage "header" (b64Decode b64header)
      let header ← stage "header" (unmarshalHeader hb)
      if !cfg.allows header.alg then PO.fail "alg"
      else do
        -- verify signature
        let k ← PO.query (findKeyQuery header).name (findKeyQuery header).args
        match Sig.signingKeyOfHandle k with
        | none => PO.fail "key"
        | some (.panic site) => PO.panic site
        | some (.err _) => PO.fail "key"
        | some (.ok sk) => do
          let sg ← stage "sigb64" (b64Decode b64signature)
          -- `data[:idx2]`, idx2 = index of the second '.'
          stage "sig" (Sig.verifyKey sk (data.take (b64header.length + 1 + b64payload.length)) sg)
          -- parse payload
          let payload ← stage "payloadb64" (b64Decode b64payload)
          -- parse claims
          let c ← pc payload
          pure (header, c)

/-- the claims step as ONE abstract oracle step (properties C04/C10 model it in full:
    `Model.JWTClaims.parseClaims`; see `parseFull` in GoatProofs/C02.lean for the assembly) -/
def claimsOracle (payload : Bytes) : PO Wire := do
  match (← PO.query "c01.jwt.parseClaims" [.bytes payload]) with
  | .none => PO.fail "claims"
  | c => pure c

/-- `Parser.Parse` with the abstract claims step -/
def parse (cfg : Cfg) (data : Bytes) : PO (Header × Wire) := parseWith claimsOracle cfg data

/-- jwt.go:52-88 `Sign(header, claims, key)` with the claims encoder `enc` (`encodeClaims(claims)`) as
    a parameter: header.payload.signature built in one buffer -/
def signWith (enc : PO Bytes) (header : Header) (key : Sig.SigningKey) : PO Bytes := do
  let payload ← enc
  let h1 ← stage "header" (encodeHeader header)
  let headerBytes ← stage "header" (jsonMarshalB h1)
  let b1 ← b64Encode headerBytes
  let b2 ← b64Encode payload
  let sg ← Sig.signKey key (b1 ++ dot :: b2)
  let b3 ← b64Encode sg
  pure (b1 ++ dot :: (b2 ++ dot :: b3))

/-- the claims encoder as ONE abstract oracle step -/
def encodeClaimsOracle (claims : Wire) : PO Bytes := do
  match (← PO.query "c02.jwt.encodeClaims" [claims]) with
  | .bytes b => pure b
  | _ => PO.fail "claims"

def sign (header : Header) (claims : Wire) (key : Sig.SigningKey) : PO Bytes :=
  signWith (encodeClaimsOracle claims) header key

end Model.JWT
