import Goat.Base.Prog
import Goat.Model.Fe448Ext
/-
x448/x448.go mirrored over the field model (`Model.Fe448` primitives = regenerated limb programs,
`Model.Fe448Ext` composites).  The statement order, the temporaries and the aliasing-free data flow of
the Go function `X448` are kept (x448.go:126-188):

  length checks → clamp (k[0] &= 252; k[55] |= 128) → u.SetBytes(point) → x1 = u, x2 = 1, x3 = u,
  z3 = 1 (z2 is the zero value) → for t = 447 … 0 { kt; swap ^= kt; x2.Swap(&x3, swap);
  z2.Swap(&z3, swap); swap = kt; a, aa, b, bb, e, c, d, da, cb; x3; z3; x2; z2 } → final swaps →
  ret.Mul(&x2, ret.Inv(&z2)) → zero.Equal(&ret) == 1 ⇒ error → ret.Bytes().
-/
namespace Model.X448
open Model.Fe448 Model.Fe448Ext

structure LState where
  x1 : Limbs
  x2 : Limbs
  z2 : Limbs
  x3 : Limbs
  z3 : Limbs
  swap : Nat

/-- `var k [56]byte; copy(k[:], scalar); k[0] &= 252; k[55] |= 128` -/
def clamp (scalar : List Nat) : List Nat :=
  let k := scalar
  let k := k.set 0 (k.getD 0 0 &&& 252)
  k.set 55 (k.getD 55 0 ||| 128)

/-- `kt := int(k[t/8]>>(t%8)) & 1` -/
def bitAt (k : List Nat) (t : Nat) : Nat := (k.getD (t / 8) 0 >>> (t % 8)) &&& 1

/-- the loop body for bit index t -/
def ladderStep (k : List Nat) (s : LState) (t : Nat) : LState :=
  let kt := bitAt k t
  let swp := s.swap ^^^ kt                       -- swap ^= kt
  let sx := swap s.x2 s.x3 (Int.ofNat swp)       -- x2.Swap(&x3, swap)
  let x2 := sx.1
  let x3 := sx.2
  let sz := swap s.z2 s.z3 (Int.ofNat swp)       -- z2.Swap(&z3, swap)
  let z2 := sz.1
  let z3 := sz.2
  let swp := kt                                  -- swap = kt
  let a := add x2 z2
  let aa := square a
  let b := sub x2 z2
  let bb := square b
  let e := sub aa bb
  let c := add x3 z3
  let d := sub x3 z3
  let da := mul d a
  let cb := mul c b
  let x3 := add da cb
  let x3 := square x3
  let z3 := sub da cb
  let z3 := square z3
  let z3 := mul z3 s.x1
  let x2 := mul aa bb
  let z2 := mul32 e 39081
  let z2 := add z2 aa
  let z2 := mul z2 e
  { x1 := s.x1, x2 := x2, z2 := z2, x3 := x3, z3 := z3, swap := swp }

/-- `for t := 56*8 - 1; t >= 0; t--` -/
def indices : List Nat := (List.range (56 * 8)).reverse

def toInts (b : Bytes) : List Int := b.map fun x => Int.ofNat x.toNat
def ofInts (l : List Int) : Bytes := l.map fun x => UInt8.ofNat x.toNat

/-- the field element `ret` of `X448` (before the all-zero test) for 56-byte inputs -/
def x448Ret (scalar point : Bytes) : Limbs :=
  let k := clamp (scalar.map UInt8.toNat)
  let u := setBytes (toInts point)
  let s0 : LState := { x1 := set u, x2 := one, z2 := zero, x3 := set u, z3 := one, swap := 0 }
  let s := indices.foldl (ladderStep k) s0
  let x2 := (swap s.x2 s.x3 (Int.ofNat s.swap)).1   -- x2.Swap(&x3, swap)
  let z2 := (swap s.z2 s.z3 (Int.ofNat s.swap)).1   -- z2.Swap(&z3, swap)
  -- ret.Mul(&x2, ret.Inv(&z2)): Inv writes ret through explicit temporaries, Mul has no alias hazard
  mul x2 (inv z2)

/-- `X448(scalar, point)` -/
def x448O (scalar point : Bytes) : Outcome Bytes :=
  if scalar.length ≠ 56 then .err "scalar-length"
  else if point.length ≠ 56 then .err "point-length"
  else
    let ret := x448Ret scalar point
    if equal zero ret = 1 then .err "low-order"   -- zero.Equal(&ret) == 1
    else .ok (ofInts (bytes ret))                 -- ret.Bytes()

def x448 (scalar point : Bytes) : PO Bytes := PO.ofOutcome (x448O scalar point)

/-- `var basepoint = []byte{5, 0, …, 0}` (56 bytes) -/
def basepoint : Bytes := 5 :: List.replicate 55 0

/-- `NewKeyFromSeed(seed)`: panics on a wrong length and on an X448 error;
    private key = seed ‖ public key -/
def newKeyFromSeed (seed : Bytes) : PO Bytes :=
  if seed.length ≠ 56 then PO.panic "x448: bad seed length"
  else match x448O seed basepoint with
    | .ok pub => PO.pure (seed ++ pub)
    | .err _ => PO.panic "x448: NewKeyFromSeed: X448 failed"
    | .panic s => PO.panic s

/-- `priv.Public()`: bytes 56.. of the private key -/
def publicOf (priv : Bytes) : Bytes := priv.drop 56

/-- `GenerateKey(rand)`: the seed is bytes [pos, pos+56) of the caller's random stream;
    returns (public, private) -/
def generateKey (pos : Nat) : PO (Bytes × Bytes) := do
  let r ← PO.query "rand" [.int pos, .int 56]
  match r with
  | .bytes seed =>
    if seed.length ≠ 56 then PO.fail "rand"
    else match x448O seed basepoint with
      | .ok pub => PO.pure (pub, seed ++ pub)
      | .err c => PO.fail c
      | .panic s => PO.panic s
  | _ => PO.fail "rand"

end Model.X448
