import Goat.Base.Prog
import Goat.Model.NumericDate
/-
Model of goat's shared decoders/encoders (property C07 owns them):

  internal/jsonutils/decode.go   Decoder: Has, GetString, MustString, GetBoolean, GetArray,
                                 MustArray, GetObject, GetStringArray, GetBytes, MustBytes,
                                 GetBigInt, MustBigInt, GetURL, GetTime, GetInt64, MustInt64,
                                 Decode, SaveError, Err — first-error semantics — and the error
                                 values with THEIR `Error()` rendering (typeError, missingError,
                                 base64DecodeError, fmt.Errorf texts)
  internal/jsonutils/encode.go   Encoder: Set, SetBytes, SetBigInt, SetFixedBigInt, SetTime, Encode
  internal/cborutils/decode.go   Decoder: Has, GetInteger, GetString, GetBytes, MustBytes

Go values decoded by encoding/json (UseNumber) are `Wire` JSON values: nil, bool, json.Number,
string, []any, map[string]any.  The standard library is an oracle:
  b64url.dec [bytes s]      → bytes | none        base64.RawURLEncoding.Decode
  b64url.enc [bytes b]      → bytes               base64.RawURLEncoding.Encode
  url.parse [str s]         → str (ok) | none     net/url.Parse
  json.number.int64 [num s] → int | none          json.Number.Int64 (strconv.ParseInt)
`reflect.TypeOf(v).String()` is goat-side data flow: the type NAME is a function of the dynamic
type, and `reflect.TypeOf(nil)` is the nil Type whose String() panics — the model keeps that.

Buffers: `d.src`/`d.dst` are modelled by their capacity/length (`srcCap`, `dstLen`); the two slice
expressions of `decode` are modelled with their bounds checks, so that the absence of a panic is a
theorem about `grow`, not an assumption.
-/
namespace Model.JsonDecoder

/-- dynamic Go type of a decoded JSON value; `none` = untyped nil (JSON null) -/
def goType : Wire → Option String
  | .null => none
  | .bool _ => some "bool"
  | .num _ => some "json.Number"
  | .str _ => some "string"
  | .arr _ => some "[]interface {}"
  | .obj _ => some "map[string]interface {}"
  | .int _ => some "float64"        -- not produced by the JSON oracle; kept total
  | .bytes _ => some "[]uint8"
  | .none => none

/-- error values stored in `Decoder.err` -/
inductive DErr where
  | typeError (pkg name want : String) (got : Option String)
  | missing (pkg name : String)
  | base64 (pkg name : String)
  | fmtErr (text : String)          -- fmt.Errorf(...) with already formatted operands
  | saved (cls : String)            -- SaveError(err) by the caller: cls names the caller's error
deriving Repr, DecidableEq

/-- `(*typeError).Error()`: the fixed code renders a nil `got` as "null" -/
def renderTypeError (pkg name want : String) (got : Option String) : PO String :=
  match got with
  | none => pure (pkg ++ ": want " ++ want ++ " for the parameter " ++ name ++ " but got null")
  | some t => pure (pkg ++ ": want " ++ want ++ " for the parameter " ++ name ++ " but got " ++ t)

/-- the code before commit dc694be: `err.got.String()` on the nil reflect.Type panics -/
def renderTypeErrorOld (pkg name want : String) (got : Option String) : PO String :=
  match got with
  | none => PO.panic "jsonutils.typeError.Error.nil-reflect-type"
  | some t => pure (pkg ++ ": want " ++ want ++ " for the parameter " ++ name ++ " but got " ++ t)

/-- `err.Error()` for every error the decoder can hold -/
def render : DErr → PO String
  | .typeError pkg name want got => renderTypeError pkg name want got
  | .missing pkg name => pure (pkg ++ ": required parameter " ++ name ++ " is missing")
  | .base64 pkg name => pure (pkg ++ ": failed to parse the parameter " ++ name ++ " as base64url")
  | .fmtErr t => pure t
  | .saved cls => pure cls

/-- error class reported to the harness -/
def DErr.cls : DErr → String
  | .typeError .. => "type"
  | .missing .. => "missing"
  | .base64 .. => "b64"
  | .fmtErr _ => "parse"
  | .saved c => c

structure Dec where
  pkg : String
  raw : List (String × Wire)
  srcCap : Nat := 0
  dstLen : Nat := 0
  err : Option DErr := none

def Dec.new (pkg : String) (raw : List (String × Wire)) : Dec := { pkg := pkg, raw := raw }

/-- first-error semantics: `if d.err == nil { d.err = e }` -/
def Dec.setErr (d : Dec) (e : DErr) : Dec :=
  match d.err with
  | none => { d with err := some e }
  | some _ => d

def Dec.saveError (d : Dec) (cls : String) : Dec := d.setErr (.saved cls)

def decodedLen (n : Nat) : Nat := n * 6 / 8
def encodedLen (n : Nat) : Nat := (n * 8 + 5) / 6

/-- `grow(n)`: `if cap(src) >= n return; if n < 64 { n = 64 }; src = make(n); dst = make(DecodedLen(n))` -/
def Dec.grow (d : Dec) (n : Nat) : Dec :=
  if d.srcCap ≥ n then d
  else
    let m := if n < 64 then 64 else n
    { d with srcCap := m, dstLen := decodedLen m }

def Dec.has (d : Dec) (name : String) : Bool := (Wire.lookup name d.raw).isSome

/-- `decode(dst, s, name)` with `len(dst) = dstLen`:
      d.grow(len(s)); src := d.src[:len(s)]; n, err := b64.Decode(dst, src); …; return dst[:n]
    Two goat-side obligations: the slice `d.src[:len(s)]` needs `len(s) ≤ cap(d.src)`, and
    base64's Decode indexes `dst` up to `DecodedLen(len(src))` (documented: "writes at most
    DecodedLen(len(src)) bytes to dst"; a shorter dst is an index-out-of-range panic inside Decode).
    `dst[:n]` with the returned count cannot fail once Decode has returned. -/
def Dec.decodeCore (d : Dec) (len dstLen : Nat) (s name : String) : PO (Option Bytes × Dec) :=
  if len > d.srcCap then PO.panic "jsonutils.Decoder.decode.src-slice"
  else if dstLen < decodedLen len then PO.panic "base64.Decode.dst-too-small"
  else do
    let r ← PO.query "b64url.dec" [.bytes (Bytes.ofString s)]
    match r with
    | .bytes out => pure (some out, d)
    | _ => pure (none, d.setErr (.base64 d.pkg name))

def Dec.decodeInto (d : Dec) (dstLen : Nat) (s name : String) : PO (Option Bytes × Dec) :=
  (d.grow (Bytes.ofString s).length).decodeCore (Bytes.ofString s).length dstLen s name

/-- `Decode(s, name)`: `d.grow(len(s)); return d.decode(d.dst, s, name)` -/
def Dec.decode (d : Dec) (s name : String) : PO (Option Bytes × Dec) :=
  let d := d.grow (Bytes.ofString s).length
  d.decodeInto d.dstLen s name

def Dec.getString (d : Dec) (name : String) : Option String × Dec :=
  match Wire.lookup name d.raw with
  | none => (none, d)
  | some (.str s) => (some s, d)
  | some v => (none, d.setErr (.typeError d.pkg name "string" (goType v)))

def Dec.mustString (d : Dec) (name : String) : String × Dec :=
  match Wire.lookup name d.raw with
  | none => ("", d.setErr (.missing d.pkg name))
  | some (.str s) => (s, d)
  | some v => ("", d.setErr (.typeError d.pkg name "string" (goType v)))

/-- note the `want: "string"` of the real GetBoolean -/
def Dec.getBoolean (d : Dec) (name : String) : Option Bool × Dec :=
  match Wire.lookup name d.raw with
  | none => (none, d)
  | some (.bool b) => (some b, d)
  | some v => (none, d.setErr (.typeError d.pkg name "string" (goType v)))

def Dec.getArray (d : Dec) (name : String) : Option (List Wire) × Dec :=
  match Wire.lookup name d.raw with
  | none => (none, d)
  | some (.arr l) => (some l, d)
  | some v => (none, d.setErr (.typeError d.pkg name "[]any" (goType v)))

def Dec.mustArray (d : Dec) (name : String) : Option (List Wire) × Dec :=
  match Wire.lookup name d.raw with
  | none => (none, d.setErr (.missing d.pkg name))
  | some (.arr l) => (some l, d)
  | some v => (none, d.setErr (.typeError d.pkg name "[]any" (goType v)))

def Dec.getObject (d : Dec) (name : String) : Option (List (String × Wire)) × Dec :=
  match Wire.lookup name d.raw with
  | none => (none, d)
  | some (.obj kvs) => (some kvs, d)
  | some v => (none, d.setErr (.typeError d.pkg name "map[string]any" (goType v)))

/-- the element loop of GetStringArray: first non-string element at index i is a type error -/
def stringElems (d : Dec) (name : String) : Nat → List Wire → List String → Option (List String) × Dec
  | _, [], acc => (some acc.reverse, d)
  | i, .str s :: rest, acc => stringElems d name (i + 1) rest (s :: acc)
  | i, v :: _, _ =>
    (none, d.setErr (.typeError d.pkg (name ++ "[" ++ toString i ++ "]") "string" (goType v)))

def Dec.getStringArray (d : Dec) (name : String) : Option (List String) × Dec :=
  match d.getArray name with
  | (none, d) => (none, d)
  | (some l, d) => stringElems d name 0 l []

/-- GetBytes: `buf := make([]byte, DecodedLen(len(s))); return d.decode(buf, s, name), true`
    (present even when the base64 is bad: the value is then nil) -/
def Dec.getBytes (d : Dec) (name : String) : PO (Option (Option Bytes) × Dec) :=
  match d.getString name with
  | (none, d) => pure (none, d)
  | (some s, d) => do
    let (b, d) ← d.decodeInto (decodedLen (Bytes.ofString s).length) s name
    pure (some b, d)

def Dec.mustBytes (d : Dec) (name : String) : PO (Option Bytes × Dec) :=
  match d.getString name with
  | (none, d) => pure (none, d.setErr (.missing d.pkg name))
  | (some s, d) => d.decodeInto (decodedLen (Bytes.ofString s).length) s name

/-- GetBigInt: `data := d.Decode(s, name); if d.err != nil { return nil, false }` — ANY earlier
    error makes it fail; `new(big.Int).SetBytes(nil)` is 0 -/
def Dec.getBigInt (d : Dec) (name : String) : PO (Option Nat × Dec) :=
  match d.getString name with
  | (none, d) => pure (none, d)
  | (some s, d) => do
    let (b, d) ← d.decode s name
    match d.err with
    | some _ => pure (none, d)
    | none => pure (some (Bytes.decodeBE (b.getD [])), d)

def Dec.mustBigInt (d : Dec) (name : String) : PO (Option Nat × Dec) := do
  let (n, d) ← d.getBigInt name
  match n with
  | none => pure (none, d.setErr (.missing d.pkg name))
  | some n => pure (some n, d)

def Dec.getURL (d : Dec) (name : String) : PO (Option String × Dec) :=
  match d.getString name with
  | (none, d) => pure (none, d)
  | (some s, d) => do
    let r ← PO.query "url.parse" [.str s]
    match r with
    | .str u => pure (some u, d)
    | _ => pure (none, d.setErr (.fmtErr (d.pkg ++ ": failed to parse the parameter " ++ name ++ " as url")))

/-- GetTime: json.Number through NumericDate.UnmarshalJSON (goat code, modelled in
    Model.NumericDate); float64 never comes out of a UseNumber decoder -/
def Dec.getTime (d : Dec) (name : String) : PO (Option Int × Dec) :=
  match Wire.lookup name d.raw with
  | none => pure (none, d)
  | some (.num s) =>
    match Model.NumericDate.decode s with
    | .ok t => pure (some t, d)
    | .err _ => pure (none, d.setErr (.fmtErr (d.pkg ++ ": failed to parse parameter " ++ name)))
    | .panic p => PO.panic p
  | some v => pure (none, d.setErr (.typeError d.pkg name "number" (goType v)))

def Dec.getInt64 (d : Dec) (name : String) : PO (Option Int × Dec) :=
  match Wire.lookup name d.raw with
  | none => pure (none, d)
  | some (.num s) => do
    let r ← PO.query "json.number.int64" [.num s]
    match r with
    | .int i => pure (some i, d)
    | _ => pure (none, d.setErr (.fmtErr (d.pkg ++ ": failed to parse integer parameter " ++ name)))
  | some v => pure (none, d.setErr (.typeError d.pkg name "number" (goType v)))

def Dec.mustInt64 (d : Dec) (name : String) : PO (Option Int × Dec) := do
  let (n, d) ← d.getInt64 name
  match n with
  | none => pure (none, d.setErr (.missing d.pkg name))
  | some n => pure (some n, d)

/-- the getters by name, for theorems and the driver that quantify over "every getter" -/
inductive Getter where
  | has | getString | mustString | getBoolean | getArray | mustArray | getObject | getStringArray
  | getBytes | mustBytes | getBigInt | mustBigInt | getURL | getTime | getInt64 | mustInt64
deriving Repr, DecidableEq

def Getter.all : List Getter := [.has, .getString, .mustString, .getBoolean, .getArray, .mustArray, .getObject,
  .getStringArray, .getBytes, .mustBytes, .getBigInt, .mustBigInt, .getURL, .getTime, .getInt64, .mustInt64]

/-- run a getter; the result value is forgotten, the decoder state (with its first error) is kept -/
def Getter.run (g : Getter) (d : Dec) (name : String) : PO Dec :=
  match g with
  | .has => pure d
  | .getString => pure (d.getString name).2
  | .mustString => pure (d.mustString name).2
  | .getBoolean => pure (d.getBoolean name).2
  | .getArray => pure (d.getArray name).2
  | .mustArray => pure (d.mustArray name).2
  | .getObject => pure (d.getObject name).2
  | .getStringArray => pure (d.getStringArray name).2
  | .getBytes => do let r ← d.getBytes name; pure r.2
  | .mustBytes => do let r ← d.mustBytes name; pure r.2
  | .getBigInt => do let r ← d.getBigInt name; pure r.2
  | .mustBigInt => do let r ← d.mustBigInt name; pure r.2
  | .getURL => do let r ← d.getURL name; pure r.2
  | .getTime => do let r ← d.getTime name; pure r.2
  | .getInt64 => do let r ← d.getInt64 name; pure r.2
  | .mustInt64 => do let r ← d.mustInt64 name; pure r.2

/-- `d.Err()` followed by `err.Error()`: what a caller sees -/
def Dec.renderErr (d : Dec) : PO (Option String) :=
  match d.err with
  | none => pure none
  | some e => do let t ← render e; pure (some t)

/-! ## Encoder -/

structure Enc where
  raw : List (String × Wire)
  srcCap : Nat := 0
  dstLen : Nat := 0
  err : Option String := none

def Enc.saveError (e : Enc) (cls : String) : Enc :=
  match e.err with
  | none => { e with err := some cls }
  | some _ => e

def Enc.put (e : Enc) (name : String) (v : Wire) : Enc :=
  { e with raw := (name, v) :: e.raw.filter (fun kv => kv.1 != name) }

def Enc.grow (e : Enc) (n : Nat) : Enc :=
  if e.srcCap ≥ n then e
  else
    let m := if n < 64 then 64 else n
    { e with srcCap := m, dstLen := encodedLen m }

/-- `Encode(s)`: `e.grow(len(s)); dst := e.dst[:EncodedLen(len(s))]; b64.Encode(dst, s)` -/
def Enc.encodeCore (e : Enc) (s : Bytes) : PO (String × Enc) :=
  if encodedLen s.length > e.dstLen then PO.panic "jsonutils.Encoder.Encode.dst-slice"
  else do
    let r ← PO.query "b64url.enc" [.bytes s]
    pure (Bytes.toStringLossy r.asBytes, e)

def Enc.encode (e : Enc) (s : Bytes) : PO (String × Enc) := (e.grow s.length).encodeCore s

def Enc.setBytes (e : Enc) (name : String) (data : Bytes) : PO Enc := do
  let (s, e) ← e.encode data
  pure (e.put name (.str s))

def bitLen (n : Nat) : Nat := if n = 0 then 0 else n.log2 + 1

/-- `SetFixedBigInt(name, i, size)`; `i = none` models a nil *big.Int (BitLen dereferences it) -/
def Enc.fillAndEncode (e : Enc) (name : String) (n size : Nat) : PO Enc :=
  -- src := i.FillBytes(e.src[:size])
  if size > e.srcCap then PO.panic "jsonutils.Encoder.SetFixedBigInt.src-slice"
  else if n ≥ 256 ^ size then PO.panic "big.Int.FillBytes.too-small"
  else do
    let (s, e) ← e.encode (Bytes.encodeBE size n)
    pure (e.put name (.str s))

def Enc.setFixedBigInt (e : Enc) (name : String) (i : Option Nat) (size : Nat) : PO Enc :=
  match i with
  | none => PO.panic "jsonutils.Encoder.SetFixedBigInt.nil"
  | some n =>
    if bitLen n > size * 8 then pure (e.saveError "too-large")
    else (e.grow size).fillAndEncode name n size

/-- `SetBigInt(name, i)` = `SetFixedBigInt(name, i, (i.BitLen()+7)/8)` -/
def Enc.setBigInt (e : Enc) (name : String) (i : Option Nat) : PO Enc :=
  match i with
  | none => PO.panic "jsonutils.Encoder.SetBigInt.nil"
  | some n => e.setFixedBigInt name (some n) ((bitLen n + 7) / 8)

/-- `SetTime`: NumericDate.MarshalJSON (goat code, Model.NumericDate.encode) -/
def Enc.setTime (e : Enc) (name : String) (t : Int) : PO Enc :=
  match Model.NumericDate.encode t with
  | .ok s => pure (e.put name (.num s))
  | .err c => pure (e.saveError c)
  | .panic p => PO.panic p

/-! ## CBOR decoder (internal/cborutils/decode.go)

The decoded map is `List (Wire × Wire)`: labels are `.int` (cbor.Integer), values are
`.int` (cbor.Integer), `.str`, `.bytes`, or anything else. -/

structure CDec where
  raw : List (Int × Wire)
  err : Option String := none

def CDec.lookup (d : CDec) (label : Int) : Option Wire :=
  match d.raw.find? (fun kv => kv.1 == label) with
  | some kv => some kv.2
  | none => none

def CDec.saveError (d : CDec) (cls : String) : CDec :=
  match d.err with
  | none => { d with err := some cls }
  | some _ => d

def CDec.has (d : CDec) (label : Int) : Bool := (d.lookup label).isSome

/-- comma-ok assertion `v.(cbor.Integer)`: no error is recorded -/
def CDec.getInteger (d : CDec) (label : Int) : Option Int :=
  match d.lookup label with
  | some (.int i) => some i
  | _ => none

def CDec.getString (d : CDec) (label : Int) : Option String :=
  match d.lookup label with
  | some (.str s) => some s
  | _ => none

def CDec.getBytes (d : CDec) (label : Int) : Option Bytes :=
  match d.lookup label with
  | some (.bytes b) => some b
  | _ => none

def CDec.mustBytes (d : CDec) (label : Int) : Option Bytes × CDec :=
  match d.lookup label with
  | none => (none, d.saveError ("missing " ++ toString label))
  | some (.bytes b) => (some b, d)
  | some _ => (none, d.saveError ("invalid type for " ++ toString label))

/-- every cborutils getter as a PO program (they are pure; PO only for a uniform statement) -/
inductive CGetter where
  | has | getInteger | getString | getBytes | mustBytes
deriving Repr, DecidableEq

def CGetter.run (g : CGetter) (d : CDec) (label : Int) : PO CDec :=
  match g with
  | .has => pure d
  | .getInteger => pure d
  | .getString => pure d
  | .getBytes => pure d
  | .mustBytes => pure (d.mustBytes label).2

/-- the errors of the CBOR decoder are `fmt.Errorf` values: rendering returns the text -/
def CDec.renderErr (d : CDec) : PO (Option String) :=
  match d.err with
  | none => pure none
  | some t => pure (some t)

end Model.JsonDecoder
