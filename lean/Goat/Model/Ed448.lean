import Goat.Base.Prog
import Goat.Model.Ed448Pt
import Goat.Model.Sc448
/-
ed448/ed448.go: `newKeyFromSeed`, `sign`, `Verify` — statement for statement, over an abstract
record `Ops` of the edwards448 operations the file calls (scalar constructors, `MulAdd`,
`ScalarBaseMult`, `VarTimeDoubleScalarBaseMult`, `Negate`, point `Bytes`/`SetBytes`).

Two instances:
* `leanOps`   — the Lean models (`Model.Ed448Pt`, `Model.Sc448`): the object of the C13 theorems;
* `oracleOps` — every operation is an oracle query `ed448.*` answered by goat's own edwards448 code
                (harness/props/c13_oracle.go).  Used by the correspondence check to exercise the
                framing of ed448.go (lengths, dom4 prefix, hash inputs, order of checks, the byte
                comparison of R) on many messages at a cost independent of the point arithmetic.

SHAKE256 (x/crypto/sha3) is the oracle query `shake256 [data, n]`; the incremental
`NewShake256 / Write… / Read` of the Go code is one query on the concatenation.

goat's ed448 has NO context parameter and no prehash variant: the dom4 prefix is the constant
`sigEd448` = "SigEd448" ‖ 0x00 ‖ 0x00 (regenerated into `Gen.Ed448Pt.sigEd448`).

Core Lean only.
-/
set_option compiler.extract_closed false
namespace Model.Ed448

/-- `make([]byte, n)` filled by the XOF: the oracle answer cut / zero-padded to n octets -/
def fixLen (n : Nat) (b : Bytes) : Bytes := (b ++ List.replicate n 0).take n

/-- `sha3.ShakeSum256(h, data)` / `NewShake256; Write…; Read(h)` with `len(h) = n` -/
def shake (data : Bytes) (n : Nat) : PO Bytes := do
  let w ← PO.query "shake256" [.bytes data, .int n]
  pure (fixLen n w.asBytes)

def toInts (b : Bytes) : List Int := b.map fun x => (x.toNat : Int)
def ofInts (l : List Int) : Bytes := l.map fun x => UInt8.ofNat x.toNat

/-- `var sigEd448 = []byte("SigEd448" + "\000" + "\000")` -/
def sigEd448 : Bytes := Gen.Ed448Pt.sigEd448.map UInt8.ofNat

/-- the edwards448 operations used by ed448.go; scalars travel as the 56 octets of `Scalar.s`.
    A returned error is `PO.fail`, a panic inside the operation is `PO.panic`. -/
structure Ops (Pt : Type) where
  setBytesWithClamping : Bytes → PO Bytes
  setUniformBytes : Bytes → PO Bytes
  setCanonicalBytes : Bytes → PO Bytes
  mulAdd : Bytes → Bytes → Bytes → PO Bytes              -- `NewScalar().MulAdd(x, y, z)` = x·y + z
  scalarBaseMult : Bytes → PO Pt
  doubleScalarBaseMult : Bytes → Pt → Bytes → PO Pt      -- `VarTimeDoubleScalarBaseMult(a, A, b)`
  negate : Pt → PO Pt
  pointBytes : Pt → PO Bytes
  pointSetBytes : Bytes → PO Pt

/-- `x, err := f(); if err != nil { panic(site) }` -/
def orPanic {α} (site : String) (p : PO α) : PO α := do
  match ← PO.attempt p with
  | .ok a => pure a
  | .err _ => PO.panic site
  | .panic s => PO.panic s

variable {Pt : Type}

/-- `newKeyFromSeed(privateKey, seed)`: returns the 114-octet private key -/
def newKeyFromSeed (ops : Ops Pt) (seed : Bytes) : PO Bytes := do
  if seed.length ≠ Gen.Ed448Pt.SeedSize then PO.panic "ed448: bad seed length" else
  let h ← shake seed 114
  let s ← orPanic "ed448: newKeyFromSeed: SetBytesWithClamping" (ops.setBytesWithClamping (h.take 57))
  let p ← ops.scalarBaseMult s
  let pb ← ops.pointBytes p
  pure (seed ++ pb)                    -- copy(privateKey, seed); copy(privateKey[57:], p.Bytes())

/-- `Sign(privateKey, message)` / `sign`.  The Go code slices `privateKey[:57]` (panics below 57
    octets) and takes the rest as the public key WITHOUT checking that the length is 114. -/
def sign (ops : Ops Pt) (privateKey message : Bytes) : PO Bytes := do
  if privateKey.length < Gen.Ed448Pt.SeedSize then PO.panic "ed448: sign: slice bounds" else
  let seed := privateKey.take Gen.Ed448Pt.SeedSize
  let publicKey := privateKey.drop Gen.Ed448Pt.SeedSize
  let h ← shake seed 114
  let s ← orPanic "ed448: internal error: setting scalar failed" (ops.setBytesWithClamping (h.take 57))
  let prefix_ := h.drop 57
  let messageDigest ← shake (sigEd448 ++ prefix_ ++ message) 114
  let r ← orPanic "ed448: internal error: setting scalar failed" (ops.setUniformBytes messageDigest)
  let rP ← ops.scalarBaseMult r
  let rBytes ← ops.pointBytes rP
  let hramDigest ← shake (sigEd448 ++ rBytes ++ publicKey ++ message) 114
  let k ← orPanic "ed448: internal error: setting scalar failed" (ops.setUniformBytes hramDigest)
  let sS ← ops.mulAdd k s r
  let rBytes2 ← ops.pointBytes rP      -- the second `R.Bytes()` of `copy(signature[:57], R.Bytes())`
  -- signature := make([]byte, 114); copy(signature[:57], R.Bytes()); copy(signature[57:], sb[:]) (56 octets)
  pure (fixLen 57 rBytes2 ++ fixLen 56 sS ++ [0])

/-- `Verify(publicKey, message, sig)` -/
def verify (ops : Ops Pt) (publicKey message sig : Bytes) : PO Bool := do
  if publicKey.length ≠ Gen.Ed448Pt.PublicKeySize then PO.panic "ed448: bad public key length" else
  if sig.length ≠ Gen.Ed448Pt.SignatureSize || (sig.getD 113 0) &&& 0x7F != 0 then pure false else
  match ← PO.attempt (ops.pointSetBytes publicKey) with
  | .panic s => PO.panic s
  | .err _ => pure false
  | .ok pA =>
    let hramDigest ← shake (sigEd448 ++ sig.take 57 ++ publicKey ++ message) 114
    let k ← orPanic "ed448: internal error: setting scalar failed" (ops.setUniformBytes hramDigest)
    match ← PO.attempt (ops.setCanonicalBytes (sig.drop 57)) with
    | .panic s => PO.panic s
    | .err _ => pure false
    | .ok sS =>
      let minusA ← ops.negate pA
      let rP ← ops.doubleScalarBaseMult k minusA sS
      let rb ← ops.pointBytes rP
      pure (sig.take 57 == rb)        -- bytes.Equal(sig[:57], R.Bytes())

/-! ## instance 1: the Lean models -/

def optPO {α} (cls : String) : Option α → PO α
  | some a => pure a
  | none => PO.fail cls

def leanOps : Ops Model.Ed448Pt.Point where
  setBytesWithClamping b := optPO "scalar-length" ((Model.Sc448.setBytesWithClamping (toInts b)).map ofInts)
  setUniformBytes b := optPO "scalar-length" ((Model.Sc448.setUniformBytes (toInts b)).map ofInts)
  setCanonicalBytes b := optPO "scalar-encoding" ((Model.Sc448.setCanonicalBytes (toInts b)).map ofInts)
  mulAdd x y z := pure (ofInts (Model.Sc448.mulAdd (toInts x) (toInts y) (toInts z)))
  scalarBaseMult s := PO.ofOutcome (Model.Ed448Pt.scalarBaseMult s)
  doubleScalarBaseMult a pA b := PO.ofOutcome (Model.Ed448Pt.doubleScalarBaseMult a pA b)
  negate p := PO.ofOutcome (Model.Ed448Pt.negateG p)
  pointBytes p := PO.ofOutcome ((Model.Ed448Pt.bytesG p).bind fun l => .ok (ofInts l))
  pointSetBytes b := PO.ofOutcome (Model.Ed448Pt.setBytes (toInts b))

/-! ## instance 2: goat's own edwards448 as oracle -/

/-- answer convention: `none` = the operation returned an error; `str s` = it panicked -/
def oracleCall (name : String) (args : List Wire) : PO Wire := do
  let w ← PO.query name args
  match w with
  | .none => PO.fail "edwards448"
  | .str s => PO.panic s
  | w => pure w

def oracleOps : Ops Wire where
  setBytesWithClamping b := do let w ← oracleCall "ed448.clamp" [.bytes b]; pure w.asBytes
  setUniformBytes b := do let w ← oracleCall "ed448.uniform" [.bytes b]; pure w.asBytes
  setCanonicalBytes b := do let w ← oracleCall "ed448.canonical" [.bytes b]; pure w.asBytes
  mulAdd x y z := do let w ← oracleCall "ed448.muladd" [.bytes x, .bytes y, .bytes z]; pure w.asBytes
  scalarBaseMult s := oracleCall "ed448.basemult" [.bytes s]
  doubleScalarBaseMult a pA b := oracleCall "ed448.doublemult" [.bytes a, pA, .bytes b]
  negate p := oracleCall "ed448.negate" [p]
  pointBytes p := do let w ← oracleCall "ed448.bytes" [p]; pure w.asBytes
  pointSetBytes b := oracleCall "ed448.setbytes" [.bytes b]

end Model.Ed448
