/-
C20 — concurrency model (core Lean only).

What is in this file
====================
1. The *access-table format* (`Ctx`, `WriteSite`, `ReadSite`, `VarAccess`, `FuncInfo`, `TypeInfo`,
   `AccessTable`) in which the fact extractor `/verif/translator/conc.go` describes every
   package-level variable of goat, every write site and read site, the callers of the functions
   that write package state (`Register*Algorithm`, …) and the struct types whose instances are
   held in package-level singletons.  `Goat/Gen/AccessTable.lean` is regenerated from the working
   tree on every check run.
2. The executable predicate `disciplineHolds : AccessTable → Bool` (the *initialisation
   discipline*).
3. A small interleaving semantics: threads execute plain reads/writes of shared cells, operations
   mediated by a synchronising library object, and `once.Do`; a trace of time-stamped events; the
   happens-before relation `HB` (reflexive-transitive closure of program order, the init edge and
   the `once` edge); data races.
4. `progOf`-style generation of model programs from a table (`GenProg`).

What is MODELLED, not verified (see docs/C20.md): the Go memory model is represented by `HB`
(program order; "package initialisation happens before any goroutine of the program";
"the completion of the function passed to once.Do happens before the return of any call of
once.Do"), memory is sequentially consistent *in the model*, `sync.Map`, `sync/atomic` and
`memoize.Group` operations are atomic `sync` events that are never plain accesses, and the
scheduler is "any list of thread ids".  The implementations of `sync.Once`, `sync.Map`,
`memoize` and the Go runtime are trusted.
-/

namespace Conc

/-! ## 1. Access-table format -/

/-- Context in which a site is executed. -/
inductive Ctx where
  /-- a package-level initialiser expression `var x = …` -/
  | pkgInit
  /-- the body of an `init()` function -/
  | initFunc
  /-- the function literal (or the named function used only in this way) passed to
      `<once>.Do(…)`; `once` is the id of the package-level `sync.Once` variable -/
  | onceBody (once : Nat)
  /-- any other function; `fn` is an id into `AccessTable.funcs` -/
  | func (fn : Nat)
  deriving DecidableEq, Repr, Inhabited

/-- Syntactic kind of a write site. -/
inductive WriteKind where
  | assign        -- `x = e`, `x.f = e`, `x[i] = e`, `*x = e`
  | opAssign      -- `x += e`, …
  | incDec        -- `x++`, `x--`
  | mapAssign     -- `m[k] = e` where `m` is a map
  | delete        -- `delete(m, k)`
  | appendAssign  -- `x = append(x, …)`
  | mutMethod     -- call of a method that writes through its pointer receiver, receiver rooted at the variable
  | mutArg        -- the variable (a reference) or its address passed to a parameter the callee writes through
  | addrEscape    -- the address / reference escapes to a place the extractor cannot follow
  | unclassified  -- a construct the extractor cannot classify (a broken tie: never accepted)
  deriving DecidableEq, Repr, Inhabited

/-- Classification of a read site. -/
inductive ReadClass where
  /-- in a package initialiser or an `init()` function (or a function only called from there) -/
  | initTime
  /-- inside the closure passed to `<once>.Do` -/
  | inOnce (once : Nat)
  /-- in a function, after a statement `<once>.Do(…)` (or a call of a function that unconditionally
      performs it) on every path: same function, earlier statement; or through an accessor
      function that performs the `Do` before returning the reference -/
  | afterDo (once : Nat)
  /-- a method call on a `sync.Once` / `sync.Map` / `sync.Mutex` / `sync/atomic` / `memoize.Group`
      object (the library object mediates the access) -/
  | viaSync
  | other
  deriving DecidableEq, Repr, Inhabited

/-- Kind of a package-level variable by its declared type. -/
inductive VarKind where
  | plain | once | syncMap | atomic | mutex | memoize
  deriving DecidableEq, Repr, Inhabited

structure WriteSite where
  pos  : String
  kind : WriteKind
  ctx  : Ctx
  deriving Repr, Inhabited

structure ReadSite where
  pos : String
  cls : ReadClass
  /-- the value read is a reference (pointer, interface holding a pointer) that is handed to
      callers the extractor does not see: returned from an exported function or converted to an
      interface value -/
  handedOut : Bool
  deriving Repr, Inhabited

structure VarAccess where
  /-- unique id; also the `Cell` (and, for `sync.Once` variables, the `OnceId`) of the model -/
  id      : Nat
  pkg     : String
  name    : String
  typ     : String
  hasInit : Bool
  exported : Bool
  kind    : VarKind
  /-- id (in `AccessTable.types`) of the repository struct type whose instance the variable
      holds (`T`, `*T`, `&T{…}`, `new(T)`) -/
  holds   : Option Nat
  writes  : List WriteSite
  reads   : List ReadSite
  deriving Repr, Inhabited

/-- A function that contains a write site of package-level state (context `Ctx.func`). -/
structure FuncInfo where
  id         : Nat
  name       : String
  /-- name matches `Register*Algorithm` -/
  isRegister : Bool
  exported   : Bool
  /-- every call site in the repository: position and context of the caller -/
  callers    : List (String × Ctx)
  /-- number of uses of the function as a value other than the callee of a direct call
      (then its callers are unknown) -/
  valueUses  : Nat
  deriving Repr, Inhabited

structure MethodInfo where
  name         : String
  /-- receiver fields written (directly, through a callee, or by a known writing library call) -/
  writesFields : List String
  /-- the method body starts with `<recv>.<mutex field>.Lock()` -/
  guarded      : Bool
  deriving Repr, Inhabited

/-- A struct type of the repository that has methods with pointer receivers. -/
structure TypeInfo where
  id       : Nat
  pkg      : String
  name     : String
  /-- methods that write receiver state not mediated by a sync/atomic/memoize field -/
  mutating : List MethodInfo
  /-- fields whose type is a `sync` / `sync/atomic` / `memoize` object -/
  syncFields : List String
  /-- creation sites `&T{…}` / `T{…}` / `new(T)`: position and whether the instance is stored
      in a package-level variable (`true`) or created per call (`false`) -/
  instances : List (String × Bool)
  deriving Repr, Inhabited

structure AccessTable where
  vars  : List VarAccess
  funcs : List FuncInfo
  types : List TypeInfo
  deriving Repr, Inhabited

/-! ## 2. The initialisation discipline -/

/-- The once that guards a variable: the first `onceBody` context among its write sites. -/
def guardOf (v : VarAccess) : Option Nat :=
  v.writes.findSome? fun w => match w.ctx with
    | .onceBody o => some o
    | _ => none

def Ctx.isInit : Ctx → Bool
  | .pkgInit => true
  | .initFunc => true
  | _ => false

/-- A function is *init-only* if it is listed, is never used as a value, every call site in the
    repository is in a package initialiser or an `init()` function, and it is unexported or a
    registration function (whose documented contract is "call from init"). -/
def initOnly (T : AccessTable) (f : Nat) : Bool :=
  match T.funcs.find? (fun fi => fi.id == f) with
  | none => false
  | some fi => fi.valueUses == 0 && fi.callers.all (fun c => c.2.isInit) && (!fi.exported || fi.isRegister)

def WriteKind.classified : WriteKind → Bool
  | .unclassified => false
  | .addrEscape => false
  | _ => true

def writeOk (T : AccessTable) (g : Option Nat) (w : WriteSite) : Bool :=
  w.kind.classified &&
  match w.ctx with
  | .pkgInit => true
  | .initFunc => true
  | .onceBody o => g == some o
  | .func f => initOnly T f

def readOk (g : Option Nat) (r : ReadSite) : Bool :=
  match g with
  | none => true
  | some o =>
    match r.cls with
    | .initTime => true
    | .inOnce o' => o' == o
    | .afterDo o' => o' == o
    | .viaSync => false
    | .other => false

/-- every mutating method of the type takes the instance's mutex first (or there is none) -/
def typeShareable (T : AccessTable) (ty : Nat) : Bool :=
  match T.types.find? (fun t => t.id == ty) with
  | none => false
  | some t => t.mutating.all (fun m => m.guarded)

def handedOutOk (T : AccessTable) (v : VarAccess) : Bool :=
  if v.exported || v.reads.any (fun r => r.handedOut) then
    match v.holds with
    | none => true
    | some ty => typeShareable T ty
  else true

def varOk (T : AccessTable) (v : VarAccess) : Bool :=
  match v.kind with
  | .plain =>
    v.writes.all (writeOk T (guardOf v)) && v.reads.all (readOk (guardOf v)) && handedOutOk T v
  | _ =>
    -- a synchronisation object is only ever used through its methods
    v.writes.isEmpty && v.reads.all (fun r => r.cls == .viaSync)

def idsNodup (T : AccessTable) : Bool := decide (T.vars.map (fun v => v.id)).Nodup

/-- **The discipline.**  Every cell's writes are init-time or inside the `Do`-closure of its
    guarding once; every non-init read of a lazily initialised cell follows a `Do` on that once in
    the same accessor or is inside the closure; synchronisation objects are only used through
    their methods; a singleton that is handed out holds a type without unguarded mutating
    methods (stateful instances are per call, not reachable from a package-level variable). -/
def disciplineHolds (T : AccessTable) : Bool :=
  idsNodup T && T.vars.all (varOk T)

/-! ## 3. Interleaving semantics -/

abbrev Cell := Nat
abbrev OnceId := Nat
abbrev Tid := Nat

/-- A memory access. `sync` is an operation mediated by a synchronising library object
    (sync.Map, atomic, memoize): atomic, never a plain access. -/
inductive Acc where
  | rd (c : Cell)
  | wr (c : Cell) (v : Nat)
  | sync (c : Cell)
  deriving DecidableEq, Repr, Inhabited

inductive Op where
  | acc (a : Acc)
  /-- `o.Do(body o)` -/
  | doOnce (o : OnceId)
  deriving DecidableEq, Repr, Inhabited

structure Prog where
  /-- writes performed by package initialisation, in order, before any thread starts -/
  initWrites : List (Cell × Nat)
  /-- the closure of each once -/
  body : OnceId → List Acc
  /-- the threads (goroutines): any number, each any finite sequence of operations -/
  threads : List (List Op)

inductive Item where
  | acc (ctx : Option OnceId) (a : Acc)
  | doOnce (o : OnceId)
  | endOnce (o : OnceId)
  deriving DecidableEq, Repr, Inhabited

def Op.toItem : Op → Item
  | .acc a => .acc none a
  | .doOnce o => .doOnce o

inductive OnceSt where
  | fresh
  | running (t : Tid)
  | done
  deriving DecidableEq, Repr, Inhabited

inductive Act where
  | rd (c : Cell) (v : Nat)
  | wr (c : Cell) (v : Nat)
  | sync (c : Cell)
  | begin (o : OnceId)
  /-- the closure of `o` has completed -/
  | fin (o : OnceId)
  /-- a call `o.Do` returns having found the once completed -/
  | pass (o : OnceId)
  deriving DecidableEq, Repr, Inhabited

structure Event where
  /-- time stamp: position in the execution -/
  n   : Nat
  /-- `none`: the initialising goroutine -/
  tid : Option Tid
  /-- the once whose closure the event belongs to -/
  ctx : Option OnceId
  act : Act
  deriving DecidableEq, Repr, Inhabited

structure State where
  mem   : Cell → Nat
  once  : OnceId → OnceSt
  rem   : Tid → List Item
  clock : Nat
  trace : List Event

def writeMem (m : Cell → Nat) (c : Cell) (v : Nat) : Cell → Nat :=
  fun c' => if c' = c then v else m c'

def Acc.apply (m : Cell → Nat) : Acc → (Cell → Nat)
  | .wr c v => writeMem m c v
  | _ => m

def Acc.act (m : Cell → Nat) : Acc → Act
  | .rd c => .rd c (m c)
  | .wr c v => .wr c v
  | .sync c => .sync c

def applyAll (m : Cell → Nat) (l : List Acc) : Cell → Nat :=
  l.foldl (fun m a => a.apply m) m

def initMem (ws : List (Cell × Nat)) : Cell → Nat :=
  ws.foldl (fun m cv => writeMem m cv.1 cv.2) (fun _ => 0)

def initEvents : List (Cell × Nat) → Nat → List Event
  | [], _ => []
  | (c, v) :: r, k => ⟨k, none, none, .wr c v⟩ :: initEvents r (k + 1)

def init (P : Prog) : State where
  mem := initMem P.initWrites
  once := fun _ => .fresh
  rem := fun t => ((P.threads[t]?).getD []).map Op.toItem
  clock := P.initWrites.length
  trace := initEvents P.initWrites 0

def setRem (s : State) (t : Tid) (l : List Item) : Tid → List Item :=
  fun t' => if t' = t then l else s.rem t'

def setOnce (s : State) (o : OnceId) (x : OnceSt) : OnceId → OnceSt :=
  fun o' => if o' = o then x else s.once o'

/-- Thread `t` performs its next step (a blocked or finished thread stutters). -/
def step (P : Prog) (s : State) (t : Tid) : State :=
  match s.rem t with
  | [] => s
  | .acc ctx a :: r =>
    { s with mem := a.apply s.mem, rem := setRem s t r, clock := s.clock + 1,
             trace := ⟨s.clock, some t, ctx, a.act s.mem⟩ :: s.trace }
  | .doOnce o :: r =>
    match s.once o with
    | .fresh =>
      { s with once := setOnce s o (.running t),
               rem := setRem s t ((P.body o).map (Item.acc (some o)) ++ .endOnce o :: r),
               clock := s.clock + 1,
               trace := ⟨s.clock, some t, none, .begin o⟩ :: s.trace }
    | .running _ => s          -- blocked until the closure has completed
    | .done =>
      { s with rem := setRem s t r, clock := s.clock + 1,
               trace := ⟨s.clock, some t, none, .pass o⟩ :: s.trace }
  | .endOnce o :: r =>
    { s with once := setOnce s o .done, rem := setRem s t r, clock := s.clock + 1,
             trace := ⟨s.clock, some t, none, .fin o⟩ :: s.trace }

/-- A schedule is any list of thread ids: the k-th occurrence of `t` lets thread `t` perform its
    k-th step, so the lists of (thread, step) pairs that respect program order are exactly the
    schedules. -/
def run (P : Prog) (s : State) (sched : List Tid) : State := sched.foldl (step P) s

def exec (P : Prog) (sched : List Tid) : State := run P (init P) sched

/-! ### happens-before and races -/

/-- the cell of a *plain* access -/
def Act.cell? : Act → Option Cell
  | .rd c _ => some c
  | .wr c _ => some c
  | _ => none

def Act.isWrite : Act → Bool
  | .wr _ _ => true
  | _ => false

def Conflict (e1 e2 : Event) : Prop :=
  ∃ c, e1.act.cell? = some c ∧ e2.act.cell? = some c ∧ (e1.act.isWrite = true ∨ e2.act.isWrite = true)

/-- One happens-before edge: program order, initialisation before every thread, completion of a
    once closure before a later return of `Do`. -/
def Edge (e1 e2 : Event) : Prop :=
  e1.n < e2.n ∧
    (e1.tid = e2.tid ∨ (e1.tid = none ∧ e2.tid ≠ none) ∨ ∃ o, e1.act = .fin o ∧ e2.act = .pass o)

/-- happens-before: reflexive-transitive closure of `Edge` on the events of the trace -/
inductive HB (tr : List Event) : Event → Event → Prop
  | refl {e} : e ∈ tr → HB tr e e
  | step {e1 e2 e3} : e1 ∈ tr → e2 ∈ tr → Edge e1 e2 → HB tr e2 e3 → HB tr e1 e3

/-- No data race: any two distinct conflicting plain accesses are ordered by happens-before. -/
def RaceFree (tr : List Event) : Prop :=
  ∀ e1 ∈ tr, ∀ e2 ∈ tr, Conflict e1 e2 → e1 ≠ e2 → HB tr e1 e2 ∨ HB tr e2 e1

/-! ### discipline on model programs -/

def okBody (G : Cell → Option OnceId) (o : OnceId) : Acc → Prop
  | .rd c => G c = some o ∨ G c = none
  | .wr c _ => G c = some o
  | .sync _ => True

def okAccTop (G : Cell → Option OnceId) (seen : OnceId → Prop) : Acc → Prop
  | .rd c => ∀ o, G c = some o → seen o
  | .wr _ _ => False
  | .sync _ => True

def okTop (G : Cell → Option OnceId) : (OnceId → Prop) → List Op → Prop
  | _, [] => True
  | seen, .acc a :: r => okAccTop G seen a ∧ okTop G seen r
  | seen, .doOnce o :: r => okTop G (fun o' => o' = o ∨ seen o') r

/-- `G c = some o`: cell `c` is lazily initialised under once `o`; `G c = none`: `c` is written
    only by package initialisation. -/
structure Disciplined (G : Cell → Option OnceId) (P : Prog) : Prop where
  body : ∀ o, ∀ a ∈ P.body o, okBody G o a
  threads : ∀ ops ∈ P.threads, okTop G (fun _ => False) ops

/-- The value every thread observes for a cell when it runs alone (or at all). -/
def final (G : Cell → Option OnceId) (P : Prog) (c : Cell) : Nat :=
  match G c with
  | some o => applyAll (initMem P.initWrites) (P.body o) c
  | none => initMem P.initWrites c

/-! ## 4. Programs generated from an access table -/

def cellGuard (T : AccessTable) (c : Cell) : Option OnceId :=
  match T.vars.find? (fun v => v.id == c) with
  | none => none
  | some v => if v.kind = .plain then guardOf v else none

/-- what a thread executes when it reaches a read site -/
def readOps (v : VarAccess) (r : ReadSite) : List Op :=
  match v.kind with
  | .plain =>
    match r.cls with
    | .afterDo o => [.doOnce o, .acc (.rd v.id)]
    | .other => [.acc (.rd v.id)]
    | .viaSync => [.acc (.sync v.id)]
    | .initTime => []
    | .inOnce _ => []
  | _ =>
    match r.cls with
    | .viaSync => [.acc (.sync v.id)]
    | _ => [.acc (.rd v.id)]

/-- what a thread executes when it reaches a write site outside init / once closures -/
def writeOps (T : AccessTable) (v : VarAccess) (w : WriteSite) : List Op :=
  match w.ctx with
  | .func f => if initOnly T f then [] else [.acc (.wr v.id 1)]
  | _ => []

/-- all accessor calls a thread can make -/
def calls (T : AccessTable) : List (List Op) :=
  T.vars.flatMap fun v => v.reads.map (readOps v) ++ v.writes.map (writeOps T v)

def bodyOfVar (o : OnceId) (v : VarAccess) : List Acc :=
  (v.writes.filterMap fun w => if w.ctx = .onceBody o then some (Acc.wr v.id 1) else none) ++
  (v.reads.filterMap fun r => if r.cls = .inOnce o then some (Acc.rd v.id) else none)

def bodyOf (T : AccessTable) (o : OnceId) : List Acc := T.vars.flatMap (bodyOfVar o)

def initOf (T : AccessTable) : List (Cell × Nat) :=
  T.vars.filterMap fun v => if v.hasInit || v.writes.any (fun w => w.ctx.isInit) then some (v.id, 1) else none

/-- `P` is a program generated from `T`: initialisation and once closures are those of the table,
    and every thread is a finite sequence of accessor calls of the table. -/
structure GenProg (T : AccessTable) (P : Prog) : Prop where
  init : P.initWrites = initOf T
  body : P.body = bodyOf T
  threads : ∀ th ∈ P.threads, ∃ cs : List (List Op), (∀ c ∈ cs, c ∈ calls T) ∧ th = cs.flatten

/-! ## 5. sync.Map as used by `jwt.cachedTypeFields` -/

/-- An abstract linearizable map with `Load` and `LoadOrStore`. -/
structure SyncMap (M K V : Type) where
  load : M → K → Option V
  loadOrStore : M → K → V → V × M

/-- `LoadOrStore`'s documented law ("returns the existing value for the key if present;
    otherwise it stores and returns the given value"), a hypothesis of `loadOrStore_consistent`. -/
structure SyncMap.Law {M K V : Type} (S : SyncMap M K V) : Prop where
  hit : ∀ m k v a, S.load m k = some a → S.loadOrStore m k v = (a, m)
  miss_val : ∀ m k v, S.load m k = none → (S.loadOrStore m k v).1 = v
  miss_load : ∀ m k v, S.load m k = none → S.load (S.loadOrStore m k v).2 k = some v
  miss_other : ∀ m k v k', k' ≠ k → S.load (S.loadOrStore m k v).2 k' = S.load m k'

/-- `cachedTypeFields`: `if f, ok := Load(t); ok { return f }; f, _ := LoadOrStore(t, typeFields(t)); return f`
    executed atomically at its linearization points; `compute` is `typeFields`.  Between the
    `Load` and the `LoadOrStore` other threads may run: `cachedLookup` is therefore split in two
    steps in `runCache`. -/
inductive CacheStep (K : Type) where
  | load (k : K)          -- the Load; on a hit the call returns
  | loadOrStore (k : K)   -- the LoadOrStore of a call whose Load missed
  deriving Repr

/-- Run a linearized sequence of cache steps; returns the values returned to callers
    (`none` for a `Load` that missed, which returns nothing to the caller yet). -/
def runCache {M K V : Type} (S : SyncMap M K V) (compute : K → V) :
    M → List (CacheStep K) → List (K × Option V)
  | _, [] => []
  | m, .load k :: r => (k, S.load m k) :: runCache S compute m r
  | m, .loadOrStore k :: r =>
    let p := S.loadOrStore m k (compute k)
    (k, some p.1) :: runCache S compute p.2 r

/-! ## 6. The single-flight group (`memoize.Group.Do`) as used by `oidc.Client`

One key of one group.  A *flight* is one execution of the fetch function under a context that is
DETACHED from every caller (`context.WithCancel(context.WithoutCancel(ctx))`) together with the
set of callers waiting for it; a caller whose own context ends leaves the flight and gets its
`ctx.Err()`; the flight is cancelled exactly when the last waiter has left; the provider's answer
is delivered to every waiter and, if it is a success, cached.  (Modelled from
`github.com/shogo82148/memoize@v0.1.0/memoize.go`; the library itself is trusted.)

That the fetch function really runs under the flight's context — and not under a captured caller
context — is a *fact* about goat extracted on every run (`CtxFact`, `Gen.flightCtxFacts`). -/
namespace Flight

abbrev Caller := Nat

inductive Ev where
  /-- caller `c` calls `Group.Do` with a live context -/
  | call (c : Caller)
  /-- the context of caller `c` is cancelled / expires -/
  | cancel (c : Caller)
  /-- the provider answers the request of the flight in progress -/
  | answer (ok : Bool) (v : Nat)
  deriving DecidableEq, Repr, Inhabited

inductive Outcome where
  | value (v : Nat)
  /-- the provider's error -/
  | provErr
  /-- the caller's own `ctx.Err()` -/
  | ctxErr
  deriving DecidableEq, Repr, Inhabited

structure St where
  cache : Option Nat
  /-- waiters of the flight in progress -/
  flight : Option (List Caller)
  /-- callers whose context has ended -/
  dead : List Caller
  out : Caller → Option Outcome
  /-- provider requests started -/
  requests : Nat
  /-- flights cancelled because every waiter left -/
  cancelled : Nat

def init : St := ⟨none, none, [], fun _ => none, 0, 0⟩

/-- a caller's outcome is set once -/
def setOnce (out : Caller → Option Outcome) (c : Caller) (o : Outcome) : Caller → Option Outcome :=
  fun c' => if c' = c then (match out c with | some x => some x | none => some o) else out c'

def isWaiting (s : St) (c : Caller) : Bool :=
  match s.flight with
  | some ws => ws.contains c
  | none => false

/-- a `call` event of a caller that already called, or whose context has already ended, is not
    part of the modelled behaviour and is ignored -/
def known (s : St) (c : Caller) : Bool := (s.out c).isSome || s.dead.contains c || isWaiting s c

def step (s : St) : Ev → St
  | .call c =>
    if known s c then s else
    match s.cache with
    | some v => { s with out := setOnce s.out c (.value v) }
    | none =>
      match s.flight with
      | some ws => { s with flight := some (c :: ws) }
      | none => { s with flight := some [c], requests := s.requests + 1 }
  | .cancel c =>
    if s.dead.contains c then s else
    match s.flight with
    | some ws =>
      if ws.contains c then
        if (ws.erase c).isEmpty then
          { s with dead := c :: s.dead, out := setOnce s.out c .ctxErr, flight := none,
                   cancelled := s.cancelled + 1 }
        else
          { s with dead := c :: s.dead, out := setOnce s.out c .ctxErr, flight := some (ws.erase c) }
      else { s with dead := c :: s.dead }
    | none => { s with dead := c :: s.dead }
  | .answer ok v =>
    match s.flight with
    | none => s
    | some ws =>
      { s with flight := none, cache := if ok then some v else s.cache,
               out := fun c => if ws.contains c then
                          (match s.out c with
                           | some x => some x
                           | none => some (if ok then .value v else .provErr))
                        else s.out c }

def run (s : St) (evs : List Ev) : St := evs.foldl step s

def Ev.isAnswer : Ev → Bool
  | .answer _ _ => true
  | _ => false

end Flight

/-- kinds of context facts about a fetch function passed to `memoize.Group.Do` -/
inductive CtxFactKind where
  /-- a `context.Context` variable declared outside the function literal is used inside it -/
  | captured
  /-- the fetch function never uses its own context parameter -/
  | paramUnused
  /-- the fetch function is not a literal / repository function the extractor can inspect -/
  | unknownFn
  deriving DecidableEq, Repr, Inhabited

structure CtxFact where
  pos   : String
  group : String
  kind  : CtxFactKind
  ident : String
  deriving DecidableEq, Repr, Inhabited

/-- one call site `<group>.Do(ctx, key, fn)` of a `memoize.Group` -/
structure FlightCall where
  pos   : String
  group : String
  fn    : String
  deriving DecidableEq, Repr, Inhabited

/-- `append(x, …)` (or an append-like call) on a slice `x` that is (a field of) a package-level
    variable or of an object of a type held by package-level variables, where `len x = cap x` is
    not established: the call may WRITE into the shared backing array. -/
structure SharedAppend where
  pos  : String
  path : String
  what : String
  deriving DecidableEq, Repr, Inhabited

/-- a goroutine started by the library's own code: position, enclosing function, kind -/
structure GoSpawn where
  pos  : String
  fn   : String
  kind : String
  deriving DecidableEq, Repr, Inhabited

/-- an in-place mutator (sort, reverse, compact, clear, copy-into, element assignment, append with
    possible spare capacity) applied to a slice reached — through fields, type assertions, getter
    calls, local aliases — from a non-receiver parameter that is an object callers share (pointer
    to a repository struct, interface value) and that the function did not allocate itself -/
structure ArgMutation where
  pos  : String
  fn   : String
  what : String
  path : String
  deriving DecidableEq, Repr, Inhabited

end Conc
