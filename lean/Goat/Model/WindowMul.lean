import Goat.Model.Recode
/-
Windowed scalar multiplications of goat, over ABSTRACT point operations.

  internal/edwards448/table.go        lookupTable.Init/SelectInto, nafLookupTable5/8, basepointTable
  internal/edwards448/scalarmult.go   ScalarBaseMult, ScalarMult, VarTimeDoubleScalarBaseMult
  internal/curve256k1/table.go        lookupTable.Init/SelectInto
  internal/curve256k1/scalarmult.go   ScalarMult, initBaseTable, ScalarBaseMult
  internal/curve256k1/scalar.go       normalizeScalar (the loop; Lsh8/Add8/bytes abstract)

`GroupOps C` is a record of plain functions on a carrier `C` (goat's `Point` / `PointJacobian`,
or anything else); there are no laws in this file.  Every loop keeps the iteration order and the
index arithmetic of the Go text; the constant-time `Select`/`ConstantTimeByteEq` chains are modelled
by the `if` they compute.  Array accesses that the Go types make total (`[8]Point`, `[112]int8`)
are `getD`; accesses whose index is *computed from data* (`points[x/2]`, `baseTable[j]`,
`SelectInto`'s range check) are modelled with their panic.

Core Lean only.
-/
namespace Model.WindowMul
open Model.Recode (wrapI8)

structure GroupOps (C : Type) where
  zero : C
  add : C → C → C
  double : C → C
  neg : C → C

variable {C : Type}

namespace GroupOps
/-- edwards448 `Point.Sub(p, q)`: `neg.Negate(q); v.Add(p, &neg)` -/
def sub (ops : GroupOps C) (p q : C) : C := ops.add p (ops.neg q)
/-- four `Double` calls -/
def double4 (ops : GroupOps C) (v : C) : C := ops.double (ops.double (ops.double (ops.double v)))
/-- four `v.Add(v, v)` calls (edwards448 ScalarBaseMult multiplies by 16 this way) -/
def addSelf4 (ops : GroupOps C) (v : C) : C :=
  let v := ops.add v v; let v := ops.add v v; let v := ops.add v v; ops.add v v
end GroupOps

/-! ## edwards448: lookupTable (8 entries, signed digits −8..8) -/

/-- `for i := 1; i < n+1; i++ { points[i] = points[i-1] + step }`, given `points[i-1] = prev` -/
def chainAdd (ops : GroupOps C) (step : C) : Nat → C → List C
  | 0, _ => []
  | n + 1, prev => let nxt := ops.add prev step; nxt :: chainAdd ops step n nxt

/-- `lookupTable.Init(p)`: `points[0] = p; points[i] = points[i-1] + p` for i = 1..7 -/
def lookupInit8 (ops : GroupOps C) (p : C) : List C := p :: chainAdd ops p 7 p

/-- `xmask := x >> 7; xabs := uint8((x + xmask) ^ xmask)` for an int8 `x`
    (`xmask` is 0 or −1; xor with −1 is bitwise complement `-t-1`) -/
def absI8 (x : Int) : Nat :=
  let xmask : Int := if x < 0 then -1 else 0
  let t := wrapI8 (x + xmask)
  let u := if xmask = 0 then t else -t - 1
  (u % 256).toNat

/-- `lookupTable.SelectInto(dest, x)`: `dest.Zero(); for i := 1; i <= 8; i++ { dest = (xabs == i) ?
    points[i-1] : dest }; dest.CondNeg(xmask & 1)` -/
def lookupSelect8 (ops : GroupOps C) (tbl : List C) (x : Int) : C :=
  let xabs := absI8 x
  let dest := (List.range' 1 8).foldl
    (fun dest i => if xabs = i then tbl.getD (i - 1) ops.zero else dest) ops.zero
  if x < 0 then ops.neg dest else dest

/-- edwards448 `(*Point).ScalarMult`, after `digits := x.signedRadix16()`:
    `v = 0 + T[d₁₁₁]; for i = 110 … 0 { v = 16·v (4 doublings); v = v + T[dᵢ] }` -/
def ed448ScalarMult (ops : GroupOps C) (digits : List Int) (q : C) : C :=
  let table := lookupInit8 ops q
  match digits.reverse with
  | [] => ops.zero                                  -- unreachable: `[112]int8`
  | top :: rest =>
    let v := ops.add ops.zero (lookupSelect8 ops table top)
    rest.foldl (fun v d => ops.add (ops.double4 v) (lookupSelect8 ops table d)) v

/-- edwards448 `(*Point).ScalarBaseMult` with the table lookups `table[i/2].SelectInto(·, digits[i])`
    abstracted as `sel (i/2) digits[i]`: odd digits, four `Add(v,v)`, even digits -/
def ed448ScalarBaseMult (ops : GroupOps C) (sel : Nat → Int → C) (digits : List Int) : C :=
  let v := (List.range' 1 56 2).foldl (fun v i => ops.add v (sel (i / 2) (digits.getD i 0))) ops.zero
  let v := ops.addSelf4 v
  (List.range' 0 56 2).foldl (fun v i => ops.add v (sel (i / 2) (digits.getD i 0))) v

/-- eight `p.Add(p, p)` -/
def addSelf8 (ops : GroupOps C) (p : C) : C := ops.addSelf4 (ops.addSelf4 p)

/-- `basepointTable()`: `p := B; for i < n { table[i].Init(p); 8 × p.Add(p, p) }` (n = 56) -/
def basepointTable (ops : GroupOps C) : Nat → C → List (List C)
  | 0, _ => []
  | n + 1, p => lookupInit8 ops p :: basepointTable ops n (addSelf8 ops p)

/-- the selection function of `ScalarBaseMult` on the real table -/
def basepointSel (ops : GroupOps C) (tables : List (List C)) (i : Nat) (x : Int) : C :=
  lookupSelect8 ops (tables.getD i []) x

/-- `ScalarBaseMult` on the table built by `basepointTable` -/
def ed448ScalarBaseMultB (ops : GroupOps C) (digits : List Int) (b : C) : C :=
  ed448ScalarBaseMult ops (basepointSel ops (basepointTable ops 56 b)) digits

/-! ## edwards448: NAF tables and the double-base multiplication -/

/-- `nafLookupTable5/8.Init(q)`: `points[0] = q; q2 = q + q; points[i] = points[i-1] + q2`, `n` entries -/
def nafTable (ops : GroupOps C) (q : C) (n : Nat) : List C :=
  match n with
  | 0 => []
  | n + 1 => q :: chainAdd ops (ops.add q q) n q

def nafTable5 (ops : GroupOps C) (q : C) : List C := nafTable ops q 8
def nafTable8 (ops : GroupOps C) (q : C) : List C := nafTable ops q 64

/-- `nafLookupTable.SelectInto`: `*dest = v.points[x/2]` (Go `/` truncates; out of range panics) -/
def nafSelect (tbl : List C) (x : Int) : Outcome C :=
  let idx := Int.tdiv x 2
  if idx < 0 then .panic "naf.select.index"
  else match tbl[idx.toNat]? with
    | some p => .ok p
    | none => .panic "naf.select.index"

/-- `if x > 0 { v += T[x] } else if x < 0 { v -= T[-x] }` (`-x` computed in int8) -/
def nafAddSub (ops : GroupOps C) (tbl : List C) (v : C) (x : Int) : Outcome C :=
  if x > 0 then (nafSelect tbl x).bind fun m => .ok (ops.add v m)
  else if x < 0 then (nafSelect tbl (wrapI8 (-x))).bind fun m => .ok (ops.sub v m)
  else .ok v

/-- `VarTimeDoubleScalarBaseMult` after the two `nonAdjacentForm` calls; `bTable` is
    `basepointNAFTable()`.  The first loop skips the leading positions where both digits are 0. -/
def ed448DoubleScalarMult (ops : GroupOps C) (aNAF bNAF : List Int) (a : C) (bTable : List C) :
    Outcome C :=
  let aTable := nafTable5 ops a
  let pairs := ((aNAF.zip bNAF).reverse).dropWhile (fun p => p.1 == 0 && p.2 == 0)
  pairs.foldl (fun (acc : Outcome C) p => acc.bind fun v =>
      let v := ops.double v
      (nafAddSub ops aTable v p.1).bind fun v => nafAddSub ops bTable v p.2) (.ok ops.zero)

/-! ## curve256k1 -/

/-- `lookupTable.Init(p)`: `points[0] = p; for i := 1; i < 15; i += 2 { points[i] = 2·points[i/2];
    points[i+1] = points[i] + p }` (the list is built in index order) -/
def k1LookupInit (ops : GroupOps C) (p : C) : List C :=
  (List.range' 1 7 2).foldl (fun pts i =>
    let d := ops.double (pts.getD (i / 2) ops.zero)
    pts ++ [d, ops.add d p]) [p]

/-- `lookupTable.SelectInto(dest, x)`: panics for `x ≥ 16`; `x = 0` leaves the identity -/
def k1Select (ops : GroupOps C) (tbl : List C) (x : Nat) : Outcome C :=
  if x ≥ 16 then .panic "k1.select.range"
  else .ok ((List.range' 1 15).foldl
    (fun dest i => if x = i then tbl.getD (i - 1) ops.zero else dest) ops.zero)

/-- one nibble step of `ScalarMult`: `tmp = T[x]; v = v + tmp` -/
def k1AddSel (ops : GroupOps C) (tbl : List C) (v : C) (x : Nat) : Outcome C :=
  (k1Select ops tbl x).bind fun tmp => .ok (ops.add v tmp)

/-- `(*PointJacobian).ScalarMult(q, k)` after `s := normalizeScalar(k)` -/
def k1ScalarMult (ops : GroupOps C) (s : Bytes) (q : C) : Outcome C :=
  let table := k1LookupInit ops q
  match s with
  | [] => .panic "k1.scalarmult.index"             -- unreachable: `[32]byte`
  | b :: rest =>
    (k1AddSel ops table ops.zero (b.toNat / 16)).bind fun v =>        -- b>>4
    (k1AddSel ops table (ops.double4 v) (b.toNat % 16)).bind fun v => -- b&0xf
    rest.foldl (fun (acc : Outcome C) b => acc.bind fun v =>
      (k1AddSel ops table (ops.double4 v) (b.toNat / 16)).bind fun v =>
      k1AddSel ops table (ops.double4 v) (b.toNat % 16)) (.ok v)

/-- `initBaseTable`: `base := G; for i < n { baseTable[i].Init(base); 4 × base.Double(base) }` (n = 64) -/
def k1BaseTable (ops : GroupOps C) : Nat → C → List (List C)
  | 0, _ => []
  | n + 1, base => k1LookupInit ops base :: k1BaseTable ops n (ops.double4 base)

/-- `baseTable[j].SelectInto(&tmp, x); v.Add(&v, &tmp)` with the index check on `j` -/
def k1BaseAddSel (ops : GroupOps C) (tables : List (List C)) (v : C) (j : Int) (x : Nat) : Outcome C :=
  if j < 0 then .panic "k1.basetable.index"
  else match tables[j.toNat]? with
    | none => .panic "k1.basetable.index"
    | some tbl => k1AddSel ops tbl v x

/-- `(*PointJacobian).ScalarBaseMult(k)` after `s := normalizeScalar(k)`:
    `for i, j := 0, len(baseTable)-1; i < len(s); i++ { hi nibble with table j; j--; lo nibble; j-- }` -/
def k1ScalarBaseMult (ops : GroupOps C) (tables : List (List C)) (s : Bytes) : Outcome C :=
  (s.foldl (fun (acc : Outcome (C × Int)) b => acc.bind fun (v, j) =>
      (k1BaseAddSel ops tables v j (b.toNat / 16)).bind fun v =>
      (k1BaseAddSel ops tables v (j - 1) (b.toNat % 16)).bind fun v =>
      .ok (v, j - 2)) (.ok (ops.zero, (tables.length : Int) - 1))).bind fun r => .ok r.1

/-! ## normalizeScalar: the byte loop over abstract limb operations -/

/-- `var s scalar; for _, b := range k { s.Lsh8(&s); s.Add8(&s, b) }` -/
def normalizeScalarLoop {S : Type} (lsh8 : S → S) (add8 : S → UInt8 → S) (k : Bytes) (s0 : S) : S :=
  k.foldl (fun s b => add8 (lsh8 s) b) s0

/-- `normalizeScalar(k)`: the loop, then `s.bytes(&buf)` -/
def normalizeScalar {S : Type} (lsh8 : S → S) (add8 : S → UInt8 → S) (bytes : S → Bytes) (s0 : S)
    (k : Bytes) : Bytes := bytes (normalizeScalarLoop lsh8 add8 k s0)

/-- the same loop with the three limb operations as oracle queries (`k1.lsh8 [s]`, `k1.add8 [s,b]`,
    `k1.bytes [s]`; the state is whatever `Wire` the oracle uses, the initial state is 5 zero limbs) -/
def normalizeScalarProg (k : Bytes) : Prog Wire :=
  let s0 : Wire := .arr [.int 0, .int 0, .int 0, .int 0, .int 0]
  let rec go : Bytes → Wire → Prog Wire
    | [], s => Prog.query "k1.bytes" [s]
    | b :: bs, s => Prog.ask ⟨"k1.lsh8", [s]⟩ fun s1 =>
        Prog.ask ⟨"k1.add8", [s1, .int b.toNat]⟩ fun s2 => go bs s2
  go k s0

/-- full `ScalarMult(q, k)` / `ScalarBaseMult(k)` for a big-endian scalar of any length -/
def k1ScalarMultAny {S : Type} (ops : GroupOps C) (lsh8 : S → S) (add8 : S → UInt8 → S)
    (bytes : S → Bytes) (s0 : S) (k : Bytes) (q : C) : Outcome C :=
  k1ScalarMult ops (normalizeScalar lsh8 add8 bytes s0 k) q

def k1ScalarBaseMultAny {S : Type} (ops : GroupOps C) (lsh8 : S → S) (add8 : S → UInt8 → S)
    (bytes : S → Bytes) (s0 : S) (k : Bytes) (g : C) : Outcome C :=
  k1ScalarBaseMult ops (k1BaseTable ops 64 g) (normalizeScalar lsh8 add8 bytes s0 k)

/-! ## "scalar tracking" instance: the integers as a group (used by the driver self-check) -/

def intOps : GroupOps Int := { zero := 0, add := (· + ·), double := fun x => 2 * x, neg := fun x => -x }

end Model.WindowMul
