import Goat.Model.KW.GoBuf
/-
Model of jwa/agcm/agcm.go Encrypt / Decrypt (content encryption with AES GCM).
Encrypt validates len(cek) = keyLen and len(iv) = 12; Decrypt additionally len(authTag) = 16
(errors, not crypto/cipher panics); then ct‖tag goes to the library AEAD.
-/
namespace Model.Enc.AGCM
open Spec Model.GoBuf

def nonceSize : Nat := 12
def tagSize : Nat := 16

def encrypt (keyLen : Nat) (cek iv aad pt : Bytes) : PO (Bytes × Bytes) := do
  if cek.length != keyLen then PO.fail "key" else
  if iv.length != nonceSize then PO.fail "iv-length" else
  if !aesKeyOk cek then PO.fail "key" else
  let ct ← gcmSealQ cek iv aad pt
  -- ciphertext, authTag = ciphertext[:len(plaintext)], ciphertext[len(plaintext):]
  pure (slice ct 0 pt.length, slice ct pt.length ct.length)

def decrypt (keyLen : Nat) (cek iv aad ct tag : Bytes) : PO Bytes := do
  if cek.length != keyLen then PO.fail "key" else
  if iv.length != nonceSize then PO.fail "iv-length" else
  if tag.length != tagSize then PO.fail "tag-length" else
  if !aesKeyOk cek then PO.fail "key" else
  let buf : Bytes := List.replicate (ct.length + tag.length) 0
  let buf := goCopy buf 0 buf.length ct
  let buf := goCopy buf ct.length buf.length tag
  let r ← gcmOpenQ cek iv aad buf
  PO.ofOption "auth" r

end Model.Enc.AGCM
