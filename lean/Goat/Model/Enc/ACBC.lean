import Goat.Model.KW.GoBuf
import Goat.Spec.CBCHS
/-
Model of jwa/acbc/acbc.go (AES_CBC_HMAC_SHA2): key split `mac = cek[:macKeyLen]`,
`enc = cek[macKeyLen:]`, `padding`, the block-at-a-time `CryptBlocks` loops over one buffer,
`extractPadding` (constant-time idiom from crypto/tls, modelled as the comparisons its masks
compute), `calcAuthTag` (AAD ‖ IV ‖ CT ‖ uint64(len(aad))*8 big-endian, truncated to tLen) and the
combined `ConstantTimeCompare(...) & good` decision.
`cipher.NewCBCEncrypter(block, iv).CryptBlocks` on one block is SP 800-38A chaining over the
block oracle: out = E(in ⊕ prev), prev' = out (decrypter: out = D(in) ⊕ prev, prev' = in).
-/
namespace Model.Enc.ACBC
open Spec Model.GoBuf
abbrev Params := Spec.CBCHS.Params

def blockSize : Nat := 16

/-- `padding(data, size)` -/
def padding (data : Bytes) (size : Nat) : Bytes :=
  let l := data.length
  let paddingLen := size - l % size
  let pad := UInt8.ofNat paddingLen          -- byte(paddingLen)
  -- ret := make([]byte, l+paddingLen); copy(ret, data); for i := len(data); i < l; i++ { ret[i] = pad }
  data ++ List.replicate paddingLen pad

/-- one iteration of the encrypt loop: `mode.CryptBlocks(ct[i:i+size], ct[i:i+size])`, state =
    (buffer, CBC chaining value) -/
def encIter (encKey : Bytes) (k : Nat) (s : Bytes × Bytes) : PO (Bytes × Bytes) := do
  let i := k * blockSize
  let c ← aesEnc encKey (xorBytes (slice s.1 i (i + blockSize)) s.2)
  pure (goCopy s.1 i (i + blockSize) c, c)

/-- one iteration of the decrypt loop: `mode.CryptBlocks(plaintext[i:i+size], ciphertext[i:i+size])`,
    state = (plaintext buffer, chaining value) -/
def decIter (encKey ct : Bytes) (k : Nat) (s : Bytes × Bytes) : PO (Bytes × Bytes) := do
  let i := k * blockSize
  let cblk := slice ct i (i + blockSize)
  let d ← aesDec encKey cblk
  pure (goCopy s.1 i (i + blockSize) (xorBytes d s.2), cblk)

/-- `calcAuthTag` -/
def calcAuthTag (ps : Params) (mac aad iv ct : Bytes) : PO Bytes := do
  -- binary.BigEndian.PutUint64(buf[:], uint64(len(aad))*8)
  let alBuf := be64 ((aad.length * 8) % 2^64)
  let sum ← hmacQ ps.hash mac (aad ++ iv ++ ct ++ alBuf)
  -- w.Sum(nil)[:alg.tLen]
  pure (slice sum 0 ps.tLen)

/-- `extractPadding`: (toRemove, good).  `good` starts as "len(payload) ≥ paddingLen"; every one of
    the last min(paddingLen, toCheck) octets must equal paddingLen; toRemove = paddingLen if good
    else 0. -/
def extractPadding (payload : Bytes) : Nat × Bool :=
  if payload.length < 1 then (0, false) else
  let paddingLen := (payload.getD (payload.length - 1) 0).toNat
  let good0 := decide (paddingLen ≤ payload.length)
  let toCheck := if 256 > payload.length then payload.length else 256
  let good := iterUp (fun i0 g =>
      let i := i0 + 1
      if i ≤ paddingLen then g && (payload.getD (payload.length - i) 0).toNat == paddingLen else g)
    toCheck good0
  (if good then paddingLen else 0, good)

def encrypt (ps : Params) (cek iv aad pt : Bytes) : PO (Bytes × Bytes) := do
  if cek.length != ps.macKeyLen + ps.encKeyLen then PO.fail "key" else
  let mac := slice cek 0 ps.macKeyLen
  let enc := slice cek ps.macKeyLen cek.length
  if !aesKeyOk enc then PO.fail "key" else
  if iv.length != blockSize then PO.fail "iv-length" else
  let buf := padding pt blockSize
  -- for i := 0; i <= len(ciphertext)-size; i += size
  let s ← forUp (encIter enc) (buf.length / blockSize) (buf, iv)
  let tag ← calcAuthTag ps mac aad iv s.1
  pure (s.1, tag)

def decrypt (ps : Params) (cek iv aad ct authTag : Bytes) : PO Bytes := do
  if cek.length != ps.macKeyLen + ps.encKeyLen then PO.fail "key" else
  let mac := slice cek 0 ps.macKeyLen
  let enc := slice cek ps.macKeyLen cek.length
  let plaintext : Bytes := List.replicate ct.length 0
  if !aesKeyOk enc then PO.fail "key" else
  if iv.length != blockSize then PO.fail "iv-length" else
  if ct.length % blockSize != 0 then PO.fail "ct-length" else
  let s ← forUp (decIter enc ct) (ct.length / blockSize) (plaintext, iv)
  let plaintext := s.1
  let (toRemove, good) := extractPadding plaintext
  -- inRange := ConstantTimeLessOrEq(1, toRemove) & ConstantTimeLessOrEq(toRemove, size); good &= …
  let good := good && decide (1 ≤ toRemove ∧ toRemove ≤ blockSize)
  let expected ← calcAuthTag ps mac aad iv ct
  -- cmp := subtle.ConstantTimeCompare(authTag, expectedAuthTag) & int(good)
  if !((authTag == expected) && good) then PO.fail "auth" else
  pure (slice plaintext 0 (plaintext.length - toRemove))

end Model.Enc.ACBC
