import Goat.Model.Fe256
import Goat.Model.Sc256
import Goat.Model.WindowMul
/-
secp256k1 points: internal/curve256k1/curve256k1.go (`Point`, `PointJacobian`), table.go,
scalarmult.go and the `elliptic.Curve` wrappers of secp256k1/secp256k1.go, mirrored statement by
statement over the field model `Model.Fe256` (whose primitives are the regenerated limb programs).
`*big.Int` arguments are `Int`s; `[]byte` scalars are `Bytes`.

Core Lean only.
-/
namespace Model.K1Pt
open Model.Fe256 (Limbs)
open Model.WindowMul (GroupOps)
namespace Fe
export Model.Fe256 (add sub neg mul square inv select equal isZero one zero set setBytes bytes)
end Fe

/-- `Point{x, y}` -/
structure Point where
  x : Limbs
  y : Limbs
deriving Inhabited

/-- `PointJacobian{x, y, z}`:  X = x/z², Y = y/z³ -/
structure Jac where
  x : Limbs
  y : Limbs
  z : Limbs
deriving Inhabited

def feZero : Limbs := Fe.zero
def feOne : Limbs := Fe.one
/-- `fe7.SetBytes([]byte{0x07})` -/
def fe7 : Limbs := [7, 0, 0, 0]

/-- `big.Int.FillBytes(buf[:32])` for 0 ≤ v < 2^256 -/
def fillBytes32 (v : Int) : Bytes := Bytes.encodeBE 32 v.toNat

/-- `(*Point).NewPoint(x, y *big.Int)`: sign check, BitLen check, then `SetBytes` of each coordinate
    (which rejects values ≥ p) -/
def newPoint (x y : Int) : Outcome Point :=
  if x < 0 ∨ y < 0 then .err "negative coordinate"
  else if x ≥ 2 ^ 256 ∨ y ≥ 2 ^ 256 then .err "overflowing coordinate"
  else
    match Fe.setBytes (fillBytes32 x) with
    | .ok px =>
      (match Fe.setBytes (fillBytes32 y) with
       | .ok py => .ok ⟨px, py⟩
       | .err c => .err c
       | .panic s => .panic s)
    | .err c => .err c
    | .panic s => .panic s

def generator : Point :=
  ⟨[0x59F2815B16F81798, 0x029BFCDB2DCE28D9, 0x55A06295CE870B07, 0x79BE667EF9DCBBAC],
   [0x9C47D08FFB10D4B8, 0xFD17B448A6855419, 0x5DA4FBFC0E1108A8, 0x483ADA7726A3C465]⟩

/-- `IsOnCurve(p)`: `x³ − y² + 7 == 0` -/
def isOnCurve (p : Point) : Bool :=
  let x3 := Fe.square p.x
  let x3 := Fe.mul x3 p.x
  let y2 := Fe.square p.y
  let ret := Fe.sub x3 y2
  let ret := Fe.add ret fe7
  Fe.equal ret feZero == 1

def jzero : Jac := ⟨Fe.zero, Fe.zero, Fe.zero⟩
def jset (v : Jac) : Jac := ⟨Fe.set v.x, Fe.set v.y, Fe.set v.z⟩
def jselect (a b : Jac) (cond : Int) : Jac :=
  ⟨Fe.select a.x b.x cond, Fe.select a.y b.y cond, Fe.select a.z b.z cond⟩

/-- Go `int` bit operations on the 0/1 results of `IsZero` / `Equal` -/
def ior (a b : Int) : Int := Int.ofNat (a.toNat ||| b.toNat)
def iand (a b : Int) : Int := Int.ofNat (a.toNat &&& b.toNat)
/-- `^x & 1`-style use: only `x & ^zero` with 0/1 operands occurs; `inot` is the complement on {0,1} -/
def inot (a : Int) : Int := 1 - a

/-- `FromAffine(v)`: `z = Select(0, 1, v.x.IsZero() | v.y.IsZero())` — a point with a zero coordinate
    is taken to be the point at infinity -/
def fromAffine (v : Point) : Jac :=
  ⟨Fe.set v.x, Fe.set v.y, Fe.select feZero feOne (ior (Fe.isZero v.x) (Fe.isZero v.y))⟩

/-- `FromJacobian(v)`: (0, 0) for z = 0, else (x/z², y/z³) -/
def fromJacobian (v : Jac) : Point :=
  if Fe.equal v.z feZero == 1 then ⟨Fe.zero, Fe.zero⟩
  else
    let zinv := Fe.inv v.z
    let zinvsq := Fe.square zinv
    let zinvcb := Fe.mul zinv zinvsq
    ⟨Fe.mul v.x zinvsq, Fe.mul v.y zinvcb⟩

/-- `(*PointJacobian).Double(v)` (dbl-2009-l) with the select for z = 0 -/
def jdouble (v : Jac) : Jac :=
  let a := Fe.square v.x
  let b := Fe.square v.y
  let c := Fe.square b
  let d := Fe.add v.x b
  let d := Fe.square d
  let d := Fe.sub d a
  let d := Fe.sub d c
  let d := Fe.add d d
  let e := Fe.add a a
  let e := Fe.add e a
  let f := Fe.square e
  let x3 := Fe.add d d
  let x3 := Fe.sub f x3
  let tmp := Fe.add c c
  let tmp := Fe.add tmp tmp
  let tmp := Fe.add tmp tmp
  let y3 := Fe.sub d x3
  let y3 := Fe.mul e y3
  let y3 := Fe.sub y3 tmp
  let z3 := Fe.mul v.y v.z
  let z3 := Fe.add z3 z3
  let zero := Fe.isZero v.z
  ⟨Fe.select v.x x3 zero, Fe.select v.y y3 zero, Fe.select v.z z3 zero⟩

/-- `(*PointJacobian).Add(a, b)` (add-2007-bl) followed by the three constant-time selects:
    a = b ⇒ Double(a);  b = ∞ ⇒ a;  a = ∞ ⇒ b -/
def jadd (a b : Jac) : Jac :=
  let z1z1 := Fe.square a.z
  let z2z2 := Fe.square b.z
  let u1 := Fe.mul a.x z2z2
  let u2 := Fe.mul b.x z1z1
  let s1 := Fe.mul a.y b.z
  let s1 := Fe.mul s1 z2z2
  let s2 := Fe.mul b.y a.z
  let s2 := Fe.mul s2 z1z1
  let h := Fe.sub u2 u1
  let i := Fe.add h h
  let i := Fe.square i
  let j := Fe.mul h i
  let r := Fe.sub s2 s1
  let r := Fe.add r r
  let v := Fe.mul u1 i
  let x3 := Fe.square r
  let x3 := Fe.sub x3 j
  let tmp := Fe.add v v
  let x3 := Fe.sub x3 tmp
  let y3 := Fe.sub v x3
  let y3 := Fe.mul y3 r
  let tmp := Fe.mul s1 j
  let tmp := Fe.add tmp tmp
  let y3 := Fe.sub y3 tmp
  let z3 := Fe.add a.z b.z
  let z3 := Fe.square z3
  let z3 := Fe.sub z3 z1z1
  let z3 := Fe.sub z3 z2z2
  let z3 := Fe.mul z3 h
  let eq := iand (Fe.isZero h) (Fe.isZero r)
  let dbl := jdouble a
  let x3 := Fe.select dbl.x x3 eq
  let y3 := Fe.select dbl.y y3 eq
  let z3 := Fe.select dbl.z z3 eq
  let zero := Fe.isZero b.z
  let x3 := Fe.select a.x x3 zero
  let y3 := Fe.select a.y y3 zero
  let z3 := Fe.select a.z z3 zero
  let zero := Fe.isZero a.z
  let x3 := Fe.select b.x x3 zero
  let y3 := Fe.select b.y y3 zero
  let z3 := Fe.select b.z z3 zero
  ⟨Fe.set x3, Fe.set y3, Fe.set z3⟩

/-- `(*PointJacobian).Equal(v)` -/
def jequal (p v : Jac) : Int :=
  let zz1 := Fe.square p.z
  let zzz1 := Fe.mul zz1 p.z
  let zz2 := Fe.square v.z
  let zzz2 := Fe.mul zz2 v.z
  let x1 := Fe.mul p.x zz2
  let x2 := Fe.mul v.x zz1
  let y1 := Fe.mul p.y zzz2
  let y2 := Fe.mul v.y zzz1
  let zero1 := Fe.isZero p.z
  let zero2 := Fe.isZero v.z
  ior (iand (iand (iand (Fe.equal x1 x2) (Fe.equal y1 y2)) (inot zero1)) (inot zero2)) (iand zero1 zero2)

/-- negation (x, −y, z): NOT a goat function; only needed to fill `GroupOps.neg`, which none of the
    curve256k1 algorithms uses -/
def jneg (p : Jac) : Jac := ⟨p.x, Fe.neg p.y, p.z⟩

/-- the point operations handed to the windowed algorithms of `Model.WindowMul` -/
def ops : GroupOps Jac := { zero := jzero, add := jadd, double := jdouble, neg := jneg }

/-- `lookupTable.SelectInto` as the Go code computes it: `dest.Zero()`, then for i = 1..15
    `dest.Select(&points[i-1], dest, ConstantTimeByteEq(x, i))` -/
def selectInto (tbl : List Jac) (x : Nat) : Outcome Jac :=
  if x ≥ 16 then .panic "k1.select.range"
  else .ok ((List.range' 1 15).foldl
    (fun dest i => jselect (tbl.getD (i - 1) jzero) dest (if x = i then 1 else 0)) jzero)

/-- `(*PointJacobian).ScalarMult(q, k)` for a big-endian scalar of any length -/
def scalarMult (q : Jac) (k : Bytes) : Outcome Jac :=
  (Model.WindowMul.k1ScalarMultAny ops Model.Sc256.lsh8 Model.Sc256.add8b Model.Sc256.bytes Model.Sc256.zero5 k q).bind
    fun v => .ok (jset v)

/-- `(*PointJacobian).ScalarBaseMult(k)` -/
def scalarBaseMult (k : Bytes) : Outcome Jac :=
  (Model.WindowMul.k1ScalarBaseMultAny ops Model.Sc256.lsh8 Model.Sc256.add8b Model.Sc256.bytes Model.Sc256.zero5 k
    (fromAffine generator)).bind fun v => .ok (jset v)

/-! ### secp256k1/secp256k1.go: the `elliptic.Curve` methods -/

/-- `ToBig`: `x.SetBytes(p.x.Bytes())` -/
def toBig (p : Point) : Int × Int := ((Bytes.decodeBE (Fe.bytes p.x) : Int), (Bytes.decodeBE (Fe.bytes p.y) : Int))

/-- `IsOnCurve(x, y *big.Int)`: false for negative / ≥ p / ≥ 2^256 coordinates -/
def curveIsOnCurve (x y : Int) : Bool :=
  match newPoint x y with
  | .ok p => isOnCurve p
  | _ => false

def invalid {α} : Outcome α := .panic "invalid point"

def curveAdd (x1 y1 x2 y2 : Int) : Outcome (Int × Int) :=
  match newPoint x1 y1, newPoint x2 y2 with
  | .ok p1, .ok p2 => .ok (toBig (fromJacobian (jadd (fromAffine p1) (fromAffine p2))))
  | _, _ => invalid

def curveDouble (x1 y1 : Int) : Outcome (Int × Int) :=
  match newPoint x1 y1 with
  | .ok p1 => .ok (toBig (fromJacobian (jdouble (fromAffine p1))))
  | _ => invalid

def curveScalarMult (bx by' : Int) (k : Bytes) : Outcome (Int × Int) :=
  match newPoint bx by' with
  | .ok b => (scalarMult (fromAffine b) k).bind fun r => .ok (toBig (fromJacobian r))
  | _ => invalid

def curveScalarBaseMult (k : Bytes) : Outcome (Int × Int) :=
  (scalarBaseMult k).bind fun r => .ok (toBig (fromJacobian r))

/-- `CombinedMult(Px, Py, s1, s2)` = [s1]G + [s2]P  (`ScalarBaseMult(s1)` is evaluated before the point check) -/
def curveCombinedMult (px py : Int) (s1 s2 : Bytes) : Outcome (Int × Int) :=
  (scalarBaseMult s1).bind fun r1 =>
  match newPoint px py with
  | .ok b => (scalarMult (fromAffine b) s2).bind fun r2 => .ok (toBig (fromJacobian (jadd r1 r2)))
  | _ => invalid

end Model.K1Pt
