import Goat.Gen.Sc256
import Goat.Model.Fe256
import Goat.Model.WindowMul
/-
The 5-word scalar accumulator of internal/curve256k1/scalar.go (`l0..l3` = low 256 bits, `l4` =
"workspace, up to 3 bit") and `normalizeScalar`.  `Lsh8`, `Add8`, `reduce` and the byte extraction of
`bytes` are the regenerated programs `Gen.Sc256.*` (machine semantics); `bytes` is the composition the Go
code performs (`s0 := *s; s0.reduce(); buf[…] = …`, phase cut after `reduce`); `normalizeScalar` is the
loop of `Model.WindowMul` instantiated with them.

Core Lean only.
-/
namespace Model.Sc256
open Reflect

/-- group order of secp256k1 -/
def N : Int := 0xFFFFFFFFFFFFFFFFFFFFFFFFFFFFFFFEBAAEDCE6AF48A03BBFD25E8CD0364141
/-- 2^256 − n = 0x1_45512319_50b75fc4_402da173_2fc9bebf -/
def D : Int := 0x14551231950b75fc4402da1732fc9bebf

abbrev State := List Int

/-- value of the accumulator: Σ lᵢ·2^(64i), i = 0..4 -/
def val : State → Int
  | [] => 0
  | x :: xs => x + 2 ^ 64 * val xs

def zero5 : State := List.replicate 5 0

def run (p : Prog) (ins : List Int) : List Int := p.outputs true ins

/-- `s.Lsh8(v)` -/
def lsh8 (v : State) : State := run Gen.Sc256.lsh8 (zero5 ++ v)
/-- `s.Add8(v, u)` -/
def add8 (v : State) (u : Int) : State := run Gen.Sc256.add8 (zero5 ++ v ++ [u])
/-- `s.reduce()` -/
def reduce (s : State) : State := run Gen.Sc256.reduce s
/-- `s.bytes(&buf)`: 32 octets, big-endian, of the reduced copy -/
def bytesInts (s : State) : List Int := run Gen.Sc256.bytesTail (s ++ List.replicate 32 0 ++ reduce s)
def bytes (s : State) : Bytes := Model.Fe256.intsToBytes (bytesInts s)

def add8b (s : State) (b : UInt8) : State := add8 s (b.toNat : Int)

/-- `normalizeScalar(k)`: `var s scalar; for _, b := range k { s.Lsh8(&s); s.Add8(&s, b) }; s.bytes(&buf)` -/
def normalizeScalar (k : Bytes) : Bytes := Model.WindowMul.normalizeScalar lsh8 add8b bytes zero5 k

end Model.Sc256
