import Goat.Model.Fe448Ext
import Goat.Model.WindowMul
import Goat.Gen.Ed448Pt
/-
Points of internal/edwards448 (edwards448.go, table.go, scalarmult.go) over the field model
`Model.Fe448` (regenerated limb programs) / `Model.Fe448Ext` (Select, Equal, IsNegative, Inv,
SqrtRatio).  A point is the triple of limb vectors (X, Y, Z) the Go struct holds.

Every definition follows the Go statement sequence of the method of the same name: same
temporaries, same order, same operand order.  The definitions are functional (each Go temporary is
a `let`); this is faithful for every aliasing of receiver and arguments because all point methods
compute into local `field.Element` temporaries and write the receiver only in their last three
statements (`v.x.Set(&x) …`), and the field primitives have no alias hazards
(`C17.no_alias_hazards`).  `Select`, `Negate` write the receiver field by field from the same field
of the operands, which is alias-safe as well.

`checkInitialized` (the `panic("edwards25519: use of uninitialized Point")` guard of Bytes, Equal,
Add, Negate, ScalarMult, VarTimeDoubleScalarBaseMult) is modelled by `initialized` and the `…G`
("guarded") variants returning `Outcome`.

The constants `feD`, `identity`, `generator` are decoded from the byte literals regenerated from the
Go source (`Gen.Ed448Pt`).

Core Lean only.
-/
set_option compiler.extract_closed false   -- no start-up evaluation of the tables in the compiled driver
namespace Model.Ed448Pt
open Model.Fe448 Model.Fe448Ext Model.WindowMul Model.Recode

structure Point where
  x : Limbs
  y : Limbs
  z : Limbs
deriving Repr, Inhabited, DecidableEq

/-- `var feOne = new(field.Element).One()` -/
def feOne : Limbs := one
/-- `var feD = new(field.Element).SetBytes([]byte{…})` -/
def feD : Limbs := Fe448.setBytes Gen.Ed448Pt.feDBytes

/-- `p.x == (field.Element{}) && p.y == (field.Element{})` negated -/
def initialized (p : Point) : Bool := !(p.x == zero && p.y == zero)

/-- `(*Point).Zero` -/
def zeroPt : Point := ⟨zero, one, one⟩

/-- `(*Point).Set` -/
def set (u : Point) : Point := u

/-- `(*Point).Add` (edwards448.go:182-231) -/
def add (p q : Point) : Point :=
  let a := mul p.z q.z                 -- A = Z1*Z2
  let b := square a                    -- B = A^2
  let c := mul p.x q.x                 -- C = X1*X2
  let d := mul p.y q.y                 -- D = Y1*Y2
  let tmp1 := mul feD c                -- E = d*C*D
  let e := mul tmp1 d
  let f := sub b e                     -- F = B-E
  let g := Fe448.add b e               -- G = B+E
  let tmp1 := Fe448.add p.x p.y        -- H = (X1+Y1)*(X2+Y2)
  let tmp2 := Fe448.add q.x q.y
  let h := mul tmp1 tmp2
  let x := sub h c                     -- X3 = A*F*(H-C-D)
  let x := sub x d
  let x := mul x a
  let x := mul x f
  let y := sub d c                     -- Y3 = A*G*(D-C)
  let y := mul y g
  let y := mul y a
  let z := mul f g                     -- Z3 = F*G
  ⟨x, y, z⟩

/-- `(*Point).Double` (edwards448.go:233-279) -/
def double (u : Point) : Point :=
  let b := Fe448.add u.x u.y           -- B = (X1+Y1)^2
  let b := square b
  let c := square u.x                  -- C = X1^2
  let d := square u.y                  -- D = Y1^2
  let e := Fe448.add c d               -- E = C+D
  let h := square u.z                  -- H = Z1^2
  let j := Fe448.add h h               -- J = E-2*H
  let j := sub e j
  let x := sub b e                     -- X3 = (B-E)*J
  let x := mul x j
  let y := sub c d                     -- Y3 = E*(C-D)
  let y := mul e y
  let z := mul e j                     -- Z3 = E*J
  ⟨x, y, z⟩

/-- `(*Point).Negate` -/
def negate (p : Point) : Point := ⟨Fe448.negate p.x, Fe448Ext.set p.y, Fe448Ext.set p.z⟩

/-- `(*Point).Sub`: `neg.Negate(q); v.Add(p, &neg)` -/
def sub (p q : Point) : Point := add p (negate q)

/-- `(*Point).Select(p, q, cond)` -/
def select (p q : Point) (cond : Int) : Point :=
  ⟨Fe448Ext.select p.x q.x cond, Fe448Ext.select p.y q.y cond, Fe448Ext.select p.z q.z cond⟩

/-- `(*Point).CondNeg(cond)`: `neg.Negate(v); v.Select(&neg, v, cond)` -/
def condNeg (v : Point) (cond : Int) : Point := select (negate v) v cond

/-- `(*Point).Equal` (after `checkInitialized`) -/
def equal (v u : Point) : Int :=
  let x1 := mul v.x u.z
  let y1 := mul v.y u.z
  let x2 := mul u.x v.z
  let y2 := mul u.y v.z
  Int.ofNat ((Fe448Ext.equal x1 x2).toNat &&& (Fe448Ext.equal y1 y2).toNat)

/-- `(*Point).bytes`: 57 octets (as integers 0..255) -/
def bytes (v : Point) : List Int :=
  let zInv := inv v.z                  -- zInv = 1 / Z
  let x := mul v.x zInv                -- x = X / Z
  let y := mul v.y zInv                -- y = Y / Z
  let out := Fe448.bytes y ++ [0]      -- copyFieldElement into the zeroed [57]byte
  out.set 56 (Int.ofNat ((out.getD 56 0).toNat ||| ((isNegative x).toNat <<< 7) % 256))

/-- `subtle.ConstantTimeCompare` on two equally long lists: 1 iff equal -/
def ctCompare (a b : List Int) : Int := if a == b then 1 else 0

/-- `(*Point).SetBytes` (edwards448.go:117-176); `data` are octets as integers 0..255 -/
def setBytes (data : List Int) : Outcome Point :=
  if data.length ≠ 57 then .err "length"
  else
    let y := Fe448.setBytes (data.take 56)
    let top := (data.getD 56 0).toNat
    if ctCompare (Fe448.bytes y) (data.take 56) == 0 || top &&& 0x7f != 0 then .err "encoding"
    else
      let y2 := square y                 -- u = y² - 1
      let u := Fe448.sub y2 feOne
      let vv := mul y2 feD               -- v = dy² - 1
      let vv := Fe448.sub vv feOne
      let r := sqrtRatio u vv            -- x = +√(u/v)
      let x := r.1
      let wasSquare := r.2
      let xNeg := Fe448.negate x
      let x := Fe448Ext.select xNeg x (Int.ofNat ((top >>> 7) ^^^ (isNegative x).toNat))
      if wasSquare == 0 then .err "encoding"
      else if Fe448Ext.equal x zero == 1 && top >>> 7 == 1 then .err "encoding"
      else .ok ⟨Fe448Ext.set x, Fe448Ext.set y, one⟩

/-- `var identity, _ = new(Point).SetBytes(…)`; a failed decoding would leave a nil pointer, which
    the model represents by the all-zero (uninitialised) point.
    (A `Thunk`, like the three constants below: evaluated on first use and cached in the compiled
    driver instead of at program start; `Thunk.get (Thunk.mk f) = f ()` definitionally.) -/
def okOrNil : Outcome Point → Point
  | .ok p => p
  | _ => ⟨zero, zero, zero⟩

def identityT : Thunk Point := Thunk.mk fun _ => okOrNil (setBytes Gen.Ed448Pt.identityBytes)

/-- `var generator, _ = new(Point).SetBytes(…)` -/
def generatorT : Thunk Point := Thunk.mk fun _ => okOrNil (setBytes Gen.Ed448Pt.generatorBytes)

/-- `NewIdentityPoint()` -/
def newIdentity (_ : Unit) : Point := identityT.get       -- `new(Point).Set(identity)`: a copy
/-- `NewGeneratorPoint()` -/
def newGenerator (_ : Unit) : Point := generatorT.get     -- `new(Point).Set(generator)`

/-! ## guarded variants: the `checkInitialized` panics -/

def guard1 (p : Point) {α} (k : Outcome α) : Outcome α :=
  if initialized p then k else .panic "checkInitialized"

def addG (p q : Point) : Outcome Point := guard1 p (guard1 q (.ok (add p q)))
def negateG (p : Point) : Outcome Point := guard1 p (.ok (negate p))
def subG (p q : Point) : Outcome Point := (negateG q).bind fun n => addG p n
def condNegG (v : Point) (cond : Int) : Outcome Point := (negateG v).bind fun n => .ok (select n v cond)
def equalG (v u : Point) : Outcome Int := guard1 v (guard1 u (.ok (equal v u)))
def bytesG (v : Point) : Outcome (List Int) := guard1 v (.ok (bytes v))

/-! ## tables (table.go) -/

/-- the point operations as the record `Model.WindowMul` is parameterised by.
    `zero` is `Zero()`; `NewIdentityPoint()` is `identity` (other limbs for X, see below). -/
def ops : GroupOps Point := { zero := zeroPt, add := add, double := double, neg := negate }

/-- `lookupTable.Init` -/
def lookupInit (p : Point) : List Point := lookupInit8 ops p

/-- `subtle.ConstantTimeByteEq` -/
def ctByteEq (a b : Nat) : Int := if a = b then 1 else 0

/-- `lookupTable.SelectInto(dest, x)` with the constant-time `Select` / `CondNeg` chain:
    `xmask := x >> 7; xabs := uint8((x + xmask) ^ xmask); dest.Zero();
     for i := 1; i <= 8; i++ { cond := ConstantTimeByteEq(xabs, i); dest.Select(&points[i-1], dest, cond) };
     dest.CondNeg(int(xmask & 1))` -/
def lookupSelectInto (tbl : List Point) (x : Int) : Point :=
  let xabs := absI8 x
  let dest := (List.range' 1 8).foldl
    (fun dest i => select (tbl.getD (i - 1) zeroPt) dest (ctByteEq xabs i)) zeroPt
  condNeg dest (if x < 0 then 1 else 0)

/-- `nafLookupTable5.Init` / `nafLookupTable8.Init` -/
def nafInit5 (q : Point) : List Point := nafTable5 ops q
def nafInit8 (q : Point) : List Point := nafTable8 ops q

/-- `basepointTable()` (computed once, like the `sync.Once` of the Go code) -/
def basepointTblT : Thunk (List (List Point)) := Thunk.mk fun _ => basepointTable ops 56 (newGenerator ())
/-- `basepointNAFTable()` -/
def basepointNAFTblT : Thunk (List Point) := Thunk.mk fun _ => nafInit8 (newGenerator ())

/-! ## scalar multiplications (scalarmult.go); the scalar is the 56 octets of `Scalar.s`

`ScalarMult` and `ScalarBaseMult` start from `NewIdentityPoint()` = a copy of the DECODED `identity`
(whose X limbs are those of p, a non-canonical zero), whereas `SelectInto` and
`VarTimeDoubleScalarBaseMult` start from `Zero()` (X limbs 0).  `Model.WindowMul.ed448ScalarMult /
ed448ScalarBaseMult` have a single `ops.zero`, so the two loops are restated here with the right
start value, over the same pieces (`lookupInit8`, `lookupSelect8`, `double4`, `addSelf4`,
`basepointSel`, `basepointTable`); `VarTimeDoubleScalarBaseMult` is `ed448DoubleScalarMult` as is. -/

/-- `ScalarMult` after `digits := x.signedRadix16()` -/
def scalarMultDigits (digits : List Int) (q : Point) : Point :=
  let table := lookupInit8 ops q
  match digits.reverse with
  | [] => newIdentity ()                             -- unreachable: `[112]int8`
  | top :: rest =>
    let v := add (newIdentity ()) (lookupSelect8 ops table top)
    rest.foldl (fun v d => add (ops.double4 v) (lookupSelect8 ops table d)) v

/-- `ScalarBaseMult` after `digits := x.signedRadix16()` -/
def scalarBaseMultDigits (digits : List Int) : Point :=
  let sel := basepointSel ops basepointTblT.get
  let v := (List.range' 1 56 2).foldl (fun v i => add v (sel (i / 2) (digits.getD i 0))) (newIdentity ())
  let v := ops.addSelf4 v
  (List.range' 0 56 2).foldl (fun v i => add v (sel (i / 2) (digits.getD i 0))) v

/-- `(*Point).ScalarMult(x, q)` -/
def scalarMult (s : Bytes) (q : Point) : Outcome Point :=
  guard1 q ((signedRadix16 s).bind fun ds => .ok (scalarMultDigits ds q))

/-- `(*Point).ScalarBaseMult(x)` -/
def scalarBaseMult (s : Bytes) : Outcome Point :=
  (signedRadix16 s).bind fun ds => .ok (scalarBaseMultDigits ds)

/-- `(*Point).VarTimeDoubleScalarBaseMult(a, A, b)` -/
def doubleScalarBaseMult (a : Bytes) (pA : Point) (b : Bytes) : Outcome Point :=
  guard1 pA ((nonAdjacentForm 5 a).bind fun aNAF => (nonAdjacentForm 8 b).bind fun bNAF =>
    ed448DoubleScalarMult ops aNAF bNAF pA basepointNAFTblT.get)

end Model.Ed448Pt
