import Goat.Base.Prog
import Goat.Gen.RegistryFacts
/-
Model of the algorithm registry of jwa/jwa.go as a function of the LINK SET (property C07).

The three registries are map literals pre-filled with every IANA name mapped to a nil constructor;
the `init` of each algorithm package (`jwa/hs`, `jwa/dir`, …) replaces its entries.  Which packages
a process links is the caller's choice, and the attacker chooses the `alg` / `enc` names: a hostile
header naming a REGISTERED BUT UNLINKED algorithm must be an error, never the panic of `New()`.

`Reg` = (body-shape facts regenerated from the source, the names the process has linked).  The
meaning of `Available()` and `New()` is computed FROM THE REGENERATED BODY SHAPES
(`Gen.Registry.Fact`), so a change of either body changes the model, and
`GoatProofs/C07Registry.available_guards_new` stops being provable when they no longer agree.
-/
namespace Model.Registry
open Gen.Registry

structure Reg where
  fact : Fact
  linked : List String

/-- `m[alg]`: `none` = key absent, `some false` = present with the pre-filled nil constructor,
    `some true` = a constructor has been registered (Register… panics at init for other names) -/
def Reg.entry (r : Reg) (alg : String) : Option Bool :=
  if r.fact.names.contains alg then some (r.linked.contains alg) else none

/-- `alg.Available()` as written in the source.  An unrecognised body is assumed to answer yes. -/
def Reg.available (r : Reg) (alg : String) : Bool :=
  match r.fact.avail with
  | .nonNil => r.entry alg == some true
  | .commaOk => (r.entry alg).isSome
  | .other => true

/-- `alg.New()` as written in the source.  An unrecognised body is assumed to panic. -/
def Reg.new (r : Reg) (alg : String) : Outcome Unit :=
  match r.fact.new with
  | .panicIfNil => if r.entry alg == some true then .ok () else .panic ("jwa." ++ r.fact.goType ++ ".New")
  | .other => .panic ("jwa." ++ r.fact.goType ++ ".New.unknown-body")

/-- one process: the constructors linked into each of the three registries -/
structure Link where
  sig : List String
  km : List String
  enc : List String

def Link.sigReg (l : Link) : Reg := ⟨Gen.Registry.sig, l.sig⟩
def Link.kmReg (l : Link) : Reg := ⟨Gen.Registry.km, l.km⟩
def Link.encReg (l : Link) : Reg := ⟨Gen.Registry.enc, l.enc⟩

/-- jws/key_finder.go JWKKeyFinder.FindKey: protected alg, else unprotected alg; `Available()`
    before `New()`; `NewSigningKey` of a non-nil key never panics (C07JWT.binding_newSigningKey_np) -/
def jwsFindKey (l : Link) (protAlg unprotAlg : Option String) : Outcome String :=
  let a0 := protAlg.getD ""
  let alg := if a0 == "" then unprotAlg.getD "" else a0
  if !l.sigReg.available alg then .err "alg-unavailable"
  else (l.sigReg.new alg).bind (fun _ => .ok alg)

/-- jwt/key_finder.go guessAlg (both JWT key finders go through it) -/
def jwtGuessAlg (l : Link) (keyAlg hdrAlg : String) : Outcome String :=
  if keyAlg == "" && hdrAlg == "" then .err "guess"
  else
    let alg := if keyAlg != "" then keyAlg else hdrAlg
    if keyAlg != "" && hdrAlg != "" && hdrAlg != keyAlg then .err "alg-mismatch"
    else if !l.sigReg.available alg then .err "alg-unavailable"
    else (l.sigReg.new alg).bind (fun _ => .ok alg)

/-- the head of jwe.Message.Decrypt for one recipient: the caller's key-wrapper finder written the
    documented way (`Available()` then `New()` on the key-management name), the unwrap result
    (`unwrapOk`, standard library / C12), then `Available()` then `New()` on the enc name -/
def jweDecryptHead (l : Link) (alg enc : String) (unwrapOk : Bool) : Outcome String :=
  if !l.kmReg.available alg then .err "no-key-wrapper"
  else (l.kmReg.new alg).bind (fun _ =>
    if !unwrapOk then .err "unwrap"
    else if !l.encReg.available enc then .err "enc-unavailable"
    else (l.encReg.new enc).bind (fun _ => .ok enc))

end Model.Registry
