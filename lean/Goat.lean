import Goat.Base.Bytes
import Goat.Base.Wire
import Goat.Base.Outcome
import Goat.Base.Prog
import Goat.Base.Drive
import Goat.Drive.All
