import Goat.Drive.All
/-
Driver: executes model definitions on request lines.
  request   : <op> <value tokens…>
  query     : ? <name> <value tokens…>        (driver → harness)
  answer    : = <value tokens>                (harness → driver)
  result    : ! <value tokens>                (driver → harness)
  error     : E <text>
-/
def splitTokens (line : String) : List String :=
  (line.splitOn " ").filter (fun s => s != "")

partial def runIO (hin hout : IO.FS.Stream) : Prog Wire → IO Wire
  | .ret a => pure a
  | .ask q k => do
    hout.putStrLn ("? " ++ q.name ++ " " ++ " ".intercalate (Wire.listTokens q.args))
    hout.flush
    let line ← hin.getLine
    let toks := splitTokens (line.trimAscii.toString)
    match toks with
    | "=" :: rest =>
      match Wire.parseTokens rest with
      | some (w, _) => runIO hin hout (k w)
      | none => runIO hin hout (k .none)
    | _ => throw (IO.userError ("driver: expected answer line, got: " ++ line))

partial def loop (hin hout : IO.FS.Stream) : IO Unit := do
  let line ← hin.getLine
  if line.isEmpty then return ()
  let toks := splitTokens (line.trimAscii.toString)
  match toks with
  | [] => loop hin hout
  | op :: rest =>
    match allOps.lookup op with
    | none => hout.putStrLn ("E unknown-op " ++ op)
    | some f =>
      match Wire.parseAll rest with
      | none => hout.putStrLn "E bad-args"
      | some args =>
        let w ← runIO hin hout (f args)
        hout.putStrLn ("! " ++ w.render)
    hout.flush
    loop hin hout

def main : IO Unit := do
  loop (← IO.getStdin) (← IO.getStdout)
