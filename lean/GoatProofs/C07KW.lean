import Goat.Model.KW.AKW
import Goat.Model.KW.AGCMKW
import Goat.Model.KW.PBES2
import Goat.Model.KW.ECDHES
import Goat.Model.Enc.ACBC
import Goat.Model.Enc.AGCM
import GoatProofs.Lemmas.C07NoPanic
/-
C07 over the primitive models of C12 (Goat/Model/KW/*, Enc/*, read-only here): key UNWRAPPING and
content DECRYPTION (the attacker-facing direction) with A*KW, A*GCMKW, dir, PBES2, AES-CBC-HMAC and
AES-GCM never panic, for keys / ivs / tags / wrapped keys / ciphertexts of every length — the
wrong-length cases are errors (52780d2, 48bcaca, f58cab0, 850c90b).
Not covered: the ECDH-ES KDF loop `readFull` — its out-of-fuel outcome stands for a Read that never
delivers an octet (a hang in Go, not a panic) and is excluded by the law "SHA-256 returns 32
octets", which is not assumed here.  C12's buffer helpers (`slice`, `goCopy`) are total: the slice
bounds of akw/acbc are accounted in PanicAudit and exercised by the hostile stream, not proved here.
-/
namespace C07
open PO Spec Model.GoBuf

theorem forUp_np {σ : Type} {f : Nat → σ → PO σ} (hf : ∀ t s, NoPanic (f t s)) :
    ∀ (n : Nat) (s : σ), NoPanic (forUp f n s)
  | 0, s => by unfold forUp; nopanic
  | n + 1, s => by
    unfold forUp
    nopanic using hf, (forUp_np hf n)

theorem aesDec_np (k b : Bytes) : NoPanic (aesDec k b) := by unfold aesDec; nopanic
theorem hmacQ_np (h : String) (k m : Bytes) : NoPanic (hmacQ h k m) := by unfold hmacQ; nopanic
theorem pbkdf2Q_np (h : String) (p s : Bytes) (i : Int) (n : Nat) : NoPanic (pbkdf2Q h p s i n) := by
  unfold pbkdf2Q; nopanic
theorem gcmOpenQ_np (k iv aad s : Bytes) : NoPanic (gcmOpenQ k iv aad s) := by unfold gcmOpenQ; nopanic

theorem akw_unwrapIter_np (key : Bytes) (n t : Nat) (buf : Bytes) :
    NoPanic (Model.KW.AKW.unwrapIter key n t buf) := by
  unfold Model.KW.AKW.unwrapIter; nopanic using aesDec_np

/-- **A128KW / A192KW / A256KW UnwrapKey**: every key size, every data length (empty, 8, odd) -/
theorem no_panic_akw_unwrap (keySize : Nat) (can : Bool) (key data : Bytes) :
    NoPanic (Model.KW.AKW.unwrapKey keySize can key data) := by
  unfold Model.KW.AKW.unwrapKey
  nopanic using (forUp_np (fun t s => akw_unwrapIter_np _ _ t s))

/-- **A*GCMKW UnwrapKey**: every iv / tag length -/
theorem no_panic_agcmkw_unwrap (keySize : Nat) (can : Bool) (key iv tag data : Bytes) :
    NoPanic (Model.KW.AGCMKW.unwrapKey keySize can key iv tag data) := by
  unfold Model.KW.AGCMKW.unwrapKey
  nopanic using gcmOpenQ_np

theorem no_panic_dir_unwrap (can : Bool) (key data : Bytes) :
    NoPanic (Model.KW.Dir.unwrapKey can key data) := by
  unfold Model.KW.Dir.unwrapKey; nopanic

/-- **PBES2 UnwrapKey**: every p2s, every p2c (0, negative, huge) -/
theorem no_panic_pbes2_unwrap (ps : Spec.PBES2.Params) (can : Bool) (pw p2s : Bytes) (p2c : Int) (data : Bytes) :
    NoPanic (Model.KW.PBES2.unwrapKey ps can pw p2s p2c data) := by
  unfold Model.KW.PBES2.unwrapKey
  nopanic using pbkdf2Q_np, no_panic_akw_unwrap

theorem acbc_decIter_np (k ct : Bytes) (i : Nat) (s : Bytes × Bytes) :
    NoPanic (Model.Enc.ACBC.decIter k ct i s) := by
  unfold Model.Enc.ACBC.decIter; nopanic using aesDec_np

theorem acbc_calcAuthTag_np (ps : Spec.CBCHS.Params) (mac aad iv ct : Bytes) :
    NoPanic (Model.Enc.ACBC.calcAuthTag ps mac aad iv ct) := by
  unfold Model.Enc.ACBC.calcAuthTag; nopanic using hmacQ_np

/-- **A*CBC-HS* Decrypt**: every cek / iv / ciphertext / tag length, every padding -/
theorem no_panic_acbc_decrypt (ps : Spec.CBCHS.Params) (cek iv aad ct tag : Bytes) :
    NoPanic (Model.Enc.ACBC.decrypt ps cek iv aad ct tag) := by
  unfold Model.Enc.ACBC.decrypt
  nopanic using (forUp_np (fun t s => acbc_decIter_np _ _ t s)), acbc_calcAuthTag_np

/-- **A*GCM Decrypt**: every cek / iv / tag length -/
theorem no_panic_agcm_decrypt (keyLen : Nat) (cek iv aad ct tag : Bytes) :
    NoPanic (Model.Enc.AGCM.decrypt keyLen cek iv aad ct tag) := by
  unfold Model.Enc.AGCM.decrypt
  nopanic using gcmOpenQ_np

end C07
