import Goat.Model.Custom
import GoatProofs.Lemmas.C07NoPanic
import GoatProofs.Lemmas.C07NumericDate
import GoatProofs.Lemmas.C10Paths
/-
C07 over the custom-claims codec model of C10 (Goat/Model/Custom.lean, read-only here).

`DecodeCustom` takes ATTACKER-chosen claims (any JSON value) and a CALLER-chosen destination type.
The theorem quantifies over every JSON value, every type description, every current value and
every recursion depth.  Two facts that do not depend on the claims are hypotheses of the `_partial` / `_of_walk` forms and
are DISCHARGED in `no_panic_custom_decode` (closed):

  * `hnd`   Model.NumericDate.decode never answers `panic` (math/big NaN; see C07Decoder);
  * `hwalk` the index paths computed by `typeFields` for the destination type are valid for
            `reflect.Value.Field` (a property of the caller's type and of goat's typeFields, the
            same for every input; C10 owns that model).

What the model does not contain (so the theorem says nothing about it): `reflect.Value.Set` on a
non-settable value (unexported pointer fields of the caller's struct) — caller-chosen types only.
-/
namespace C07
open Model.Custom PO

theorem custom_b64dec_np (s : String) : NoPanic (b64dec s) := by unfold b64dec; nopanic

theorem zipDecode_np {α} {f : Val → α → PO Val} (hf : ∀ v a, NoPanic (f v a)) :
    ∀ (cs : List Val) (ws : List α), NoPanic (zipDecode f cs ws)
  | [], _ => by unfold zipDecode; nopanic
  | _ :: _, [] => by unfold zipDecode; nopanic
  | c :: cs, w :: ws => by
    unfold zipDecode
    nopanic using hf, (zipDecode_np hf cs ws)

theorem firstField_mem {name : String} : ∀ {l : List FlatField} {f : FlatField},
    firstField name l = some f → f ∈ l
  | [], _, h => by simp [firstField] at h
  | g :: r, f, h => by
    unfold firstField at h
    split at h
    · cases h; exact List.mem_cons_self
    · exact List.mem_cons_of_mem _ (firstField_mem h)

theorem decodeInt_np (bits : Nat) (t : String) :
    ((decodeInt bits t).bind (fun i => Outcome.ok (Val.int i))).NoPanic := by
  unfold decodeInt
  split
  · exact Outcome.NoPanic.err _
  · split
    · exact Outcome.NoPanic.err _
    · exact Outcome.NoPanic.ok _

theorem decodeUint_np (bits : Nat) (t : String) :
    ((decodeUint bits t).bind (fun n => Outcome.ok (Val.uint n))).NoPanic := by
  unfold decodeUint
  split
  · exact Outcome.NoPanic.err _
  · split
    · exact Outcome.NoPanic.err _
    · exact Outcome.NoPanic.ok _

/-- FULL STATEMENT (kept): `∀ fuel t cur w, NoPanic (decodeInto fuel t cur w)`.
    **no_panic_custom_decode** under the two input-independent hypotheses above. -/
theorem no_panic_custom_decode_partial
    (hnd : ∀ s, (Model.NumericDate.decode s).NoPanic)
    (hwalk : ∀ (t : Ty) (f : FlatField) (sv : Val), f ∈ typeFields t → (walkGet true f.index t true sv).NoPanic) :
    ∀ (fuel : Nat) (t : Ty) (cur : Val) (w : Wire), NoPanic (decodeInto fuel t cur w)
  | 0, t, cur, w => by unfold decodeInto; nopanic
  | fuel + 1, t, cur, w => by
    have ih := no_panic_custom_decode_partial hnd hwalk fuel
    have hint : ∀ bits text, NoPanic (PO.ofOutcome ((decodeInt bits text).bind (fun i => Outcome.ok (Val.int i)))) :=
      fun b t => NoPanic.ofOutcome (decodeInt_np b t)
    have huint : ∀ bits text, NoPanic (PO.ofOutcome ((decodeUint bits text).bind (fun n => Outcome.ok (Val.uint n)))) :=
      fun b t => NoPanic.ofOutcome (decodeUint_np b t)
    have hzip : ∀ (e : Ty) (cs : List Val) (ws : List Wire), NoPanic (zipDecode (decodeInto fuel e) cs ws) :=
      fun e cs ws => zipDecode_np (fun v a => ih e v a) cs ws
    unfold decodeInto
    split
    · -- pointer: indirect
      nopanic using ih
    · split
      · -- string
        nopanic using custom_b64dec_np
      · -- number
        rename_i text
        split
        · nopanic
        · nopanic
        · exact hint _ _
        · exact huint _ _
        · split
          · nopanic
          · nopanic
          · rename_i p hp; exact absurd hp (hnd text p)
        · nopanic
      · -- null
        nopanic
      · -- bool
        nopanic
      · -- object
        rename_i kvs
        split
        · nopanic
        · nopanic
        · nopanic
        · -- struct: the field walk
          apply NoPanic.foldlM_noPanic
          intro sv kv
          split
          · nopanic
          · rename_i f hf
            have hm := firstField_mem hf
            apply NoPanic.bind (NoPanic.ofOutcome (hwalk _ f sv hm))
            intro tv
            nopanic using ih
        · -- map
          split
          · nopanic
          · apply NoPanic.foldlM_noPanic
            intro mv kv
            nopanic using ih
        · nopanic
        · nopanic
      · -- array
        nopanic using hzip
      · nopanic

/-- `Claims.DecodeCustom` into a fresh zero value -/
theorem no_panic_custom_decode_fresh_partial
    (hnd : ∀ s, (Model.NumericDate.decode s).NoPanic)
    (hwalk : ∀ (t : Ty) (f : FlatField) (sv : Val), f ∈ typeFields t → (walkGet true f.index t true sv).NoPanic)
    (fuel : Nat) (t : Ty) (w : Wire) : NoPanic (decode fuel t w) := by
  unfold decode
  exact no_panic_custom_decode_partial hnd hwalk fuel t _ w

/-- FULL STATEMENT (kept): no hypothesis.  Proved: DecodeCustom never panics provided the index
    paths of `typeFields` are valid for the destination type (`hwalk`, input independent); the
    NumericDate hypothesis is discharged by C07.ND.decode_noPanic. -/
theorem no_panic_custom_decode_of_walk
    (hwalk : ∀ (t : Ty) (f : FlatField) (sv : Val), f ∈ typeFields t → (walkGet true f.index t true sv).NoPanic)
    (fuel : Nat) (t : Ty) (cur : Val) (w : Wire) : NoPanic (decodeInto fuel t cur w) :=
  no_panic_custom_decode_partial ND.decode_noPanic hwalk fuel t cur w

/-- **no_panic_custom_decode** (full statement, closed): `Claims.DecodeCustom` of every JSON value
    into every destination type description, every current value, every recursion depth, every
    oracle.  `hwalk` is C10's `typeFields_walk_no_panic` (GoatProofs/Lemmas/C10Paths.lean: the index
    paths `typeFields` computes are valid for `reflect.Value.Field`), `hnd` is C07.ND.decode_noPanic. -/
theorem no_panic_custom_decode (fuel : Nat) (t : Ty) (cur : Val) (w : Wire) :
    NoPanic (decodeInto fuel t cur w) :=
  no_panic_custom_decode_of_walk
    (fun t f sv hf => GoatProofs.Lemmas.C10Paths.typeFields_walk_no_panic t f sv true true hf) fuel t cur w

theorem no_panic_custom_decode_fresh (fuel : Nat) (t : Ty) (w : Wire) : NoPanic (decode fuel t w) := by
  unfold decode; exact no_panic_custom_decode fuel t _ w

/-- without any hypothesis: destinations that are neither structs nor time never reach the two
    hypotheses — e.g. any JSON value into `any`, `string`, `[]byte`, `map[string]any` -/
example (w : Wire) : NoPanic (decode 1 (.iface false) w) := by
  unfold decode decodeInto
  simp only []
  nopanic

end C07
