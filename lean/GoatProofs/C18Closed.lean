import GoatProofs.C18
import GoatProofs.Primes
/-
C18, closed corollaries: with `GoatProofs.Primes.secp256k1_p_prime` (Pocklington certificates checked by
the kernel) the primality of p is no longer a hypothesis.
-/
namespace C18

/-- `pNat` is the number whose primality `GoatProofs.Primes` proves -/
theorem pNat_eq_secpP : pNat = GoatProofs.Primes.secpP := rfl

theorem pNat_prime : Nat.Prime pNat := GoatProofs.Primes.secp256k1_p_prime

instance instFactPrime : Fact (Nat.Prime pNat) := ⟨pNat_prime⟩

/-- for z ≢ 0, `z · Inv(z) = 1` — no hypothesis left -/
theorem inv_mul_cancel_closed {z : Model.Fe256.Limbs} {x : Int} (hz : Rep z x) (hnz : ¬ Model.Fe256.P ∣ x) :
    Rep (Model.Fe256.mul z (Model.Fe256.inv z)) 1 :=
  inv_mul_cancel pNat_prime hz hnz

/-- group order n is prime (certificate) -/
theorem nNat_prime : Nat.Prime nNat := GoatProofs.Primes.secp256k1_n_prime

end C18
