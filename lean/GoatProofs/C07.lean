import GoatProofs.C07Audit
/-
C07 — no attacker-supplied input can crash the process.  Umbrella module: the accounting theorems
(C07Audit), the lemma kit (Lemmas/C07NoPanic), the decoder/encoder theorems (C07Decoder) and the
no_panic theorems over the other models (C07Entry*) are imported here as they exist.
-/
