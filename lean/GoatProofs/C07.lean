import GoatProofs.C07Audit
import GoatProofs.C07Decoder
import GoatProofs.C07JWS
import GoatProofs.C07JWT
import GoatProofs.C07JWE
import GoatProofs.C07JWK
import GoatProofs.C07Custom
import GoatProofs.C07KW
import GoatProofs.C07Registry
import GoatProofs.C07JWSOut
import GoatProofs.C07Binding
import GoatProofs.C07ECDHES
import GoatProofs.C07Header
import GoatProofs.C07Errors
/-
C07 — no attacker-supplied input can crash the process.  Umbrella module.

  C07Audit    accounting of every syntactic panic-capable site (tie to the source)
  C07Decoder  internal/jsonutils Decoder + Encoder, internal/cborutils Decoder, error rendering
  C07JWS      jws.ParseCompact / Parse / Verify / VerifyContent               (models of C01/C02)
  C07JWT      jwt.Parser.Parse, claims, the library's key finders, registry   (models of C01/C03/C04)
  C07JWE      jwe.Parse / ParseJSON / Decrypt / Compact / MarshalJSON          (model of C05/C06)
  C07JWK      jwk.ParseKey / ParseMap / ParseSet / DecodePEM / MarshalJSON / Thumbprint, cose.ParseMap
  C07Custom   jwt.Claims.DecodeCustom                                          (model of C10)
  C07KW       key unwrapping and content decryption of every registered algorithm (models of C12)
  C07Registry Available() really guards New(), for every link set, from the regenerated body shapes
  C07JWSOut   jws Compact / MarshalJSON / Header.MarshalJSON                  (model of C01/C02)
  C07Binding  NewKeyWrapper × UnwrapKey decision logic for every key kind     (model of C03)
  C07ECDHES   ECDH-ES(+A*KW) UnwrapKey incl. the Concat KDF reader            (model of C12)
  C07Header   table-driven jws/jwe decodeHeader / encodeHeader over the REGENERATED tables (model of C11)
  C07Errors   every error value renders: Error() and the Unwrap chain are total (own model ErrorValues)
  Lemmas/C07NoPanic   PO.NoPanic / NoPanicOn / Post and the `nopanic`, `popost` tactics
-/
