import GoatProofs.C07Audit
import GoatProofs.C07Decoder
import GoatProofs.C07JWS
import GoatProofs.C07JWT
import GoatProofs.C07JWE
import GoatProofs.C07JWK
import GoatProofs.C07Custom
import GoatProofs.C07KW
import GoatProofs.C07Registry
/-
C07 — no attacker-supplied input can crash the process.  Umbrella module.

  C07Audit    accounting of every syntactic panic-capable site (tie to the source)
  C07Decoder  internal/jsonutils Decoder + Encoder, internal/cborutils Decoder, error rendering
  C07JWS      jws.ParseCompact / Parse / Verify / VerifyContent               (models of C01/C02)
  C07JWT      jwt.Parser.Parse, claims, the library's key finders, registry   (models of C01/C03/C04)
  C07JWE      jwe.Parse / ParseJSON / Decrypt / Compact / MarshalJSON          (model of C05/C06)
  C07JWK      jwk.ParseKey / ParseMap / ParseSet / DecodePEM / MarshalJSON / Thumbprint, cose.ParseMap
  C07Custom   jwt.Claims.DecodeCustom                                          (model of C10)
  C07KW       key unwrapping and content decryption of every registered algorithm (models of C12)
  C07Registry Available() really guards New(), for every link set, from the regenerated body shapes
  Lemmas/C07NoPanic   PO.NoPanic / NoPanicOn / Post and the `nopanic`, `popost` tactics
-/
