import GoatProofs.Lemmas.C02JsonTop
import GoatProofs.C01
import GoatProofs.Lemmas.C02Time
import GoatProofs.Lemmas.C02Claims
import Goat.Model.JWTFull
/-
C02 — everything the library signs verifies again and yields the original content.

Oracle laws are explicit hypotheses (each is exercised by the harness on every generated case):
  * `B64Law o`      base64url: `dec (enc x) = x` and the encoding contains no '.';
  * `HeaderRoundTrip o hp hp'`  the header codec law for the protected header `hp`:
        decoding (`json.decodeMap` ∘ `decodeHeader`) the marshalled (`encodeHeader` ∘ `json.Marshal`)
        header succeeds with `hp'`, and `hp'` names the same algorithm and `b64` setting
        (that `hp'` has the same PARAMETERS as `hp` is property C11; here it is what is returned);
  * `Sig.SignVerifyPair o sk vk`  the verification key accepts what the signing key signs; derived per
        algorithm from the primitive's law in Lemmas/C02Sig.lean (`hs_pair` — no law needed —,
        `rsa_pair`, `es_pair`, `ed25519_pair`, `ed448_pair`, `none_pair`);
  * the key finder returns the verification key for the decoded header.
-/
namespace Model.JWS

/-- **sign_verify_roundtrip (compact, b64=false, detached).**  For every payload `pl`, protected
    header `hp`, signing key `sk` and verification key `vk`: build the message (`NewMessage`, or
    `NewRawMessage` when `raw`), `Sign`, `Compact`; then `ParseCompact` + `Verify` returns exactly
    `pl` and the decoded header `hp'` — except when the serialiser detached the payload (`raw` and
    `pl` contains '.'), where `VerifyContent` with `pl` does. -/
theorem sign_verify_roundtrip_compact (o : Oracle) (cfg : Cfg) (pl : Bytes) (raw : Bool)
    (hp hp' : Header) (sk vk : Sig.SigningKey) (msg0 msg1 : Message) (d : Bytes)
    (hb64 : B64Law o)
    (h0 : (if raw then pure (newRawMessage pl) else newMessage pl : PO Message).run o = .ok msg0)
    (h1 : (sign msg0 (some hp) none sk).run o = .ok msg1)
    (h2 : (compact msg1).run o = .ok d)
    (hhdr : HeaderRoundTrip o hp hp') (halg' : hp'.alg = hp.alg) (hnb' : hp'.nb64 = hp.nb64)
    (halg : hp.alg ≠ "") (hallow : cfg.allows hp.alg = true) (hconf : cfg.configured = true)
    (hfind : ∀ s : Signature, s.prot = some hp' → s.header = none →
      Sig.signingKeyOfHandle (o (findKeyQuery s)) = some (.ok vk))
    (hpair : Sig.SignVerifyPair o sk vk) :
    if raw = true ∧ dot ∈ pl then
      (parseCompact d >>= fun m => verifyContent cfg m pl).run o = .ok (some hp', none, pl)
    else (parseCompact d >>= verify cfg).run o = .ok (some hp', none, pl) := by
  -- the message before signing
  have hm0 : msg0.signatures = [] ∧ msg0.nb64 = raw ∧
      (if raw then msg0.payload = pl else
        o ⟨"b64url.enc", [.bytes pl]⟩ = .bytes msg0.payload ∧
        o ⟨"b64url.dec", [.bytes msg0.payload]⟩ = .bytes pl ∧ dot ∉ msg0.payload) := by
    cases raw
    · simp only [Bool.false_eq_true, if_false] at h0 ⊢
      unfold newMessage at h0
      obtain ⟨p, hp1, h0⟩ := PO.run_bind_eq_ok o _ _ _ h0
      simp only [PO.run_pure] at h0
      injection h0 with h0
      subst h0
      have he := (b64Encode_ok o _ _).1 hp1
      obtain ⟨e, e1, e2, e3⟩ := hb64 pl
      rw [he] at e1
      injection e1 with e1
      subst e1
      exact ⟨rfl, rfl, he, e2, e3⟩
    · simp only [if_true, PO.run_pure] at h0 ⊢
      injection h0 with h0
      subst h0
      exact ⟨rfl, rfl, rfl⟩
  obtain ⟨hs0, hn0, hp0⟩ := hm0
  obtain ⟨hnbeq, W, hj, rawB, sg, b64sig, hW, hM, hR, hS, hB, rfl⟩ := sign_ok o msg0 msg1 hp none sk h1
  -- base64 facts for the two encoded segments
  obtain ⟨e, e1, e2, e3⟩ := hb64 hj
  rw [hR] at e1; injection e1 with e1; subst e1
  obtain ⟨e', f1, f2, f3⟩ := hb64 sg
  rw [hB] at f1; injection f1 with f1; subst f1
  have hdec := hhdr W hj hW hM
  have hraw : hp.nb64 = raw := by rw [← hnbeq, hn0]
  -- the signature entry as parsed back
  let s : Signature := { prot := some hp', rawProtected := rawB, b64signature := b64sig, signature := sg }
  have good : ∀ sc, sc = msg0.payload → Good o cfg s sc := by
    intro sc hsc
    subst hsc
    have hsalg : s.alg = hp.alg := by rw [Signature.alg_of_protected_only s hp' rfl rfl, halg']
    refine ⟨by rw [hsalg]; exact halg, by rw [hsalg]; exact hallow, vk, hfind s rfl rfl, hpair _ _ hS⟩
  simp only [hs0, List.nil_append] at h2
  unfold compact at h2
  simp only at h2
  by_cases hdet : raw = true ∧ dot ∈ pl
  · -- detached by the serialiser
    obtain ⟨hr, hdot⟩ := hdet
    subst hr
    simp only [if_true] at hp0
    have hc : (msg0.nb64 && msg0.payload.contains dot) = true := by
      simp [hn0, hp0, hdot]
    simp only [hc, if_true, PO.run_pure] at h2
    injection h2 with h2
    subst h2
    simp only [hdot, and_self, if_true]
    have hpc := parseCompact_of_segments o rawB [] b64sig hj sg hp' e3 (by simp) e2 hdec f2
    simp only [List.nil_append] at hpc
    rw [PO.run_bind_ok o _ _ _ hpc]
    unfold verifyContent
    simp only [hconf, Bool.not_true, Bool.false_eq_true, if_false, hnb', hraw]
    have := verifyLoop_single o cfg pl pl s (good pl hp0.symm)
    simpa [s] using this
  · have hc : (msg0.nb64 && msg0.payload.contains dot) = false := by
      cases raw
      · simp [hn0]
      · simp only [if_true] at hp0
        simp only [true_and] at hdet
        simp [hn0, hp0, hdet]
    simp only [hc, Bool.false_eq_true, if_false, PO.run_pure] at h2
    injection h2 with h2
    subst h2
    simp only [hdet, if_false]
    have hnodot : dot ∉ msg0.payload := by
      cases raw
      · simp only [Bool.false_eq_true, if_false] at hp0; exact hp0.2.2
      · simp only [if_true] at hp0
        simp only [true_and] at hdet
        rw [hp0]; exact hdet
    have hpc := parseCompact_of_segments o rawB msg0.payload b64sig hj sg hp' e3 hnodot e2 hdec f2
    rw [PO.run_bind_ok o _ _ _ hpc]
    unfold verify
    simp only [hconf, Bool.not_true, Bool.false_eq_true, if_false, hnb', hraw]
    cases raw
    · simp only [Bool.false_eq_true, if_false] at hp0
      simp only [Bool.not_false, if_true, PO.run_bind, b64Dec?_run, hp0.2.1]
      have := verifyLoop_single o cfg pl msg0.payload s (good _ rfl)
      simpa [s] using this
    · simp only [if_true] at hp0
      simp only [Bool.not_true, Bool.false_eq_true, if_false]
      have := verifyLoop_single o cfg msg0.payload msg0.payload s (good _ rfl)
      simpa [s, hp0] using this

/-- the verification-loop part of the JSON round trip: any message `m` that carries the stored
    payload text of the signed message and, among its signature entries, one good entry, and no
    entry on which the finder/`Verify` panics, verifies — with the FIRST entry that verifies — and
    returns the original payload.  (Composed with `parseJSON_flat` / `parseJSON_general` in
    `sign_verify_roundtrip_json` below.) -/
theorem verify_of_signed (o : Oracle) (cfg : Cfg) (m : Message) (pl : Bytes)
    (hconf : cfg.configured = true)
    (hpl : if m.nb64 then m.payload = pl else o ⟨"b64url.dec", [.bytes m.payload]⟩ = .bytes pl)
    (hgood : ∃ s ∈ m.signatures, Good o cfg s m.payload)
    (hnp : ∀ s ∈ m.signatures, ∀ site, (trySig cfg m.payload s).run o ≠ .panic site) :
    ∃ s ∈ m.signatures, (verify cfg m).run o = .ok (s.prot, s.header, pl) := by
  unfold verify
  simp only [hconf, Bool.not_true, Bool.false_eq_true, if_false]
  cases hn : m.nb64
  · simp only [hn, Bool.false_eq_true, if_false] at hpl
    simp only [Bool.not_false, if_true, PO.run_bind, b64Dec?_run, hpl]
    obtain ⟨s, hs, hr, _⟩ := verifyLoop_of_good o cfg pl m.payload m.signatures hgood hnp
    exact ⟨s, hs, hr⟩
  · simp only [hn, if_true] at hpl
    simp only [Bool.not_true, Bool.false_eq_true, if_false]
    obtain ⟨s, hs, hr, _⟩ := verifyLoop_of_good o cfg m.payload m.payload m.signatures hgood hnp
    exact ⟨s, hs, by rw [← hpl]; exact hr⟩

/-! ### JSON serialisations: flattened (one signer) and general (n signers of any header shapes) -/

/-- what `NewMessage` / `NewRawMessage` store -/
theorem fresh_message (o : Oracle) (hb64 : B64Law o) (pl : Bytes) (raw : Bool) (msg0 : Message)
    (h0 : (if raw then pure (newRawMessage pl) else newMessage pl : PO Message).run o = .ok msg0) :
    msg0.signatures = [] ∧ msg0.nb64 = raw ∧
      (if msg0.nb64 then msg0.payload = pl else o ⟨"b64url.dec", [.bytes msg0.payload]⟩ = .bytes pl) := by
  cases raw
  · simp only [Bool.false_eq_true, if_false] at h0
    unfold newMessage at h0
    obtain ⟨p, hp1, h0⟩ := PO.run_bind_eq_ok o _ _ _ h0
    simp only [PO.run_pure] at h0
    injection h0 with h0
    subst h0
    have he := (b64Encode_ok o _ _).1 hp1
    obtain ⟨e, e1, e2, _⟩ := hb64 pl
    rw [he] at e1
    injection e1 with e1
    subst e1
    exact ⟨rfl, rfl, by simpa using e2⟩
  · simp only [if_true, PO.run_pure] at h0
    injection h0 with h0
    subst h0
    exact ⟨rfl, rfl, by simp [newRawMessage]⟩

/-- what a signer must satisfy for its entry to verify after the round trip: its algorithm — read
    from the decoded headers, protected first, else unprotected (every header placement) — is named
    and allowed, the key finder answers the decoded header pair with the verification key, and that
    key accepts what the signing key signs (the LAW of the signature primitive, `SignVerifyPair`;
    Lemmas/C02Sig.lean derives it per algorithm; HMAC needs no law beyond determinism of the oracle) -/
structure SignerGood (o : Oracle) (cfg : Cfg) (s : Signer) : Prop where
  named : ({ prot := some s.hp', header := s.hdr' } : Signature).alg ≠ ""
  allowed : cfg.allows ({ prot := some s.hp', header := s.hdr' } : Signature).alg = true
  finder : ∀ e : Signature, e.prot = some s.hp' → e.header = s.hdr' →
    Sig.signingKeyOfHandle (o (findKeyQuery e)) = some (.ok s.vk)
  pair : Sig.SignVerifyPair o s.sk s.vk

theorem back_alg (s : Signer) (e : Signature) :
    (back s e).alg = ({ prot := some s.hp', header := s.hdr' } : Signature).alg := rfl

theorem good_of_signed (o : Oracle) (cfg : Cfg) (p : Bytes) (nb : Bool) (s : Signer) (e : Signature)
    (hs : Signed o p nb s e) (hg : SignerGood o cfg s) : Good o cfg (back s e) p :=
  ⟨by rw [back_alg]; exact hg.named, by rw [back_alg]; exact hg.allowed, s.vk, hg.finder _ rfl rfl,
    hg.pair _ _ hs.signed⟩

theorem backs_of_mem (o : Oracle) (p : Bytes) (nb : Bool) : ∀ (signers : List Signer) (es : List Signature),
    Zip2 (Signed o p nb) signers es → ∀ s ∈ signers, ∃ e, Signed o p nb s e ∧ back s e ∈ backs signers es := by
  intro signers es hz
  induction hz with
  | nil => intro s hs; cases hs
  | cons hr _ ih =>
    intro s hs
    cases hs with
    | head => exact ⟨_, hr, by simp [backs]⟩
    | tail _ hs' =>
      obtain ⟨e, he, hm⟩ := ih s hs'
      exact ⟨e, he, by simp [backs, hm]⟩

theorem mem_backs (o : Oracle) (p : Bytes) (nb : Bool) : ∀ (signers : List Signer) (es : List Signature),
    Zip2 (Signed o p nb) signers es → ∀ x ∈ backs signers es, ∃ s ∈ signers, ∃ e, x = back s e := by
  intro signers es hz
  induction hz with
  | nil => intro x hx; simp [backs] at hx
  | cons _ _ ih =>
    intro x hx
    simp only [backs, List.mem_cons] at hx
    rcases hx with hx | hx
    · exact ⟨_, List.mem_cons_self .., _, hx⟩
    · obtain ⟨s, hs, e, he⟩ := ih x hx
      exact ⟨s, List.mem_cons_of_mem _ hs, e, he⟩

/-- `Parse (MarshalJSON msgN)` for a freshly signed message: the stored payload text, the message
    flag, and every entry with its raw segments and the decoded headers, in order -/
theorem parse_marshal_signed (o : Oracle) (hb64 : B64Law o) (signers : List Signer)
    (msg0 msgN : Message) (d : Bytes)
    (hfresh : msg0.signatures = [])
    (h1 : (signAll msg0 signers).run o = .ok msgN)
    (h2 : (marshalJSON msgN).run o = .ok d)
    (hne : signers ≠ [])
    (hjson : ∀ W, (msgObject msgN).run o = .ok W →
      ∃ W', StrView W W' ∧ o ⟨"json.decodeMap", [.bytes d]⟩ = W')
    (hl : ∀ s ∈ signers, SignerLaws o s) :
    Zip2 (Signed o msg0.payload msg0.nb64) signers msgN.signatures ∧
    (parseJSON d).run o = .ok
      { signatures := backs signers msgN.signatures, payload := msg0.payload, nb64 := msg0.nb64 } := by
  obtain ⟨hpay, hnb, es, hes, hz⟩ := signAll_ok o signers msg0 msgN h1
  rw [hfresh, List.nil_append] at hes
  -- the object that was marshalled
  have hW : ∃ W, (msgObject msgN).run o = .ok W := by
    unfold marshalJSON at h2
    by_cases hu : (msgN.nb64 && !validUTF8 msgN.payload) = true
    · simp [hu] at h2
    · simp only [hu, Bool.false_eq_true, if_false] at h2
      obtain ⟨W, hW, _⟩ := PO.run_bind_eq_ok o _ _ _ h2
      exact ⟨W, hW⟩
  obtain ⟨W, hW⟩ := hW
  obtain ⟨W', hv, hd⟩ := hjson W hW
  rw [hes]
  refine ⟨hz, ?_⟩
  match signers, es, hz, hne, hl, hes with
  | [s], [e], hz, _, hl, hes =>
    cases hz with
    | cons hs _ =>
      obtain ⟨ps, hps, hr⟩ := parseJSON_flat o hb64 msg0.payload msg0.nb64 s e msgN W W' d hes hpay hs
        (hl s (List.mem_cons_self ..)) hW hv hd
      rw [hr, hps]; rfl
  | s1 :: s2 :: rest, e1 :: e2 :: es', hz, hne, hl, hes =>
    obtain ⟨ps, hps, hr⟩ := parseJSON_general o hb64 msg0.payload msg0.nb64 _ _ msgN W W' d hes hpay
      (by intro e h; cases h) hz hne hl hW hv hd
    rw [hr, hps]
  | [_], _ :: _ :: _, hz, _, _, _ => cases hz with | cons _ h => cases h
  | _ :: _ :: _, [_], hz, _, _, _ => cases hz with | cons _ h => cases h
  | [], _, _, hne, _, _ => exact absurd rfl hne
  | _ :: _, [], hz, _, _, _ => cases hz

/-- **sign_verify_roundtrip (JSON: flattened and general, n signers of any header shapes, b64 on/off).**
    `NewMessage|NewRawMessage`, `Sign` for every signer, `MarshalJSON`, `Parse`, `Verify`: the original
    payload comes back together with the decoded protected and unprotected header of one of the signers —
    the first one whose entry verifies.  Hypotheses, all explicit:
    * `hb64`, `hjson`, `hl`: the base64url law, the JSON law on the marshalled message object
      (`StrView`: byte leaves are UTF-8 strings — for b64=false this is where a non-UTF-8 payload is
      excluded; `marshalJSON_raw_utf8` shows the serialiser refuses it), the header codec laws;
    * `hgood`: some signer is `SignerGood` (algorithm named in either header and allowed; the finder
      returns its verification key; law of the signature primitive);
    * `hnp`: on no entry does the caller's finder / the key panic (nil key, malformed public key). -/
theorem sign_verify_roundtrip_json (o : Oracle) (cfg : Cfg) (pl : Bytes) (raw : Bool)
    (signers : List Signer) (msg0 msgN : Message) (d : Bytes)
    (hb64 : B64Law o)
    (h0 : (if raw then pure (newRawMessage pl) else newMessage pl : PO Message).run o = .ok msg0)
    (h1 : (signAll msg0 signers).run o = .ok msgN)
    (h2 : (marshalJSON msgN).run o = .ok d)
    (hjson : ∀ W, (msgObject msgN).run o = .ok W →
      ∃ W', StrView W W' ∧ o ⟨"json.decodeMap", [.bytes d]⟩ = W')
    (hl : ∀ s ∈ signers, SignerLaws o s)
    (hconf : cfg.configured = true)
    (hgood : ∃ s ∈ signers, SignerGood o cfg s)
    (hnp : ∀ x ∈ backs signers msgN.signatures, ∀ site, (trySig cfg msg0.payload x).run o ≠ .panic site) :
    ∃ s ∈ signers, (parseJSON d >>= verify cfg).run o = .ok (some s.hp', s.hdr', pl) := by
  obtain ⟨hfresh, _, hpl⟩ := fresh_message o hb64 pl raw msg0 h0
  have hne : signers ≠ [] := by
    obtain ⟨s, hs, _⟩ := hgood
    intro h; rw [h] at hs; cases hs
  obtain ⟨hz, hparse⟩ := parse_marshal_signed o hb64 signers msg0 msgN d hfresh h1 h2 hne hjson hl
  rw [PO.run_bind_ok o _ _ _ hparse]
  obtain ⟨sg, hsg, hgd⟩ := hgood
  obtain ⟨e, he, hmem⟩ := backs_of_mem o _ _ signers _ hz sg hsg
  obtain ⟨x, hx, hr⟩ := verify_of_signed o cfg
    { signatures := backs signers msgN.signatures, payload := msg0.payload, nb64 := msg0.nb64 } pl hconf hpl
    ⟨back sg e, hmem, good_of_signed o cfg _ _ sg e he hgd⟩ hnp
  obtain ⟨s, hs, e', rfl⟩ := mem_backs o _ _ signers _ hz x hx
  exact ⟨s, hs, hr⟩

/-- … and when the FIRST signer is good, it is exactly its headers that come back (this covers the
    flattened form, and the general form with a finder that knows every signer's key) -/
theorem sign_verify_roundtrip_json_first (o : Oracle) (cfg : Cfg) (pl : Bytes) (raw : Bool)
    (s0 : Signer) (rest : List Signer) (msg0 msgN : Message) (d : Bytes)
    (hb64 : B64Law o)
    (h0 : (if raw then pure (newRawMessage pl) else newMessage pl : PO Message).run o = .ok msg0)
    (h1 : (signAll msg0 (s0 :: rest)).run o = .ok msgN)
    (h2 : (marshalJSON msgN).run o = .ok d)
    (hjson : ∀ W, (msgObject msgN).run o = .ok W →
      ∃ W', StrView W W' ∧ o ⟨"json.decodeMap", [.bytes d]⟩ = W')
    (hl : ∀ s ∈ s0 :: rest, SignerLaws o s)
    (hconf : cfg.configured = true)
    (hgood : SignerGood o cfg s0) :
    (parseJSON d >>= verify cfg).run o = .ok (some s0.hp', s0.hdr', pl) := by
  obtain ⟨hfresh, _, hpl⟩ := fresh_message o hb64 pl raw msg0 h0
  obtain ⟨hz, hparse⟩ := parse_marshal_signed o hb64 (s0 :: rest) msg0 msgN d hfresh h1 h2
    (by intro h; cases h) hjson hl
  rw [PO.run_bind_ok o _ _ _ hparse]
  generalize msgN.signatures = sigsN at hz
  cases hz with
  | @cons _ e0 _ es hs _ =>
    have hg := good_of_signed o cfg _ _ s0 e0 hs hgood
    have hloop : ∀ rc, (verifyLoop cfg rc msg0.payload (back s0 e0 :: backs rest es)).run o =
        .ok (some s0.hp', s0.hdr', rc) := by
      intro rc
      unfold verifyLoop
      rw [PO.run_bind, trySig_of_good o cfg _ _ hg]
      simp [back]
    unfold verify
    simp only [hconf, Bool.not_true, Bool.false_eq_true, if_false, backs]
    cases hn : msg0.nb64
    · simp only [hn, Bool.false_eq_true, if_false] at hpl
      simp only [Bool.not_false, if_true, PO.run_bind, b64Dec?_run, hpl]
      exact hloop pl
    · simp only [hn, if_true] at hpl
      simp only [Bool.not_true, Bool.false_eq_true, if_false]
      rw [← hpl]; exact hloop _

/-- the entry `Sign` appends is good for the stored payload text once its protected header is
    replaced by the decoded one (what every parser of this library stores): the bridge between
    `sign_ok` and `verify_of_signed` -/
theorem signed_entry_good (o : Oracle) (cfg : Cfg) (msg msg1 : Message) (hp hp' : Header)
    (hdr hdr' : Option Header) (sk vk : Sig.SigningKey)
    (h1 : (sign msg (some hp) hdr sk).run o = .ok msg1)
    (halg' : hp'.alg = hp.alg) (halg : hp.alg ≠ "") (hallow : cfg.allows hp.alg = true)
    (hfind : ∀ s : Signature, s.prot = some hp' → s.header = hdr' →
      Sig.signingKeyOfHandle (o (findKeyQuery s)) = some (.ok vk))
    (hpair : Sig.SignVerifyPair o sk vk) :
    ∃ s ∈ msg1.signatures, Good o cfg { s with prot := some hp', header := hdr' } msg.payload := by
  obtain ⟨_, W, hj, rawB, sg, b64sig, _, _, _, hS, _, rfl⟩ := sign_ok o msg msg1 hp hdr sk h1
  refine ⟨_, List.mem_append_right _ (List.mem_singleton.2 rfl), ?_⟩
  have hne : hp'.alg ≠ "" := by rw [halg']; exact halg
  have hsalg := Signature.alg_of_protected_named
    { prot := some hp', header := hdr', rawProtected := rawB, b64signature := b64sig, signature := sg } hp' rfl hne
  exact ⟨by rw [hsalg]; exact hne, by rw [hsalg, halg']; exact hallow, vk, hfind _ rfl rfl, hpair _ _ hS⟩

/-- **no silently altered payload.**  Whenever the JSON serialiser emits a message with an
    unencoded payload (b64=false), that payload is valid UTF-8 — i.e. exactly representable as the
    JSON string `encoding/json` writes; any other payload is refused (RFC 7797 §5.2). -/
theorem marshalJSON_raw_utf8 (o : Oracle) (msg : Message) (d : Bytes)
    (h : (marshalJSON msg).run o = .ok d) (hn : msg.nb64 = true) : validUTF8 msg.payload = true := by
  unfold marshalJSON at h
  cases hv : validUTF8 msg.payload
  · simp [hn, hv] at h
  · rfl

end Model.JWS

namespace Model.JWT
open Model.JWS

/-- **JWT front half for any claims encoder `enc` and claims step `pc`** (the signature is the C02
    step): `jwt.Sign` followed by `Parser.Parse` decodes the header to `hp'` and hands the claims step
    EXACTLY the bytes the claims encoder produced; the outcome of `Parse` is the outcome of that step. -/
theorem jwt_front_roundtrip_with {γ : Type} (enc : PO Bytes) (pc : Bytes → PO γ) (o : Oracle) (cfg : Cfg)
    (hp hp' : Header) (sk vk : Sig.SigningKey) (d : Bytes)
    (hb64 : B64Law o)
    (hsign : (signWith enc hp sk).run o = .ok d)
    (hhdr : HeaderRoundTrip o hp hp') (halg' : hp'.alg = hp.alg)
    (hallow : cfg.allows hp.alg = true) (hconf : cfg.configured = true)
    (hfind : Sig.signingKeyOfHandle (o (findKeyQuery hp')) = some (.ok vk))
    (hpair : Sig.SignVerifyPair o sk vk) :
    ∃ pl, enc.run o = .ok pl ∧
      (parseWith pc cfg d).run o = (do let c ← pc pl; pure (hp', c) : PO (Header × γ)).run o := by
  unfold signWith at hsign
  obtain ⟨pl, hpl, hsign⟩ := PO.run_bind_eq_ok o _ _ _ hsign
  refine ⟨pl, hpl, ?_⟩
  obtain ⟨W, hW, hsign⟩ := PO.run_bind_eq_ok o _ _ _ hsign
  obtain ⟨hj, hhj, hsign⟩ := PO.run_bind_eq_ok o _ _ _ hsign
  obtain ⟨b1, hb1, hsign⟩ := PO.run_bind_eq_ok o _ _ _ hsign
  obtain ⟨b2, hb2, hsign⟩ := PO.run_bind_eq_ok o _ _ _ hsign
  obtain ⟨sg, hsg, hsign⟩ := PO.run_bind_eq_ok o _ _ _ hsign
  obtain ⟨b3, hb3, hsign⟩ := PO.run_bind_eq_ok o _ _ _ hsign
  simp only [PO.run_pure] at hsign
  injection hsign with hsign
  subst hsign
  rw [stage_ok] at hW hhj
  have hM : o ⟨"c01.json.marshalB", [W]⟩ = .bytes hj := by
    simp only [jsonMarshalB, PO.run_bind, PO.run_query] at hhj
    cases hq : o ⟨"c01.json.marshalB", [W]⟩ <;> simp [hq] at hhj
    rw [hhj]
  have hdec := hhdr W hj hW hM
  have g1 := (b64Encode_ok o _ _).1 hb1
  have g2 := (b64Encode_ok o _ _).1 hb2
  have g3 := (b64Encode_ok o _ _).1 hb3
  obtain ⟨e, e1, e2, e3⟩ := hb64 hj
  rw [g1] at e1; injection e1 with e1; subst e1
  obtain ⟨e, p1, p2, p3⟩ := hb64 pl
  rw [g2] at p1; injection p1 with p1; subst p1
  obtain ⟨e, f1, f2, f3⟩ := hb64 sg
  rw [g3] at f1; injection f1 with f1; subst f1
  unfold parseWith
  simp only [hconf, Bool.not_true, Bool.false_eq_true, if_false]
  rw [splitDot_append b1 _ e3]
  simp only
  rw [splitDot_append b2 _ p3]
  simp only
  have s1 : (stage "header" (b64Decode b1)).run o = .ok hj := (stage_ok o _ _ _).2 ((b64Decode_ok o _ _).2 e2)
  have s2 : (stage "header" (unmarshalHeader hj)).run o = .ok hp' := (stage_ok o _ _ _).2 hdec
  rw [PO.run_bind_ok o _ _ _ s1, PO.run_bind_ok o _ _ _ s2]
  have hallow' : cfg.allows hp'.alg = true := by rw [halg']; exact hallow
  simp only [hallow', Bool.not_true, Bool.false_eq_true, if_false, PO.run_bind, PO.run_query]
  have hfind' : Sig.signingKeyOfHandle (o ⟨(findKeyQuery hp').name, (findKeyQuery hp').args⟩) = some (.ok vk) := hfind
  simp only [hfind']
  have s3 : (stage "sigb64" (b64Decode b3)).run o = .ok sg := (stage_ok o _ _ _).2 ((b64Decode_ok o _ _).2 f2)
  have s4 : (stage "sig" (Sig.verifyKey vk ((b1 ++ dot :: (b2 ++ dot :: b3)).take (b1.length + 1 + b2.length)) sg)).run o = .ok () := by
    rw [stage_ok, take_signing_input]
    exact hpair _ _ hsg
  have s5 : (stage "payloadb64" (b64Decode b2)).run o = .ok pl := (stage_ok o _ _ _).2 ((b64Decode_ok o _ _).2 p2)
  rw [PO.run_bind_ok o _ _ _ s3, PO.run_bind_ok o _ _ _ s4, PO.run_bind_ok o _ _ _ s5]
  exact PO.run_bind o _ _

/-- **jwt_sign_parse_front_roundtrip** (claims codec as one abstract step on both sides) -/
theorem jwt_sign_parse_front_roundtrip (o : Oracle) (cfg : Cfg) (hp hp' : Header) (claims : Wire)
    (sk vk : Sig.SigningKey) (d payload : Bytes)
    (hb64 : B64Law o)
    (hsign : (sign hp claims sk).run o = .ok d)
    (hclaims : o ⟨"c02.jwt.encodeClaims", [claims]⟩ = .bytes payload)
    (hhdr : HeaderRoundTrip o hp hp') (halg' : hp'.alg = hp.alg)
    (hallow : cfg.allows hp.alg = true) (hconf : cfg.configured = true)
    (hfind : Sig.signingKeyOfHandle (o (findKeyQuery hp')) = some (.ok vk))
    (hpair : Sig.SignVerifyPair o sk vk)
    (hparse : (o ⟨"c01.jwt.parseClaims", [.bytes payload]⟩).isNone = false) :
    (parse cfg d).run o = .ok (hp', o ⟨"c01.jwt.parseClaims", [.bytes payload]⟩) := by
  obtain ⟨pl, hpl, hr⟩ := jwt_front_roundtrip_with (encodeClaimsOracle claims) claimsOracle o cfg hp hp' sk vk d
    hb64 hsign hhdr halg' hallow hconf hfind hpair
  have : pl = payload := by
    simp only [encodeClaimsOracle, PO.run_bind, PO.run_query, hclaims, PO.run_pure] at hpl
    injection hpl with hpl; exact hpl.symm
  subst this
  unfold parse
  rw [hr]
  have hc : (claimsOracle pl).run o = .ok (o ⟨"c01.jwt.parseClaims", [.bytes pl]⟩) :=
    (claimsOracle_ok o pl _).2 ⟨rfl, hparse⟩
  rw [PO.run_bind_ok o _ _ _ hc]
  rfl

/-! ### the assembled JWT round trip: claims codec (C10) + signature (C02) + validation (C04) -/

open Model.JWTClaims in
/-- **jwt_sign_parse_roundtrip_step (assembled, claims step as a hypothesis).**  For every header, claims set and key: if `jwt.Sign`
    succeeds with token `d`, then `Parser.Parse d` is — outcome for outcome — the claims step
    (`parseClaims`: JSON decoding, issuer and audience verifiers, `exp`/`nbf` against the clock, the
    NumericDate codec) applied to exactly the bytes `encodeClaims` produced, paired with the decoded
    header.  The three steps and who owns them:
    * signature (C02, this file): laws `B64Law`, `HeaderRoundTrip`, `SignVerifyPair`, the finder returns the
      verification key, the algorithm is allowed — consumed here;
    * claims codec (C10): `hcodec` — what `parseClaims` returns on the encoded bytes; C10 proves the
      parts (strings, audience shapes, NumericDate for whole seconds; every nanosecond:
      `C02Time.numeric_date_text_exact` for the encoder, `numeric_date_roundtrip_classes` and the stream
      for the decoder, until C10's general `numericDate_roundtrip` lands);
    * validation (C04): success of `parseClaims` means the clock is inside the validity window and
      both verifiers accepted (`GoatProofs.C04.finish_ok`, `jwt_parse_ok_sound`). -/
theorem jwt_sign_parse_roundtrip_step (o : Oracle) (cfg : Cfg) (hp hp' : Header) (c c' : Claims)
    (sk vk : Sig.SigningKey) (d : Bytes)
    (hb64 : B64Law o)
    (hsign : (signFull hp c sk).run o = .ok d)
    (hhdr : HeaderRoundTrip o hp hp') (halg' : hp'.alg = hp.alg)
    (hallow : cfg.allows hp.alg = true) (hconf : cfg.configured = true)
    (hfind : Sig.signingKeyOfHandle (o (findKeyQuery hp')) = some (.ok vk))
    (hpair : Sig.SignVerifyPair o sk vk)
    (hcodec : ∀ payload, (encodeClaims c).run o = .ok payload → (parseClaims payload).run o = .ok c') :
    (parseFull cfg d).run o = .ok (hp', c') := by
  obtain ⟨pl, hpl, hr⟩ := jwt_front_roundtrip_with (encodeClaims c) parseClaims o cfg hp hp' sk vk d
    hb64 hsign hhdr halg' hallow hconf hfind hpair
  unfold parseFull
  rw [hr, PO.run_bind_ok o _ _ _ (hcodec pl hpl)]
  rfl

open Model.JWTClaims in
/-- … and whatever the claims step answers (expired, not yet valid, issuer/audience refused, a
    claim that does not decode) is what `Parse` answers: the front half neither hides nor adds an
    error once the token was produced by `Sign` -/
theorem jwt_sign_parse_outcome (o : Oracle) (cfg : Cfg) (hp hp' : Header) (c : Claims)
    (sk vk : Sig.SigningKey) (d : Bytes)
    (hb64 : B64Law o)
    (hsign : (signFull hp c sk).run o = .ok d)
    (hhdr : HeaderRoundTrip o hp hp') (halg' : hp'.alg = hp.alg)
    (hallow : cfg.allows hp.alg = true) (hconf : cfg.configured = true)
    (hfind : Sig.signingKeyOfHandle (o (findKeyQuery hp')) = some (.ok vk))
    (hpair : Sig.SignVerifyPair o sk vk) :
    ∃ payload, (encodeClaims c).run o = .ok payload ∧
      (parseFull cfg d).run o = (do let c' ← parseClaims payload; pure (hp', c') : PO (Header × Claims)).run o :=
  jwt_front_roundtrip_with (encodeClaims c) parseClaims o cfg hp hp' sk vk d
    hb64 hsign hhdr halg' hallow hconf hfind hpair

open Model.JWTClaims GoatProofs.Lemmas.C10ClaimsRT in
/-- **jwt_sign_parse_roundtrip (assembled; no hypothesis left on the claims step).**
    `jwt.Sign(header, claims, key)` then `Parser.Parse`: the decoded header and EXACTLY the claims
    that were signed come back — iss, sub, aud (0, 1 or n entries), exp / nbf / iat to the nanosecond
    (any instant of the accepted range, fractional and negative included; unset stays unset), jti;
    `Raw` is the decoded claims object, which by C10's `theMap_extra` holds every extra member of
    `c.Raw` unchanged.  The three steps:
    * signature (C02): `hb64`, `hhdr`, `hpair`, `hfind`, `hallow`, `hconf`;
    * claims codec (C10 `claims_roundtrip`, through `C02Time.claims_step`): `hclean` (`Raw` uses no
      registered claim name), `TimeOK` for the three instants, the JSON law on the claims object
      (`hmarshal`, `hdecode`, `hjson`);
    * validation (C04): both verifiers accept the token's own iss/sub/aud, and the clock is inside
      the validity window (`hexp`: now < exp, `hnbf`: ¬ now < nbf, when those claims are set). -/
theorem jwt_sign_parse_roundtrip (o : Oracle) (cfg : Cfg) (hp hp' : Header) (c : Claims)
    (sk vk : Sig.SigningKey) (d : Bytes)
    (hb64 : B64Law o)
    (hsign : (signFull hp c sk).run o = .ok d)
    (hhdr : HeaderRoundTrip o hp hp') (halg' : hp'.alg = hp.alg)
    (hallow : cfg.allows hp.alg = true) (hconf : cfg.configured = true)
    (hfind : Sig.signingKeyOfHandle (o (findKeyQuery hp')) = some (.ok vk))
    (hpair : Sig.SignVerifyPair o sk vk)
    (hclean : RawClean c) (he : TimeOK c.exp) (hn : TimeOK c.nbf) (hi : TimeOK c.iat)
    (payload : Bytes) (kvs' : List (String × Wire))
    (hmarshal : o ⟨"json.marshal", [.obj (theMap c)]⟩ = .bytes payload)
    (hdecode : o ⟨"json.decodeMap", [.bytes payload]⟩ = .obj kvs')
    (hjson : ∀ k, Wire.lookup k kvs' = Wire.lookup k (theMap c))
    (hviss : o ⟨"verifyIssuer", [.str c.iss, .str c.sub]⟩ = .bool true)
    (hvaud : o ⟨"verifyAudience", [.arr (c.aud.map Wire.str)]⟩ = .bool true)
    (hexp : c.exp ≠ NumericDate.zeroTime → (o ⟨"now", []⟩).asInt < c.exp)
    (hnbf : c.nbf ≠ NumericDate.zeroTime → ¬ (o ⟨"now", []⟩).asInt < c.nbf) :
    (parseFull cfg d).run o = .ok (hp', C02Time.back c kvs') :=
  jwt_sign_parse_roundtrip_step o cfg hp hp' c (C02Time.back c kvs') sk vk d hb64 hsign hhdr halg' hallow hconf
    hfind hpair
    (C02Time.claims_step o c hclean he hn hi payload kvs' hmarshal hdecode hjson hviss hvaud hexp hnbf)

open Model.JWTClaims GoatProofs.Lemmas.C10ClaimsRT in
/-- **JWT time claims, every nanosecond** (a reading of `jwt_sign_parse_roundtrip`): the token parses
    and `ExpirationTime`, `NotBefore`, `IssuedAt` are exactly the instants that were signed. -/
theorem jwt_sign_parse_time_claims (o : Oracle) (cfg : Cfg) (hp hp' : Header) (c : Claims)
    (sk vk : Sig.SigningKey) (d : Bytes)
    (hb64 : B64Law o)
    (hsign : (signFull hp c sk).run o = .ok d)
    (hhdr : HeaderRoundTrip o hp hp') (halg' : hp'.alg = hp.alg)
    (hallow : cfg.allows hp.alg = true) (hconf : cfg.configured = true)
    (hfind : Sig.signingKeyOfHandle (o (findKeyQuery hp')) = some (.ok vk))
    (hpair : Sig.SignVerifyPair o sk vk)
    (hclean : RawClean c) (he : TimeOK c.exp) (hn : TimeOK c.nbf) (hi : TimeOK c.iat)
    (payload : Bytes) (kvs' : List (String × Wire))
    (hmarshal : o ⟨"json.marshal", [.obj (theMap c)]⟩ = .bytes payload)
    (hdecode : o ⟨"json.decodeMap", [.bytes payload]⟩ = .obj kvs')
    (hjson : ∀ k, Wire.lookup k kvs' = Wire.lookup k (theMap c))
    (hviss : o ⟨"verifyIssuer", [.str c.iss, .str c.sub]⟩ = .bool true)
    (hvaud : o ⟨"verifyAudience", [.arr (c.aud.map Wire.str)]⟩ = .bool true)
    (hexp : c.exp ≠ NumericDate.zeroTime → (o ⟨"now", []⟩).asInt < c.exp)
    (hnbf : c.nbf ≠ NumericDate.zeroTime → ¬ (o ⟨"now", []⟩).asInt < c.nbf) :
    ∃ c', (parseFull cfg d).run o = .ok (hp', c') ∧ c'.exp = c.exp ∧ c'.nbf = c.nbf ∧ c'.iat = c.iat :=
  ⟨C02Time.back c kvs',
   jwt_sign_parse_roundtrip o cfg hp hp' c sk vk d hb64 hsign hhdr halg' hallow hconf hfind hpair hclean he hn hi
     payload kvs' hmarshal hdecode hjson hviss hvaud hexp hnbf, rfl, rfl, rfl⟩

end Model.JWT

/-! ## time claims of a JWT (exp, nbf, iat): every nanosecond, not only whole seconds

`jwt_sign_parse_front_roundtrip` treats the claims codec as ONE abstract step, so by itself it says
nothing about how a `time.Time` is written.  The codec is property C10's
(`Model.NumericDate` = internal/jsonutils/numeric_date.go, `Model.JWTClaims`); C10's
`numeric_date_roundtrip_integral` is proved for whole seconds only.  For C02 the fractional case
is covered by the two theorems below:

* `numeric_date_text_exact` (∀ instant, ∀ nanosecond): the text `MarshalJSON` emits denotes exactly the
  instant — in particular the leading zeros of the fraction are kept (`0.0625`, never `0.625`);
* `Model.JWT.jwt_sign_parse_time_claims` (below, after the assembled theorem's namespace): through
  `jwt.Sign` → `Parser.Parse` the claims `exp`, `nbf`, `iat` come back as the SAME instants, to the
  nanosecond, for every instant the encoder accepts — a corollary of C10's `numericDate_roundtrip`
  (∀ t in range, decode (encode t) = t; error analysis of the 128-bit big.Float parse), and its
  `claims_roundtrip` (through `C02Time.claims_step`, Lemmas/C02Claims.lean). -/
namespace C02Time
open Model.NumericDate

/-- string-level form: what `NumericDate{t}.MarshalJSON()` returns denotes exactly `t` -/
theorem numeric_date_text_exact (t : Int) (s : String) (h : Model.NumericDate.encode t = .ok s) :
    nanosOfChars s.toList = some t := by
  unfold Model.NumericDate.encode at h
  cases he : encodeChars t with
  | ok cs =>
    rw [he] at h
    simp only [Outcome.bind] at h
    injection h with h
    subst h
    rw [String.toList_ofList]
    exact numericDate_text_exact t cs he
  | err c => rw [he] at h; cases h
  | panic p => rw [he] at h; cases h

/-- the "simplified" printer that trims trailing zeros and prints the rest as an integer loses the
    leading zeros of the fraction: its output for 1700000000.0625 denotes another instant -/
example : nanosOfChars "1700000000.0625".toList = some 1700000000062500000 := by decide
example : nanosOfChars "1700000000.625".toList ≠ some 1700000000062500000 := by decide
example : encodeChars 1700000000062500000 = .ok "1700000000.0625".toList := by rfl
example : encodeChars (-1500000000) = .ok "-1.5".toList := by rfl

/-- a few kernel-evaluated round trips through goat's big.Float decoder (the general statement is
    C10's `numericDate_roundtrip`, used below) -/
example : (encodeChars 1700000000062500000).bind decodeChars = .ok 1700000000062500000 := rfl
example : (encodeChars (-1700000000062500000)).bind decodeChars = .ok (-1700000000062500000) := rfl
example : (encodeChars 253402300799000000001).bind decodeChars = .ok 253402300799000000001 := rfl

end C02Time

/-! ## non-vacuity: the hypotheses of the round-trip theorems are satisfiable -/
namespace C02.Example
open Model.JWS Model.Sig

/-- toy standard library: base64url = identity on the bytes used here (none is '.'), JSON
    marshalling of the header = `01`, decoding `01` = `{"alg":"HS256"}`, every HMAC = `09 09` -/
def toyO : Oracle := fun q =>
  if q.name == "b64url.dec" || q.name == "b64url.enc" then
    (match q.args with | [.bytes b] => .bytes b | _ => .none)
  else if q.name == "c01.json.marshalB" then .bytes [1]
  else if q.name == "json.decodeMap" then .obj [("alg", .str "HS256")]
  else if q.name == "findKey" then C01.Example.toyKey
  else if q.name == "hmac" then .bytes [9, 9]
  else .none

def toyHdr : Header := { alg := "HS256" }
def toySK : SigningKey := .hs .sha256 [7] true true

/-- sign → compact → parse → verify on payload `05 06` returns `05 06` under the toy oracle -/
example : (match (do
      let m0 ← newMessage [5, 6]
      let m1 ← sign m0 (some toyHdr) none toySK
      let d ← compact m1
      let m ← parseCompact d
      verify { allowed := ["HS256"] } m : PO _).run toyO with
    | .ok (some h, none, p) => h.alg == "HS256" && p == [5, 6]
    | _ => false) = true := by decide

/-- b64=false with a '.' in the payload: the serialiser detaches, VerifyContent verifies -/
example : (match (do
      let m1 ← sign (newRawMessage [5, 0x2e, 6]) (some { toyHdr with nb64 := true }) none toySK
      let d ← compact m1
      pure d : PO _).run toyO with
    | .ok d => d == [1, 0x2e, 0x2e, 9, 9]
    | _ => false) = true := by decide

example : SignVerifyPair toyO toySK toySK := hs_pair toyO .sha256 [7] true true

/-- a toy JSON library for the flattened form: the header marshals to `01`, the message object to
    `03`; decoding `03` gives the string view of the object `MarshalJSON` built -/
def toyJ : Oracle := fun q =>
  if q.name == "c01.json.marshalB" then
    (match q.args with
     | [.obj kvs] => if (Wire.lookup "payload" kvs).isSome then .bytes [3] else .bytes [1]
     | _ => .none)
  else if q.name == "json.decodeMap" then
    (match q.args with
     | [.bytes [3]] => .obj [("payload", .str (String.ofList [Char.ofNat 5, Char.ofNat 6])),
                             ("protected", .str (String.ofList [Char.ofNat 1])),
                             ("signature", .str (String.ofList [Char.ofNat 9, Char.ofNat 9]))]
     | _ => .obj [("alg", .str "HS256")])
  else toyO q

/-- sign → MarshalJSON (flattened) → Parse → Verify returns the payload `05 06` -/
example : (match (do
      let m0 ← newMessage [5, 6]
      let m1 ← signAll m0 [{ hp := toyHdr, hdr := none, sk := toySK, hp' := toyHdr, hdr' := none, vk := toySK }]
      let d ← marshalJSON m1
      let m ← parseJSON d
      verify { allowed := ["HS256"] } m : PO _).run toyJ with
    | .ok (some h, none, p) => h.alg == "HS256" && p == [5, 6]
    | _ => false) = true := by decide

end C02.Example
