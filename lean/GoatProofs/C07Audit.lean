import Goat.Model.PanicAudit
/-
C07, part B: the accounting theorems over the REGENERATED site list (`Gen.panicSites`) and the
hand-maintained table (`Model.PanicAudit.accounted`).

  accounting_exact      kernel evaluation (`decide +kernel`, no axiom) of the lockstep comparison:
                        same number of entries, same key and an agreeing guard at every position;
  all_sites_accounted   every syntactic panic-capable site has a disposition — a NEW site introduced
                        by a code change breaks `accounting_exact`, hence this; the check then
                        reports an unaccounted obligation and runs the hostile search;
  no_stale_accounting   every disposition still names an existing site;
  guards_match          for every `guardedBy g` disposition the guard recognised by the extractor in
                        today's source is exactly `g` and is not empty (a removed or edited length
                        check / Available() check / nil check breaks it).

The last three are PROVED from the first by the general lemmas below (they hold for any lists).
These are facts about the source text (a tie), not proofs that the guards work.
-/
namespace C07
open Model.PanicAudit

theorem lookup_isSome_of_mem {k : Nat} {d : Disposition} :
    ∀ {es : List (Nat × Disposition)}, (k, d) ∈ es → (lookup k es).isSome = true
  | [], h => by cases h
  | (k', d') :: es, h => by
    unfold lookup
    by_cases hk : (k == k') = true
    · simp [hk]
    · simp only [hk]
      cases h with
      | head => simp at hk
      | tail _ h' => simpa using lookup_isSome_of_mem h'

theorem lockstep_mem : ∀ {ss : List Gen.PanicSite} {es : List (Nat × Disposition)},
    lockstep ss es = true → ∀ s ∈ ss, ∃ d, (s.keyId, d) ∈ es
  | [], [], _, s, hs => by cases hs
  | [], _ :: _, h, _, _ => by simp [lockstep] at h
  | _ :: _, [], h, _, _ => by simp [lockstep] at h
  | s0 :: ss, (k, d) :: es, h, s, hs => by
    simp only [lockstep, Bool.and_eq_true, beq_iff_eq] at h
    cases hs with
    | head => exact ⟨d, by rw [h.1.1]; exact List.mem_cons_self⟩
    | tail _ h' =>
      obtain ⟨d', hd'⟩ := lockstep_mem h.2 s h'
      exact ⟨d', List.mem_cons_of_mem _ hd'⟩

theorem lockstep_mem' : ∀ {ss : List Gen.PanicSite} {es : List (Nat × Disposition)},
    lockstep ss es = true → ∀ e ∈ es, ∃ s ∈ ss, s.keyId = e.1
  | [], [], _, e, he => by cases he
  | [], _ :: _, h, _, _ => by simp [lockstep] at h
  | _ :: _, [], h, _, _ => by simp [lockstep] at h
  | s0 :: ss, (k, d) :: es, h, e, he => by
    simp only [lockstep, Bool.and_eq_true, beq_iff_eq] at h
    cases he with
    | head => exact ⟨s0, List.mem_cons_self, h.1.1⟩
    | tail _ h' =>
      obtain ⟨s, hs, hk⟩ := lockstep_mem' h.2 e h'
      exact ⟨s, List.mem_cons_of_mem _ hs, hk⟩

theorem lockstep_guard : ∀ {ss : List Gen.PanicSite} {es : List (Nat × Disposition)},
    lockstep ss es = true → ∀ p ∈ List.zip ss es, p.1.keyId = p.2.1 ∧ guardOk p.1 p.2.2 = true
  | [], [], _, p, hp => by cases hp
  | [], _ :: _, h, _, _ => by simp [lockstep] at h
  | _ :: _, [], h, _, _ => by simp [lockstep] at h
  | s0 :: ss, (k, d) :: es, h, p, hp => by
    simp only [lockstep, Bool.and_eq_true, beq_iff_eq] at h
    simp only [List.zip_cons_cons, List.mem_cons] at hp
    cases hp with
    | inl e => subst e; exact ⟨h.1.1, h.1.2⟩
    | inr h' => exact lockstep_guard h.2 p h'

set_option maxRecDepth 1000000 in
/-- the kernel-evaluated comparison of today's site list with the table -/
theorem accounting_exact : lockstep Gen.panicSites accounted = true := by decide +kernel

/-- every panic-capable site found in today's source has a disposition -/
theorem all_sites_accounted :
    Gen.panicSites.all (fun s => (lookup s.keyId accounted).isSome) = true := by
  rw [List.all_eq_true]
  intro s hs
  obtain ⟨d, hd⟩ := lockstep_mem accounting_exact s hs
  exact lookup_isSome_of_mem hd

/-- every disposition names a site that still exists -/
theorem no_stale_accounting :
    accounted.all (fun e => Gen.panicSites.any (fun s => s.keyId == e.1)) = true := by
  rw [List.all_eq_true]
  intro e he
  obtain ⟨s, hs, hk⟩ := lockstep_mem' accounting_exact e he
  rw [List.any_eq_true]
  exact ⟨s, hs, by simp [hk]⟩

/-- every `guardedBy g` entry records exactly the guard recognised in today's source -/
theorem guards_match :
    ∀ p ∈ List.zip Gen.panicSites accounted, p.1.keyId = p.2.1 ∧ guardOk p.1 p.2.2 = true :=
  lockstep_guard accounting_exact

/-- non-vacuity: the site list is not empty and has the advertised size; so has the table -/
theorem sites_nonempty :
    Gen.panicSites.length = Gen.panicSiteCount ∧ accounted.length = Gen.panicSiteCount ∧
      0 < Gen.panicSiteCount := by
  decide +kernel

/-- non-vacuity of `guards_match`: a guard that differs from the recorded one is refused -/
example : guardOk ⟨"k", 1, .slice, "", 0, "f", 1, "e"⟩ (.guardedBy 7 "w") = false := by decide

end C07
