import GoatProofs.C07JWS
/-
C07: re-serialisation of anything parsed, JWS side (model of C01/C02, Goat/Model/JWS.lean):
`Message.Compact`, `Message.MarshalJSON`, `Header.MarshalJSON` (encodeHeader) never panic for every
message / header value, every oracle — in particular messages with zero or many signatures, nil
protected or unprotected headers, headers whose x5c is empty, unencoded payloads that are not UTF-8.
-/
namespace C07
open Model.JWS PO

theorem jws_b64StdEncode_np (s : Bytes) : NoPanic (b64StdEncode s) := by unfold b64StdEncode; nopanic
theorem jws_encodeChain_np : ∀ l, NoPanic (encodeChain l)
  | [] => by unfold encodeChain; nopanic
  | c :: rest => by unfold encodeChain; nopanic using jws_b64StdEncode_np, (jws_encodeChain_np rest)
theorem jws_setBytes_np (n : String) (d : Bytes) (k : KVs) : NoPanic (setBytes n d k) := by
  unfold setBytes; nopanic using b64Encode_np
theorem jws_hashOf_np (n : String) (d : Bytes) : NoPanic (hashOf n d) := by unfold hashOf; nopanic
theorem jws_jsonMarshalB_np (w : Wire) : NoPanic (jsonMarshalB w) := by unfold jsonMarshalB; nopanic

/-- **no_panic_jws_encodeHeader**: `Header.MarshalJSON` of every header value -/
theorem no_panic_jws_encodeHeader (h : Header) : NoPanic (encodeHeader h) := by
  unfold encodeHeader
  nopanic using jws_encodeChain_np, jws_setBytes_np, jws_hashOf_np

/-- **no_panic_jws_compact**: `Message.Compact` (0, 1, many signatures; detached unencoded payload) -/
theorem no_panic_jws_compact (msg : Message) : NoPanic (compact msg) := by
  unfold compact; nopanic

theorem jws_sigObject_np (s : Signature) : NoPanic (sigObject s) := by
  unfold sigObject; nopanic using no_panic_jws_encodeHeader

theorem jws_sigObjects_np : ∀ l, NoPanic (sigObjects l)
  | [] => by unfold sigObjects; nopanic
  | s :: rest => by unfold sigObjects; nopanic using jws_sigObject_np, (jws_sigObjects_np rest)

theorem jws_msgObject_np (msg : Message) : NoPanic (msgObject msg) := by
  unfold msgObject
  nopanic using jws_sigObject_np, jws_sigObjects_np

/-- **no_panic_jws_marshalJSON**: `Message.MarshalJSON` (flattened and general form) -/
theorem no_panic_jws_marshalJSON (msg : Message) : NoPanic (marshalJSON msg) := by
  unfold marshalJSON
  nopanic using jws_msgObject_np, jws_jsonMarshalB_np

/-- parse → re-serialise chains: whatever `parseJSON` / `parseCompact` return can be serialised
    both ways (the theorems above do not even need the message to come from parsing) -/
theorem no_panic_jws_reserialise (msg : Message) :
    NoPanic (compact msg) ∧ NoPanic (marshalJSON msg) :=
  ⟨no_panic_jws_compact msg, no_panic_jws_marshalJSON msg⟩

end C07
