import Goat.Model.JWS
import Goat.Model.JWT
import GoatProofs.Lemmas.C07NoPanic
/-
C07 over the JWS / JWT models of C01/C02 (Goat/Model/JWS.lean, JWT.lean, Sig.lean — read-only here):
parsing (compact and JSON), header decoding, re-serialisation never panic, for every input and every
oracle; verification never panics provided the key finder hands back keys that went through
jwk parsing (non-nil, Ed25519/Ed448 public keys of the right length).
-/
namespace C07
open Model.JWS PO

theorem b64Dec?_np (s : Bytes) : NoPanic (b64Dec? s) := by unfold b64Dec?; nopanic
theorem b64Decode_np (s : Bytes) : NoPanic (b64Decode s) := by
  unfold b64Decode
  nopanic using b64Dec?_np
theorem b64Encode_np (s : Bytes) : NoPanic (b64Encode s) := by unfold b64Encode; nopanic
theorem jsonDecodeMap_np (s : Bytes) : NoPanic (jsonDecodeMap s) := by unfold jsonDecodeMap; nopanic
theorem askOK_np (n : String) (a : List Wire) : NoPanic (askOK n a) := by unfold askOK; nopanic
theorem getString_np (k : KVs) (n : String) : NoPanic (getString k n) := by unfold getString; nopanic
theorem getBoolean_np (k : KVs) (n : String) : NoPanic (getBoolean k n) := by unfold getBoolean; nopanic
theorem getObject_np (k : KVs) (n : String) : NoPanic (getObject k n) := by unfold getObject; nopanic
theorem getStringArray_np (k : KVs) (n : String) : NoPanic (getStringArray k n) := by
  unfold getStringArray; nopanic
theorem getURL_np (k : KVs) (n : String) : NoPanic (getURL k n) := by
  unfold getURL
  nopanic using getString_np, askOK_np
theorem getBytes_np (k : KVs) (n : String) : NoPanic (getBytes k n) := by
  unfold getBytes
  nopanic using getString_np, b64Decode_np

theorem decodeCerts_np : ∀ l, NoPanic (decodeCerts l)
  | [] => by unfold decodeCerts; nopanic
  | s :: rest => by
    unfold decodeCerts
    nopanic using askOK_np, (decodeCerts_np rest)

theorem checkThumb_np (h : String) (c t : Option Bytes) : NoPanic (checkThumb h c t) := by
  unfold checkThumb; nopanic

theorem decodeFields_np (k : KVs) : NoPanic (decodeFields k) := by
  unfold decodeFields
  nopanic using getString_np, getURL_np, getObject_np, askOK_np, getStringArray_np, decodeCerts_np, getBytes_np, checkThumb_np, getBoolean_np

theorem decodeHeader_np (w : Wire) : NoPanic (decodeHeader w) := by
  unfold decodeHeader
  nopanic using decodeFields_np

theorem unmarshalHeader_np (d : Bytes) : NoPanic (unmarshalHeader d) := by
  unfold unmarshalHeader
  nopanic using jsonDecodeMap_np, decodeHeader_np

/-- **no_panic_jws_parse (compact)**: `jws.ParseCompact` on every byte string -/
theorem no_panic_jws_parseCompact (data : Bytes) : NoPanic (parseCompact data) := by
  unfold parseCompact
  nopanic using b64Decode_np, unmarshalHeader_np

theorem parseSig_np (i : Nat) (nb : Bool) (w : Wire) : NoPanic (parseSig i nb w) := by
  unfold parseSig
  nopanic using b64Decode_np, unmarshalHeader_np, decodeHeader_np

theorem parseSigs_np : ∀ (l : List Wire) (i : Nat) (nb : Bool), NoPanic (parseSigs i nb l)
  | [], i, nb => by unfold parseSigs; nopanic
  | w :: rest, i, nb => by
    unfold parseSigs
    nopanic using parseSig_np, (parseSigs_np rest)

/-- **no_panic_jws_parse (JSON)**: `jws.Parse` / `Message.UnmarshalJSON` on every byte string:
    ill-typed, null, missing and duplicate members, empty and ill-typed `signatures`, headers only
    in unprotected position -/
theorem no_panic_jws_parseJSON (data : Bytes) : NoPanic (parseJSON data) := by
  unfold parseJSON
  nopanic using jsonDecodeMap_np, parseSigs_np

/-! ### verification -/

/-- what the key finder must hand back for `verify` to be panic-free: a key produced by
    `alg.NewSigningKey(k)` for a NON-NIL k whose EdDSA public key has the length jwk parsing enforces.
    (jws.JWKKeyFinder / jwt.JWKKeyFiner with a parsed *jwk.Key satisfy this: `parseEd25519Key` and
    `parseEd448Key` reject any other length — tied in PanicAudit at jwa_eddsa.*.Verify#keyLen.) -/
def GoodSigningKey : Model.Sig.SigningKey → Prop
  | .ed25519 _ pub _ _ => pub.length = 32
  | .ed448 _ pub _ _ => pub.length = 57
  | _ => True

def GoodHandle (w : Wire) : Prop :=
  match Model.Sig.signingKeyOfHandle w with
  | none => True
  | some (.ok sk) => GoodSigningKey sk
  | some (.err _) => True
  | some (.panic _) => False

theorem askBytes_np (n : String) (a : List Wire) : NoPanic (Model.Sig.askBytes n a) := by
  unfold Model.Sig.askBytes; nopanic
theorem askBool_np (n : String) (a : List Wire) : NoPanic (Model.Sig.askBool n a) := by
  unfold Model.Sig.askBool; nopanic

theorem verifyKey_np (sk : Model.Sig.SigningKey) (h : GoodSigningKey sk) (p s : Bytes) :
    NoPanic (Model.Sig.verifyKey sk p s) := by
  cases sk with
  | ed25519 pr pub cs cv =>
    simp only [GoodSigningKey] at h
    unfold Model.Sig.verifyKey
    simp only []
    have hne : ¬ (pub.length != 32) = true := by simp [h]
    rw [if_neg hne]
    nopanic using askBool_np
  | ed448 pr pub cs cv =>
    simp only [GoodSigningKey] at h
    unfold Model.Sig.verifyKey
    simp only []
    have hne : ¬ (pub.length != 57) = true := by simp [h]
    rw [if_neg hne]
    nopanic using askBool_np
  | invalid => unfold Model.Sig.verifyKey; nopanic
  | errKey => unfold Model.Sig.verifyKey; nopanic
  | hs _ _ _ _ => unfold Model.Sig.verifyKey; simp only []; nopanic using askBytes_np
  | rsa _ _ _ _ _ _ _ => unfold Model.Sig.verifyKey; simp only []; nopanic using askBytes_np, askBool_np
  | es _ _ _ _ _ _ => unfold Model.Sig.verifyKey; simp only []; nopanic using askBytes_np, askBool_np
  | none => unfold Model.Sig.verifyKey; simp only []; nopanic

/-- one signature: panic-free when the finder's answer for it is a good handle -/
theorem trySig_run (o : Oracle) (cfg : Cfg) (sc : Bytes) (s : Signature)
    (hg : GoodHandle (o ⟨(findKeyQuery s).name, (findKeyQuery s).args⟩)) (t : String) :
    PO.run o (trySig cfg sc s) ≠ .panic t := by
  unfold trySig
  split
  · simp
  · split
    · simp
    · simp only [PO.run_bind, PO.run_query]
      unfold GoodHandle at hg
      split
      · simp
      · rename_i site heq; rw [heq] at hg; exact absurd hg (by simp)
      · simp
      · rename_i sk heq
        rw [heq] at hg
        simp only [PO.run_bind, PO.run_attempt]
        have hv := (NoPanic.unfold.mp (verifyKey_np sk hg (signingInput s sc) s.signature)) o
        cases hr : PO.run o (Model.Sig.verifyKey sk (signingInput s sc) s.signature) with
        | ok u => simp
        | err c => simp
        | panic p => exact absurd hr (hv p)

/-- **no_panic_jws_verify**: `Verifier.Verify` on every parsed message, every policy, every oracle
    whose key-finder answers are good handles -/
theorem verifyLoop_run (o : Oracle) (cfg : Cfg) (rc sc : Bytes)
    (hg : ∀ q : Query, q.name = "findKey" → GoodHandle (o q)) :
    ∀ (l : List Signature) (t : String), PO.run o (verifyLoop cfg rc sc l) ≠ .panic t
  | [], t => by unfold verifyLoop; simp
  | s :: rest, t => by
    unfold verifyLoop
    simp only [PO.run_bind]
    have h1 := trySig_run o cfg sc s (hg _ rfl)
    cases hr : PO.run o (trySig cfg sc s) with
    | ok b =>
      simp only
      cases b
      · simpa using verifyLoop_run o cfg rc sc hg rest t
      · simp
    | err c => simp
    | panic p => exact absurd hr (h1 p)

theorem no_panic_jws_verify (o : Oracle) (cfg : Cfg) (msg : Message)
    (hg : ∀ q : Query, q.name = "findKey" → GoodHandle (o q)) (t : String) :
    PO.run o (verify cfg msg) ≠ .panic t := by
  unfold verify
  split
  · simp
  · split
    · simp only [PO.run_bind]
      have := (NoPanic.unfold.mp (b64Dec?_np msg.payload)) o
      cases hr : PO.run o (b64Dec? msg.payload) with
      | ok r =>
        cases r with
        | none => simp
        | some c => simpa using verifyLoop_run o cfg c msg.payload hg msg.signatures t
      | err c => simp
      | panic p => exact absurd hr (this p)
    · exact verifyLoop_run o cfg _ _ hg _ t

theorem no_panic_jws_verifyContent (o : Oracle) (cfg : Cfg) (msg : Message) (content : Bytes)
    (hg : ∀ q : Query, q.name = "findKey" → GoodHandle (o q)) (t : String) :
    PO.run o (verifyContent cfg msg content) ≠ .panic t := by
  unfold verifyContent
  split
  · simp
  · split
    · simp only [PO.run_bind]
      have := (NoPanic.unfold.mp (b64Encode_np content)) o
      cases hr : PO.run o (b64Encode content) with
      | ok r => simpa using verifyLoop_run o cfg content r hg msg.signatures t
      | err c => simp
      | panic p => exact absurd hr (this p)
    · exact verifyLoop_run o cfg _ _ hg _ t

/-- the hypothesis is needed and is exactly the old crash class: a finder that applies an
    algorithm to the NIL key interface panics (`key.PrivateKey()` on nil) -/
example : Model.Sig.newSigningKey (.hs .sha256 false) { isNil := true } = .panic "sig.NewSigningKey.nilkey" := rfl

end C07
