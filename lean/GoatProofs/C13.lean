import GoatProofs.Lemmas.C13Group
/-
C13 — Ed448 signing and verification are exactly RFC 8032 Ed448.
-/
namespace C13
open Model.Ed448 Spec.Edwards448 C16Pt
set_option exponentiation.threshold 1000
set_option maxRecDepth 100000

/-- STRICT public keys: if `Verify` accepts, the public key is the canonical RFC 8032 encoding of
    a curve point — an encoding with y ≥ p, with stray bits in octet 56, or of x = 0 with the sign
    bit set is rejected whatever the message, the signature and the hash function are. -/
theorem verify_strict_pk (hp : Nat.Prime q) (o : Oracle) (pk msg sig : Bytes)
    (h : (verify leanOps pk msg sig).run o = .ok true) :
    ∃ a, OnCurve a ∧ pk = Spec.RFC8032.encodePoint a := by
  unfold verify at h
  split at h
  · simp at h
  split at h
  · simp at h
  rw [PO.run_bind, PO.run_attempt] at h
  simp only at h
  cases hs : (leanOps.pointSetBytes pk).run o with
  | panic s => rw [hs] at h; simp at h
  | err e => rw [hs] at h; simp at h
  | ok pA =>
    have hs' : Model.Ed448Pt.setBytes (toInts pk) = .ok pA := by
      simpa [leanOps] using hs
    obtain ⟨a, ha, henc, _⟩ := setBytes_sound hp (toInts pk) (intsOf_allIn pk) pA hs'
    exact ⟨a, ha, intsOf_inj henc⟩

/-! ## key generation and signing -/

theorem run_orPanic_ok {α} (o : Oracle) (site : String) (p : PO α) (a : α) (h : p.run o = .ok a) :
    (orPanic site p).run o = .ok a := by
  unfold orPanic
  rw [PO.run_bind, PO.run_attempt, h]
  rfl

/-- the digest of an oracle query, as both the model and the spec see it -/
def xof (o : Oracle) (x : Bytes) : Bytes := fixLen 114 (o ⟨"shake256", [.bytes x, .int 114]⟩).asBytes

theorem run_shake (o : Oracle) (x : Bytes) : (shake x 114).run o = .ok (xof o x) := by
  unfold shake xof
  rw [PO.run_bind, PO.run_query]
  rfl

theorem xof_length (o : Oracle) (x : Bytes) : (xof o x).length = 114 := fixLen_length _ _

/-- value < 2^447 on 56 octets: the top octet is below 0x80 (no `signedRadix16` panic) -/
theorem top_lt (s : Bytes) (hl : s.length = 56) (hv : Bytes.decodeLE s < 2 ^ 447) : (s.getD 55 0).toNat < 0x80 := by
  have e : s = s.take 55 ++ [s.getD 55 0] := by
    conv_lhs => rw [← List.take_append_drop 55 s]
    congr 1
    have hd : (s.drop 55).length = 1 := by simp [hl]
    match hdd : s.drop 55, hd with
    | [u], _ =>
      have := List.getElem?_drop (xs := s) (i := 55) (j := 0)
      rw [hdd] at this; simp at this
      rw [List.getD_eq_getElem?_getD, ← this]; rfl
  have tl : (toInts (s.take 55)).length = 55 := by rw [toInts_length, List.length_take]; omega
  have hz : ((Bytes.decodeLE s : ℕ) : ℤ) =
      Model.Sc448.evalLE (toInts (s.take 55)) + 256 ^ 55 * ((s.getD 55 0).toNat : ℤ) := by
    conv_lhs => rw [e]
    rw [decodeLE_eq]
    have : toInts (s.take 55 ++ [s.getD 55 0]) = toInts (s.take 55) ++ [((s.getD 55 0).toNat : ℤ)] := by
      simp [toInts]
    rw [this, evalLE_append, tl]
    simp [Model.Sc448.evalLE]
  have h0 : 0 ≤ Model.Sc448.evalLE (toInts (s.take 55)) := by
    rw [evalLE_eq_evalBytes]; exact evalBytes_nonneg _ (toInts_allIn _)
  have hv' : ((Bytes.decodeLE s : ℕ) : ℤ) < 2 ^ 447 := by exact_mod_cast hv
  generalize Model.Sc448.evalLE (toInts (s.take 55)) = a at hz h0
  generalize hc : (s.getD 55 0).toNat = c at hz
  have : (256 : ℤ) ^ 55 = 2 ^ 440 := by norm_num
  rw [this] at hz
  omega

/-- the scalar of `SetBytesWithClamping(h[:57])`: 56 octets with value `secretScalar h mod L` -/
theorem clamp_run (o : Oracle) (h : Bytes) (hl : h.length = 114) :
    ∃ s, (leanOps.setBytesWithClamping (h.take 57)).run o = .ok s ∧ s.length = 56 ∧
      Bytes.decodeLE s = Spec.RFC8032.secretScalar h % L := by
  have h57 : (toInts (h.take 57)).length = 57 := by rw [toInts_length, List.length_take]; omega
  obtain ⟨r, e, hr, hv⟩ := C16Sc.setBytesWithClamping_spec _ h57 (toInts_allIn _)
  refine ⟨ofInts r, ?_, by rw [ofInts_length, hr.1], ?_⟩
  · show (optPO _ ((Model.Sc448.setBytesWithClamping (toInts (h.take 57))).map ofInts)).run o = _
    rw [e]; rfl
  · have := decodeLE_eq (ofInts r)
    rw [toInts_ofInts r hr.2, hv, ← prune_eq_clamp h (by omega)] at this
    have hL : C16Sc.L448 = ((L : ℕ) : ℤ) := by decide +kernel
    rw [hL] at this
    exact_mod_cast this

/-- `ScalarBaseMult(s).Bytes()` for a reduced scalar: the RFC encoding of [s]B -/
theorem baseMultBytes_run (hp : Nat.Prime q) (E : EdwardsGroup) (o : Oracle) (s : Bytes) (hl : s.length = 56)
    (hv : Bytes.decodeLE s < 2 ^ 447) :
    ∃ R, (leanOps.scalarBaseMult s).run o = .ok R ∧
      (leanOps.pointBytes R).run o = .ok (Spec.RFC8032.encodePoint (EdwardsGroup.val (Bytes.decodeLE s • E.B))) := by
  obtain ⟨R, e, hR⟩ := scalarBaseMult_correct E hp s hl (top_lt s hl hv)
  refine ⟨R, by show (PO.ofOutcome _).run o = _; rw [PO.run_ofOutcome, e], ?_⟩
  have hR' : PRep R (EdwardsGroup.val (Bytes.decodeLE s • E.B)) := by
    have : ((Bytes.decodeLE s : ℕ) : ℤ) • E.B = Bytes.decodeLE s • E.B := natCast_zsmul _ _
    rw [← this]; exact hR
  show (PO.ofOutcome ((Model.Ed448Pt.bytesG R).bind fun l => .ok (ofInts l))).run o = _
  rw [PO.run_ofOutcome]
  unfold Model.Ed448Pt.bytesG Model.Ed448Pt.guard1
  rw [if_pos (initialized_of_prep hp hR' (EdwardsGroup.on _)), bytes_canonical hp hR' (EdwardsGroup.on _)]
  show Outcome.ok (ofInts (intsOf _)) = _
  rw [← toInts_eq_intsOf, ofInts_toInts]

theorem L_lt : L < 2 ^ 447 := by decide +kernel

/-- KEY GENERATION: for every 57-octet seed and every hash oracle, `NewKeyFromSeed` returns
    seed ‖ A with A exactly the RFC 8032 §5.2.5 public key.
    Hypotheses: p prime, `EdwardsGroup`, and L·B = 0 (goat reduces the secret scalar mod L). -/
theorem keygen_eq_spec (hp : Nat.Prime q) (E : EdwardsGroup) (hLB : L • E.B = 0) (o : Oracle) (seed : Bytes)
    (hs : seed.length = 57) :
    ∃ pub, (Spec.RFC8032.publicKey seed).run o = .ok pub ∧
      (newKeyFromSeed leanOps seed).run o = .ok (seed ++ pub) := by
  refine ⟨Spec.RFC8032.encodePoint (Spec.Edwards448.smul (Spec.RFC8032.secretScalar (xof o seed)) Spec.Edwards448.B), ?_, ?_⟩
  · unfold Spec.RFC8032.publicKey
    rw [PO.run_bind, ← shake_eq, run_shake]; rfl
  · obtain ⟨s, es, sl, sv⟩ := clamp_run o (xof o seed) (xof_length o seed)
    have hsv : Bytes.decodeLE s < 2 ^ 447 := by
      rw [sv]; exact lt_trans (Nat.mod_lt _ (by decide +kernel)) L_lt
    obtain ⟨R, eR, eB⟩ := baseMultBytes_run hp E o s sl hsv
    unfold newKeyFromSeed
    rw [if_neg (by rw [hs]; decide)]
    rw [PO.run_bind, run_shake]
    simp only
    rw [PO.run_bind, run_orPanic_ok o _ _ s es]
    simp only
    rw [PO.run_bind, eR]
    simp only
    rw [PO.run_bind, eB]
    simp only
    rw [sv, smul_mod E E.B L hLB, ← smul_B_eq]
    rfl

theorem uniform_run (o : Oracle) (md : Bytes) (hl : md.length = 114) :
    ∃ r, (leanOps.setUniformBytes md).run o = .ok r ∧ r.length = 56 ∧
      Bytes.decodeLE r = Bytes.decodeLE md % L := by
  obtain ⟨r, e, hr, hv⟩ := C16Sc.setUniformBytes_spec (toInts md) (by rw [toInts_length, hl]) (toInts_allIn _)
  refine ⟨ofInts r, ?_, by rw [ofInts_length, hr.1], ?_⟩
  · show (optPO _ ((Model.Sc448.setUniformBytes (toInts md)).map ofInts)).run o = _
    rw [e]; rfl
  · have := decodeLE_eq (ofInts r)
    rw [toInts_ofInts r hr.2, hv, ← decodeLE_eq] at this
    have hL : C16Sc.L448 = ((L : ℕ) : ℤ) := by decide +kernel
    rw [hL] at this
    exact_mod_cast this

theorem mulAdd_run (o : Oracle) (k s r : Bytes) (hk : k.length = 56) (hs : s.length = 56) (hr : r.length = 56) :
    ∃ x, (leanOps.mulAdd k s r).run o = .ok x ∧ x.length = 56 ∧
      Bytes.decodeLE x = (Bytes.decodeLE k * Bytes.decodeLE s + Bytes.decodeLE r) % L := by
  obtain ⟨h1, h2, h3⟩ := C16Sc.mulAdd_spec (toInts k) (toInts s) (toInts r) (by rw [toInts_length, hk]) (toInts_allIn _)
    (by rw [toInts_length, hs]) (toInts_allIn _) (by rw [toInts_length, hr]) (toInts_allIn _)
  refine ⟨ofInts (Model.Sc448.mulAdd (toInts k) (toInts s) (toInts r)), rfl, by rw [ofInts_length, h1], ?_⟩
  have := decodeLE_eq (ofInts (Model.Sc448.mulAdd (toInts k) (toInts s) (toInts r)))
  rw [toInts_ofInts _ h2, h3, ← decodeLE_eq, ← decodeLE_eq, ← decodeLE_eq] at this
  have hL : C16Sc.L448 = ((L : ℕ) : ℤ) := by decide +kernel
  rw [hL] at this
  exact_mod_cast this

theorem encodePoint_length (a : AffinePoint) : (Spec.RFC8032.encodePoint a).length = 57 := by
  have := (intsOf_encodeLE 57 (a.y.toNat + 2 ^ 455 * (a.x % 2).toNat)).1
  unfold intsOf at this
  simpa [Spec.RFC8032.encodePoint] using this

theorem fixLen_self (n : Nat) (b : Bytes) (h : b.length = n) : fixLen n b = b := by
  unfold fixLen
  rw [List.take_append_of_le_length (by omega), List.take_of_length_le (by omega)]

/-- a 56-octet scalar followed by a zero octet is the 57-octet little-endian encoding of its value -/
theorem scalar57 (x : Bytes) (hl : x.length = 56) : x ++ [0] = Spec.RFC8032.encodeScalar (Bytes.decodeLE x) := by
  apply intsOf_inj
  obtain ⟨l57, v57⟩ := intsOf_encodeLE 57 (Bytes.decodeLE x)
  have hx := decodeLE_eq x
  have hb : Model.Fe448.evalBytes (intsOf x) < 256 ^ 56 := by
    have := (Glue.evalR_bounds 8 255 (by decide) (intsOf x) (intsOf_allIn x)).2
    rw [← C17.evalBytes_eq] at this
    have hl' : (intsOf x).length = 56 := by unfold intsOf; simp [hl]
    rw [hl'] at this
    have g : Glue.geom 8 56 = (256 ^ 56 - 1) / 255 := by decide +kernel
    rw [g] at this
    omega
  apply evalBytes_inj
  · unfold Spec.RFC8032.encodeScalar; rw [l57]; unfold intsOf; simp [hl]
  · exact intsOf_allIn _
  · exact intsOf_allIn _
  · unfold Spec.RFC8032.encodeScalar
    rw [v57]
    have e1 : intsOf (x ++ [0]) = intsOf x ++ [0] := by unfold intsOf; simp
    rw [e1, evalBytes_append]
    simp only [Model.Fe448.evalBytes]
    rw [toInts_eq_intsOf, evalLE_eq_evalBytes] at hx
    have : Bytes.decodeLE x % 256 ^ 57 = Bytes.decodeLE x := by
      apply Nat.mod_eq_of_lt
      have : ((Bytes.decodeLE x : ℕ) : ℤ) < 256 ^ 56 := by rw [hx]; exact hb
      have : Bytes.decodeLE x < 256 ^ 56 := by exact_mod_cast this
      omega
    rw [this, hx]; ring

/-- SIGNING: for every 57-octet seed, every message and every hash oracle, `Sign` on the private
    key seed ‖ A (A the RFC public key of the seed) returns exactly the deterministic RFC 8032
    §5.2.6 signature (context empty, no prehash: dom4(0, "")).
    Hypotheses: p prime and `EdwardsGroup`. -/
theorem sign_eq_spec (hp : Nat.Prime q) (E : EdwardsGroup) (o : Oracle) (seed msg pub : Bytes)
    (hs : seed.length = 57) (hpub : (Spec.RFC8032.publicKey seed).run o = .ok pub) :
    (sign leanOps (seed ++ pub) msg).run o = (Spec.RFC8032.sign seed msg []).run o := by
  have hpub' : pub = Spec.RFC8032.encodePoint (Spec.Edwards448.smul (Spec.RFC8032.secretScalar (xof o seed)) Spec.Edwards448.B) := by
    unfold Spec.RFC8032.publicKey at hpub
    rw [PO.run_bind, ← shake_eq, run_shake] at hpub
    exact (Outcome.ok.inj hpub).symm
  -- the spec side
  have espec : (Spec.RFC8032.sign seed msg []).run o = .ok
      (let h := xof o seed
       let s := Spec.RFC8032.secretScalar h
       let r := Bytes.decodeLE (xof o (sigEd448 ++ h.drop 57 ++ msg))
       let rEnc := Spec.RFC8032.encodePoint (Spec.Edwards448.smul (r % L) Spec.Edwards448.B)
       let k := Bytes.decodeLE (xof o (sigEd448 ++ rEnc ++ pub ++ msg))
       rEnc ++ Spec.RFC8032.encodeScalar ((r + k * s) % L)) := by
    unfold Spec.RFC8032.sign
    rw [PO.run_bind, ← shake_eq, run_shake]
    simp only
    rw [PO.run_bind, ← shake_eq, ← sigEd448_eq, run_shake]
    simp only
    rw [PO.run_bind, ← shake_eq, run_shake, ← hpub']
    rfl
  rw [espec]
  -- the model side
  set h := xof o seed with hh
  obtain ⟨s, es, sl, sv⟩ := clamp_run o h (xof_length o seed)
  set md := xof o (sigEd448 ++ h.drop 57 ++ msg) with hmd
  obtain ⟨r, er, rl, rv⟩ := uniform_run o md (xof_length o _)
  have hrv : Bytes.decodeLE r < 2 ^ 447 := by
    rw [rv]; exact lt_trans (Nat.mod_lt _ (by decide +kernel)) L_lt
  obtain ⟨R, eR, eB⟩ := baseMultBytes_run hp E o r rl hrv
  rw [rv, ← smul_B_eq] at eB
  set rEnc := Spec.RFC8032.encodePoint (Spec.Edwards448.smul (Bytes.decodeLE md % L) Spec.Edwards448.B) with hrEnc
  set hd := xof o (sigEd448 ++ rEnc ++ pub ++ msg) with hhd
  obtain ⟨k, ek, kl, kv⟩ := uniform_run o hd (xof_length o _)
  obtain ⟨x, ex, xl, xv⟩ := mulAdd_run o k s r kl sl rl
  have htake : (seed ++ pub).take Gen.Ed448Pt.SeedSize = seed := by
    show (seed ++ pub).take 57 = seed
    rw [List.take_left' hs]
  have hdrop : (seed ++ pub).drop Gen.Ed448Pt.SeedSize = pub := by
    show (seed ++ pub).drop 57 = pub
    rw [List.drop_left' hs]
  unfold sign
  rw [if_neg (by rw [List.length_append, hs]; show ¬ (57 + pub.length < 57); omega)]
  simp only [htake, hdrop]
  rw [PO.run_bind, run_shake]
  simp only
  rw [PO.run_bind, run_orPanic_ok o _ _ s es]
  simp only
  rw [PO.run_bind, run_shake]
  simp only
  rw [PO.run_bind, run_orPanic_ok o _ _ r er]
  simp only
  rw [PO.run_bind, eR]
  simp only
  rw [PO.run_bind, eB]
  simp only
  rw [PO.run_bind, run_shake]
  simp only
  rw [PO.run_bind, run_orPanic_ok o _ _ k ek]
  simp only
  rw [PO.run_bind, ex]
  simp only
  rw [PO.run_bind, eB]
  simp only
  show Outcome.ok _ = Outcome.ok _
  congr 1
  rw [fixLen_self 57 _ (encodePoint_length _), fixLen_self 56 x xl, List.append_assoc, scalar57 x xl]
  congr 2
  rw [xv, kv, sv, rv]
  show (Bytes.decodeLE hd % L * (Spec.RFC8032.secretScalar h % L) + Bytes.decodeLE md % L) % L =
    (Bytes.decodeLE md + Bytes.decodeLE hd * Spec.RFC8032.secretScalar h) % L
  rw [Nat.add_comm, Nat.add_mod, Nat.mul_mod, Nat.mod_mod, Nat.mod_mod, Nat.mod_mod, ← Nat.mul_mod, ← Nat.add_mod]

end C13
