import GoatProofs.Lemmas.C13Decode
import GoatProofs.Lemmas.C13OrderB
import Goat.Gen.Ed448Facts
/-
C13 — Ed448 signing and verification are exactly RFC 8032 Ed448.
-/
namespace C13
open Model.Ed448 Spec.Edwards448 C16Pt
set_option exponentiation.threshold 1000
set_option maxRecDepth 100000

/-- STRICT public keys: if `Verify` accepts, the public key is the canonical RFC 8032 encoding of
    a curve point — an encoding with y ≥ p, with stray bits in octet 56, or of x = 0 with the sign
    bit set is rejected whatever the message, the signature and the hash function are. -/
theorem verify_strict_pk (hp : Nat.Prime q) (o : Oracle) (pk msg sig : Bytes)
    (h : (verify leanOps pk msg sig).run o = .ok true) :
    ∃ a, OnCurve a ∧ pk = Spec.RFC8032.encodePoint a := by
  unfold verify at h
  split at h
  · simp at h
  split at h
  · simp at h
  rw [PO.run_bind, PO.run_attempt] at h
  simp only at h
  cases hs : (leanOps.pointSetBytes pk).run o with
  | panic s => rw [hs] at h; simp at h
  | err e => rw [hs] at h; simp at h
  | ok pA =>
    have hs' : Model.Ed448Pt.setBytes (toInts pk) = .ok pA := by
      simpa [leanOps] using hs
    obtain ⟨a, ha, henc, _⟩ := setBytes_sound hp (toInts pk) (intsOf_allIn pk) pA hs'
    exact ⟨a, ha, intsOf_inj henc⟩

/-! ## key generation and signing -/

theorem run_orPanic_ok {α} (o : Oracle) (site : String) (p : PO α) (a : α) (h : p.run o = .ok a) :
    (orPanic site p).run o = .ok a := by
  unfold orPanic
  rw [PO.run_bind, PO.run_attempt, h]
  rfl

/-- the digest of an oracle query, as both the model and the spec see it -/
def xof (o : Oracle) (x : Bytes) : Bytes := fixLen 114 (o ⟨"shake256", [.bytes x, .int 114]⟩).asBytes

theorem run_shake (o : Oracle) (x : Bytes) : (shake x 114).run o = .ok (xof o x) := by
  unfold shake xof
  rw [PO.run_bind, PO.run_query]
  rfl

theorem xof_length (o : Oracle) (x : Bytes) : (xof o x).length = 114 := fixLen_length _ _

/-- value < 2^447 on 56 octets: the top octet is below 0x80 (no `signedRadix16` panic) -/
theorem top_lt (s : Bytes) (hl : s.length = 56) (hv : Bytes.decodeLE s < 2 ^ 447) : (s.getD 55 0).toNat < 0x80 := by
  have e : s = s.take 55 ++ [s.getD 55 0] := by
    conv_lhs => rw [← List.take_append_drop 55 s]
    congr 1
    have hd : (s.drop 55).length = 1 := by simp [hl]
    match hdd : s.drop 55, hd with
    | [u], _ =>
      have := List.getElem?_drop (xs := s) (i := 55) (j := 0)
      rw [hdd] at this; simp at this
      rw [List.getD_eq_getElem?_getD, ← this]; rfl
  have tl : (toInts (s.take 55)).length = 55 := by rw [toInts_length, List.length_take]; omega
  have hz : ((Bytes.decodeLE s : ℕ) : ℤ) =
      Model.Sc448.evalLE (toInts (s.take 55)) + 256 ^ 55 * ((s.getD 55 0).toNat : ℤ) := by
    conv_lhs => rw [e]
    rw [decodeLE_eq]
    have : toInts (s.take 55 ++ [s.getD 55 0]) = toInts (s.take 55) ++ [((s.getD 55 0).toNat : ℤ)] := by
      simp [toInts]
    rw [this, evalLE_append, tl]
    simp [Model.Sc448.evalLE]
  have h0 : 0 ≤ Model.Sc448.evalLE (toInts (s.take 55)) := by
    rw [evalLE_eq_evalBytes]; exact evalBytes_nonneg _ (toInts_allIn _)
  have hv' : ((Bytes.decodeLE s : ℕ) : ℤ) < 2 ^ 447 := by exact_mod_cast hv
  generalize Model.Sc448.evalLE (toInts (s.take 55)) = a at hz h0
  generalize hc : (s.getD 55 0).toNat = c at hz
  have : (256 : ℤ) ^ 55 = 2 ^ 440 := by norm_num
  rw [this] at hz
  omega

/-- the scalar of `SetBytesWithClamping(h[:57])`: 56 octets with value `secretScalar h mod L` -/
theorem clamp_run (o : Oracle) (h : Bytes) (hl : h.length = 114) :
    ∃ s, (leanOps.setBytesWithClamping (h.take 57)).run o = .ok s ∧ s.length = 56 ∧
      Bytes.decodeLE s = Spec.RFC8032.secretScalar h % L := by
  have h57 : (toInts (h.take 57)).length = 57 := by rw [toInts_length, List.length_take]; omega
  obtain ⟨r, e, hr, hv⟩ := C16Sc.setBytesWithClamping_spec _ h57 (toInts_allIn _)
  refine ⟨ofInts r, ?_, by rw [ofInts_length, hr.1], ?_⟩
  · show (optPO _ ((Model.Sc448.setBytesWithClamping (toInts (h.take 57))).map ofInts)).run o = _
    rw [e]; rfl
  · have := decodeLE_eq (ofInts r)
    rw [toInts_ofInts r hr.2, hv, ← prune_eq_clamp h (by omega)] at this
    have hL : C16Sc.L448 = ((L : ℕ) : ℤ) := by decide +kernel
    rw [hL] at this
    exact_mod_cast this

/-- `ScalarBaseMult(s).Bytes()` for a reduced scalar: the RFC encoding of [s]B -/
theorem baseMultBytes_run (hp : Nat.Prime q) (E : EdwardsGroup) (o : Oracle) (s : Bytes) (hl : s.length = 56)
    (hv : Bytes.decodeLE s < 2 ^ 447) :
    ∃ R, (leanOps.scalarBaseMult s).run o = .ok R ∧
      (leanOps.pointBytes R).run o = .ok (Spec.RFC8032.encodePoint (EdwardsGroup.val (Bytes.decodeLE s • E.B))) := by
  obtain ⟨R, e, hR⟩ := scalarBaseMult_correct E hp s hl (top_lt s hl hv)
  refine ⟨R, by show (PO.ofOutcome _).run o = _; rw [PO.run_ofOutcome, e], ?_⟩
  have hR' : PRep R (EdwardsGroup.val (Bytes.decodeLE s • E.B)) := by
    have : ((Bytes.decodeLE s : ℕ) : ℤ) • E.B = Bytes.decodeLE s • E.B := natCast_zsmul _ _
    rw [← this]; exact hR
  show (PO.ofOutcome ((Model.Ed448Pt.bytesG R).bind fun l => .ok (ofInts l))).run o = _
  rw [PO.run_ofOutcome]
  unfold Model.Ed448Pt.bytesG Model.Ed448Pt.guard1
  rw [if_pos (initialized_of_prep hp hR' (EdwardsGroup.on _)), bytes_canonical hp hR' (EdwardsGroup.on _)]
  show Outcome.ok (ofInts (intsOf _)) = _
  rw [← toInts_eq_intsOf, ofInts_toInts]

theorem L_lt : L < 2 ^ 447 := by decide +kernel

/-- KEY GENERATION: for every 57-octet seed and every hash oracle, `NewKeyFromSeed` returns
    seed ‖ A with A exactly the RFC 8032 §5.2.5 public key.
    Hypotheses: p prime, `EdwardsGroup`, and L·B = 0 (goat reduces the secret scalar mod L). -/
theorem keygen_eq_spec (hp : Nat.Prime q) (E : EdwardsGroup) (hLB : L • E.B = 0) (o : Oracle) (seed : Bytes)
    (hs : seed.length = 57) :
    ∃ pub, (Spec.RFC8032.publicKey seed).run o = .ok pub ∧
      (newKeyFromSeed leanOps seed).run o = .ok (seed ++ pub) := by
  refine ⟨Spec.RFC8032.encodePoint (Spec.Edwards448.smul (Spec.RFC8032.secretScalar (xof o seed)) Spec.Edwards448.B), ?_, ?_⟩
  · unfold Spec.RFC8032.publicKey
    rw [PO.run_bind, ← shake_eq, run_shake]; rfl
  · obtain ⟨s, es, sl, sv⟩ := clamp_run o (xof o seed) (xof_length o seed)
    have hsv : Bytes.decodeLE s < 2 ^ 447 := by
      rw [sv]; exact lt_trans (Nat.mod_lt _ (by decide +kernel)) L_lt
    obtain ⟨R, eR, eB⟩ := baseMultBytes_run hp E o s sl hsv
    unfold newKeyFromSeed
    rw [if_neg (by rw [hs]; decide)]
    rw [PO.run_bind, run_shake]
    simp only
    rw [PO.run_bind, run_orPanic_ok o _ _ s es]
    simp only
    rw [PO.run_bind, eR]
    simp only
    rw [PO.run_bind, eB]
    simp only
    rw [sv, smul_mod E E.B L hLB, ← smul_B_eq]
    rfl

theorem uniform_run (o : Oracle) (md : Bytes) (hl : md.length = 114) :
    ∃ r, (leanOps.setUniformBytes md).run o = .ok r ∧ r.length = 56 ∧
      Bytes.decodeLE r = Bytes.decodeLE md % L := by
  obtain ⟨r, e, hr, hv⟩ := C16Sc.setUniformBytes_spec (toInts md) (by rw [toInts_length, hl]) (toInts_allIn _)
  refine ⟨ofInts r, ?_, by rw [ofInts_length, hr.1], ?_⟩
  · show (optPO _ ((Model.Sc448.setUniformBytes (toInts md)).map ofInts)).run o = _
    rw [e]; rfl
  · have := decodeLE_eq (ofInts r)
    rw [toInts_ofInts r hr.2, hv, ← decodeLE_eq] at this
    have hL : C16Sc.L448 = ((L : ℕ) : ℤ) := by decide +kernel
    rw [hL] at this
    exact_mod_cast this

theorem mulAdd_run (o : Oracle) (k s r : Bytes) (hk : k.length = 56) (hs : s.length = 56) (hr : r.length = 56) :
    ∃ x, (leanOps.mulAdd k s r).run o = .ok x ∧ x.length = 56 ∧
      Bytes.decodeLE x = (Bytes.decodeLE k * Bytes.decodeLE s + Bytes.decodeLE r) % L := by
  obtain ⟨h1, h2, h3⟩ := C16Sc.mulAdd_spec (toInts k) (toInts s) (toInts r) (by rw [toInts_length, hk]) (toInts_allIn _)
    (by rw [toInts_length, hs]) (toInts_allIn _) (by rw [toInts_length, hr]) (toInts_allIn _)
  refine ⟨ofInts (Model.Sc448.mulAdd (toInts k) (toInts s) (toInts r)), rfl, by rw [ofInts_length, h1], ?_⟩
  have := decodeLE_eq (ofInts (Model.Sc448.mulAdd (toInts k) (toInts s) (toInts r)))
  rw [toInts_ofInts _ h2, h3, ← decodeLE_eq, ← decodeLE_eq, ← decodeLE_eq] at this
  have hL : C16Sc.L448 = ((L : ℕ) : ℤ) := by decide +kernel
  rw [hL] at this
  exact_mod_cast this

theorem encodePoint_length (a : AffinePoint) : (Spec.RFC8032.encodePoint a).length = 57 := by
  have := (intsOf_encodeLE 57 (a.y.toNat + 2 ^ 455 * (a.x % 2).toNat)).1
  unfold intsOf at this
  simpa [Spec.RFC8032.encodePoint] using this

theorem fixLen_self (n : Nat) (b : Bytes) (h : b.length = n) : fixLen n b = b := by
  unfold fixLen
  rw [List.take_append_of_le_length (by omega), List.take_of_length_le (by omega)]

/-- a 56-octet scalar followed by a zero octet is the 57-octet little-endian encoding of its value -/
theorem scalar57 (x : Bytes) (hl : x.length = 56) : x ++ [0] = Spec.RFC8032.encodeScalar (Bytes.decodeLE x) := by
  apply intsOf_inj
  obtain ⟨l57, v57⟩ := intsOf_encodeLE 57 (Bytes.decodeLE x)
  have hx := decodeLE_eq x
  have hb : Model.Fe448.evalBytes (intsOf x) < 256 ^ 56 := by
    have := (Glue.evalR_bounds 8 255 (by decide) (intsOf x) (intsOf_allIn x)).2
    rw [← C17.evalBytes_eq] at this
    have hl' : (intsOf x).length = 56 := by unfold intsOf; simp [hl]
    rw [hl'] at this
    have g : Glue.geom 8 56 = (256 ^ 56 - 1) / 255 := by decide +kernel
    rw [g] at this
    omega
  apply evalBytes_inj
  · unfold Spec.RFC8032.encodeScalar; rw [l57]; unfold intsOf; simp [hl]
  · exact intsOf_allIn _
  · exact intsOf_allIn _
  · unfold Spec.RFC8032.encodeScalar
    rw [v57]
    have e1 : intsOf (x ++ [0]) = intsOf x ++ [0] := by unfold intsOf; simp
    rw [e1, evalBytes_append]
    simp only [Model.Fe448.evalBytes]
    rw [toInts_eq_intsOf, evalLE_eq_evalBytes] at hx
    have : Bytes.decodeLE x % 256 ^ 57 = Bytes.decodeLE x := by
      apply Nat.mod_eq_of_lt
      have : ((Bytes.decodeLE x : ℕ) : ℤ) < 256 ^ 56 := by rw [hx]; exact hb
      have : Bytes.decodeLE x < 256 ^ 56 := by exact_mod_cast this
      omega
    rw [this, hx]; ring

/-- SIGNING: for every 57-octet seed, every message and every hash oracle, `Sign` on the private
    key seed ‖ A (A the RFC public key of the seed) returns exactly the deterministic RFC 8032
    §5.2.6 signature (context empty, no prehash: dom4(0, "")).
    Hypotheses: p prime and `EdwardsGroup`. -/
theorem sign_eq_spec (hp : Nat.Prime q) (E : EdwardsGroup) (o : Oracle) (seed msg pub : Bytes)
    (hs : seed.length = 57) (hpub : (Spec.RFC8032.publicKey seed).run o = .ok pub) :
    (sign leanOps (seed ++ pub) msg).run o = (Spec.RFC8032.sign seed msg []).run o := by
  have hpub' : pub = Spec.RFC8032.encodePoint (Spec.Edwards448.smul (Spec.RFC8032.secretScalar (xof o seed)) Spec.Edwards448.B) := by
    unfold Spec.RFC8032.publicKey at hpub
    rw [PO.run_bind, ← shake_eq, run_shake] at hpub
    exact (Outcome.ok.inj hpub).symm
  -- the spec side
  have espec : (Spec.RFC8032.sign seed msg []).run o = .ok
      (let h := xof o seed
       let s := Spec.RFC8032.secretScalar h
       let r := Bytes.decodeLE (xof o (sigEd448 ++ h.drop 57 ++ msg))
       let rEnc := Spec.RFC8032.encodePoint (Spec.Edwards448.smul (r % L) Spec.Edwards448.B)
       let k := Bytes.decodeLE (xof o (sigEd448 ++ rEnc ++ pub ++ msg))
       rEnc ++ Spec.RFC8032.encodeScalar ((r + k * s) % L)) := by
    unfold Spec.RFC8032.sign
    rw [PO.run_bind, ← shake_eq, run_shake]
    simp only
    rw [PO.run_bind, ← shake_eq, ← sigEd448_eq, run_shake]
    simp only
    rw [PO.run_bind, ← shake_eq, run_shake, ← hpub']
    rfl
  rw [espec]
  -- the model side
  set h := xof o seed with hh
  obtain ⟨s, es, sl, sv⟩ := clamp_run o h (xof_length o seed)
  set md := xof o (sigEd448 ++ h.drop 57 ++ msg) with hmd
  obtain ⟨r, er, rl, rv⟩ := uniform_run o md (xof_length o _)
  have hrv : Bytes.decodeLE r < 2 ^ 447 := by
    rw [rv]; exact lt_trans (Nat.mod_lt _ (by decide +kernel)) L_lt
  obtain ⟨R, eR, eB⟩ := baseMultBytes_run hp E o r rl hrv
  rw [rv, ← smul_B_eq] at eB
  set rEnc := Spec.RFC8032.encodePoint (Spec.Edwards448.smul (Bytes.decodeLE md % L) Spec.Edwards448.B) with hrEnc
  set hd := xof o (sigEd448 ++ rEnc ++ pub ++ msg) with hhd
  obtain ⟨k, ek, kl, kv⟩ := uniform_run o hd (xof_length o _)
  obtain ⟨x, ex, xl, xv⟩ := mulAdd_run o k s r kl sl rl
  have htake : (seed ++ pub).take Gen.Ed448Pt.SeedSize = seed := by
    show (seed ++ pub).take 57 = seed
    rw [List.take_left' hs]
  have hdrop : (seed ++ pub).drop Gen.Ed448Pt.SeedSize = pub := by
    show (seed ++ pub).drop 57 = pub
    rw [List.drop_left' hs]
  unfold sign
  rw [if_neg (by rw [List.length_append, hs]; show ¬ (57 + pub.length < 57); omega)]
  simp only [htake, hdrop]
  rw [PO.run_bind, run_shake]
  simp only
  rw [PO.run_bind, run_orPanic_ok o _ _ s es]
  simp only
  rw [PO.run_bind, run_shake]
  simp only
  rw [PO.run_bind, run_orPanic_ok o _ _ r er]
  simp only
  rw [PO.run_bind, eR]
  simp only
  rw [PO.run_bind, eB]
  simp only
  rw [PO.run_bind, run_shake]
  simp only
  rw [PO.run_bind, run_orPanic_ok o _ _ k ek]
  simp only
  rw [PO.run_bind, ex]
  simp only
  rw [PO.run_bind, eB]
  simp only
  show Outcome.ok _ = Outcome.ok _
  congr 1
  rw [fixLen_self 57 _ (encodePoint_length _), fixLen_self 56 x xl, List.append_assoc, scalar57 x xl]
  congr 2
  rw [xv, kv, sv, rv]
  show (Bytes.decodeLE hd % L * (Spec.RFC8032.secretScalar h % L) + Bytes.decodeLE md % L) % L =
    (Bytes.decodeLE md + Bytes.decodeLE hd * Spec.RFC8032.secretScalar h) % L
  rw [Nat.add_comm, Nat.add_mod, Nat.mul_mod, Nat.mod_mod, Nat.mod_mod, Nat.mod_mod, ← Nat.mul_mod, ← Nat.add_mod]

/-! ## verification -/

/-- closed form of the spec verification (reading `reducedK`) under an oracle -/
def specVerifyVal (o : Oracle) (pk msg sig : Bytes) : Bool :=
  if sig.length ≠ 114 then false
  else
    let k := Bytes.decodeLE (xof o (sigEd448 ++ sig.take 57 ++ pk ++ msg))
    match Spec.RFC8032.decodePoint (sig.take 57), Spec.RFC8032.decodePoint pk with
    | some r, some a =>
      if Bytes.decodeLE (sig.drop 57) ≥ L then false
      else decide (Spec.Edwards448.smul (Bytes.decodeLE (sig.drop 57)) Spec.Edwards448.B =
        Spec.Edwards448.add r (Spec.Edwards448.smul (k % L) a))
    | _, _ => false

theorem spec_verify_run (o : Oracle) (pk msg sig : Bytes) :
    (Spec.RFC8032.verify pk msg sig []).run o = .ok (specVerifyVal o pk msg sig) := by
  unfold Spec.RFC8032.verify Spec.RFC8032.verifyWith specVerifyVal
  by_cases hl : sig.length ≠ 114
  · simp [hl]
  · simp only [hl, if_false]
    rw [PO.run_bind, ← shake_eq, ← sigEd448_eq, run_shake]
    simp only
    cases Spec.RFC8032.decodePoint (sig.take 57) <;> cases Spec.RFC8032.decodePoint pk <;>
      simp only [] <;> try rfl
    split <;> rfl

/-- the public key: goat's decoder and the RFC decoder agree -/
theorem pk_cases (hp : Nat.Prime q) (pk : Bytes) :
    (∃ pA a, Model.Ed448Pt.setBytes (toInts pk) = .ok pA ∧ PRep pA a ∧ OnCurve a ∧
        Spec.RFC8032.decodePoint pk = some a) ∨
    (∃ e, Model.Ed448Pt.setBytes (toInts pk) = .err e ∧ Spec.RFC8032.decodePoint pk = none) := by
  cases h : Model.Ed448Pt.setBytes (toInts pk) with
  | ok pA =>
    obtain ⟨a, ha, henc, hrep⟩ := setBytes_sound hp (toInts pk) (toInts_allIn pk) pA h
    have : pk = Spec.RFC8032.encodePoint a := intsOf_inj henc
    exact Or.inl ⟨pA, a, rfl, hrep, ha, (decodePoint_iff hp pk a).mpr ⟨ha, this⟩⟩
  | err e =>
    refine Or.inr ⟨e, rfl, ?_⟩
    cases hd : Spec.RFC8032.decodePoint pk with
    | none => rfl
    | some a =>
      obtain ⟨ha, henc⟩ := (decodePoint_iff hp pk a).mp hd
      obtain ⟨Pt, hok, _⟩ := setBytes_complete hp ha
      rw [← toInts_eq_intsOf, ← henc, h] at hok; cases hok
  | panic s =>
    have := setBytes_total (toInts pk)
    rw [h] at this; cases this

/-- the scalar half of the signature: `SetCanonicalBytes` succeeds exactly below L -/
theorem sc_cases (o : Oracle) (sc : Bytes) (hl : sc.length = 57) :
    (∃ s, (leanOps.setCanonicalBytes sc).run o = .ok s ∧ s.length = 56 ∧
        Bytes.decodeLE s = Bytes.decodeLE sc ∧ Bytes.decodeLE sc < L) ∨
    (∃ e, (leanOps.setCanonicalBytes sc).run o = .err e ∧ L ≤ Bytes.decodeLE sc) := by
  have hx : (toInts sc).length = 57 := by rw [toInts_length, hl]
  obtain ⟨h1, h2⟩ := C16Sc.setCanonicalBytes_spec (toInts sc) hx (toInts_allIn sc)
  have hL : C16Sc.L448 = ((L : ℕ) : ℤ) := by decide +kernel
  have hdec := decodeLE_eq sc
  cases hs : Model.Sc448.setCanonicalBytes (toInts sc) with
  | some r =>
    obtain ⟨e1, _, e3, e4⟩ := h1 r hs
    have hr : C16Sc.Str56 r := by
      rw [e1]; exact ⟨by rw [List.length_take]; omega, fun y hy => toInts_allIn sc y (List.mem_of_mem_take hy)⟩
    refine Or.inl ⟨ofInts r, ?_, by rw [ofInts_length, hr.1], ?_, ?_⟩
    · show (optPO _ ((Model.Sc448.setCanonicalBytes (toInts sc)).map ofInts)).run o = _
      rw [hs]; rfl
    · have := decodeLE_eq (ofInts r)
      rw [toInts_ofInts r hr.2, ← e4, ← hdec] at this
      exact_mod_cast this
    · rw [hL, ← e4, ← hdec] at e3; exact_mod_cast e3
  | none =>
    refine Or.inr ⟨"scalar-encoding", ?_, ?_⟩
    · show (optPO _ ((Model.Sc448.setCanonicalBytes (toInts sc)).map ofInts)).run o = _
      rw [hs]; rfl
    · by_contra hlt
      have hlt' : Bytes.decodeLE sc < L := by omega
      -- value = low 56 octets + 256^56 · top
      have e := split57 (toInts sc) hx
      have hv : Model.Sc448.evalLE (toInts sc) =
          Model.Sc448.evalLE ((toInts sc).take 56) + 256 ^ 56 * (toInts sc).getD 56 0 := by
        conv_lhs => rw [e]
        rw [evalLE_append]
        have : ((toInts sc).take 56).length = 56 := by rw [List.length_take]; omega
        rw [this]; simp [Model.Sc448.evalLE]
      have htop := toInts_allIn sc ((toInts sc).getD 56 0) (by
        rw [List.getD_eq_getElem?_getD, List.getElem?_eq_getElem (by omega)]; exact List.getElem_mem _)
      have hlow : 0 ≤ Model.Sc448.evalLE ((toInts sc).take 56) := by
        rw [evalLE_eq_evalBytes]
        exact evalBytes_nonneg _ (fun y hy => toInts_allIn sc y (List.mem_of_mem_take hy))
      have hLlt : (L : ℤ) < 256 ^ 56 := by decide +kernel
      have hval : Model.Sc448.evalLE (toInts sc) < (L : ℤ) := by rw [← hdec]; exact_mod_cast hlt'
      have htop0 : (toInts sc).getD 56 0 = 0 := by
        by_contra hne
        have : 1 ≤ (toInts sc).getD 56 0 := by omega
        nlinarith
      have hlow' : Model.Sc448.evalLE ((toInts sc).take 56) < C16Sc.L448 := by
        rw [hL]; rw [hv, htop0] at hval; linarith
      rw [h2 htop0 hlow'] at hs; cases hs

theorem top_nonzero_ge (sc : Bytes) (hl : sc.length = 57) (h : sc.getD 56 0 ≠ 0) : L ≤ Bytes.decodeLE sc := by
  have hx : (toInts sc).length = 57 := by rw [toInts_length, hl]
  have hdec := decodeLE_eq sc
  have e := split57 (toInts sc) hx
  have hv : Model.Sc448.evalLE (toInts sc) =
      Model.Sc448.evalLE ((toInts sc).take 56) + 256 ^ 56 * (toInts sc).getD 56 0 := by
    conv_lhs => rw [e]
    rw [evalLE_append]
    have : ((toInts sc).take 56).length = 56 := by rw [List.length_take]; omega
    rw [this]; simp [Model.Sc448.evalLE]
  have hlow : 0 ≤ Model.Sc448.evalLE ((toInts sc).take 56) := by
    rw [evalLE_eq_evalBytes]
    exact evalBytes_nonneg _ (fun y hy => toInts_allIn sc y (List.mem_of_mem_take hy))
  have htop : (toInts sc).getD 56 0 = ((sc.getD 56 0).toNat : ℤ) := by
    unfold toInts
    rw [List.getD_eq_getElem?_getD, List.getD_eq_getElem?_getD, List.getElem?_map]
    cases sc[56]? <;> rfl
  have hne : 1 ≤ ((sc.getD 56 0).toNat : ℤ) := by
    have : (sc.getD 56 0).toNat ≠ 0 := fun h0 => h (UInt8.toNat_inj.mp (by rw [h0]; rfl))
    omega
  have hLlt : (L : ℤ) < 256 ^ 56 := by decide +kernel
  have : (L : ℤ) ≤ ((Bytes.decodeLE sc : ℕ) : ℤ) := by rw [hdec, hv, htop]; nlinarith
  exact_mod_cast this

theorem specVerifyVal_false_of_ge (o : Oracle) (pk msg sig : Bytes) (h : L ≤ Bytes.decodeLE (sig.drop 57)) :
    specVerifyVal o pk msg sig = false := by
  unfold specVerifyVal
  by_cases hlen : sig.length ≠ 114
  · rw [if_pos hlen]
  · rw [if_neg hlen]
    simp only
    cases Spec.RFC8032.decodePoint (sig.take 57) with
    | none => rfl
    | some r =>
      cases Spec.RFC8032.decodePoint pk with
      | none => rfl
      | some a => exact if_pos h

theorem specVerifyVal_false_of_pk (o : Oracle) (pk msg sig : Bytes) (h : Spec.RFC8032.decodePoint pk = none) :
    specVerifyVal o pk msg sig = false := by
  unfold specVerifyVal
  by_cases hlen : sig.length ≠ 114
  · rw [if_pos hlen]
  · rw [if_neg hlen]
    simp only [h]
    cases Spec.RFC8032.decodePoint (sig.take 57) <;> rfl

theorem val_inj {E : EdwardsGroup} {g h : E.G} (e : EdwardsGroup.val g = EdwardsGroup.val h) : g = h :=
  Subtype.ext e

/-- VERIFICATION: for every 57-octet public key, every message, every signature (any length)
    and every hash oracle, `Verify` returns exactly what RFC 8032 §5.2.7 prescribes, in the reading
    [S]B = R + [k mod L]A' (see docs/C13.md) — in particular it never panics, rejects wrong lengths,
    S ≥ L, non-canonical or off-curve public keys and R, and a failing group equation, and accepts
    everything else.  Hypotheses: p prime and `EdwardsGroup`. -/
theorem verify_eq_spec (hp : Nat.Prime q) (E : EdwardsGroup) (o : Oracle) (pk msg sig : Bytes)
    (hpk : pk.length = 57) :
    (verify leanOps pk msg sig).run o = (Spec.RFC8032.verify pk msg sig []).run o := by
  rw [spec_verify_run]
  unfold verify
  rw [if_neg (by rw [hpk]; decide)]
  by_cases hl : sig.length = 114
  swap
  · have : specVerifyVal o pk msg sig = false := by unfold specVerifyVal; rw [if_pos hl]
    rw [this]
    have hc : (sig.length ≠ Gen.Ed448Pt.SignatureSize || sig.getD 113 0 &&& 0x7F != 0) = true := by
      have : (sig.length ≠ Gen.Ed448Pt.SignatureSize) := hl
      simp [this]
    rw [if_pos hc]; rfl
  have hscl : (sig.drop 57).length = 57 := by rw [List.length_drop, hl]
  have htopeq : (sig.drop 57).getD 56 0 = sig.getD 113 0 := by
    rw [List.getD_eq_getElem?_getD, List.getD_eq_getElem?_getD, List.getElem?_drop]
  by_cases hm : (sig.getD 113 0 &&& 0x7F != 0) = true
  · have hne : sig.getD 113 0 ≠ 0 := by
      intro h0; rw [h0] at hm; revert hm; decide
    have hge := top_nonzero_ge (sig.drop 57) hscl (by rw [htopeq]; exact hne)
    rw [specVerifyVal_false_of_ge o pk msg sig hge]
    have hc : (sig.length ≠ Gen.Ed448Pt.SignatureSize || sig.getD 113 0 &&& 0x7F != 0) = true := by
      rw [hm]; simp
    rw [if_pos hc]; rfl
  have hc : ¬ (sig.length ≠ Gen.Ed448Pt.SignatureSize || sig.getD 113 0 &&& 0x7F != 0) = true := by
    have h1 : ¬ (sig.length ≠ Gen.Ed448Pt.SignatureSize) := fun h => h hl
    have hm' : (sig.getD 113 0 &&& 0x7F != 0) = false := by
      cases hb : (sig.getD 113 0 &&& 0x7F != 0) with
      | true => exact absurd hb hm
      | false => rfl
    rw [hm']; simp [h1]
  rw [if_neg hc]
  rw [PO.run_bind, PO.run_attempt]
  simp only
  rcases pk_cases hp pk with ⟨pA, a, hok, hrep, ha, hdec⟩ | ⟨e, herr, hdec⟩
  swap
  · have : (leanOps.pointSetBytes pk).run o = .err e := by
      show (PO.ofOutcome _).run o = _; rw [PO.run_ofOutcome, herr]
    rw [this, specVerifyVal_false_of_pk o pk msg sig hdec]; rfl
  have hrun : (leanOps.pointSetBytes pk).run o = .ok pA := by
    show (PO.ofOutcome _).run o = _; rw [PO.run_ofOutcome, hok]
  rw [hrun]
  simp only
  rw [PO.run_bind, run_shake]
  simp only
  obtain ⟨k, ek, kl, kv⟩ := uniform_run o (xof o (sigEd448 ++ sig.take 57 ++ pk ++ msg)) (xof_length o _)
  rw [PO.run_bind, run_orPanic_ok o _ _ k ek]
  simp only
  rw [PO.run_bind, PO.run_attempt]
  simp only
  rcases sc_cases o (sig.drop 57) hscl with ⟨s, es, sl, sv, slt⟩ | ⟨e, es, sge⟩
  swap
  · rw [es, specVerifyVal_false_of_ge o pk msg sig sge]; rfl
  rw [es]
  simp only
  -- the group elements
  let g : E.G := E.mk' a ha
  have hneg : GRep E (Model.Ed448Pt.negate pA) (-g) := by
    show PRep _ (EdwardsGroup.val (-g))
    have : EdwardsGroup.val (-g) = Spec.Edwards448.neg (EdwardsGroup.val g) := E.neg_val g
    rw [this]; exact negate_correct hrep
  have hkv : Bytes.decodeLE k < 2 ^ 447 := by
    rw [kv]; exact lt_trans (Nat.mod_lt _ (by decide +kernel)) L_lt
  have hsv : Bytes.decodeLE s < 2 ^ 447 := by rw [sv]; exact lt_trans slt L_lt
  obtain ⟨R, eR, hR⟩ := doubleScalarMult_correct E hp hneg k s kl sl hkv hsv
  have hneg_run : (leanOps.negate pA).run o = .ok (Model.Ed448Pt.negate pA) := by
    show (PO.ofOutcome (Model.Ed448Pt.negateG pA)).run o = _
    rw [PO.run_ofOutcome]
    unfold Model.Ed448Pt.negateG Model.Ed448Pt.guard1
    rw [if_pos (initialized_of_prep hp hrep ha)]
  rw [PO.run_bind, hneg_run]
  simp only
  have hdm_run : (leanOps.doubleScalarBaseMult k (Model.Ed448Pt.negate pA) s).run o = .ok R := by
    show (PO.ofOutcome _).run o = _; rw [PO.run_ofOutcome, eR]
  rw [PO.run_bind, hdm_run]
  simp only
  set G : E.G := ((Bytes.decodeLE k : ℕ) : ℤ) • (-g) + ((Bytes.decodeLE s : ℕ) : ℤ) • E.B with hG
  have hbytes : (leanOps.pointBytes R).run o = .ok (Spec.RFC8032.encodePoint (EdwardsGroup.val G)) := by
    show (PO.ofOutcome ((Model.Ed448Pt.bytesG R).bind fun l => .ok (ofInts l))).run o = _
    rw [PO.run_ofOutcome]
    unfold Model.Ed448Pt.bytesG Model.Ed448Pt.guard1
    rw [if_pos (initialized_of_prep hp hR (EdwardsGroup.on _)), bytes_canonical hp hR (EdwardsGroup.on _)]
    show Outcome.ok (ofInts (intsOf _)) = _
    rw [← toInts_eq_intsOf, ofInts_toInts]
  rw [PO.run_bind, hbytes]
  simp only
  show Outcome.ok _ = Outcome.ok _
  congr 1
  -- compare the two Booleans
  unfold specVerifyVal
  rw [if_neg (fun h => h hl)]
  simp only [hdec]
  cases hr : Spec.RFC8032.decodePoint (sig.take 57) with
  | none =>
    simp only
    rw [beq_eq_false_iff_ne]
    intro heq
    have := (decodePoint_iff hp (sig.take 57) (EdwardsGroup.val G)).mpr ⟨EdwardsGroup.on G, heq⟩
    rw [hr] at this; cases this
  | some r =>
    simp only
    obtain ⟨hron, hrenc⟩ := (decodePoint_iff hp (sig.take 57) r).mp hr
    rw [if_neg (by omega)]
    let rg : E.G := E.mk' r hron
    have e1 : Spec.Edwards448.smul (Bytes.decodeLE (sig.drop 57)) Spec.Edwards448.B =
        EdwardsGroup.val (Bytes.decodeLE (sig.drop 57) • E.B) := smul_B_eq E _
    have e2 : Spec.Edwards448.smul (Bytes.decodeLE (xof o (sigEd448 ++ sig.take 57 ++ pk ++ msg)) % L) a =
        EdwardsGroup.val ((Bytes.decodeLE (xof o (sigEd448 ++ sig.take 57 ++ pk ++ msg)) % L) • g) := smul_eq E g _
    have e3 : Spec.Edwards448.add r (EdwardsGroup.val ((Bytes.decodeLE (xof o (sigEd448 ++ sig.take 57 ++ pk ++ msg)) % L) • g)) =
        EdwardsGroup.val (rg + (Bytes.decodeLE (xof o (sigEd448 ++ sig.take 57 ++ pk ++ msg)) % L) • g) := (val_add E rg _).symm
    rw [e1, e2, e3]
    rw [Bool.eq_iff_iff, beq_iff_eq, decide_eq_true_eq]
    have hGeq : G = (-((Bytes.decodeLE (xof o (sigEd448 ++ sig.take 57 ++ pk ++ msg)) % L) • g)) +
        Bytes.decodeLE (sig.drop 57) • E.B := by
      rw [hG, kv, sv, natCast_zsmul, natCast_zsmul, smul_neg]
    constructor
    · intro heq
      have hrG : rg = G := by
        apply val_inj
        apply encode_inj hp hron (EdwardsGroup.on G)
        show intsOf (Spec.RFC8032.encodePoint r) = _
        rw [← hrenc, heq]
      rw [hrG, hGeq]; abel_nf
    · intro heq
      have h2 := val_inj heq
      have hrG : rg = G := by
        rw [hGeq, h2]; abel
      rw [hrenc]
      show Spec.RFC8032.encodePoint (EdwardsGroup.val rg) = _
      rw [hrG]

/-- `Verify` never panics on a 57-octet public key (any message, any signature, any oracle) -/
theorem verify_total (hp : Nat.Prime q) (E : EdwardsGroup) (o : Oracle) (pk msg sig : Bytes)
    (hpk : pk.length = 57) : ∃ b, (verify leanOps pk msg sig).run o = .ok b := by
  rw [verify_eq_spec hp E o pk msg sig hpk, spec_verify_run]; exact ⟨_, rfl⟩

/-- `Verify` accepts exactly when the RFC verification (reading reducedK) accepts -/
theorem verify_iff_spec (hp : Nat.Prime q) (E : EdwardsGroup) (o : Oracle) (pk msg sig : Bytes)
    (hpk : pk.length = 57) :
    (verify leanOps pk msg sig).run o = .ok true ↔ (Spec.RFC8032.verify pk msg sig []).run o = .ok true := by
  rw [verify_eq_spec hp E o pk msg sig hpk]

/-- what acceptance means, spelled out: length 114, S < L, the public key and R are canonical
    encodings of curve points, and the group equation [S]B = R + [k mod L]A' holds -/
theorem verify_accepts_iff (hp : Nat.Prime q) (E : EdwardsGroup) (o : Oracle) (pk msg sig : Bytes)
    (hpk : pk.length = 57) :
    (verify leanOps pk msg sig).run o = .ok true ↔
      sig.length = 114 ∧ Bytes.decodeLE (sig.drop 57) < L ∧
      ∃ r a, OnCurve r ∧ sig.take 57 = Spec.RFC8032.encodePoint r ∧ OnCurve a ∧ pk = Spec.RFC8032.encodePoint a ∧
        Spec.Edwards448.smul (Bytes.decodeLE (sig.drop 57)) Spec.Edwards448.B =
          Spec.Edwards448.add r (Spec.Edwards448.smul
            (Bytes.decodeLE (xof o (sigEd448 ++ sig.take 57 ++ pk ++ msg)) % L) a) := by
  rw [verify_eq_spec hp E o pk msg sig hpk, spec_verify_run]
  unfold specVerifyVal
  constructor
  · intro h
    have h := Outcome.ok.inj h
    by_cases hl : sig.length ≠ 114
    · rw [if_pos hl] at h; cases h
    rw [if_neg hl] at h
    simp only at h
    cases hr : Spec.RFC8032.decodePoint (sig.take 57) with
    | none => rw [hr] at h; cases h
    | some r =>
      cases ha : Spec.RFC8032.decodePoint pk with
      | none => rw [hr, ha] at h; cases h
      | some a =>
        rw [hr, ha] at h
        simp only at h
        by_cases hS : Bytes.decodeLE (sig.drop 57) ≥ L
        · rw [if_pos hS] at h; cases h
        rw [if_neg hS] at h
        obtain ⟨r1, r2⟩ := (decodePoint_iff hp _ r).mp hr
        obtain ⟨a1, a2⟩ := (decodePoint_iff hp _ a).mp ha
        exact ⟨by omega, by omega, r, a, r1, r2, a1, a2, of_decide_eq_true h⟩
  · rintro ⟨hl, hS, r, a, r1, r2, a1, a2, heq⟩
    rw [if_neg (fun h => h hl)]
    simp only
    rw [(decodePoint_iff hp _ r).mpr ⟨r1, r2⟩, (decodePoint_iff hp _ a).mpr ⟨a1, a2⟩]
    simp only
    rw [if_neg (by omega)]
    congr 1
    exact decide_eq_true heq

/-- STRICTNESS: an accepted signature has a canonical public key AND a canonical R -/
theorem verify_strict (hp : Nat.Prime q) (E : EdwardsGroup) (o : Oracle) (pk msg sig : Bytes)
    (hpk : pk.length = 57) (h : (verify leanOps pk msg sig).run o = .ok true) :
    (∃ a, OnCurve a ∧ pk = Spec.RFC8032.encodePoint a) ∧
    (∃ r, OnCurve r ∧ sig.take 57 = Spec.RFC8032.encodePoint r) ∧
    sig.length = 114 ∧ Bytes.decodeLE (sig.drop 57) < L := by
  obtain ⟨hl, hS, r, a, r1, r2, a1, a2, _⟩ := (verify_accepts_iff hp E o pk msg sig hpk).mp h
  exact ⟨⟨a, a1, a2⟩, ⟨r, r1, r2⟩, hl, hS⟩

/-- COMPLETENESS: verification accepts every signature produced by `Sign` with the key pair of a
    seed (every seed, message, oracle).  Hypotheses: p prime, `EdwardsGroup`, L·B = 0. -/
theorem verify_sign (hp : Nat.Prime q) (E : EdwardsGroup) (hLB : L • E.B = 0) (o : Oracle) (seed msg pub sg : Bytes)
    (hs : seed.length = 57) (hpub : (Spec.RFC8032.publicKey seed).run o = .ok pub)
    (hsg : (sign leanOps (seed ++ pub) msg).run o = .ok sg) :
    (verify leanOps pub msg sg).run o = .ok true := by
  have hpub' : pub = Spec.RFC8032.encodePoint (Spec.Edwards448.smul (Spec.RFC8032.secretScalar (xof o seed)) Spec.Edwards448.B) := by
    unfold Spec.RFC8032.publicKey at hpub
    rw [PO.run_bind, ← shake_eq, run_shake] at hpub
    exact (Outcome.ok.inj hpub).symm
  have hpl : pub.length = 57 := by rw [hpub']; exact encodePoint_length _
  rw [sign_eq_spec hp E o seed msg pub hs hpub] at hsg
  -- the spec signature, explicitly
  set h := xof o seed with hh
  set s := Spec.RFC8032.secretScalar h with hsdef
  set r := Bytes.decodeLE (xof o (sigEd448 ++ h.drop 57 ++ msg)) with hr
  set rEnc := Spec.RFC8032.encodePoint (Spec.Edwards448.smul (r % L) Spec.Edwards448.B) with hrEnc
  set k := Bytes.decodeLE (xof o (sigEd448 ++ rEnc ++ pub ++ msg)) with hk
  have hsg' : sg = rEnc ++ Spec.RFC8032.encodeScalar ((r + k * s) % L) := by
    have espec : (Spec.RFC8032.sign seed msg []).run o = .ok (rEnc ++ Spec.RFC8032.encodeScalar ((r + k * s) % L)) := by
      unfold Spec.RFC8032.sign
      rw [PO.run_bind, ← shake_eq, run_shake]
      simp only
      rw [PO.run_bind, ← shake_eq, ← sigEd448_eq, run_shake]
      simp only
      rw [PO.run_bind, ← shake_eq, run_shake, ← hpub']
      rfl
    rw [espec] at hsg; exact (Outcome.ok.inj hsg).symm
  have hrl : rEnc.length = 57 := encodePoint_length _
  have htake : sg.take 57 = rEnc := by rw [hsg', List.take_left' hrl]
  have hdrop : sg.drop 57 = Spec.RFC8032.encodeScalar ((r + k * s) % L) := by rw [hsg', List.drop_left' hrl]
  have hSlt : (r + k * s) % L < L := Nat.mod_lt _ (by decide +kernel)
  have hSdec : Bytes.decodeLE (sg.drop 57) = (r + k * s) % L := by
    rw [hdrop]; unfold Spec.RFC8032.encodeScalar
    rw [decodeLE_encodeLE]
    apply Nat.mod_eq_of_lt
    have : L < 256 ^ 57 := by decide +kernel
    omega
  rw [verify_accepts_iff hp E o pub msg sg hpl]
  refine ⟨by rw [hsg', List.length_append, hrl]; unfold Spec.RFC8032.encodeScalar; rw [← toInts_length, toInts_eq_intsOf, (intsOf_encodeLE 57 _).1],
    by rw [hSdec]; exact hSlt, ?_⟩
  refine ⟨EdwardsGroup.val ((r % L) • E.B), EdwardsGroup.val (s • E.B), EdwardsGroup.on _, ?_, EdwardsGroup.on _, ?_, ?_⟩
  · rw [htake, hrEnc, smul_B_eq E]
  · rw [hpub', smul_B_eq E]
  · rw [hSdec, htake, ← hk, smul_B_eq E, smul_eq E, ← val_add]
    congr 1
    -- group algebra with L • B = 0
    have e1 : ((r + k * s) % L) • E.B = (r + k * s) • E.B := smul_mod E E.B L hLB _
    have e2 : (r % L) • E.B = r • E.B := smul_mod E E.B L hLB _
    have hLs : L • (s • E.B) = 0 := by rw [smul_comm, hLB, smul_zero]
    have e3 : (k % L) • (s • E.B) = k • (s • E.B) := smul_mod E (s • E.B) L hLs _
    rw [e1, e2, e3, add_smul, mul_smul]

/-! ## the same, with the group hypothesis reduced to associativity

`C16Pt.EdwardsGroup.ofAssoc` builds the group from `EdwardsAssoc` (closure, commutativity, neutral
element and inverses of the textbook law are proved), so the remaining unproved mathematical input
of C13 is: p is prime, the Edwards addition law is associative on curve points, and [L]B = 0. -/

theorem sign_eq_spec_of_assoc (hp : Nat.Prime q) (hassoc : EdwardsAssoc) (o : Oracle) (seed msg pub : Bytes)
    (hs : seed.length = 57) (hpub : (Spec.RFC8032.publicKey seed).run o = .ok pub) :
    (sign leanOps (seed ++ pub) msg).run o = (Spec.RFC8032.sign seed msg []).run o :=
  sign_eq_spec hp (EdwardsGroup.ofAssoc hp hassoc) o seed msg pub hs hpub

theorem verify_eq_spec_of_assoc (hp : Nat.Prime q) (hassoc : EdwardsAssoc) (o : Oracle) (pk msg sig : Bytes)
    (hpk : pk.length = 57) :
    (verify leanOps pk msg sig).run o = (Spec.RFC8032.verify pk msg sig []).run o :=
  verify_eq_spec hp (EdwardsGroup.ofAssoc hp hassoc) o pk msg sig hpk

/-- [L]B = 0 in the group, stated on the executable spec: `smul L B = (0, 1)` -/
theorem order_B_of_smul (E : EdwardsGroup) (h : Spec.Edwards448.smul L Spec.Edwards448.B = Spec.Edwards448.zero) :
    L • E.B = 0 := by
  apply val_inj
  rw [← smul_B_eq E, h]; exact (val_zero E).symm

theorem keygen_eq_spec_of_assoc (hp : Nat.Prime q) (hassoc : EdwardsAssoc)
    (hLB : Spec.Edwards448.smul L Spec.Edwards448.B = Spec.Edwards448.zero) (o : Oracle) (seed : Bytes)
    (hs : seed.length = 57) :
    ∃ pub, (Spec.RFC8032.publicKey seed).run o = .ok pub ∧
      (newKeyFromSeed leanOps seed).run o = .ok (seed ++ pub) :=
  keygen_eq_spec hp (EdwardsGroup.ofAssoc hp hassoc) (order_B_of_smul _ hLB) o seed hs

theorem verify_sign_of_assoc (hp : Nat.Prime q) (hassoc : EdwardsAssoc)
    (hLB : Spec.Edwards448.smul L Spec.Edwards448.B = Spec.Edwards448.zero) (o : Oracle) (seed msg pub sg : Bytes)
    (hs : seed.length = 57) (hpub : (Spec.RFC8032.publicKey seed).run o = .ok pub)
    (hsg : (sign leanOps (seed ++ pub) msg).run o = .ok sg) :
    (verify leanOps pub msg sg).run o = .ok true :=
  verify_sign hp (EdwardsGroup.ofAssoc hp hassoc) (order_B_of_smul _ hLB) o seed msg pub sg hs hpub hsg

/-! ## closed forms: NO hypothesis left

p is prime (`GoatProofs.Primes.p448_prime`), the Edwards law is associative
(`C16Pt.edwardsAssoc`), so the curve points are a group (`C16Pt.theGroup`), and [L]B = 0
(`smul_L_B`, one projective kernel evaluation).  The theorems of this file, with every hypothesis
discharged: -/

/-- the base point has order dividing L -/
theorem order_B : L • theGroup.B = 0 := order_B_of_smul theGroup (smul_L_B q_prime)

theorem decodePoint_iff_closed (b : Bytes) (a : AffinePoint) :
    Spec.RFC8032.decodePoint b = some a ↔ OnCurve a ∧ b = Spec.RFC8032.encodePoint a :=
  decodePoint_iff q_prime b a

/-- KEY GENERATION = RFC 8032 §5.2.5, for every 57-octet seed and every hash oracle -/
theorem keygen_eq_spec_closed (o : Oracle) (seed : Bytes) (hs : seed.length = 57) :
    ∃ pub, (Spec.RFC8032.publicKey seed).run o = .ok pub ∧
      (newKeyFromSeed leanOps seed).run o = .ok (seed ++ pub) :=
  keygen_eq_spec q_prime theGroup order_B o seed hs

/-- SIGNING = RFC 8032 §5.2.6 (dom4(0,""), deterministic), byte for byte -/
theorem sign_eq_spec_closed (o : Oracle) (seed msg pub : Bytes) (hs : seed.length = 57)
    (hpub : (Spec.RFC8032.publicKey seed).run o = .ok pub) :
    (sign leanOps (seed ++ pub) msg).run o = (Spec.RFC8032.sign seed msg []).run o :=
  sign_eq_spec q_prime theGroup o seed msg pub hs hpub

/-- VERIFICATION = RFC 8032 §5.2.7 (reading [S]B = R + [k mod L]A'), for every 57-octet public key,
    message, signature of any length and hash oracle -/
theorem verify_eq_spec_closed (o : Oracle) (pk msg sig : Bytes) (hpk : pk.length = 57) :
    (verify leanOps pk msg sig).run o = (Spec.RFC8032.verify pk msg sig []).run o :=
  verify_eq_spec q_prime theGroup o pk msg sig hpk

theorem verify_iff_spec_closed (o : Oracle) (pk msg sig : Bytes) (hpk : pk.length = 57) :
    (verify leanOps pk msg sig).run o = .ok true ↔ (Spec.RFC8032.verify pk msg sig []).run o = .ok true :=
  verify_iff_spec q_prime theGroup o pk msg sig hpk

/-- `Verify` never panics on a 57-octet public key -/
theorem verify_total_closed (o : Oracle) (pk msg sig : Bytes) (hpk : pk.length = 57) :
    ∃ b, (verify leanOps pk msg sig).run o = .ok b :=
  verify_total q_prime theGroup o pk msg sig hpk

theorem verify_accepts_iff_closed : type_of% (verify_accepts_iff q_prime theGroup) :=
  verify_accepts_iff q_prime theGroup

/-- an accepted signature has a canonical public key, a canonical R, length 114 and S < L -/
theorem verify_strict_closed : type_of% (verify_strict q_prime theGroup) := verify_strict q_prime theGroup

theorem verify_strict_pk_closed : type_of% (verify_strict_pk q_prime) := verify_strict_pk q_prime

/-- COMPLETENESS: every signature `Sign` produces with the key pair of a seed verifies -/
theorem verify_sign_closed (o : Oracle) (seed msg pub sg : Bytes) (hs : seed.length = 57)
    (hpub : (Spec.RFC8032.publicKey seed).run o = .ok pub)
    (hsg : (sign leanOps (seed ++ pub) msg).run o = .ok sg) :
    (verify leanOps pub msg sg).run o = .ok true :=
  verify_sign q_prime theGroup order_B o seed msg pub sg hs hpub hsg

/-- the executable spec multiplication is multiplication in the Ed448 group -/
theorem smul_eq_closed (g : theGroup.G) (k : ℕ) :
    Spec.Edwards448.smul k (EdwardsGroup.val g) = EdwardsGroup.val (k • g) := smul_eq theGroup g k

/-! ## the model's "pure function of argument values, fresh results" reading of ed448.go

The model takes octet strings by VALUE and returns fresh values.  For the Go code this means: no
function writes through (or appends to) a parameter slice, and no returned slice shares memory with
an argument.  Regenerated syntactic facts (`translator/ed448facts.go`, go/ast) pin exactly that; the
harness stream `shape` exercises it on sub-slices with spare capacity and aliased arguments. -/

/-- Stated by ROLE, no function is named (renaming a helper does not touch this):
    (1) every function of ed448/*.go that writes through a parameter (assign / copy / append / clear /
        element address / handing it to a writing function) is UNEXPORTED and does so by `copy` only —
        so every exported function leaves its arguments untouched;
    (2) at every call site of such a helper the argument bound to a written parameter is a buffer
        freshly made in the caller (`x := make(T, n)`, bound once);
    (3) every returned expression is such a fresh buffer, a constant, or a call — never a parameter,
        a re-slicing of one, or `append(…)`;
    (4) non-vacuity: the tables do contain exported functions, a writing helper and call sites. -/
theorem ed448_args_readonly :
    (Gen.Ed448Facts.fnFacts.all fun f =>
        f.2.2.isEmpty || (!f.2.1 && f.2.2.all fun w => w.1 == "copy")) = true ∧
    (Gen.Ed448Facts.outCalls.all fun oc => oc.2 == "make") = true ∧
    (Gen.Ed448Facts.returns.all fun f => f.2.all fun c => c == "make" || c == "const" || c == "call") = true ∧
    (Gen.Ed448Facts.fnFacts.any fun f => f.2.1) = true ∧
    (Gen.Ed448Facts.fnFacts.any fun f => !f.2.2.isEmpty) = true ∧
    Gen.Ed448Facts.outCalls.isEmpty = false ∧
    Gen.Ed448Facts.returns.length = Gen.Ed448Facts.fnFacts.length := by
  decide

/-! ## non-vacuity -/

-- the base point is a curve point, its encoding is the `generator` literal of goat and decodes back
example : OnCurve Spec.Edwards448.B ∧ Gen.Ed448Pt.generatorBytes = intsOf (Spec.RFC8032.encodePoint Spec.Edwards448.B) :=
  ⟨B_onCurve, generatorBytes_eq⟩
example (hp : Nat.Prime q) : Spec.RFC8032.decodePoint (Spec.RFC8032.encodePoint Spec.Edwards448.B) = some Spec.Edwards448.B :=
  (decodePoint_iff hp _ _).mpr ⟨B_onCurve, rfl⟩
-- a non-canonical public key (y = p + 1, the encoding goat accepted before SetBytes became strict) is not
-- the encoding of any curve point: `verify_strict_pk` rejects it
example (hp : Nat.Prime q) : Spec.RFC8032.decodePoint (Bytes.encodeLE 57 (2 ^ 448 - 2 ^ 224)) = none := by
  cases h : Spec.RFC8032.decodePoint (Bytes.encodeLE 57 (2 ^ 448 - 2 ^ 224)) with
  | none => rfl
  | some a =>
    exfalso
    obtain ⟨ha, henc⟩ := (decodePoint_iff hp _ a).mp h
    have h1 : Bytes.decodeLE (Spec.RFC8032.encodePoint a) = 2 ^ 448 - 2 ^ 224 := by
      rw [← henc, decodeLE_encodeLE]; decide +kernel
    unfold Spec.RFC8032.encodePoint at h1
    rw [decodeLE_encodeLE] at h1
    obtain ⟨_, ⟨y0, y1⟩, _⟩ := ha
    have hpl := p_lt
    have : p = 2 ^ 448 - 2 ^ 224 - 1 := rfl
    have h01 : a.x % 2 = 0 ∨ a.x % 2 = 1 := by omega
    rcases h01 with h | h <;> rw [h] at h1 <;> simp at h1 <;> omega
-- hypotheses of the signing theorems are satisfiable for every oracle: any 57-octet seed has a public key
example (o : Oracle) : ∃ pub, (Spec.RFC8032.publicKey (List.replicate 57 0)).run o = .ok pub := by
  unfold Spec.RFC8032.publicKey
  rw [PO.run_bind, ← shake_eq, run_shake]; exact ⟨_, rfl⟩

end C13
