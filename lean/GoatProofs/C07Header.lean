import Goat.Model.Header
import GoatProofs.Lemmas.C07NoPanic
/-
C07 over the table-driven header model of C11 (Goat/Model/Header.lean + the tables REGENERATED from
jws/jws.go and jwe/jwe.go, Goat/Gen/HeaderTables.lean): `decodeHeader` / `Header.UnmarshalJSON` and
`encodeHeader` of JWS and JWE never panic, for every JSON object (ill-typed / null / missing
members, hostile x5c, p2c of any number text) and every oracle.

The model has three "table inconsistency" panic outcomes (a row naming a field that does not exist,
a row whose conversion kind does not fit the Go type of its field, a crit check on a non-[]string
field).  They are excluded by a decidable well-formedness check of the regenerated tables
(`tables_wellformed`, kernel evaluation): a header parameter added to the source with a conversion
that does not fit its field type would break it.
-/
namespace C07
open Model.Header Model.HeaderTable PO

/-- Go type of a header field / of a converted value / expected by a conversion kind, as a tag -/
def FVal.tag : FVal → Nat
  | .s _ => 0 | .url _ => 1 | .key _ => 2 | .certs _ => 3 | .bytes _ => 4 | .strs _ => 5 | .flag _ => 6 | .int _ => 7

def Kind.tag : Kind → Nat
  | .str => 0 | .url => 1 | .jwk => 2 | .certs => 3 | .bytes => 4 | .thumb _ => 4 | .strs => 5 | .nb64 => 6 | .int => 7

def Fld.tag (f : Fld) : Nat := FVal.tag (Header.zero.get f)

theorem get_tag (h : Header) (f : Fld) : FVal.tag (h.get f) = Fld.tag f := by
  cases f <;> rfl

theorem set_isSome (h : Header) (f : Fld) (v : FVal) (hv : FVal.tag v = Fld.tag f) : (h.set f v).isSome = true := by
  cases f <;> cases v <;> first | rfl | (simp [FVal.tag, Fld.tag, Header.get, Header.zero] at hv)

def rowOK (r : Row) : Bool :=
  match Fld.ofString r.field with
  | some f => Kind.tag r.kind == Fld.tag f
  | none => false

def stepOK : DecStep → Bool
  | .row r => rowOK r
  | .critCheck fld _ =>
    match Fld.ofString fld with
    | some f => Fld.tag f == 5
    | none => false

/-- **the regenerated tables are well formed** -/
theorem tables_wellformed :
    Gen.HeaderTables.jws.encRows.all rowOK = true ∧ Gen.HeaderTables.jws.decSteps.all stepOK = true ∧
    Gen.HeaderTables.jwe.encRows.all rowOK = true ∧ Gen.HeaderTables.jwe.decSteps.all stepOK = true := by
  decide

/-! ### encode -/

theorem hdr_mapPO_np {α β} {f : α → PO β} (hf : ∀ a, NoPanic (f a)) : ∀ l, NoPanic (mapPO f l)
  | [] => by unfold mapPO; nopanic
  | a :: r => by unfold mapPO; nopanic using hf, (hdr_mapPO_np hf r)

theorem hdr_b64stdEnc_np (b : Bytes) : NoPanic (b64stdEnc b) := by unfold b64stdEnc; nopanic
theorem hdr_b64urlEnc_np (b : Bytes) : NoPanic (b64urlEnc b) := by unfold b64urlEnc; nopanic

theorem emit_np (h : Header) (r : Row) (hr : rowOK r = true) : NoPanic (emit h r) := by
  unfold rowOK at hr
  unfold emit
  split
  · rename_i heq; rw [heq] at hr; cases hr
  · rename_i f heq
    rw [heq] at hr
    have ht : Kind.tag r.kind = FVal.tag (h.get f) := by
      rw [get_tag]; exact (beq_iff_eq.mp hr)
    have hm := hdr_mapPO_np hdr_b64stdEnc_np
    cases hk : r.kind <;> cases hv : h.get f <;> rw [hk, hv] at ht <;>
      first
        | (exfalso; simp [Kind.tag, FVal.tag] at ht; done)
        | (rename_i v
           (try simp only [])
           nopanic using hm, hdr_b64urlEnc_np
           all_goals (exfalso; cases v <;> simp_all))

theorem encodeRows_np (h : Header) : ∀ (rows : List Row) (obj : List (String × Wire)),
    rows.all rowOK = true → NoPanic (encodeRows h rows obj)
  | [], obj, _ => by unfold encodeRows; nopanic
  | r :: rs, obj, hall => by
    simp only [List.all_cons, Bool.and_eq_true] at hall
    unfold encodeRows
    apply NoPanic.bind (emit_np h r hall.1)
    intro v
    cases v with
    | none => exact encodeRows_np h rs _ hall.2
    | some w => exact encodeRows_np h rs _ hall.2

/-- **no_panic_header_encode**: jws.encodeHeader and jwe.encodeHeader of every header value -/
theorem no_panic_header_encode (h : Header) : NoPanic (jwsEncodeHeader h) ∧ NoPanic (jweEncodeHeader h) := by
  constructor
  · unfold jwsEncodeHeader encodeWith
    exact NoPanic.bind (encodeRows_np h _ _ tables_wellformed.1) (fun _ => NoPanic.pure _)
  · unfold jweEncodeHeader encodeWith
    exact NoPanic.bind (encodeRows_np h _ _ tables_wellformed.2.2.1) (fun _ => NoPanic.pure _)

/-! ### decode -/

theorem readCerts_np : ∀ (l : List String) (c0 : Option Bytes), NoPanic (readCerts l c0)
  | [], c0 => by unfold readCerts; nopanic
  | s :: rest, c0 => by
    unfold readCerts
    nopanic using (readCerts_np rest)

theorem readBytes_np (s : String) : NoPanic (readBytes s) := by unfold readBytes; nopanic

theorem readVal_np (k : Kind) (v : Option Wire) (c : Option Bytes) : NoPanic (readVal k v c) := by
  unfold readVal
  nopanic using readCerts_np, readBytes_np

/-- the value `readVal kind …` hands to the field assignment has the Go type the kind promises -/
theorem readVal_tag (k : Kind) (v : Option Wire) (c : Option Bytes) :
    Post (readVal k v c) (fun r => ∀ fv, r.1 = some fv → FVal.tag fv = Kind.tag k) := by
  unfold readVal
  popost
  all_goals first
    | (apply Post.pure; intro fv hfv; first | (cases hfv; rfl) | (cases hfv))
    | skip

theorem decStep_np (look : String → Option Wire) (st : DecState) (s : DecStep) (hs : stepOK s = true) :
    NoPanic (decStep look st s) := by
  cases s with
  | row r =>
    simp only [stepOK, rowOK] at hs
    simp only [decStep]
    cases heq : Fld.ofString r.field with
    | none => rw [heq] at hs; cases hs
    | some f =>
      rw [heq] at hs
      simp only []
      have hk : Kind.tag r.kind = Fld.tag f := beq_iff_eq.mp hs
      rw [NoPanic.unfold]
      intro o t
      simp only [PO.run_bind]
      have h1 := NoPanic.unfold.mp (readVal_np r.kind (look r.key) st.2) o
      cases hr : PO.run o (readVal r.kind (look r.key) st.2) with
      | panic p => exact absurd hr (h1 p)
      | err c => simp
      | ok rv =>
        simp only
        have htag := (readVal_tag r.kind (look r.key) st.2).elim hr
        cases hrv : rv.1 with
        | none => simp
        | some v =>
          simp only
          have hsome := set_isSome st.1 f v (by rw [htag v hrv, hk])
          cases hset : st.1.set f v with
          | none => rw [hset] at hsome; cases hsome
          | some h' => simp
  | critCheck fld known =>
    simp only [stepOK] at hs
    simp only [decStep]
    cases hf : Fld.ofString fld with
    | none => rw [hf] at hs; cases hs
    | some f =>
      rw [hf] at hs
      have ht : FVal.tag (st.1.get f) = 5 := by rw [get_tag]; exact beq_iff_eq.mp hs
      simp only [Option.map_some]
      cases hv : st.1.get f <;> rw [hv] at ht <;>
        first | (exfalso; simp [FVal.tag] at ht; done) | (simp only []; nopanic) | nopanic

theorem decSteps_np (look : String → Option Wire) : ∀ (steps : List DecStep) (st : DecState),
    steps.all stepOK = true → NoPanic (decSteps look steps st)
  | [], st, _ => by unfold decSteps; nopanic
  | s :: rest, st, hall => by
    simp only [List.all_cons, Bool.and_eq_true] at hall
    unfold decSteps
    exact NoPanic.bind (decStep_np look st s hall.1) (fun st' => decSteps_np look rest st' hall.2)

theorem decodeWith_np (steps : List DecStep) (hs : steps.all stepOK = true) (obj : List (String × Wire)) :
    NoPanic (decodeWith steps obj) := by
  unfold decodeWith
  exact NoPanic.bind (decSteps_np _ steps _ hs) (fun _ => NoPanic.pure _)

/-- **no_panic_header_decode**: jws / jwe `decodeHeader` of every decoded JSON object -/
theorem no_panic_header_decode (obj : List (String × Wire)) :
    NoPanic (jwsDecodeHeader obj) ∧ NoPanic (jweDecodeHeader obj) :=
  ⟨decodeWith_np _ tables_wellformed.2.1 obj, decodeWith_np _ tables_wellformed.2.2.2 obj⟩

/-- **no_panic_header_unmarshal**: `Header.UnmarshalJSON` of every byte string (JSON null included) -/
theorem no_panic_header_unmarshal (data : Bytes) :
    NoPanic (jwsUnmarshalHeader data) ∧ NoPanic (jweUnmarshalHeader data) := by
  constructor
  · unfold jwsUnmarshalHeader unmarshalWith
    nopanic using (decodeWith_np _ tables_wellformed.2.1)
  · unfold jweUnmarshalHeader unmarshalWith
    nopanic using (decodeWith_np _ tables_wellformed.2.2.2)

/-- sharpness: a row whose kind does not fit its field makes the model panic — the check is needed -/
example : rowOK { key := "kid", field := "kid", kind := .int, aux := "" } = false := by decide

end C07
