import Goat.Model.PtOps
import Goat.Model.X448
import Goat.Gen.StepOps448
import GoatProofs.Lemmas.PtOpsTac
/-
C14 — the hand-written X448 ladder equals the statement sequences REGENERATED from the source.

`Gen.StepOps448` (translator/opseq.go, rewritten on every run from x448/x448.go) holds three statement
ranges of the function `X448`, each as the sequence of field-method calls in the order of the Go text:

  ladderInit    after `u.SetBytes(point)` up to the loop:  x1.Set(&u); x2.One(); x3.Set(&u); z3.One();
                swap := 0   (z2 keeps the zero value of its declaration)
  ladderStep    the body of `for t := 56*8 - 1; t >= 0; t--` (loop header recorded as facts; the bit
                extraction `kt := int(k[t/8]>>(t%8)) & 1` is an OPAQUE int input whose text is pinned)
  ladderFinish  after the loop up to `if zero.Equal(&ret) == 1`:  the two final swaps and
                `ret.Mul(&x2, ret.Inv(&z2))`

`Model.X448.ladderStep` and the whole `Model.X448.x448Ret` are proved equal to the interpretation of
these sequences over the field model (`Model.Fe448` = regenerated limb programs, `Model.Fe448Ext`), for
ALL scalars and points.  A change of the ladder formulas in the Go text (operand order, the constant
39081, the order of the conditional swaps, the loop bounds) changes the generated data and breaks an
obligation here.  What stays hand-modelled and differentially tied: `clamp`, `bitAt` (the byte/bit
arithmetic of `kt`; its text is pinned by `ladderStep_facts`), the length checks and the final
`Equal` / `Bytes`.  All variables are locals of `X448`: there is no aliasing to consider
(`hazards = []` trivially).
-/
namespace C14StepOps
open Model.Fe448 Model.Fe448Ext Model.X448
open PtOps (FieldOps Env runOps)

attribute [local irreducible] Model.Fe448.add Model.Fe448.sub Model.Fe448.mul Model.Fe448.square
  Model.Fe448.negate Model.Fe448.mul32 Model.Fe448.setBytes Model.Fe448Ext.inv Model.Fe448Ext.select
  Model.Fe448Ext.swap Model.Fe448Ext.isNegative Model.Fe448Ext.equal

/-- the field operations of `Model.Fe448` / `Model.Fe448Ext`; `swap ^= kt` on the Go `int`s (0/1
    values, the model keeps them as `Nat`) -/
def ops : FieldOps Limbs where
  add := Model.Fe448.add
  sub := Model.Fe448.sub
  mul := Model.Fe448.mul
  square := Model.Fe448.square
  neg := Model.Fe448.negate
  inv := Model.Fe448Ext.inv
  set := Model.Fe448Ext.set
  one := Model.Fe448Ext.one
  zero := Model.Fe448Ext.zero
  mul32 := Model.Fe448.mul32
  select := Model.Fe448Ext.select
  swap := Model.Fe448Ext.swap
  isZero := fun _ => 0
  isNegative := Model.Fe448Ext.isNegative
  equal := Model.Fe448Ext.equal
  iand := fun a b => Int.ofNat (a.toNat &&& b.toNat)
  ior := fun a b => Int.ofNat (a.toNat ||| b.toNat)
  ixor := fun a b => Int.ofNat (a.toNat ^^^ b.toNat)
  inot := fun a => 1 - a

namespace G
export Gen.StepOps448 (ladderInit ladderStep ladderFinish)
end G

local macro "gen_fe448" : tactic => `(tactic| (
  generalize Model.Fe448.add = fadd
  generalize Model.Fe448.sub = fsub
  generalize Model.Fe448.mul = fmul
  generalize Model.Fe448.square = fsquare
  generalize Model.Fe448.negate = fneg
  generalize Model.Fe448.mul32 = fmul32
  generalize Model.Fe448Ext.inv = finv
  generalize Model.Fe448Ext.select = fselect
  generalize Model.Fe448Ext.swap = fswap
  generalize Model.Fe448Ext.isNegative = fisNegative
  generalize Model.Fe448Ext.equal = fequal))

/-! ### the three regenerated ranges as functions on the ladder state -/

/-- variables of `ladderInit`: u = 0; x1, x2, z2, x3, z3 = 1..5; swap = 6 -/
def initOps (u : Limbs) : LState :=
  let e := runOps ops ((Env.empty []).load 0 [u]) G.ladderInit.body
  { x1 := e.fe 1, x2 := e.fe 2, z2 := e.fe 3, x3 := e.fe 4, z3 := e.fe 5, swap := (e.int 6).toNat }

/-- variables of `ladderStep`: x1, x2, z2, x3, z3 = 0..4; swap = 5; kt = 6 (x1 is not written) -/
def stepEnv (s : LState) (kt : Nat) : Env Limbs :=
  (((Env.empty []).load 0 [s.x1, s.x2, s.z2, s.x3, s.z3]).setInt 5 (Int.ofNat s.swap)).setInt 6 (Int.ofNat kt)

def stepOps (s : LState) (kt : Nat) : LState :=
  let e := runOps ops (stepEnv s kt) G.ladderStep.body
  { x1 := s.x1, x2 := e.fe 1, z2 := e.fe 2, x3 := e.fe 3, z3 := e.fe 4, swap := (e.int 5).toNat }

/-- variables of `ladderFinish`: x2, z2, x3, z3 = 0..3; swap = 4; ret = 5 -/
def finishOps (s : LState) : Limbs :=
  (runOps ops (((Env.empty []).load 0 [s.x2, s.z2, s.x3, s.z3]).setInt 4 (Int.ofNat s.swap)) G.ladderFinish.body).fe 5

/-! ### the model = the regenerated sequences -/

/-- the loop body, for every state and every bit index -/
theorem ladderStep_ops (k : List Nat) (s : LState) (t : Nat) :
    ladderStep k s t = stepOps s (bitAt k t) := by
  ptops_named "C14StepOps.ladderStep_ops" =>
    unfold ladderStep stepOps stepEnv ops
    gen_fe448
    generalize bitAt k t = kt
    as_aux_lemma => rfl

/-- the Go `int` variable `swap` after the body is the bit `kt` itself (no information is lost by
    keeping it as a `Nat` in the model) -/
theorem ladderStep_swap (s : LState) (kt : Nat) :
    (runOps ops (stepEnv s kt) G.ladderStep.body).int 5 = Int.ofNat kt := by
  ptops_named "C14StepOps.ladderStep_swap" =>
    unfold stepEnv ops
    gen_fe448
    as_aux_lemma => rfl

/-- the initial state, for every u -/
theorem ladderInit_ops (u : Limbs) :
    initOps u = { x1 := set u, x2 := one, z2 := zero, x3 := set u, z3 := one, swap := 0 } := by
  ptops_named "C14StepOps.ladderInit_ops" =>
    unfold initOps ops
    rfl

/-- the whole field computation of `X448`: clamp, decode u, regenerated initialisation, the loop
    `for t = 447 … 0` over the regenerated body, regenerated final swaps / inversion / product -/
theorem x448Ret_ops (scalar point : Bytes) :
    x448Ret scalar point =
      finishOps (indices.foldl (fun s t => stepOps s (bitAt (clamp (scalar.map UInt8.toNat)) t))
        (initOps (setBytes (toInts point)))) := by
  ptops_named "C14StepOps.x448Ret_ops" =>
    have hstep : ∀ k : List Nat, ladderStep k = fun s t => stepOps s (bitAt k t) := by
      intro k; funext s t; exact ladderStep_ops k s t
    unfold x448Ret
    simp only [hstep, ladderInit_ops]
    generalize List.foldl _ _ indices = sN
    unfold finishOps ops
    gen_fe448
    as_aux_lemma => rfl

set_option maxRecDepth 100000 in
/-- `for t := 56*8 - 1; t >= 0; t--`: t runs 447, 446, …, 0 -/
theorem indices_loop : indices = (List.range 448).map (fun i => 447 - i) := by decide

/-! ### layout, recorded facts, well-formedness of the regenerated data -/

theorem ladderInit_facts :
    G.ladderInit.inputs = ["l0"]
    ∧ G.ladderInit.outputs = ["l1", "l2", "l3", "l4", "l5", "l6"] ∧ G.ladderInit.outIds = [1, 2, 3, 4, 5, 6]
    ∧ G.ladderInit.intVars = [6]
    ∧ G.ladderInit.guards = [] ∧ G.ladderInit.hazards = [] ∧ G.ladderInit.wf = true := by
  ptops_decide "C14StepOps.ladderInit_facts"

/-- the loop header and the text of the opaque bit extraction (`Model.X448.indices`, `bitAt`) -/
theorem ladderStep_facts :
    G.ladderStep.inputs = ["l1", "l2", "l3", "l4", "l5", "l6", "o0"]
    ∧ G.ladderStep.outputs = ["l2", "l3", "l4", "l5", "l6"] ∧ G.ladderStep.outIds = [1, 2, 3, 4, 5]
    ∧ G.ladderStep.facts = [("loop.start", "447"), ("loop.cond", "(u0 >= 0)"), ("loop.post", "--"), ("opaque o0", "(1 & int((u0[(u1 / 8)] >> (u1 % 8))))")]
    ∧ G.ladderStep.guards = [] ∧ G.ladderStep.hazards = [] ∧ G.ladderStep.wf = true := by
  ptops_decide "C14StepOps.ladderStep_facts"

/-- the range ends where the low-order test starts -/
theorem ladderFinish_facts :
    G.ladderFinish.inputs = ["l2", "l3", "l4", "l5", "l6"]
    ∧ G.ladderFinish.outputs = ["l8"] ∧ G.ladderFinish.outIds = [5]
    ∧ G.ladderFinish.facts = [("followed-by", "(u0.Equal((&u1)) == 1)")]
    ∧ G.ladderFinish.guards = [] ∧ G.ladderFinish.hazards = [] ∧ G.ladderFinish.wf = true := by
  ptops_decide "C14StepOps.ladderFinish_facts"

theorem covered :
    Gen.StepOps448.covered = ["X448 [init]", "X448 [step]", "X448 [finish]"]
    ∧ Gen.StepOps448.all.all (fun f => !f.usesOp fun o => o == .isZero || o == .inot) = true := by
  ptops_decide "C14StepOps.covered"

end C14StepOps
