import Goat.Model.PtOps
import Goat.Model.Ed448Pt
import Goat.Gen.PtOps448
import GoatProofs.Lemmas.PtOpsTac
/-
C16 (points) — the hand-written point model equals the formulas REGENERATED from the source.

`Gen.PtOps448` (translator/opseq.go, rewritten on every run from internal/edwards448/edwards448.go)
holds, per function, the sequence of field-method calls in the order of the Go text.  Here each
definition of `Model.Ed448Pt` is proved equal — for ALL operands, and for every initial content of
the receiver — to the interpretation (`PtOps.runOps`) of that sequence over the field model
(`Model.Fe448` primitives = regenerated limb programs, `Model.Fe448Ext` composites).  No arithmetic
is involved: both sides are compositions of the same field functions, and the proofs are `rfl`.

So a change of a point formula in the Go text (operand order of a Sub, a dropped doubling, another
temporary read) changes the generated data and breaks `C16PtOps.<fn>_ops`; it is no longer caught
by the differential run only.  Per function `<fn>_facts` pins the input/output layout used by the
statement, the whitelisted guard calls the `…G` variants of the model implement, well-formedness of
the generated data, and the alias-hazard list (`[]` for every covered function: the functional
model is valid for every aliasing of receiver and arguments).

Not covered (control flow; still hand-modelled and tied by the C16P stream): SetBytes, bytes
(byte-level tail), the table constructors / lookups and the three scalar multiplications.
-/
namespace C16PtOps
open Model.Fe448 Model.Fe448Ext Model.Ed448Pt
open PtOps (FieldOps Env runOps)

-- a mismatch must fail at once (and name the obligation) instead of unfolding the limb programs
attribute [local irreducible] Model.Fe448.add Model.Fe448.sub Model.Fe448.mul Model.Fe448.square
  Model.Fe448.negate Model.Fe448.mul32 Model.Fe448.setBytes Model.Fe448Ext.inv Model.Fe448Ext.select
  Model.Fe448Ext.swap Model.Fe448Ext.isNegative Model.Fe448Ext.equal Model.Ed448Pt.feD

/-- the field operations of `Model.Fe448` / `Model.Fe448Ext`; Go `int` operators on the 0/1 results of
    `Equal` as `Model.Ed448Pt.equal` writes them.  `isZero` does not exist in this field package
    (`all_ops_known`: no covered sequence uses it). -/
def ops : FieldOps Limbs where
  add := Model.Fe448.add
  sub := Model.Fe448.sub
  mul := Model.Fe448.mul
  square := Model.Fe448.square
  neg := Model.Fe448.negate
  inv := Model.Fe448Ext.inv
  set := Model.Fe448Ext.set
  one := Model.Fe448Ext.one
  zero := Model.Fe448Ext.zero
  mul32 := Model.Fe448.mul32
  select := Model.Fe448Ext.select
  swap := Model.Fe448Ext.swap
  isZero := fun _ => 0
  isNegative := Model.Fe448Ext.isNegative
  equal := Model.Fe448Ext.equal
  iand := fun a b => Int.ofNat (a.toNat &&& b.toNat)
  ior := fun a b => Int.ofNat (a.toNat ||| b.toNat)
  ixor := fun a b => Int.ofNat (a.toNat ^^^ b.toNat)
  inot := fun a => 1 - a

/-- run a regenerated function on the given field inputs (variable numbers 0, 1, …) -/
def run (f : PtOps.Fn) (ins : List Limbs) : Env Limbs := runOps ops ((Env.empty []).load 0 ins) f.body

/-- the receiver after the call: variables 0, 1, 2 (`*_facts` pins `outIds = [0, 1, 2]`) -/
def pt (e : Env Limbs) : Point := ⟨e.fe 0, e.fe 1, e.fe 2⟩

def coords (p : Point) : List Limbs := [p.x, p.y, p.z]

namespace G
export Gen.PtOps448 (set zero add double negate sub select condNeg equal)
end G

/-- generalise the field functions (see Lemmas/PtOpsTac.lean) -/
local macro "gen_fe448" : tactic => `(tactic| (
  generalize Model.Fe448.add = fadd
  generalize Model.Fe448.sub = fsub
  generalize Model.Fe448.mul = fmul
  generalize Model.Fe448.square = fsquare
  generalize Model.Fe448.negate = fneg
  generalize Model.Fe448.mul32 = fmul32
  generalize Model.Fe448Ext.inv = finv
  generalize Model.Fe448Ext.select = fselect
  generalize Model.Fe448Ext.swap = fswap
  generalize Model.Fe448Ext.isNegative = fisNegative
  generalize Model.Fe448Ext.equal = fequal
  generalize Model.Ed448Pt.feD = cD))

/-! ### the model = the regenerated sequence, for all operands and every old receiver content `v` -/

theorem set_ops (v u : Point) : Model.Ed448Pt.set u = pt (run G.set (coords v ++ coords u)) := by
  ptops_named "C16PtOps.set_ops" =>
    unfold Model.Ed448Pt.set run ops
    rfl

theorem zero_ops (v : Point) : zeroPt = pt (run G.zero (coords v)) := by
  ptops_named "C16PtOps.zero_ops" =>
    unfold zeroPt run ops
    rfl

theorem add_ops (v p q : Point) :
    Model.Ed448Pt.add p q = pt (run G.add (coords v ++ coords p ++ coords q ++ [feD])) := by
  ptops_named "C16PtOps.add_ops" =>
    unfold Model.Ed448Pt.add run ops
    gen_fe448
    as_aux_lemma => rfl

theorem double_ops (v u : Point) :
    Model.Ed448Pt.double u = pt (run G.double (coords v ++ coords u)) := by
  ptops_named "C16PtOps.double_ops" =>
    unfold Model.Ed448Pt.double run ops
    gen_fe448
    as_aux_lemma => rfl

theorem negate_ops (v p : Point) :
    Model.Ed448Pt.negate p = pt (run G.negate (coords v ++ coords p)) := by
  ptops_named "C16PtOps.negate_ops" =>
    unfold Model.Ed448Pt.negate run ops
    gen_fe448
    as_aux_lemma => rfl

/-- `neg.Negate(q); v.Add(p, &neg)` with both calls inlined -/
theorem sub_ops (v p q : Point) :
    Model.Ed448Pt.sub p q = pt (run G.sub (coords v ++ coords p ++ coords q ++ [feD])) := by
  ptops_named "C16PtOps.sub_ops" =>
    unfold Model.Ed448Pt.sub Model.Ed448Pt.add Model.Ed448Pt.negate run ops
    gen_fe448
    as_aux_lemma => rfl

theorem select_ops (v p q : Point) (cond : Int) :
    Model.Ed448Pt.select p q cond
      = pt (runOps ops (((Env.empty []).load 0 (coords v ++ coords p ++ coords q)).setInt 9 cond) G.select.body) := by
  ptops_named "C16PtOps.select_ops" =>
    unfold Model.Ed448Pt.select ops
    gen_fe448
    as_aux_lemma => rfl

/-- `neg.Negate(v); v.Select(&neg, v, cond)`: the receiver is also the second operand — the inlined
    sequence reads `v.x` as operand of the select that writes it -/
theorem condNeg_ops (v : Point) (cond : Int) :
    Model.Ed448Pt.condNeg v cond
      = pt (runOps ops (((Env.empty []).load 0 (coords v)).setInt 3 cond) G.condNeg.body) := by
  ptops_named "C16PtOps.condNeg_ops" =>
    unfold Model.Ed448Pt.condNeg Model.Ed448Pt.select Model.Ed448Pt.negate ops
    gen_fe448
    as_aux_lemma => rfl

theorem equal_ops (v u : Point) :
    Model.Ed448Pt.equal v u = (run G.equal (coords v ++ coords u)).int 10 := by
  ptops_named "C16PtOps.equal_ops" =>
    unfold Model.Ed448Pt.equal run ops
    gen_fe448
    as_aux_lemma => rfl

/-! ### layout, guards, hazards, well-formedness of the regenerated data -/

theorem set_facts :
    G.set.inputs = ["r.f0", "r.f1", "r.f2", "p0.f0", "p0.f1", "p0.f2"] ∧ G.set.outIds = [0, 1, 2]
    ∧ G.set.guards = [] ∧ G.set.hazards = [] ∧ G.set.wf = true := by ptops_decide "C16PtOps.set_facts"

theorem zero_facts :
    G.zero.inputs = ["r.f0", "r.f1", "r.f2"] ∧ G.zero.outIds = [0, 1, 2]
    ∧ G.zero.guards = [] ∧ G.zero.hazards = [] ∧ G.zero.wf = true := by ptops_decide "C16PtOps.zero_facts"

/-- `checkInitialized(p, q)` is the guard `Model.Ed448Pt.addG` implements -/
theorem add_facts :
    G.add.inputs = ["r.f0", "r.f1", "r.f2", "p0.f0", "p0.f1", "p0.f2", "p1.f0", "p1.f1", "p1.f2", "feD"]
    ∧ G.add.outIds = [0, 1, 2]
    ∧ G.add.guards = [("checkInitialized", ["p0", "p1"])]
    ∧ G.add.hazards = [] ∧ G.add.wf = true := by ptops_decide "C16PtOps.add_facts"

theorem double_facts :
    G.double.inputs = ["r.f0", "r.f1", "r.f2", "p0.f0", "p0.f1", "p0.f2"] ∧ G.double.outIds = [0, 1, 2]
    ∧ G.double.guards = [] ∧ G.double.hazards = [] ∧ G.double.wf = true := by ptops_decide "C16PtOps.double_facts"

/-- `checkInitialized(p)`: `negateG` -/
theorem negate_facts :
    G.negate.inputs = ["r.f0", "r.f1", "r.f2", "p0.f0", "p0.f1", "p0.f2"] ∧ G.negate.outIds = [0, 1, 2]
    ∧ G.negate.guards = [("checkInitialized", ["p0"])]
    ∧ G.negate.hazards = [] ∧ G.negate.wf = true := by ptops_decide "C16PtOps.negate_facts"

/-- `neg.Negate(q)` checks q, then `v.Add(p, &neg)` checks p and neg: `subG` -/
theorem sub_facts :
    G.sub.inputs = ["r.f0", "r.f1", "r.f2", "p0.f0", "p0.f1", "p0.f2", "p1.f0", "p1.f1", "p1.f2", "feD"]
    ∧ G.sub.outIds = [0, 1, 2]
    ∧ G.sub.guards = [("checkInitialized", ["p1"]), ("checkInitialized", ["p0", "l0"])]
    ∧ G.sub.hazards = [] ∧ G.sub.wf = true := by ptops_decide "C16PtOps.sub_facts"

theorem select_facts :
    G.select.inputs = ["r.f0", "r.f1", "r.f2", "p0.f0", "p0.f1", "p0.f2", "p1.f0", "p1.f1", "p1.f2", "p2"]
    ∧ G.select.outIds = [0, 1, 2] ∧ G.select.intVars = [9]
    ∧ G.select.guards = [] ∧ G.select.hazards = [] ∧ G.select.wf = true := by ptops_decide "C16PtOps.select_facts"

/-- `neg.Negate(v)` checks v: `condNegG` -/
theorem condNeg_facts :
    G.condNeg.inputs = ["r.f0", "r.f1", "r.f2", "p0"] ∧ G.condNeg.outIds = [0, 1, 2]
    ∧ G.condNeg.intVars = [3]
    ∧ G.condNeg.guards = [("checkInitialized", ["r"])]
    ∧ G.condNeg.hazards = [] ∧ G.condNeg.wf = true := by ptops_decide "C16PtOps.condNeg_facts"

/-- `checkInitialized(v, u)`: `equalG` -/
theorem equal_facts :
    G.equal.inputs = ["r.f0", "r.f1", "r.f2", "p0.f0", "p0.f1", "p0.f2"]
    ∧ G.equal.outputs = ["return"] ∧ G.equal.outIds = [10]
    ∧ G.equal.guards = [("checkInitialized", ["r", "p0"])]
    ∧ G.equal.hazards = [] ∧ G.equal.wf = true := by ptops_decide "C16PtOps.equal_facts"

/-- the list of covered functions is the one this module proves, and no sequence reaches the dummy
    `isZero` of `ops` or the `^` operator -/
theorem covered :
    Gen.PtOps448.covered = ["Point.Set", "Point.Zero", "Point.Add", "Point.Double", "Point.Negate",
      "Point.Sub", "Point.Select", "Point.CondNeg", "Point.Equal"]
    ∧ Gen.PtOps448.all.all (fun f => !f.usesOp fun o => o == .isZero || o == .inot) = true := by ptops_decide "C16PtOps.covered"

/-- the guarded variants of the model are the regenerated guards around the regenerated formulas
    (guard order as in the Go text: Sub checks q inside Negate before Add checks p and the negation) -/
theorem addG_ops (v p q : Point) :
    addG p q = guard1 p (guard1 q (.ok (pt (run G.add (coords v ++ coords p ++ coords q ++ [feD]))))) := by
  ptops_named "C16PtOps.addG_ops" =>
    unfold addG
    rw [add_ops v p q]

theorem subG_ops (v p q : Point) :
    subG p q = guard1 q ((guard1 p (guard1 (Model.Ed448Pt.negate q)
      (.ok (pt (run G.sub (coords v ++ coords p ++ coords q ++ [feD]))))))) := by
  ptops_named "C16PtOps.subG_ops" =>
    rw [← sub_ops v p q]
    unfold subG negateG addG guard1 Model.Ed448Pt.sub
    cases initialized q <;> rfl

end C16PtOps
