import Goat.Model.PtOps
import Goat.Model.K1Pt
import Goat.Gen.TblOps256
import GoatProofs.Lemmas.PtOpsTac
import GoatProofs.Lemmas.PtOpsKernelRfl
/-
C15 (tables) — the hand-written secp256k1 table models equal the LOOPS regenerated from the source.

`Gen.TblOps256` (translator/opstmt.go, rewritten on every run from internal/curve256k1/table.go and
scalarmult.go) holds `lookupTable.Init`, `lookupTable.SelectInto` and `initBaseTable` as `PtOps.Stmt`
trees.  `Model.WindowMul.k1LookupInit` / `k1BaseTable` (generic over the point operations) are proved
equal to `PtOps.runStmt` of the regenerated trees for every carrier and operation record, by
evaluation in the kernel; `Model.K1Pt.selectInto` (range panic + the constant-time Select chain) is
proved equal for the concrete operations.  `<fn>_facts` pins inputs/outputs, the `if x >= 16 { panic }`
guard, `paramWrites` and the alias hazards that exist.
-/
namespace C15TblOps
open PtOps Model.WindowMul

namespace G
export Gen.TblOps256 (lookupInit lookupSelect initBaseTable)
end G

variable {C : Type}

def pops (g : GroupOps C) (sel : C → C → Int → C) (gen : C) (cteq : Int → Int → Int) : PointOps C where
  set := fun u => u
  zero := g.zero
  add := g.add
  double := g.double
  neg := g.neg
  sub := g.sub
  select := sel
  condNeg := fun u _ => u
  fromAffine := fun u => u
  newGenerator := gen
  newIdentity := g.zero
  ctEq := cteq
  tblInit := fun _ p _ => p
  tblSelect := fun _ f off _ => f off

def env0 (d : C) (a0 : Nat → C) : PEnv C := ⟨fun _ => d, fun _ => a0, fun _ => 0, fun _ _ => 0⟩

/-- `lookupTable.Init(p)`: points[0] = p; for i = 1, 3, …, 13: points[i] = 2·points[i/2],
    points[i+1] = points[i] + p.  Variables v.points = 0, p = 1 -/
theorem lookupInit_ops (g : GroupOps C) (sel gen cteq) (a0 : Nat → C) (p d : C) :
    k1LookupInit g p
      = (List.range 15).map ((runStmt (pops g sel gen cteq) G.lookupInit.body ((env0 d a0).setPt 1 p)).arrs 0) := by
  ptops_named "C15TblOps.lookupInit_ops" => kernel_rfl

/-- `initBaseTable()`: `base.FromAffine(gen.NewGenerator())` (the constant `gen` here), 64 tables of 15
    entries (entry k of table i = element 15·i + k of variable 2), four `base.Double(&base)` between -/
theorem initBaseTable_ops (g : GroupOps C) (sel gen cteq) (a0 : Nat → C) (d : C) :
    (k1BaseTable g 64 gen).flatten
      = (List.range 960).map ((runStmt (pops g sel gen cteq) G.initBaseTable.body (env0 d a0)).arrs 2) := by
  kernel_rfl!   -- one kernel evaluation; a mismatch is reported by the kernel as a type mismatch of this theorem

open Model.K1Pt in
/-- `lookupTable.SelectInto(dest, x)`: the range panic, `dest.Zero()`, fifteen constant-time Selects.
    Variables v.points = 0, dest = 1, x = 2 -/
theorem lookupSelect_ops (tbl : List Jac) (x : Nat) (dest d gen : Jac) :
    selectInto tbl x
      = if x ≥ 16 then .panic "k1.select.range"
        else .ok ((runStmt (pops ops jselect gen (fun a b => if a.toNat = b.toNat then 1 else 0)) G.lookupSelect.body
          (((env0 d (fun k => tbl.getD k jzero)).setPt 1 dest).setInt 2 (Int.ofNat x))).pts 1) := by
  ptops_named "C15TblOps.lookupSelect_ops" =>
    unfold selectInto pops
    generalize Model.K1Pt.jselect = fsel
    as_aux_lemma => rfl

theorem lookupInit_facts :
    G.lookupInit.inputs = ["r.f0", "p0"] ∧ G.lookupInit.outputs = ["r.f0"]
    ∧ G.lookupInit.guards = [] ∧ G.lookupInit.paramWrites = []
    ∧ G.lookupInit.hazards = ["read of p0 after write of r.f0"] := by
  ptops_decide "C15TblOps.lookupInit_facts"

theorem lookupSelect_facts :
    G.lookupSelect.inputs = ["r.f0", "p0", "p1"] ∧ G.lookupSelect.outputs = ["p0"]
    ∧ G.lookupSelect.guards = [("panic-if", ["(p1 >= 16)"])] ∧ G.lookupSelect.paramWrites = ["p0"]
    ∧ G.lookupSelect.hazards = ["read of r.f0 after write of p0"] := by
  ptops_decide "C15TblOps.lookupSelect_facts"

theorem initBaseTable_facts :
    G.initBaseTable.inputs = ["baseTable[].f0"] ∧ G.initBaseTable.outputs = ["baseTable[].f0"]
    ∧ G.initBaseTable.guards = [] ∧ G.initBaseTable.paramWrites = [] ∧ G.initBaseTable.hazards = []
    ∧ G.initBaseTable.facts.take 2 = [("once", "initOnce"),
        ("constant .newGenerator", "u0.FromAffine(u1.NewGenerator())")] := by
  ptops_decide "C15TblOps.initBaseTable_facts"

theorem covered :
    Gen.TblOps256.covered = ["lookupTable.Init", "lookupTable.SelectInto", "initBaseTable",
      "PointJacobian.ScalarMult", "PointJacobian.ScalarBaseMult"] := by
  ptops_decide "C15TblOps.covered"

end C15TblOps
