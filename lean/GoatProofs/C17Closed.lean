import GoatProofs.C17Ext
import GoatProofs.Primes
/-
C17 — hypothesis-free versions of the statements of `C17Ext` that were stated under
`Nat.Prime (2^448 − 2^224 − 1)`: the primality is now a THEOREM (`GoatProofs.Primes.p448_prime`,
Pratt certificates re-checked by the kernel), so field inversion and the square-root criterion hold
outright for every representation inside the invariant.
-/
namespace C17Closed
open C17 C17Ext Model.Fe448 Model.Fe448Ext

theorem p448_prime : Nat.Prime C17Ext.p448 := GoatProofs.Primes.p448_prime

/-- Fermat in GF(p): x · x^(p−2) ≡ 1 (mod p) for every x ≢ 0 — no hypothesis -/
theorem inv_mul_cancel (x : Int) (hx : ¬ Cong x 0) :
    Cong (x * x ^ (2 ^ 448 - 2 ^ 224 - 3)) 1 :=
  C17Ext.inv_mul_cancel p448_prime x hx

/-- `z.Mul(z, Inv(z))` represents 1 for every representation z of a non-zero residue -/
theorem inv_correct {z : Limbs} {x : Int} (h : Rep z x) (hx : ¬ Cong x 0) :
    Rep (mul z (inv z)) 1 :=
  C17Ext.inv_correct p448_prime h hx

/-- `SqrtRatio(u, v)` reports wasSquare = 1 exactly when a/b is a square in GF(p) (b ≢ 0) -/
theorem sqrtRatio_square_iff {u v : Limbs} {a b : Int} (hu : Rep u a) (hv : Rep v b)
    (hb : ¬ Cong b 0) :
    (sqrtRatio u v).2 = 1 ↔ ∃ s : Int, Cong (s * s * b) a :=
  C17Ext.sqrtRatio_square_iff p448_prime hu hv hb

end C17Closed
