import GoatProofs.Lemmas.C19Ops
/-
C19 — keys, IVs and salts drawn for encryption are fresh and correctly sized.

All theorems are about `Model.Rand` (lean/Goat/Model/Rand.lean), for EVERY oracle `o` (= every
content of the random stream, including a failing `rand.Read`), EVERY variant `v` of the four
behaviours under repair and EVERY history `ops : List Op`, started in the empty state.

What is NOT a theorem here (trusted base): that independent draws from the operating system's
entropy source are distinct with overwhelming probability — the theorems say that every issued
value IS such a draw (a segment of the stream never handed out before); and the concurrent use
of ONE agcm instance (see `lost_update`).
-/
namespace Model.Rand

/-! ## histories -/

theorem final_ext (o : Oracle) : ∀ (ops : List Op) (s : St), Ext o s (final o s ops)
  | [], s => Ext.refl o s
  | op :: ops, s => Ext.trans ((step_ext op).run o s) (final_ext o ops _)

theorem final_inv (o : Oracle) : ∀ (ops : List Op) (s : St), Inv s → Inv (final o s ops)
  | [], _, h => h
  | op :: ops, _, h => final_inv o ops _ (Inv.step op h)

/-- every recorded step of a history starts in a state reached by a prefix of the history, is one
    `stepRun`, and is followed by the rest of the history -/
theorem trace_mem (o : Oracle) : ∀ (ops : List Op) (s : St) (r : Rec), r ∈ trace o s ops →
    ∃ pre post : List Op, ops = pre ++ r.op :: post ∧ r.pre = final o s pre ∧
      r.out = (stepRun o r.pre r.op).1 ∧ r.post = (stepRun o r.pre r.op).2
  | [], _, r, h => by simp [trace] at h
  | op :: ops, s, r, h => by
    simp only [trace, List.mem_cons] at h
    rcases h with rfl | h
    · exact ⟨[], ops, rfl, rfl, rfl, rfl⟩
    · obtain ⟨pre, post, h1, h2, h3, h4⟩ := trace_mem o ops _ r h
      exact ⟨op :: pre, post, by rw [h1]; rfl, by rw [h2]; rfl, h3, h4⟩

theorem final_append (o : Oracle) : ∀ (a b : List Op) (s : St),
    final o s (a ++ b) = final o (final o s a) b
  | [], _, _ => rfl
  | x :: a, b, s => by simp only [List.cons_append, final]; exact final_append o a b _

/-! ## fresh_draw -/

/-- **fresh_draw** (whole history).  The draws of a history are consecutive segments of the random
    stream starting at position 0: each one is exactly the oracle's answer for its own segment
    `[pos, pos + length)`, the segments are strictly ordered — hence pairwise disjoint: no byte of
    the stream is issued twice, nothing issued is a constant or an earlier slice — and the final
    position is the total number of bytes drawn. -/
theorem fresh_draw (o : Oracle) (ops : List Op) :
    let s := final o St.init ops
    Chain o 0 s.log s.pos ∧
    s.log.Pairwise (fun a b => a.pos + a.bytes.length ≤ b.pos) ∧
    (∀ d ∈ s.log, o ⟨"rand", [.int d.pos, .int d.bytes.length]⟩ = .bytes d.bytes) ∧
    s.pos = totalLen s.log := by
  intro s
  obtain ⟨ds, hl, hc⟩ := final_ext o ops St.init
  have hl' : s.log = ds := by
    have : St.init.log ++ ds = ds := rfl
    rw [← this]; exact hl
  have hc' : Chain o 0 s.log s.pos := by rw [hl']; exact hc
  exact ⟨hc', hc'.pairwise, hc'.answer, by simpa using hc'.total⟩

/-- **fresh_draw** (per step).  The draws made during one step of a history are appended to the
    log, form a chain from the position before to the position after the step (so the position is
    monotone and advances by exactly the number of bytes drawn), and lie strictly beyond every
    draw made earlier in the history. -/
theorem step_draws (o : Oracle) (ops : List Op) (r : Rec) (hr : r ∈ trace o St.init ops) :
    r.post.log = r.pre.log ++ r.newDraws ∧
    Chain o r.pre.pos r.newDraws r.post.pos ∧
    r.post.pos = r.pre.pos + totalLen r.newDraws ∧
    (∀ d ∈ r.newDraws, ∀ d' ∈ r.pre.log, d'.pos + d'.bytes.length ≤ d.pos) := by
  obtain ⟨pre, post, _, hpre, _, hpost⟩ := trace_mem o ops _ r hr
  have hstep : Ext o r.pre r.post := by rw [hpost]; exact (step_ext r.op).run o r.pre
  obtain ⟨h1, h2⟩ := hstep.newDraws
  refine ⟨h1, h2, h2.total, ?_⟩
  intro d hd d' hd'
  obtain ⟨ds, hl, hc⟩ := final_ext o pre St.init
  rw [← hpre] at hl hc
  have hl' : r.pre.log = ds := by
    have : St.init.log ++ ds = ds := rfl
    rw [← this]; exact hl
  have b1 := (h2.bounds d hd).1
  have b2 := (hc.bounds d' (by rw [← hl']; exact hd')).2
  omega

/-! ## gcm_iv_distinct -/

/-- **gcm_iv_distinct.**  Epoch of an agcm instance `i` := the successful `GenerateIV` calls on `i`
    since its creation or its last successful `GenerateCEK` (`epochIVs`/`epochStep`).  At the end
    of every history — hence, histories being arbitrary, at every point of every history — the IVs
    issued in the current epoch of every instance are pairwise distinct. -/
theorem gcm_iv_distinct (o : Oracle) (ops : List Op) (i : Nat) :
    (epochIVs i (trace o St.init ops) []).Nodup := by
  have h := epochIVs_coupled o i ops St.init [] Inv.init (by simp [Coupled, St.init])
  obtain ⟨hinv, hc⟩ := h
  unfold Coupled at hc
  cases hg : (final o St.init ops).insts[i]? with
  | none => rw [hg] at hc; simp only at hc; rw [hc]; exact List.nodup_nil
  | some g =>
    rw [hg] at hc; simp only at hc
    rw [hc]
    have := hinv i g hg
    exact ivRange_nodup this.1 _ this.2.1

/-- the IVs of the current epoch are exactly `mask ⊕ be64 1, …, mask ⊕ be64 counter` -/
theorem gcm_epoch_ivs (o : Oracle) (ops : List Op) (i : Nat) (g : Gcm)
    (hg : (final o St.init ops).insts[i]? = some g) :
    epochIVs i (trace o St.init ops) [] = ivRange g.mask g.counter ∧
    g.mask.length = 12 ∧ g.counter < 2 ^ 64 := by
  have h := epochIVs_coupled o i ops St.init [] Inv.init (by simp [Coupled, St.init])
  obtain ⟨hinv, hc⟩ := h
  unfold Coupled at hc
  rw [hg] at hc
  have := hinv i g hg
  exact ⟨hc, this.1, this.2.1⟩

/-- **overflow ⇒ error, not reuse.**  When the counter of an instance is `2^64 − 1`, `GenerateIV`
    fails, draws nothing and leaves the state as it is (in any state, reachable or not). -/
theorem gcm_overflow_is_error (o : Oracle) (s : St) (i : Nat) (g : Gcm)
    (hg : s.insts[i]? = some g) (hc : g.counter = 2 ^ 64 - 1) :
    stepRun o s (.gcmIV i) = (.err "gcm-counter-overflow", s) := by
  rw [stepRun_gcmIV, hg]
  simp [hc]

/-- …and the state before the last IV of an epoch is reachable in the model by state, so the
    statement is not vacuous: with counter `2^64 − 2` one more IV is issued, then only errors. -/
example (o : Oracle) :
    let g : Gcm := ⟨.a128gcm, 16, List.replicate 12 0, 2 ^ 64 - 2⟩
    let s : St := { St.init with insts := [g] }
    (stepRun o s (.gcmIV 0)).1 = .ok [.iv (xorCtr g.mask (2 ^ 64 - 1))] ∧
    (stepRun o (stepRun o s (.gcmIV 0)).2 (.gcmIV 0)).1 = .err "gcm-counter-overflow" := by
  intro g s
  constructor
  · rw [stepRun_gcmIV]; simp [s, g, St.init]
  · rw [stepRun_gcmIV, stepRun_gcmIV]; simp [s, g, St.init]

/-! ## sizes, and every issued value is a new draw -/

theorem trace_inv (o : Oracle) (ops : List Op) (r : Rec) (hr : r ∈ trace o St.init ops) : Inv r.pre := by
  obtain ⟨pre, _, _, hpre, _, _⟩ := trace_mem o ops _ r hr
  rw [hpre]; exact final_inv o pre _ Inv.init

/-- **fresh_draw** (per issued value) and **sizes**, in one statement (`ItemOK`, Lemmas/C19Items):
    in every step of every history, every value handed out satisfies
    * a generated CEK is the content of a `cek` draw made in THIS step and has `CEKSize(enc)` bytes;
    * a content-encryption IV has `IVSize(enc)` bytes and is either a 16-byte `cbcIV` draw of this
      step, or `mask ⊕ be64 c` with a 12-byte mask, `1 ≤ c < 2^64`, where for `c = 1` the mask is a
      `gcmMask` draw of this step;
    * an AES-GCM key-wrap `iv` that was not supplied is a 12-byte `kwIV` draw of this step, a
      supplied one is the caller's header value (12 bytes);
    * a PBES2 `p2s` that was not supplied is a 32-byte `salt` draw of this step, a supplied one is
      the caller's value;
    * `p2c` is the caller's count, or 10000 exactly when the caller gave none (0);
    * an agreed key has `CEKSize(enc)` bytes. -/
theorem issued_ok (o : Oracle) (ops : List Op) (r : Rec) (hr : r ∈ trace o St.init ops)
    (items : List Item) (hout : r.out = .ok items) :
    ∀ it ∈ items, ItemOK r.newDraws (r.op.enc? r.pre) r.op.hdr? it := by
  obtain ⟨_, _, _, _, ho, hp⟩ := trace_mem o ops _ r hr
  have hrun : stepRun o r.pre r.op = (.ok items, r.post) := by
    rw [← hout, ho, hp]
  obtain ⟨ds, hl, ok⟩ := step_items (trace_inv o ops r hr) hrun
  have : r.newDraws = ds := by simp [Rec.newDraws, hl]
  rw [this]; exact ok

/-- **sizes** (the length clauses of `issued_ok`, spelled out). -/
theorem sizes (o : Oracle) (ops : List Op) (r : Rec) (hr : r ∈ trace o St.init ops)
    (items : List Item) (hout : r.out = .ok items) :
    (∀ b, Item.cek b ∈ items → ∀ e, r.op.enc? r.pre = some e → b.length = e.cekSize) ∧
    (∀ b, Item.iv b ∈ items → (b.length = 12 ∨ b.length = 16) ∧
        ∀ e, r.op.enc? r.pre = some e → b.length = e.ivSize) ∧
    (∀ b, Item.kwIV b false ∈ items → b.length = 12) ∧
    (∀ b, Item.salt b false ∈ items → b.length = 32) ∧
    (∀ n d, Item.p2c n d ∈ items → ∀ h, r.op.hdr? = some h →
        n = (if h.p2c = 0 then 10000 else h.p2c) ∧ d = decide (h.p2c = 0)) ∧
    (∀ n, Item.cekAgreed n ∈ items → ∀ e, r.op.enc? r.pre = some e → n = e.cekSize) := by
  have h := issued_ok o ops r hr items hout
  refine ⟨fun b hb => (h _ hb).2, fun b hb => ⟨?_, (h _ hb).1⟩, fun b hb => (h _ hb).1,
    fun b hb => (h _ hb).1, fun n d hb => h _ hb, fun n hb => h _ hb⟩
  rcases (h _ hb).2 with h2 | h2
  · exact Or.inr h2.1
  · exact Or.inl h2.1

/-- **gcm_iv_len.**  Every IV an agcm instance issues has 12 bytes (`= IVSize(enc)`). -/
theorem gcm_iv_len (o : Oracle) (ops : List Op) (r : Rec) (hr : r ∈ trace o St.init ops) (i : Nat)
    (hop : r.op = .gcmIV i) (items : List Item) (hout : r.out = .ok items) :
    ∀ b, Item.iv b ∈ items → b.length = 12 := by
  intro b hb
  have h := issued_ok o ops r hr items hout _ hb
  rcases h.2 with h2 | h2
  · -- a CBC IV cannot be issued by an agcm instance: no cbcIV draw is made by this step
    obtain ⟨_, _, _, _, ho, hp⟩ := trace_mem o ops _ r hr
    have hI := trace_inv o ops r hr
    rw [hop] at ho
    rw [stepRun_gcmIV] at ho
    cases hg : r.pre.insts[i]? with
    | none => rw [hg] at ho; rw [ho] at hout; simp at hout
    | some g =>
      have hs := (sizes o ops r hr items hout).2.1 b hb
      have : r.op.enc? r.pre = some g.enc := by rw [hop]; simp [Op.enc?, hg]
      rw [hs.2 _ this]
      exact gcm_ivSize (hI i g hg).2.2.1
  · exact h2.1

/-! ## jwe_fresh_per_message -/

/-- **jwe_fresh_per_message.**  Every message created by `NewMessage` / `NewMessageWithKW` in any
    history has (`MsgFresh`, Lemmas/C19Ops)
    * an IV that is a 16-byte draw of this very step (CBC) or `mask ⊕ be64 1` — the FIRST IV of an
      instance nobody else holds — whose 12-byte mask is a draw of this very step (GCM);
    * a CEK that is a draw of this very step of exactly `CEKSize(enc)` bytes, unless the algorithm
      defines it as the shared key (`dir`, then it must have `CEKSize(enc)` bytes) or the agreed key
      (ECDH-ES direct);
    and by `step_draws` the draws of this step lie beyond every earlier draw of the history. -/
theorem jwe_fresh_per_message (o : Oracle) (ops : List Op) (r : Rec) (hr : r ∈ trace o St.init ops)
    (items : List Item) (hout : r.out = .ok items) :
    (∀ e, r.op = .newMessage e → MsgFresh e r.newDraws items) ∧
    (∀ e kw h, r.op = .newMessageKW e kw h → MsgFresh e r.newDraws items) := by
  obtain ⟨_, _, _, _, ho, hp⟩ := trace_mem o ops _ r hr
  have hrun : stepRun o r.pre r.op = (.ok items, r.post) := by rw [← hout, ho, hp]
  constructor
  · intro e he
    rw [he] at hrun
    obtain ⟨ds, hl, _, fr⟩ := newMessage_ok hrun
    have : r.newDraws = ds := by simp [Rec.newDraws, hl]
    rw [this]; exact fr
  · intro e kw h he
    rw [he] at hrun
    obtain ⟨ds, hl, _, fr⟩ := newMessageKW_ok hrun
    have : r.newDraws = ds := by simp [Rec.newDraws, hl]
    rw [this]; exact fr

/-! ## draws of different calls never overlap, whatever was passed before -/

/-- **steps_draws_disjoint.**  In every history, the draws of any two different steps are disjoint
    segments of the stream, the earlier step's strictly before the later step's — whatever
    operations, headers, keys and messages the calls in between (or before) were given.  In
    particular message `k` consumes its own draws: nothing drawn for an earlier message, recipient
    or key wrap is ever handed out again. -/
theorem steps_draws_disjoint (o : Oracle) : ∀ (ops : List Op) (s : St),
    (trace o s ops).Pairwise (fun r₁ r₂ =>
      ∀ d₁ ∈ r₁.newDraws, ∀ d₂ ∈ r₂.newDraws, d₁.pos + d₁.bytes.length ≤ d₂.pos)
  | [], _ => List.Pairwise.nil
  | op :: ops, s => by
    simp only [trace]
    refine List.Pairwise.cons ?_ (steps_draws_disjoint o ops _)
    intro r hr d₁ hd₁ d₂ hd₂
    have h0 : Ext o s (stepRun o s op).2 := (step_ext op).run o s
    obtain ⟨_, hc0⟩ := h0.newDraws
    obtain ⟨pre, _, _, hpre, _, hpost⟩ := trace_mem o ops _ r hr
    have h1 : Ext o (stepRun o s op).2 r.pre := by rw [hpre]; exact final_ext o pre _
    obtain ⟨_, _, hc1⟩ := h1
    have h2 : Ext o r.pre r.post := by rw [hpost]; exact (step_ext r.op).run o r.pre
    obtain ⟨_, hc2⟩ := h2.newDraws
    have b0 := (hc0.bounds d₁ hd₁).2
    have b1 := hc1.le
    have b2 := (hc2.bounds d₂ hd₂).1
    omega

/-- **kw_fresh_whatever_before.**  Whether a key-wrapping call draws is decided by the header VALUE
    the caller passes to THIS call and by nothing that happened before (the model's state holds no
    header): in every history, whenever `WrapKey` / `NewMessageWithKW` / `Message.Encrypt` is given
    an AES-GCM key wrapper and a header without `iv` (nil or empty), the `iv` it hands out is a
    12-byte draw of this very step; given a PBES2 wrapper and a header without `p2s`, the salt is a
    32-byte draw of this very step.  With `steps_draws_disjoint`: a key-wrap iv or salt of one
    call is never that of another call. -/
theorem kw_fresh_whatever_before (o : Oracle) (ops : List Op) (r : Rec) (hr : r ∈ trace o St.init ops)
    (items : List Item) (hout : r.out = .ok items) (kw : KW) (hd : Hdr)
    (ha : r.op.kwArgs? = some (kw, hd)) :
    (kw = .gcmkw → (hd.iv.getD []).length = 0 →
        ∃ b, Item.kwIV b false ∈ items ∧ b.length = 12 ∧ Backed r.newDraws .kwIV b) ∧
    (kw = .pbes2 → hd.p2s = none →
        ∃ b, Item.salt b false ∈ items ∧ b.length = 32 ∧ Backed r.newDraws .salt b) := by
  obtain ⟨_, _, _, _, ho, hp⟩ := trace_mem o ops _ r hr
  have hrun : stepRun o r.pre r.op = (.ok items, r.post) := by rw [← hout, ho, hp]
  obtain ⟨n, h', kitems, s1, s2, hk, hsub⟩ := step_kwWrap ha hrun
  have hf := kwWrap_fresh hk
  have hok := issued_ok o ops r hr items hout
  constructor
  · intro hkw h0
    obtain ⟨b, hb⟩ := hf.1 hkw h0
    have hm : Item.kwIV b false ∈ items := hsub _ (by rw [hb]; exact List.mem_singleton.mpr rfl)
    exact ⟨b, hm, (hok _ hm).1, (hok _ hm).2⟩
  · intro hkw h0
    obtain ⟨b, c, hb⟩ := hf.2 hkw h0
    have hm : Item.salt b false ∈ items := hsub _ (by rw [hb]; exact List.mem_cons_self)
    exact ⟨b, hm, (hok _ hm).1, (hok _ hm).2⟩

/-! ## non-vacuity: a concrete stream and a concrete history -/

/-- a concrete stream: the byte at position `p` is `p mod 256` -/
def oCount : Oracle := fun q =>
  match q.args with
  | [.int p, .int n] => .bytes ((List.range n.toNat).map (fun k => UInt8.ofNat (p.toNat + k)))
  | _ => .none

/-- a stream whose reads fail -/
def oFail : Oracle := fun _ => .none

def demo : List Op :=
  [.newGcm .a128gcm, .gcmCEK 0, .gcmIV 0, .gcmIV 0, .gcmIV 0, .newMessage .a128cbc,
   .newMessageKW .a256gcm .pbes2 ⟨none, none, 0⟩, .newMessageKW .a128gcm .gcmkw ⟨none, none, 0⟩,
   .encrypt 0 .gcmkw ⟨none, none, 0⟩, .gcmCEK 0, .gcmIV 0,
   .newMessageKW .a128gcm (.dir (List.replicate 16 9)) ⟨none, none, 0⟩, .deriveKey .ecdhKW .a192cbc]

/-- every step of `demo` succeeds (so the hypotheses `r ∈ trace …`, `r.out = .ok items` of the
    theorems above are satisfiable with non-empty `items`), and the positions after the steps are -/
example : (trace oCount St.init demo).map (fun r => (r.out.isOk, r.post.pos)) =
    [(true, 0), (true, 16), (true, 28), (true, 28), (true, 28), (true, 76), (true, 152), (true, 192),
     (true, 204), (true, 220), (true, 232), (true, 244), (true, 292)] := by decide

/-- the 14 draws of `demo`: kinds, positions, lengths -/
example : (final oCount St.init demo).log.map (fun d => (d.kind, d.pos, d.bytes.length)) =
    [(.cek, 0, 16), (.gcmMask, 16, 12), (.cek, 28, 32), (.cbcIV, 60, 16), (.cek, 76, 32), (.gcmMask, 108, 12),
     (.salt, 120, 32), (.cek, 152, 16), (.gcmMask, 168, 12), (.kwIV, 180, 12), (.kwIV, 192, 12), (.cek, 204, 16),
     (.gcmMask, 220, 12), (.gcmMask, 232, 12), (.cek, 244, 48)] := by decide

/-- three IVs in the first epoch of instance 0, one in its second epoch -/
example : (epochIVs 0 (trace oCount St.init (demo.take 5)) []).length = 3 ∧
    (epochIVs 0 (trace oCount St.init demo) []).length = 1 := by decide

/-- the default PBES2 count is applied when none is given, and only then -/
example : (stepRun oCount St.init (.wrapKey .pbes2 32 ⟨none, none, 0⟩)).1 =
      .ok [.salt ((List.range 32).map (fun k => UInt8.ofNat k)) false, .p2c 10000 true] ∧
    (stepRun oCount St.init (.wrapKey .pbes2 32 ⟨none, some [1, 2], 4096⟩)).1 =
      .ok [.salt [1, 2] true, .p2c 4096 false] := ⟨rfl, rfl⟩

/-- a failing `rand.Read` is an error, draws nothing and changes nothing -/
example : stepRun oFail { St.init with insts := [Gcm.new .a128gcm 16] } (.gcmIV 0) =
    (.err "rand", { St.init with insts := [Gcm.new .a128gcm 16] }) := rfl

/-- the same header value (no `iv`, no `p2s`) passed to several calls: every call draws its own
    key-wrap iv / salt (non-vacuity of `kw_fresh_whatever_before` and `steps_draws_disjoint`) -/
example :
    let h : Hdr := ⟨none, none, 0⟩
    let ops : List Op := [.newMessageKW .a128gcm .gcmkw h, .newMessageKW .a256cbc .gcmkw h,
      .encrypt 0 .gcmkw h, .newMessageKW .a128gcm .pbes2 h, .encrypt 1 .pbes2 h]
    (final oCount St.init ops).log.map (fun d => (d.kind, d.pos, d.bytes.length)) =
      [(.cek, 0, 16), (.gcmMask, 16, 12), (.kwIV, 28, 12), (.cek, 40, 64), (.cbcIV, 104, 16), (.kwIV, 120, 12),
       (.kwIV, 132, 12), (.cek, 144, 16), (.gcmMask, 160, 12), (.salt, 172, 32), (.salt, 204, 32)] := by decide

/-! ## the concurrent clause: why one instance must not be shared without synchronisation -/

/-- for a non-zero counter the atomic `GenerateIV` is: read the counter, then `gcmFinishIV` -/
theorem gcmGenerateIV_eq_finish (o : Oracle) (g : Gcm) (s : St) (h : g.counter ≠ 0) :
    (gcmGenerateIV g).run o s = (gcmFinishIV g g.counter, s) := by
  simp only [gcmGenerateIV, h, if_false, M.run_bind, M.run_pure]
  cases gcmFinishIV g g.counter <;> rfl

/-- **lost update.**  If two threads execute `GenerateIV` on one instance without atomicity — both
    read the counter (`c := alg.counter`, agcm.go:66) before either writes it back (agcm.go:77) —
    they issue the SAME IV under the same key, and the counter advances only once. -/
theorem lost_update (g g₁ g₂ : Gcm) (c : Nat) (iv₁ iv₂ : Bytes)
    (hA : gcmFinishIV g c = .ok (g₁, iv₁)) (hB : gcmFinishIV g₁ c = .ok (g₂, iv₂)) :
    iv₂ = iv₁ ∧ g₂.counter = g₁.counter := by
  unfold gcmFinishIV at hA hB
  simp only at hA hB
  split at hA
  · simp at hA
  · split at hB
    · simp at hB
    · simp only [Outcome.ok.injEq, Prod.mk.injEq] at hA hB
      obtain ⟨rfl, rfl⟩ := hA
      obtain ⟨rfl, rfl⟩ := hB
      exact ⟨rfl, rfl⟩

/-- the interleaving exists (concrete instance: counter 5, both threads read 5, both issue the IV
    of count 6) -/
example : ∃ g₁ g₂ iv, gcmFinishIV ⟨.a128gcm, 16, List.replicate 12 7, 5⟩ 5 = .ok (g₁, iv) ∧
    gcmFinishIV g₁ 5 = .ok (g₂, iv) ∧ g₂.counter = 6 :=
  ⟨_, _, _, rfl, rfl, rfl⟩

end Model.Rand
