import GoatProofs.Lemmas.C19Epoch
/-
C19 — keys, IVs and salts drawn for encryption are fresh and correctly sized.

All theorems are about `Model.Rand` (lean/Goat/Model/Rand.lean), for EVERY oracle `o` (= every
content of the random stream, including a failing `rand.Read`), EVERY variant `v` of the four
behaviours under repair and EVERY history `ops : List Op`, started in the empty state.

What is NOT a theorem here (trusted base): that independent draws from the operating system's
entropy source are distinct with overwhelming probability — the theorems say that every issued
value IS such a draw (a segment of the stream never handed out before); and the concurrent use
of ONE agcm instance (see `lost_update`).
-/
namespace Model.Rand

/-! ## histories -/

theorem final_ext (o : Oracle) (v : Variant) : ∀ (ops : List Op) (s : St), Ext o s (final o v s ops)
  | [], s => Ext.refl o s
  | op :: ops, s => Ext.trans ((step_ext v op).run o s) (final_ext o v ops _)

theorem final_inv (o : Oracle) (v : Variant) : ∀ (ops : List Op) (s : St), Inv s → Inv (final o v s ops)
  | [], _, h => h
  | op :: ops, _, h => final_inv o v ops _ (Inv.step op h)

/-- every recorded step of a history starts in a state reached by a prefix of the history, is one
    `stepRun`, and is followed by the rest of the history -/
theorem trace_mem (o : Oracle) (v : Variant) : ∀ (ops : List Op) (s : St) (r : Rec), r ∈ trace o v s ops →
    ∃ pre post : List Op, ops = pre ++ r.op :: post ∧ r.pre = final o v s pre ∧
      r.out = (stepRun o v r.pre r.op).1 ∧ r.post = (stepRun o v r.pre r.op).2
  | [], _, r, h => by simp [trace] at h
  | op :: ops, s, r, h => by
    simp only [trace, List.mem_cons] at h
    rcases h with rfl | h
    · exact ⟨[], ops, rfl, rfl, rfl, rfl⟩
    · obtain ⟨pre, post, h1, h2, h3, h4⟩ := trace_mem o v ops _ r h
      exact ⟨op :: pre, post, by rw [h1]; rfl, by rw [h2]; rfl, h3, h4⟩

theorem final_append (o : Oracle) (v : Variant) : ∀ (a b : List Op) (s : St),
    final o v s (a ++ b) = final o v (final o v s a) b
  | [], _, _ => rfl
  | x :: a, b, s => by simp only [List.cons_append, final]; exact final_append o v a b _

/-! ## fresh_draw -/

/-- **fresh_draw** (whole history).  The draws of a history are consecutive segments of the random
    stream starting at position 0: each one is exactly the oracle's answer for its own segment
    `[pos, pos + length)`, the segments are strictly ordered — hence pairwise disjoint: no byte of
    the stream is issued twice, nothing issued is a constant or an earlier slice — and the final
    position is the total number of bytes drawn. -/
theorem fresh_draw (o : Oracle) (v : Variant) (ops : List Op) :
    let s := final o v St.init ops
    Chain o 0 s.log s.pos ∧
    s.log.Pairwise (fun a b => a.pos + a.bytes.length ≤ b.pos) ∧
    (∀ d ∈ s.log, o ⟨"rand", [.int d.pos, .int d.bytes.length]⟩ = .bytes d.bytes) ∧
    s.pos = totalLen s.log := by
  intro s
  obtain ⟨ds, hl, hc⟩ := final_ext o v ops St.init
  have hl' : s.log = ds := by
    have : St.init.log ++ ds = ds := rfl
    rw [← this]; exact hl
  have hc' : Chain o 0 s.log s.pos := by rw [hl']; exact hc
  exact ⟨hc', hc'.pairwise, hc'.answer, by simpa using hc'.total⟩

/-- **fresh_draw** (per step).  The draws made during one step of a history are appended to the
    log, form a chain from the position before to the position after the step (so the position is
    monotone and advances by exactly the number of bytes drawn), and lie strictly beyond every
    draw made earlier in the history. -/
theorem step_draws (o : Oracle) (v : Variant) (ops : List Op) (r : Rec) (hr : r ∈ trace o v St.init ops) :
    r.post.log = r.pre.log ++ r.newDraws ∧
    Chain o r.pre.pos r.newDraws r.post.pos ∧
    r.post.pos = r.pre.pos + totalLen r.newDraws ∧
    (∀ d ∈ r.newDraws, ∀ d' ∈ r.pre.log, d'.pos + d'.bytes.length ≤ d.pos) := by
  obtain ⟨pre, post, _, hpre, _, hpost⟩ := trace_mem o v ops _ r hr
  have hstep : Ext o r.pre r.post := by rw [hpost]; exact (step_ext v r.op).run o r.pre
  obtain ⟨h1, h2⟩ := hstep.newDraws
  refine ⟨h1, h2, h2.total, ?_⟩
  intro d hd d' hd'
  obtain ⟨ds, hl, hc⟩ := final_ext o v pre St.init
  rw [← hpre] at hl hc
  have hl' : r.pre.log = ds := by
    have : St.init.log ++ ds = ds := rfl
    rw [← this]; exact hl
  have b1 := (h2.bounds d hd).1
  have b2 := (hc.bounds d' (by rw [← hl']; exact hd')).2
  omega

/-! ## gcm_iv_distinct -/

/-- **gcm_iv_distinct.**  Epoch of an agcm instance `i` := the successful `GenerateIV` calls on `i`
    since its creation or its last successful `GenerateCEK` (`epochIVs`/`epochStep`).  At the end
    of every history — hence, histories being arbitrary, at every point of every history — the IVs
    issued in the current epoch of every instance are pairwise distinct. -/
theorem gcm_iv_distinct (o : Oracle) (v : Variant) (ops : List Op) (i : Nat) :
    (epochIVs i (trace o v St.init ops) []).Nodup := by
  have h := epochIVs_coupled o v i ops St.init [] Inv.init (by simp [Coupled, St.init])
  obtain ⟨hinv, hc⟩ := h
  unfold Coupled at hc
  cases hg : (final o v St.init ops).insts[i]? with
  | none => rw [hg] at hc; simp only at hc; rw [hc]; exact List.nodup_nil
  | some g =>
    rw [hg] at hc; simp only at hc
    rw [hc]
    have := hinv i g hg
    exact ivRange_nodup this.1 _ this.2.1

/-- the IVs of the current epoch are exactly `mask ⊕ be64 1, …, mask ⊕ be64 counter` -/
theorem gcm_epoch_ivs (o : Oracle) (v : Variant) (ops : List Op) (i : Nat) (g : Gcm)
    (hg : (final o v St.init ops).insts[i]? = some g) :
    epochIVs i (trace o v St.init ops) [] = ivRange g.mask g.counter ∧
    g.mask.length = 12 ∧ g.counter < 2 ^ 64 := by
  have h := epochIVs_coupled o v i ops St.init [] Inv.init (by simp [Coupled, St.init])
  obtain ⟨hinv, hc⟩ := h
  unfold Coupled at hc
  rw [hg] at hc
  have := hinv i g hg
  exact ⟨hc, this.1, this.2.1⟩

/-- **overflow ⇒ error, not reuse.**  When the counter of an instance is `2^64 − 1`, `GenerateIV`
    fails, draws nothing and leaves the state as it is (in any state, reachable or not). -/
theorem gcm_overflow_is_error (o : Oracle) (v : Variant) (s : St) (i : Nat) (g : Gcm)
    (hg : s.insts[i]? = some g) (hc : g.counter = 2 ^ 64 - 1) :
    stepRun o v s (.gcmIV i) = (.err "gcm-counter-overflow", s) := by
  rw [stepRun_gcmIV, hg]
  simp [hc]

/-- …and the state before the last IV of an epoch is reachable in the model by state, so the
    statement is not vacuous: with counter `2^64 − 2` one more IV is issued, then only errors. -/
example (o : Oracle) (v : Variant) :
    let g : Gcm := ⟨.a128gcm, 16, List.replicate 12 0, 2 ^ 64 - 2⟩
    let s : St := { St.init with insts := [g] }
    (stepRun o v s (.gcmIV 0)).1 = .ok [.iv (xorCtr g.mask (2 ^ 64 - 1))] ∧
    (stepRun o v (stepRun o v s (.gcmIV 0)).2 (.gcmIV 0)).1 = .err "gcm-counter-overflow" := by
  intro g s
  constructor
  · rw [stepRun_gcmIV]; simp [s, g, St.init]
  · rw [stepRun_gcmIV, stepRun_gcmIV]; simp [s, g, St.init]

/-! ## the concurrent clause: why one instance must not be shared without synchronisation -/

/-- for a non-zero counter the atomic `GenerateIV` is: read the counter, then `gcmFinishIV` -/
theorem gcmGenerateIV_eq_finish (o : Oracle) (g : Gcm) (s : St) (h : g.counter ≠ 0) :
    (gcmGenerateIV g).run o s = (gcmFinishIV g g.counter, s) := by
  simp only [gcmGenerateIV, h, if_false, M.run_bind, M.run_pure]
  cases gcmFinishIV g g.counter <;> rfl

/-- **lost update.**  If two threads execute `GenerateIV` on one instance without atomicity — both
    read the counter (`c := alg.counter`, agcm.go:66) before either writes it back (agcm.go:77) —
    they issue the SAME IV under the same key, and the counter advances only once. -/
theorem lost_update (g g₁ g₂ : Gcm) (c : Nat) (iv₁ iv₂ : Bytes)
    (hA : gcmFinishIV g c = .ok (g₁, iv₁)) (hB : gcmFinishIV g₁ c = .ok (g₂, iv₂)) :
    iv₂ = iv₁ ∧ g₂.counter = g₁.counter := by
  unfold gcmFinishIV at hA hB
  simp only at hA hB
  split at hA
  · simp at hA
  · split at hB
    · simp at hB
    · simp only [Outcome.ok.injEq, Prod.mk.injEq] at hA hB
      obtain ⟨rfl, rfl⟩ := hA
      obtain ⟨rfl, rfl⟩ := hB
      exact ⟨rfl, rfl⟩

/-- the interleaving exists (concrete instance: counter 5, both threads read 5, both issue the IV
    of count 6) -/
example : ∃ g₁ g₂ iv, gcmFinishIV ⟨.a128gcm, 16, List.replicate 12 7, 5⟩ 5 = .ok (g₁, iv) ∧
    gcmFinishIV g₁ 5 = .ok (g₂, iv) ∧ g₂.counter = 6 :=
  ⟨_, _, _, rfl, rfl, rfl⟩

end Model.Rand
