import GoatProofs.Lemmas.C05Codec
import GoatProofs.C06
import Goat.Spec.JWE7516
/-
C05 — every JWE the library can produce, or should accept, decrypts to its plaintext.
(statements and their scope: see docs/C05.md)
-/
namespace GoatProofs.C05
open Model.JWE Gen.Consts

/-- Laws of the standard library / primitive oracles under which the round trip holds.  Each of them is
    exercised by the harness on every generated case. -/
structure Laws (o : Oracle) : Prop extends CodecLaws o where
  /-- base64url: decoding an encoding gives the bytes back -/
  b64 : ∀ x, o ⟨"b64url.dec", [.bytes (o ⟨"b64url.enc", [.bytes x]⟩).asBytes]⟩ = .bytes x
  /-- base64url text contains no '.' -/
  nodot : ∀ x, dot ∉ (o ⟨"b64url.enc", [.bytes x]⟩).asBytes
  /-- encoding/json: decoding what Marshal wrote gives the object back -/
  json : ∀ m b, o ⟨"json.marshal", [.obj m]⟩ = .bytes b → o ⟨"json.decodeMap", [.bytes b]⟩ = .obj m
  /-- content encryption: Decrypt inverts Encrypt for equal key, IV and AAD -/
  aead : ∀ enc cek iv aad pt ct tag,
    o ⟨"enc.encrypt", [.str enc, .bytes cek, .bytes iv, .bytes aad, .bytes pt]⟩ = .arr [.bytes ct, .bytes tag] →
    o ⟨"enc.decrypt", [.str enc, .bytes cek, .bytes iv, .bytes aad, .bytes ct, .bytes tag]⟩ = .bytes pt
  /-- compress/flate: inflate inverts deflate -/
  flate : ∀ x y, o ⟨"deflate", [.bytes x]⟩ = .bytes y → o ⟨"inflate", [.bytes y]⟩ = .bytes x

/-- a header as the setters produce it, with values the codec accepts -/
structure HeaderOK (h : Header) : Prop where
  raw : h.raw = []
  crit : h.crit.all knownParams.contains = true
  p2c : 0 ≤ h.p2c
  epk : ∀ k, h.epk = some k → k.isNone = false

theorem splitDot_append (a b : Bytes) (h : dot ∉ a) : splitDot (a ++ dot :: b) = some (a, b) := by
  induction a with
  | nil => simp [splitDot]
  | cons c t ih =>
    have hc : (c == dot) = false := by
      have : c ≠ dot := fun e => h (by simp [e])
      simpa using this
    have ht : dot ∉ t := fun e => h (by simp [e])
    simp [splitDot, hc, ih ht]

/-- optsView only looks at the typed fields, and skips nil headers -/
theorem optsView_merged_single (h h' : Header)
    (e : h'.enc = h.enc ∧ h'.epk = h.epk ∧ h'.apu = h.apu ∧ h'.apv = h.apv ∧ h'.iv = h.iv ∧ h'.tag = h.tag ∧
         h'.p2s = h.p2s ∧ h'.p2c = h.p2c) :
    mergedOpts none h' none = optsView [some h] := by
  obtain ⟨e1, e2, e3, e4, e5, e6, e7, e8⟩ := e
  simp [mergedOpts, optsView, firstStr, firstSome, firstInt, e1, e2, e3, e4, e5, e6, e7, e8]

/-- what the receiving side needs to know about the sealed message -/
structure Sealed (o : Oracle) (enc : String) (header : Header) (raw : KVs) (cek iv : Bytes) (pt : Bytes) (ek : Bytes)
    (msg : Message) : Prop where
  hdr : msg.header = header
  unprot : msg.unprotected = none
  aad0 : msg.b64aad = []
  rcpt : ∃ b64ek, msg.recipients = [{ header := none, encryptedKey := ek, b64encryptedKey := b64ek }] ∧
      b64ek = (o ⟨"b64url.enc", [.bytes ek]⟩).asBytes
  prot : ∃ rawHeader, o ⟨"json.marshal", [.obj raw]⟩ = .bytes rawHeader ∧
      msg.b64protected = (o ⟨"b64url.enc", [.bytes rawHeader]⟩).asBytes
  ivs : msg.iv = iv ∧ msg.b64iv = (o ⟨"b64url.enc", [.bytes iv]⟩).asBytes
  ct : msg.b64ciphertext = (o ⟨"b64url.enc", [.bytes msg.ciphertext]⟩).asBytes
  tag : msg.b64tag = (o ⟨"b64url.enc", [.bytes msg.tag]⟩).asBytes
  sealed : ∃ pt', o ⟨"enc.encrypt", [.str enc, .bytes cek, .bytes iv, .bytes msg.b64protected, .bytes pt']⟩ =
        .arr [.bytes msg.ciphertext, .bytes msg.tag] ∧
      (if header.zip = jwa.DEF then o ⟨"deflate", [.bytes pt]⟩ = .bytes pt' else pt' = pt)

/-- completeness of Decrypt (converse of C06.jwe_decrypt_sound) for the first recipient -/
theorem decrypt_first (o : Oracle) (m : Message) (r : Recipient) (rest : List Recipient) (kw : Wire)
    (cek pt' pt : Bytes) (hr : m.recipients = r :: rest)
    (hf : C06.finderAnswer o m r = kw) (hk : kw.isNone = false)
    (hu : C06.unwrapAnswer o m r kw = .bytes cek)
    (hav : encAvailable (contentEnc m r) = true)
    (ha : C06.aeadAnswer o m r cek = .bytes pt')
    (hz : C06.Inflated o m pt' pt) : (decrypt m).run o = .ok pt := by
  unfold decrypt
  rw [hr]
  unfold C06.finderAnswer at hf
  unfold C06.unwrapAnswer at hu
  unfold C06.aeadAnswer at ha
  simp only [decryptLoop, PO.run_bind, PO.run_query, hf, hk, Bool.false_eq_true, if_false]
  unfold decryptWith
  simp only [PO.run_bind, PO.run_query, hu, hav, Bool.not_true, Bool.false_eq_true, if_false, ha]
  unfold decompressIf
  unfold C06.Inflated at hz
  by_cases hzz : m.header.zip = jwa.DEF
  · simp only [hzz, if_true] at hz
    simp [hzz, hz]
  · simp only [hzz, if_false] at hz
    have : (m.header.zip == jwa.DEF) = false := by simpa using hzz
    simp [this, hz]

/-- the message `parse` returns for the compact serialization of a sealed message -/
def parsedOf (header : Header) (raw : KVs) (msg : Message) (ek b64ek : Bytes) : Message :=
  { header := { header with raw := raw }, iv := msg.iv, b64iv := msg.b64iv,
    ciphertext := msg.ciphertext, b64ciphertext := msg.b64ciphertext, b64protected := msg.b64protected,
    tag := msg.tag, b64tag := msg.b64tag,
    recipients := [{ encryptedKey := ek, b64encryptedKey := b64ek }] }

/-- the compact serialization of a sealed message parses to `parsedOf …` -/
theorem sealed_compact_parses (o : Oracle) (L : Laws o) (enc : String) (header : Header) (raw : KVs)
    (cek iv pt ek : Bytes) (msg : Message) (hok : HeaderOK header)
    (E : Encodes o header raw)
    (S : Sealed o enc header raw cek iv pt ek msg) :
    ∃ b64ek, (compact msg >>= parse).run o = .ok (parsedOf header raw msg ek b64ek) := by
  obtain ⟨b64ek, hr, hb64ek⟩ := S.rcpt
  obtain ⟨rawHeader, hmar, hb64p⟩ := S.prot
  refine ⟨b64ek, ?_⟩
  have hcompact : (compact msg).run o = .ok (msg.b64protected ++ dot :: b64ek ++ dot :: msg.b64iv ++ dot ::
      msg.b64ciphertext ++ dot :: msg.b64tag) := by
    unfold compact
    simp [hr, S.unprot, S.aad0]
  have hparse : (parse (msg.b64protected ++ dot :: b64ek ++ dot :: msg.b64iv ++ dot ::
      msg.b64ciphertext ++ dot :: msg.b64tag)).run o =
      .ok (parsedOf header raw msg ek b64ek) := by
    unfold parse parsedOf
    have d1 : dot ∉ msg.b64protected := hb64p ▸ L.nodot _
    have d2 : dot ∉ b64ek := hb64ek ▸ L.nodot _
    have d3 : dot ∉ msg.b64iv := S.ivs.2 ▸ L.nodot _
    have d4 : dot ∉ msg.b64ciphertext := S.ct ▸ L.nodot _
    have s1 := splitDot_append msg.b64protected (b64ek ++ dot :: msg.b64iv ++ dot :: msg.b64ciphertext ++ dot :: msg.b64tag) d1
    have s2 := splitDot_append b64ek (msg.b64iv ++ dot :: msg.b64ciphertext ++ dot :: msg.b64tag) d2
    have s3 := splitDot_append msg.b64iv (msg.b64ciphertext ++ dot :: msg.b64tag) d3
    have s4 := splitDot_append msg.b64ciphertext msg.b64tag d4
    simp only [List.append_assoc, List.cons_append] at s1 s2 s3 s4 ⊢
    simp only [s1, s2, s3, s4]
    have b1 : (b64Decode msg.b64protected).run o = .ok rawHeader := by
      unfold b64Decode; simp [hb64p, L.b64]
    have b2 : (b64Decode msg.b64iv).run o = .ok msg.iv := by
      unfold b64Decode; simp [S.ivs.2, S.ivs.1, L.b64]
    have b3 : (b64Decode b64ek).run o = .ok ek := by
      unfold b64Decode; simp [hb64ek, L.b64]
    have b4 : (b64Decode msg.b64ciphertext).run o = .ok msg.ciphertext := by
      unfold b64Decode; rw [S.ct]; simp [L.b64]
    have b5 : (b64Decode msg.b64tag).run o = .ok msg.tag := by
      unfold b64Decode; rw [S.tag]; simp [L.b64]
    have j1 : (decodeJSONMap rawHeader).run o = .ok raw := by
      unfold decodeJSONMap; simp [L.json _ _ hmar]
    have c1 := decode_of_encodes o L.toCodecLaws header raw E hok.crit hok.p2c hok.epk
    simp [PO.run_bind, b1, b2, b3, b4, b5, j1, c1]
  simp only [PO.run_bind, hcompact, hparse]

/-- Lemma A: a sealed single-recipient message, compact-serialized, parsed and decrypted with a wrapper
    that unwraps the encrypted key under the final header, yields the plaintext. -/
theorem sealed_compact_decrypts (o : Oracle) (L : Laws o) (enc : String) (header : Header) (raw : KVs)
    (cek iv pt ek : Bytes) (msg : Message) (kw' : Wire)
    (hav : encAvailable enc = true) (henc : header.enc = enc) (hok : HeaderOK header)
    (E : Encodes o header raw)
    (S : Sealed o enc header raw cek iv pt ek msg)
    (hfind : o ⟨"findKeyWrapper", [.obj raw, .none, .none]⟩ = kw') (hk : kw'.isNone = false)
    (hun : o ⟨"kw.unwrap", [kw', .bytes ek, optsView [some header]]⟩ = .bytes cek) :
    (compact msg >>= parse >>= decrypt).run o = .ok pt := by
  obtain ⟨b64ek, hr, hb64ek⟩ := S.rcpt
  obtain ⟨rawHeader, hmar, hb64p⟩ := S.prot
  obtain ⟨pt', hseal, hzip⟩ := S.sealed
  have hcompact : (compact msg).run o = .ok (msg.b64protected ++ dot :: b64ek ++ dot :: msg.b64iv ++ dot ::
      msg.b64ciphertext ++ dot :: msg.b64tag) := by
    unfold compact
    simp [hr, S.unprot, S.aad0]
  have hparse : (parse (msg.b64protected ++ dot :: b64ek ++ dot :: msg.b64iv ++ dot ::
      msg.b64ciphertext ++ dot :: msg.b64tag)).run o =
      .ok (parsedOf header raw msg ek b64ek) := by
    unfold parse parsedOf
    have d1 : dot ∉ msg.b64protected := hb64p ▸ L.nodot _
    have d2 : dot ∉ b64ek := hb64ek ▸ L.nodot _
    have d3 : dot ∉ msg.b64iv := S.ivs.2 ▸ L.nodot _
    have d4 : dot ∉ msg.b64ciphertext := S.ct ▸ L.nodot _
    have s1 := splitDot_append msg.b64protected (b64ek ++ dot :: msg.b64iv ++ dot :: msg.b64ciphertext ++ dot :: msg.b64tag) d1
    have s2 := splitDot_append b64ek (msg.b64iv ++ dot :: msg.b64ciphertext ++ dot :: msg.b64tag) d2
    have s3 := splitDot_append msg.b64iv (msg.b64ciphertext ++ dot :: msg.b64tag) d3
    have s4 := splitDot_append msg.b64ciphertext msg.b64tag d4
    simp only [List.append_assoc, List.cons_append] at s1 s2 s3 s4 ⊢
    simp only [s1, s2, s3, s4]
    have b1 : (b64Decode msg.b64protected).run o = .ok rawHeader := by
      unfold b64Decode; simp [hb64p, L.b64]
    have b2 : (b64Decode msg.b64iv).run o = .ok msg.iv := by
      unfold b64Decode; simp [S.ivs.2, S.ivs.1, L.b64]
    have b3 : (b64Decode b64ek).run o = .ok ek := by
      unfold b64Decode; simp [hb64ek, L.b64]
    have b4 : (b64Decode msg.b64ciphertext).run o = .ok msg.ciphertext := by
      unfold b64Decode; rw [S.ct]; simp [L.b64]
    have b5 : (b64Decode msg.b64tag).run o = .ok msg.tag := by
      unfold b64Decode; rw [S.tag]; simp [L.b64]
    have j1 : (decodeJSONMap rawHeader).run o = .ok raw := by
      unfold decodeJSONMap; simp [L.json _ _ hmar]
    have c1 := decode_of_encodes o L.toCodecLaws header raw E hok.crit hok.p2c hok.epk
    simp [PO.run_bind, b1, b2, b3, b4, b5, j1, c1]
  have hdec : (decrypt (parsedOf header raw msg ek b64ek)).run o = .ok pt := by
    have hm : mergedOpts none { header with raw := raw } none = optsView [some header] :=
      optsView_merged_single header _ ⟨rfl, rfl, rfl, rfl, rfl, rfl, rfl, rfl⟩
    have hce : contentEnc (parsedOf header raw msg ek b64ek) { encryptedKey := ek, b64encryptedKey := b64ek } = enc := by
      unfold contentEnc parsedOf
      by_cases he : header.enc = "" <;> simp [he, firstStr, henc.symm]
    refine decrypt_first o (parsedOf header raw msg ek b64ek) { encryptedKey := ek, b64encryptedKey := b64ek } [] kw' cek pt' pt
      rfl ?_ hk ?_ (by rw [hce]; exact hav) ?_ ?_
    · simpa [C06.finderAnswer, parsedOf, hdrW, optHdrW] using hfind
    · simp only [C06.unwrapAnswer, parsedOf, hm]; exact hun
    · simp only [C06.aeadAnswer, hce]
      have had : authData (parsedOf header raw msg ek b64ek) = msg.b64protected := by simp [authData, parsedOf]
      rw [had]
      simp only [parsedOf, S.ivs.1]
      exact L.aead _ _ _ _ _ _ _ hseal
    · unfold C06.Inflated
      simp only [parsedOf]
      by_cases hz : header.zip = jwa.DEF
      · simp only [hz, if_true] at hzip ⊢
        exact L.flate _ _ hzip
      · simp only [hz, if_false] at hzip ⊢
        exact hzip.symm
  simp only [PO.run_bind, hcompact, hparse, hdec]


theorem b64Encode_run (o : Oracle) (x : Bytes) :
    (b64Encode x).run o = .ok (o ⟨"b64url.enc", [.bytes x]⟩).asBytes := by
  simp [b64Encode]

theorem sealWith_ok (o : Oracle) (enc : String) (header : Header) (cek iv rawHeader b64header pt' : Bytes)
    (rcpts : List Recipient) (msg : Message)
    (h : (sealWith enc header cek iv rawHeader b64header pt' rcpts).run o = .ok msg) :
    ∃ ct tag, o ⟨"enc.encrypt", [.str enc, .bytes cek, .bytes iv, .bytes b64header, .bytes pt']⟩ =
        .arr [.bytes ct, .bytes tag] ∧
      msg = { header := header, cek := cek, iv := iv, b64iv := (o ⟨"b64url.enc", [.bytes iv]⟩).asBytes,
              ciphertext := ct, b64ciphertext := (o ⟨"b64url.enc", [.bytes ct]⟩).asBytes,
              protectedRaw := rawHeader, b64protected := b64header, tag := tag,
              b64tag := (o ⟨"b64url.enc", [.bytes tag]⟩).asBytes, recipients := rcpts } := by
  unfold sealWith aeadEncrypt at h
  simp only [PO.run_bind, PO.run_query, b64Encode_run] at h
  split at h
  · rename_i a hq
    split at hq
    · rename_i ct tag he
      simp only [PO.run_pure] at hq
      cases hq
      simp only [PO.run_pure] at h
      cases h
      exact ⟨ct, tag, he, rfl⟩
    · simp at hq
  · simp at h
  · simp at h

theorem compressIf_ok (o : Oracle) (prot : Option Header) (pt pt' : Bytes)
    (h : (compressIf prot pt).run o = .ok pt') :
    if hZip prot = jwa.DEF then o ⟨"deflate", [.bytes pt]⟩ = .bytes pt' else pt' = pt := by
  unfold compressIf at h
  by_cases hz : hZip prot = jwa.DEF
  · simp only [hz, beq_self_eq_true, if_true, PO.run_bind, PO.run_query] at h ⊢
    split at h
    · simp only [PO.run_pure] at h; cases h; assumption
    · simp at h
  · have : (hZip prot == jwa.DEF) = false := by simpa using hz
    simp only [this, Bool.false_eq_true, if_false, PO.run_pure] at h
    cases h
    simp [hz]

theorem marshalHeader_ok (o : Oracle) (h : Header) (b : Bytes) (hr : (marshalHeader h).run o = .ok b) :
    o ⟨"json.marshal", [.obj (encPure o h)]⟩ = .bytes b := by
  unfold marshalHeader at hr
  simp only [PO.run_bind, encodeHeader_run, PO.run_query] at hr
  split at hr
  · simp only [PO.run_pure] at hr; cases hr; assumption
  · simp at hr


/-- Key-wrap law for the wrapping algorithms (RSA1_5, RSA-OAEP*, A*KW, A*GCMKW, PBES2-*): what the sender's
    wrapper `kw` produced is unwrapped by the recipient's wrapper `kw'` when it is given the header
    parameters *as they stand after WrapKey* (iv, tag, p2s, p2c written through the setters), whatever
    `enc` is set afterwards.  A count written by WrapKey is not negative.  (Stated for CEKs of at least one 64-bit
    block: AES Key Wrap of the empty string is not invertible; every content encryption's CEK has 16..64 octets —
    `CEKSized`.) -/
def WrapLaw (o : Oracle) (kw kw' : Wire) : Prop :=
  ∀ cek h data upd, 8 ≤ cek.length →
    o ⟨"kw.wrap", [kw, .bytes cek, optsView [some h]]⟩ = .arr [.bytes data, upd] →
    (∀ enc, o ⟨"kw.unwrap", [kw', .bytes data, optsView [some { applyUpdates h upd with enc := enc }]]⟩ = .bytes cek) ∧
    (∀ n, upd.get? "p2c" = some (.int n) → 0 ≤ n)

/-- Key-agreement law in the form goat's API gives it: DeriveKey and UnwrapKey are handed the *same*
    header; the recipient's wrapper must arrive at the sender's CEK.  True of `dir` (same shared key).
    For the ECDH-ES family this is NOT what Diffie-Hellman provides (see `ecdhes_sender_counterexample`). -/
def DeriveLaw (o : Oracle) (kw kw' : Wire) : Prop :=
  ∀ h cek ek, o ⟨"kw.derive", [kw, optsView [some h]]⟩ = .arr [.bytes cek, .bytes ek] →
    o ⟨"kw.unwrap", [kw', .bytes ek, optsView [some h]]⟩ = .bytes cek

/-- the CEK generator of every content encryption returns at least one 64-bit block (16..64 octets in fact) -/
def CEKSized (o : Oracle) (enc : String) : Prop :=
  ∀ b, o ⟨"enc.generateCEK", [.str enc]⟩ = .bytes b → 8 ≤ b.length

theorem generateCEK_ok (o : Oracle) (enc : String) (cek : Bytes) (h : (generateCEK enc).run o = .ok cek) :
    o ⟨"enc.generateCEK", [.str enc]⟩ = .bytes cek := by
  unfold generateCEK at h
  simp only [PO.run_bind, PO.run_query] at h
  split at h
  · simp only [PO.run_pure] at h; cases h; assumption
  · simp at h

theorem applyUpdates_fields (h : Header) (upd : Wire) :
    (applyUpdates h upd).raw = h.raw ∧ (applyUpdates h upd).crit = h.crit ∧ (applyUpdates h upd).epk = h.epk ∧
    (applyUpdates h upd).zip = h.zip ∧
    ((applyUpdates h upd).p2c = h.p2c ∨ ∃ n, upd.get? "p2c" = some (.int n) ∧ (applyUpdates h upd).p2c = n) := by
  unfold applyUpdates
  refine ⟨?_, ?_, ?_, ?_, ?_⟩ <;> (repeat' split) <;> simp_all

theorem kwWrap_ok (o : Oracle) (kw : Wire) (cek : Bytes) (h : Header) (data : Bytes) (h' : Header)
    (hr : (kwWrap kw cek h).run o = .ok (data, h')) :
    ∃ upd, o ⟨"kw.wrap", [kw, .bytes cek, optsView [some h]]⟩ = .arr [.bytes data, upd] ∧ h' = applyUpdates h upd := by
  unfold kwWrap at hr
  simp only [PO.run_bind, PO.run_query] at hr
  split at hr
  · rename_i d upd he
    simp only [PO.run_pure] at hr
    cases hr
    exact ⟨upd, he, rfl⟩
  · simp at hr

/-- C05, first sentence, compact serialization, wrapping algorithms. -/
theorem roundtrip_compact_wrap (o : Oracle) (L : Laws o) (enc : String) (kw kw' : Wire)
    (prot : Option Header) (pt : Bytes) (hnd : isDeriver kw = false) (hok : HeaderOK (clone prot))
    (hw : WrapLaw o kw kw') (hgen : CEKSized o enc)
    (hfind : ∀ raw, o ⟨"findKeyWrapper", [.obj raw, .none, .none]⟩ = kw') (hk : kw'.isNone = false)
    (msg : Message) (henc : (newMessageWithKW enc kw prot pt).run o = .ok msg) :
    (compact msg >>= parse >>= decrypt).run o = .ok pt := by
  unfold newMessageWithKW at henc
  by_cases hav : encAvailable enc = true
  · simp only [hav, Bool.not_true, Bool.false_eq_true, if_false, hnd] at henc
    obtain ⟨pt', hcomp, henc⟩ := PO.run_bind_eq_ok _ _ _ _ henc
    obtain ⟨cek, hcek, henc⟩ := PO.run_bind_eq_ok _ _ _ _ henc
    obtain ⟨iv, hiv, henc⟩ := PO.run_bind_eq_ok _ _ _ _ henc
    obtain ⟨⟨ek, h1⟩, hwrap, henc⟩ := PO.run_bind_eq_ok _ _ _ _ henc
    obtain ⟨rawHeader, hmar, henc⟩ := PO.run_bind_eq_ok _ _ _ _ henc
    simp only [b64Encode_run, PO.run_bind] at henc
    obtain ⟨ct, tag, hseal, hmsg⟩ := sealWith_ok _ _ _ _ _ _ _ _ _ _ henc
    obtain ⟨upd, hq, hh1⟩ := kwWrap_ok _ _ _ _ _ _ hwrap
    obtain ⟨hun, hp2c⟩ := hw _ _ _ _ (hgen _ (generateCEK_ok _ _ _ hcek)) hq
    obtain ⟨f1, f2, f3, f4, f5⟩ := applyUpdates_fields (clone prot) upd
    have hmar' := marshalHeader_ok _ _ _ hmar
    subst hh1
    have hokf : HeaderOK { applyUpdates (clone prot) upd with enc := enc } := by
      refine ⟨by simp [f1, hok.raw], by simp [f2, hok.crit], ?_, by simp [f3]; exact hok.epk⟩
      simp only
      rcases f5 with e | ⟨n, hn, e⟩
      · rw [e]; exact hok.p2c
      · rw [e]; exact hp2c n hn
    have hcz := compressIf_ok _ _ _ _ hcomp
    refine sealed_compact_decrypts o L enc _ _ cek iv pt ek msg kw' hav rfl hokf (encodes_encPure o _ hokf.raw) ?_ (hfind _) hk (hun enc)
    subst hmsg
    refine ⟨rfl, rfl, rfl, ⟨_, rfl, rfl⟩, ⟨rawHeader, hmar', rfl⟩, ⟨rfl, rfl⟩, rfl, rfl, ⟨pt', hseal, ?_⟩⟩
    simp only [f4]
    cases prot <;> exact hcz
  · simp only [hav, Bool.not_false, if_true] at henc
    simp at henc

/-- C05, first sentence, compact serialization, key-agreement style wrappers (DeriveKey path: `dir`;
    the ECDH-ES family only under `DeriveLaw`, which goat's ECDH-ES sender does not satisfy). -/
theorem roundtrip_compact_derive (o : Oracle) (L : Laws o) (enc : String) (kw kw' : Wire)
    (prot : Option Header) (pt : Bytes) (hd : isDeriver kw = true) (hok : HeaderOK (clone prot))
    (hdl : DeriveLaw o kw kw')
    (hfind : ∀ raw, o ⟨"findKeyWrapper", [.obj raw, .none, .none]⟩ = kw') (hk : kw'.isNone = false)
    (msg : Message) (henc : (newMessageWithKW enc kw prot pt).run o = .ok msg) :
    (compact msg >>= parse >>= decrypt).run o = .ok pt := by
  unfold newMessageWithKW at henc
  by_cases hav : encAvailable enc = true
  · simp only [hav, Bool.not_true, Bool.false_eq_true, if_false, hd, if_true] at henc
    obtain ⟨pt', hcomp, henc⟩ := PO.run_bind_eq_ok _ _ _ _ henc
    simp only [PO.run_bind, PO.run_query] at henc
    split at henc
    · rename_i cek ek hq
      obtain ⟨rawHeader, hmar, henc⟩ := PO.run_bind_eq_ok _ _ _ _ henc
      simp only [b64Encode_run, PO.run_bind] at henc
      cases hg : PO.run o (generateIV enc) with
      | err c => rw [hg] at henc; simp at henc
      | panic c => rw [hg] at henc; simp at henc
      | ok iv =>
      rw [hg] at henc
      simp only at henc
      obtain ⟨ct, tag, hseal, hmsg⟩ := sealWith_ok _ _ _ _ _ _ _ _ _ _ henc
      have hmar' := marshalHeader_ok _ _ _ hmar
      have hokf : HeaderOK { clone prot with enc := enc } := ⟨hok.raw, hok.crit, hok.p2c, hok.epk⟩
      have hcz := compressIf_ok _ _ _ _ hcomp
      refine sealed_compact_decrypts o L enc _ _ cek iv pt ek msg kw' hav rfl hokf (encodes_encPure o _ hokf.raw) ?_ (hfind _) hk (hdl _ _ _ hq)
      subst hmsg
      refine ⟨rfl, rfl, rfl, ⟨_, rfl, rfl⟩, ⟨rawHeader, hmar', rfl⟩, ⟨rfl, rfl⟩, rfl, rfl, ⟨pt', hseal, ?_⟩⟩
      cases prot <;> exact hcz
    · simp at henc
  · simp only [hav, Bool.not_false, if_true] at henc
    simp at henc


/-! ## second sentence: a conformant message from an independent RFC 7516 encoder -/
section Conformant
open Spec.JWE7516

theorem headerObject_eq (o : Oracle) (h : Header) :
    headerObject o h =
      setOpt jwa.PBES2CountKey (p2cOpt o h.p2c) (setOpt jwa.PBES2SaltInputKey (bytesOpt o h.p2s)
      (setOpt jwa.AuthenticationTagKey (bytesOpt o h.tag) (setOpt jwa.InitializationVectorKey (bytesOpt o h.iv)
      (setOpt jwa.AgreementPartyVInfoKey (bytesOpt o h.apv) (setOpt jwa.AgreementPartyUInfoKey (bytesOpt o h.apu)
      (setOpt jwa.EphemeralPublicKeyKey (epkOpt o h.epk) (setOpt jwa.CompressionAlgorithmKey (strOpt h.zip)
      (setOpt jwa.EncryptionAlgorithmKey (strOpt h.enc) (setOpt jwa.AlgorithmKey (strOpt h.alg) []))))))))) := by
  have hs : ∀ k v m, putStr k v m = setOpt k (strOpt v) m := by
    intro k v m; unfold putStr strOpt setOpt; split <;> simp_all
  have hb : ∀ k v m, putB64 o k v m = setOpt k (bytesOpt o v) m := by
    intro k v m; cases v <;> rfl
  unfold headerObject
  simp only [hs, hb]
  cases h.epk <;> by_cases hp : h.p2c = 0 <;> simp [epkOpt, p2cOpt, setOpt, hp]

theorem encodes_headerObject (o : Oracle) (h : Header)
    (hk : h.kid = "") (ht : h.typ = "") (hc : h.cty = "") (hcr : h.crit = []) :
    Encodes o h (headerObject o h) := by
  rw [headerObject_eq]
  refine ⟨?_, ?_, ?_, ?_, ?_, ?_, ?_, ?_, ?_, ?_, ?_, ?_, ?_, ?_⟩ <;>
    simp (disch := decide) only [lookup_setOpt_other, lookup_setOpt_same, Wire.lookup, hk, ht, hc, hcr] <;>
    first | rfl | (split <;> simp_all)

/-- the correctness of the recipient's key-management algorithm with respect to the sender's (RFC 7518
    §4; for the ECDH-ES family this is the Diffie-Hellman law between the sender's *ephemeral* key pair,
    published as `epk`, and the recipient's static key): the recipient's wrapper `kw'`, given the
    published header parameters, recovers the CEK. -/
def KeyManagementLaw (o : Oracle) (alg enc : String) (zip : Bool) (rcptKey : Wire) (apu apv : Option Bytes)
    (kw' : Wire) : Prop :=
  ∀ cek ek params,
    o ⟨"spec.keyManagement", [.str alg, rcptKey, .str enc, optBytesW apu, optBytesW apv]⟩ =
      .arr [.bytes cek, .bytes ek, params] →
    o ⟨"kw.unwrap", [kw', .bytes ek, optsView [some (headerParams alg enc zip apu apv params)]]⟩ = .bytes cek ∧
    0 ≤ (headerParams alg enc zip apu apv params).p2c

/-- C05, second sentence (compact serialization): a message produced by the RFC 7516 §5.1 procedure for
    *any* algorithm name — all 17 registered ones, the ECDH-ES family included — whose key management is
    correct (`KeyManagementLaw`), is decrypted by goat's `Parse` + `Decrypt` to exactly the plaintext. -/
theorem jwe_accepts_conformant (o : Oracle) (L : Laws o) (alg enc : String) (zip : Bool) (rcptKey kw' : Wire)
    (apu apv : Option Bytes) (pt : Bytes) (e : Encrypted) (data : Bytes)
    (hav : encAvailable enc = true)
    (hspec : (specEncrypt o alg enc zip rcptKey apu apv pt).run o = .ok e)
    (hser : (compactSerialize e).run o = .ok data)
    (hkm : KeyManagementLaw o alg enc zip rcptKey apu apv kw')
    (hfind : ∀ raw, o ⟨"findKeyWrapper", [.obj raw, .none, .none]⟩ = kw') (hk : kw'.isNone = false) :
    (parse data >>= decrypt).run o = .ok pt := by
  unfold specEncrypt at hspec
  obtain ⟨⟨cek, ek, params⟩, hkmr, hspec⟩ := PO.run_bind_eq_ok _ _ _ _ hspec
  obtain ⟨iv, hiv, hspec⟩ := PO.run_bind_eq_ok _ _ _ _ hspec
  obtain ⟨m, hm, hspec⟩ := PO.run_bind_eq_ok _ _ _ _ hspec
  obtain ⟨utf8, hutf, hspec⟩ := PO.run_bind_eq_ok _ _ _ _ hspec
  simp only [PO.run_bind, PO.run_query] at hspec
  cases hce : PO.run o (contentEncrypt enc cek iv (o ⟨"b64url.enc", [.bytes utf8]⟩).asBytes m) with
  | err c => rw [hce] at hspec; simp at hspec
  | panic c => rw [hce] at hspec; simp at hspec
  | ok cttag =>
  obtain ⟨ct, tag⟩ := cttag
  rw [hce] at hspec
  simp only [PO.run_pure] at hspec
  cases hspec
  -- unpack the steps
  have hq : o ⟨"spec.keyManagement", [.str alg, rcptKey, .str enc, optBytesW apu, optBytesW apv]⟩ =
      .arr [.bytes cek, .bytes ek, params] := by
    unfold keyManagement at hkmr
    simp only [PO.run_bind, PO.run_query] at hkmr
    split at hkmr
    · simp only [PO.run_pure] at hkmr; cases hkmr; assumption
    · simp at hkmr
  have hmar : o ⟨"json.marshal", [.obj (headerObject o (headerParams alg enc zip apu apv params))]⟩ = .bytes utf8 := by
    unfold utf8Header at hutf
    simp only [PO.run_bind, PO.run_query] at hutf
    split at hutf
    · simp only [PO.run_pure] at hutf; cases hutf; assumption
    · simp at hutf
  have henc : o ⟨"enc.encrypt", [.str enc, .bytes cek, .bytes iv, .bytes (o ⟨"b64url.enc", [.bytes utf8]⟩).asBytes, .bytes m]⟩ =
      .arr [.bytes ct, .bytes tag] := by
    unfold contentEncrypt at hce
    simp only [PO.run_bind, PO.run_query] at hce
    split at hce
    · simp only [PO.run_pure] at hce; cases hce; assumption
    · simp at hce
  obtain ⟨hun, hp2c⟩ := hkm _ _ _ hq
  simp only [compactSerialize, PO.run_bind, PO.run_query, PO.run_pure] at hser
  cases hser
  have hokf : HeaderOK (headerParams alg enc zip apu apv params) := by
    refine ⟨rfl, by simp [headerParams], hp2c, ?_⟩
    intro k hk'
    simp only [headerParams] at hk'
    cases hg : params.get? "epk" with
    | none => rw [hg] at hk'; simp at hk'
    | some k0 =>
      rw [hg] at hk'
      cases k0 <;> simp only [Option.some.injEq, reduceCtorEq] at hk' <;> (subst hk'; rfl)
  have hzz : (if (headerParams alg enc zip apu apv params).zip = jwa.DEF then
      o ⟨"deflate", [.bytes pt]⟩ = .bytes m else m = pt) := by
    unfold compress at hm
    by_cases hz : zip = true
    · simp only [hz, if_true, PO.run_bind, PO.run_query] at hm
      split at hm
      · simp only [PO.run_pure] at hm; cases hm
        simp only [headerParams, hz, if_true]; assumption
      · simp at hm
    · have hz' : zip = false := by simpa using hz
      simp only [hz', Bool.false_eq_true, if_false, PO.run_pure] at hm
      cases hm
      have : (headerParams alg enc zip apu apv params).zip ≠ jwa.DEF := by simp [headerParams, hz', jwa.DEF]
      rw [if_neg this]
  have key := sealed_compact_decrypts o L enc (headerParams alg enc zip apu apv params)
    (headerObject o (headerParams alg enc zip apu apv params)) cek iv pt ek
    { header := headerParams alg enc zip apu apv params, iv := iv,
      b64iv := (o ⟨"b64url.enc", [.bytes iv]⟩).asBytes,
      ciphertext := ct, b64ciphertext := (o ⟨"b64url.enc", [.bytes ct]⟩).asBytes,
      b64protected := (o ⟨"b64url.enc", [.bytes utf8]⟩).asBytes, tag := tag,
      b64tag := (o ⟨"b64url.enc", [.bytes tag]⟩).asBytes,
      recipients := [{ encryptedKey := ek, b64encryptedKey := (o ⟨"b64url.enc", [.bytes ek]⟩).asBytes }] }
    kw' hav (by simp [headerParams]) hokf
    (encodes_headerObject o _ rfl rfl rfl rfl)
    ⟨rfl, rfl, rfl, ⟨_, rfl, rfl⟩, ⟨utf8, hmar, rfl⟩, ⟨rfl, rfl⟩, rfl, rfl, ⟨m, henc, hzz⟩⟩
    (hfind _) hk hun
  simp only [PO.run_bind, compact, Option.isSome, PO.run_pure] at key
  simp only [PO.run_bind]
  exact key

end Conformant


/-! ## the first sentence: what is proved, what is not -/

/-
The full statement of the first sentence — every serialization goat can emit (compact; general JSON with any
number of recipients), every key-management mode, every enc, zip on/off — is `jwe_roundtrip` in
GoatProofs/Lemmas/C05JsonProducer.lean.  It holds with two producer paths excluded by NAMED hypotheses, one per
recorded finding: the ECDH-ES family on the sending side (c05-ecdhes-jwe-sender: `DeriveKey` and `UnwrapKey` are both
handed the header's `epk`, i.e. the same public key P on both sides, and a·P ≠ b·P — `ecdhes_sender_fails` below),
and NewMessageWithKW with a parameter-publishing first algorithm followed by Encrypt
(c05-withkw-encrypt-param-collision).  The theorems of this file are its compact case.
-/

/-- C05, first sentence, compact case (name kept from the first round; see `jwe_roundtrip` for the full statement):
    every key-management algorithm except the ECDH-ES family on the sending side (for which the law the theorem
    needs does not hold).
    `kw` is the sender's wrapper, `kw'` the one the recipient's finder returns. -/
theorem jwe_roundtrip_partial (o : Oracle) (L : Laws o) (enc : String) (kw kw' : Wire)
    (prot : Option Header) (pt : Bytes)
    (halg : kwAlg kw ∈ allAlgs) (hnot : kwAlg kw ∉ ecdhesAlgs)
    (hok : HeaderOK (clone prot))
    (hlaw : if isDeriver kw then DeriveLaw o kw kw' else WrapLaw o kw kw') (hgen : CEKSized o enc)
    (hfind : ∀ raw, o ⟨"findKeyWrapper", [.obj raw, .none, .none]⟩ = kw') (hk : kw'.isNone = false)
    (msg : Message) (henc : (newMessageWithKW enc kw prot pt).run o = .ok msg) :
    (compact msg >>= parse >>= decrypt).run o = .ok pt := by
  by_cases hd : isDeriver kw = true
  · simp only [hd, if_true] at hlaw
    exact roundtrip_compact_derive o L enc kw kw' prot pt hd hok hlaw hfind hk msg henc
  · have hd' : isDeriver kw = false := by simpa using hd
    simp only [hd', Bool.false_eq_true, if_false] at hlaw
    exact roundtrip_compact_wrap o L enc kw kw' prot pt hd' hok hlaw hgen hfind hk msg henc

/-- The excluded point violates the full statement in the model.  In the DeriveKey path the recipient's
    `UnwrapKey` is queried with exactly the options the sender's `DeriveKey` got (same `epk`); so whenever
    the recipient's wrapper derives a different key from them (Diffie-Hellman: a·P ≠ b·P) and the content
    encryption rejects a wrong key, the message goat produced does not decrypt — for any plaintext. -/
theorem ecdhes_sender_fails (o : Oracle) (L : Laws o) (enc : String) (kw kw' : Wire)
    (prot : Option Header) (pt : Bytes) (hd : isDeriver kw = true) (hok : HeaderOK (clone prot))
    (hfind : ∀ raw, o ⟨"findKeyWrapper", [.obj raw, .none, .none]⟩ = kw')
    (cek' : Bytes)
    (hun : ∀ ek, o ⟨"kw.unwrap", [kw', .bytes ek, optsView [some { clone prot with enc := enc }]]⟩ = .bytes cek')
    (hrej : ∀ e iv aad ct tag, o ⟨"enc.decrypt", [.str e, .bytes cek', .bytes iv, .bytes aad, .bytes ct, .bytes tag]⟩ = .none)
    (msg : Message) (henc : (newMessageWithKW enc kw prot pt).run o = .ok msg) (pt2 : Bytes) :
    (compact msg >>= parse >>= decrypt).run o ≠ .ok pt2 := by
  unfold newMessageWithKW at henc
  by_cases hav : encAvailable enc = true
  · simp only [hav, Bool.not_true, Bool.false_eq_true, if_false, hd, if_true] at henc
    obtain ⟨pt', hcomp, henc⟩ := PO.run_bind_eq_ok _ _ _ _ henc
    simp only [PO.run_bind, PO.run_query] at henc
    split at henc
    · rename_i cek ek hq
      obtain ⟨rawHeader, hmar, henc⟩ := PO.run_bind_eq_ok _ _ _ _ henc
      simp only [b64Encode_run, PO.run_bind] at henc
      cases hg : PO.run o (generateIV enc) with
      | err c => rw [hg] at henc; simp at henc
      | panic c => rw [hg] at henc; simp at henc
      | ok iv =>
      rw [hg] at henc
      simp only at henc
      obtain ⟨ct, tag, hseal, hmsg⟩ := sealWith_ok _ _ _ _ _ _ _ _ _ _ henc
      have hmar' := marshalHeader_ok _ _ _ hmar
      have hokf : HeaderOK { clone prot with enc := enc } := ⟨hok.raw, hok.crit, hok.p2c, hok.epk⟩
      have hcz := compressIf_ok _ _ _ _ hcomp
      have S : Sealed o enc { clone prot with enc := enc } (encPure o { clone prot with enc := enc }) cek iv pt ek msg := by
        subst hmsg
        refine ⟨rfl, rfl, rfl, ⟨_, rfl, rfl⟩, ⟨rawHeader, hmar', rfl⟩, ⟨rfl, rfl⟩, rfl, rfl, ⟨pt', hseal, ?_⟩⟩
        cases prot <;> exact hcz
      obtain ⟨b64ek, hp⟩ := sealed_compact_parses o L enc _ _ cek iv pt ek msg hokf (encodes_encPure o _ hokf.raw) S
      intro hcontra
      rw [PO.run_bind, hp] at hcontra
      simp only at hcontra
      obtain ⟨pre, r, post, kwf, cek2, pt3, hsplit, _, hfa, _, hua, _, haa, _⟩ := C06.jwe_decrypt_sound o _ pt2 hcontra
      have hr : r = { encryptedKey := ek, b64encryptedKey := b64ek } := by
        simp only [parsedOf] at hsplit
        cases pre with
        | nil => simp at hsplit; exact hsplit.1.symm
        | cons a t => cases t <;> simp at hsplit
      subst hr
      have hkwf : kwf = kw' := by
        rw [← hfa]; simp [C06.finderAnswer, parsedOf, hdrW, optHdrW, hfind]
      subst hkwf
      have hm : mergedOpts none { ({ clone prot with enc := enc } : Header) with raw := encPure o { clone prot with enc := enc } } none =
          optsView [some { clone prot with enc := enc }] :=
        optsView_merged_single _ _ ⟨rfl, rfl, rfl, rfl, rfl, rfl, rfl, rfl⟩
      simp only [C06.unwrapAnswer, parsedOf, hm, hun] at hua
      cases hua
      simp only [C06.aeadAnswer, hrej] at haa
      cases haa
    · simp at henc
  · simp only [hav, Bool.not_false, if_true] at henc
    simp at henc

/-! ## non-vacuity

A concrete run of the whole pipeline.  (A *total* oracle satisfying `Laws` for all inputs needs an injective
JSON / base64 encoder written in Lean and is not constructed here; each law is exercised by the harness on
every generated case instead.) -/

/-- a concrete (table) oracle under which the whole pipeline runs -/
def oT : Oracle := fun q =>
  if q.name == "enc.generateCEK" then .bytes [1]
  else if q.name == "enc.generateIV" then .bytes [2]
  else if q.name == "kw.wrap" then .arr [.bytes [3], .obj []]
  else if q.name == "json.marshal" then .bytes [4]
  else if q.name == "json.decodeMap" then .obj [("alg", .str "A128KW"), ("enc", .str "A128GCM")]
  else if q.name == "b64url.enc" || q.name == "b64url.dec" then
    (match q.args with | [.bytes x] => .bytes x | _ => .none)
  else if q.name == "enc.encrypt" then .arr [.bytes [5], .bytes [6]]
  else if q.name == "enc.decrypt" then
    (match q.args with
     | [.str "A128GCM", .bytes [1], .bytes [2], .bytes [4], .bytes [5], .bytes [6]] => .bytes [42]
     | _ => .none)
  else if q.name == "findKeyWrapper" then .str "kw2"
  else if q.name == "kw.unwrap" then
    (match q.args with | [_, .bytes [3], _] => .bytes [1] | _ => .none)
  else .none

/-- non-vacuity: encrypt → Compact → Parse → Decrypt runs to the plaintext under a concrete oracle -/
example : (newMessageWithKW "A128GCM" (.obj [("alg", .str "A128KW")]) (some { alg := "A128KW" }) [42]
    >>= compact >>= parse >>= decrypt).run oT = .ok [42] := by rfl

example : (newMessageWithKW "A128GCM" (.obj [("alg", .str "A128KW")]) (some { alg := "A128KW" }) [42]
    >>= compact).run oT = .ok [4, 46, 3, 46, 2, 46, 5, 46, 6] := by rfl

end GoatProofs.C05
