import GoatProofs.C14
import GoatProofs.Lemmas.C14MontLadder
import GoatProofs.Lemmas.C14MontOrder
/-
C14, closing the last hypothesis: Diffie-Hellman symmetry of X448 WITHOUT assumptions.

`C14.dh_symmetric_partial` assumed an x-only scalar multiplication `mulU` that composes and that the RFC ladder
computes.  Here that object is CONSTRUCTED: curve448 `v² = u³ + 156326u² + u` over `ZMod p` is a Mathlib
Weierstrass curve (a₂ = 156326, a₄ = 1), whose nonsingular points Mathlib proves to be an `AddCommGroup`;
`C14Mont.ladder_cast` (Lemmas/C14Mont{Curve,XZ,Ladder}.lean) shows that `Spec.RFC7748.ladder k u ≡ x([k]Q)` for
every point `Q` with `x(Q) ≡ u` (0 for the point at infinity and for the 2-torsion point (0,0)), primality of p
from `GoatProofs.Primes.p448_prime`.  The base point is `G = (5, v₀)` with the RFC 7748 §4.2 `V` coordinate
(the curve equation is checked by the kernel), so the public key `X448(b, 5)` encodes `x([b]G)` and the second
ladder runs from the KNOWN point `[b]G`: `x([a]([b]G)) = x([ab]G) = x([b]([a]G))`.
-/
namespace C14
open C14Mont WeierstrassCurve GoatProofs.Primes Model.X448 Spec.RFC7748
set_option exponentiation.threshold 2000

/-! ## the base point -/

/-- RFC 7748 §4.2, curve448: `V(P)` -/
def v0N : ℕ :=
  355293926785568175264127502063783334808976399387714271831880898435169088786967410002932673765864550910142774147268105838985595290606362

theorem base_equation : ((v0N : ℕ) : F) ^ 2 = (5 : F) ^ 3 + A448 * (5 : F) ^ 2 + 5 := by
  have h : ((v0N ^ 2 : ℕ) : F) = ((5 ^ 3 + 156326 * 5 ^ 2 + 5 : ℕ) : F) :=
    (ZMod.natCast_eq_natCast_iff' _ _ _).mpr (by decide +kernel)
  push_cast at h
  exact h

theorem v0_ne : ((v0N : ℕ) : F) ≠ 0 := small_ne v0N (by decide +kernel) (by decide +kernel)

theorem base_nonsingular : (MW A448).toAffine.Nonsingular (5 : F) ((v0N : ℕ) : F) := by
  rw [Affine.nonsingular_iff]
  refine ⟨(C14Mont.equation_iff _ _).mpr base_equation, Or.inr ?_⟩
  show ((v0N : ℕ) : F) ≠ -((v0N : ℕ) : F) - 0 * 5 - 0
  intro e
  have h2 : (2 : F) * ((v0N : ℕ) : F) = 0 := by linear_combination e
  rcases mul_eq_zero.mp h2 with h | h
  · exact good448.two h
  · exact v0_ne h

/-- the base point of curve448 (RFC 7748 §4.2: U(P) = 5) as an element of Mathlib's group -/
def G448 : Pt := Affine.Point.some 5 ((v0N : ℕ) : F) base_nonsingular

theorem xOf_G : xOf G448 = 5 := rfl

/-! ## scalars are below 2^448 -/

theorem dle_lt (l : List Nat) (h : ∀ x ∈ l, x < 256) : decodeLittleEndian l < 256 ^ l.length := by
  induction l with
  | nil => simp [decodeLittleEndian]
  | cons x xs ih =>
    have hx := h x (by simp)
    have := ih (fun y hy => h y (by simp [hy]))
    simp only [decodeLittleEndian, List.length_cons, Nat.pow_succ]
    omega

theorem scalar_lt (k : Bytes) (hk : k.length = 56) : decodeScalar448 k < 2 ^ 448 := by
  unfold decodeScalar448
  rw [← clamp_eq]
  have h := dle_lt (clamp (k.map UInt8.toNat)) (clamp_lt _ (by
    intro x hx
    simp only [List.mem_map] at hx
    obtain ⟨y, _, rfl⟩ := hx
    exact toNat_lt y))
  rw [clamp_length, List.length_map, hk] at h
  have e : (256 : ℕ) ^ 56 = 2 ^ 448 := by decide +kernel
  rw [e] at h
  exact h

/-! ## the public key encodes `x([k]G)` -/

theorem decode_base : decodeUCoordinate Spec.RFC7748.basepoint = 5 := by
  unfold Spec.RFC7748.basepoint
  rw [decode_encode]; decide

/-- `X448(k, 5) ≡ x([k]G)` (0 when `[k]G = O`) -/
theorem pub_cast (k : Bytes) (hk : k.length = 56) :
    ((x448val k Spec.RFC7748.basepoint : ℤ) : F) = xOf (decodeScalar448 k • G448) := by
  unfold x448val
  rw [decode_base]
  exact ladder_cast _ (scalar_lt k hk) 5 G448 (by rw [xOf_G]; norm_num)

/-- the general statement: for ANY 56-byte `u` that is (congruent to) the x-coordinate of a point `Q` of the
    curve, `X448(k, u) ≡ x([k]Q)` with `k` the clamped scalar (0 when `[k]Q = O`) -/
theorem x448_on_curve (k pt : Bytes) (hk : k.length = 56) (Q : Pt)
    (hp : ((decodeUCoordinate pt : ℤ) : F) = xOf Q) :
    ((x448val k pt : ℤ) : F) = xOf (decodeScalar448 k • Q) :=
  ladder_cast _ (scalar_lt k hk) _ Q hp

/-- `X448(a, X448(b, 5)) ≡ x([a·b]G)` -/
theorem shared_cast (a b : Bytes) (ha : a.length = 56) (hb : b.length = 56) :
    ((x448val a (X448 b Spec.RFC7748.basepoint) : ℤ) : F)
      = xOf ((decodeScalar448 a * decodeScalar448 b) • G448) := by
  show ((ladder _ (decodeUCoordinate (encodeUCoordinate (x448val b Spec.RFC7748.basepoint))) : ℤ) : F) = _
  rw [decode_encode, mul_nsmul']
  refine ladder_cast _ (scalar_lt a ha) _ _ ?_
  rw [cast_mod, pub_cast b hb]

theorem int_eq_of_cast {x y : ℤ} (hx : 0 ≤ x ∧ x < p) (hy : 0 ≤ y ∧ y < p) (h : (x : F) = (y : F)) : x = y := by
  have := (ZMod.intCast_eq_intCast_iff' x y p448).mp h
  rw [p_cast, Int.emod_eq_of_lt hx.1 hx.2, Int.emod_eq_of_lt hy.1 hy.2] at this
  exact this

/-- the shared secrets are the same integer -/
theorem shared_val_comm (a b : Bytes) (ha : a.length = 56) (hb : b.length = 56) :
    x448val a (X448 b Spec.RFC7748.basepoint) = x448val b (X448 a Spec.RFC7748.basepoint) := by
  apply int_eq_of_cast (x448val_range _ _) (x448val_range _ _)
  rw [shared_cast a b ha hb, shared_cast b a hb ha, Nat.mul_comm]

/-- **Diffie-Hellman symmetry, no hypothesis**: for all 56-byte secrets `a`, `b` and every oracle, goat's
    `X448(a, X448(b, 5))` and `X448(b, X448(a, 5))` have the same outcome — the same 56 bytes, or the
    low-order error on both sides -/
theorem dh_symmetric (a b : Bytes) (ha : a.length = 56) (hb : b.length = 56) (o : Oracle) :
    PO.run o (x448 a (X448 b Spec.RFC7748.basepoint)) = PO.run o (x448 b (X448 a Spec.RFC7748.basepoint)) := by
  have hlen : ∀ k : Bytes, (X448 k Spec.RFC7748.basepoint).length = 56 := by
    intro k; simp [X448, encodeUCoordinate, bits]
  have hv := shared_val_comm a b ha hb
  have hB : X448 a (X448 b Spec.RFC7748.basepoint) = X448 b (X448 a Spec.RFC7748.basepoint) := by
    unfold X448 at hv ⊢; rw [hv]
  rw [x448_eq_rfc a _ ha (hlen b) o, x448_eq_rfc b _ hb (hlen a) o, hv, hB]

/-- the same through the key-pair API: the shared secret computed from (private a, public of b) equals the one
    from (private b, public of a), where the public keys are the ones `NewKeyFromSeed` stores -/
theorem dh_symmetric_keys (a b : Bytes) (ha : a.length = 56) (hb : b.length = 56) (o : Oracle) :
    PO.run o (x448 a (publicOf (b ++ X448 b Spec.RFC7748.basepoint))) =
      PO.run o (x448 b (publicOf (a ++ X448 a Spec.RFC7748.basepoint))) := by
  have hpub : ∀ s : Bytes, s.length = 56 → publicOf (s ++ X448 s Spec.RFC7748.basepoint) = X448 s Spec.RFC7748.basepoint := by
    intro s hs; unfold publicOf; rw [← hs]; simp
  rw [hpub a ha, hpub b hb]
  exact dh_symmetric a b ha hb o

/-- the hypotheses of `dh_symmetric_partial` ARE satisfiable by a genuine object: the RFC ladder itself,
    restricted to what the theorem uses — stated as the general fact for arbitrary points of the curve -/
theorem ladder_compose (a b : ℕ) (ha : a < 2 ^ 448) (hb : b < 2 ^ 448) (u : ℤ) (Q : Pt) (hu : (u : F) = xOf Q) :
    ((ladder a (ladder b u) : ℤ) : F) = xOf ((a * b) • Q) := by
  rw [mul_nsmul']
  exact ladder_cast a ha _ _ (ladder_cast b hb u Q hu)

/-! ## when is the public key zero?  (the side condition of `pub_is_x448_seed_5`)

`docs/C14.md` used to say "`x448val seed 5 ≠ 0` is true for every seed".  It is NOT: the clamped scalars are
the multiples of 4 in `[2^447, 2^448)`, and `4ℓ` (ℓ the prime subgroup order, `2^445 < ℓ < 2^446`) is one of
them; `[4ℓ]G = O`, so for the 8 seeds that clamp to `4ℓ` `X448(seed, 5)` is all zero, `x448.X448` returns the
low-order error and `NewKeyFromSeed` panics (`panic(err)`), `GenerateKey` returns the error.  Proved here:
that is the ONLY exception. -/

/-- `[2ℓ]G = O`, from the kernel evaluation of the RFC ladder at `(ℓ, 5)` and `ladder_cast` -/
theorem two_l_G : (2 * l448) • G448 = 0 := by
  have h := ladder_cast l448 l448_lt 5 G448 (by rw [xOf_G]; norm_num)
  rw [ladder_l_5] at h
  have hz : xOf (l448 • G448) = 0 := by rw [← h]; norm_num
  rw [two_mul, add_nsmul]
  exact add_self_of_xOf_zero hz

/-- `[2]G ≠ O` (the tangent at `G` is not vertical: `v₀ ≠ 0`) -/
theorem two_G_ne : 2 • G448 ≠ 0 := by
  rw [two_nsmul]
  obtain ⟨x', y', h', e, _⟩ := add_self_x base_nonsingular (mul_ne_zero good448.two v0_ne)
  unfold G448
  rw [e]
  exact Affine.Point.some_ne_zero _

/-- `x([k]G)` is 0 (i.e. `[k]G` is `O` or the 2-torsion point) exactly for the multiples of ℓ -/
theorem xOf_nsmul_G_eq_zero_iff (k : ℕ) : xOf (k • G448) = 0 ↔ l448 ∣ k := by
  constructor
  · intro h
    by_contra hnd
    have h2k : (2 * k) • G448 = 0 := by
      rw [two_mul, add_nsmul]; exact add_self_of_xOf_zero h
    have d1 : addOrderOf G448 ∣ 2 * k := addOrderOf_dvd_iff_nsmul_eq_zero.mpr h2k
    have d2 : addOrderOf G448 ∣ 2 * l448 := addOrderOf_dvd_iff_nsmul_eq_zero.mpr two_l_G
    have hg : Nat.gcd (2 * k) (2 * l448) = 2 := by
      rw [Nat.gcd_mul_left]
      have : Nat.Coprime l448 k := (Nat.Prime.coprime_iff_not_dvd C14Mont.l448_prime).mpr hnd
      rw [Nat.Coprime.symm this]
    have d3 : addOrderOf G448 ∣ 2 := by rw [← hg]; exact Nat.dvd_gcd d1 d2
    exact two_G_ne (addOrderOf_dvd_iff_nsmul_eq_zero.mp d3)
  · rintro ⟨j, rfl⟩
    have h := ladder_cast l448 l448_lt 5 G448 (by rw [xOf_G]; norm_num)
    rw [ladder_l_5] at h
    have hz : xOf (l448 • G448) = 0 := by rw [← h]; norm_num
    rw [Nat.mul_comm, mul_nsmul']
    exact xOf_nsmul_of_xOf_zero hz j

/-- **the public key `X448(seed, 5)` is zero exactly when the clamped seed is `4ℓ`** -/
theorem x448_base_zero_iff (seed : Bytes) (hs : seed.length = 56) :
    x448val seed Spec.RFC7748.basepoint = 0 ↔ decodeScalar448 seed = 4 * l448 := by
  have hc := pub_cast seed hs
  constructor
  · intro h
    rw [h] at hc
    have hz : xOf (decodeScalar448 seed • G448) = 0 := by rw [← hc]; norm_num
    exact eq_four_l_of_dvd (scalar_mod4 seed hs) (scalar_ge seed hs) (scalar_lt seed hs)
      ((xOf_nsmul_G_eq_zero_iff _).mp hz)
  · intro h
    have hz : xOf (decodeScalar448 seed • G448) = 0 :=
      (xOf_nsmul_G_eq_zero_iff _).mpr ⟨4, by rw [h, Nat.mul_comm]⟩
    rw [hz] at hc
    exact int_eq_of_cast (x448val_range _ _) ⟨le_refl _, by decide⟩ (by rw [hc]; norm_num)

/-- `pub_is_x448_seed_5` with its hypothesis discharged: for every 56-byte seed whose clamped value is not `4ℓ`,
    `NewKeyFromSeed` returns seed ‖ X448(seed, 5) -/
theorem pub_is_x448_seed_5_closed (seed : Bytes) (hs : seed.length = 56) (o : Oracle)
    (hne : decodeScalar448 seed ≠ 4 * l448) :
    PO.run o (newKeyFromSeed seed) = .ok (seed ++ X448 seed Spec.RFC7748.basepoint) ∧
    publicOf (seed ++ X448 seed Spec.RFC7748.basepoint) = X448 seed Spec.RFC7748.basepoint :=
  pub_is_x448_seed_5 seed hs o (fun h => hne ((x448_base_zero_iff seed hs).mp h))

theorem generateKey_pub_closed (pos : Nat) (o : Oracle) (seed : Bytes) (hs : seed.length = 56)
    (hr : o ⟨"rand", [.int pos, .int 56]⟩ = .bytes seed) (hne : decodeScalar448 seed ≠ 4 * l448) :
    PO.run o (generateKey pos) =
      .ok (X448 seed Spec.RFC7748.basepoint, seed ++ X448 seed Spec.RFC7748.basepoint) :=
  generateKey_pub pos o seed hs hr (fun h => hne ((x448_base_zero_iff seed hs).mp h))

/-- … and for the seeds that clamp to `4ℓ`, `NewKeyFromSeed` PANICS (Go: `panic(err)` on the low-order error) -/
theorem newKeyFromSeed_panics_iff (seed : Bytes) (hs : seed.length = 56) (o : Oracle) :
    PO.run o (newKeyFromSeed seed) = .panic "x448: NewKeyFromSeed: X448 failed" ↔
      decodeScalar448 seed = 4 * l448 := by
  constructor
  · intro h
    by_contra hne
    rw [(pub_is_x448_seed_5_closed seed hs o hne).1] at h
    cases h
  · intro h
    have hz := (x448_base_zero_iff seed hs).mpr h
    have hb : Model.X448.basepoint.length = 56 := by decide
    have hx := x448_eq_rfc seed Model.X448.basepoint hs hb o
    unfold x448 at hx
    rw [PO.run_ofOutcome, basepoint_eq, if_pos hz] at hx
    unfold newKeyFromSeed
    simp only [hs, ne_eq, not_true_eq_false, if_false]
    rw [basepoint_eq, hx]; rfl

/-- a seed that clamps to `4ℓ` (little-endian bytes of 4ℓ) -/
def seed4l : Bytes :=
  [0xcc, 0x13, 0x61, 0xad, 0x4a, 0x0a, 0xe3, 0x8d, 0x54, 0x3d, 0x16, 0x37, 0xca, 0x09, 0xb3, 0x85,
   0x40, 0xda, 0x58, 0xbb, 0x26, 0x6d, 0x3b, 0x11, 0xa7, 0x8f, 0x28, 0xf3, 0xfd, 0xff, 0xff, 0xff,
   0xff, 0xff, 0xff, 0xff, 0xff, 0xff, 0xff, 0xff, 0xff, 0xff, 0xff, 0xff, 0xff, 0xff, 0xff, 0xff,
   0xff, 0xff, 0xff, 0xff, 0xff, 0xff, 0xff, 0xff]

theorem seed4l_spec : seed4l.length = 56 ∧ decodeScalar448 seed4l = 4 * l448 := by decide +kernel

/-- the exception is real: this 56-byte seed makes `NewKeyFromSeed` panic -/
theorem newKeyFromSeed_panics_seed4l (o : Oracle) :
    PO.run o (newKeyFromSeed seed4l) = .panic "x448: NewKeyFromSeed: X448 failed" :=
  (newKeyFromSeed_panics_iff seed4l seed4l_spec.1 o).mpr seed4l_spec.2

/-! ## non-vacuity -/

/-- the base point is a genuine affine point and `[2]G ≠ O` -/
example : G448 ≠ 0 := Affine.Point.some_ne_zero _
/-- `dh_symmetric` has no hypothesis beyond the lengths; 56-byte secrets exist -/
example : (List.replicate 56 (7 : UInt8)).length = 56 ∧ (List.replicate 56 (9 : UInt8)).length = 56 := by decide
/-- `x448_on_curve` applies to the base point bytes with `Q = G` -/
example : ((decodeUCoordinate Spec.RFC7748.basepoint : ℤ) : F) = xOf G448 := by rw [decode_base, xOf_G]; norm_num
/-- the hypothesis of `pub_is_x448_seed_5_closed` holds for, e.g., the all-zero seed -/
example : decodeScalar448 (List.replicate 56 0) ≠ 4 * l448 := by decide +kernel

end C14
