import Goat.Model.JWT
import Goat.Model.JWTClaims
import Goat.Model.Binding
import GoatProofs.C07JWS
import GoatProofs.Lemmas.C07NumericDate
/-
C07 over the JWT models (Goat/Model/JWT.lean by C01, Goat/Model/JWTClaims.lean by C04/C10) and over
the library's own key finders and the algorithm registry (Goat/Model/Binding.lean by C03).
-/
namespace C07
open PO

/-! ### jwt.Parser.Parse, signature part (Model.JWT) -/

theorem stage_np {α} (cls : String) (p : PO α) (h : NoPanic p) : NoPanic (Model.JWT.stage cls p) := by
  rw [NoPanic.unfold]
  intro o s
  unfold Model.JWT.stage
  simp only [PO.run_bind, PO.run_attempt]
  cases hr : PO.run o p with
  | ok a => simp
  | err c => simp
  | panic t => exact absurd hr ((NoPanic.unfold.mp h) o t)

/-- the oracle hypothesis of the JWT theorems: whatever the key finder answers denotes a key made
    by `alg.NewSigningKey(k)` from a non-nil parsed key -/
def JwtFinderGood (o : Oracle) : Prop := ∀ q : Query, q.name = "jwt.findKey" → GoodHandle (o q)

/-- `Parser.Parse` with ANY panic-free claims step: every byte string, every policy, every oracle
    whose key-finder answers are good handles -/
theorem no_panic_jwt_parseWith {γ : Type} (pc : Bytes → PO γ) (hpc : ∀ p, NoPanic (pc p))
    (cfg : Model.JWT.Cfg) (data : Bytes) :
    NoPanicOn JwtFinderGood (Model.JWT.parseWith pc cfg data) := by
  unfold Model.JWT.parseWith
  split
  · exact NoPanicOn.of_noPanic (NoPanic.fail _)
  · split
    · exact NoPanicOn.of_noPanic (NoPanic.fail _)
    · split
      · exact NoPanicOn.of_noPanic (NoPanic.fail _)
      · apply NoPanicOn.bind (NoPanicOn.of_noPanic (stage_np _ _ (b64Decode_np _)))
        intro hb
        apply NoPanicOn.bind (NoPanicOn.of_noPanic (stage_np _ _ (unmarshalHeader_np _)))
        intro header
        split
        · exact NoPanicOn.of_noPanic (NoPanic.fail _)
        · apply NoPanicOn.query_bind GoodHandle (fun o ho => ho _ rfl)
          intro w hw
          unfold GoodHandle at hw
          split
          · exact NoPanicOn.of_noPanic (NoPanic.fail _)
          · rename_i site heq; rw [heq] at hw; exact hw.elim
          · exact NoPanicOn.of_noPanic (NoPanic.fail _)
          · rename_i sk heq
            rw [heq] at hw
            apply NoPanicOn.of_noPanic
            nopanic using (stage_np _ _ (b64Decode_np _)), (stage_np _ _ (verifyKey_np sk hw _ _)), hpc

theorem claimsOracle_np (p : Bytes) : NoPanic (Model.JWT.claimsOracle p) := by
  unfold Model.JWT.claimsOracle; nopanic

/-- **no_panic_jwt_parse** (header, allow-list, key finder, signature, payload base64; the claims
    step as one oracle answer) -/
theorem no_panic_jwt_parse (cfg : Model.JWT.Cfg) (data : Bytes) :
    NoPanicOn JwtFinderGood (Model.JWT.parse cfg data) := by
  unfold Model.JWT.parse
  exact no_panic_jwt_parseWith _ claimsOracle_np cfg data

/-! ### claims (Model.JWTClaims): panic-free wherever NumericDate.UnmarshalJSON is -/

section claims
open Model.JWTClaims

variable (hnd : ∀ s, (Model.NumericDate.decode s).NoPanic)
include hnd

theorem claims_getTime_np (d : Dec) (n : String) : (getTime d n).NoPanic := by
  unfold getTime
  split
  · exact Outcome.NoPanic.ok _
  · rename_i s _
    split
    · exact Outcome.NoPanic.ok _
    · exact Outcome.NoPanic.ok _
    · rename_i p hp; exact absurd hp (hnd s p)
  · exact Outcome.NoPanic.ok _

theorem claims_finish_np (now : Int) (w : Wire) (iss sub : String) (aud : List String) (d : Dec) :
    (finish now w iss sub aud d).NoPanic := by
  unfold finish
  have g := claims_getTime_np hnd
  repeat (first
    | exact Outcome.NoPanic.err _
    | exact Outcome.NoPanic.ok _
    | (rename_i heq; exact absurd heq (g _ _ _))
    | split
    | simp only [])

/-- FULL STATEMENT (kept): `∀ payload, NoPanic (parseClaims payload)`.  Proved under the hypothesis
    that the NumericDate model never answers `panic` (see C07Decoder.getTime_noPanic_of). -/
theorem no_panic_jwt_parseClaims_partial (payload : Bytes) : NoPanic (parseClaims payload) := by
  unfold parseClaims
  have hf : ∀ now w iss sub aud d, NoPanic (PO.ofOutcome (finish now w iss sub aud d)) :=
    fun now w iss sub aud d => NoPanic.ofOutcome (claims_finish_np hnd now w iss sub aud d)
  nopanic using hf

theorem no_panic_jwt_claims_parse_partial (cfg : Config) (data : Bytes) : NoPanic (parse cfg data) := by
  unfold parse
  nopanic using (no_panic_jwt_parseClaims_partial hnd)

end claims

/-- **no_panic_jwt_parseClaims** (full statement): the claims step of jwt.Parser.Parse on every
    payload — aud of any shape, exp/nbf/iat of any JSON type and any number text -/
theorem no_panic_jwt_parseClaims (payload : Bytes) : NoPanic (Model.JWTClaims.parseClaims payload) :=
  no_panic_jwt_parseClaims_partial ND.decode_noPanic payload

theorem no_panic_jwt_claims_parse (cfg : Model.JWTClaims.Config) (data : Bytes) :
    NoPanic (Model.JWTClaims.parse cfg data) :=
  no_panic_jwt_claims_parse_partial ND.decode_noPanic cfg data

/-- **no_panic_jwt_parse_full**: `jwt.Parser.Parse` assembled from the signature part (model of C01)
    and the FULL claims step (model of C04/C10: iss / sub / aud of any shape, exp / nbf / iat of any
    JSON type and number text, NumericDate): every byte string, every policy, every oracle whose
    key-finder answers are good handles -/
theorem no_panic_jwt_parse_full (cfg : Model.JWT.Cfg) (data : Bytes) :
    NoPanicOn JwtFinderGood (Model.JWT.parseWith Model.JWTClaims.parseClaims cfg data) :=
  no_panic_jwt_parseWith _ no_panic_jwt_parseClaims cfg data

/-- `encodeClaims` (re-serialisation of parsed claims) never panics: `claimsMap` has no panic outcome -/
theorem claimsMap_np (c : Model.JWTClaims.Claims) : (Model.JWTClaims.claimsMap c).NoPanic := by
  unfold Model.JWTClaims.claimsMap
  simp only []
  split
  · exact Outcome.NoPanic.err _
  · exact Outcome.NoPanic.ok _

theorem no_panic_jwt_encodeClaims (c : Model.JWTClaims.Claims) : NoPanic (Model.JWTClaims.encodeClaims c) := by
  unfold Model.JWTClaims.encodeClaims
  split
  · nopanic
  · nopanic
  · rename_i p hp; exact absurd hp (claimsMap_np c p)

/-! ### the library's own key finders and the registry (Model.Binding) -/

section binding
open Model.Binding

theorem binding_prim_np (n : String) (a : List Wire) : NoPanic (prim n a) := by unfold prim; nopanic

/-- `SigningKey.Verify` of every kind of key never panics (the EdDSA public-key length is part of
    the Sig model above; Binding abstracts key material to its Go type) -/
theorem binding_verify_np (sk : SigningKey) (n : Nat) (ctx : Wire) : NoPanic (verify sk n ctx) := by
  unfold verify
  nopanic using binding_prim_np

/-- `alg.NewSigningKey(key)` panics only for the nil key interface -/
theorem binding_newSigningKey_np (c : SigCtor) (k : Key) : (newSigningKey c (some k)).NoPanic := by
  unfold newSigningKey
  cases c <;> exact Outcome.NoPanic.ok _

/-- **jws.JWKKeyFinder.FindKey** with any non-nil key: unknown / unavailable algorithm names are an
    error because `Available()` is consulted before `New()` -/
theorem no_panic_jwsJWKKeyFinder (k : Key) (s : SigEntry) : NoPanic (jwsJWKKeyFinder (some k) s) := by
  unfold jwsJWKKeyFinder
  split
  · nopanic
  · exact NoPanic.ofOutcome (binding_newSigningKey_np _ _)

theorem binding_guessAlg_np (a b : String) : (guessAlg a b).NoPanic := by
  unfold guessAlg
  split
  · exact Outcome.NoPanic.err _
  · split
    · split
      · exact Outcome.NoPanic.err _
      · split
        · exact Outcome.NoPanic.ok _
        · exact Outcome.NoPanic.err _
    · split
      · exact Outcome.NoPanic.ok _
      · exact Outcome.NoPanic.err _

/-- **jwt.JWKKeyFiner.FindKey** (guessAlg): unknown algorithm in key or header is an error -/
theorem no_panic_jwtJWKKeyFinder (k : Key) (hdrAlg : String) : NoPanic (jwtJWKKeyFinder k hdrAlg) := by
  unfold jwtJWKKeyFinder
  apply NoPanic.bind (NoPanic.ofOutcome (binding_guessAlg_np _ _))
  intro c
  exact NoPanic.ofOutcome (binding_newSigningKey_np _ _)

/-- the verifier loop with the library's finder and any non-nil key: every list of signatures with
    present / absent / unprotected-only headers and unknown algorithm names -/
theorem no_panic_jwsVerify_libraryFinder (av : AlgVerifier) (k : Key) :
    ∀ (sigs : List SigEntry) (i : Nat), NoPanic (jwsVerifyFrom av (jwsJWKKeyFinder (some k)) i sigs)
  | [], i => by unfold jwsVerifyFrom; nopanic
  | s :: rest, i => by
    unfold jwsVerifyFrom
    have ih := no_panic_jwsVerify_libraryFinder av k rest (i + 1)
    split
    · exact ih
    · split
      · exact ih
      · rw [NoPanic.unfold]
        intro o t
        simp only [PO.run_bind, PO.run_attempt]
        have hf := NoPanic.unfold.mp (no_panic_jwsJWKKeyFinder k s) o
        cases hr : PO.run o (jwsJWKKeyFinder (some k) s) with
        | panic p => exact absurd hr (hf p)
        | err c => simpa using (NoPanic.unfold.mp ih) o t
        | ok key =>
          simp only [PO.run_bind, PO.run_attempt]
          have hv := NoPanic.unfold.mp (binding_verify_np key s.sigLen (.int i)) o
          cases hr2 : PO.run o (verify key s.sigLen (.int i)) with
          | panic p => exact absurd hr2 (hv p)
          | err c => simpa using (NoPanic.unfold.mp ih) o t
          | ok u => simp

/-- jwt.Parser.Parse with the library's finder -/
theorem no_panic_jwtParse_libraryFinder (av : AlgVerifier) (k : Key) (hdrAlg : String) (n : Nat)
    (claims : PO Unit) (hc : NoPanic claims) :
    NoPanic (jwtParse av (jwtJWKKeyFinder k) hdrAlg n claims) := by
  unfold jwtParse
  nopanic using no_panic_jwtJWKKeyFinder, binding_verify_np

/-- sharpness: `New()` WITHOUT the `Available()` check is the crash (jwa.go:88-100): an unknown
    name panics in the registry; the finders above never reach it -/
example : sigNew "HS257" = .panic "jwa.SignatureAlgorithm.New" := by rfl
example : kwNew "A512KW" = .panic "jwa.KeyManagementAlgorithm.New" := by rfl
/-- and the nil key interface is the other (caller-side) crash -/
example : newSigningKey (.hs .sha256 false) none = .panic "NewSigningKey.nilkey" := rfl

end binding

end C07
