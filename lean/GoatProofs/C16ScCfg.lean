import GoatProofs.Lemmas.Glue
import Goat.Gen.Sc448
/-
Configurations (claims) for the reflective check of the Ed448 scalar programs
(internal/edwards448/scalar.go: scMulAdd, scReduce), 19 signed 24-bit limbs.
-/
namespace C16Sc
open Reflect Glue

def L448 : Int := 2 ^ 446 - 13818066809895115352007386748515426880336692474882178609894547503885
/-- δ = 2^446 − l -/
def Delta : Int := 13818066809895115352007386748515426880336692474882178609894547503885

def limbHi : List Int := List.replicate 18 (2 ^ 24 - 1) ++ [2 ^ 16 - 1]
def W24 : List Int := weights 24 19 0
def negW24 : List Int := W24.map (fun x => -x)
/-- signed digits added by the `d` chain of the final reduction -/
def dE : List Int := [-0x5844f3, 0x3d6d55, -0x552379, 0x723a71, -0x6cc273, -0x369021, -0x49aed6, 0x3bb125, 0x35dc16, 0x83,
  0, 0, 0, 0, 0, 0, 0, 0, 0]
def dK : List Nat := List.replicate 18 24 ++ [14]
theorem dE_value : evalR 24 dE = Delta := by decide

/-- bounds wide enough to be irrelevant (identity claims carry no range information) -/
def wideLo (n : Nat) : List Int := List.replicate n (-(2 ^ 62))
def wideHi (n : Nat) : List Int := List.replicate n (2 ^ 62)
def zeroW (n : Nat) : List Int := List.replicate n 0

/-- a pure range claim: every observed variable within [lo, hi] -/
def rangeClaim (obs : List Nat) (lo hi : Int) : Claim :=
  { obs := obs, outLo := List.replicate obs.length lo, outHi := List.replicate obs.length hi,
    weights := zeroW obs.length, spec := [], modulus := 0 }

structure Traces where
  prog : Prog
  nBytesIn : Nat          -- number of byte inputs before the cut limb inputs
  snap6 : List Nat        -- limbs before the last c18 fold
  c3 : Nat                -- the carry of that fold
  snapv : List Nat        -- limbs before the final reduction
  dchain : List Nat
  snapend : List Nat      -- final limbs
  cF : Nat

def Traces.N (t : Traces) : Nat := t.prog.nIn + t.prog.body.length
def Traces.dL (t : Traces) : Nat := t.dchain.getLastD 0

/-- claims shared by scMulAdd and scReduce for everything after the limb computation -/
def tailClaims (t : Traces) : List Claim := [
  -- K2: the last fold is exact:  S5 = V3 − c3·l
  { obs := t.snapv ++ (t.snap6 ++ [t.c3]), outLo := wideLo 39, outHi := wideHi 39,
    weights := W24 ++ (negW24 ++ [L448]), spec := [], modulus := 0 },
  -- K3: the final reduction is exact:  R + 2^446·cF = S5 + d·δ
  { obs := t.snapend ++ ([t.cF] ++ (t.snapv ++ [t.dL])), outLo := wideLo 40, outHi := wideHi 40,
    weights := W24 ++ ([2 ^ 446] ++ (negW24 ++ [-Delta])), spec := [], modulus := 0 },
  -- K4: the output bytes are the little-endian encoding of the final limbs
  { obs := t.prog.outs ++ t.snapend, outLo := wideLo 75, outHi := wideHi 75,
    weights := weights 8 56 0 ++ negW24, spec := [], modulus := 0 },
  -- ranges: limbs before the last fold, final limbs, output bytes
  rangeClaim (t.snap6.take 18) 0 (2 ^ 24 - 1),
  rangeClaim [t.snap6.getD 18 0] (-1) (2 ^ 14),
  rangeClaim (t.snapend.take 18) 0 (2 ^ 24 - 1),
  rangeClaim [t.snapend.getD 18 0] 0 (2 ^ 14 - 1),
  rangeClaim t.prog.outs 0 255 ]

def tailExtra (t : Traces) (env : List AV) (n : Nat) : Bool :=
  chainOkM env n (t.snapv.zip (dE.zip dK)) none t.dchain &&
  decide ((aget env n t.c3).prov = .shr (t.snap6.getD 18 0) 14) && decide (t.c3 < n)

/-! ### scMulAdd -/
def maT : Traces :=
  { prog := Gen.Sc448.mulAdd, nBytesIn := 224, snap6 := Gen.Sc448.mulAdd_trace_snape6,
    c3 := Gen.Sc448.mulAdd_trace_c18.getD 6 0, snapv := Gen.Sc448.mulAdd_trace_snapv,
    dchain := Gen.Sc448.mulAdd_trace_d, snapend := Gen.Sc448.mulAdd_trace_snapend,
    cF := Gen.Sc448.mulAdd_trace_c18.getLastD 0 }

def maInLo : List Int := List.replicate 281 0
def maInHi : List Int := List.replicate 224 255 ++ (limbHi ++ (limbHi ++ limbHi))
/-- K1: final limbs ≡ a·b + c (mod l), up to the dropped/added top carries -/
def maValue : Claim :=
  { obs := maT.snapend ++ [maT.cF, maT.dL], outLo := wideLo 21, outHi := wideHi 21,
    weights := W24 ++ [2 ^ 446, -(2 ^ 446)],
    spec := padd (pmul (limbPoly 24 19 0 224) (limbPoly 24 19 0 243)) (limbPoly 24 19 0 262),
    modulus := L448 }
def maClaims : List Claim := maValue :: tailClaims maT


/-! ### byte unpacking of scMulAdd: 3 × 56 bytes → 3 × 19 limbs -/
def upObs (k : Nat) : List Nat := (Gen.Sc448.mulAddUnpack.outs.drop (19 * k)).take 19
def upClaims : List Claim :=
  (List.range 3).flatMap (fun k => [
    { obs := upObs k, outLo := wideLo 19, outHi := wideHi 19, weights := W24,
      spec := limbPoly 8 56 0 (56 + 56 * k), modulus := 0 },
    rangeClaim ((upObs k).take 18) 0 (2 ^ 24 - 1),
    rangeClaim [(upObs k).getD 18 0] 0 (2 ^ 16 - 1) ])

/-! ### scReduce: 114 bytes → 38 limbs → 56 bytes -/
def rdT : Traces :=
  { prog := Gen.Sc448.reduce, nBytesIn := 170, snap6 := Gen.Sc448.reduce_trace_snape2,
    c3 := Gen.Sc448.reduce_trace_c.getD 2 0, snapv := Gen.Sc448.reduce_trace_snapv,
    dchain := Gen.Sc448.reduce_trace_d, snapend := Gen.Sc448.reduce_trace_snapend,
    cF := Gen.Sc448.reduce_trace_c.getLastD 0 }

def rdInLo : List Int := List.replicate 208 0
def rdInHi : List Int := List.replicate 170 255 ++ List.replicate 38 (2 ^ 24 - 1)
def rdValue : Claim :=
  { obs := rdT.snapend ++ [rdT.cF, rdT.dL], outLo := wideLo 21, outHi := wideHi 21,
    weights := W24 ++ [2 ^ 446, -(2 ^ 446)], spec := limbPoly 24 38 0 170, modulus := L448 }
def rdClaims : List Claim := rdValue :: tailClaims rdT

def rdUpClaims : List Claim := [
  { obs := Gen.Sc448.reduceUnpack.outs, outLo := wideLo 38, outHi := wideHi 38, weights := weights 24 38 0,
    spec := limbPoly 8 114 0 56, modulus := 0 },
  rangeClaim Gen.Sc448.reduceUnpack.outs 0 (2 ^ 24 - 1) ]

end C16Sc
