import Goat.Model.Binding
import GoatProofs.Lemmas.C07NoPanic
/-
C07 over the key/algorithm binding model of C03 (Goat/Model/Binding.lean): `alg.NewKeyWrapper(k)`
for every registered key-management algorithm and EVERY kind and size of non-nil key (right kind
wrong size, wrong kind, public-only, private-only), then `UnwrapKey` with every `opts` shape the
model distinguishes (every epk kind for ECDH-ES, every data length) never panic.  The wrap side
has one panic (rsa-pkcs1 wrapper built from a key with neither RSA part: `rsa.EncryptPKCS1v15(nil)`),
reachable only with the unregistered Weak constructor and a hand-built key: caller side.
-/
namespace C07
open Model.Binding PO

theorem bnd_prim_np (n : String) (a : List Wire) : NoPanic (prim n a) := by unfold prim; nopanic

/-- **no_panic_newKeyWrapper**: every constructor, every non-nil key -/
theorem no_panic_newKeyWrapper (c : KwCtor) (k : Key) : (newKeyWrapper c (some k)).NoPanic := by
  unfold newKeyWrapper
  simp only []
  cases c <;> simp only [] <;> (repeat' split) <;> exact Outcome.NoPanic.ok _

theorem bnd_deriveZ_np (p e : Mat) : NoPanic (deriveZ p e) := by
  unfold deriveZ; nopanic using bnd_prim_np

theorem bnd_akwUnwrapCore_np (n : Nat) : NoPanic (akwUnwrapCore n) := by
  unfold akwUnwrapCore; nopanic using bnd_prim_np

/-- **no_panic_unwrapKey (decision logic)**: every key wrapper, every argument shape -/
theorem no_panic_binding_unwrapKey (kw : KeyWrapper) (a : KwArgs) : NoPanic (unwrapKey kw a) := by
  unfold unwrapKey
  nopanic using bnd_prim_np, bnd_deriveZ_np, bnd_akwUnwrapCore_np

/-- the caller's finder written the documented way, for every header algorithm name and key:
    `Available()` (kwLookup) then `New().NewKeyWrapper(key)` then `UnwrapKey` -/
def finderThenUnwrap (alg : String) (k : Key) (a : KwArgs) : PO Unit :=
  match kwLookup alg with
  | none => PO.fail "alg-unavailable"
  | some c => do
    let kw ← PO.ofOutcome (newKeyWrapper c (some k))
    unwrapKey kw a

theorem no_panic_finderThenUnwrap (alg : String) (k : Key) (a : KwArgs) :
    NoPanic (finderThenUnwrap alg k a) := by
  unfold finderThenUnwrap
  split
  · nopanic
  · exact NoPanic.bind (NoPanic.ofOutcome (no_panic_newKeyWrapper _ _)) (fun kw => no_panic_binding_unwrapKey kw a)

/-- sharpness (caller side): the wrap direction of an RSA1_5 wrapper without any RSA part panics -/
example : PO.run (fun _ => .none) (wrapKey (.rsa false none none true false) {}) = .panic "rsa.Encrypt.nilpub" := rfl

end C07
