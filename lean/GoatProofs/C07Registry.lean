import Goat.Model.Registry
import GoatProofs.Lemmas.C07NoPanic
/-
C07: the guard `Available()` in front of `New()` — which 10 entries of the panic-site accounting
rely on textually — really is a guard, for EVERY link set, given the body shapes regenerated from
jwa/jwa.go (Gen.Registry).  A change of `Available()` to "the key is present" (`_, ok := m[alg]`),
of `New()`, or of the registry either body reads, makes `registry_shapes` or
`available_guards_new` unprovable: the obligation breaks even when no linked configuration of the
harness manifests the panic.
-/
namespace C07
open Model.Registry Gen.Registry

/-- the regenerated facts are the ones the argument needs -/
theorem registry_shapes : ∀ f ∈ Gen.Registry.all,
    f.avail = .nonNil ∧ f.new = .panicIfNil ∧ f.availVar = f.newVar ∧ f.prefilledNil = true ∧ f.names ≠ [] := by
  decide

/-- **Available alg = true → New alg does not panic**, for every registry whose bodies have the
    recognised shapes and every link set -/
theorem available_guards_new_of (r : Reg) (h1 : r.fact.avail = .nonNil) (h2 : r.fact.new = .panicIfNil)
    (alg : String) (ha : r.available alg = true) : (r.new alg).NoPanic := by
  unfold Reg.available at ha
  unfold Reg.new
  rw [h1] at ha
  rw [h2]
  simp only [] at ha ⊢
  rw [if_pos ha]
  exact Outcome.NoPanic.ok _

theorem available_guards_new (l : Link) (alg : String) :
    (l.sigReg.available alg = true → (l.sigReg.new alg).NoPanic) ∧
    (l.kmReg.available alg = true → (l.kmReg.new alg).NoPanic) ∧
    (l.encReg.available alg = true → (l.encReg.new alg).NoPanic) :=
  ⟨available_guards_new_of _ rfl rfl alg, available_guards_new_of _ rfl rfl alg,
   available_guards_new_of _ rfl rfl alg⟩

theorem guarded_new_np (r : Reg) (h1 : r.fact.avail = .nonNil) (h2 : r.fact.new = .panicIfNil)
    (alg : String) (k : Unit → Outcome String) (hk : ∀ u, (k u).NoPanic) (e : String) :
    (if !r.available alg then Outcome.err e else (r.new alg).bind k).NoPanic := by
  cases ha : r.available alg
  · simp only [Bool.not_false, if_true]; exact Outcome.NoPanic.err _
  · simp only [Bool.not_true, Bool.false_eq_true, if_false]
    exact Outcome.NoPanic.bind (available_guards_new_of r h1 h2 alg ha) hk

/-- **jws.JWKKeyFinder.FindKey, every link set, every header**: registered-but-unlinked, unknown and
    empty algorithm names are errors -/
theorem no_panic_link_jwsFindKey (l : Link) (p u : Option String) : (jwsFindKey l p u).NoPanic := by
  unfold jwsFindKey
  simp only []
  exact guarded_new_np _ rfl rfl _ _ (fun _ => Outcome.NoPanic.ok _) _

/-- **jwt guessAlg (JWKKeyFiner and JWKSKeyFinder), every link set** -/
theorem no_panic_link_jwtGuessAlg (l : Link) (k h : String) : (jwtGuessAlg l k h).NoPanic := by
  unfold jwtGuessAlg
  split
  · exact Outcome.NoPanic.err _
  · simp only []
    split
    · exact Outcome.NoPanic.err _
    · exact guarded_new_np _ rfl rfl _ _ (fun _ => Outcome.NoPanic.ok _) _

/-- **jwe.Message.Decrypt head, every link set**: both the key-management and the content
    encryption name -/
theorem no_panic_link_jweDecryptHead (l : Link) (a e : String) (ok : Bool) : (jweDecryptHead l a e ok).NoPanic := by
  unfold jweDecryptHead
  apply guarded_new_np _ rfl rfl
  intro _
  split
  · exact Outcome.NoPanic.err _
  · exact guarded_new_np _ rfl rfl _ _ (fun _ => Outcome.NoPanic.ok _) _

/-- sharpness: with the "key is present" body of Available() a registered-but-unlinked name gets
    through the guard and New() panics — exactly the seeded change -/
example : let r : Reg := ⟨{ Gen.Registry.sig with avail := .commaOk }, ["HS256"]⟩
    r.available "ES256" = true ∧ r.new "ES256" = .panic "jwa.SignatureAlgorithm.New" := by
  intro r; exact ⟨rfl, rfl⟩

/-- non-vacuity: a process that links only jwa/hs accepts HS256 and refuses ES256 and "bogus" -/
example : let l : Link := ⟨["HS256", "HS384", "HS512"], [], []⟩
    jwsFindKey l (some "HS256") none = .ok "HS256" ∧ jwsFindKey l (some "ES256") none = .err "alg-unavailable" ∧
    jwsFindKey l none (some "bogus") = .err "alg-unavailable" := by
  intro l; exact ⟨rfl, rfl, rfl⟩

end C07
