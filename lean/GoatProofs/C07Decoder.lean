import Goat.Model.JsonDecoder
import GoatProofs.Lemmas.C07NoPanic
import GoatProofs.Lemmas.C07NumericDate
/-
C07, part C: the shared decoders/encoders never panic, and the errors they produce can always be
rendered.  Quantifiers: every decoded JSON object `raw`, every parameter name, every getter, every
oracle (= every behaviour of encoding/base64, net/url, strconv).

Buffer invariant: `Dec.WF d` says `len(d.dst) = DecodedLen(cap(d.src))` — established by NewDecoder
(both empty) and preserved by `grow`; it is what makes `Decode` (which reuses `d.dst`) safe.
-/
namespace C07
open Model.JsonDecoder PO

/-! ### buffer arithmetic -/

theorem decodedLen_mono {a b : Nat} (h : a ≤ b) : decodedLen a ≤ decodedLen b := by
  unfold decodedLen; exact Nat.div_le_div_right (Nat.mul_le_mul_right 6 h)

theorem encodedLen_mono {a b : Nat} (h : a ≤ b) : encodedLen a ≤ encodedLen b := by
  unfold encodedLen; exact Nat.div_le_div_right (by omega)

def Dec.WF (d : Dec) : Prop := d.dstLen = decodedLen d.srcCap

theorem Dec.new_wf (pkg : String) (raw : List (String × Wire)) : Dec.WF (Dec.new pkg raw) := by
  simp [Dec.WF, Dec.new, decodedLen]

theorem Dec.grow_cap (d : Dec) (n : Nat) : n ≤ (d.grow n).srcCap := by
  unfold Dec.grow; split
  · assumption
  · simp only; split <;> omega

theorem Dec.grow_wf {d : Dec} (h : Dec.WF d) (n : Nat) : Dec.WF (d.grow n) := by
  unfold Dec.grow; split
  · exact h
  · simp [Dec.WF]

theorem Dec.setErr_wf {d : Dec} (h : Dec.WF d) (e : DErr) : Dec.WF (d.setErr e) := by
  unfold Dec.setErr; cases d.err <;> simpa [Dec.WF] using h

/-! ### decode -/

theorem decodeCore_noPanic (d : Dec) (len dstLen : Nat) (s name : String)
    (h1 : len ≤ d.srcCap) (h2 : decodedLen len ≤ dstLen) : NoPanic (d.decodeCore len dstLen s name) := by
  unfold Dec.decodeCore
  rw [if_neg (Nat.not_lt.mpr h1), if_neg (Nat.not_lt.mpr h2)]
  nopanic

/-- the core: with a destination of at least DecodedLen(len s) bytes `decode` does not panic -/
theorem decodeInto_noPanic (d : Dec) (dstLen : Nat) (s name : String)
    (h : decodedLen (Bytes.ofString s).length ≤ dstLen) : NoPanic (d.decodeInto dstLen s name) := by
  unfold Dec.decodeInto
  exact decodeCore_noPanic _ _ _ _ _ (Dec.grow_cap d _) h

theorem Dec.grow_idem (d : Dec) (n : Nat) : (d.grow n).grow n = d.grow n := by
  have h := Dec.grow_cap d n
  generalize d.grow n = d' at h
  unfold Dec.grow
  rw [if_pos h]

theorem decode_noPanic {d : Dec} (hd : Dec.WF d) (s name : String) : NoPanic (d.decode s name) := by
  unfold Dec.decode
  apply decodeInto_noPanic
  have hw := Dec.grow_wf hd (Bytes.ofString s).length
  rw [hw]
  exact decodedLen_mono (Dec.grow_cap d _)

theorem decodeCore_wf {d : Dec} (hd : Dec.WF d) (len dstLen : Nat) (s name : String) (o : Oracle)
    (r : Option Bytes × Dec) (h : PO.run o (d.decodeCore len dstLen s name) = .ok r) : Dec.WF r.2 := by
  unfold Dec.decodeCore at h
  split at h
  · simp at h
  · split at h
    · simp at h
    · simp only [PO.run_bind, PO.run_query] at h
      split at h
      · simp only [PO.run_pure, Outcome.ok.injEq] at h; subst h; exact hd
      · simp only [PO.run_pure, Outcome.ok.injEq] at h; subst h; exact Dec.setErr_wf hd _

/-- decodeInto keeps the buffer invariant -/
theorem decodeInto_wf {d : Dec} (hd : Dec.WF d) (dstLen : Nat) (s name : String) (o : Oracle)
    (r : Option Bytes × Dec) (h : PO.run o (d.decodeInto dstLen s name) = .ok r) : Dec.WF r.2 := by
  unfold Dec.decodeInto at h
  exact decodeCore_wf (Dec.grow_wf hd _) _ _ _ _ o r h

/-! ### the pure getters keep the invariant (they only set the error) -/

theorem getString_wf {d : Dec} (h : Dec.WF d) (n : String) : Dec.WF (d.getString n).2 := by
  unfold Dec.getString; split <;> first | exact h | exact Dec.setErr_wf h _

/-! ### every getter is panic-free on a well-formed decoder -/

theorem getBytes_noPanic (d : Dec) (n : String) : NoPanic (d.getBytes n) := by
  unfold Dec.getBytes
  split
  · nopanic
  · apply NoPanic.bind
    · exact decodeInto_noPanic _ _ _ _ (Nat.le_refl _)
    · nopanic

theorem mustBytes_noPanic (d : Dec) (n : String) : NoPanic (d.mustBytes n) := by
  unfold Dec.mustBytes
  split
  · nopanic
  · exact decodeInto_noPanic _ _ _ _ (Nat.le_refl _)

theorem getBigInt_noPanic {d : Dec} (hd : Dec.WF d) (n : String) : NoPanic (d.getBigInt n) := by
  unfold Dec.getBigInt
  have hw := getString_wf hd n
  split
  · nopanic
  · rename_i s d' heq
    have : Dec.WF d' := by rw [heq] at hw; exact hw
    apply NoPanic.bind (decode_noPanic this s n)
    nopanic

theorem mustBigInt_noPanic {d : Dec} (hd : Dec.WF d) (n : String) : NoPanic (d.mustBigInt n) := by
  unfold Dec.mustBigInt
  apply NoPanic.bind (getBigInt_noPanic hd n)
  nopanic

theorem getURL_noPanic (d : Dec) (n : String) : NoPanic (d.getURL n) := by
  unfold Dec.getURL; nopanic

theorem getInt64_noPanic (d : Dec) (n : String) : NoPanic (d.getInt64 n) := by
  unfold Dec.getInt64; nopanic

theorem mustInt64_noPanic (d : Dec) (n : String) : NoPanic (d.mustInt64 n) := by
  unfold Dec.mustInt64
  apply NoPanic.bind (getInt64_noPanic d n)
  nopanic

/-- GetTime is panic-free wherever NumericDate.UnmarshalJSON is (the model of the latter,
    Model.NumericDate by C04/C10, contains the `big.ErrNaN` outcome of math/big for ∞−∞ and 0·∞) -/
theorem getTime_noPanic_of (d : Dec) (n : String)
    (hnd : ∀ s, Wire.lookup n d.raw = some (.num s) → (Model.NumericDate.decode s).NoPanic) :
    NoPanic (d.getTime n) := by
  unfold Dec.getTime
  split
  · nopanic
  · rename_i s heq
    have := hnd s heq
    split
    · nopanic
    · nopanic
    · rename_i p hp; exact absurd hp (this p)
  · nopanic

/-- the part of GetTime that does not go through NumericDate at all (superseded by
    `getTime_noPanic` below, kept as the cheap case) -/
theorem getTime_noPanic_partial (d : Dec) (n : String)
    (h : ∀ s, Wire.lookup n d.raw ≠ some (.num s)) : NoPanic (d.getTime n) :=
  getTime_noPanic_of d n (fun s hs => absurd hs (h s))

/-- **no_panic_json_decoder**: for every decoded JSON object, every key and every getter other than
    GetTime, the getter returns (a value or a recorded error) and never panics; and GetTime does
    under the stated NumericDate hypothesis. -/
theorem no_panic_json_decoder_of (pkg : String) (raw : List (String × Wire)) (name : String) (g : Getter)
    (hnd : ∀ s, (Model.NumericDate.decode s).NoPanic) :
    NoPanic (g.run (Dec.new pkg raw) name) := by
  have hw := Dec.new_wf pkg raw
  cases g <;> simp only [Getter.run]
  case getBytes => exact NoPanic.bind (getBytes_noPanic _ _) (fun _ => NoPanic.pure _)
  case mustBytes => exact NoPanic.bind (mustBytes_noPanic _ _) (fun _ => NoPanic.pure _)
  case getBigInt => exact NoPanic.bind (getBigInt_noPanic hw _) (fun _ => NoPanic.pure _)
  case mustBigInt => exact NoPanic.bind (mustBigInt_noPanic hw _) (fun _ => NoPanic.pure _)
  case getURL => exact NoPanic.bind (getURL_noPanic _ _) (fun _ => NoPanic.pure _)
  case getTime => exact NoPanic.bind (getTime_noPanic_of _ _ (fun s _ => hnd s)) (fun _ => NoPanic.pure _)
  case getInt64 => exact NoPanic.bind (getInt64_noPanic _ _) (fun _ => NoPanic.pure _)
  case mustInt64 => exact NoPanic.bind (mustInt64_noPanic _ _) (fun _ => NoPanic.pure _)
  all_goals exact NoPanic.pure _

/-- GetTime never panics: NumericDate.UnmarshalJSON never reaches math/big's NaN
    (GoatProofs/Lemmas/C07NumericDate.lean) -/
theorem getTime_noPanic (d : Dec) (n : String) : NoPanic (d.getTime n) :=
  getTime_noPanic_of d n (fun s _ => ND.decode_noPanic s)

/-- **no_panic_json_decoder** (full statement): for every decoded JSON object, every key and every
    getter, the getter returns (a value or a recorded error) and never panics -/
theorem no_panic_json_decoder (pkg : String) (raw : List (String × Wire)) (name : String) (g : Getter) :
    NoPanic (g.run (Dec.new pkg raw) name) :=
  no_panic_json_decoder_of pkg raw name g ND.decode_noPanic

/-- the same for every getter except GetTime, without going through NumericDate -/
theorem no_panic_json_decoder_partial (pkg : String) (raw : List (String × Wire)) (name : String)
    (g : Getter) (hg : g ≠ .getTime) : NoPanic (g.run (Dec.new pkg raw) name) := by
  have hw := Dec.new_wf pkg raw
  cases g <;> simp only [Getter.run]
  case getTime => exact absurd rfl hg
  case getBytes => exact NoPanic.bind (getBytes_noPanic _ _) (fun _ => NoPanic.pure _)
  case mustBytes => exact NoPanic.bind (mustBytes_noPanic _ _) (fun _ => NoPanic.pure _)
  case getBigInt => exact NoPanic.bind (getBigInt_noPanic hw _) (fun _ => NoPanic.pure _)
  case mustBigInt => exact NoPanic.bind (mustBigInt_noPanic hw _) (fun _ => NoPanic.pure _)
  case getURL => exact NoPanic.bind (getURL_noPanic _ _) (fun _ => NoPanic.pure _)
  case getInt64 => exact NoPanic.bind (getInt64_noPanic _ _) (fun _ => NoPanic.pure _)
  case mustInt64 => exact NoPanic.bind (mustInt64_noPanic _ _) (fun _ => NoPanic.pure _)
  all_goals exact NoPanic.pure _

/-- sequences of getters (what decodeHeader / ParseMap do): the buffer invariant is kept by every
    getter, so any chain of getters on a fresh decoder stays panic-free.  Stated for two steps. -/
theorem getBigInt_wf {d : Dec} (hd : Dec.WF d) (n : String) (o : Oracle) (r : Option Nat × Dec)
    (h : PO.run o (d.getBigInt n) = .ok r) : Dec.WF r.2 := by
  unfold Dec.getBigInt at h
  have hw := getString_wf hd n
  split at h
  · rename_i d' heq
    simp only [PO.run_pure, Outcome.ok.injEq] at h; subst h
    rw [heq] at hw; exact hw
  · rename_i s d' heq
    have hd' : Dec.WF d' := by rw [heq] at hw; exact hw
    obtain ⟨r1, h1, h2⟩ := PO.run_bind_eq_ok o _ _ _ h
    have hw1 : Dec.WF r1.2 := by
      unfold Dec.decode at h1
      exact decodeInto_wf (Dec.grow_wf hd' _) _ _ _ o r1 h1
    obtain ⟨b, d1⟩ := r1
    simp only at h2 hw1
    split at h2 <;> (simp only [PO.run_pure, Outcome.ok.injEq] at h2; subst h2; exact hw1)

/-! ### rendering -/

/-- **every error the decoder can hold renders** (JSON null included: `got = none`) -/
theorem render_noPanic (e : DErr) : NoPanic (render e) := by
  cases e <;> simp only [render, renderTypeError] <;> nopanic

theorem renderErr_noPanic (d : Dec) : NoPanic d.renderErr := by
  unfold Dec.renderErr
  split
  · nopanic
  · exact NoPanic.bind (render_noPanic _) (fun _ => NoPanic.pure _)

/-- the theorem is not vacuous and not true by accident: the code BEFORE commit dc694be
    (`err.got.String()` without the nil test) does panic on JSON null -/
example : PO.run (fun _ => .none) (renderTypeErrorOld "jwk" "kty" "string" (goType .null))
    = .panic "jsonutils.typeError.Error.nil-reflect-type" := rfl

/-- and the type error for JSON null is exactly the `got = none` case -/
example : ((Dec.new "jwk" [("kty", .null)]).mustString "kty").2.err
    = some (.typeError "jwk" "kty" "string" none) := rfl

/-- non-vacuity of the getter theorem: a concrete object drives GetInt64 through its oracle -/
example : (PO.run (fun _ => .int 7) ((Dec.new "jwe" [("p2c", .num "7")]).getInt64 "p2c")).isOk = true := by
  rfl

/-! ### Encoder -/

def Enc.WF (e : Enc) : Prop := e.dstLen = encodedLen e.srcCap

theorem Enc.grow_cap (e : Enc) (n : Nat) : n ≤ (e.grow n).srcCap := by
  unfold Enc.grow; split
  · assumption
  · simp only; split <;> omega

theorem Enc.grow_wf {e : Enc} (h : Enc.WF e) (n : Nat) : Enc.WF (e.grow n) := by
  unfold Enc.grow; split
  · exact h
  · simp [Enc.WF]

theorem Enc.saveError_wf {e : Enc} (h : Enc.WF e) (c : String) : Enc.WF (e.saveError c) := by
  unfold Enc.saveError; cases e.err <;> simpa [Enc.WF] using h

theorem Enc.put_wf {e : Enc} (h : Enc.WF e) (n : String) (v : Wire) : Enc.WF (e.put n v) := by
  simpa [Enc.WF, Enc.put] using h

theorem encodeCore_noPanic (e : Enc) (s : Bytes) (h : encodedLen s.length ≤ e.dstLen) :
    NoPanic (e.encodeCore s) := by
  unfold Enc.encodeCore
  rw [if_neg (Nat.not_lt.mpr h)]
  nopanic

theorem encode_noPanic {e : Enc} (he : Enc.WF e) (s : Bytes) : NoPanic (e.encode s) := by
  unfold Enc.encode
  apply encodeCore_noPanic
  rw [Enc.grow_wf he s.length]
  exact encodedLen_mono (Enc.grow_cap e _)

theorem setBytes_noPanic {e : Enc} (he : Enc.WF e) (n : String) (b : Bytes) :
    NoPanic (e.setBytes n b) := by
  unfold Enc.setBytes
  apply NoPanic.bind (encode_noPanic he b)
  nopanic

theorem bitLen_le_of_lt_pow {n k : Nat} (h : bitLen n ≤ k) : n < 2 ^ k := by
  unfold bitLen at h
  split at h
  · subst_vars; exact Nat.pow_pos (by decide)
  · rename_i hn
    have : n < 2 ^ (n.log2 + 1) := Nat.lt_log2_self
    exact Nat.lt_of_lt_of_le this (Nat.pow_le_pow_right (by decide) h)

theorem fillAndEncode_noPanic {e : Enc} (he : Enc.WF e) (name : String) (n size : Nat)
    (h1 : size ≤ e.srcCap) (h2 : n < 256 ^ size) : NoPanic (e.fillAndEncode name n size) := by
  unfold Enc.fillAndEncode
  rw [if_neg (Nat.not_lt.mpr h1), if_neg (Nat.not_le.mpr h2)]
  apply NoPanic.bind (encode_noPanic he _)
  nopanic

/-- **no_panic_encoder (SetFixedBigInt)**: for a non-nil integer the size check makes FillBytes and
    the slice safe — the integer either fits or an error is recorded -/
theorem setFixedBigInt_noPanic {e : Enc} (he : Enc.WF e) (name : String) (n size : Nat) :
    NoPanic (e.setFixedBigInt name (some n) size) := by
  unfold Enc.setFixedBigInt
  simp only
  split
  · nopanic
  · rename_i hfit
    have hfit' : bitLen n ≤ size * 8 := Nat.le_of_not_lt hfit
    have h2 : n < 256 ^ size := by
      have := bitLen_le_of_lt_pow hfit'
      have e256 : (256 : Nat) ^ size = 2 ^ (size * 8) := by
        rw [show (256 : Nat) = 2 ^ 8 by decide, ← Nat.pow_mul, Nat.mul_comm]
      rw [e256]; exact this
    exact fillAndEncode_noPanic (Enc.grow_wf he size) name n size (Enc.grow_cap e size) h2

theorem setBigInt_noPanic {e : Enc} (he : Enc.WF e) (name : String) (n : Nat) :
    NoPanic (e.setBigInt name (some n)) := by
  unfold Enc.setBigInt
  exact setFixedBigInt_noPanic he name n _

/-- SetTime is panic-free wherever NumericDate.MarshalJSON is -/
theorem setTime_noPanic_of (e : Enc) (name : String) (t : Int)
    (h : (Model.NumericDate.encode t).NoPanic) : NoPanic (e.setTime name t) := by
  unfold Enc.setTime
  split
  · nopanic
  · nopanic
  · rename_i p hp; exact absurd hp (h p)

/-- NumericDate.MarshalJSON never panics (it has no panic outcome at all) -/
theorem outcome_ite_noPanic {α} {c : Prop} [Decidable c] {a b : Outcome α}
    (ha : a.NoPanic) (hb : b.NoPanic) : (if c then a else b).NoPanic := by
  by_cases h : c
  · rw [if_pos h]; exact ha
  · rw [if_neg h]; exact hb

theorem numericDate_encode_noPanic (t : Int) : (Model.NumericDate.encode t).NoPanic := by
  unfold Model.NumericDate.encode
  apply Outcome.NoPanic.bind
  · unfold Model.NumericDate.encodeChars
    exact outcome_ite_noPanic (Outcome.NoPanic.err _) (Outcome.NoPanic.ok _)
  · intro cs; exact Outcome.NoPanic.ok _

/-- **no_panic_encoder**: on a fresh encoder every Set* with non-nil operands is panic-free -/
theorem no_panic_encoder (raw : List (String × Wire)) (name : String) (b : Bytes) (n size : Nat) (t : Int) :
    let e : Enc := { raw := raw }
    NoPanic (e.setBytes name b) ∧ NoPanic (e.setBigInt name (some n)) ∧
      NoPanic (e.setFixedBigInt name (some n) size) ∧ NoPanic (e.setTime name t) := by
  intro e
  have he : Enc.WF e := by simp [Enc.WF, e, encodedLen]
  exact ⟨setBytes_noPanic he name b, setBigInt_noPanic he name n, setFixedBigInt_noPanic he name n size,
    setTime_noPanic_of e name t (numericDate_encode_noPanic t)⟩

/-- the nil operand is the one input on which the encoder DOES panic (the RSA p = q class before
    commit 2e1fdc2): the theorem above is sharp -/
example (e : Enc) : PO.run (fun _ => .none) (e.setBigInt "qi" none) = .panic "jsonutils.Encoder.SetBigInt.nil" := rfl

/-- a value that does not fit is an ERROR (commit c15ccbe), not a FillBytes panic -/
example : (PO.run (fun _ => .none) (({ raw := [] } : Enc).setFixedBigInt "x" (some (2 ^ 256)) 32)).isOk = true := by
  rfl

/-! ### CBOR decoder -/

/-- **no_panic_cbor_decoder**: every cborutils getter on every decoded map and label -/
theorem no_panic_cbor_decoder (raw : List (Int × Wire)) (label : Int) (g : CGetter) :
    NoPanic (g.run { raw := raw } label) := by
  cases g <;> simp only [CGetter.run] <;> exact NoPanic.pure _

theorem cbor_renderErr_noPanic (d : CDec) : NoPanic d.renderErr := by
  unfold CDec.renderErr; nopanic

/-- non-vacuity: an ill-typed member is an error, not a panic -/
example : (({ raw := [(-2, .str "not bytes")] } : CDec).mustBytes (-2)).2.err.isSome = true := by
  rfl

end C07
