import Goat.Model.PtOps
import Goat.Model.K1Pt
import Goat.Gen.PtOps256
import GoatProofs.Lemmas.PtOpsTac
/-
C15 — the hand-written secp256k1 point model equals the formulas REGENERATED from the source.

`Gen.PtOps256` (translator/opseq.go, rewritten on every run from internal/curve256k1/curve256k1.go)
holds, per function, the sequence of field-method calls in the order of the Go text (the call
`double.Double(a)` inside `Add` is inlined).  Each definition of `Model.K1Pt` is proved equal — for ALL
operands and every old content of the receiver — to the interpretation of that sequence over the
field model `Model.Fe256` (primitives = regenerated limb programs).  The proofs are `rfl`: both sides
are the same composition of field functions.

A change of a formula in the Go text (a dropped doubling, swapped operands of a Sub, another select
order) changes the generated data and breaks `C15PtOps.<fn>_ops`.  `<fn>_facts` pins the layout, the
(empty) guard list, well-formedness and the alias-hazard list — `[]` for every covered function, so
the functional model is valid for every aliasing of receiver and arguments (`v.Add(&v, &tmp)`,
`v.Double(&v)` in the scalar multiplications).

Go `int` operators: the 0/1 results of IsZero/Equal are combined with `& | ^x`; the interpreter is
instantiated with the model's `iand`, `ior`, `inot` (`inot a = 1 - a`, the complement ON {0,1} —
`inot_faithful` shows it agrees with the 64-bit complement wherever the covered code uses it, namely
as an operand of `&` with a 0/1 value).

`FromJacobian` (one early-return branch on z = 0) is regenerated as three sequences; the tables are in
GoatProofs.C15TblOps.  Not covered: NewPoint/ToBig (math/big calls, no field-method sequence), the
scalar-multiplication loops.
-/
namespace C15PtOps
open Model.K1Pt
open Model.Fe256 (Limbs)
open PtOps (FieldOps Env runOps)

-- a mismatch must fail at once (and name the obligation) instead of unfolding the limb programs
attribute [local irreducible] Model.Fe256.add Model.Fe256.sub Model.Fe256.neg Model.Fe256.mul
  Model.Fe256.square Model.Fe256.inv Model.Fe256.select Model.Fe256.swap Model.Fe256.equal
  Model.Fe256.isZero

/-- the field operations of `Model.Fe256` and the model's reading of the Go `int` operators.
    `mul32`, `isNegative` do not exist in this field package, `^` (xor) does not occur
    (`covered`: no sequence uses them). -/
def ops : FieldOps Limbs where
  add := Model.Fe256.add
  sub := Model.Fe256.sub
  mul := Model.Fe256.mul
  square := Model.Fe256.square
  neg := Model.Fe256.neg
  inv := Model.Fe256.inv
  set := Model.Fe256.set
  one := Model.Fe256.one
  zero := Model.Fe256.zero
  mul32 := fun a _ => a
  select := Model.Fe256.select
  swap := Model.Fe256.swap
  isZero := Model.Fe256.isZero
  isNegative := fun _ => 0
  equal := Model.Fe256.equal
  iand := Model.K1Pt.iand
  ior := Model.K1Pt.ior
  ixor := fun a b => Int.ofNat (a.toNat ^^^ b.toNat)
  inot := Model.K1Pt.inot

def run (f : PtOps.Fn) (ins : List Limbs) : Env Limbs := runOps ops ((Env.empty []).load 0 ins) f.body

/-- the receiver after the call: variables 0, 1, 2 -/
def jpt (e : Env Limbs) : Jac := ⟨e.fe 0, e.fe 1, e.fe 2⟩

def coords (p : Jac) : List Limbs := [p.x, p.y, p.z]

namespace G
export Gen.PtOps256 (isOnCurve jzero jset jselect fromAffine jequal jdouble jadd fromJacobianCond fromJacobianThen fromJacobianElse)
end G

/-- generalise the field functions (see Lemmas/PtOpsTac.lean) -/
local macro "gen_fe256" : tactic => `(tactic| (
  generalize Model.Fe256.add = fadd
  generalize Model.Fe256.sub = fsub
  generalize Model.Fe256.mul = fmul
  generalize Model.Fe256.square = fsquare
  generalize Model.Fe256.neg = fneg
  generalize Model.Fe256.inv = finv
  generalize Model.Fe256.select = fselect
  generalize Model.Fe256.swap = fswap
  generalize Model.Fe256.equal = fequal
  generalize Model.Fe256.isZero = fisZero
  generalize Model.K1Pt.iand = fiand
  generalize Model.K1Pt.ior = fior
  generalize Model.K1Pt.inot = finot))

/-! ### the model = the regenerated sequence, for all operands and every old receiver content -/

theorem ieq_one (x : Int) : (PtOps.ieq x 1 == 1) = (x == 1) := by
  unfold PtOps.ieq
  by_cases h : x = 1 <;> simp [h]

/-- `IsOnCurve(p)`: `return ret.Equal(&feZero) == 1`; the Go `bool` is the 0/1 variable `return`
    (number 7), computed by `ieq` from `%1 = ret.Equal(&feZero)` (number 8) and the literal 1 -/
theorem isOnCurve_ops (p : Point) :
    isOnCurve p = ((run G.isOnCurve [p.x, p.y, fe7, feZero]).int 7 == 1) := by
  ptops_named "C15PtOps.isOnCurve_ops" =>
    have h : (run G.isOnCurve [p.x, p.y, fe7, feZero]).int 7
        = PtOps.ieq ((run G.isOnCurve [p.x, p.y, fe7, feZero]).int 8) 1 := by
      unfold run ops
      gen_fe256
      as_aux_lemma => rfl
    rw [h, ieq_one]
    unfold isOnCurve run ops
    gen_fe256
    as_aux_lemma => rfl

theorem jzero_ops (p : Jac) : jzero = jpt (run G.jzero (coords p)) := by
  ptops_named "C15PtOps.jzero_ops" =>
    unfold jzero run ops
    as_aux_lemma => rfl

theorem jset_ops (p v : Jac) : jset v = jpt (run G.jset (coords p ++ coords v)) := by
  ptops_named "C15PtOps.jset_ops" =>
    unfold jset run ops
    as_aux_lemma => rfl

theorem jselect_ops (p a b : Jac) (cond : Int) :
    jselect a b cond
      = jpt (runOps ops (((Env.empty []).load 0 (coords p ++ coords a ++ coords b)).setInt 9 cond) G.jselect.body) := by
  ptops_named "C15PtOps.jselect_ops" =>
    unfold jselect ops
    gen_fe256
    as_aux_lemma => rfl

theorem fromAffine_ops (p : Jac) (v : Point) :
    fromAffine v = jpt (run G.fromAffine (coords p ++ [v.x, v.y, feZero, feOne])) := by
  ptops_named "C15PtOps.fromAffine_ops" =>
    unfold fromAffine run ops
    gen_fe256
    as_aux_lemma => rfl

theorem jequal_ops (p v : Jac) : jequal p v = (run G.jequal (coords p ++ coords v)).int 16 := by
  ptops_named "C15PtOps.jequal_ops" =>
    unfold jequal run ops
    gen_fe256
    as_aux_lemma => rfl

theorem jdouble_ops (p v : Jac) : jdouble v = jpt (run G.jdouble (coords p ++ coords v)) := by
  ptops_named "C15PtOps.jdouble_ops" =>
    unfold jdouble run ops
    gen_fe256
    as_aux_lemma => rfl

/-- `Add` with the inlined `double.Double(a)` and the three constant-time selects -/
theorem jadd_ops (p a b : Jac) : jadd a b = jpt (run G.jadd (coords p ++ coords a ++ coords b)) := by
  ptops_named "C15PtOps.jadd_ops" =>
    unfold jadd jdouble run ops
    gen_fe256
    as_aux_lemma => rfl

/-- the affine receiver after the call: variables 0, 1 -/
def apt (e : Env Limbs) : Point := ⟨e.fe 0, e.fe 1⟩

/-- `(*Point).FromJacobian(v)`: `if v.z.Equal(&feZero) == 1 { p.x.Zero(); p.y.Zero(); return p }`, then the
    inversion path — the function is regenerated as three sequences (condition, branch, rest) split at
    its one early return (`fromJacobian_facts` pins the branch text) -/
theorem fromJacobian_ops (p : Point) (v : Jac) :
    fromJacobian v =
      if (run G.fromJacobianCond [p.x, p.y, v.x, v.y, v.z, feZero]).int 6 == 1
      then apt (run G.fromJacobianThen [p.x, p.y, v.x, v.y, v.z])
      else apt (run G.fromJacobianElse [p.x, p.y, v.x, v.y, v.z]) := by
  ptops_named "C15PtOps.fromJacobian_ops" =>
    have h : (run G.fromJacobianCond [p.x, p.y, v.x, v.y, v.z, feZero]).int 6
        = PtOps.ieq ((run G.fromJacobianCond [p.x, p.y, v.x, v.y, v.z, feZero]).int 7) 1 := by
      unfold run ops
      gen_fe256
      as_aux_lemma => rfl
    rw [h, ieq_one]
    unfold fromJacobian run ops
    gen_fe256
    as_aux_lemma => rfl

/-! ### layout, guards, hazards, well-formedness of the regenerated data -/

theorem isOnCurve_facts :
    G.isOnCurve.inputs = ["p0.f0", "p0.f1", "fe7", "feZero"]
    ∧ G.isOnCurve.outputs = ["return"] ∧ G.isOnCurve.outIds = [7]
    ∧ G.isOnCurve.guards = [] ∧ G.isOnCurve.hazards = [] ∧ G.isOnCurve.wf = true := by
  ptops_decide "C15PtOps.isOnCurve_facts"

theorem jzero_facts :
    G.jzero.inputs = ["r.f0", "r.f1", "r.f2"] ∧ G.jzero.outIds = [0, 1, 2]
    ∧ G.jzero.guards = [] ∧ G.jzero.hazards = [] ∧ G.jzero.wf = true := by
  ptops_decide "C15PtOps.jzero_facts"

theorem jset_facts :
    G.jset.inputs = ["r.f0", "r.f1", "r.f2", "p0.f0", "p0.f1", "p0.f2"] ∧ G.jset.outIds = [0, 1, 2]
    ∧ G.jset.guards = [] ∧ G.jset.hazards = [] ∧ G.jset.wf = true := by
  ptops_decide "C15PtOps.jset_facts"

theorem jselect_facts :
    G.jselect.inputs = ["r.f0", "r.f1", "r.f2", "p0.f0", "p0.f1", "p0.f2", "p1.f0", "p1.f1", "p1.f2", "p2"]
    ∧ G.jselect.outIds = [0, 1, 2] ∧ G.jselect.intVars = [9]
    ∧ G.jselect.guards = [] ∧ G.jselect.hazards = [] ∧ G.jselect.wf = true := by
  ptops_decide "C15PtOps.jselect_facts"

theorem fromAffine_facts :
    G.fromAffine.inputs = ["r.f0", "r.f1", "r.f2", "p0.f0", "p0.f1", "feZero", "feOne"]
    ∧ G.fromAffine.outIds = [0, 1, 2]
    ∧ G.fromAffine.guards = [] ∧ G.fromAffine.hazards = [] ∧ G.fromAffine.wf = true := by
  ptops_decide "C15PtOps.fromAffine_facts"

theorem jequal_facts :
    G.jequal.inputs = ["r.f0", "r.f1", "r.f2", "p0.f0", "p0.f1", "p0.f2"]
    ∧ G.jequal.outputs = ["return"] ∧ G.jequal.outIds = [16]
    ∧ G.jequal.guards = [] ∧ G.jequal.hazards = [] ∧ G.jequal.wf = true := by
  ptops_decide "C15PtOps.jequal_facts"

theorem jdouble_facts :
    G.jdouble.inputs = ["r.f0", "r.f1", "r.f2", "p0.f0", "p0.f1", "p0.f2"] ∧ G.jdouble.outIds = [0, 1, 2]
    ∧ G.jdouble.guards = [] ∧ G.jdouble.hazards = [] ∧ G.jdouble.wf = true := by
  ptops_decide "C15PtOps.jdouble_facts"

theorem jadd_facts :
    G.jadd.inputs = ["r.f0", "r.f1", "r.f2", "p0.f0", "p0.f1", "p0.f2", "p1.f0", "p1.f1", "p1.f2"]
    ∧ G.jadd.outIds = [0, 1, 2]
    ∧ G.jadd.guards = [] ∧ G.jadd.hazards = [] ∧ G.jadd.wf = true := by
  ptops_decide "C15PtOps.jadd_facts"

theorem fromJacobian_facts :
    G.fromJacobianCond.inputs = ["r.f0", "r.f1", "p0.f0", "p0.f1", "p0.f2", "feZero"]
    ∧ G.fromJacobianCond.outputs = ["return"] ∧ G.fromJacobianCond.outIds = [6]
    ∧ G.fromJacobianCond.facts = [("branch", "leading if with early return; condition = the [if.cond] sequence")]
    ∧ G.fromJacobianThen.inputs = ["r.f0", "r.f1", "p0.f0", "p0.f1", "p0.f2"] ∧ G.fromJacobianThen.outIds = [0, 1]
    ∧ G.fromJacobianElse.inputs = ["r.f0", "r.f1", "p0.f0", "p0.f1", "p0.f2"] ∧ G.fromJacobianElse.outIds = [0, 1]
    ∧ G.fromJacobianCond.hazards = [] ∧ G.fromJacobianThen.hazards = [] ∧ G.fromJacobianElse.hazards = []
    ∧ G.fromJacobianCond.wf = true ∧ G.fromJacobianThen.wf = true ∧ G.fromJacobianElse.wf = true := by
  ptops_decide "C15PtOps.fromJacobian_facts"

/-- the covered functions are the ones proved here; no sequence reaches a dummy field of `ops` -/
theorem covered :
    Gen.PtOps256.covered = ["IsOnCurve", "PointJacobian.Zero", "PointJacobian.Set", "PointJacobian.Select",
      "PointJacobian.FromAffine", "PointJacobian.Equal", "PointJacobian.Double", "PointJacobian.Add",
      "Point.FromJacobian [if.cond]", "Point.FromJacobian [if.then]", "Point.FromJacobian [if.else]"]
    ∧ Gen.PtOps256.all.all (fun f => !f.usesOp fun o => o == .mul32 || o == .isNegative || o == .ixor) = true := by
  ptops_decide "C15PtOps.covered"

/-! ### the model's `^x` on {0,1} is the machine complement where the code uses it -/

/-- Go: `x & ^z` on 64-bit ints with x, z ∈ {0,1}  =  `iand x (inot z)` of the model
    (the only use of `^` in the covered code: `… & ^zero1 & ^zero2` in `PointJacobian.Equal`) -/
theorem inot_faithful (x z : Nat) (hx : x ≤ 1) (hz : z ≤ 1) :
    iand (Int.ofNat x) (inot (Int.ofNat z)) = Int.ofNat (x &&& (z ^^^ (2 ^ 64 - 1))) := by
  have hx' : x = 0 ∨ x = 1 := by omega
  have hz' : z = 0 ∨ z = 1 := by omega
  rcases hx' with rfl | rfl <;> rcases hz' with rfl | rfl <;> decide

end C15PtOps
