import Goat.Model.NumericDate
import Mathlib.Tactic.Linarith
import Mathlib.Tactic.Ring
import Mathlib.Tactic.Positivity
/-
Round-to-nearest-even to `p` mantissa bits (`Model.NumericDate.rne`, i.e. math/big `Float.round`):
the rounded mantissa is within half a unit in the last place of the exact value — also when the
value is a quotient `a / P` given by its floor and a sticky remainder bit (`uquo`).
-/
namespace GoatProofs.Lemmas.C10Rne
open Model.NumericDate

theorem lt_pow_bitlen (m : Nat) : m < 2 ^ bitlen m := by
  unfold bitlen
  split
  · rename_i h; subst h; simp
  · exact Nat.lt_log2_self

theorem pow_le_of_bitlen (m : Nat) (h : m ≠ 0) : 2 ^ (bitlen m - 1) ≤ m := by
  unfold bitlen
  simp only [h, if_false, Nat.add_sub_cancel]
  exact Nat.log2_self_le h

theorem bitlen_le_of_lt (m k : Nat) (h : m < 2 ^ k) : bitlen m ≤ k := by
  unfold bitlen
  split
  · omega
  · rename_i hm
    have := (Nat.log2_lt hm).2 h
    omega

theorem lt_bitlen_of_pow_le (m j : Nat) (h : 2 ^ j ≤ m) : j < bitlen m := by
  have h1 := lt_pow_bitlen m
  have : 2 ^ j < 2 ^ bitlen m := Nat.lt_of_le_of_lt h h1
  exact (Nat.pow_lt_pow_iff_right (by omega)).1 this

theorem bitlen_pos (m : Nat) (h : m ≠ 0) : 0 < bitlen m := by
  unfold bitlen; simp [h]

theorem core_up (hi lo H P rem : Nat) (hlo : lo < 2 * H) (hrem : rem < P) (hge : H ≤ lo) :
    2 * ((hi + 1) * (2 * H) * P) ≤ 2 * ((hi * (2 * H) + lo) * P + rem) + 2 * H * P ∧
    2 * ((hi * (2 * H) + lo) * P + rem) ≤ 2 * ((hi + 1) * (2 * H) * P) + 2 * H * P := by
  have h1 : H * P ≤ lo * P := Nat.mul_le_mul_right P hge
  have h2 : (lo + 1) * P ≤ 2 * H * P := Nat.mul_le_mul_right P hlo
  constructor <;> nlinarith

theorem core_down (hi lo H P rem : Nat) (hX : lo * P + rem ≤ H * P) :
    2 * (hi * (2 * H) * P) ≤ 2 * ((hi * (2 * H) + lo) * P + rem) + 2 * H * P ∧
    2 * ((hi * (2 * H) + lo) * P + rem) ≤ 2 * (hi * (2 * H) * P) + 2 * H * P := by
  constructor <;> nlinarith

/-- the rounding step on `q = a / P` with sticky bit `a % P ≠ 0`, for a mantissa longer than `p`:
    the result is `(m', e + r)` with `r = bitlen q - p`, `2^(p-1) ≤ m' ≤ 2^p`, and
    `|m'·2^r·P − a| ≤ 2^(r-1)·P` (stated doubled, without subtraction). -/
theorem rne_quot (p : Nat) (hp : 1 ≤ p) (a P : Nat) (hP : 0 < P) (e : Int) (hb : p < bitlen (a / P)) :
    ∃ m', rne p (a / P) e (a % P != 0) = (m', e + ((bitlen (a / P) - p : Nat) : Int)) ∧
      2 ^ (p - 1) ≤ m' ∧ m' ≤ 2 ^ p ∧
      2 * (m' * 2 ^ (bitlen (a / P) - p) * P) ≤ 2 * a + 2 ^ (bitlen (a / P) - p) * P ∧
      2 * a ≤ 2 * (m' * 2 ^ (bitlen (a / P) - p) * P) + 2 ^ (bitlen (a / P) - p) * P := by
  have harem : a = a / P * P + a % P := (Nat.div_add_mod' a P).symm
  have hremlt : a % P < P := Nat.mod_lt _ hP
  generalize a / P = q at *
  generalize a % P = rem at *
  have hq0 : q ≠ 0 := by
    intro h; rw [h] at hb; simp [bitlen] at hb
  have hqlo : 2 ^ (bitlen q - 1) ≤ q := pow_le_of_bitlen q hq0
  have hqhi : q < 2 ^ bitlen q := lt_pow_bitlen q
  have hexp0 : rne p q e (rem != 0) =
      if q % 2 ^ (bitlen q - p) > 2 ^ (bitlen q - p - 1) ∨ (q % 2 ^ (bitlen q - p) = 2 ^ (bitlen q - p - 1) ∧
          ((rem != 0) = true ∨ q / 2 ^ (bitlen q - p) % 2 = 1))
      then (q / 2 ^ (bitlen q - p) + 1, e + ((bitlen q - p : Nat) : Int)) else (q / 2 ^ (bitlen q - p), e + ((bitlen q - p : Nat) : Int)) := by
    unfold rne
    have : ¬ bitlen q ≤ p := by omega
    simp only [this, if_false]
  generalize bitlen q = b at *
  obtain ⟨r, hr⟩ : ∃ r, r = b - p := ⟨_, rfl⟩
  rw [← hr] at hexp0 ⊢
  have hr1 : 1 ≤ r := by omega
  obtain ⟨H, hH⟩ : ∃ H, H = 2 ^ (r - 1) := ⟨_, rfl⟩
  have hR : 2 ^ r = 2 * H := by
    rw [hH, show r = (r - 1) + 1 by omega, Nat.pow_succ]; simp; ring
  obtain ⟨hi, hhi⟩ : ∃ hi, hi = q / 2 ^ r := ⟨_, rfl⟩
  obtain ⟨lo, hlo⟩ : ∃ lo, lo = q % 2 ^ r := ⟨_, rfl⟩
  have hdecomp : q = hi * (2 * H) + lo := by
    rw [← hR, hhi, hlo]; exact (Nat.div_add_mod' q (2 ^ r)).symm
  have hlolt : lo < 2 * H := by rw [← hR, hlo]; exact Nat.mod_lt _ (by positivity)
  have hhi_lo : 2 ^ (p - 1) ≤ hi := by
    rw [hhi, Nat.le_div_iff_mul_le (by positivity), ← Nat.pow_add]
    have : p - 1 + r = b - 1 := by omega
    rw [this]; exact hqlo
  have hhi_hi : hi < 2 ^ p := by
    rw [hhi, Nat.div_lt_iff_lt_mul (by positivity), ← Nat.pow_add]
    have : p + r = b := by omega
    rw [this]; exact hqhi
  have hexp : rne p q e (rem != 0) =
      if lo > H ∨ (lo = H ∧ ((rem != 0) = true ∨ hi % 2 = 1)) then (hi + 1, e + (r : Int)) else (hi, e + (r : Int)) := by
    rw [hexp0, ← hhi, ← hlo, ← hH]
  rw [hexp, hR, harem, hdecomp]
  by_cases hup : lo > H ∨ (lo = H ∧ ((rem != 0) = true ∨ hi % 2 = 1))
  · rw [if_pos hup]
    have hge : H ≤ lo := by rcases hup with h | h <;> omega
    obtain ⟨c1, c2⟩ := core_up hi lo H P rem hlolt hremlt hge
    exact ⟨hi + 1, rfl, by omega, by omega, c1, c2⟩
  · rw [if_neg hup]
    have hX : lo * P + rem ≤ H * P := by
      by_cases hlt : lo < H
      · have h1 : (lo + 1) * P ≤ H * P := Nat.mul_le_mul_right P hlt
        nlinarith
      · have hle : lo = H := by
          have : ¬ lo > H := fun h => hup (Or.inl h)
          omega
        have hrem0 : rem = 0 := by
          by_contra hne
          exact hup (Or.inr ⟨hle, Or.inl (by simpa using hne)⟩)
        rw [hle, hrem0]; omega
    obtain ⟨c1, c2⟩ := core_down hi lo H P rem hX
    exact ⟨hi, rfl, hhi_lo, by omega, c1, c2⟩

/-- plain rounding of an integer mantissa (no sticky bit): `P = 1` -/
theorem rne_plain (p : Nat) (hp : 1 ≤ p) (m : Nat) (e : Int) (hb : p < bitlen m) :
    ∃ m', rne p m e false = (m', e + ((bitlen m - p : Nat) : Int)) ∧
      2 ^ (p - 1) ≤ m' ∧ m' ≤ 2 ^ p ∧
      2 * (m' * 2 ^ (bitlen m - p)) ≤ 2 * m + 2 ^ (bitlen m - p) ∧
      2 * m ≤ 2 * (m' * 2 ^ (bitlen m - p)) + 2 ^ (bitlen m - p) := by
  have h := rne_quot p hp m 1 (by omega) e (by simpa using hb)
  simpa [Nat.mod_one] using h

theorem rne_fits (p m : Nat) (e : Int) (st : Bool) (hb : bitlen m ≤ p) : rne p m e st = (m, e) := by
  unfold rne; simp [hb]

end GoatProofs.Lemmas.C10Rne
