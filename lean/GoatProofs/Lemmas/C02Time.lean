import Goat.Model.NumericDate
import GoatProofs.Lemmas.C10Digits
/-
C02 — the NumericDate text goat emits for a time claim denotes EXACTLY the instant, for every
nanosecond (not only whole seconds).  `Model.NumericDate` is the model of
internal/jsonutils/numeric_date.go built for property C10; this file adds the encoder-exactness
theorem the C02 round trip of JWT time claims needs.
-/
namespace C02Time
open Model.NumericDate GoatProofs.Lemmas.C10Digits

/-- exact value in nanoseconds of a decimal text `[-]ddd[.fff]` with 1..9 fraction digits: the
    meaning RFC 7519 §2 gives a NumericDate (written independently of goat's big.Float decoder) -/
def nanosOfChars (cs : List Char) : Option Int :=
  let neg : Bool := match cs with | '-' :: _ => true | _ => false
  let body : List Char := match cs with | '-' :: r => r | _ => cs
  let ip := spanDigits body
  let sgn (v : Int) : Int := if neg then -v else v
  match ip.2 with
  | [] => if ip.1 = [] then none else some (sgn (natOfDigits ip.1 * 10 ^ 9))
  | '.' :: f =>
    let fp := spanDigits f
    if ip.1 = [] ∨ fp.1 = [] ∨ fp.2 ≠ [] ∨ fp.1.length > 9 then none
    else some (sgn (natOfDigits ip.1 * 10 ^ 9 + natOfDigits fp.1 * 10 ^ (9 - fp.1.length)))
  | _ => none

theorem natOfDigits_cons (c : Char) (ds : List Char) :
    natOfDigits (c :: ds) = digitVal c * 10 ^ ds.length + natOfDigits ds := by
  have := natOfDigits_append [c] ds
  simpa [natOfDigits] using this

/-- the fraction printer of `MarshalJSON`: for `nsec < 10^(j+1)` started at `digits = 10^j`, the
    digits written, read as a number and padded to `j+1` places, are exactly `nsec` -/
theorem fracDigits_spec : ∀ (j nsec : Nat), nsec < 10 ^ (j + 1) →
    AllDigits (fracDigits (j + 1) nsec (10 ^ j)) ∧
    (fracDigits (j + 1) nsec (10 ^ j)).length ≤ j + 1 ∧
    natOfDigits (fracDigits (j + 1) nsec (10 ^ j)) * 10 ^ (j + 1 - (fracDigits (j + 1) nsec (10 ^ j)).length) = nsec ∧
    (nsec ≠ 0 → fracDigits (j + 1) nsec (10 ^ j) ≠ []) := by
  intro j
  induction j with
  | zero =>
    intro nsec h
    have h' : nsec < 10 := by simpa using h
    unfold fracDigits
    by_cases h0 : nsec = 0
    · subst h0; simp [AllDigits, natOfDigits]
    · simp only [h0, if_false, fracDigits]
      refine ⟨?_, by simp, ?_, by simp⟩
      · intro c hc
        simp at hc
        subst hc
        exact isDigit_digitChar _ (by omega)
      · simp [natOfDigits, digitVal_digitChar nsec h']
  | succ j ih =>
    intro nsec h
    unfold fracDigits
    by_cases h0 : nsec = 0
    · subst h0; simp [AllDigits, natOfDigits]
    · simp only [h0, if_false]
      have hpos : 0 < 10 ^ (j + 1) := Nat.pow_pos (by omega)
      have hd : nsec / 10 ^ (j + 1) < 10 := by
        rw [Nat.div_lt_iff_lt_mul hpos]
        have : 10 ^ (j + 1 + 1) = 10 * 10 ^ (j + 1) := by rw [Nat.pow_succ]; omega
        omega
      have hdiv : 10 ^ (j + 1) / 10 = 10 ^ j := by
        rw [Nat.pow_succ]; omega
      have hr : nsec % 10 ^ (j + 1) < 10 ^ (j + 1) := Nat.mod_lt _ hpos
      rw [hdiv]
      obtain ⟨a1, a2, a3, _⟩ := ih (nsec % 10 ^ (j + 1)) hr
      generalize hR : fracDigits (j + 1) (nsec % 10 ^ (j + 1)) (10 ^ j) = R at a1 a2 a3
      refine ⟨?_, by simp; omega, ?_, by simp⟩
      · intro c hc
        simp at hc
        rcases hc with hc | hc
        · subst hc; exact isDigit_digitChar _ hd
        · exact a1 c hc
      · rw [natOfDigits_cons, digitVal_digitChar _ hd]
        simp only [List.length_cons]
        have e1 : j + 1 + 1 - (R.length + 1) = j + 1 - R.length := by omega
        rw [e1, Nat.add_mul, a3, Nat.mul_assoc, ← Nat.pow_add]
        have e2 : R.length + (j + 1 - R.length) = j + 1 := by omega
        rw [e2]
        have := Nat.div_add_mod nsec (10 ^ (j + 1))
        rw [Nat.mul_comm] at this
        exact this

theorem isDigit_dot : isDigit '.' = false := by decide
theorem isDigit_minus : isDigit '-' = false := by decide

/-- a digit run does not start with '-' -/
theorem head_not_minus (ds rest : List Char) (hd : AllDigits ds) (hne : ds ≠ []) :
    ∃ c r, ds ++ rest = c :: r ∧ c ≠ '-' := by
  cases ds with
  | nil => exact absurd rfl hne
  | cons c r =>
    refine ⟨c, r ++ rest, rfl, ?_⟩
    intro hc
    have := hd c (List.mem_cons_self)
    rw [hc, isDigit_minus] at this
    cases this

/-- value of `ddd` and of `ddd.fff` -/
theorem nanos_plain (ip fp : List Char) (hi : AllDigits ip) (hin : ip ≠ [])
    (hf : AllDigits fp) (hfl : fp.length ≤ 9) :
    nanosOfChars (ip ++ (if fp = [] then [] else '.' :: fp)) =
      some ((natOfDigits ip * 10 ^ 9 + natOfDigits fp * 10 ^ (9 - fp.length) : Nat) : Int) := by
  obtain ⟨c, r, hcr, hc⟩ := head_not_minus ip (if fp = [] then [] else '.' :: fp) hi hin
  unfold nanosOfChars
  have hneg : (match ip ++ (if fp = [] then [] else '.' :: fp) with | '-' :: _ => true | _ => false) = false := by
    rw [hcr]; split
    · rename_i h; injection h with h1 _; exact absurd h1 hc
    · rfl
  have hbody : (match ip ++ (if fp = [] then [] else '.' :: fp) with | '-' :: r => r | _ => ip ++ (if fp = [] then [] else '.' :: fp)) =
      ip ++ (if fp = [] then [] else '.' :: fp) := by
    rw [hcr]; split
    · rename_i h; injection h with h1 _; exact absurd h1 hc
    · rfl
  simp only [hneg, hbody]
  by_cases hfe : fp = []
  · subst hfe
    simp only [if_true, List.append_nil]
    rw [spanDigits_all ip hi]
    simp [hin, natOfDigits]
  · simp only [hfe, if_false]
    rw [spanDigits_append ip ('.' :: fp) hi (by intro c r h; injection h with h1 _; rw [← h1]; exact isDigit_dot)]
    simp only
    rw [spanDigits_all fp hf]
    have : ¬ (ip = [] ∨ fp = [] ∨ ([] : List Char) ≠ [] ∨ fp.length > 9) := by
      intro h
      rcases h with h | h | h | h
      · exact hin h
      · exact hfe h
      · exact h rfl
      · omega
    simp only [this, if_false]
    simp

theorem nanos_minus (ip fp : List Char) (hi : AllDigits ip) (hin : ip ≠ [])
    (hf : AllDigits fp) (hfl : fp.length ≤ 9) :
    nanosOfChars ('-' :: (ip ++ (if fp = [] then [] else '.' :: fp))) =
      some (-((natOfDigits ip * 10 ^ 9 + natOfDigits fp * 10 ^ (9 - fp.length) : Nat) : Int)) := by
  unfold nanosOfChars
  simp only
  by_cases hfe : fp = []
  · subst hfe
    simp only [if_true, List.append_nil]
    rw [spanDigits_all ip hi]
    simp [hin, natOfDigits]
  · simp only [hfe, if_false]
    rw [spanDigits_append ip ('.' :: fp) hi (by intro c r h; injection h with h1 _; rw [← h1]; exact isDigit_dot)]
    simp only
    rw [spanDigits_all fp hf]
    have : ¬ (ip = [] ∨ fp = [] ∨ ([] : List Char) ≠ [] ∨ fp.length > 9) := by
      intro h
      rcases h with h | h | h | h
      · exact hin h
      · exact hfe h
      · exact h rfl
      · omega
    simp only [this, if_false]
    simp

/-- the fraction part as `encodeChars` writes it -/
theorem frac_form (n : Nat) (hn : n < 10 ^ 9) :
    let F := fracDigits 9 n 100000000
    AllDigits F ∧ F.length ≤ 9 ∧ natOfDigits F * 10 ^ (9 - F.length) = n ∧
    (if (n : Int) = 0 then [] else '.' :: F) = (if F = [] then [] else '.' :: F) := by
  have h := fracDigits_spec 8 n (by simpa using hn)
  have e8 : (10 : Nat) ^ 8 = 100000000 := by decide
  rw [e8] at h
  obtain ⟨a1, a2, a3, a4⟩ := h
  refine ⟨a1, a2, a3, ?_⟩
  by_cases h0 : n = 0
  · subst h0; simp [fracDigits]
  · simp [h0, a4 h0]

/-- **encoder exactness, every nanosecond.**  Whatever `NumericDate.MarshalJSON` emits for the
    instant `t` (nanoseconds since the epoch; any sign, any fraction) is a decimal text whose exact
    value is `t`: no digit of the fraction — leading zeros included — is lost or added. -/
theorem numericDate_text_exact (t : Int) (cs : List Char) (h : encodeChars t = .ok cs) :
    nanosOfChars cs = some t := by
  unfold encodeChars at h
  have he9 : e9 = 1000000000 := rfl
  have p9 : (((10 : Nat) ^ 9 : Nat) : Int) = 1000000000 := rfl
  have hmod0 : 0 ≤ t % e9 := Int.emod_nonneg _ (by rw [he9]; omega)
  have hmod1 : t % e9 < e9 := Int.emod_lt_of_pos _ (by rw [he9]; omega)
  have hdm : t = t / e9 * e9 + t % e9 := by rw [he9]; omega
  generalize hs : t / e9 = sec0 at h hdm
  generalize hn : t % e9 = nsec0 at h hdm hmod0 hmod1
  simp only at h
  by_cases hflip : sec0 < 0 ∧ nsec0 ≠ 0
  · -- negative instant with a fraction: "-" |sec0+1| "." (1e9 − nsec0)
    obtain ⟨hneg, hnz⟩ := hflip
    have hdec : decide (sec0 < 0 ∧ nsec0 ≠ 0) = true := by simp [hneg, hnz]
    simp only [hdec, if_true] at h
    have hsec : (if True ∧ sec0 + 1 < 0 then -(sec0 + 1) else sec0 + 1) = -(sec0 + 1) := by
      by_cases h1 : sec0 + 1 < 0
      · simp [h1]
      · have : sec0 + 1 = 0 := by omega
        simp [this]
    rw [hsec] at h
    by_cases hr : -(sec0 + 1) > maxEpoch ∨ -(sec0 + 1) < -maxEpoch
    · rw [if_pos hr] at h; cases h
    · rw [if_neg hr] at h
      have hge : ¬ (-(sec0 + 1) < 0) := by omega
      simp only [hge, if_false] at h
      injection h with h
      have hnn : (e9 - nsec0) ≠ 0 := by omega
      obtain ⟨f1, f2, f3, f4⟩ := frac_form (e9 - nsec0).toNat (by rw [he9] at *; omega)
      have hcast : (((e9 - nsec0).toNat : Nat) : Int) = e9 - nsec0 := by omega
      rw [hcast] at f4
      obtain ⟨d1, d2, d3⟩ := natDigits_spec (-(sec0 + 1)).natAbs
      rw [← h]
      have hshape : ['-'] ++ natDigits (-(sec0 + 1)).natAbs ++
            (if e9 - nsec0 = 0 then [] else '.' :: fracDigits 9 (e9 - nsec0).toNat 100000000) =
          '-' :: (natDigits (-(sec0 + 1)).natAbs ++
            (if fracDigits 9 (e9 - nsec0).toNat 100000000 = [] then [] else '.' :: fracDigits 9 (e9 - nsec0).toNat 100000000)) := by
        rw [f4]; rfl
      rw [hshape, nanos_minus _ _ d2 d3 f1 f2, d1, f3]
      congr 1
      have : (((-(sec0 + 1)).natAbs : Nat) : Int) = -(sec0 + 1) := by omega
      rw [Int.natCast_add, Int.natCast_mul, p9, this, hcast, hdm, he9]
      omega
  · have hdec : decide (sec0 < 0 ∧ nsec0 ≠ 0) = false := by simp [hflip]
    simp only [hdec, Bool.false_eq_true, if_false] at h
    have hsec' : (if False ∧ sec0 < 0 then -sec0 else sec0) = sec0 := by simp
    rw [hsec'] at h
    by_cases hr : sec0 > maxEpoch ∨ sec0 < -maxEpoch
    · rw [if_pos hr] at h; cases h
    · rw [if_neg hr] at h
      injection h with h
      obtain ⟨f1, f2, f3, f4⟩ := frac_form nsec0.toNat (by rw [he9] at *; omega)
      have hcast : ((nsec0.toNat : Nat) : Int) = nsec0 := by omega
      rw [hcast] at f4
      obtain ⟨d1, d2, d3⟩ := natDigits_spec sec0.natAbs
      rw [← h]
      by_cases hneg : sec0 < 0
      · -- whole negative second: "-" |sec0|
        have hz : nsec0 = 0 := by
          by_cases hz : nsec0 = 0
          · exact hz
          · exact absurd ⟨hneg, hz⟩ hflip
        simp only [hneg, if_true, List.nil_append]
        have hshape : ('-' :: natDigits sec0.natAbs) ++
              (if nsec0 = 0 then [] else '.' :: fracDigits 9 nsec0.toNat 100000000) =
            '-' :: (natDigits sec0.natAbs ++
              (if fracDigits 9 nsec0.toNat 100000000 = [] then [] else '.' :: fracDigits 9 nsec0.toNat 100000000)) := by
          rw [f4]; rfl
        rw [hshape, nanos_minus _ _ d2 d3 f1 f2, d1, f3]
        congr 1
        have : ((sec0.natAbs : Nat) : Int) = -sec0 := by omega
        rw [Int.natCast_add, Int.natCast_mul, p9, this, hcast, hdm, hz, he9]
        omega
      · simp only [hneg, if_false, List.nil_append]
        rw [f4, nanos_plain _ _ d2 d3 f1 f2, d1, f3]
        congr 1
        have : ((sec0.natAbs : Nat) : Int) = sec0 := by omega
        rw [Int.natCast_add, Int.natCast_mul, p9, this, hcast, hdm, he9]

end C02Time
