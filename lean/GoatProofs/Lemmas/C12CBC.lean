import GoatProofs.Lemmas.C12AKW
import GoatProofs.Lemmas.C12Misc
import GoatProofs.Lemmas.C12KDF
import Goat.Model.Enc.ACBC
/-
C12, AES_CBC_HMAC_SHA2: the block-at-a-time CryptBlocks loops over one buffer compute CBC
(SP 800-38A) of the block list; `extractPadding` decides PKCS #7 validity.
-/
namespace C12L
open Spec Spec.CBCHS Model.GoBuf Model.Enc.ACBC

theorem slice_mid (pre b rest : Bytes) (i : Nat) (hp : pre.length = i) (hb : b.length = 16) :
    slice (pre ++ b ++ rest) i (i + 16) = b := by
  have : (pre ++ b).length = i + 16 := by simp [hp, hb]
  simp only [slice]
  rw [List.take_left' this, List.drop_left' hp]

theorem goCopy_mid (pre b rest c : Bytes) (i : Nat) (hp : pre.length = i) (hb : b.length = 16)
    (hc : c.length = 16) : goCopy (pre ++ b ++ rest) i (i + 16) c = pre ++ c ++ rest := by
  have h1 : (pre ++ b).length = i + 16 := by simp [hp, hb]
  have hm : min (i + 16 - i) c.length = 16 := by omega
  simp only [goCopy, hm]
  have e1 : List.take i (pre ++ b ++ rest) = pre := by rw [List.append_assoc]; exact List.take_left' hp
  have e2 : List.drop (i + 16) (pre ++ b ++ rest) = rest := List.drop_left' h1
  have e3 : List.take 16 c = c := List.take_of_length_le (by omega)
  rw [e1, e2, e3]

/-- pure body of the encrypt loop -/
def encIterP (E : Bytes → Bytes) (k : Nat) (s : Bytes × Bytes) : Bytes × Bytes :=
  let i := k * blockSize
  let c := E (xorBytes (slice s.1 i (i + blockSize)) s.2)
  (goCopy s.1 i (i + blockSize) c, c)

theorem run_encIter (o : Oracle) (key : Bytes) (k : Nat) (s : Bytes × Bytes) :
    PO.run o (encIter key k s) = .ok (encIterP (encFn o key) k s) := by
  simp [encIter, encIterP]

/-- pure body of the decrypt loop -/
def decIterP (D : Bytes → Bytes) (ct : Bytes) (k : Nat) (s : Bytes × Bytes) : Bytes × Bytes :=
  let i := k * blockSize
  let cblk := slice ct i (i + blockSize)
  (goCopy s.1 i (i + blockSize) (xorBytes (D cblk) s.2), cblk)

theorem run_decIter (o : Oracle) (key ct : Bytes) (k : Nat) (s : Bytes × Bytes) :
    PO.run o (decIter key ct k s) = .ok (decIterP (decFn o key) ct k s) := by
  simp [decIter, decIterP]

/-- the in-place encrypt loop over blocks k0, k0+1, … computes CBC of those blocks -/
theorem encLoop_spec (E : Bytes → Bytes) (hE : ∀ x, (E x).length = 16) :
    ∀ (Bs : List Bytes), Uniform 16 Bs → ∀ (pre prev : Bytes) (k0 : Nat), pre.length = k0 * 16 →
      (iterUp (fun t => encIterP E (k0 + t)) Bs.length (pre ++ Bs.flatten, prev)).1
        = pre ++ (cbcEnc E prev Bs).flatten := by
  intro Bs
  induction Bs with
  | nil => intro _ pre prev k0 _; simp [iterUp, cbcEnc]
  | cons b Bs ih =>
    intro hU pre prev k0 hp
    have hb := hU.head
    rw [List.length_cons, iterUp_succ_left]
    have h0 : encIterP E (k0 + 0) (pre ++ (b :: Bs).flatten, prev)
        = (pre ++ E (xorBytes b prev) ++ Bs.flatten, E (xorBytes b prev)) := by
      simp only [encIterP, blockSize, Nat.add_zero, List.flatten_cons]
      rw [← List.append_assoc, slice_mid pre b _ _ hp hb, goCopy_mid pre b _ _ _ hp hb (hE _)]
    rw [h0]
    have hcongr : iterUp (fun t => encIterP E (k0 + (t + 1))) Bs.length
          (pre ++ E (xorBytes b prev) ++ Bs.flatten, E (xorBytes b prev))
        = iterUp (fun t => encIterP E (k0 + 1 + t)) Bs.length
          (pre ++ E (xorBytes b prev) ++ Bs.flatten, E (xorBytes b prev)) := by
      apply iterUp_congr; intro t _ s; rw [show k0 + (t + 1) = k0 + 1 + t by omega]
    rw [hcongr, ih hU.tail (pre ++ E (xorBytes b prev)) _ (k0 + 1)
      (by rw [List.length_append, hp, hE]; omega)]
    simp [cbcEnc, List.append_assoc]

/-- the decrypt loop (separate plaintext buffer) computes CBC decryption of the blocks -/
theorem decLoop_spec (D : Bytes → Bytes) (hD : ∀ x, (D x).length = 16) :
    ∀ (Cs : List Bytes), Uniform 16 Cs → ∀ (ct cpre pre rest prev : Bytes) (k0 : Nat),
      ct = cpre ++ Cs.flatten → cpre.length = k0 * 16 → pre.length = k0 * 16 →
      rest.length = 16 * Cs.length → prev.length = 16 →
      (iterUp (fun t => decIterP D ct (k0 + t)) Cs.length (pre ++ rest, prev)).1
        = pre ++ (cbcDec D prev Cs).flatten := by
  intro Cs
  induction Cs with
  | nil =>
    intro _ ct cpre pre rest prev k0 _ _ _ hr _
    have : rest = [] := List.length_eq_zero_iff.mp (by simpa using hr)
    simp [iterUp, cbcDec, this]
  | cons c Cs ih =>
    intro hU ct cpre pre rest prev k0 hct hcp hp hr hprev
    have hc := hU.head
    rw [List.length_cons, iterUp_succ_left]
    have hrl : (rest.take 16).length = 16 := by rw [List.length_take, hr, List.length_cons]; omega
    have hx : (xorBytes (D c) prev).length = 16 := by rw [xorBytes_length, hD, hprev]; rfl
    have h0 : decIterP D ct (k0 + 0) (pre ++ rest, prev)
        = (pre ++ xorBytes (D c) prev ++ rest.drop 16, c) := by
      simp only [decIterP, blockSize, Nat.add_zero]
      have hs : slice ct (k0 * 16) (k0 * 16 + 16) = c := by
        rw [hct, List.flatten_cons, ← List.append_assoc]; exact slice_mid cpre c _ _ hcp hc
      rw [hs]
      have : pre ++ rest = pre ++ rest.take 16 ++ rest.drop 16 := by
        rw [List.append_assoc, List.take_append_drop]
      rw [this, goCopy_mid pre _ _ _ _ hp hrl hx]
    rw [h0]
    have hcongr : iterUp (fun t => decIterP D ct (k0 + (t + 1))) Cs.length
          (pre ++ xorBytes (D c) prev ++ rest.drop 16, c)
        = iterUp (fun t => decIterP D ct (k0 + 1 + t)) Cs.length
          (pre ++ xorBytes (D c) prev ++ rest.drop 16, c) := by
      apply iterUp_congr; intro t _ s; rw [show k0 + (t + 1) = k0 + 1 + t by omega]
    rw [hcongr, ih hU.tail ct (cpre ++ c) (pre ++ xorBytes (D c) prev) _ c (k0 + 1)
      (by rw [hct, List.flatten_cons, List.append_assoc])
      (by rw [List.length_append, hcp, hc]; omega)
      (by rw [List.length_append, hp, hx]; omega)
      (by rw [List.length_drop, hr, List.length_cons]; omega) hc]
    simp [cbcDec, List.append_assoc]

/-- CBC decryption undoes CBC encryption (given D ∘ E = id on blocks) -/
theorem cbcDec_cbcEnc (E D : Bytes → Bytes) (hE : ∀ x, (E x).length = 16)
    (hDE : ∀ x, x.length = 16 → D (E x) = x) :
    ∀ (Bs : List Bytes), Uniform 16 Bs → ∀ prev : Bytes, prev.length = 16 →
      cbcDec D prev (cbcEnc E prev Bs) = Bs := by
  intro Bs
  induction Bs with
  | nil => intro _ _ _; rfl
  | cons b Bs ih =>
    intro hU prev hprev
    have hb := hU.head
    have hx : (xorBytes b prev).length = 16 := by rw [xorBytes_length, hb, hprev]; rfl
    simp only [cbcEnc, cbcDec]
    rw [hDE _ hx, xorBytes_cancel _ _ (by omega), ih hU.tail _ (hE _)]

theorem cbcEnc_uniform (E : Bytes → Bytes) (hE : ∀ x, (E x).length = 16) (Bs : List Bytes) (prev : Bytes) :
    Uniform 16 (cbcEnc E prev Bs) ∧ (cbcEnc E prev Bs).length = Bs.length := by
  induction Bs generalizing prev with
  | nil => exact ⟨fun r hr => by simp [cbcEnc] at hr, rfl⟩
  | cons b Bs ih =>
    obtain ⟨h1, h2⟩ := ih (E (xorBytes b prev))
    refine ⟨?_, by simp [cbcEnc, h2]⟩
    intro r hr
    simp only [cbcEnc, List.mem_cons] at hr
    rcases hr with h | h
    · rw [h]; exact hE _
    · exact h1 r h

end C12L
