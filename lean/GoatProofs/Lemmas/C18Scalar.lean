import GoatProofs.Lemmas.C18Field
import Goat.Model.Sc256
/-
C18, scalars: the 5-word accumulator of internal/curve256k1/scalar.go.

State invariant (read off the code): `l4 ≤ 1`, and `l4 = 1 ⇒ low 256 bits < 2^141` at the loop head
(`Inv`), `< 2^140` after `Lsh8` (`Mid`).  This is what makes the carries that `reduce` DISCARDS
(`l3, _ = bits.Add64(…)`) zero: `low + l4·(2^256 − n) < 2^256`.
-/
namespace C18
open Reflect Glue C18X C18B
open Model.Sc256 (N D State lsh8 add8 zero5)
set_option maxRecDepth 1000000
set_option exponentiation.threshold 2000

namespace Sc

abbrev sval := Model.Sc256.val

/-- five 64-bit words -/
def SLim (s : State) : Prop := s.length = 5 ∧ AllIn 0 U64 s

theorem slim_cases {s : State} (h : SLim s) : ∃ a b c d e, s = [a, b, c, d, e] ∧
    (0 ≤ a ∧ a ≤ 2 ^ 64 - 1) ∧ (0 ≤ b ∧ b ≤ 2 ^ 64 - 1) ∧ (0 ≤ c ∧ c ≤ 2 ^ 64 - 1) ∧ (0 ≤ d ∧ d ≤ 2 ^ 64 - 1) ∧
    (0 ≤ e ∧ e ≤ 2 ^ 64 - 1) := by
  obtain ⟨hl, hr⟩ := h
  match s, hl with
  | [a, b, c, d, e], _ =>
    exact ⟨a, b, c, d, e, rfl, by simpa [U64] using hr a (by simp), by simpa [U64] using hr b (by simp),
      by simpa [U64] using hr c (by simp), by simpa [U64] using hr d (by simp), by simpa [U64] using hr e (by simp)⟩

theorem slim_mk (a b c d e : Int) (ha : 0 ≤ a ∧ a ≤ 2 ^ 64 - 1) (hb : 0 ≤ b ∧ b ≤ 2 ^ 64 - 1)
    (hc : 0 ≤ c ∧ c ≤ 2 ^ 64 - 1) (hd : 0 ≤ d ∧ d ≤ 2 ^ 64 - 1) (he : 0 ≤ e ∧ e ≤ 2 ^ 64 - 1) : SLim [a, b, c, d, e] := by
  refine ⟨rfl, ?_⟩
  intro x hx
  simp only [List.mem_cons, List.not_mem_nil, or_false] at hx
  unfold U64
  rcases hx with h | h | h | h | h <;> subst h <;> assumption

/-- low 256 bits -/
def low (s : State) : Int := Model.Fe256.val (s.take 4)
def l4 (s : State) : Int := s.getD 4 0

/-- loop-head invariant of `normalizeScalar` -/
def Inv (s : State) : Prop := SLim s ∧ l4 s ≤ 1 ∧ (l4 s = 1 → low s < 2 ^ 141)
/-- state between `Lsh8` and `Add8` -/
def Mid (s : State) : Prop := SLim s ∧ l4 s ≤ 1 ∧ (l4 s = 1 → low s < 2 ^ 140)

theorem sval5 (a b c d e : Int) : sval [a, b, c, d, e] = a + 2 ^ 64 * b + 2 ^ 128 * c + 2 ^ 192 * d + 2 ^ 256 * e := by
  simp only [Model.Sc256.val]; ring
theorem low5 (a b c d e : Int) : low [a, b, c, d, e] = a + 2 ^ 64 * b + 2 ^ 128 * c + 2 ^ 192 * d := by
  show Model.Fe256.val [a, b, c, d] = _
  rw [val4]

theorem within_cons (lo hi x : Int) (los his xs : List Int) (h1 : lo ≤ x ∧ x ≤ hi) (h : inputsWithin los his xs) :
    inputsWithin (lo :: los) (hi :: his) (x :: xs) := by
  intro i hi'
  cases i with
  | zero => simpa using h1
  | succ j =>
    have := h j (by simpa using hi')
    simpa using this

/-! ### `Add8` -/

/-- Σ outᵢ·2^(64i) (i ≤ 4) = v + u -/
def cfgAdd8 : Cfg :=
  { inLo := zeros 11, inHi := List.replicate 9 U64 ++ [1, 255], obs := [13, 15, 17, 19, 21],
    outLo := zeros 5, outHi := [U64, U64, U64, U64, 2],
    weights := [1, 2 ^ 64, 2 ^ 128, 2 ^ 192, 2 ^ 256], spec := padd (limbPoly 64 5 0 5) (patom 10), modulus := 0 }
theorem add8_check : check Gen.Sc256.add8 cfgAdd8 = true := by decide +kernel
theorem add8_outs : Gen.Sc256.add8.outs = [13, 15, 17, 19, 21] := rfl

theorem b0 : (0 : Int) ≤ 0 ∧ (0 : Int) ≤ 2 ^ 64 - 1 := by decide

theorem add8_spec (s : State) (u : Int) (hs : Mid s) (hu : 0 ≤ u ∧ u ≤ 255) :
    Inv (add8 s u) ∧ sval (add8 s u) = sval s + u := by
  obtain ⟨hl, h4, hrel⟩ := hs
  obtain ⟨a, b, c, d, e, rfl, ha, hb, hc, hd, he⟩ := slim_cases hl
  have e1 : e ≤ 1 := h4
  have hrel' : e = 1 → a + 2 ^ 64 * b + 2 ^ 128 * c + 2 ^ 192 * d < 2 ^ 140 := by
    intro h; have := hrel h; rwa [low5] at this
  show Inv (Model.Sc256.run Gen.Sc256.add8 [0, 0, 0, 0, 0, a, b, c, d, e, u]) ∧
    sval (Model.Sc256.run Gen.Sc256.add8 [0, 0, 0, 0, 0, a, b, c, d, e, u]) = _
  have hwi : inputsWithin cfgAdd8.inLo cfgAdd8.inHi [0, 0, 0, 0, 0, a, b, c, d, e, u] := by
    refine within_cons _ _ _ _ _ _ b0 (within_cons _ _ _ _ _ _ b0 (within_cons _ _ _ _ _ _ b0 (within_cons _ _ _ _ _ _ b0
      (within_cons _ _ _ _ _ _ b0 (within_cons _ _ _ _ _ _ ha (within_cons _ _ _ _ _ _ hb (within_cons _ _ _ _ _ _ hc
      (within_cons _ _ _ _ _ _ hd (within_cons _ _ _ _ _ _ ⟨he.1, e1⟩ (within_cons _ _ _ _ _ _ hu within_nil))))))))))
  have g := check_sound Gen.Sc256.add8 cfgAdd8 add8_check _ rfl hwi (sideOK_of_none _ _ rfl)
  have hout : Model.Sc256.run Gen.Sc256.add8 [0, 0, 0, 0, 0, a, b, c, d, e, u]
      = Gen.Sc256.add8.outs.map (Gen.Sc256.add8.val _) := outputs_true_eq _ cfgAdd8 _ g
  have o0 := bnd _ _ _ g 0 0 (2 ^ 64 - 1) 13 (by decide) rfl rfl rfl
  have o1 := bnd _ _ _ g 1 0 (2 ^ 64 - 1) 15 (by decide) rfl rfl rfl
  have o2 := bnd _ _ _ g 2 0 (2 ^ 64 - 1) 17 (by decide) rfl rfl rfl
  have o3 := bnd _ _ _ g 3 0 (2 ^ 64 - 1) 19 (by decide) rfl rfl rfl
  have o4 := bnd _ _ _ g 4 0 2 21 (by decide) rfl rfl rfl
  have id1 := Int.eq_of_sub_eq_zero (Int.zero_dvd.mp g.value)
  simp only [cfgAdd8, weightedSum, evalPoly_padd, evalPoly_patom, limbPoly, evalPoly, evalMono,
    List.getD_cons_zero, List.getD_cons_succ] at id1
  rw [hout, add8_outs]
  show Inv [_, _, _, _, _] ∧ sval [_, _, _, _, _] = _
  rw [sval5, sval5]
  generalize Prog.val _ [0, 0, 0, 0, 0, a, b, c, d, e, u] = ρ at *
  norm_num at id1
  obtain ⟨q1, q2⟩ := C18A.add8_arith (a + 2 ^ 64 * b + 2 ^ 128 * c + 2 ^ 192 * d) e u
    (ρ 13 + 2 ^ 64 * ρ 15 + 2 ^ 128 * ρ 17 + 2 ^ 192 * ρ 19) (ρ 21)
    (by constructor <;> omega) ⟨he.1, e1⟩ hrel' hu (by constructor <;> omega) o4.1 (by linarith)
  refine ⟨⟨slim_mk _ _ _ _ _ o0 o1 o2 o3 ⟨o4.1, by omega⟩, q1, ?_⟩, by linarith⟩
  intro h
  rw [low5]
  exact q2 h

/-! ### `reduce` -/

def cfgR (obs : List Nat) (his ws : List Int) (spec : Poly) : Cfg :=
  { inLo := zeros 5, inHi := List.replicate 4 U64 ++ [1], obs := obs, outLo := zeros obs.length, outHi := his,
    weights := ws, spec := spec, modulus := 0 }
/-- fold of l4:  T + 2^256·(the three discarded carries) = low + (2^256 − n)·l4 -/
def cfgRed1 : Cfg := cfgR [23, 25, 27, 29, 8, 17, 28] [U64, U64, U64, U64, 1, 1, 1]
  [1, 2 ^ 64, 2 ^ 128, 2 ^ 192, 2 ^ 256, 2 ^ 256, 2 ^ 256] (padd (limbPoly 64 4 0 0) [([4], D)])
/-- conditional subtraction:  R + 2^256·(discarded carry) = T + (2^256 − n)·c0 -/
def cfgRed3 : Cfg := cfgR [37, 40, 42, 44, 43, 23, 25, 27, 29, 34] [U64, U64, U64, U64, 1, U64, U64, U64, U64, 1]
  [1, 2 ^ 64, 2 ^ 128, 2 ^ 192, 2 ^ 256, -1, -(2 ^ 64), -(2 ^ 128), -(2 ^ 192), -D] []
theorem red1_check : check Gen.Sc256.reduce cfgRed1 = true := by decide +kernel
theorem red3_check : check Gen.Sc256.reduce cfgRed3 = true := by decide +kernel
theorem reduce_outs : Gen.Sc256.reduce.outs = [37, 40, 42, 44, 5] := rfl
theorem screduce_wf : opsLt Gen.Sc256.reduce.nIn Gen.Sc256.reduce.body := by decide

/-- `reduce`: the canonical residue modulo n in the low four words, `l4 = 0` -/
theorem reduce_spec (s : State) (hs : Inv s) :
    SLim (Model.Sc256.reduce s) ∧ l4 (Model.Sc256.reduce s) = 0 ∧
      sval (Model.Sc256.reduce s) = sval s % N ∧ sval (Model.Sc256.reduce s) < N := by
  obtain ⟨hl, h4, hrel⟩ := hs
  obtain ⟨a, b, c, d, e, rfl, ha, hb, hc, hd, he⟩ := slim_cases hl
  have e1 : e ≤ 1 := h4
  have hrel' : e = 1 → a + 2 ^ 64 * b + 2 ^ 128 * c + 2 ^ 192 * d < 2 ^ 141 := by
    intro h; have := hrel h; rwa [low5] at this
  show SLim (Model.Sc256.run Gen.Sc256.reduce [a, b, c, d, e]) ∧ l4 (Model.Sc256.run Gen.Sc256.reduce [a, b, c, d, e]) = 0 ∧
    sval (Model.Sc256.run Gen.Sc256.reduce [a, b, c, d, e]) = _ ∧ sval (Model.Sc256.run Gen.Sc256.reduce [a, b, c, d, e]) < N
  have hwi : inputsWithin cfgRed1.inLo cfgRed1.inHi [a, b, c, d, e] :=
    within_cons _ _ _ _ _ _ ha (within_cons _ _ _ _ _ _ hb (within_cons _ _ _ _ _ _ hc
      (within_cons _ _ _ _ _ _ hd (within_cons _ _ _ _ _ _ ⟨he.1, e1⟩ within_nil))))
  have g1 := check_sound Gen.Sc256.reduce cfgRed1 red1_check _ rfl hwi (sideOK_of_none _ _ rfl)
  have g3 := check_sound Gen.Sc256.reduce cfgRed3 red3_check _ rfl hwi (sideOK_of_none _ _ rfl)
  have hout : Model.Sc256.run Gen.Sc256.reduce [a, b, c, d, e]
      = Gen.Sc256.reduce.outs.map (Gen.Sc256.reduce.val _) := outputs_true_eq _ cfgRed1 _ g1
  let ρ := Gen.Sc256.reduce.val [a, b, c, d, e]
  have hρ : ∀ i, xval false Gen.Sc256.reduce [a, b, c, d, e] i = ρ i := fun _ => rfl
  have t0 : 0 ≤ ρ 23 ∧ ρ 23 ≤ (2 ^ 64 - 1) := bnd _ _ _ g1 0 0 (2 ^ 64 - 1) 23 (by decide) rfl rfl rfl
  have t1 : 0 ≤ ρ 25 ∧ ρ 25 ≤ (2 ^ 64 - 1) := bnd _ _ _ g1 1 0 (2 ^ 64 - 1) 25 (by decide) rfl rfl rfl
  have t2 : 0 ≤ ρ 27 ∧ ρ 27 ≤ (2 ^ 64 - 1) := bnd _ _ _ g1 2 0 (2 ^ 64 - 1) 27 (by decide) rfl rfl rfl
  have t3 : 0 ≤ ρ 29 ∧ ρ 29 ≤ (2 ^ 64 - 1) := bnd _ _ _ g1 3 0 (2 ^ 64 - 1) 29 (by decide) rfl rfl rfl
  have t4 : 0 ≤ ρ 8 ∧ ρ 8 ≤ 1 := bnd _ _ _ g1 4 0 1 8 (by decide) rfl rfl rfl
  have t5 : 0 ≤ ρ 17 ∧ ρ 17 ≤ 1 := bnd _ _ _ g1 5 0 1 17 (by decide) rfl rfl rfl
  have t6 : 0 ≤ ρ 28 ∧ ρ 28 ≤ 1 := bnd _ _ _ g1 6 0 1 28 (by decide) rfl rfl rfl
  have r0 : 0 ≤ ρ 37 ∧ ρ 37 ≤ (2 ^ 64 - 1) := bnd _ _ _ g3 0 0 (2 ^ 64 - 1) 37 (by decide) rfl rfl rfl
  have r1 : 0 ≤ ρ 40 ∧ ρ 40 ≤ (2 ^ 64 - 1) := bnd _ _ _ g3 1 0 (2 ^ 64 - 1) 40 (by decide) rfl rfl rfl
  have r2 : 0 ≤ ρ 42 ∧ ρ 42 ≤ (2 ^ 64 - 1) := bnd _ _ _ g3 2 0 (2 ^ 64 - 1) 42 (by decide) rfl rfl rfl
  have r3 : 0 ≤ ρ 44 ∧ ρ 44 ≤ (2 ^ 64 - 1) := bnd _ _ _ g3 3 0 (2 ^ 64 - 1) 44 (by decide) rfl rfl rfl
  have r4 : 0 ≤ ρ 43 ∧ ρ 43 ≤ 1 := bnd _ _ _ g3 4 0 1 43 (by decide) rfl rfl rfl
  have hlowB : 0 ≤ a + 2 ^ 64 * b + 2 ^ 128 * c + 2 ^ 192 * d ∧ a + 2 ^ 64 * b + 2 ^ 128 * c + 2 ^ 192 * d < 2 ^ 256 := by
    constructor <;> omega
  have hTB : 0 ≤ ρ 23 + 2 ^ 64 * ρ 25 + 2 ^ 128 * ρ 27 + 2 ^ 192 * ρ 29 ∧
      ρ 23 + 2 ^ 64 * ρ 25 + 2 ^ 128 * ρ 27 + 2 ^ 192 * ρ 29 < 2 ^ 256 := by
    constructor <;> omega
  have hRB : 0 ≤ ρ 37 + 2 ^ 64 * ρ 40 + 2 ^ 128 * ρ 42 + 2 ^ 192 * ρ 44 ∧
      ρ 37 + 2 ^ 64 * ρ 40 + 2 ^ 128 * ρ 42 + 2 ^ 192 * ρ 44 < 2 ^ 256 := by
    constructor <;> omega
  have hcsB : 0 ≤ ρ 8 + ρ 17 + ρ 28 := by omega
  have k5 : ρ 5 = 0 := const_at false _ screduce_wf _ 0 _ (by decide) rfl rfl (by decide)
  have k10 : ρ 10 = 4994812053365940164 := const_at false _ screduce_wf _ 5 _ (by decide) rfl rfl (by decide)
  have k19 : ρ 19 = 4624529908474429119 := const_at false _ screduce_wf _ 14 _ (by decide) rfl rfl (by decide)
  have k32 : ρ 32 = 1 := const_at false _ screduce_wf _ 27 _ (by decide) rfl rfl (by decide)
  have c1 : ρ 30 = (ρ 23 + 4624529908474429119 + 0) / 2 ^ 64 := by
    have := carry_at false _ screduce_wf [a, b, c, d, e] 25 23 19 5 (by decide) rfl
    rwa [hρ, hρ, hρ, hρ, k19, k5] at this
  have c2 : ρ 31 = (ρ 25 + 4994812053365940164 + ρ 30) / 2 ^ 64 := by
    have := carry_at false _ screduce_wf [a, b, c, d, e] 26 25 10 30 (by decide) rfl
    rwa [hρ, hρ, hρ, hρ, k10] at this
  have c3 : ρ 33 = (ρ 27 + 1 + ρ 31) / 2 ^ 64 := by
    have := carry_at false _ screduce_wf [a, b, c, d, e] 28 27 32 31 (by decide) rfl
    rwa [hρ, hρ, hρ, hρ, k32] at this
  have c4 : ρ 34 = (ρ 29 + 0 + ρ 33) / 2 ^ 64 := by
    have := carry_at false _ screduce_wf [a, b, c, d, e] 29 29 5 33 (by decide) rfl
    rwa [hρ, hρ, hρ, hρ, k5] at this
  obtain ⟨q1, q2⟩ := C18A.cmp_chain_n _ _ _ _ _ _ _ _ t0.1 t0.2 t1.1 t1.2 t2.1 t2.2 t3.1 t3.2 c1 c2 c3 c4
  have id1 := Int.eq_of_sub_eq_zero (Int.zero_dvd.mp g1.value)
  have id3 := ident0 _ _ _ g3 rfl rfl
  simp only [cfgRed1, cfgR, weightedSum, evalPoly_padd, limbPoly, evalPoly, evalMono, D,
    List.getD_cons_zero, List.getD_cons_succ] at id1
  simp only [cfgRed3, cfgR, weightedSum, D] at id3
  have hk5' : Gen.Sc256.reduce.val [a, b, c, d, e] 5 = 0 := k5
  rw [hout, reduce_outs]
  show SLim [_, _, _, _, _] ∧ l4 [_, _, _, _, _] = 0 ∧ sval [_, _, _, _, _] = _ ∧ sval [_, _, _, _, _] < N
  rw [hk5', sval5, sval5]
  change SLim [ρ 37, ρ 40, ρ 42, ρ 44, 0] ∧ l4 [ρ 37, ρ 40, ρ 42, ρ 44, 0] = 0 ∧
    ρ 37 + 2 ^ 64 * ρ 40 + 2 ^ 128 * ρ 42 + 2 ^ 192 * ρ 44 + 2 ^ 256 * 0 = _ ∧ _
  change _ = _ at id1
  change _ = _ at id3
  norm_num at id1 id3
  obtain ⟨p1, p2⟩ := C18A.screduce_arith (a + 2 ^ 64 * b + 2 ^ 128 * c + 2 ^ 192 * d) e
    (ρ 23 + 2 ^ 64 * ρ 25 + 2 ^ 128 * ρ 27 + 2 ^ 192 * ρ 29) (ρ 8 + ρ 17 + ρ 28) (ρ 34)
    (ρ 37 + 2 ^ 64 * ρ 40 + 2 ^ 128 * ρ 42 + 2 ^ 192 * ρ 44) (ρ 43)
    hlowB ⟨he.1, e1⟩ hrel' hTB hcsB hRB r4 q1
    (by rw [q2]) (by linarith) (by linarith)
  refine ⟨slim_mk _ _ _ _ _ r0 r1 r2 r3 (by decide), rfl, ?_, ?_⟩
  · unfold N; rw [p2]; ring_nf
  · unfold N; linarith

/-! ### `bytes` -/

def cfgScBytes : Cfg :=
  { inLo := zeros 42, inHi := List.replicate 42 U64, obs := Gen.Sc256.bytesTail.outs,
    outLo := List.replicate 32 0, outHi := List.replicate 32 255,
    weights := weightsBE 32, spec := limbPoly 64 4 0 37, modulus := 0 }
theorem scbytes_check : check Gen.Sc256.bytesTail cfgScBytes = true := by decide +kernel

/-- `bytes`: 32 octets, big-endian, of the canonical residue modulo n -/
theorem bytes_spec (s : State) (hs : Inv s) :
    (Model.Sc256.bytes s).length = 32 ∧ (Bytes.decodeBE (Model.Sc256.bytes s) : Int) = sval s % N := by
  obtain ⟨rl, r4, rv, _⟩ := reduce_spec s hs
  have hl := hs.1
  obtain ⟨r0', r1', r2', r3', r4', er, _⟩ := slim_cases rl
  have hr40 : r4' = 0 := by rw [er] at r4; exact r4
  have hbi : Model.Sc256.bytesInts s
      = Model.Sc256.run Gen.Sc256.bytesTail (s ++ List.replicate 32 0 ++ [r0', r1', r2', r3'] ++ [r4']) := by
    show Model.Sc256.run Gen.Sc256.bytesTail (s ++ List.replicate 32 0 ++ Model.Sc256.reduce s) = _
    rw [er]; simp
  have hin : AllIn 0 U64 (s ++ List.replicate 32 0 ++ [r0', r1', r2', r3'] ++ [r4']) := by
    have hR : AllIn 0 U64 [r0', r1', r2', r3', r4'] := er ▸ rl.2
    intro x hx
    simp only [List.append_assoc, List.mem_append] at hx
    rcases hx with h | h | h | h
    · exact hl.2 x h
    · rw [List.eq_of_mem_replicate h]; exact ⟨le_refl _, by decide⟩
    · exact hR x (by simp at h ⊢; tauto)
    · exact hR x (by simp at h ⊢; tauto)
  have hlen : (s ++ List.replicate 32 0 ++ [r0', r1', r2', r3'] ++ [r4']).length = 42 := by simp [hl.1]
  have hwi : inputsWithin cfgScBytes.inLo cfgScBytes.inHi (s ++ List.replicate 32 0 ++ [r0', r1', r2', r3'] ++ [r4']) := by
    have := within_replicate_append 0 U64 _ [] [] [] hin rfl rfl within_nil
    rw [hlen] at this
    simpa [cfgScBytes, zeros] using this
  have g := check_sound Gen.Sc256.bytesTail cfgScBytes scbytes_check _ hlen hwi (sideOK_of_none _ _ rfl)
  have hout : Model.Sc256.bytesInts s = Gen.Sc256.bytesTail.outs.map
      (Gen.Sc256.bytesTail.val (s ++ List.replicate 32 0 ++ [r0', r1', r2', r3'] ++ [r4'])) := by
    rw [hbi]; exact outputs_true_eq _ cfgScBytes _ g
  have hr : AllIn 0 255 (Model.Sc256.bytesInts s) := by
    rw [hout]; exact allIn_outputs _ cfgScBytes _ g 0 255 rfl rfl
  have hv : evalBE (Model.Sc256.bytesInts s) = r0' + 2 ^ 64 * r1' + 2 ^ 128 * r2' + 2 ^ 192 * r3' := by
    have h := g.value
    have ew : cfgScBytes.weights = weightsBE cfgScBytes.obs.length := rfl
    have es : cfgScBytes.spec = limbPoly 64 4 0 37 := rfl
    have em : cfgScBytes.modulus = 0 := rfl
    rw [ew, weightedSum_weightsBE, es, em, evalPoly_limbPoly] at h
    have hr' := range'_map_getD_append (s ++ List.replicate 32 0) [r0', r1', r2', r3'] [r4']
    have e37 : (s ++ List.replicate 32 (0 : Int)).length = 37 := by simp [hl.1]
    have e4 : [r0', r1', r2', r3'].length = 4 := rfl
    rw [e37, e4] at hr'
    rw [hr'] at h
    rw [hout]
    have := Int.eq_of_sub_eq_zero (Int.zero_dvd.mp h)
    rw [show cfgScBytes.obs = Gen.Sc256.bytesTail.outs from rfl] at this
    rw [this]
    simp only [evalR]; ring
  refine ⟨by rw [Model.Sc256.bytes, Model.Fe256.intsToBytes, List.length_map, hout]; rfl, ?_⟩
  rw [← evalBE_ofBytes]
  show evalBE (ofBytes (Model.Fe256.intsToBytes (Model.Sc256.bytesInts s))) = _
  rw [ofBytes_intsToBytes _ hr, hv, ← rv, er, sval5, hr40]; ring

/-! ### `Lsh8`

The abstract interpreter bounds a wrapping `x << 8` by [0, 2^64−1] and therefore cannot see that
`x<<8 | y>>56` fits a word.  The 14 shift/or ops are evaluated by hand (`lsh_pref`, `shift_arith`);
the remaining 28 ops (the three folds of `l4·(2^256 − n)`) are checked reflectively as the program
`lshP` whose inputs are the first 24 variables. -/

def lshP : Prog := dropProg Gen.Sc256.lsh8 14

/-- inputs and the 14 shift/or variables of `Lsh8` on `v = [a,b,c,d,e]` -/
def lshIns (a b c d e : Int) : List Int :=
  [0, 0, 0, 0, 0, a, b, c, d, e,
   a / 2 ^ 56, (a * 2 ^ 8) % W64,
   b / 2 ^ 56, (b * 2 ^ 8) % W64, Int.ofNat (((b * 2 ^ 8) % W64).toNat ||| (a / 2 ^ 56).toNat),
   c / 2 ^ 56, (c * 2 ^ 8) % W64, Int.ofNat (((c * 2 ^ 8) % W64).toNat ||| (b / 2 ^ 56).toNat),
   d / 2 ^ 56, (d * 2 ^ 8) % W64, Int.ofNat (((d * 2 ^ 8) % W64).toNat ||| (c / 2 ^ 56).toNat),
   e / 2 ^ 56, (e * 2 ^ 8) % W64, Int.ofNat (((e * 2 ^ 8) % W64).toNat ||| (d / 2 ^ 56).toNat)]

theorem lsh_pref (a b c d e : Int) :
    prefTrace true Gen.Sc256.lsh8 14 [0, 0, 0, 0, 0, a, b, c, d, e] = lshIns a b c d e := rfl

/-- Σ outᵢ·2^(64i) + 2^256·c0 = (L0 + L1·2^64 + L2·2^128 + L3·2^192) + (2^256 − n)·L4 -/
def cfgLsh : Cfg :=
  { inLo := zeros 24,
    inHi := List.replicate 9 U64 ++ [1, 255, U64, 255, U64, U64, 255, U64, U64, 255, U64, U64, 0, 256, 511],
    obs := [44, 46, 48, 50, 51], outLo := zeros 5, outHi := [U64, U64, U64, U64, 3],
    weights := [1, 2 ^ 64, 2 ^ 128, 2 ^ 192, 2 ^ 256],
    spec := [([11], 1), ([14], 2 ^ 64), ([17], 2 ^ 128), ([20], 2 ^ 192), ([23], D)], modulus := 0 }

theorem lsh_check : check lshP cfgLsh = true := by decide +kernel
theorem lsh8_outs : Gen.Sc256.lsh8.outs = [44, 46, 48, 50, 51] := rfl

theorem orr_word (x y : Int) (hx : 0 ≤ x) (hy : 0 ≤ y ∧ y < 2 ^ 8) :
    Int.ofNat (((x * 2 ^ 8) % W64).toNat ||| y.toNat) = (x * 2 ^ 8) % 2 ^ 64 + y := by
  rw [show W64 = 2 ^ 64 from W64_eq]
  apply lor_disjoint _ _ 8 (Int.emod_nonneg _ (by norm_num)) hy.1 _ hy.2
  have : (2 : Int) ^ 64 = 2 ^ 8 * 2 ^ 56 := by norm_num
  rw [this, Int.mul_comm x, Int.mul_emod_mul_of_pos _ _ (by norm_num : (0 : Int) < 2 ^ 8)]
  exact Dvd.intro _ rfl

theorem lsh8_spec (s : State) (hs : Inv s) :
    Mid (lsh8 s) ∧ ∃ q : Int, 0 ≤ q ∧ sval (lsh8 s) = 256 * sval s - N * q := by
  obtain ⟨hl, h4, _⟩ := hs
  obtain ⟨a, b, c, d, e, rfl, ha, hb, hc, hd, he⟩ := slim_cases hl
  have e1 : e ≤ 1 := h4
  -- the shifted words
  obtain ⟨L0, hL0⟩ : ∃ L0, L0 = (a * 2 ^ 8) % 2 ^ 64 := ⟨_, rfl⟩
  obtain ⟨L1, hL1⟩ : ∃ L1, L1 = (b * 2 ^ 8) % 2 ^ 64 + a / 2 ^ 56 := ⟨_, rfl⟩
  obtain ⟨L2, hL2⟩ : ∃ L2, L2 = (c * 2 ^ 8) % 2 ^ 64 + b / 2 ^ 56 := ⟨_, rfl⟩
  obtain ⟨L3, hL3⟩ : ∃ L3, L3 = (d * 2 ^ 8) % 2 ^ 64 + c / 2 ^ 56 := ⟨_, rfl⟩
  obtain ⟨L4, hL4⟩ : ∃ L4, L4 = (e * 2 ^ 8) % 2 ^ 64 + d / 2 ^ 56 := ⟨_, rfl⟩
  obtain ⟨bL0, bL1, bL2, bL3, bL4, hsh⟩ := C18A.shift_arith a b c d e L0 L1 L2 L3 L4 ha hb hc hd ⟨he.1, e1⟩ hL0 hL1 hL2 hL3 hL4
  have qa : 0 ≤ a / 2 ^ 56 ∧ a / 2 ^ 56 < 2 ^ 8 := by constructor <;> omega
  have qb : 0 ≤ b / 2 ^ 56 ∧ b / 2 ^ 56 < 2 ^ 8 := by constructor <;> omega
  have qc : 0 ≤ c / 2 ^ 56 ∧ c / 2 ^ 56 < 2 ^ 8 := by constructor <;> omega
  have qd : 0 ≤ d / 2 ^ 56 ∧ d / 2 ^ 56 < 2 ^ 8 := by constructor <;> omega
  have hins : lshIns a b c d e = [0, 0, 0, 0, 0, a, b, c, d, e, a / 2 ^ 56, L0, b / 2 ^ 56,
      (b * 2 ^ 8) % 2 ^ 64, L1, c / 2 ^ 56, (c * 2 ^ 8) % 2 ^ 64, L2, d / 2 ^ 56, (d * 2 ^ 8) % 2 ^ 64, L3,
      e / 2 ^ 56, (e * 2 ^ 8) % 2 ^ 64, L4] := by
    unfold lshIns
    rw [orr_word b _ hb.1 qa, orr_word c _ hc.1 qb, orr_word d _ hd.1 qc, orr_word e _ he.1 qd,
      show W64 = 2 ^ 64 from W64_eq, ← hL0, ← hL1, ← hL2, ← hL3, ← hL4]
  have hrun : lsh8 [a, b, c, d, e] = Model.Sc256.run lshP (lshIns a b c d e) := by
    show Gen.Sc256.lsh8.outputs true [0, 0, 0, 0, 0, a, b, c, d, e] = _
    rw [← outputs_drop true Gen.Sc256.lsh8 14 _ (by decide), lsh_pref]; rfl
  rw [hrun, hins]
  have w : ∀ x : Int, 0 ≤ x ∧ x ≤ 2 ^ 64 - 1 → 0 ≤ x ∧ x ≤ U64 := fun _ h => h
  have hwi : inputsWithin cfgLsh.inLo cfgLsh.inHi [0, 0, 0, 0, 0, a, b, c, d, e, a / 2 ^ 56, L0, b / 2 ^ 56,
      (b * 2 ^ 8) % 2 ^ 64, L1, c / 2 ^ 56, (c * 2 ^ 8) % 2 ^ 64, L2, d / 2 ^ 56, (d * 2 ^ 8) % 2 ^ 64, L3,
      e / 2 ^ 56, (e * 2 ^ 8) % 2 ^ 64, L4] := by
    refine within_cons _ _ _ _ _ _ b0 (within_cons _ _ _ _ _ _ b0 (within_cons _ _ _ _ _ _ b0 (within_cons _ _ _ _ _ _ b0
      (within_cons _ _ _ _ _ _ b0 (within_cons _ _ _ _ _ _ ha (within_cons _ _ _ _ _ _ hb (within_cons _ _ _ _ _ _ hc
      (within_cons _ _ _ _ _ _ hd (within_cons _ _ _ _ _ _ ⟨he.1, e1⟩
      (within_cons _ _ _ _ _ _ (by omega) (within_cons _ _ _ _ _ _ bL0
      (within_cons _ _ _ _ _ _ (by omega) (within_cons _ _ _ _ _ _ (by unfold U64; omega) (within_cons _ _ _ _ _ _ bL1
      (within_cons _ _ _ _ _ _ (by omega) (within_cons _ _ _ _ _ _ (by unfold U64; omega) (within_cons _ _ _ _ _ _ bL2
      (within_cons _ _ _ _ _ _ (by omega) (within_cons _ _ _ _ _ _ (by unfold U64; omega) (within_cons _ _ _ _ _ _ bL3
      (within_cons _ _ _ _ _ _ (by omega) (within_cons _ _ _ _ _ _ (by omega) (within_cons _ _ _ _ _ _ bL4
      within_nil)))))))))))))))))))))))
  have g := check_sound lshP cfgLsh lsh_check _ rfl hwi (sideOK_of_none _ _ rfl)
  have hout := outputs_true_eq lshP cfgLsh _ g
  have o0 := bnd _ _ _ g 0 0 (2 ^ 64 - 1) 44 (by decide) rfl rfl rfl
  have o1 := bnd _ _ _ g 1 0 (2 ^ 64 - 1) 46 (by decide) rfl rfl rfl
  have o2 := bnd _ _ _ g 2 0 (2 ^ 64 - 1) 48 (by decide) rfl rfl rfl
  have o3 := bnd _ _ _ g 3 0 (2 ^ 64 - 1) 50 (by decide) rfl rfl rfl
  have o4 := bnd _ _ _ g 4 0 3 51 (by decide) rfl rfl rfl
  have id1 := Int.eq_of_sub_eq_zero (Int.zero_dvd.mp g.value)
  simp only [cfgLsh, weightedSum, evalPoly, evalMono, D, List.getD_cons_zero, List.getD_cons_succ] at id1
  show Mid (lshP.outputs true _) ∧ ∃ q : Int, 0 ≤ q ∧ sval (lshP.outputs true _) = _
  rw [hout, show lshP.outs = [44, 46, 48, 50, 51] from rfl]
  show Mid [_, _, _, _, _] ∧ ∃ q : Int, 0 ≤ q ∧ sval [_, _, _, _, _] = _
  rw [sval5, sval5]
  generalize Prog.val _ _ = ρ at *
  norm_num at id1
  obtain ⟨q1, q2⟩ := C18A.lsh8_arith (L0 + 2 ^ 64 * L1 + 2 ^ 128 * L2 + 2 ^ 192 * L3) L4
    (ρ 44 + 2 ^ 64 * ρ 46 + 2 ^ 128 * ρ 48 + 2 ^ 192 * ρ 50) (ρ 51)
    (by constructor <;> omega) bL4 (by constructor <;> omega) o4.1 (by linarith)
  refine ⟨⟨slim_mk _ _ _ _ _ o0 o1 o2 o3 ⟨o4.1, by omega⟩, q1, ?_⟩, L4, bL4.1, ?_⟩
  · intro h; rw [low5]; exact q2 h
  · unfold N; linarith

end Sc
end C18
