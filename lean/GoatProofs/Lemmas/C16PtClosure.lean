import GoatProofs.Lemmas.C16PtOps
/-
Closure of the textbook Edwards law: the sum of two curve points is a curve point (no group
hypothesis; the polynomial identity is found by `grind`'s commutative-ring solver).
-/
namespace C16Pt
open Spec.Edwards448
set_option exponentiation.threshold 1000

theorem closure_field {K : Type} [Field K] (d x1 y1 x2 y2 ip im : K)
    (c1 : x1 ^ 2 + y1 ^ 2 = 1 + d * x1 ^ 2 * y1 ^ 2) (c2 : x2 ^ 2 + y2 ^ 2 = 1 + d * x2 ^ 2 * y2 ^ 2)
    (hip : (1 + d * x1 * x2 * y1 * y2) * ip = 1) (him : (1 - d * x1 * x2 * y1 * y2) * im = 1) :
    ((x1 * y2 + y1 * x2) * ip) ^ 2 + ((y1 * y2 - x1 * x2) * im) ^ 2 =
      1 + d * ((x1 * y2 + y1 * x2) * ip) ^ 2 * ((y1 * y2 - x1 * x2) * im) ^ 2 := by
  grind

/-- CLOSURE: the textbook sum of two curve points is a curve point (canonical coordinates, curve
    equation).  Hypothesis: p prime. -/
theorem add_onCurve (hp : Nat.Prime q) {a b : AffinePoint} (ha : OnCurve a) (hb : OnCurve b) :
    OnCurve (Spec.Edwards448.add a b) := by
  have : Fact (Nat.Prime q) := ⟨hp⟩
  have c1 := onCurve_F ha
  have c2 := onCurve_F hb
  obtain ⟨dp, dm⟩ := edwards_complete ((d : ℤ) : F) (d_nonsquare hp) two_ne_zero_F c1 c2
  have hpp : 0 < p := by decide +kernel
  refine ⟨?_, ?_, ?_⟩
  · unfold Spec.Edwards448.add; exact ⟨Int.emod_nonneg _ (ne_of_gt hpp), Int.emod_lt_of_pos _ hpp⟩
  · unfold Spec.Edwards448.add; exact ⟨Int.emod_nonneg _ (ne_of_gt hpp), Int.emod_lt_of_pos _ hpp⟩
  · rw [emod_eq_iff]; push_cast
    rw [add_x_F hp, add_y_F hp]
    have := closure_field ((d : ℤ) : F) (a.x : F) (a.y : F) (b.x : F) (b.y : F) _ _ c1 c2
      (mul_inv_cancel₀ dp) (mul_inv_cancel₀ dm)
    linear_combination this

end C16Pt
