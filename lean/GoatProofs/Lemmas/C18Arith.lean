import Mathlib.Tactic.Ring
import Mathlib.Tactic.Linarith
/-
C18 — the small integer lemmas behind the value-level (canonical range / no additional carry)
clauses.  Each is stated over plain `Int` unknowns; the kernel-checked identities of C18.lean supply
the hypotheses.
-/
namespace C18A
set_option exponentiation.threshold 2000

/-- `reduce`: the carry chain decides `v + K ≥ 2^256`; the second chain adds `c·K`; the final
    `v.l3 += c` wraps exactly when `c = 1` (the carry out of 2^256 is dropped on purpose). -/
theorem reduce_arith (a b c d m0 m1 m2 d3 c1 c2 c3 c4 m3 : Int)
    (ha0 : 0 ≤ a) (ha1 : a ≤ 2 ^ 64 - 1) (hb0 : 0 ≤ b) (hb1 : b ≤ 2 ^ 64 - 1)
    (hc0 : 0 ≤ c) (hc1 : c ≤ 2 ^ 64 - 1) (hd0 : 0 ≤ d) (hd1 : d ≤ 2 ^ 64 - 1)
    (hm00 : 0 ≤ m0) (hm01 : m0 ≤ 2 ^ 64 - 1) (hm10 : 0 ≤ m1) (hm11 : m1 ≤ 2 ^ 64 - 1)
    (hm20 : 0 ≤ m2) (hm21 : m2 ≤ 2 ^ 64 - 1) (hd30 : 0 ≤ d3) (hd31 : d3 ≤ 1)
    (h1 : c1 = (a + 4294968273 + 0) / 2 ^ 64) (h2 : c2 = (b + 0 + c1) / 2 ^ 64)
    (h3 : c3 = (c + 0 + c2) / 2 ^ 64) (h4 : c4 = (d + 0 + c3) / 2 ^ 64)
    (hm3 : m3 = (d + d3) % 2 ^ 64)
    (hid : m0 + 2 ^ 64 * m1 + 2 ^ 128 * m2 + 2 ^ 192 * d3 - 4294968273 * c4 = a + 2 ^ 64 * b + 2 ^ 128 * c) :
    0 ≤ m3 ∧ m3 ≤ 2 ^ 64 - 1 ∧
    m0 + 2 ^ 64 * m1 + 2 ^ 128 * m2 + 2 ^ 192 * m3 < 2 ^ 256 - 2 ^ 32 - 977 ∧
    m0 + 2 ^ 64 * m1 + 2 ^ 128 * m2 + 2 ^ 192 * m3 = (a + 2 ^ 64 * b + 2 ^ 128 * c + 2 ^ 192 * d) % (2 ^ 256 - 2 ^ 32 - 977) := by
  have e1 : c1 = 0 ∨ c1 = 1 := by omega
  have e2 : c2 = 0 ∨ c2 = 1 := by omega
  have e3 : c3 = 0 ∨ c3 = 1 := by omega
  have e4 : c4 = 0 ∨ c4 = 1 := by omega
  -- the carry chain decides v + K ≥ 2^256
  have hc4 : (c4 = 1 → 2 ^ 256 ≤ a + 2 ^ 64 * b + 2 ^ 128 * c + 2 ^ 192 * d + 4294968273) ∧
             (c4 = 0 → a + 2 ^ 64 * b + 2 ^ 128 * c + 2 ^ 192 * d + 4294968273 < 2 ^ 256) := by
    rcases e1 with e1 | e1 <;> rcases e2 with e2 | e2 <;> rcases e3 with e3 | e3 <;>
      rw [e1] at h2 h1 <;> rw [e2] at h3 h2 <;> rw [e3] at h4 h3 <;> omega
  obtain ⟨e, he⟩ : ∃ e, e = (d + d3) / 2 ^ 64 := ⟨_, rfl⟩
  have hm3' : m3 = d + d3 - 2 ^ 64 * e := by omega
  have hm3r : 0 ≤ m3 ∧ m3 ≤ 2 ^ 64 - 1 := by omega
  have he01 : e = 0 ∨ e = 1 := by omega
  have hR : m0 + 2 ^ 64 * m1 + 2 ^ 128 * m2 + 2 ^ 192 * m3
      = a + 2 ^ 64 * b + 2 ^ 128 * c + 2 ^ 192 * d + 4294968273 * c4 - 2 ^ 256 * e := by
    rw [hm3']; linarith
  have hRr : 0 ≤ m0 + 2 ^ 64 * m1 + 2 ^ 128 * m2 + 2 ^ 192 * m3 ∧
      m0 + 2 ^ 64 * m1 + 2 ^ 128 * m2 + 2 ^ 192 * m3 < 2 ^ 256 := by omega
  have hV : a + 2 ^ 64 * b + 2 ^ 128 * c + 2 ^ 192 * d < 2 ^ 256 := by omega
  have hec : e = c4 := by
    rcases e4 with e4 | e4
    · have := hc4.2 e4; rcases he01 with h | h <;> omega
    · have := hc4.1 e4; rcases he01 with h | h <;> omega
  have hlt : m0 + 2 ^ 64 * m1 + 2 ^ 128 * m2 + 2 ^ 192 * m3 < 2 ^ 256 - 2 ^ 32 - 977 := by
    rcases e4 with e4 | e4
    · have := hc4.2 e4; omega
    · have := hc4.1 e4; omega
  refine ⟨hm3r.1, hm3r.2, hlt, ?_⟩
  have : a + 2 ^ 64 * b + 2 ^ 128 * c + 2 ^ 192 * d
      = (m0 + 2 ^ 64 * m1 + 2 ^ 128 * m2 + 2 ^ 192 * m3) + (2 ^ 256 - 2 ^ 32 - 977) * c4 := by
    rw [hR, hec]; ring
  rw [this, Int.add_mul_emod_self_left, Int.emod_eq_of_lt hRr.1 hlt]

/-- `Add`: after folding `c·(2^256 − p)` there is no carry out of `l3` when `x, y < p` -/
theorem add_side (X Y s0 s1 s2 s3 c4 m0 m1 m2 d3 : Int)
    (hX : X < 2 ^ 256 - 2 ^ 32 - 977) (hY : Y < 2 ^ 256 - 2 ^ 32 - 977)
    (hs00 : 0 ≤ s0) (hs01 : s0 ≤ 2 ^ 64 - 1) (hs10 : 0 ≤ s1) (hs11 : s1 ≤ 2 ^ 64 - 1)
    (hs20 : 0 ≤ s2) (hs21 : s2 ≤ 2 ^ 64 - 1) (hs30 : 0 ≤ s3) (hs31 : s3 ≤ 2 ^ 64 - 1)
    (hc0 : 0 ≤ c4) (hc1 : c4 ≤ 1)
    (hm00 : 0 ≤ m0) (hm01 : m0 ≤ 2 ^ 64 - 1) (hm10 : 0 ≤ m1) (hm11 : m1 ≤ 2 ^ 64 - 1)
    (hm20 : 0 ≤ m2) (hm21 : m2 ≤ 2 ^ 64 - 1) (hd0 : 0 ≤ d3) (hd1 : d3 ≤ 1)
    (id1 : s0 + 2 ^ 64 * s1 + 2 ^ 128 * s2 + 2 ^ 192 * s3 + 2 ^ 256 * c4 = X + Y)
    (id2 : m0 + 2 ^ 64 * m1 + 2 ^ 128 * m2 + 2 ^ 192 * d3 - s0 - 2 ^ 64 * s1 - 2 ^ 128 * s2 - 4294968273 * c4 = 0) :
    s3 + d3 ≤ 2 ^ 64 - 1 := by
  have e4 : c4 = 0 ∨ c4 = 1 := by omega
  have e5 : d3 = 0 ∨ d3 = 1 := by omega
  rcases e4 with e4 | e4 <;> rcases e5 with e5 | e5 <;> subst e4 <;> subst e5 <;> omega


/-- the carry chain of the comparison with p:  c₄ = 1 ⇔ v + (2^256 − p) ≥ 2^256 ⇔ v ≥ p -/
theorem cmp_chain (a b c d c1 c2 c3 c4 : Int)
    (ha0 : 0 ≤ a) (ha1 : a ≤ 2 ^ 64 - 1) (hb0 : 0 ≤ b) (hb1 : b ≤ 2 ^ 64 - 1)
    (hc0 : 0 ≤ c) (hc1 : c ≤ 2 ^ 64 - 1) (hd0 : 0 ≤ d) (hd1 : d ≤ 2 ^ 64 - 1)
    (h1 : c1 = (a + 4294968273 + 0) / 2 ^ 64) (h2 : c2 = (b + 0 + c1) / 2 ^ 64)
    (h3 : c3 = (c + 0 + c2) / 2 ^ 64) (h4 : c4 = (d + 0 + c3) / 2 ^ 64) :
    (c4 = 0 ∨ c4 = 1) ∧
    (c4 = 0 ↔ a + 2 ^ 64 * b + 2 ^ 128 * c + 2 ^ 192 * d < 2 ^ 256 - 2 ^ 32 - 977) := by
  have e1 : c1 = 0 ∨ c1 = 1 := by omega
  have e2 : c2 = 0 ∨ c2 = 1 := by omega
  have e3 : c3 = 0 ∨ c3 = 1 := by omega
  have e4 : c4 = 0 ∨ c4 = 1 := by omega
  refine ⟨e4, ?_⟩
  rcases e1 with e1 | e1 <;> rcases e2 with e2 | e2 <;> rcases e3 with e3 | e3 <;>
    rw [e1] at h2 h1 <;> rw [e2] at h3 h2 <;> rw [e3] at h4 h3 <;> rcases e4 with e4 | e4 <;>
    rw [e4] at h4 ⊢ <;> constructor <;> intro _ <;> omega

end C18A
