import Mathlib.Tactic.Ring
import Mathlib.Tactic.Linarith
/-
C18 — the small integer lemmas behind the value-level (canonical range / no additional carry)
clauses.  Each is stated over plain `Int` unknowns; the kernel-checked identities of C18.lean supply
the hypotheses.
-/
namespace C18A
set_option exponentiation.threshold 2000

/-- `reduce`: the carry chain decides `v + K ≥ 2^256`; the second chain adds `c·K`; the final
    `v.l3 += c` wraps exactly when `c = 1` (the carry out of 2^256 is dropped on purpose). -/
theorem reduce_arith (a b c d m0 m1 m2 d3 c1 c2 c3 c4 m3 : Int)
    (ha0 : 0 ≤ a) (ha1 : a ≤ 2 ^ 64 - 1) (hb0 : 0 ≤ b) (hb1 : b ≤ 2 ^ 64 - 1)
    (hc0 : 0 ≤ c) (hc1 : c ≤ 2 ^ 64 - 1) (hd0 : 0 ≤ d) (hd1 : d ≤ 2 ^ 64 - 1)
    (hm00 : 0 ≤ m0) (hm01 : m0 ≤ 2 ^ 64 - 1) (hm10 : 0 ≤ m1) (hm11 : m1 ≤ 2 ^ 64 - 1)
    (hm20 : 0 ≤ m2) (hm21 : m2 ≤ 2 ^ 64 - 1) (hd30 : 0 ≤ d3) (hd31 : d3 ≤ 1)
    (h1 : c1 = (a + 4294968273 + 0) / 2 ^ 64) (h2 : c2 = (b + 0 + c1) / 2 ^ 64)
    (h3 : c3 = (c + 0 + c2) / 2 ^ 64) (h4 : c4 = (d + 0 + c3) / 2 ^ 64)
    (hm3 : m3 = (d + d3) % 2 ^ 64)
    (hid : m0 + 2 ^ 64 * m1 + 2 ^ 128 * m2 + 2 ^ 192 * d3 - 4294968273 * c4 = a + 2 ^ 64 * b + 2 ^ 128 * c) :
    0 ≤ m3 ∧ m3 ≤ 2 ^ 64 - 1 ∧
    m0 + 2 ^ 64 * m1 + 2 ^ 128 * m2 + 2 ^ 192 * m3 < 2 ^ 256 - 2 ^ 32 - 977 ∧
    m0 + 2 ^ 64 * m1 + 2 ^ 128 * m2 + 2 ^ 192 * m3 = (a + 2 ^ 64 * b + 2 ^ 128 * c + 2 ^ 192 * d) % (2 ^ 256 - 2 ^ 32 - 977) := by
  have e1 : c1 = 0 ∨ c1 = 1 := by omega
  have e2 : c2 = 0 ∨ c2 = 1 := by omega
  have e3 : c3 = 0 ∨ c3 = 1 := by omega
  have e4 : c4 = 0 ∨ c4 = 1 := by omega
  -- the carry chain decides v + K ≥ 2^256
  have hc4 : (c4 = 1 → 2 ^ 256 ≤ a + 2 ^ 64 * b + 2 ^ 128 * c + 2 ^ 192 * d + 4294968273) ∧
             (c4 = 0 → a + 2 ^ 64 * b + 2 ^ 128 * c + 2 ^ 192 * d + 4294968273 < 2 ^ 256) := by
    rcases e1 with e1 | e1 <;> rcases e2 with e2 | e2 <;> rcases e3 with e3 | e3 <;>
      rw [e1] at h2 h1 <;> rw [e2] at h3 h2 <;> rw [e3] at h4 h3 <;> omega
  obtain ⟨e, he⟩ : ∃ e, e = (d + d3) / 2 ^ 64 := ⟨_, rfl⟩
  have hm3' : m3 = d + d3 - 2 ^ 64 * e := by omega
  have hm3r : 0 ≤ m3 ∧ m3 ≤ 2 ^ 64 - 1 := by omega
  have he01 : e = 0 ∨ e = 1 := by omega
  have hR : m0 + 2 ^ 64 * m1 + 2 ^ 128 * m2 + 2 ^ 192 * m3
      = a + 2 ^ 64 * b + 2 ^ 128 * c + 2 ^ 192 * d + 4294968273 * c4 - 2 ^ 256 * e := by
    rw [hm3']; linarith
  have hRr : 0 ≤ m0 + 2 ^ 64 * m1 + 2 ^ 128 * m2 + 2 ^ 192 * m3 ∧
      m0 + 2 ^ 64 * m1 + 2 ^ 128 * m2 + 2 ^ 192 * m3 < 2 ^ 256 := by omega
  have hV : a + 2 ^ 64 * b + 2 ^ 128 * c + 2 ^ 192 * d < 2 ^ 256 := by omega
  have hec : e = c4 := by
    rcases e4 with e4 | e4
    · have := hc4.2 e4; rcases he01 with h | h <;> omega
    · have := hc4.1 e4; rcases he01 with h | h <;> omega
  have hlt : m0 + 2 ^ 64 * m1 + 2 ^ 128 * m2 + 2 ^ 192 * m3 < 2 ^ 256 - 2 ^ 32 - 977 := by
    rcases e4 with e4 | e4
    · have := hc4.2 e4; omega
    · have := hc4.1 e4; omega
  refine ⟨hm3r.1, hm3r.2, hlt, ?_⟩
  have : a + 2 ^ 64 * b + 2 ^ 128 * c + 2 ^ 192 * d
      = (m0 + 2 ^ 64 * m1 + 2 ^ 128 * m2 + 2 ^ 192 * m3) + (2 ^ 256 - 2 ^ 32 - 977) * c4 := by
    rw [hR, hec]; ring
  rw [this, Int.add_mul_emod_self_left, Int.emod_eq_of_lt hRr.1 hlt]

/-- `Add`: after folding `c·(2^256 − p)` there is no carry out of `l3` when `x, y < p` -/
theorem add_side (X Y s0 s1 s2 s3 c4 m0 m1 m2 d3 : Int)
    (hX : X < 2 ^ 256 - 2 ^ 32 - 977) (hY : Y < 2 ^ 256 - 2 ^ 32 - 977)
    (hs00 : 0 ≤ s0) (hs01 : s0 ≤ 2 ^ 64 - 1) (hs10 : 0 ≤ s1) (hs11 : s1 ≤ 2 ^ 64 - 1)
    (hs20 : 0 ≤ s2) (hs21 : s2 ≤ 2 ^ 64 - 1) (hs30 : 0 ≤ s3) (hs31 : s3 ≤ 2 ^ 64 - 1)
    (hc0 : 0 ≤ c4) (hc1 : c4 ≤ 1)
    (hm00 : 0 ≤ m0) (hm01 : m0 ≤ 2 ^ 64 - 1) (hm10 : 0 ≤ m1) (hm11 : m1 ≤ 2 ^ 64 - 1)
    (hm20 : 0 ≤ m2) (hm21 : m2 ≤ 2 ^ 64 - 1) (hd0 : 0 ≤ d3) (hd1 : d3 ≤ 1)
    (id1 : s0 + 2 ^ 64 * s1 + 2 ^ 128 * s2 + 2 ^ 192 * s3 + 2 ^ 256 * c4 = X + Y)
    (id2 : m0 + 2 ^ 64 * m1 + 2 ^ 128 * m2 + 2 ^ 192 * d3 - s0 - 2 ^ 64 * s1 - 2 ^ 128 * s2 - 4294968273 * c4 = 0) :
    s3 + d3 ≤ 2 ^ 64 - 1 := by
  have e4 : c4 = 0 ∨ c4 = 1 := by omega
  have e5 : d3 = 0 ∨ d3 = 1 := by omega
  rcases e4 with e4 | e4 <;> rcases e5 with e5 | e5 <;> subst e4 <;> subst e5 <;> omega


/-- the carry chain of the comparison with p:  c₄ = 1 ⇔ v + (2^256 − p) ≥ 2^256 ⇔ v ≥ p -/
theorem cmp_chain (a b c d c1 c2 c3 c4 : Int)
    (ha0 : 0 ≤ a) (ha1 : a ≤ 2 ^ 64 - 1) (hb0 : 0 ≤ b) (hb1 : b ≤ 2 ^ 64 - 1)
    (hc0 : 0 ≤ c) (hc1 : c ≤ 2 ^ 64 - 1) (hd0 : 0 ≤ d) (hd1 : d ≤ 2 ^ 64 - 1)
    (h1 : c1 = (a + 4294968273 + 0) / 2 ^ 64) (h2 : c2 = (b + 0 + c1) / 2 ^ 64)
    (h3 : c3 = (c + 0 + c2) / 2 ^ 64) (h4 : c4 = (d + 0 + c3) / 2 ^ 64) :
    (c4 = 0 ∨ c4 = 1) ∧
    (c4 = 0 ↔ a + 2 ^ 64 * b + 2 ^ 128 * c + 2 ^ 192 * d < 2 ^ 256 - 2 ^ 32 - 977) := by
  have e1 : c1 = 0 ∨ c1 = 1 := by omega
  have e2 : c2 = 0 ∨ c2 = 1 := by omega
  have e3 : c3 = 0 ∨ c3 = 1 := by omega
  have e4 : c4 = 0 ∨ c4 = 1 := by omega
  refine ⟨e4, ?_⟩
  rcases e1 with e1 | e1 <;> rcases e2 with e2 | e2 <;> rcases e3 with e3 | e3 <;>
    rw [e1] at h2 h1 <;> rw [e2] at h3 h2 <;> rw [e3] at h4 h3 <;> rcases e4 with e4 | e4 <;>
    rw [e4] at h4 ⊢ <;> constructor <;> intro _ <;> omega

/-- `Mul`/`Square`: the final `r3 += c` of the second reduction pass cannot overflow.
    Hypotheses = kernel-checked exact identities of single steps (carries are atoms) + word ranges. -/
theorem mul_side (r8A w4 w5 w6 w7 w4' w5' w6' w7' f8 G f4 c7 c8 c9 a3 e s5 f7 s7 e8 s8 e9 s9
      t0 t1 t2 u0 u1 u2 c10 : Int)
    (hr8 : r8A = 0)
    (b1 : 0 ≤ w4 ∧ w4 ≤ 2 ^ 64 - 1) (b2 : 0 ≤ w5 ∧ w5 ≤ 2 ^ 64 - 1) (b3 : 0 ≤ w6 ∧ w6 ≤ 2 ^ 64 - 1)
    (b4 : 0 ≤ w7 ∧ w7 ≤ 2 ^ 64 - 1) (b5 : 0 ≤ w4' ∧ w4' ≤ 2 ^ 64 - 1) (b6 : 0 ≤ w5' ∧ w5' ≤ 2 ^ 64 - 1)
    (b7 : 0 ≤ w6' ∧ w6' ≤ 2 ^ 64 - 1) (b8 : 0 ≤ w7' ∧ w7' ≤ 2 ^ 64 - 1) (b9 : 0 ≤ f8 ∧ f8 ≤ 1)
    (b10 : 0 ≤ f4 ∧ f4 ≤ 1) (b11 : 0 ≤ c7 ∧ c7 ≤ 1) (b12 : 0 ≤ c8 ∧ c8 ≤ 1) (b13 : 0 ≤ c9 ∧ c9 ≤ 1)
    (b14 : 0 ≤ a3 ∧ a3 ≤ 2 ^ 64 - 1) (b15 : 0 ≤ e ∧ e ≤ 1) (b16 : 0 ≤ s5 ∧ s5 ≤ 2 ^ 64 - 1)
    (b17 : 0 ≤ f7 ∧ f7 ≤ 1) (b18 : 0 ≤ s7 ∧ s7 ≤ 2 ^ 64 - 1) (b19 : 0 ≤ e8 ∧ e8 ≤ 1)
    (b20 : 0 ≤ s8 ∧ s8 ≤ 2 ^ 64 - 1) (b21 : 0 ≤ e9 ∧ e9 ≤ 1) (b22 : 0 ≤ s9 ∧ s9 ≤ 2 ^ 64 - 1)
    (b23 : 0 ≤ t0 ∧ t0 ≤ 2 ^ 64 - 1) (b24 : 0 ≤ t1 ∧ t1 ≤ 2 ^ 64 - 1) (b25 : 0 ≤ t2 ∧ t2 ≤ 2 ^ 64 - 1)
    (b26 : 0 ≤ u0 ∧ u0 ≤ 2 ^ 64 - 1) (b27 : 0 ≤ u1 ∧ u1 ≤ 2 ^ 64 - 1) (b28 : 0 ≤ u2 ∧ u2 ≤ 2 ^ 64 - 1)
    (b29 : 0 ≤ c10 ∧ c10 ≤ 1) (b30 : 0 ≤ G)
    (H2 : w4' + 2 ^ 64 * w5' + 2 ^ 128 * w6' + 2 ^ 192 * w7' + 2 ^ 256 * f8
        = w4 + 2 ^ 64 * w5 + 2 ^ 128 * w6 + 2 ^ 192 * w7 + 4294968273 * r8A)
    (H3 : G = f4 + c7 + c8 + c9 + 4294968273 * f8)
    (H4 : s5 + 2 ^ 64 * f4 = a3 + e)
    (H5 : s7 + 2 ^ 64 * c7 = s5 + 4294968273 * f7)
    (H6 : s8 + 2 ^ 64 * c8 = s7 + e8)
    (H7 : s9 + 2 ^ 64 * c9 = s8 + e9)
    (H8 : u0 + 2 ^ 64 * u1 + 2 ^ 128 * u2 + 2 ^ 192 * c10 = t0 + 2 ^ 64 * t1 + 2 ^ 128 * t2 + 4294968273 * G) :
    s9 + c10 ≤ 2 ^ 64 - 1 := by
  subst hr8
  have hf8 : f8 = 0 := by omega
  subst hf8
  have e1 : f4 = 0 ∨ f4 = 1 := by omega
  have e2 : c7 = 0 ∨ c7 = 1 := by omega
  have e3 : c8 = 0 ∨ c8 = 1 := by omega
  have e4 : c9 = 0 ∨ c9 = 1 := by omega
  have e5 : c10 = 0 ∨ c10 = 1 := by omega
  rcases e5 with e5 | e5
  · omega
  · -- c10 = 1 forces G ≥ 1, and then r3 is small
    have hG : 1 ≤ G := by
      by_contra h
      have : G = 0 := by omega
      subst this; subst e5; omega
    rcases e4 with e4 | e4
    · rcases e3 with e3 | e3
      · rcases e2 with e2 | e2
        · have : f4 = 1 := by omega
          subst this; subst e2; subst e3; subst e4; omega
        · subst e2; subst e3; subst e4; omega
      · subst e3; subst e4; omega
    · subst e4; omega

/-- scalar `Lsh8`: shifted low part + L4·(2^256 − n) overflows 2^256 at most once, and then the low part is small -/
theorem lsh8_arith (SL L4 lo c0 : Int) (hSL : 0 ≤ SL ∧ SL < 2 ^ 256) (hL4 : 0 ≤ L4 ∧ L4 ≤ 511)
    (hlo : 0 ≤ lo ∧ lo < 2 ^ 256) (hc0 : 0 ≤ c0)
    (hid : lo + 2 ^ 256 * c0 = SL + 432420386565659656852420866394968145599 * L4) :
    c0 ≤ 1 ∧ (c0 = 1 → lo < 2 ^ 140) := by
  constructor
  · omega
  · intro h; subst h; omega

/-- scalar `Add8` -/
theorem add8_arith (lowin v4 u lo o4 : Int) (hlow : 0 ≤ lowin ∧ lowin < 2 ^ 256) (hv4 : 0 ≤ v4 ∧ v4 ≤ 1)
    (hrel : v4 = 1 → lowin < 2 ^ 140) (hu : 0 ≤ u ∧ u ≤ 255) (hlo : 0 ≤ lo ∧ lo < 2 ^ 256) (ho4 : 0 ≤ o4)
    (hid : lo + 2 ^ 256 * o4 = lowin + 2 ^ 256 * v4 + u) :
    o4 ≤ 1 ∧ (o4 = 1 → lo < 2 ^ 141) := by
  have : v4 = 0 ∨ v4 = 1 := by omega
  rcases this with h | h
  · subst h; constructor
    · omega
    · intro h1; subst h1; omega
  · have := hrel h; subst h; constructor
    · omega
    · intro h1; subst h1; omega

/-- the carry chain of the comparison with n:  c₄ = 1 ⇔ t + (2^256 − n) ≥ 2^256 -/
theorem cmp_chain_n (a b c d c1 c2 c3 c4 : Int)
    (ha0 : 0 ≤ a) (ha1 : a ≤ 2 ^ 64 - 1) (hb0 : 0 ≤ b) (hb1 : b ≤ 2 ^ 64 - 1)
    (hc0 : 0 ≤ c) (hc1 : c ≤ 2 ^ 64 - 1) (hd0 : 0 ≤ d) (hd1 : d ≤ 2 ^ 64 - 1)
    (h1 : c1 = (a + 4624529908474429119 + 0) / 2 ^ 64) (h2 : c2 = (b + 4994812053365940164 + c1) / 2 ^ 64)
    (h3 : c3 = (c + 1 + c2) / 2 ^ 64) (h4 : c4 = (d + 0 + c3) / 2 ^ 64) :
    (c4 = 0 ∨ c4 = 1) ∧
    (c4 = 0 ↔ a + 2 ^ 64 * b + 2 ^ 128 * c + 2 ^ 192 * d + 432420386565659656852420866394968145599 < 2 ^ 256) := by
  have e1 : c1 = 0 ∨ c1 = 1 := by omega
  have e2 : c2 = 0 ∨ c2 = 1 := by omega
  have e3 : c3 = 0 ∨ c3 = 1 := by omega
  have e4 : c4 = 0 ∨ c4 = 1 := by omega
  refine ⟨e4, ?_⟩
  rcases e1 with e1 | e1 <;> rcases e2 with e2 | e2 <;> rcases e3 with e3 | e3 <;>
    rw [e1] at h2 h1 <;> rw [e2] at h3 h2 <;> rw [e3] at h4 h3 <;> rcases e4 with e4 | e4 <;>
    rw [e4] at h4 ⊢ <;> constructor <;> intro _ <;> omega

/-- scalar `reduce`: fold of l4, comparison with n, conditional subtraction -/
theorem screduce_arith (low l4 T cs c0 R c43 : Int)
    (hlow : 0 ≤ low ∧ low < 2 ^ 256) (hl4 : 0 ≤ l4 ∧ l4 ≤ 1) (hrel : l4 = 1 → low < 2 ^ 141)
    (hT : 0 ≤ T ∧ T < 2 ^ 256) (hcs : 0 ≤ cs) (hR : 0 ≤ R ∧ R < 2 ^ 256) (hc43 : 0 ≤ c43 ∧ c43 ≤ 1)
    (hc0 : c0 = 0 ∨ c0 = 1)
    (hc0' : c0 = 0 ↔ T + 432420386565659656852420866394968145599 < 2 ^ 256)
    (id1 : T + 2 ^ 256 * cs = low + 432420386565659656852420866394968145599 * l4)
    (id3 : R + 2 ^ 256 * c43 = T + 432420386565659656852420866394968145599 * c0) :
    R < 115792089237316195423570985008687907852837564279074904382605163141518161494337 ∧
    R = (low + 2 ^ 256 * l4) % 115792089237316195423570985008687907852837564279074904382605163141518161494337 := by
  have hcs0 : cs = 0 := by
    have : l4 = 0 ∨ l4 = 1 := by omega
    rcases this with h | h
    · subst h; omega
    · have := hrel h; subst h; omega
  subst hcs0
  have hRlt : R < 115792089237316195423570985008687907852837564279074904382605163141518161494337 := by
    rcases hc0 with h | h
    · have := hc0'.mp h; subst h; omega
    · have : ¬ (T + 432420386565659656852420866394968145599 < 2 ^ 256) := fun hh => by
        have := hc0'.mpr hh; omega
      subst h; omega
  refine ⟨hRlt, ?_⟩
  have hq : c43 = c0 := by
    rcases hc0 with h | h
    · have := hc0'.mp h; subst h; omega
    · have : ¬ (T + 432420386565659656852420866394968145599 < 2 ^ 256) := fun hh => by
        have := hc0'.mpr hh; omega
      subst h; omega
  have : low + 2 ^ 256 * l4 = R + 115792089237316195423570985008687907852837564279074904382605163141518161494337 * (l4 + c0) := by
    rw [hq] at id3
    linarith
  rw [this, Int.add_mul_emod_self_left, Int.emod_eq_of_lt hR.1 hRlt]

/-- scalar `Lsh8`, the shift: the five words `vᵢ<<8 | vᵢ₋₁>>56` hold exactly 256·v -/
theorem shift_arith (a b c d e L0 L1 L2 L3 L4 : Int)
    (ha : 0 ≤ a ∧ a ≤ 2 ^ 64 - 1) (hb : 0 ≤ b ∧ b ≤ 2 ^ 64 - 1) (hc : 0 ≤ c ∧ c ≤ 2 ^ 64 - 1)
    (hd : 0 ≤ d ∧ d ≤ 2 ^ 64 - 1) (he : 0 ≤ e ∧ e ≤ 1)
    (h0 : L0 = (a * 2 ^ 8) % 2 ^ 64) (h1 : L1 = (b * 2 ^ 8) % 2 ^ 64 + a / 2 ^ 56)
    (h2 : L2 = (c * 2 ^ 8) % 2 ^ 64 + b / 2 ^ 56) (h3 : L3 = (d * 2 ^ 8) % 2 ^ 64 + c / 2 ^ 56)
    (h4 : L4 = (e * 2 ^ 8) % 2 ^ 64 + d / 2 ^ 56) :
    (0 ≤ L0 ∧ L0 ≤ 2 ^ 64 - 1) ∧ (0 ≤ L1 ∧ L1 ≤ 2 ^ 64 - 1) ∧ (0 ≤ L2 ∧ L2 ≤ 2 ^ 64 - 1) ∧
    (0 ≤ L3 ∧ L3 ≤ 2 ^ 64 - 1) ∧ (0 ≤ L4 ∧ L4 ≤ 511) ∧
    L0 + 2 ^ 64 * L1 + 2 ^ 128 * L2 + 2 ^ 192 * L3 + 2 ^ 256 * L4
      = 256 * (a + 2 ^ 64 * b + 2 ^ 128 * c + 2 ^ 192 * d + 2 ^ 256 * e) := by
  refine ⟨by omega, by omega, by omega, by omega, by omega, ?_⟩
  have e0 : L0 = 256 * a - 2 ^ 64 * (a / 2 ^ 56) := by omega
  have e1 : L1 = 256 * b - 2 ^ 64 * (b / 2 ^ 56) + a / 2 ^ 56 := by omega
  have e2 : L2 = 256 * c - 2 ^ 64 * (c / 2 ^ 56) + b / 2 ^ 56 := by omega
  have e3 : L3 = 256 * d - 2 ^ 64 * (d / 2 ^ 56) + c / 2 ^ 56 := by omega
  have e4 : L4 = 256 * e + d / 2 ^ 56 := by omega
  rw [e0, e1, e2, e3, e4]; ring

end C18A
