import Goat.Model.JWTClaims
/-
Lemmas about the `jsonutils.Decoder` model: a final state without a recorded error means that no
getter recorded one, i.e. every claim that was read was well-typed.
-/
namespace GoatProofs.Lemmas.C04Dec
open Model Model.JWTClaims

theorem save_err_ne_none (d : Dec) (c : String) : (d.save c).err ≠ none := by
  unfold Dec.save
  cases h : d.err <;> simp [h]

theorem save_raw (d : Dec) (c : String) : (d.save c).raw = d.raw := by
  unfold Dec.save
  cases h : d.err <;> simp

/-- GetString on a decoder that ends without error: nothing was recorded, and a present member is
    the returned string -/
theorem getString_ok (d : Dec) (n : String) (h : (getString d n).2.2.err = none) :
    (getString d n).2.2 = d ∧
    (∀ v, Wire.lookup n d.raw = some v → v = .str (getString d n).1) ∧
    (Wire.lookup n d.raw = none → (getString d n).1 = "") := by
  unfold getString at h ⊢
  cases hl : Wire.lookup n d.raw with
  | none => simp
  | some v =>
    cases v <;> simp_all [save_err_ne_none]

theorem getString_raw (d : Dec) (n : String) : (getString d n).2.2.raw = d.raw := by
  unfold getString
  split <;> simp [save_raw]

/-- an error, once recorded, stays -/
theorem getString_err_some (d : Dec) (n : String) (e : String) (h : d.err = some e) :
    (getString d n).2.2.err = some e := by
  unfold getString
  split <;> simp [Dec.save, h]

theorem getTime_ok (d : Dec) (n : String) (t : Int) (b : Bool) (d' : Dec)
    (h : getTime d n = .ok (t, b, d')) (he : d'.err = none) :
    d' = d ∧
    (∀ v, Wire.lookup n d.raw = some v → ∃ s, v = .num s ∧ NumericDate.decode s = .ok t ∧ b = true) ∧
    (Wire.lookup n d.raw = none → t = NumericDate.zeroTime ∧ b = false) := by
  unfold getTime at h
  cases hl : Wire.lookup n d.raw with
  | none =>
    rw [hl] at h
    simp at h
    obtain ⟨h1, h2, h3⟩ := h
    simp [h1, h2, h3]
  | some v =>
    rw [hl] at h
    cases v with
    | num s =>
      simp only at h
      cases hd : NumericDate.decode s with
      | ok t' =>
        rw [hd] at h
        simp at h
        obtain ⟨h1, h2, h3⟩ := h
        subst h1 h2 h3
        simp [hd]
      | err c =>
        rw [hd] at h
        simp at h
        obtain ⟨_, _, h3⟩ := h
        subst h3
        exact absurd he (save_err_ne_none _ _)
      | panic p => rw [hd] at h; simp at h
    | _ =>
      simp at h
      obtain ⟨_, _, h3⟩ := h
      subst h3
      exact absurd he (save_err_ne_none _ _)

theorem getTime_raw (d : Dec) (n : String) (t : Int) (b : Bool) (d' : Dec)
    (h : getTime d n = .ok (t, b, d')) : d'.raw = d.raw := by
  unfold getTime at h
  split at h
  · simp at h; simp [h.2.2.symm]
  · split at h <;> simp at h <;> simp [h.2.2.symm, save_raw]
  · simp at h; simp [h.2.2.symm, save_raw]

theorem getTime_err_some (d : Dec) (n : String) (t : Int) (b : Bool) (d' : Dec) (e : String)
    (h : getTime d n = .ok (t, b, d')) (hd : d.err = some e) : d'.err = some e := by
  unfold getTime at h
  split at h
  · simp at h; simp [h.2.2.symm, hd]
  · split at h <;> simp at h <;> simp [h.2.2.symm, Dec.save, hd]
  · simp at h; simp [h.2.2.symm, Dec.save, hd]

theorem audience_ok (d : Dec) (h : (audience d).2.err = none) :
    (audience d).2 = d ∧
    (∀ l, Wire.lookup "aud" d.raw = some (.arr l) → audBad l = false ∧ (audience d).1 = audElems l) ∧
    (∀ s, Wire.lookup "aud" d.raw = some (.str s) → (audience d).1 = [s]) := by
  unfold audience at h ⊢
  cases hl : Wire.lookup "aud" d.raw with
  | none => simp
  | some v =>
    cases v with
    | arr l =>
      simp only [hl] at h ⊢
      cases hb : audBad l with
      | true => simp [hb] at h; exact absurd h (save_err_ne_none _ _)
      | false => simp [hb]
    | _ => simp

theorem audience_raw (d : Dec) : (audience d).2.raw = d.raw := by
  unfold audience
  split
  · split <;> simp [save_raw]
  · rfl
  · rfl

theorem audience_err_some (d : Dec) (e : String) (h : d.err = some e) : (audience d).2.err = some e := by
  unfold audience
  split
  · split <;> simp [Dec.save, h]
  · exact h
  · exact h

end GoatProofs.Lemmas.C04Dec
