import GoatProofs.Lemmas.C19Step
import GoatProofs.Lemmas.C19Xor
/-
C19 helper lemmas, part 4: the three operations on the instance table, computed explicitly, and
the coupling between the IVs issued in the current epoch of an instance and its `(mask, counter)`.
-/
namespace Model.Rand

@[simp] theorem run_getInst (o : Oracle) (i : Nat) (s : St) :
    (getInst i).run o s = (match s.insts[i]? with
      | some g => (.ok g, s)
      | none => (.err "no-instance", s)) := by
  show Prog.run o (getInst i s) = _
  unfold getInst
  cases s.insts[i]? <;> rfl

@[simp] theorem run_setInst (o : Oracle) (i : Nat) (g : Gcm) (s : St) :
    (setInst i g).run o s = (.ok (), { s with insts := s.insts.set i g }) := rfl

@[simp] theorem run_pushInst (o : Oracle) (g : Gcm) (s : St) :
    (pushInst g).run o s = (.ok s.insts.length, { s with insts := s.insts ++ [g] }) := rfl

@[simp] theorem run_pushMsg (o : Oracle) (x : Msg) (s : St) :
    (pushMsg x).run o s = (.ok s.msgs.length, { s with msgs := s.msgs ++ [x] }) := rfl

@[simp] theorem run_getMsg (o : Oracle) (i : Nat) (s : St) :
    (getMsg i).run o s = (match s.msgs[i]? with
      | some g => (.ok g, s)
      | none => (.err "no-message", s)) := by
  show Prog.run o (getMsg i s) = _
  unfold getMsg
  cases s.msgs[i]? <;> rfl

theorem stepRun_newGcm (o : Oracle) (s : St) (e : Enc) :
    stepRun o s (.newGcm e) = (match e.gcmKeyLen? with
      | some k => (.ok [.inst s.insts.length], { s with insts := s.insts ++ [Gcm.new e k] })
      | none => (.err "not-gcm", s)) := by
  unfold stepRun
  simp only [step]
  cases e.gcmKeyLen? with
  | none => rfl
  | some k => simp [M.run_bind]

theorem stepRun_gcmCEK (o : Oracle) (s : St) (i : Nat) :
    stepRun o s (.gcmCEK i) = (match s.insts[i]? with
      | none => (.err "no-instance", s)
      | some g => match ask o s.pos g.keyLen with
        | none => (.err "rand", s)
        | some b => (.ok [.cek b], { s.push .cek b with insts := s.insts.set i { g with counter := 0 } })) := by
  unfold stepRun
  simp only [step, gcmGenerateCEK, M.run_bind, run_getInst, run_draw]
  cases s.insts[i]? with
  | none => rfl
  | some g =>
    simp only
    cases ask o s.pos g.keyLen with
    | none => rfl
    | some b => simp [St.push]

theorem stepRun_gcmIV (o : Oracle) (s : St) (i : Nat) :
    stepRun o s (.gcmIV i) = (match s.insts[i]? with
      | none => (.err "no-instance", s)
      | some g =>
        if g.counter = 0 then
          match ask o s.pos 12 with
          | none => (.err "rand", s)
          | some m => (.ok [.iv (xorCtr m 1)],
              { s.push .gcmMask m with insts := s.insts.set i { g with mask := m, counter := 1 } })
        else if (g.counter + 1) % 2 ^ 64 = 0 then (.err "gcm-counter-overflow", s)
        else (.ok [.iv (xorCtr g.mask ((g.counter + 1) % 2 ^ 64))],
              { s with insts := s.insts.set i { g with counter := (g.counter + 1) % 2 ^ 64 } })) := by
  unfold stepRun
  simp only [step, gcmGenerateIV, M.run_bind, run_getInst]
  cases s.insts[i]? with
  | none => rfl
  | some g =>
    simp only
    by_cases hc : g.counter = 0
    · simp only [hc, if_true, M.run_bind, run_draw, nonceSize]
      cases ask o s.pos 12 with
      | none => rfl
      | some m => simp [gcmFinishIV, St.push]
    · simp only [hc, if_false, M.run_pure]
      by_cases ho : (g.counter + 1) % 2 ^ 64 = 0
      · simp [gcmFinishIV, ho]
      · simp [gcmFinishIV, ho]

theorem ask_length {o : Oracle} {p n : Nat} {b : Bytes} (h : ask o p n = some b) : b.length = n :=
  (randAt_some h).2

/-- every other operation leaves the instance table alone -/
theorem stepRun_insts (o : Oracle) (s : St) (op : Op) (h : op.touchesInsts = false) :
    (stepRun o s op).2.insts = s.insts :=
  (step_frame sameFrame op h).run o s

/-! ### invariant and coupling -/

/-- every instance: 12-byte mask, counter in uint64 range, `keyLen` = the table entries of the
    algorithm it was created for -/
def Inv (s : St) : Prop :=
  ∀ (i : Nat) (g : Gcm), s.insts[i]? = some g →
    g.mask.length = 12 ∧ g.counter < 2 ^ 64 ∧ g.enc.gcmKeyLen? = some g.keyLen ∧ g.keyLen = g.enc.cekSize

theorem Inv.init : Inv St.init := by intro i g h; simp [St.init] at h

theorem gcmKeyLen_cekSize {e : Enc} {k : Nat} (h : e.gcmKeyLen? = some k) : k = e.cekSize := by
  cases e <;> simp [Enc.gcmKeyLen?] at h <;> simp [Enc.cekSize, h]

theorem Inv.step {o : Oracle} {s : St} (op : Op) (hs : Inv s) : Inv (stepRun o s op).2 := by
  by_cases ht : op.touchesInsts = false
  · intro i g hg
    rw [stepRun_insts o s op ht] at hg
    exact hs i g hg
  · cases op <;> simp only [Op.touchesInsts, not_true_eq_false] at ht
    case newGcm e =>
      rw [stepRun_newGcm]
      cases hk : e.gcmKeyLen? with
      | none => exact hs
      | some k =>
        intro i g hg
        simp only [List.getElem?_append] at hg
        split at hg
        · exact hs i g hg
        · have : g = Gcm.new e k := by
            cases hi : i - s.insts.length with
            | zero => rw [hi] at hg; simpa using hg.symm
            | succ n => rw [hi] at hg; simp at hg
          subst this
          simp [Gcm.new, nonceSize, hk, gcmKeyLen_cekSize hk]
    case gcmCEK j =>
      rw [stepRun_gcmCEK]
      cases hj : s.insts[j]? with
      | none => exact hs
      | some g0 =>
        simp only
        cases ha : ask o s.pos g0.keyLen with
        | none => exact hs
        | some b =>
          intro i g hg
          simp only [List.getElem?_set] at hg
          have h0 := hs j g0 hj
          split at hg
          · split at hg
            · simp at hg; subst hg; simp; exact ⟨h0.1, h0.2.2⟩
            · simp at hg
          · exact hs i g hg
    case gcmIV j =>
      rw [stepRun_gcmIV]
      cases hj : s.insts[j]? with
      | none => exact hs
      | some g0 =>
        have h0 := hs j g0 hj
        simp only
        split
        · cases ha : ask o s.pos 12 with
          | none => exact hs
          | some m =>
            intro i g hg
            simp only [List.getElem?_set] at hg
            split at hg
            · split at hg
              · simp at hg; subst hg; simp; exact ⟨ask_length ha, h0.2.2⟩
              · simp at hg
            · exact hs i g hg
        · split
          · exact hs
          · intro i g hg
            simp only [List.getElem?_set] at hg
            split at hg
            · split at hg
              · simp at hg; subst hg; simp
                exact ⟨h0.1, Nat.mod_lt _ (by decide), h0.2.2⟩
              · simp at hg
            · exact hs i g hg

/-- `acc` (the IVs of instance `i`'s current epoch) is what `(mask, counter)` says -/
def Coupled (i : Nat) (s : St) (acc : List Bytes) : Prop :=
  match s.insts[i]? with
  | none => acc = []
  | some g => acc = ivRange g.mask g.counter

theorem epochIVs_cons (i : Nat) (r : Rec) (rs : List Rec) (acc : List Bytes) :
    epochIVs i (r :: rs) acc = epochIVs i rs (epochStep i r.op r.out acc) := rfl

theorem Coupled.step {o : Oracle} {s : St} {i : Nat} {acc : List Bytes} (op : Op)
    (hs : Inv s) (hc : Coupled i s acc) :
    Coupled i (stepRun o s op).2 (epochStep i op (stepRun o s op).1 acc) := by
  by_cases ht : op.touchesInsts = false
  · have h1 : epochStep i op (stepRun o s op).1 acc = acc := by
      cases op <;> simp only [Op.touchesInsts, Bool.true_eq_false] at ht <;> rfl
    rw [h1]
    unfold Coupled
    rw [stepRun_insts o s op ht]
    exact hc
  · cases op <;> simp only [Op.touchesInsts, not_true_eq_false] at ht
    case newGcm e =>
      rw [stepRun_newGcm]
      cases hk : e.gcmKeyLen? with
      | none => exact hc
      | some k =>
        simp only [epochStep]
        unfold Coupled at hc ⊢
        by_cases hlt : i < s.insts.length
        · simp only [List.getElem?_append_left hlt]; exact hc
        · have hn : s.insts[i]? = none := by simp; omega
          rw [hn] at hc
          simp only at hc
          simp only [List.getElem?_append_right (Nat.le_of_not_lt hlt)]
          cases hi : i - s.insts.length with
          | zero => simp [Gcm.new, hc]
          | succ n => simp [hc]
    case gcmCEK j =>
      rw [stepRun_gcmCEK]
      cases hj : s.insts[j]? with
      | none => exact hc
      | some g0 =>
        simp only
        cases ha : ask o s.pos g0.keyLen with
        | none => exact hc
        | some b =>
          simp only [epochStep]
          unfold Coupled at hc ⊢
          simp only [List.getElem?_set]
          by_cases hji : j = i
          · subst hji
            have : j < s.insts.length := by
              have := List.getElem?_eq_some_iff.mp hj; exact this.1
            simp [this]
          · simp only [hji, if_false]
            exact hc
    case gcmIV j =>
      rw [stepRun_gcmIV]
      cases hj : s.insts[j]? with
      | none => exact hc
      | some g0 =>
        have hlt : j < s.insts.length := (List.getElem?_eq_some_iff.mp hj).1
        simp only
        split
        · rename_i hz
          cases ha : ask o s.pos 12 with
          | none => exact hc
          | some m =>
            simp only [epochStep]
            unfold Coupled at hc ⊢
            simp only [List.getElem?_set]
            by_cases hji : j = i
            · subst hji
              rw [hj] at hc
              simp only [hlt, if_true]
              rw [hc, hz]
              simp [ivRange_succ]
            · simp only [hji, if_false]
              exact hc
        · split
          · exact hc
          · rename_i hnz hno
            have h0 := hs j g0 hj
            have hlt64 : g0.counter + 1 < 2 ^ 64 := by
              by_cases h : g0.counter + 1 < 2 ^ 64
              · exact h
              · have : g0.counter + 1 = 2 ^ 64 := by omega
                rw [this] at hno; simp at hno
            have hmod : (g0.counter + 1) % 2 ^ 64 = g0.counter + 1 := Nat.mod_eq_of_lt hlt64
            simp only [epochStep]
            unfold Coupled at hc ⊢
            simp only [List.getElem?_set]
            by_cases hji : j = i
            · subst hji
              rw [hj] at hc
              simp only [hlt, if_true]
              rw [hc, hmod, ivRange_succ]
            · simp only [hji, if_false]
              exact hc

theorem epochIVs_coupled (o : Oracle) (i : Nat) :
    ∀ (ops : List Op) (s : St) (acc : List Bytes), Inv s → Coupled i s acc →
      Inv (final o s ops) ∧ Coupled i (final o s ops) (epochIVs i (trace o s ops) acc)
  | [], s, acc, hs, hc => ⟨hs, hc⟩
  | op :: ops, s, acc, hs, hc => by
    simp only [final, trace, epochIVs_cons]
    exact epochIVs_coupled o i ops _ _ (Inv.step op hs) (Coupled.step op hs hc)

end Model.Rand
