import GoatProofs.Reflect.Chain
import Goat.Model.Fe448
/-
Glue between the reflective guarantee (about flat variable vectors) and limb-level statements.
-/
namespace Glue
open Reflect

/-- little-endian radix-2^k value -/
def evalR (k : Nat) : List Int → Int
  | [] => 0
  | x :: xs => x + 2 ^ k * evalR k xs

/-- weights 2^(k·s), 2^(k·(s+1)), … -/
def weights (k : Nat) : Nat → Nat → List Int
  | 0, _ => []
  | n + 1, s => (2 : Int) ^ (k * s) :: weights k n (s + 1)

/-- Σᵢ 2^(k·(s+i)) · atom(base+i) -/
def limbPoly (k : Nat) : Nat → Nat → Nat → Poly
  | 0, _, _ => []
  | n + 1, s, base => ([base], (2 : Int) ^ (k * s)) :: limbPoly k n (s + 1) (base + 1)

theorem weightedSum_weights (k : Nat) (ρ : Nat → Int) : ∀ (outs : List Nat) (s : Nat),
    weightedSum ρ outs (weights k outs.length s) = 2 ^ (k * s) * evalR k (outs.map ρ) := by
  intro outs
  induction outs with
  | nil => intro s; simp [weightedSum, evalR]
  | cons o os ih =>
    intro s
    simp only [List.length_cons, weights, weightedSum, List.map_cons, evalR, ih (s + 1)]
    rw [show k * (s + 1) = k * s + k by ring, pow_add]; ring

theorem evalPoly_limbPoly (k : Nat) (ρ : Nat → Int) : ∀ (n s base : Nat),
    evalPoly ρ (limbPoly k n s base) = 2 ^ (k * s) * evalR k ((List.range' base n).map ρ) := by
  intro n
  induction n with
  | zero => intro s base; simp [limbPoly, evalPoly, evalR]
  | succ n ih =>
    intro s base
    simp only [limbPoly, evalPoly_cons, evalMono, List.range'_succ, List.map_cons, evalR, ih (s + 1) (base + 1)]
    rw [show k * (s + 1) = k * s + k by ring, pow_add]; ring

theorem range'_map_getD_append (pre a post : List Int) :
    (List.range' pre.length a.length).map (fun i => (pre ++ a ++ post).getD i 0) = a := by
  apply List.ext_getElem
  · simp
  · intro i h1 h2
    simp only [List.getElem_map, List.getElem_range']
    rw [List.getD_eq_getElem?_getD, List.append_assoc, List.getElem?_append_right (by omega)]
    simp only [Nat.add_sub_cancel_left, Nat.one_mul]
    rw [List.getElem?_append_left (by simpa using h2), List.getElem?_eq_getElem (by simpa using h2)]
    rfl

theorem specAtoms_limbPoly (k nIn : Nat) : ∀ (n s base : Nat), base + n ≤ nIn →
    specAtomsOk nIn (limbPoly k n s base) = true := by
  intro n
  induction n with
  | zero => intro s base _; rfl
  | succ n ih =>
    intro s base h
    simp only [limbPoly, specAtomsOk, List.all_cons, List.all_nil, Bool.and_true, Bool.and_eq_true,
      decide_eq_true_eq]
    exact ⟨by omega, ih (s + 1) (base + 1) (by omega)⟩

/-- all entries within [lo, hi] -/
def AllIn (lo hi : Int) (l : List Int) : Prop := ∀ x ∈ l, lo ≤ x ∧ x ≤ hi

theorem within_nil : inputsWithin [] [] [] := by intro i hi; cases hi

theorem within_replicate_append (lo hi : Int) (a : List Int) (los his xs : List Int)
    (ha : AllIn lo hi a) (hl : los.length = xs.length) (hh : his.length = xs.length)
    (h : inputsWithin los his xs) :
    inputsWithin (List.replicate a.length lo ++ los) (List.replicate a.length hi ++ his) (a ++ xs) := by
  intro i hil
  by_cases hlt : i < a.length
  · have e1 : (List.replicate a.length lo ++ los)[i]? = some lo := by
      rw [List.getElem?_append_left (by simpa using hlt)]; simp [hlt]
    have e2 : (List.replicate a.length hi ++ his)[i]? = some hi := by
      rw [List.getElem?_append_left (by simpa using hlt)]; simp [hlt]
    have e3 : (a ++ xs)[i]? = some a[i] := by
      rw [List.getElem?_append_left hlt, List.getElem?_eq_getElem hlt]
    simp only [List.getD_eq_getElem?_getD, e1, e2, e3, Option.getD_some]
    exact ha _ (List.getElem_mem hlt)
  · have hge : a.length ≤ i := by omega
    have e1 : (List.replicate a.length lo ++ los)[i]? = los[i - a.length]? := by
      rw [List.getElem?_append_right (by simpa using hge)]; simp
    have e2 : (List.replicate a.length hi ++ his)[i]? = his[i - a.length]? := by
      rw [List.getElem?_append_right (by simpa using hge)]; simp
    have e3 : (a ++ xs)[i]? = xs[i - a.length]? := List.getElem?_append_right hge
    simp only [List.getD_eq_getElem?_getD, e1, e2, e3]
    have := h (i - a.length) (by simp at hil; omega)
    simpa [List.getD_eq_getElem?_getD] using this

theorem within1 (lo hi : Int) (a : List Int) (h : AllIn lo hi a) :
    inputsWithin (List.replicate a.length lo) (List.replicate a.length hi) a := by
  have := within_replicate_append lo hi a [] [] [] h rfl rfl within_nil
  simpa using this

/-- prepend one uniformly bounded block to an already bounded input vector -/
theorem within_cons_block (lo hi : Int) (a : List Int) (los his xs : List Int) (ha : AllIn lo hi a)
    (h : inputsWithin los his xs) (hl : los.length = xs.length) (hh : his.length = xs.length) :
    inputsWithin (List.replicate a.length lo ++ los) (List.replicate a.length hi ++ his) (a ++ xs) :=
  within_replicate_append lo hi a los his xs ha hl hh h

theorem allIn_replicate (lo hi v : Int) (n : Nat) (h1 : lo ≤ v) (h2 : v ≤ hi) :
    AllIn lo hi (List.replicate n v) := by
  intro x hx; rw [List.eq_of_mem_replicate hx]; exact ⟨h1, h2⟩

/-- outputs of the ideal run are the values of the output variables -/
theorem outputs_false (P : Prog) (ins : List Int) : P.outputs false ins = P.outs.map (P.val ins) := rfl

theorem outputs_true_eq (P : Prog) (cfg : Cfg) (ins : List Int) (g : Guarantee P cfg ins) :
    P.outputs true ins = P.outs.map (P.val ins) := by
  show (P.outs.map fun o => cget (P.run true ins) _ o) = _
  rw [g.noOverflow]; rfl

theorem allIn_outputs (P : Prog) (cfg : Cfg) (ins : List Int) (g : Guarantee P cfg ins) (lo hi : Int)
    (hlo : cfg.outLo = List.replicate cfg.obs.length lo) (hhi : cfg.outHi = List.replicate cfg.obs.length hi) :
    AllIn lo hi (cfg.obs.map (P.val ins)) := by
  intro x hx
  obtain ⟨i, hi, rfl⟩ := List.getElem_of_mem hx
  simp only [List.length_map] at hi
  have := g.outBounds i hi
  rw [hlo, hhi] at this
  simp only [List.getD_eq_getElem?_getD, List.getElem?_replicate, hi, if_true, Option.getD_some,
    List.getElem?_eq_getElem hi] at this
  simpa using this


theorem weightedSum_append (ρ : Nat → Int) : ∀ (o1 o2 : List Nat) (w1 w2 : List Int), o1.length = w1.length →
    weightedSum ρ (o1 ++ o2) (w1 ++ w2) = weightedSum ρ o1 w1 + weightedSum ρ o2 w2 := by
  intro o1
  induction o1 with
  | nil => intro o2 w1 w2 h; cases w1 with
    | nil => simp [weightedSum]
    | cons _ _ => cases h
  | cons o os ih =>
    intro o2 w1 w2 h
    cases w1 with
    | nil => cases h
    | cons w ws =>
      simp only [List.cons_append, weightedSum, ih o2 ws w2 (by simpa using h)]; ring

theorem weightedSum_neg (ρ : Nat → Int) : ∀ (o : List Nat) (w : List Int),
    weightedSum ρ o (w.map (fun x => -x)) = - weightedSum ρ o w := by
  intro o
  induction o with
  | nil => intro w; cases w <;> simp [weightedSum]
  | cons x xs ih =>
    intro w
    cases w with
    | nil => simp [weightedSum]
    | cons y ys => simp only [List.map_cons, weightedSum, ih ys]; ring

theorem weightedSum_single (ρ : Nat → Int) (o : Nat) (w : Int) : weightedSum ρ [o] [w] = w * ρ o := by
  simp [weightedSum]

theorem weights_length (k : Nat) : ∀ (n s : Nat), (weights k n s).length = n := by
  intro n; induction n with
  | zero => intro s; rfl
  | succ n ih => intro s; simp [weights, ih]

/-- 1 + 2^k + … + 2^(k(n-1)) -/
def geom (k : Nat) : Nat → Int
  | 0 => 0
  | n + 1 => 1 + 2 ^ k * geom k n

theorem geom_nonneg (k n : Nat) : 0 ≤ geom k n := by
  induction n with
  | zero => simp [geom]
  | succ n ih => simp only [geom]; have : (0:Int) ≤ 2 ^ k * geom k n := Int.mul_nonneg (by positivity) ih; omega

theorem evalR_bounds (k : Nat) (b : Int) (hb : 0 ≤ b) : ∀ (l : List Int), AllIn 0 b l →
    0 ≤ evalR k l ∧ evalR k l ≤ b * geom k l.length := by
  intro l
  induction l with
  | nil => intro _; simp [evalR, geom]
  | cons x xs ih =>
    intro h
    have hx := h x (by simp)
    obtain ⟨i1, i2⟩ := ih (fun y hy => h y (by simp [hy]))
    have hp : (0 : Int) ≤ 2 ^ k := by positivity
    simp only [evalR, List.length_cons, geom]
    constructor
    · have : (0:Int) ≤ 2 ^ k * evalR k xs := Int.mul_nonneg hp i1
      omega
    · have : 2 ^ k * evalR k xs ≤ 2 ^ k * (b * geom k xs.length) := Int.mul_le_mul_of_nonneg_left i2 hp
      have e : b * (1 + 2 ^ k * geom k xs.length) = b + 2 ^ k * (b * geom k xs.length) := by ring
      rw [e]; omega

theorem evalT_eq_evalR (k : Nat) (l : List Int) : evalT (2 ^ k) l = evalR k l := by
  induction l with
  | nil => rfl
  | cons x xs ih => simp only [evalT, evalR, ih]

/-- hint (quotient variable) of a `low` op defining variable `v` -/
def lowHintOf (P : Prog) (v : Nat) : Nat :=
  match P.body.getD (v - P.nIn) (.const 0) with
  | .low _ _ (some q) => q
  | _ => 0

end Glue
