import GoatProofs.Reflect.Sound
import Goat.Model.Fe448
/-
Glue between the reflective guarantee (about flat variable vectors) and limb-level statements.
-/
namespace Glue
open Reflect

/-- little-endian radix-2^k value -/
def evalR (k : Nat) : List Int → Int
  | [] => 0
  | x :: xs => x + 2 ^ k * evalR k xs

/-- weights 2^(k·s), 2^(k·(s+1)), … -/
def weights (k : Nat) : Nat → Nat → List Int
  | 0, _ => []
  | n + 1, s => (2 : Int) ^ (k * s) :: weights k n (s + 1)

/-- Σᵢ 2^(k·(s+i)) · atom(base+i) -/
def limbPoly (k : Nat) : Nat → Nat → Nat → Poly
  | 0, _, _ => []
  | n + 1, s, base => ([base], (2 : Int) ^ (k * s)) :: limbPoly k n (s + 1) (base + 1)

theorem weightedSum_weights (k : Nat) (ρ : Nat → Int) : ∀ (outs : List Nat) (s : Nat),
    weightedSum ρ outs (weights k outs.length s) = 2 ^ (k * s) * evalR k (outs.map ρ) := by
  intro outs
  induction outs with
  | nil => intro s; simp [weightedSum, evalR]
  | cons o os ih =>
    intro s
    simp only [List.length_cons, weights, weightedSum, List.map_cons, evalR, ih (s + 1)]
    rw [show k * (s + 1) = k * s + k by ring, pow_add]; ring

theorem evalPoly_limbPoly (k : Nat) (ρ : Nat → Int) : ∀ (n s base : Nat),
    evalPoly ρ (limbPoly k n s base) = 2 ^ (k * s) * evalR k ((List.range' base n).map ρ) := by
  intro n
  induction n with
  | zero => intro s base; simp [limbPoly, evalPoly, evalR]
  | succ n ih =>
    intro s base
    simp only [limbPoly, evalPoly_cons, evalMono, List.range'_succ, List.map_cons, evalR, ih (s + 1) (base + 1)]
    rw [show k * (s + 1) = k * s + k by ring, pow_add]; ring

theorem range'_map_getD_append (pre a post : List Int) :
    (List.range' pre.length a.length).map (fun i => (pre ++ a ++ post).getD i 0) = a := by
  apply List.ext_getElem
  · simp
  · intro i h1 h2
    simp only [List.getElem_map, List.getElem_range']
    rw [List.getD_eq_getElem?_getD, List.append_assoc, List.getElem?_append_right (by omega)]
    simp only [Nat.add_sub_cancel_left, Nat.one_mul]
    rw [List.getElem?_append_left (by simpa using h2), List.getElem?_eq_getElem (by simpa using h2)]
    rfl

theorem specAtoms_limbPoly (k nIn : Nat) : ∀ (n s base : Nat), base + n ≤ nIn →
    specAtomsOk nIn (limbPoly k n s base) = true := by
  intro n
  induction n with
  | zero => intro s base _; rfl
  | succ n ih =>
    intro s base h
    simp only [limbPoly, specAtomsOk, List.all_cons, List.all_nil, Bool.and_true, Bool.and_eq_true,
      decide_eq_true_eq]
    exact ⟨by omega, ih (s + 1) (base + 1) (by omega)⟩

/-- all entries within [lo, hi] -/
def AllIn (lo hi : Int) (l : List Int) : Prop := ∀ x ∈ l, lo ≤ x ∧ x ≤ hi

theorem within_nil : inputsWithin [] [] [] := by intro i hi; cases hi

theorem within_replicate_append (lo hi : Int) (a : List Int) (los his xs : List Int)
    (ha : AllIn lo hi a) (hl : los.length = xs.length) (hh : his.length = xs.length)
    (h : inputsWithin los his xs) :
    inputsWithin (List.replicate a.length lo ++ los) (List.replicate a.length hi ++ his) (a ++ xs) := by
  intro i hil
  by_cases hlt : i < a.length
  · have e1 : (List.replicate a.length lo ++ los)[i]? = some lo := by
      rw [List.getElem?_append_left (by simpa using hlt)]; simp [hlt]
    have e2 : (List.replicate a.length hi ++ his)[i]? = some hi := by
      rw [List.getElem?_append_left (by simpa using hlt)]; simp [hlt]
    have e3 : (a ++ xs)[i]? = some a[i] := by
      rw [List.getElem?_append_left hlt, List.getElem?_eq_getElem hlt]
    simp only [List.getD_eq_getElem?_getD, e1, e2, e3, Option.getD_some]
    exact ha _ (List.getElem_mem hlt)
  · have hge : a.length ≤ i := by omega
    have e1 : (List.replicate a.length lo ++ los)[i]? = los[i - a.length]? := by
      rw [List.getElem?_append_right (by simpa using hge)]; simp
    have e2 : (List.replicate a.length hi ++ his)[i]? = his[i - a.length]? := by
      rw [List.getElem?_append_right (by simpa using hge)]; simp
    have e3 : (a ++ xs)[i]? = xs[i - a.length]? := List.getElem?_append_right hge
    simp only [List.getD_eq_getElem?_getD, e1, e2, e3]
    have := h (i - a.length) (by simp at hil; omega)
    simpa [List.getD_eq_getElem?_getD] using this

theorem allIn_replicate (lo hi v : Int) (n : Nat) (h1 : lo ≤ v) (h2 : v ≤ hi) :
    AllIn lo hi (List.replicate n v) := by
  intro x hx; rw [List.eq_of_mem_replicate hx]; exact ⟨h1, h2⟩

/-- outputs of the ideal run are the values of the output variables -/
theorem outputs_false (P : Prog) (ins : List Int) : P.outputs false ins = P.outs.map (P.val ins) := rfl

theorem outputs_true_eq (P : Prog) (cfg : Cfg) (ins : List Int) (g : Guarantee P cfg ins) :
    P.outputs true ins = P.outs.map (P.val ins) := by
  show (P.outs.map fun o => cget (P.run true ins) _ o) = _
  rw [g.noOverflow]; rfl

theorem allIn_outputs (P : Prog) (cfg : Cfg) (ins : List Int) (g : Guarantee P cfg ins) (lo hi : Int)
    (hlo : cfg.outLo = List.replicate P.outs.length lo) (hhi : cfg.outHi = List.replicate P.outs.length hi) :
    AllIn lo hi (P.outs.map (P.val ins)) := by
  intro x hx
  obtain ⟨i, hi, rfl⟩ := List.getElem_of_mem hx
  simp only [List.length_map] at hi
  have := g.outBounds i hi
  rw [hlo, hhi] at this
  simp only [List.getD_eq_getElem?_getD, List.getElem?_replicate, hi, if_true, Option.getD_some,
    List.getElem?_eq_getElem hi] at this
  simpa using this

end Glue
