import GoatProofs.Lemmas.C11PosJws
/-
C11 — JWE JSON serialisation: protected, shared unprotected and per-recipient headers survive
MarshalJSON → ParseJSON (for messages whose header positions use disjoint member names).
-/
namespace C11
open Model.HeaderTable Model.Header Gen.HeaderTables

/-! ### what `json.Decoder.Decode(&jsonJWE)` makes of a marshalled message (oracle law target) -/

def normStr (k : String) (kvs : List (String × Wire)) : Wire := .str ((Wire.lookup k kvs).getD .none).asStr
def normMap (k : String) (kvs : List (String × Wire)) : Wire :=
  match Wire.lookup k kvs with
  | some (.obj l) => .obj l
  | _ => .null
def normRcpt (w : Wire) : Wire :=
  .obj [("encrypted_key", normStr "encrypted_key" w.asObj), ("header", normMap "header" w.asObj)]

/-- the struct view of a JSON object: absent string members are "", absent maps are nil -/
def jweNormal (kvs : List (String × Wire)) : Wire :=
  .obj [("aad", normStr "aad" kvs), ("ciphertext", normStr "ciphertext" kvs),
        ("encrypted_key", normStr "encrypted_key" kvs), ("header", normMap "header" kvs),
        ("iv", normStr "iv" kvs), ("protected", normStr "protected" kvs),
        ("recipients", match Wire.lookup "recipients" kvs with
          | some (.arr l) => .arr (l.map normRcpt)
          | _ => .null),
        ("tag", normStr "tag" kvs), ("unprotected", normMap "unprotected" kvs)]

/-! ### association-list lemmas -/

theorem lk_append (k : String) (a b : List (String × Wire)) :
    Wire.lookup k (a ++ b) = match Wire.lookup k a with
      | some v => some v
      | none => Wire.lookup k b := by
  induction a with
  | nil => rfl
  | cons hd tl ih =>
    obtain ⟨k', v⟩ := hd
    simp only [List.cons_append, Wire.lookup]
    split <;> simp [ih]

theorem lk_oes (k k' s : String) :
    Wire.lookup k (omitEmptyStr k' s) = if s = "" then none else if k = k' then some (.str s) else none := by
  unfold omitEmptyStr
  split <;> simp [Wire.lookup]

theorem lk_oeo_ne (k k' : String) (hw : Option Wire) (hne : k ≠ k') :
    Wire.lookup k (omitEmptyObj k' hw) = none := by
  unfold omitEmptyObj
  split <;> simp [Wire.lookup, hne]

/-- members of an optional encoded header -/
def membersOf : Option Wire → List (String × Wire)
  | some (.obj l) => l
  | _ => []

theorem members_oeo (k : String) (hw : Option Wire) (hobj : ∀ w, hw = some w → ∃ l, w = .obj l) :
    mapMembers (Wire.lookup k (omitEmptyObj k hw)) = membersOf hw ∧
    (match normMap k (omitEmptyObj k hw) with | .obj l => l | _ => []) = membersOf hw := by
  cases hw with
  | none => simp [omitEmptyObj, Wire.lookup, mapMembers, membersOf, normMap]
  | some w =>
    obtain ⟨l, e⟩ := hobj w rfl
    subst e
    cases l with
    | nil => simp [omitEmptyObj, Wire.lookup, mapMembers, membersOf, normMap]
    | cons a t => simp [omitEmptyObj, Wire.lookup, mapMembers, membersOf, normMap]

/-! ### headers in unprotected positions -/

/-- the header `ParseJSON` returns for an optional header (a nil header reads back empty) -/
def rtOpt (o : Oracle) : Option Header → Header
  | none => Header.zero
  | some u => rtHdr o jwe.encRows u

/-- the member names an optional header is emitted with -/
def optObj (o : Oracle) : Option Header → List (String × Wire)
  | none => []
  | some u => match (encodeWith jwe.encRows u).run o with
    | .ok obj => obj
    | _ => []

theorem jweDecode_nil (o : Oracle) : (jweDecodeHeader []).run o = .ok Header.zero := rfl

theorem encOptJwe_rt (o : Oracle) (u : Option Header) (hu : ∀ h, u = some h → WF o jwe.encRows jwe.decSteps h) :
    ∃ hw, (encOptHeader jweEncodeHeader u).run o = .ok hw ∧ (∀ w, hw = some w → ∃ l, w = .obj l) ∧
      membersOf hw = optObj o u ∧ (jweDecodeHeader (membersOf hw)).run o = .ok (rtOpt o u) := by
  cases u with
  | none => exact ⟨none, by simp [encOptHeader], by simp, rfl, jweDecode_nil o⟩
  | some h =>
    obtain ⟨obj, ho, _, hd⟩ := rtHdr_spec o _ _ jwe_fit' h (hu h rfl)
    refine ⟨some (.obj obj), ?_, ?_, ?_, hd⟩
    · simp only [encOptHeader, jweEncodeHeader, PO.run_bind, ho, PO.run_pure]
    · intro w hw; cases hw; exact ⟨obj, rfl⟩
    · simp [membersOf, optObj, ho]

theorem rtOpt_crit (o : Oracle) (u : Option Header) (hc : ∀ h, u = some h → h.crit = []) :
    (rtOpt o u).crit = [] := by
  cases u with
  | none => rfl
  | some h =>
    simp only [rtOpt, rtHdr]
    split
    · simp [fill_crit, hc h rfl]
    · exact hc h rfl

/-- a recipient whose header may be carried next to protected members `pm` and unprotected `um` -/
structure RcptWF (o : Oracle) (pm um : List (String × Wire)) (r : Recipient) : Prop where
  header : ∀ h, r.header = some h → WF o jwe.encRows jwe.decSteps h
  crit : ∀ h, r.header = some h → h.crit = []
  key : B64Str o r.encKey
  disjP : sharesName (optObj o r.header) pm = false
  disjU : sharesName (optObj o r.header) um = false

/-- the recipient as `ParseJSON` returns it -/
def rtRcpt (o : Oracle) (r : Recipient) : Recipient := { header := some (rtOpt o r.header), encKey := r.encKey }

theorem rcpt_rt (o : Oracle) (pm um : List (String × Wire)) (r : Recipient) (wf : RcptWF o pm um r)
    (rest : List Wire) (rs : List Recipient) (hrest : (parseRecipients pm um rest).run o = .ok rs) :
    ∃ w, (recipientObj r).run o = .ok w ∧
      (parseRecipients pm um (normRcpt w :: rest)).run o = .ok (rtRcpt o r :: rs) := by
  obtain ⟨hw, hhw, hobj, hmem, hdec⟩ := encOptJwe_rt o r.header wf.header
  obtain ⟨b, hb⟩ := b64Str_run wf.key
  refine ⟨Wire.obj ([("encrypted_key", Wire.str r.encKey)] ++ omitEmptyObj "header" hw),
    by simp only [recipientObj, PO.run_bind, hhw, PO.run_pure], ?_⟩
  have hm : mapMembers ((normRcpt (Wire.obj ([("encrypted_key", Wire.str r.encKey)] ++ omitEmptyObj "header" hw))).get? "header")
      = membersOf hw := by
    have := (members_oeo "header" hw hobj).2
    simp only [normRcpt, Wire.get?, Wire.asObj, Wire.lookup, normMap, lk_append] at this ⊢
    simp only [show ("header" == "encrypted_key") = false by decide, show ("header" == "header") = true by decide,
      Bool.false_eq_true, ↓reduceIte] at this ⊢
    revert this
    cases h : Wire.lookup "header" (omitEmptyObj "header" hw) with
    | none => intro t; simpa [mapMembers] using t
    | some v => cases v <;> intro t <;> simpa [mapMembers] using t
  have hk : (((normRcpt (Wire.obj ([("encrypted_key", Wire.str r.encKey)] ++ omitEmptyObj "header" hw))).get? "encrypted_key").getD .none).asStr
      = r.encKey := by
    simp [normRcpt, Wire.get?, Wire.asObj, Wire.lookup, normStr, Wire.asStr]
  have hcrit : ¬ ((rtOpt o r.header).crit.length > 0) := by simp [rtOpt_crit o r.header wf.crit]
  have hdis : (sharesName (membersOf hw) pm || sharesName (membersOf hw) um) = false := by
    rw [hmem, wf.disjP, wf.disjU]; rfl
  simp only [parseRecipients, hm, hk, PO.run_bind, hdec, hcrit, ↓reduceIte, hdis, Bool.false_eq_true, hb, hrest,
    PO.run_pure]
  rfl

theorem rcpts_rt (o : Oracle) (pm um : List (String × Wire)) (rs : List Recipient)
    (hwf : ∀ r ∈ rs, RcptWF o pm um r) :
    ∃ arr, (mapPO recipientObj rs).run o = .ok arr ∧
      (parseRecipients pm um (arr.map normRcpt)).run o = .ok (rs.map (rtRcpt o)) := by
  induction rs with
  | nil => exact ⟨[], by simp [mapPO], by simp [parseRecipients]⟩
  | cons r rest ih =>
    obtain ⟨arr, harr, hp⟩ := ih (fun r' h' => hwf r' (List.mem_cons_of_mem _ h'))
    obtain ⟨w, hw, hpw⟩ := rcpt_rt o pm um r (hwf r (List.mem_cons_self ..)) _ _ hp
    exact ⟨w :: arr, by simp [mapPO, hw, harr], by simpa using hpw⟩

theorem protParts (o : Oracle) (enc : List Row) (dec : List DecStep) (hfit : tablesFit enc dec = true)
    (p : Header) (wf : WF o enc dec p)
    (law : ∀ obj, (encodeWith enc p).run o = .ok obj → TextLaw o obj) (raw : String)
    (hraw : (protectedText (fun h => do let x ← encodeWith enc h; pure (Wire.obj x)) p).run o = .ok raw) :
    ∃ obj d, (encodeWith enc p).run o = .ok obj ∧ (b64urlDecStr raw).run o = .ok d ∧
      o ⟨"json.decodeMap", [.bytes d]⟩ = .obj obj ∧ (decodeWith dec obj).run o = .ok (rtHdr o enc p) := by
  obtain ⟨obj, ho, _, hd⟩ := rtHdr_spec o enc dec hfit p wf
  obtain ⟨d, s, hm, he, hdec, hj⟩ := law obj ho
  have : (protectedText (fun h => do let x ← encodeWith enc h; pure (Wire.obj x)) p).run o = .ok s := by
    simp only [protectedText, marshalObj, b64urlEnc, PO.run_bind, ho, PO.run_pure, PO.run_query, hm, he]
    rfl
  rw [this] at hraw; cases hraw
  exact ⟨obj, d, ho, by simp [b64urlDecStr, readBytes, hdec], hj, hd⟩

/-- a JWE message as NewMessage / Encrypt leave it, every header well-formed, the three header
    positions using disjoint member names, crit only in the protected header -/
structure JweWF (o : Oracle) (m : JweMsg) : Prop where
  prot : ∃ p, m.prot = some p ∧ WF o jwe.encRows jwe.decSteps p ∧
    (∀ obj, (encodeWith jwe.encRows p).run o = .ok obj → TextLaw o obj) ∧
    (protectedText jweEncodeHeader p).run o = .ok m.b64protected ∧ m.b64protected ≠ ""
  unprot : ∀ u, m.unprotected = some u → WF o jwe.encRows jwe.decSteps u
  unprotCrit : ∀ u, m.unprotected = some u → u.crit = []
  disjU : sharesName (optObj o m.unprotected) (optObj o m.prot) = false
  rcpts : ∀ r ∈ m.recipients, RcptWF o (optObj o m.prot) (optObj o m.unprotected) r
  ct : B64Str o m.ciphertext
  iv : B64Str o m.iv
  tag : B64Str o m.tag
  aad : B64Str o m.aad

/-- the message as `ParseJSON` returns it -/
def rtJwe (o : Oracle) (m : JweMsg) : JweMsg :=
  { m with unprotected := some (rtOpt o m.unprotected), prot := m.prot.map (rtHdr o jwe.encRows),
           recipients := m.recipients.map (rtRcpt o) }

/-- the members MarshalJSON writes -/
def jweKvs (m : JweMsg) (arr : List Wire) (hwU : Option Wire) : List (String × Wire) :=
  omitEmptyStr "aad" m.aad ++ [("ciphertext", Wire.str m.ciphertext)] ++ omitEmptyStr "iv" m.iv
    ++ omitEmptyStr "protected" m.b64protected ++ [("recipients", .arr arr)]
    ++ omitEmptyStr "tag" m.tag ++ omitEmptyObj "unprotected" hwU

section kvs
variable (m : JweMsg) (arr : List Wire) (hwU : Option Wire)

theorem kv_aad : normStr "aad" (jweKvs m arr hwU) = .str m.aad := by
  simp only [jweKvs, normStr, lk_append, lk_oes, Wire.lookup]
  by_cases e : m.aad = "" <;> simp [e, lk_oeo_ne, Wire.asStr]
theorem kv_ct : normStr "ciphertext" (jweKvs m arr hwU) = .str m.ciphertext := by
  simp only [jweKvs, normStr, lk_append, lk_oes, Wire.lookup]
  by_cases e : m.aad = "" <;> simp [e, Wire.asStr]
theorem kv_iv : normStr "iv" (jweKvs m arr hwU) = .str m.iv := by
  simp only [jweKvs, normStr, lk_append, lk_oes, Wire.lookup]
  by_cases e : m.aad = "" <;> by_cases e2 : m.iv = "" <;> simp [e, e2, lk_oeo_ne, Wire.asStr]
theorem kv_prot : normStr "protected" (jweKvs m arr hwU) = .str m.b64protected := by
  simp only [jweKvs, normStr, lk_append, lk_oes, Wire.lookup]
  by_cases e : m.aad = "" <;> by_cases e2 : m.iv = "" <;> by_cases e3 : m.b64protected = "" <;>
    simp [e, e2, e3, lk_oeo_ne, Wire.asStr]
theorem kv_tag : normStr "tag" (jweKvs m arr hwU) = .str m.tag := by
  simp only [jweKvs, normStr, lk_append, lk_oes, Wire.lookup]
  by_cases e : m.aad = "" <;> by_cases e2 : m.iv = "" <;> by_cases e3 : m.b64protected = "" <;>
    by_cases e4 : m.tag = "" <;> simp [e, e2, e3, e4, lk_oeo_ne, Wire.asStr]
theorem kv_key : normStr "encrypted_key" (jweKvs m arr hwU) = .str "" := by
  simp only [jweKvs, normStr, lk_append, lk_oes, Wire.lookup]
  by_cases e : m.aad = "" <;> by_cases e2 : m.iv = "" <;> by_cases e3 : m.b64protected = "" <;>
    by_cases e4 : m.tag = "" <;> simp [e, e2, e3, e4, lk_oeo_ne, Wire.asStr]
theorem kv_hdr : normMap "header" (jweKvs m arr hwU) = .null := by
  simp only [jweKvs, normMap, lk_append, lk_oes, Wire.lookup]
  by_cases e : m.aad = "" <;> by_cases e2 : m.iv = "" <;> by_cases e3 : m.b64protected = "" <;>
    by_cases e4 : m.tag = "" <;> simp [e, e2, e3, e4, lk_oeo_ne]
theorem kv_rcpts : Wire.lookup "recipients" (jweKvs m arr hwU) = some (.arr arr) := by
  simp only [jweKvs, lk_append, lk_oes, Wire.lookup]
  by_cases e : m.aad = "" <;> by_cases e2 : m.iv = "" <;> by_cases e3 : m.b64protected = "" <;>
    simp [e, e2, e3]
theorem kv_unprot (hobj : ∀ w, hwU = some w → ∃ l, w = .obj l) :
    mapMembers (some (normMap "unprotected" (jweKvs m arr hwU))) = membersOf hwU := by
  have h2 := (members_oeo "unprotected" hwU hobj).2
  have : normMap "unprotected" (jweKvs m arr hwU) = normMap "unprotected" (omitEmptyObj "unprotected" hwU) := by
    simp only [jweKvs, normMap, lk_append, lk_oes, Wire.lookup]
    by_cases e : m.aad = "" <;> by_cases e2 : m.iv = "" <;> by_cases e3 : m.b64protected = "" <;>
      by_cases e4 : m.tag = "" <;> simp [e, e2, e3, e4]
  rw [this]
  revert h2
  cases normMap "unprotected" (omitEmptyObj "unprotected" hwU) <;> intro t <;> simpa [mapMembers] using t
end kvs

theorem jweParse_marshal (o : Oracle) (m : JweMsg) (wf : JweWF o m) :
    ∃ kvs, (jweMarshalJSON m).run o = .ok (.obj kvs) ∧
      ∀ data, o ⟨"c11.jwe.decodeJSON", [.bytes data]⟩ = jweNormal kvs →
        (jweParseJSON data).run o = .ok (rtJwe o m) := by
  obtain ⟨p, hp, wfp, law, hraw, hne⟩ := wf.prot
  obtain ⟨pobj, d, hpo, hdp, hjp, hdecp⟩ := protParts o _ _ jwe_fit' p wfp law _ hraw
  obtain ⟨hwU, hhwU, hobjU, hmemU, hdecU⟩ := encOptJwe_rt o m.unprotected wf.unprot
  have hPm : optObj o m.prot = pobj := by simp [hp, optObj, hpo]
  have hrc := wf.rcpts
  rw [hPm, ← hmemU] at hrc
  obtain ⟨arr, harr, hparr⟩ := rcpts_rt o pobj (membersOf hwU) m.recipients hrc
  obtain ⟨_, hb1⟩ := b64Str_run wf.ct
  obtain ⟨_, hb2⟩ := b64Str_run wf.iv
  obtain ⟨_, hb3⟩ := b64Str_run wf.tag
  obtain ⟨_, hb4⟩ := b64Str_run wf.aad
  refine ⟨jweKvs m arr hwU, by simp only [jweMarshalJSON, jweKvs, PO.run_bind, hhwU, harr, PO.run_pure], ?_⟩
  intro data hdata
  have l_prot : ((Wire.lookup "protected" (jweNormal (jweKvs m arr hwU)).asObj).getD .none).asStr = m.b64protected := by
    simp [jweNormal, Wire.asObj, Wire.lookup, kv_prot, Wire.asStr]
  have l_ct : ((Wire.lookup "ciphertext" (jweNormal (jweKvs m arr hwU)).asObj).getD .none).asStr = m.ciphertext := by
    simp [jweNormal, Wire.asObj, Wire.lookup, kv_ct, Wire.asStr]
  have l_iv : ((Wire.lookup "iv" (jweNormal (jweKvs m arr hwU)).asObj).getD .none).asStr = m.iv := by
    simp [jweNormal, Wire.asObj, Wire.lookup, kv_iv, Wire.asStr]
  have l_tag : ((Wire.lookup "tag" (jweNormal (jweKvs m arr hwU)).asObj).getD .none).asStr = m.tag := by
    simp [jweNormal, Wire.asObj, Wire.lookup, kv_tag, Wire.asStr]
  have l_aad : ((Wire.lookup "aad" (jweNormal (jweKvs m arr hwU)).asObj).getD .none).asStr = m.aad := by
    simp [jweNormal, Wire.asObj, Wire.lookup, kv_aad, Wire.asStr]
  have l_key : ((Wire.lookup "encrypted_key" (jweNormal (jweKvs m arr hwU)).asObj).getD .none).asStr = "" := by
    simp [jweNormal, Wire.asObj, Wire.lookup, kv_key, Wire.asStr]
  have l_hdr : Wire.lookup "header" (jweNormal (jweKvs m arr hwU)).asObj = some .null := by
    simp [jweNormal, Wire.asObj, Wire.lookup, kv_hdr]
  have l_un : mapMembers (Wire.lookup "unprotected" (jweNormal (jweKvs m arr hwU)).asObj) = membersOf hwU := by
    have := kv_unprot m arr hwU hobjU
    simpa [jweNormal, Wire.asObj, Wire.lookup] using this
  have l_rc : Wire.lookup "recipients" (jweNormal (jweKvs m arr hwU)).asObj = some (.arr (arr.map normRcpt)) := by
    simp [jweNormal, Wire.asObj, Wire.lookup, kv_rcpts]
  have hcritU : ¬ ((rtOpt o m.unprotected).crit.length > 0) := by simp [rtOpt_crit o m.unprotected wf.unprotCrit]
  have hdisU : sharesName (membersOf hwU) pobj = false := by rw [hmemU, ← hPm]; exact wf.disjU
  have hne' : ¬ m.b64protected = "" := hne
  have hN : jweNormal (jweKvs m arr hwU) = .obj (jweNormal (jweKvs m arr hwU)).asObj := rfl
  rw [hN] at hdata
  generalize (jweNormal (jweKvs m arr hwU)).asObj = N at *
  simp only [jweParseJSON, PO.run_bind, PO.run_query, hdata, l_prot, hne', ↓reduceIte, hdp, hjp, PO.run_pure,
    l_un, l_ct, l_iv, l_tag, l_aad, l_key, l_hdr, l_rc]
  have hdecp' : (jweDecodeHeader pobj).run o = .ok (rtHdr o jwe.encRows p) := hdecp
  simp only [hdecp', hdecU, hcritU, ↓reduceIte, hdisU, Bool.false_eq_true, hb1, hb2, hb3, hb4, PO.run_bind, PO.run_pure]
  simp only [ne_eq, not_true_eq_false, decide_false, Bool.or_self, Bool.false_eq_true, ↓reduceIte, PO.run_pure, hparr]
  simp [rtJwe, hp]

end C11
