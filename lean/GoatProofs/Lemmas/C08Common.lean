import GoatProofs.Lemmas.C08Run
/-
Common JWK parameters: closed form of `encodeCommon`, and `decodeCommon` on an object whose
registered members are known.
-/
namespace C08
open Model.JWK

theorem run_encCerts (o : Oracle) (cs : List Cert) :
    (encCerts cs).run o = .ok (cs.map fun c => Wire.str (encStdS o c.raw)) := by
  induction cs with
  | nil => rfl
  | cons c t ih => simp [encCerts, ih]

/-- the certificates are what the x509 oracle makes of their DER -/
def CertsOK (o : Oracle) (cs : List Cert) : Prop :=
  ∀ c ∈ cs, ∃ pw, o ⟨"jwk.x509.parse", [.bytes c.raw]⟩ = .arr [pw] ∧ GoPub.ofWire pw = c.pub

theorem run_decodeCerts (o : Oracle) (L : Laws o) (cs : List Cert) (h : CertsOK o cs) :
    (decodeCerts (cs.map fun c => encStdS o c.raw)).run o = .ok cs := by
  induction cs with
  | nil => rfl
  | cons c t ih =>
    obtain ⟨pw, h1, h2⟩ := h c (by simp)
    have ht : CertsOK o t := fun c' hc' => h c' (by simp [hc'])
    simp [decodeCerts, run_b64stdDec_enc o L, h1, ih ht, h2]

/-- the thumbprint members as `encodeThumb` leaves them -/
def thumbVal (o : Oracle) (hash : String) (t : Option Bytes) (x5c : Option (List Cert)) : Option Bytes :=
  match t with
  | some t => some t
  | none => match x5c with
    | some (c :: _) => some (hashS o hash c.raw)
    | _ => none

theorem run_encodeThumb (o : Oracle) (m : Obj) (name hash : String) (t : Option Bytes) (x5c : Option (List Cert)) :
    (encodeThumb m name hash t x5c).run o =
      .ok (match thumbVal o hash t x5c with
           | some b => oset m name (.str (encS o b))
           | none => m) := by
  unfold encodeThumb thumbVal
  cases t with
  | some t => simp
  | none =>
    cases x5c with
    | none => simp
    | some cs => cases cs <;> simp

/-- closed form of `encodeCommon` -/
def commonObj (o : Oracle) (m : Obj) (k : Key) : Obj :=
  osetOpt (osetOpt (osetOpt (osetOpt (osetOpt (osetOpt (osetOpt (osetOpt
    (oset m "kty" (.str (ktyString k.kty)))
    "kid" (nonEmpty k.kid)) "use" (nonEmpty k.use))
    "key_ops" (k.keyOps.map fun ops => .arr (ops.map .str))) "alg" (nonEmpty k.alg))
    "x5u" (k.x5u.map .str))
    "x5c" (k.x5c.map fun cs => .arr (cs.map fun c => Wire.str (encStdS o c.raw))))
    "x5t" ((thumbVal o "sha1" k.x5t k.x5c).map fun b => .str (encS o b)))
    "x5t#S256" ((thumbVal o "sha256" k.x5tS256 k.x5c).map fun b => .str (encS o b))

theorem run_encodeThumb' (o : Oracle) (m : Obj) (name hash : String) (t : Option Bytes) (x5c : Option (List Cert)) :
    (encodeThumb m name hash t x5c).run o =
      .ok (osetOpt m name ((thumbVal o hash t x5c).map fun b => .str (encS o b))) := by
  rw [run_encodeThumb]; cases thumbVal o hash t x5c <;> rfl

theorem run_encodeCommon (o : Oracle) (m : Obj) (k : Key) :
    (encodeCommon m k).run o = .ok (commonObj o m k) := by
  unfold encodeCommon commonObj
  cases hx : k.x5c with
  | none => simp [run_encodeThumb', osetOpt]
  | some cs => simp [run_encodeThumb', run_encCerts, osetOpt]

/-- the optional parameters as the parser sees them -/
structure CP where
  kid : Option String := none
  use : Option String := none
  keyOps : Option (List String) := none
  alg : Option String := none
  x5u : Option String := none
  certs : List Cert := []
  x5t : Option Bytes := none
  x5t256 : Option Bytes := none

/-- the key `decodeCommonParameters` builds -/
def CP.key (p : CP) (m : Obj) (kty : String) : Key :=
  { raw := m, kty := kty, kid := p.kid.getD "", use := p.use.getD "", keyOps := p.keyOps,
    alg := p.alg.getD "", x5u := p.x5u,
    x5c := if p.certs = [] then none else some p.certs,
    x5t := p.x5t, x5tS256 := p.x5t256 }

/-- the registered common members of `m` are those of `p` -/
structure CommonView (o : Oracle) (m : Obj) (kty : String) (p : CP) : Prop where
  kty : Wire.lookup "kty" m = some (.str kty)
  kid : Wire.lookup "kid" m = p.kid.map Wire.str
  use : Wire.lookup "use" m = p.use.map Wire.str
  keyOps : Wire.lookup "key_ops" m = p.keyOps.map (fun l => Wire.arr (l.map Wire.str))
  alg : Wire.lookup "alg" m = p.alg.map Wire.str
  x5u : Wire.lookup "x5u" m = p.x5u.map Wire.str
  x5c : Wire.lookup "x5c" m =
    if p.certs = [] then none else some (.arr (p.certs.map fun c => Wire.str (encStdS o c.raw)))
  x5t : Wire.lookup "x5t" m = p.x5t.map (fun b => Wire.str (encS o b))
  x5t256 : Wire.lookup "x5t#S256" m = p.x5t256.map (fun b => Wire.str (encS o b))

/-- consistency the parser checks: url normal form, certificates parse, thumbprints match -/
structure CommonOK (o : Oracle) (p : CP) : Prop where
  url : ∀ u, p.x5u = some u → o ⟨"jwk.url.norm", [.str u]⟩ = .str u
  certs : CertsOK o p.certs
  t1 : ∀ t c, p.x5t = some t → p.certs.head? = some c → hashS o "sha1" c.raw = t
  t256 : ∀ t c, p.x5t256 = some t → p.certs.head? = some c → hashS o "sha256" c.raw = t

theorem run_getURL_opt (o : Oracle) (m : Obj) (n : String) (u : Option String)
    (h : Wire.lookup n m = u.map Wire.str) (hu : ∀ s, u = some s → o ⟨"jwk.url.norm", [.str s]⟩ = .str s) :
    (getURL m n).run o = .ok u := by
  cases u with
  | none => simp [getURL, run_getString_none o m n h]
  | some s => simp [getURL, run_getString_some o m n s h, hu s rfl]

theorem run_checkThumb (o : Oracle) (hash : String) (cs : List Cert) (t : Bytes)
    (h : ∀ c, cs.head? = some c → hashS o hash c.raw = t) : (checkThumb hash cs t).run o = .ok () := by
  cases cs with
  | nil => rfl
  | cons c rest => simp [checkThumb, h c rfl]

theorem strings_map' {α} (l : List α) (f : α → String) :
    strings (l.map fun c => Wire.str (f c)) = some (l.map f) := by
  induction l with
  | nil => rfl
  | cons a t ih => simp [strings, ih]

theorem run_decodeCommon (o : Oracle) (L : Laws o) (m : Obj) (kty : String) (p : CP)
    (V : CommonView o m kty p) (K : CommonOK o p) :
    (decodeCommon m).run o = .ok (p.key m kty) := by
  have hx5c : (getStringArray m "x5c").run o =
      .ok (if p.certs = [] then none else some (p.certs.map fun c => encStdS o c.raw)) := by
    by_cases he : p.certs = []
    · have := V.x5c; simp [he] at this; simp [getStringArray, this, he]
    · have := V.x5c; simp only [he, if_false] at this
      simp only [getStringArray, this, strings_map']
      simp [he]
  have hcerts : (decodeCerts ((if p.certs = [] then none else some (p.certs.map fun c => encStdS o c.raw)).getD [])).run o = .ok p.certs := by
    by_cases he : p.certs = []
    · simp [he, decodeCerts]
    · simp [he, run_decodeCerts o L p.certs K.certs]
  have h1 : ∀ t, p.x5t = some t → (checkThumb "sha1" p.certs t).run o = .ok () :=
    fun t ht => run_checkThumb o _ _ _ (fun c hc => K.t1 t c ht hc)
  have h2 : ∀ t, p.x5t256 = some t → (checkThumb "sha256" p.certs t).run o = .ok () :=
    fun t ht => run_checkThumb o _ _ _ (fun c hc => K.t256 t c ht hc)
  have g1 := run_getBytes_opt o L m "x5t" p.x5t V.x5t
  have g2 := run_getBytes_opt o L m "x5t#S256" p.x5t256 V.x5t256
  unfold decodeCommon checkThumbOpt
  cases ht : p.x5t with
  | none =>
    rw [ht] at g1
    cases ht2 : p.x5t256 with
    | none =>
      rw [ht2] at g2
      simp [run_mustString o m "kty" kty V.kty, run_getString_opt o m "kid" p.kid V.kid,
        run_getString_opt o m "use" p.use V.use, run_getStringArray_opt o m "key_ops" p.keyOps V.keyOps,
        run_getString_opt o m "alg" p.alg V.alg, run_getURL_opt o m "x5u" p.x5u V.x5u K.url, hx5c, hcerts,
        g1, g2, CP.key, ht, ht2]
    | some t2 =>
      rw [ht2] at g2
      simp [run_mustString o m "kty" kty V.kty, run_getString_opt o m "kid" p.kid V.kid,
        run_getString_opt o m "use" p.use V.use, run_getStringArray_opt o m "key_ops" p.keyOps V.keyOps,
        run_getString_opt o m "alg" p.alg V.alg, run_getURL_opt o m "x5u" p.x5u V.x5u K.url, hx5c, hcerts,
        g1, g2, CP.key, ht, ht2, h2 t2 ht2]
  | some t =>
    rw [ht] at g1
    cases ht2 : p.x5t256 with
    | none =>
      rw [ht2] at g2
      simp [run_mustString o m "kty" kty V.kty, run_getString_opt o m "kid" p.kid V.kid,
        run_getString_opt o m "use" p.use V.use, run_getStringArray_opt o m "key_ops" p.keyOps V.keyOps,
        run_getString_opt o m "alg" p.alg V.alg, run_getURL_opt o m "x5u" p.x5u V.x5u K.url, hx5c, hcerts,
        g1, g2, CP.key, ht, ht2, h1 t ht]
    | some t2 =>
      rw [ht2] at g2
      simp [run_mustString o m "kty" kty V.kty, run_getString_opt o m "kid" p.kid V.kid,
        run_getString_opt o m "use" p.use V.use, run_getStringArray_opt o m "key_ops" p.keyOps V.keyOps,
        run_getString_opt o m "alg" p.alg V.alg, run_getURL_opt o m "x5u" p.x5u V.x5u K.url, hx5c, hcerts,
        g1, g2, CP.key, ht, ht2, h1 t ht, h2 t2 ht2]

end C08
