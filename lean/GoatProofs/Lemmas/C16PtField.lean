import Mathlib.FieldTheory.Finite.Basic
import Mathlib.Tactic.LinearCombination
import Mathlib.Tactic.FieldSimp
import Mathlib.Tactic.Ring
import GoatProofs.C17
import Goat.Spec.Edwards448
/-
Field-level facts behind C16P: residues mod p = 2^448 − 2^224 − 1 as the field `ZMod q`
(primality of p is an explicit hypothesis `Nat.Prime q` wherever a field is needed), `powMod` is
modular exponentiation, the curve constant d = −39081 is a NON-SQUARE (Euler's criterion, evaluated
in the kernel), and the Edwards addition law with a non-square d is COMPLETE: its denominators
never vanish on curve points.
-/
namespace C16Pt
open Spec.Edwards448
set_option exponentiation.threshold 1000

/-- the field prime as a natural number -/
abbrev q : ℕ := 2 ^ 448 - 2 ^ 224 - 1
abbrev F := ZMod q

theorem p_eq_q : p = (q : ℤ) := by decide +kernel
theorem P_eq_p : Model.Fe448.P = p := rfl

theorem cast_p : ((p : ℤ) : F) = 0 := by
  rw [p_eq_q, Int.cast_natCast]; exact ZMod.natCast_self q

theorem cast_emod_p (x : ℤ) : ((x % p : ℤ) : F) = (x : F) := by
  rw [p_eq_q]; exact ZMod.intCast_mod x q

/-- congruence mod p is equality in `ZMod q` -/
theorem cong_iff (x y : ℤ) : C17.Cong x y ↔ ((x : F) = (y : F)) := by
  unfold C17.Cong
  rw [P_eq_p, p_eq_q, ZMod.intCast_eq_intCast_iff_dvd_sub]
  constructor
  · intro h; have : (y - x) = -(x - y) := by ring
    rw [this]; exact (Int.dvd_neg).mpr h
  · intro h; have : (x - y) = -(y - x) := by ring
    rw [this]; exact (Int.dvd_neg).mpr h

theorem emod_eq_iff (x y : ℤ) : x % p = y % p ↔ ((x : F) = (y : F)) := by
  rw [← cong_iff]; unfold C17.Cong; rw [P_eq_p]
  exact Int.emod_eq_emod_iff_emod_sub_eq_zero.trans Int.dvd_iff_emod_eq_zero.symm

/-- `powMod` is modular exponentiation -/
theorem powMod_cast : ∀ (f : ℕ) (a : ℤ) (e : ℕ), e < 2 ^ f → ((powMod p f a e : ℤ) : F) = (a : F) ^ e
  | 0, a, e, h => by
    have : e = 0 := by simpa using h
    subst this; simp [powMod, cast_emod_p]
  | f + 1, a, e, h => by
    unfold powMod
    by_cases he : e = 0
    · subst he; simp [cast_emod_p]
    · rw [if_neg he]
      have ih := powMod_cast f (a * a % p) (e / 2) (by rw [pow_succ] at h; omega)
      rw [cast_emod_p] at ih
      have hsplit : e = 2 * (e / 2) + e % 2 := by omega
      by_cases ho : e % 2 = 1
      · simp only [ho, if_true]
        rw [cast_emod_p]; push_cast; rw [ih]
        conv_rhs => rw [hsplit, ho]
        push_cast; rw [pow_succ, pow_mul]; ring
      · simp only [ho, if_false]
        rw [ih]
        conv_rhs => rw [hsplit, show e % 2 = 0 by omega]
        push_cast; rw [add_zero, pow_mul]; ring

theorem fpow_cast (a : ℤ) (e : ℕ) (h : e < 2 ^ 448) : ((fpow a e : ℤ) : F) = (a : F) ^ e :=
  powMod_cast 448 a e h

/-- Euler's criterion for d, evaluated in the kernel: d^((p−1)/2) = −1 (mod p) -/
theorem d_euler : powMod p 448 d ((q - 1) / 2) = p - 1 := by decide +kernel

theorem two_ne_zero_F : (2 : F) ≠ 0 := by
  intro h
  have : ((2 : ℤ) : F) = ((0 : ℤ) : F) := by push_cast; exact h
  rw [ZMod.intCast_eq_intCast_iff_dvd_sub] at this
  revert this; decide +kernel

section
variable (hp : Nat.Prime q)
include hp

/-- d = −39081 is not a square modulo p -/
theorem d_nonsquare : ¬ IsSquare ((d : ℤ) : F) := by
  have : Fact (Nat.Prime q) := ⟨hp⟩
  rintro ⟨r, hr⟩
  have h1 : ((d : ℤ) : F) ^ ((q - 1) / 2) = -1 := by
    rw [← powMod_cast 448 d ((q - 1) / 2) (by decide +kernel), d_euler]
    rw [Int.cast_sub, cast_p]; simp
  have hr0 : r ≠ 0 := by
    rintro rfl
    rw [hr] at h1
    have : (0 : F) * 0 = 0 := by ring
    rw [this, zero_pow (by decide +kernel)] at h1
    exact two_ne_zero_F (by linear_combination 2 * h1)
  have h2 : ((d : ℤ) : F) ^ ((q - 1) / 2) = 1 := by
    rw [hr, ← pow_two, ← pow_mul, show 2 * ((q - 1) / 2) = q - 1 by decide +kernel]
    exact ZMod.pow_card_sub_one_eq_one hr0
  rw [h1] at h2
  exact two_ne_zero_F (by linear_combination -h2)

end

/-- COMPLETENESS of the Edwards addition law for a non-square d: on curve points the
    denominators `1 ± d·x₁x₂y₁y₂` do not vanish (Bernstein–Lange, Faster addition and doubling on
    elliptic curves, Thm 3.3) -/
theorem edwards_complete {K : Type} [Field K] (d : K) (hd : ¬ IsSquare d) (h2 : (2 : K) ≠ 0)
    {x1 y1 x2 y2 : K} (c1 : x1 ^ 2 + y1 ^ 2 = 1 + d * x1 ^ 2 * y1 ^ 2)
    (c2 : x2 ^ 2 + y2 ^ 2 = 1 + d * x2 ^ 2 * y2 ^ 2) :
    1 + d * x1 * x2 * y1 * y2 ≠ 0 ∧ 1 - d * x1 * x2 * y1 * y2 ≠ 0 := by
  have key : ∀ e : K, e = d * x1 * x2 * y1 * y2 → e ^ 2 = 1 → False := by
    intro e he hee
    have hx1 : x1 ≠ 0 := by
      rintro rfl; rw [he] at hee; simp at hee
    have hy1 : y1 ≠ 0 := by
      rintro rfl; rw [he] at hee; simp at hee
    have hx2 : x2 ≠ 0 := by
      rintro rfl; rw [he] at hee; simp at hee
    have hk : d * x1 ^ 2 * y1 ^ 2 * (x2 ^ 2 + y2 ^ 2) = x1 ^ 2 + y1 ^ 2 := by
      rw [he] at hee
      linear_combination (d * x1 ^ 2 * y1 ^ 2) * c2 + hee - c1
    have hplus : (x1 + e * y1) ^ 2 = d * (x1 * y1 * (x2 + y2)) ^ 2 := by
      have : (x1 + e * y1) ^ 2 = x1 ^ 2 + e ^ 2 * y1 ^ 2 + 2 * e * x1 * y1 := by ring
      rw [this, hee, he]; linear_combination -hk
    have hminus : (x1 - e * y1) ^ 2 = d * (x1 * y1 * (x2 - y2)) ^ 2 := by
      have : (x1 - e * y1) ^ 2 = x1 ^ 2 + e ^ 2 * y1 ^ 2 - 2 * e * x1 * y1 := by ring
      rw [this, hee, he]; linear_combination -hk
    by_cases hs : x2 + y2 = 0
    · by_cases hm : x2 - y2 = 0
      · apply hx2
        have : 2 * x2 = 0 := by linear_combination hs + hm
        rcases mul_eq_zero.mp this with h | h
        · exact absurd h h2
        · exact h
      · apply hd
        have hw : x1 * y1 * (x2 - y2) ≠ 0 := mul_ne_zero (mul_ne_zero hx1 hy1) hm
        refine ⟨(x1 - e * y1) / (x1 * y1 * (x2 - y2)), ?_⟩
        field_simp
        linear_combination -hminus
    · apply hd
      have hw : x1 * y1 * (x2 + y2) ≠ 0 := mul_ne_zero (mul_ne_zero hx1 hy1) hs
      refine ⟨(x1 + e * y1) / (x1 * y1 * (x2 + y2)), ?_⟩
      field_simp
      linear_combination -hplus
  constructor
  · intro h
    exact key (d * x1 * x2 * y1 * y2) rfl (by linear_combination (d * x1 * x2 * y1 * y2 - 1) * h)
  · intro h
    exact key (d * x1 * x2 * y1 * y2) rfl (by linear_combination (-(d * x1 * x2 * y1 * y2) - 1) * h)

end C16Pt
