import GoatProofs.Lemmas.C11Crit
/-
C11 — crit validation at message level (parsers of every serialisation).
-/
namespace C11
open Model.HeaderTable Model.Header Gen.HeaderTables

theorem jws_guarded : critGuarded jws.knownParams jws.decSteps = true := by decide
theorem jwe_guarded : critGuarded jwe.knownParams jwe.decSteps = true := by decide

/-- every header of the signature passed the crit validation -/
def SigCritOK (s : Sig) : Prop :=
  (∀ h, s.prot = some h → critOK jws.knownParams h.crit = true) ∧
  (∀ h, s.header = some h → critOK jws.knownParams h.crit = true)

theorem jwsParseCompact_crit (o : Oracle) (segs : List String) (m : Msg)
    (h : (jwsParseCompact segs).run o = .ok m) :
    ∀ s ∈ m.sigs, s.header = none ∧ SigCritOK s := by
  unfold jwsParseCompact at h
  split at h
  · obtain ⟨raw, _, h⟩ := PO.run_bind_eq_ok _ _ _ _ h
    obtain ⟨hd, hhd, h⟩ := PO.run_bind_eq_ok _ _ _ _ h
    obtain ⟨_, _, h⟩ := PO.run_bind_eq_ok _ _ _ _ h
    simp at h
    subst h
    intro s hs
    simp at hs
    subst hs
    refine ⟨rfl, ?_, ?_⟩
    · intro h' e; simp at e; subst e
      exact unmarshalWith_crit o _ _ jws_guarded _ _ hhd
    · intro h' e; simp at e
  · simp at h

theorem parseSig_crit (o : Oracle) (w : Wire) (r : Sig × Option Bool)
    (h : (parseSig w).run o = .ok r) : SigCritOK r.1 := by
  unfold parseSig at h
  split at h
  · obtain ⟨prot, hprot, h⟩ := PO.run_bind_eq_ok _ _ _ _ h
    obtain ⟨hdr, hhdr, h⟩ := PO.run_bind_eq_ok _ _ _ _ h
    have hp : ∀ hh, prot.1 = some hh → critOK jws.knownParams hh.crit = true := by
      intro hh e
      split at hprot
      · simp at hprot; rw [← hprot] at e; simp at e
      · obtain ⟨raw, _, hprot⟩ := PO.run_bind_eq_ok _ _ _ _ hprot
        obtain ⟨h0, hh0, hprot⟩ := PO.run_bind_eq_ok _ _ _ _ hprot
        simp at hprot; rw [← hprot] at e; simp at e; subst e
        exact unmarshalWith_crit o _ _ jws_guarded _ _ hh0
      · simp at hprot
    have hu : ∀ hh, hdr = some hh → critOK jws.knownParams hh.crit = true := by
      intro hh e
      split at hhdr
      · simp at hhdr; rw [← hhdr] at e; simp at e
      · obtain ⟨h0, hh0, hhdr⟩ := PO.run_bind_eq_ok _ _ _ _ hhdr
        simp at hhdr; rw [← hhdr] at e; simp at e; subst e
        exact decodeWith_crit o _ _ jws_guarded _ _ hh0
      · simp at hhdr
    split at h
    · simp at h
    · obtain ⟨_, _, h⟩ := PO.run_bind_eq_ok _ _ _ _ h
      simp at h
      rw [← h]
      exact ⟨hp, hu⟩
    · simp at h
  · simp at h

theorem parseSigs_crit (o : Oracle) (ws : List Wire) (i : Nat) (nb : Bool) (r : List Sig × Bool)
    (h : (parseSigs ws i nb).run o = .ok r) : ∀ s ∈ r.1, SigCritOK s := by
  induction ws generalizing i nb r with
  | nil => simp [parseSigs] at h; rw [← h]; simp
  | cons w rest ih =>
    unfold parseSigs at h
    obtain ⟨r1, hr1, h⟩ := PO.run_bind_eq_ok _ _ _ _ h
    obtain ⟨nb', _, h⟩ := PO.run_bind_eq_ok _ _ _ _ h
    obtain ⟨rs, hrs, h⟩ := PO.run_bind_eq_ok _ _ _ _ h
    simp at h
    rw [← h]
    intro s hs
    simp at hs
    rcases hs with e | hs
    · subst e; exact parseSig_crit o w r1 hr1
    · exact ih _ _ _ hrs s hs

theorem jwsParseObj_crit (o : Oracle) (raw : List (String × Wire)) (m : Msg)
    (h : (jwsParseObj raw).run o = .ok m) : ∀ s ∈ m.sigs, SigCritOK s := by
  unfold jwsParseObj at h
  obtain ⟨_, _, h⟩ := PO.run_bind_eq_ok _ _ _ _ h
  obtain ⟨arr, _, h⟩ := PO.run_bind_eq_ok _ _ _ _ h
  obtain ⟨r, hr, h⟩ := PO.run_bind_eq_ok _ _ _ _ h
  simp at h
  rw [← h]
  exact parseSigs_crit o _ _ _ r hr

theorem jwsParseJSON_crit (o : Oracle) (data : Bytes) (m : Msg)
    (h : (jwsParseJSON data).run o = .ok m) : ∀ s ∈ m.sigs, SigCritOK s := by
  unfold jwsParseJSON at h
  obtain ⟨raw, _, h⟩ := PO.run_bind_eq_ok _ _ _ _ h
  split at h
  · exact jwsParseObj_crit o _ m h
  · exact jwsParseObj_crit o _ m h
  · simp at h

/-! ### JWE -/

theorem jweDecodeOpt_crit (o : Oracle) (w : Option Wire) (h : Header)
    (hd : (jweDecodeOpt w).run o = .ok h) : critOK jwe.knownParams h.crit = true := by
  unfold jweDecodeOpt at hd
  split at hd <;> exact decodeWith_crit o _ _ jwe_guarded _ _ hd

theorem parseRecipients_crit (o : Oracle) (ws : List Wire) (rs : List Recipient)
    (h : (parseRecipients ws).run o = .ok rs) : ∀ r ∈ rs, ∃ hd, r.header = some hd ∧ hd.crit = [] := by
  induction ws generalizing rs with
  | nil => simp [parseRecipients] at h; subst h; simp
  | cons w rest ih =>
    unfold parseRecipients at h
    obtain ⟨hd, _, h⟩ := PO.run_bind_eq_ok _ _ _ _ h
    split at h
    · simp at h
    · rename_i hlen
      obtain ⟨_, _, h⟩ := PO.run_bind_eq_ok _ _ _ _ h
      obtain ⟨rs', hrs', h⟩ := PO.run_bind_eq_ok _ _ _ _ h
      simp at h
      rw [← h]
      intro r hr
      simp at hr
      rcases hr with e | hr
      · subst e
        refine ⟨hd, rfl, ?_⟩
        simpa using hlen
      · exact ih _ hrs' r hr

theorem jweParseJSON_crit (o : Oracle) (data : Bytes) (m : JweMsg)
    (h : (jweParseJSON data).run o = .ok m) :
    (∃ p, m.prot = some p ∧ critOK jwe.knownParams p.crit = true) ∧
    (∃ u, m.unprotected = some u ∧ u.crit = []) ∧
    (∀ r ∈ m.recipients, ∃ hd, r.header = some hd ∧ hd.crit = []) := by
  unfold jweParseJSON at h
  obtain ⟨raw, _, h⟩ := PO.run_bind_eq_ok _ _ _ _ h
  split at h
  · obtain ⟨_, _, h⟩ := PO.run_bind_eq_ok _ _ _ _ h
    obtain ⟨p, hp, h⟩ := PO.run_bind_eq_ok _ _ _ _ h
    obtain ⟨u, _, h⟩ := PO.run_bind_eq_ok _ _ _ _ h
    split at h
    · simp at h
    · rename_i hlen
      obtain ⟨_, _, h⟩ := PO.run_bind_eq_ok _ _ _ _ h
      obtain ⟨_, _, h⟩ := PO.run_bind_eq_ok _ _ _ _ h
      obtain ⟨_, _, h⟩ := PO.run_bind_eq_ok _ _ _ _ h
      obtain ⟨rs, hrs, h⟩ := PO.run_bind_eq_ok _ _ _ _ h
      simp at h
      rw [← h]
      refine ⟨⟨p, rfl, unmarshalWith_crit o _ _ jwe_guarded _ _ hp⟩, ⟨u, rfl, by simpa using hlen⟩, ?_⟩
      exact parseRecipients_crit o _ rs hrs
  · simp at h

theorem jweParseCompact_crit (o : Oracle) (segs : List String) (m : JweMsg)
    (h : (jweParseCompact segs).run o = .ok m) :
    (∃ p, m.prot = some p ∧ critOK jwe.knownParams p.crit = true) ∧ m.unprotected = none ∧
    (∀ r ∈ m.recipients, r.header = none) := by
  unfold jweParseCompact at h
  split at h
  · obtain ⟨_, _, h⟩ := PO.run_bind_eq_ok _ _ _ _ h
    obtain ⟨p, hp, h⟩ := PO.run_bind_eq_ok _ _ _ _ h
    obtain ⟨_, _, h⟩ := PO.run_bind_eq_ok _ _ _ _ h
    obtain ⟨_, _, h⟩ := PO.run_bind_eq_ok _ _ _ _ h
    obtain ⟨_, _, h⟩ := PO.run_bind_eq_ok _ _ _ _ h
    obtain ⟨_, _, h⟩ := PO.run_bind_eq_ok _ _ _ _ h
    simp at h
    rw [← h]
    refine ⟨⟨p, rfl, unmarshalWith_crit o _ _ jwe_guarded _ _ hp⟩, rfl, ?_⟩
    intro r hr; simp at hr; subst hr; rfl
  · simp at h

end C11
